#!/bin/sh
# usage: tools/confirm_mut.sh <mutout-dir> <pkg-dir-for-demo_test.go> <seeded-id>
# Confirms a seeded change in a scratch worktree: suite passes with it, demo fails with it and passes without it.
# On success stores it under /verif/seeded/<seeded-id>/.
set -u
M=$1; PKG=$2; ID=$3
export GOFLAGS=-mod=mod GOPROXY=off GOSUMDB=off GOTOOLCHAIN=local
W=/tmp/confirm-$$
git -C /repo worktree add -q --detach $W HEAD || exit 2
cd $W
ok=1
git apply "$M/patch.diff" || { echo "PATCH DOES NOT APPLY"; ok=0; }
if [ $ok = 1 ]; then
  go build ./... || ok=0
  go test -vet=off -count=1 $(go list ./... | grep -v sgip12) > /tmp/confirm-suite.$$ 2>&1 && echo "suite with change: PASS" || { echo "suite with change: FAIL"; tail -20 /tmp/confirm-suite.$$; ok=0; }
  cp "$M/demo_test.go" "$PKG/zz_demo_test.go"
  if go test -vet=off -count=1 -run . ./$PKG > /tmp/confirm-demo1.$$ 2>&1; then echo "demo with change: PASS (unexpected)"; ok=0; else echo "demo with change: FAIL (expected)"; fi
  git apply -R "$M/patch.diff"
  if go test -vet=off -count=1 -run . ./$PKG > /tmp/confirm-demo2.$$ 2>&1; then echo "demo without change: PASS (expected)"; else echo "demo without change: FAIL (unexpected)"; tail -20 /tmp/confirm-demo2.$$; ok=0; fi
fi
cd /verif
git -C /repo worktree remove --force $W
rm -f /tmp/confirm-*.$$
if [ $ok = 1 ]; then
  mkdir -p /verif/seeded/$ID && cp "$M/patch.diff" "$M/demo_test.go" /verif/seeded/$ID/ && cp "$M/meta.json" /verif/seeded/$ID/meta.agent.json
  echo "CONFIRMED -> /verif/seeded/$ID"
else
  echo "NOT CONFIRMED"
fi
