#!/usr/bin/env python3
"""Runs every seeded change under /verif/seeded/<id>/ against the checks that should catch it and
writes /verif/seeded/<id>/meta.json (which property it breaks, what it needs in order to manifest,
what was run, which checks reported it).  The change is applied to /repo with `git apply`, the
checks run, the tree is restored with `git checkout -- .`; evidence files are saved and restored
(committed evidence must come from the unchanged tree).

usage: tools/seeded_run.py [<seeded-id> ...]      (default: all)"""
import json, os, re, shutil, subprocess, sys

V = os.path.dirname(os.path.dirname(os.path.abspath(__file__)))
# besides the check of the property in the directory name
ALSO = {
    "C01-tlvs-u16-sum": ["C16"], "C02-readbytes-zero-len-eof": ["C16", "C11", "C20"], "C03-cstringn-early-return": ["C20"],
    "C11-pk-default-or": ["C01"], "C11-tlv-zero-length-dropped": ["C16"], "C16-tlvs-skip-empty": ["C11"],
    "C05-unpack-s8-test": ["C08"], "C18-trim-trailing-nul": [], "C13-writer-double-put": [],
    "C06-boundary-before-fallback": ["C14"], "C18-index-in-lowered-copy": ["C03"], "C16-serialize-full-value": ["C11"],
    "C20-fixed-pad-written-count": ["C01"], "C10-cmpp30-activetest-fastpath": ["C03"],
    "C03-parse-header7-guard": ["C07"], "C11-cmpp20-dest-u8-product": ["C01", "C02"], "C02-smgp-submit-time-order": ["C01"],
    "C14-boundary-hoisted-before-fallback": ["C06"], "C08-validator-ascii-fastpath": ["C05", "C09"], "C12-private-writer-no-copy": ["C13"],
    "C07-header7-only-rejected": ["C03"],
    "C10-smgp-activetest-shared-resp": ["C13"], "C09-canencode-after-split-error": ["C07"], "C06-packed-fastpath-no-boundary": ["C14"],
    "C20-readuint8-fastpath-after-error": ["C03"], "C16-readtlvs-remaining-u16": ["C01", "C11"], "C01-smgp-options-trailing-empty": ["C16", "C11"],
    "C15-connectresp-trim-digest": ["C01"], "C06-packed-fallback-uses-requested-coding": ["C07"], "C10-sgip-report-resp-node-word": [],
    "C16-readoptions-trailing-empty": ["C01"], "C01-deliversm-receipt-trim": ["C11"], "C18-report-dest-20-of-21": ["C01"], "C11-cmpp30-dest-clamp-and-pad": ["C03"],
    "C17-string-parse-prefix-cache": ["C13"], "C07-ucs2-boundary-low-surrogate": ["C14", "C06"], "C08-unpack-eighth-septet-test": ["C05"],
    "C14-packed-boundary-skipped-when-lengths-equal": ["C06", "C07"],
    "C20-readexactly-buffer-view": ["C12"], "C04-shared-prefix-scratch": ["C13"], "C16-tlv-bytes-u16-sum": ["C01"], "C02-cmpp30-dest-cut-unbounded": ["C01", "C11"],
    "C11-submitsmresp-body-omitted-on-error": ["C01", "C02"], "C06-pack-filler-on-full-octets": ["C08", "C05"], "C01-bindresp-header-only-drops-tlvs": ["C11", "C02"],
    "C16-readbytes-zero-length-eof": ["C20", "C01"], "C05-smpp-decode-coding-truncated-to-octet": [], "C14-batch-ascii-fastpath-no-boundary": ["C09", "C06"],
    "C06-gb18030-pooled-result": ["C12", "C13", "C05"], "C08-stream-encoder-pending-survives-reset": ["C05"], "C02-readtlvs-zero-length-last-dropped": ["C16", "C11"],
    "C11-readfixed-leading-nul-is-unset": ["C01", "C15", "C20"], "C09-validator-octet-walk-skips": ["C08"], "C03-receipt-lookup-in-lowered-copy": ["C18"],
    "C19-period-cache-ignores-form": ["C13"], "C17-string-scratch-stale-units": ["C13"], "C15-respauth-append-into-caller-slice": ["C12"], "C04-frame-buffer-pool-not-reset-on-error": ["C13"],
    "C07-smpp-fallback-keeps-requested-limits": ["C06", "C14"], "C20-small-read-scratch": ["C12"], "C01-dispatcher-shared-enquirelink": ["C10", "C13", "C12"], "C18-writer-exact-hint-no-copy": ["C12", "C01"],
    "C10-writer-bytes-returns-pooled-buffer": ["C12", "C01", "C13"], "C12-stringer-truncates-in-place": ["C13"],
    "C08-decode-pooled-builder": ["C12", "C05", "C13"], "C05-unpacked-decoder-partial-progress": ["C08"], "C16-parseoptions-values-share-array": ["C12"], "C06-ucs2-handwritten-surrogates": ["C05", "C14"],
    "C02-fixedlen-padding-partly-cleared": ["C01", "C20"], "C11-writer-pool-keeps-error": ["C01", "C20", "C13"], "C03-packed-decoder-escape-check-hoisted": ["C08"], "C13-status-text-cache": [],
    "C07-batch-fallback-drops-reference": ["C09"], "C09-ucs2-boundary-mask-low-surrogate": ["C14", "C07"], "C14-cutpoints-grid-begin": ["C07", "C06"],
    "C05-unpack-last-group-hoisted": ["C08", "C06"], "C07-refuse-by-naive-count": ["C14"],
    "C10-enquirelink-embedded-resp": ["C12", "C13"], "C15-respauth-append-status-slice": ["C12"],
    "C06-gb18030-lead-0x81-single": ["C14"], "C16-parseoptions-end-u16-sum": ["C03"], "C04-blocked-prefill-body-vs-total": [], "C02-cmpp20-submit-length-tail-u8": ["C01", "C11"],
    "C14-boundary-rule-picked-before-fallback": ["C06"], "C03-cmpp20-dest-bulk-read-u8": ["C01"], "C11-tlv-buffer-clamped-to-remaining": ["C16", "C03"],
    "C12-reader-stages-in-pooled-buffer": ["C13", "C20"],
    "C20-fixed-pad-256-helper": ["C01"], "C19-truncate-before-sign-check": [], "C08-encoder-keeps-septets-after-short-dst": ["C05"], "C09-origin-dropped-same-wire-value": [],
    "C13-writer-abort-double-release": ["C12"], "C01-tlvs-bytes-u16-accumulator": ["C16"],
    "C12-reader-scratch-view": ["C13"], "C13-shared-sorter": ["C09"], "C07-total-from-size": ["C06"], "C03-cmpp20-dest-block-u8": ["C01"],
}


def sh(cmd, **kw):
    return subprocess.run(cmd, stdout=subprocess.PIPE, stderr=subprocess.STDOUT, text=True, **kw)


def main():
    ids = sys.argv[1:] or sorted(os.listdir(os.path.join(V, "seeded")))
    head = sh(["git", "-C", "/repo", "rev-parse", "--short", "HEAD"]).stdout.strip()
    if sh(["git", "-C", "/repo", "status", "--porcelain"]).stdout.strip():
        print("refusing: /repo has local changes"); return 2
    save = os.path.join(V, ".cache", "evidence.save")
    shutil.rmtree(save, ignore_errors=True)
    shutil.copytree(os.path.join(V, "evidence"), save)
    summary = []
    try:
        for sid in ids:
            d = os.path.join(V, "seeded", sid)
            patch = os.path.join(d, "patch.diff")
            if not os.path.exists(patch):
                continue
            prop = sid[:3]
            agent = {}
            if os.path.exists(os.path.join(d, "meta.agent.json")):
                agent = json.load(open(os.path.join(d, "meta.agent.json")))
            r = sh(["git", "-C", "/repo", "apply", patch])
            if r.returncode != 0:
                summary.append((sid, "PATCH DOES NOT APPLY")); print(sid, "patch does not apply:", r.stdout[-300:]); continue
            detected = {}
            try:
                for c in [prop] + ALSO.get(sid, []):
                    out = sh([os.path.join(V, "check"), c, "quick"], cwd=V).stdout
                    viol = re.findall(r"^VIOLATION property=\S+ replay=(\S+)(.*)$", out, re.M)
                    classes = []
                    for path, rest in viol:
                        try:
                            what = json.load(open(path)).get("what", "")
                        except Exception:
                            what = ""
                        m = re.match(r"\[([^\]]+)\]", what)
                        classes.append((m.group(1) if m else what[:80]) + (" (no-failing-input-found)" if "no-failing-input-found" in rest else ""))
                    last = [l for l in out.splitlines() if l.startswith(c + " ")]
                    detected[c] = dict(reported=bool(viol), classes=sorted(set(classes))[:8], summary=(last[-1] if last else "")[:200])
            finally:
                sh(["git", "-C", "/repo", "checkout", "--", "."]); sh(["git", "-C", "/repo", "clean", "-fdq"])  # a patch may add files
            meta = dict(
                id=sid, breaks_property=prop, base_commit=head,
                what_was_changed=agent.get("summary", ""),
                needs_to_manifest=agent.get("needs", ""),
                produced_by="a sub-agent given only the property text and a scratch worktree; its own run: " + agent.get("how_run", "")[:1500],
                confirmed_by="tools/confirm_mut.sh in a scratch worktree of /repo at its then HEAD: (1) go build ./... and the stable test suite pass with the change, (2) demo_test.go fails with the change, (3) demo_test.go passes without it",
                checks_run="git -C /repo apply patch.diff; ./check <id> quick for " + ", ".join(detected) + "; git -C /repo checkout -- .",
                detected=detected,
            )
            json.dump(meta, open(os.path.join(d, "meta.json"), "w"), indent=1, ensure_ascii=False)
            ok = detected.get(prop, {}).get("reported", False)
            summary.append((sid, "caught by " + ", ".join(c for c, v in detected.items() if v["reported"]) if any(v["reported"] for v in detected.values()) else "MISSED"))
            print(sid, summary[-1][1], "" if ok else "(own check silent)", flush=True)
    finally:
        sh(["git", "-C", "/repo", "checkout", "--", "."]); sh(["git", "-C", "/repo", "clean", "-fdq"])  # a patch may add files
        shutil.rmtree(os.path.join(V, "evidence"), ignore_errors=True)
        shutil.move(save, os.path.join(V, "evidence"))
        sh([os.path.join(V, "bin", "extract")], cwd=V)
    # the summary always covers every seeded change (from the meta files)
    allsum = []
    for sid in sorted(os.listdir(os.path.join(V, "seeded"))):
        mp = os.path.join(V, "seeded", sid, "meta.json")
        if os.path.exists(mp):
            m = json.load(open(mp))
            caught = [c for c, v in m["detected"].items() if v["reported"]]
            allsum.append((sid, ("caught by " + ", ".join(caught)) if caught else "MISSED"))
    json.dump(allsum, open(os.path.join(V, "seeded", "SUMMARY.json"), "w"), indent=1)
    return 0


if __name__ == "__main__":
    sys.exit(main())
