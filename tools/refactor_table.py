#!/usr/bin/env python3
"""Rewrites the table of DESIGN.md section 8.8 from refactorings/<id>/result.json."""
import json, os, re
V = os.path.dirname(os.path.dirname(os.path.abspath(__file__)))
rows = []
root = os.path.join(V, "refactorings")
for rid in sorted(os.listdir(root)):
    rp = os.path.join(root, rid, "result.json")
    if not os.path.exists(rp):
        continue
    r = json.load(open(rp))
    area = re.sub(r"\s+", " ", r.get("area", ""))[:110].replace("|", "/")
    rows.append(f"| `{rid}` | {area} | {'passes' if r['suite_passes'] else 'FAILS'} | {', '.join(r['alarms']) if r['alarms'] else 'none'} |")
p = os.path.join(V, "DESIGN.md")
s = open(p).read()
head = "| refactoring | area | suite | checks that raised a VIOLATION |\n|---|---|---|---|\n"
i = s.index(head) + len(head)
j = s.index("\n\n", i)
s = s[:i] + "\n".join(rows) + s[j:]
open(p, "w").write(s)
print(len(rows), "rows")
