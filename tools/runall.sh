#!/bin/sh
# runs every claimed check (quick) on the current tree, in sequence; prints one line per check
cd /verif
for c in $(python3 -c "import json;print(' '.join(x['property_id'] for x in json.load(open('MANIFEST.json'))['checks']))"); do
  ./check $c ${1:-quick} 2>&1 | grep -v "^KNOWN-FINDING\|^note:" | tail -1 | cut -c1-200
done
