#!/bin/sh
# Records the layouts of the unchanged tree for the harness's input generators (used only for types whose
# regenerated translation has unsupported nodes). Run on a clean /repo after every fix: commit.
set -e
cd /verif
[ -z "$(git -C /repo status --porcelain)" ] || { echo "refusing: /repo has local changes"; exit 2; }
bin/extract > /dev/null
cp lean/SmsVerif/Gen/layouts.json go/harness/layouts.baseline.json
echo "baseline layouts: $(git -C /repo rev-parse --short HEAD)"
