#!/bin/sh
# Runs the repository's pinned suite with the verif guard OFF and compares with /root/.vp/BASELINE.json stable_pass.
export GOFLAGS=-mod=mod GOPROXY=off GOSUMDB=off GOTOOLCHAIN=local
cd /repo || exit 2
go test -mod=mod -json -vet=off -count=1 -timeout 25m ./... > /tmp/verif-baseline.$$.json 2>/dev/null
python3 - /tmp/verif-baseline.$$.json <<'PY'
import json,sys
passed=set()
for l in open(sys.argv[1]):
    try: e=json.loads(l)
    except Exception: continue
    if e.get('Action')=='pass' and e.get('Test'): passed.add(e['Package']+'::'+e['Test'])
want=json.load(open('/root/.vp/BASELINE.json'))['stable_pass']
miss=[w for w in want if w not in passed]
print(f"baseline: {len(want)-len(miss)}/{len(want)} stable tests pass")
for m in miss[:20]: print("  MISSING/FAILED:", m)
sys.exit(1 if miss else 0)
PY
rc=$?
rm -f /tmp/verif-baseline.$$.json
exit $rc
