#!/bin/sh
# Re-confirms every seeded change on /repo's current HEAD (after fix: commits): the suite passes with it, its
# demonstration fails with it and passes without it. Prints one line per change; NOT CONFIRMED needs attention.
cd /verif
for d in seeded/*/; do
  id=$(basename $d)
  [ -f $d/demo_test.go ] || { echo "$id: no demo_test.go (confirmed by hand)"; continue; }
  pk=$(grep -m1 '^package ' $d/demo_test.go | awk '{print $2}' | sed 's/_test$//')
  case $pk in
    protocol) dir=. ;; cmpp) dir=cmpp ;; cmpp20) dir=cmpp/cmpp20 ;; cmpp30) dir=cmpp/cmpp30 ;; smgp) dir=smgp ;; smgp30) dir=smgp/smgp30 ;;
    smpp) dir=smpp ;; smpp34) dir=smpp/smpp34 ;; sgip) dir=sgip ;; sgip12) dir=sgip/sgip12 ;; packet) dir=packet ;; codec) dir=codec ;;
    datacoding) dir=datacoding ;; gsm7encoding) dir=datacoding/gsm7encoding ;; *) echo "$id: unknown package $pk"; continue ;;
  esac
  mkdir -p /tmp/reconf/$id; cp $d/patch.diff $d/demo_test.go /tmp/reconf/$id/; cp $d/meta.agent.json /tmp/reconf/$id/meta.json 2>/dev/null || echo '{}' > /tmp/reconf/$id/meta.json
  r=$(tools/confirm_mut.sh /tmp/reconf/$id $dir $id 2>&1 | tail -1)
  echo "$id: $r"
done
