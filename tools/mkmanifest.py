#!/usr/bin/env python3
"""Regenerates /verif/MANIFEST.json from the table below (kept in one place so it is always valid)."""
import json, os
V = os.path.dirname(os.path.dirname(os.path.abspath(__file__)))

# id -> (technique, level text, level note, design ref)
PROOF_NOTE = "Lean 4.33 kernel; axioms propext/Quot.sound/Classical.choice only (audited per run); translator go/extract and the layout interpreter Model/Layout.lean validated against the real IEncode/IDecode by the correspondence run; Go runtime/stdlib modelled (DESIGN.md 2.6)."
CLAIMED = {
 "C12": ("Lean 4 theorem over a heap-and-pool model of call histories (decode / encode / String / helpers, caller overwriting every input buffer and reusing outputs): by induction over the history with a separation invariant (results, pool, inputs pairwise disjoint) every returned result keeps its value, given that every primitive hands out fresh storage; per-run `decide` that no decode statement of any regenerated layout keeps a reference into the input; the ownership facts themselves (Writer.Bytes copies out, Reader.ReadNBytes / ReadOptions / ReadTLVs allocate, ParseOptions copies, Stringer builder reset) are hand-written and compared on every run with pointer-overlap and overwrite observations on the implementation; ledger-based history exploration on the real code",
         "Partial: the theorem is about the model's heap; that Go's allocator returns storage no live object uses, and that bytebufferpool / sync.Pool never hand one buffer to two holders, are assumptions. The tie for the facts is observational (reflect-based pointer overlap of every []byte reachable from a decoded PDU against the input buffer; behavioural overwrite tests for the pooled buffers), plus histories of 400 (1000 thorough) mixed calls with a ledger of deep copies re-verified after every call.",
         PROOF_NOTE + " Go runtime memory management modelled.", "DESIGN.md 4/C12"),
 "C02": ("Lean 4: field tables of the five protocol documents transcribed by hand (Spec/Tables.lean, from text extracts of doc/*.pdf) with one reference serialiser; theorem that every regenerated layout is its table (`decide` per run) and therefore IEncode = reference serialisation for every fitting field assignment; hand-computed CMPP 2.0 length formulas linearised with Go's fixed-width arithmetic explicit and proved equal to the image size (refuses products that can wrap); header offsets and length prefix as theorems about the reference serialiser; decode of the reference image via the round-trip theorem; three-way correspondence IEncode / independent Go table-driven serialiser / Spec.wire over the count x length grid",
         "Unbounded proof on the model for every PDU type and every fitting field assignment, including every destination count and body length. What is trusted: the transcription of the documents (reviewable: spec-src/*.txt beside Spec/Tables.lean; SMPP responses without body on non-zero status are outside the quantifier) and the binding column. The implementation is compared octet for octet with a second, independent serialiser in Go over the full 256x256 grid (thorough) or its diagonal, edges and 3000 random cells (quick) for every PDU with a list and/or body, and IDecode is run on reference images.",
         PROOF_NOTE + " Command ids of the documents compared with GetCommand() on the implementation.", "DESIGN.md 4/C02"),
 "C03": ("Lean 4 theorems on the layout interpreter over every regenerated PDU decoder and every octet string: the only outcomes are a PDU or an error (no panic, no unmodelled statement; termination by the kernel, optional-parameter loops by input-bounded fuel), allocator requests <= input length + 65,790 (reader never requests unseen octets; count/length fields bounded by their declared width), success implies the fixed-width mandatory part was present; correspondence plus in-process execution of all 58 decoders, 5 dispatchers, ~30 auxiliary parsers and both frame extractors on structured malformed images with panic / deadline / runtime.MemStats capture",
         "Unbounded proof on the model for all byte strings and all PDU types (per-run `decide` over the regenerated layouts). The Go side of 'no panic / no hang / bounded allocation' is observed, not proved: every truncation point, length/count substitutions, inconsistent and hostile declared lengths, garbage and optional tails for each PDU type; auxiliary parsers on all strings of <= 2 octets, branch alphabets to length 4 (6 thorough) and random strings. The truncation theorem covers the fixed-width mandatory minimum; rejection of every proper prefix of the variable mandatory part is checked on the implementation. Coverage-guided fuzzing is not used (structure-directed enumeration instead).",
         PROOF_NOTE + " Allocation is modelled as requested octets/slots; Go runtime allocation (TotalAlloc) is measured against 64*len+256KiB.", "DESIGN.md 4/C03"),
 "C11": ("Lean 4 theorems on the layout interpreter: re-encoding a decoded canonical image reproduces it (corollary of the reflective round-trip theorem), the only receiver normalisations are the documented ones (by `decide` over the regenerated layouts), same fields give the same octets; stability on arbitrary accepted images (junk after NULs, inconsistent counts, duplicate tags, maximum-length optional values) by decode->encode->decode chains on the implementation, compared with the model",
         "Proof for canonical images of every PDU type outside the recorded SMGP exceptions; for non-canonical accepted images the chain is executed on the implementation for mutated images of every PDU type (partial: `decoded_fits`, that whatever a decoder accepts fits the encoder's preconditions, is not yet a theorem).",
         PROOF_NOTE, "DESIGN.md 4/C11"),
 "C09": ("Lean 4 theorems quantifying over every enumeration order and every output of a sorting routine that satisfies sort.Sort's contract (permutation + sortedness): the head is the unique minimum by (parts, priority), hence a function of the candidate set; priority tables regenerated from init() and shown injective by `decide`; fallback / error clauses on the model; correspondence and direct comparison with an independent reference selection under shuffled orders, duplicates and GOMAXPROCS 1..16",
         "The adversary (map iteration order, goroutine completion, the sort algorithm) is a universally quantified permutation in the theorems; what is proved is determinism and minimality of the selection. That the goroutines Build starts share no mutable state is a Go memory-model fact outside the model: each request is re-run under shuffled order, duplicates and four GOMAXPROCS settings and compared (see C13 for the race detector runs).",
         PROOF_NOTE + " sort.Sort assumed to satisfy its contract; errgroup / goroutine scheduling sampled.", "DESIGN.md 4/C09"),
 "C05": ("Lean 4: generic theorem that a per-scalar prefix code round-trips whole texts and refuses any text containing a scalar outside its repertoire; instances proved for ASCII, UTF-16BE with surrogate pairs (arithmetic lemma) and GSM 7-bit (regenerated tables); coding selection / decoder pairing by `decide` over 0..255; Windows-1252 and GB18030 (golang.org/x/text) covered by exhaustive per-scalar execution, not by the kernel (partial)",
         "Proof for ASCII, UCS-2/UTF-16 and GSM 7-bit on all texts; the selection tables are hand-written Lean tables tied to NewCMPPCodec/NewSMPPCodec/Decode*Content by complete enumeration of 0..255 on every run. For Latin-1 (Windows-1252) and GB18030 the per-scalar hypothesis of the generic theorem is established by executing the real transformers on every Unicode scalar alone and in context (thorough tier: all 1,112,064; quick: 13k+), with the GB18030 private-use carve-out; packed GSM 7-bit relies on the C08 packing model with the two end-of-message ambiguities carved out exactly.",
         PROOF_NOTE + " golang.org/x/text transformers are exercised, not modelled.", "DESIGN.md 4/C05"),
 "C19": ("Lean 4 theorems over integer nanoseconds: the relative string denotes exactly the duration truncated to seconds (or is empty iff that is zero), negative / unparsable / unrepresentable requests are refused, the absolute string denotes exactly now+duration through a calendar model whose left inverse is proved by loop invariants for every day number; float arithmetic of Duration.Hours() and time.Format tied by correspondence at every unit boundary",
         "Unbounded proof on the integer model for all durations and all instants (no enumeration of days: the civil-date search is shown to return a date whose day number is the input). Partial in what it trusts: float64 conversions in Duration.Hours()/Minutes()/Seconds() and time.Format are compared with the model on every unit boundary +-1 ns/+-1 s, sub-second parts and random instants of 2000..2099; that the printed month/day are in calendar range is checked on sampled days of every year.",
         PROOF_NOTE + " time.ParseDuration, float truncation and time.Format outside the proof.", "DESIGN.md 4/C19"),
 "C18": ("Lean 4 theorems (partial): value extraction, width cut, absent key, SMGP id and both SMGP spellings proved under the explicit hypothesis that the first occurrence of a key token is its field occurrence; CMPP status-report body as an instance of the reflective round-trip theorem; the hypothesis itself (no key token can appear earlier) is validated on the implementation over all 8! orders and all 2^8 subsets",
         "Partial proof: the theorem holds for every receipt text for which the stated first-occurrence hypothesis holds (any prefix, any following text, any space-free value of any length); that token-free values over the standard key families always satisfy it is explored exhaustively over orders and subsets with random and near-miss values, not yet proved. CMPP body: full proof (C01 instance).",
         PROOF_NOTE + " strings.Index modelled as first-occurrence search.", "DESIGN.md 4/C18"),
 "C04": ("Lean 4 theorems on a model of the non-blocking and blocking extractors over an abstract stream: framing exactness under every chunking by induction over the chunk list with the invariant `buffer ++ future = undelivered frames ++ tail`, incomplete-consumes-nothing, refusal of prefixes < 4, no partial frame from the blocking extractor; correspondence through a contract-faithful ConnReader with scheduled arrivals, truncation and injected read errors",
         "Unbounded proof for any number of frames of any length and any way of cutting the stream; the model is compared with both codecs on streams of 1..6 frames under every single cut, every pair of cuts for short streams, octet-by-octet delivery, random multi-cuts, every truncation point with and without read errors, and malformed prefixes 0..3.",
         PROOF_NOTE + " The ConnReader contract (Peek/Discard/Size/Read) is as documented in codec/codec.go and implemented by the harness.", "DESIGN.md 4/C04"),
 "C16": ("Lean 4 theorems by induction on a hand model of the two SMPP and two SMGP parsers and of serialisation (fuel-bounded loops mirroring the Go loops): parse∘serialise for any emission order, agreement of the entry points on every well-formed triplet sequence with duplicates, no-fabrication for arbitrary octets, consistent truncation of over-long values; correspondence with all four Go entry points",
         "Unbounded proofs on the model for sets/sequences of any size and values of any length; the model is compared with ReadTLVs, ReadTLVs1, ReadOptions and ParseOptions on serialised sets (incl. 65531..70000-octet values), shuffled duplicate sequences, all strings of <= 2 octets and mutated triplet strings. Map iteration order is the adversary (emission order is a parameter). no-fabrication is proved for the slice-based parser and checked on the implementation for the reader-based ones.",
         PROOF_NOTE, "DESIGN.md 4/C16"),
 "C17": ("Lean 4 theorems by linear arithmetic (omega) over all field values / all 64-bit ids on a model of CombineMsgID/SplitMsgID/MsgID2String/MsgIDString2Uint64 with explicit uint64 wrap-around; string form by induction on the fixed-width decimal printer; model tied by correspondence",
         "Unbounded proof of field positions, split∘combine, combine∘split on all 2^64 ids and the 22-digit string round trip; the model is compared with the Go functions on each field's full range at both extremes of the others, bit patterns and 20k-1M random tuples and ids (fmt.Sscanf is modelled only on well-formed 22-digit strings).",
         PROOF_NOTE + " fmt.Sprintf/Sscanf width formatting modelled.", "DESIGN.md 4/C17"),
 "C06": ("Lean 4 theorems by induction on a hand model of the splitter (cut points / slices / headers) for arbitrary data, capacities and boundary rules; model tied to EncodeCMPP/SMPPContentAndSplit by correspondence on the encoded units; reported coding and end-to-end decoding checked on the implementation with independent reference codecs",
         "Unbounded proof that the parts, headers removed, concatenate to exactly the encoded message (generic and packed path) and that fitting messages are single parts; the packed path's per-part unpacking with a known septet count and the coding selection are validated on the implementation, not yet proved (pack=bit-stream theorem pending).",
         PROOF_NOTE + " Text codecs (x/text) outside the model.", "DESIGN.md 4/C06"),
 "C07": ("Lean 4 theorems on the split model: part sizes, header fields, refusal beyond 255 parts, part count of the plain rule = ceil(n/per), header parser on arbitrary octets (6- and 7-octet forms, 'not concatenated' otherwise); correspondence and a (ref,total,seq) grid / all 16-bit references on the real parser",
         "Sizes, headers, refusal and the parser clauses are proved for all inputs on the model; minimal part count is proved for the plain rule and checked against an independent greedy reference for the character-aware rules.",
         PROOF_NOTE, "DESIGN.md 4/C07"),
 "C14": ("Lean 4: generic theorem that every cut is a character boundary for any sound boundary rule (induction over the cut-point recursion); soundness of the escape rule for GSM 7-bit segmentations and of the plain rule for single-unit codings proved; UCS-2 and GB18030 rules tied by correspondence and by exhaustive offset sweeps around every boundary (partial)",
         "Proof for GSM 7-bit (packed and unpacked) and single-unit codings; for UCS-2 surrogate pairs and GB18030 the boundary rules are validated by placing multi-unit characters at every offset -4..+4 of boundaries 1..4 and decoding each part on its own with independent decoders - exploration, not yet a theorem.",
         PROOF_NOTE, "DESIGN.md 4/C14"),
 "C08": ("Lean 4: alphabet tables regenerated from the Go map literals and compared with a hand-transcribed TS 23.038 table by `decide +kernel`; encode/decode inverse, refusal and validator agreement by induction over arbitrary texts; packing length by functional induction on the block structure; pack = bit-stream specification validated exhaustively for short sequences and by correspondence (hand model of Pack/Unpack)",
         "Alphabet clauses are proved for all texts over the regenerated tables. Packing: the model of Pack/Unpack is tied to the code by correspondence on all sequences of length <= 2..3, all branch-alphabet sequences to length 5..8, all block-boundary triples for lengths 1..40 and one-bit wiring for lengths 0..64, each also compared on the Go side with an independent big-integer bit-stream packer.",
         PROOF_NOTE + " x/text transform plumbing exercised, not modelled.", "DESIGN.md 4/C08"),
 "C15": ("Lean 4 theorems: digest-input layout and 10-digit timestamp by induction, exchange theorem for an uninterpreted MD5 as a corollary of the reflective round-trip theorem on the regenerated connect/login layouts (`decide` per run); library authenticators compared with crypto/md5 of the model's digest input",
         "For an arbitrary digest function the decoded account, timestamp and 16 digest octets equal the sent ones for CMPP 2.0/3.0 connect(+resp) and SMGP login, for all field values (0x00 octets included); MD5 itself is outside the proof and the library's digest is compared with crypto/md5 over the model's input on 3k-150k credential sets.",
         PROOF_NOTE + " crypto/md5 uninterpreted.", "DESIGN.md 4/C15"),
 "C10": ("Lean 4 `decide` over tables regenerated from the Go source (GetCommand, GenEmptyResponse, Get/SetSequenceID, the five Decode* switches, header offsets from the layouts) against a hand-written request/response specification table; tables validated against the real methods and dispatchers by correspondence",
         "Finite-table proof: every clause of the property is a closed statement over regenerated tables (all PDU types, all dispatcher cases); the 32-bit quantifiers (all sequence numbers, all header ids) are lifted by lemma (respCmdOK_sound) or are structural (the sequence is copied, not computed). The harness exercises all types x bind flavours x sequence edges and 2k-100k dispatcher ids.",
         PROOF_NOTE, "DESIGN.md 4/C10"),
 "C01": ("proof by reflection in Lean 4: layouts regenerated from the Go source (go/extract), decidable checker evaluated by `decide`, soundness theorem roundtrip_sound proved once; differential correspondence of the layout interpreter with the real encoders/decoders",
         "For every PDU type found in /repo the kernel re-checks, on every run, that the regenerated IEncode/IDecode statement lists align into inverse wire items; the generic theorem then gives decode(encode r) = r for all field values that fit, unboundedly. Two SMGP types and one authenticator slot are recorded known findings with refutation theorems.",
         PROOF_NOTE, "DESIGN.md 4/C01"),
 "C20": ("Lean 4 theorems by induction over arbitrary operation sequences on a hand model of packet.Writer/Reader; model tied to the Go code by differential correspondence runs",
         "Unbounded proof (any sequence of writes/reads, failures at any position) of inverse, count=bytes, sticky errors and in-bounds reads for the model; the model is validated against the real packet package on seeded op sequences every run.",
         "Lean kernel + propext/Quot.sound/Classical.choice; hand model Model/Packet.lean tied by correspondence only; bytes.Buffer/bytebufferpool/encoding/binary modelled not verified.",
         "DESIGN.md 4/C20"),
}
PENDING_REASON = "check not built yet in this round; planned as Lean proof + correspondence (DESIGN.md section 4), not claimed until it runs"

def main():
    props = [json.loads(l)["id"] for l in open(os.path.join(V, "properties.jsonl"))]
    checks, na = [], []
    for p in props:
        if p in CLAIMED:
            tech, text, note, ref = CLAIMED[p]
            checks.append(dict(
                property_id=p,
                quick_cmd=f"./check {p} quick",
                thorough_cmd=f"./check {p} thorough",
                evidence_file=f"/verif/evidence/{p}.json",
                replay_cmd_template=f"./check {p} --replay {{path}}",
                engine="lean4-proof+correspondence",
                level_claimed=dict(category="proof", text=text, design_ref=ref),
                level_note=note,
                technique=tech))
        else:
            na.append(dict(property_id=p, reason=PENDING_REASON))
    hooks_commits = [l.split()[0] for l in __import__('subprocess').run(['git','-C','/repo','log','--format=%h %s'],capture_output=True,text=True).stdout.splitlines() if 'verif hook' in l]
    m = dict(
        version=1,
        setup_cmd="./check --setup",
        hooks=dict(guard="verif", enable="go build -tags verif (harness module go/harness, replace => /repo)",
                   baseline_off_cmd="/verif/tools/baseline.sh", source_commits=hooks_commits, add_only=True),
        engines=[dict(name="lean4-proof+correspondence", path="/verif/check",
                      serves_properties=sorted(CLAIMED),
                      kind_free_text="Lean 4.33 theorems over regenerated (go/extract) and hand-written models; Go harness runs the real code in-process and diffs against the compiled Lean driver")],
        checks=checks,
        notes="Single entry point ./check <id> quick|thorough|--replay <file>. Known findings: /verif/known-findings.json.",
        not_applicable=na)
    with open(os.path.join(V, "MANIFEST.json"), "w") as f:
        json.dump(m, f, indent=1)
    print("claimed:", sorted(CLAIMED), "pending:", len(na))

if __name__ == "__main__":
    main()
