#!/usr/bin/env python3
"""Minimal PDF text extractor (no external tools are installed in the sandbox): used once to read the
protocol documents in /repo/doc while transcribing the Spec tables (lean/SmsVerif/Spec/*.lean).
Handles Flate streams, the standard security handler with an empty user password (RC4, R3),
ToUnicode CMaps with 1- or 2-octet codes, literal and hex strings.  usage: pdftext.py in.pdf out.txt"""
import re, sys, zlib, hashlib, struct

PAD = bytes([0x28, 0xBF, 0x4E, 0x5E, 0x4E, 0x75, 0x8A, 0x41, 0x64, 0x00, 0x4E, 0x56, 0xFF, 0xFA, 0x01, 0x08,
             0x2E, 0x2E, 0x00, 0xB6, 0xD0, 0x68, 0x3E, 0x80, 0x2F, 0x0C, 0xA9, 0xFE, 0x64, 0x53, 0x69, 0x7A])


def rc4(k, data):
    S = list(range(256)); j = 0
    for i in range(256):
        j = (j + S[i] + k[i % len(k)]) & 255; S[i], S[j] = S[j], S[i]
    i = j = 0; out = bytearray()
    for b in data:
        i = (i + 1) & 255; j = (j + S[i]) & 255; S[i], S[j] = S[j], S[i]
        out.append(b ^ S[(S[i] + S[j]) & 255])
    return bytes(out)


def unesc(s):
    out = bytearray(); i = 0
    mp = {ord('n'): 10, ord('r'): 13, ord('t'): 9, ord('b'): 8, ord('f'): 12}
    while i < len(s):
        c = s[i]
        if c == 0x5c and i + 1 < len(s):
            i += 1; c = s[i]
            if c in mp: out.append(mp[c])
            elif 48 <= c <= 55:
                j = i; v = 0
                while j < len(s) and j < i + 3 and 48 <= s[j] <= 55: v = v * 8 + s[j] - 48; j += 1
                out.append(v & 255); i = j - 1
            else: out.append(c)
        else: out.append(c)
        i += 1
    return bytes(out)


def main(path, outp):
    d = open(path, 'rb').read()
    objs = {}
    for m in re.finditer(rb'(\d+) (\d+) obj', d):
        e = d.find(b'endobj', m.end()); objs[int(m.group(1))] = (int(m.group(2)), d[m.end():e])
    key = None
    tm = re.search(rb'/Encrypt (\d+) 0 R', d)
    if tm:
        enc = objs[int(tm.group(1))][1]
        O = unesc(re.search(rb'/O\((.*?)\)/P', enc, re.S).group(1))
        P = int(re.search(rb'/P (-?\d+)', enc).group(1))
        ID = bytes.fromhex(re.search(rb'/ID\[<([0-9A-Fa-f]+)>', d).group(1).decode())
        h = hashlib.md5(PAD + O + struct.pack('<i', P) + ID).digest()
        for _ in range(50): h = hashlib.md5(h[:16]).digest()
        key = h[:16]

    def stream(n):
        gen, body = objs[n]
        sm = re.search(rb'stream\r?\n', body)
        if not sm: return None
        raw = body[sm.end():]
        lm = re.search(rb'/Length (\d+)', body[:sm.start()])
        if lm and not re.search(rb'/Length \d+ 0 R', body[:sm.start()]): raw = raw[:int(lm.group(1))]
        else:
            i = raw.rfind(b'endstream'); raw = raw[:i] if i >= 0 else raw
        if key:
            k = hashlib.md5(key + struct.pack('<I', n)[:3] + struct.pack('<I', gen)[:2]).digest()[:16]
            raw = rc4(k, raw)
        try: return zlib.decompress(raw)
        except Exception:
            try: return zlib.decompressobj().decompress(raw)
            except Exception: return raw

    def cmap(t):
        mp = {}; width = 2 if re.search(rb'<[0-9A-Fa-f]{4}>\s*<[0-9A-Fa-f]{4}>\s*endcodespacerange', t) else 1
        for blk in re.findall(rb'beginbfchar(.*?)endbfchar', t, re.S):
            for a, b in re.findall(rb'<([0-9A-Fa-f]+)>\s*<([0-9A-Fa-f]+)>', blk):
                mp[int(a, 16)] = bytes.fromhex(b.decode()).decode('utf-16-be', 'replace')
        for blk in re.findall(rb'beginbfrange(.*?)endbfrange', t, re.S):
            for a, b, c in re.findall(rb'<([0-9A-Fa-f]+)>\s*<([0-9A-Fa-f]+)>\s*<([0-9A-Fa-f]+)>', blk):
                a, b, c = int(a, 16), int(b, 16), int(c, 16)
                for k in range(a, b + 1): mp[k] = chr(c + k - a)
        return width, mp

    fontmaps = {}
    for n, (_, b) in objs.items():
        m = re.search(rb'/ToUnicode (\d+) 0 R', b)
        if m and int(m.group(1)) in objs:
            t = stream(int(m.group(1)))
            if t: fontmaps[n] = cmap(t)

    def fontdict(b):
        m = re.search(rb'/Font\s*(\d+) 0 R', b)
        if m: return objs[int(m.group(1))][1]
        m = re.search(rb'/Font\s*<<(.*?)>>', b, re.S)
        if m: return m.group(1)
        m = re.search(rb'/Resources (\d+) 0 R', b)
        if m: return fontdict(objs[int(m.group(1))][1])
        return b''

    out = []
    pageno = 0
    for n, (_, b) in sorted(objs.items()):
        bb = b.replace(b' ', b'')
        if b'/Type/Page' not in bb or b'/Type/Pages' in bb: continue
        pageno += 1
        fm = {nm: int(ref) for nm, ref in re.findall(rb'/([\w+-]+) (\d+) 0 R', fontdict(b))}
        cs = re.search(rb'/Contents\s*(\[[^\]]*\]|\d+ 0 R)', b)
        refs = [int(x) for x in re.findall(rb'(\d+) 0 R', cs.group(1))] if cs else []
        t = b''.join(stream(r) or b'' for r in refs)
        cur = None; s = []
        for m in re.finditer(rb'/([\w+-]+)\s+[\d.]+\s+Tf|<([0-9A-Fa-f\s]+)>|\(((?:[^()\\]|\\.)*)\)|(ET)', t):
            if m.group(1): cur = fontmaps.get(fm.get(m.group(1)))
            elif m.group(2) is not None:
                h = re.sub(rb'\s', b'', m.group(2)).decode()
                w, mp = cur if cur else (1, {})
                for i in range(0, len(h) - 2 * w + 1, 2 * w):
                    s.append(mp.get(int(h[i:i + 2 * w], 16), '?'))
            elif m.group(3) is not None:
                raw = unesc(m.group(3))
                if cur:
                    w, mp = cur
                    for i in range(0, len(raw) - w + 1, w):
                        s.append(mp.get(int.from_bytes(raw[i:i + w], 'big'), chr(raw[i]) if w == 1 else '?'))
                else: s.append(raw.decode('latin1'))
            else: s.append(' | ')
        out.append(f'--- page {pageno} (obj {n}) ---\n' + re.sub(r'\s+', ' ', ''.join(s)))
    open(outp, 'w').write('\n'.join(out) + '\n')
    print(path.split('/')[-1].encode('ascii', 'replace').decode(), 'pages', pageno)


if __name__ == '__main__':
    main(sys.argv[1], sys.argv[2])
