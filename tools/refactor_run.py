#!/usr/bin/env python3
"""False-alarm experiment: applies each behaviour-preserving refactoring under /verif/refactorings/<id>/patch.diff
to /repo, runs every claimed quick check, records which checks raise a VIOLATION (each one is a false alarm
unless the refactoring turns out not to preserve behaviour), restores the tree and the evidence.

usage: tools/refactor_run.py [<id> ...]      (default: all)"""
import json, os, re, shutil, subprocess, sys

V = os.path.dirname(os.path.dirname(os.path.abspath(__file__)))


def sh(cmd, **kw):
    return subprocess.run(cmd, stdout=subprocess.PIPE, stderr=subprocess.STDOUT, text=True, **kw)


def main():
    root = os.path.join(V, "refactorings")
    ids = sys.argv[1:] or sorted(d for d in os.listdir(root) if os.path.isdir(os.path.join(root, d)))
    if sh(["git", "-C", "/repo", "status", "--porcelain"]).stdout.strip():
        print("refusing: /repo has local changes"); return 2
    head = sh(["git", "-C", "/repo", "rev-parse", "--short", "HEAD"]).stdout.strip()
    checks = [c["property_id"] for c in json.load(open(os.path.join(V, "MANIFEST.json")))["checks"]]
    save = os.path.join(V, ".cache", "evidence.save")
    shutil.rmtree(save, ignore_errors=True)
    shutil.copytree(os.path.join(V, "evidence"), save)
    try:
        for rid in ids:
            d = os.path.join(root, rid)
            patch = os.path.join(d, "patch.diff")
            r = sh(["git", "-C", "/repo", "apply", patch])
            if r.returncode != 0:
                print(rid, "patch does not apply:", r.stdout[-300:]); continue
            result = {}
            try:
                b = sh([os.path.join(V, "tools", "baseline.sh")], cwd=V)
                suite_ok = b.returncode == 0
                for c in checks:
                    out = sh([os.path.join(V, "check"), c, "quick"], cwd=V).stdout
                    viol = re.findall(r"^VIOLATION property=\S+ replay=(\S+)(.*)$", out, re.M)
                    classes = []
                    for path, rest in viol:
                        try:
                            what = json.load(open(path)).get("what", "")
                        except Exception:
                            what = ""
                        classes.append(what[:300] + (" (no-failing-input-found)" if "no-failing-input-found" in rest else ""))
                    last = [l for l in out.splitlines() if l.startswith(c + " ")]
                    result[c] = dict(alarm=bool(viol), classes=sorted(set(classes))[:6], summary=(last[-1] if last else out[-200:])[:200])
                    print(rid, c, "ALARM" if viol else "quiet", flush=True)
            finally:
                sh(["git", "-C", "/repo", "checkout", "--", "."]); sh(["git", "-C", "/repo", "clean", "-fdq"])  # a patch may add files
            agent = {}
            if os.path.exists(os.path.join(d, "meta.agent.json")):
                agent = json.load(open(os.path.join(d, "meta.agent.json")))
            json.dump(dict(id=rid, base_commit=head, area=agent.get("area", ""), summary=agent.get("summary", ""), suite_passes=suite_ok,
                           alarms=[c for c, v in result.items() if v["alarm"]], result=result),
                      open(os.path.join(d, "result.json"), "w"), indent=1, ensure_ascii=False)
    finally:
        sh(["git", "-C", "/repo", "checkout", "--", "."]); sh(["git", "-C", "/repo", "clean", "-fdq"])  # a patch may add files
        shutil.rmtree(os.path.join(V, "evidence"), ignore_errors=True)
        shutil.move(save, os.path.join(V, "evidence"))
        sh([os.path.join(V, "bin", "extract")], cwd=V)
    return 0


if __name__ == "__main__":
    sys.exit(main())
