#!/bin/sh
# usage: tools/trymut.sh <patch.diff> <Cxx> [more Cxx...]   — apply a seeded change to /repo, run the checks, undo it.
# Evidence files are saved and restored: evidence committed to git must come from the unchanged tree.
P=$(realpath "$1"); shift
rm -rf /verif/.cache/evidence.save && cp -r /verif/evidence /verif/.cache/evidence.save
git -C /repo apply "$P" || { echo "patch does not apply"; exit 2; }
for c in "$@"; do ./check $c quick 2>&1 | grep -v "^note:" | cut -c1-400; done
git -C /repo checkout -- . ; git -C /repo status --short | head -3
rm -rf /verif/evidence && mv /verif/.cache/evidence.save /verif/evidence
/verif/bin/extract >/dev/null 2>&1
