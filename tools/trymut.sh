#!/bin/sh
# usage: tools/trymut.sh <patch.diff> <Cxx> [more Cxx...]   — apply a seeded change to /repo, run the checks, undo it
P=$1; shift
git -C /repo apply "$(realpath "$P")" || { echo "patch does not apply"; exit 2; }
for c in "$@"; do ./check $c quick 2>&1 | grep -v "^note:" | cut -c1-400; done
git -C /repo checkout -- . ; git -C /repo status --short | head -3
/verif/bin/extract >/dev/null 2>&1
