#!/usr/bin/env python3
"""Rewrites the table of DESIGN.md section 8.5 from seeded/<id>/meta.json."""
import json, os, re
V = os.path.dirname(os.path.dirname(os.path.abspath(__file__)))
rows = []
for sid in sorted(os.listdir(os.path.join(V, "seeded"))):
    mp = os.path.join(V, "seeded", sid, "meta.json")
    if not os.path.exists(mp):
        continue
    m = json.load(open(mp))
    what = re.sub(r"\s+", " ", m.get("what_was_changed", "")).replace("|", "/")
    what = what[:170]
    rep = []
    for c, v in m["detected"].items():
        if v["reported"]:
            rep.append(f"{c} ({'; '.join(x[:60] for x in v['classes'][:2])})")
    rows.append(f"| `{sid}` | {what} | {', '.join(rep) if rep else '**missed**'} |")
p = os.path.join(V, "DESIGN.md")
s = open(p).read()
head = "| seeded change | what it does (first sentence of the producer's summary) | reported by (class of the first replay) |\n|---|---|---|\n"
i = s.index(head) + len(head)
j = s.index("\n\n", i)
s = s[:i] + "\n".join(rows) + s[j:]
open(p, "w").write(s)
print(len(rows), "rows")
