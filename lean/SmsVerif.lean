import SmsVerif.Model.Bytes
import SmsVerif.Model.Packet
import SmsVerif.Lemmas.Bytes
import SmsVerif.Lemmas.Packet
import SmsVerif.Driver.C20
import SmsVerif.Props.C20
