/-
  C02 support: the items of a regenerated layout against a document table (`Spec`), and the
  hand-computed length formulas of CMPP 2.0 against the real size of the image.

  * `matchItems` is a syntactic comparison; `matchItems_bytes` shows that matching items and
    document fields contribute the same octets for every PDU value.
  * `lenCheck` linearises the extracted length expression (refusing any sub-expression whose
    fixed-width Go type could wrap on the range of its fields) and compares it, as a linear form
    over the count/length fields, with the size of the items; `lenCheck_sound`.
-/
import SmsVerif.Spec.Tables
import SmsVerif.Lemmas.LayoutRoundTrip

namespace SmsVerif
open Spec

/-! ### items against document fields -/

def itemIs (it : Item) (f : SField) : Bool :=
  match it, f.kind, f.rep with
  | .num k g _, .uint n, .asIs => k == n && g == f.go
  | .fixedTrim g k, .octets n, .asIs => k == n && g == f.go
  | .fixedRaw g k, .octets n, .asIs => k == n && g == f.go
  | .fixedHexOut g k, .octets n, .asIs => k == n && g == f.go
  | .hexBoth g k, .octets n, .hexDigits => k == n && g == f.go
  | .cstr g, .cOctets, .asIs => g == f.go
  | .body g l _, .var l', .asIs => g == f.go && l == l'
  | .rep g c k _ _, .list c' n, .asIs => k == n && g == f.go && c == c'
  | .tail g _, .tlvs, .asIs => g == f.go
  | _, _, _ => false

/-- the items, receiver normalisations skipped, are the document fields in document order -/
def matchItems : List Item → List SField → Bool
  | [], [] => true
  | .asg _ _ :: its, fs => matchItems its fs
  | it :: its, f :: fs => itemIs it f && matchItems its fs
  | _, _ => false

theorem repBytes_eq_padAll (n : Nat) (l : List Bytes) : repBytes n l = padAll n l := by
  induction l with
  | nil => rfl
  | cons x xs ih => simp [repBytes, padAll, pad, ih]

theorem itemIs_bytes (it : Item) (f : SField) (h : itemIs it f = true) (r : Rec) :
    it.bytes r = f.bytes r := by
  obtain ⟨doc, go, kind, rep⟩ := f
  cases it <;> cases kind <;> cases rep <;>
    simp only [itemIs, Bool.and_eq_true, beq_iff_eq, Bool.false_eq_true] at h
  all_goals first
    | (obtain ⟨rfl, rfl⟩ := h; rfl)
    | (obtain ⟨⟨rfl, rfl⟩, rfl⟩ := h; exact repBytes_eq_padAll _ _)
    | (subst h; rfl)

theorem matchItems_bytes : ∀ (its : List Item) (fs : List SField), matchItems its fs = true →
    ∀ r : Rec, itemsBytes r its = fieldsBytes r fs
  | [], [], _, r => rfl
  | [], _ :: _, h, _ => by simp [matchItems] at h
  | it :: its, fs, h, r => by
    cases it with
    | asg c as =>
      simp only [matchItems] at h
      rw [itemsBytes_cons, matchItems_bytes its fs h r]
      simp [Item.bytes]
    | _ =>
      cases fs with
      | nil => simp [matchItems] at h
      | cons f fs =>
        simp only [matchItems, Bool.and_eq_true] at h
        rw [itemsBytes_cons, matchItems_bytes its fs h.2 r, itemIs_bytes _ f h.1 r]
        simp [fieldsBytes]

/-! ### linear forms over integer fields -/

abbrev LinForm := Nat × List (String × Nat)

def LinForm.terms (r : Rec) (ts : List (String × Nat)) : Nat := (ts.map fun t => t.2 * r.num t.1).sum
def LinForm.eval (r : Rec) (L : LinForm) : Nat := L.1 + LinForm.terms r L.2
def LinForm.add (a b : LinForm) : LinForm := (a.1 + b.1, a.2 ++ b.2)
def LinForm.scale (n : Nat) (a : LinForm) : LinForm := (n * a.1, a.2.map fun t => (t.1, n * t.2))

theorem LinForm.terms_append (r : Rec) (a b : List (String × Nat)) :
    LinForm.terms r (a ++ b) = LinForm.terms r a + LinForm.terms r b := by
  simp [LinForm.terms, List.sum_append]

theorem LinForm.add_eval (r : Rec) (a b : LinForm) : (a.add b).eval r = a.eval r + b.eval r := by
  simp only [LinForm.eval, LinForm.add, LinForm.terms_append]; omega

theorem LinForm.terms_scale (r : Rec) (n : Nat) (ts : List (String × Nat)) :
    LinForm.terms r (ts.map fun t => (t.1, n * t.2)) = n * LinForm.terms r ts := by
  induction ts with
  | nil => simp [LinForm.terms]
  | cons t ts ih =>
    simp only [LinForm.terms, List.map_cons, List.sum_cons] at ih ⊢
    rw [ih, Nat.mul_add, Nat.mul_assoc]

theorem LinForm.scale_eval (r : Rec) (n : Nat) (a : LinForm) : (a.scale n).eval r = n * a.eval r := by
  simp only [LinForm.eval, LinForm.scale, LinForm.terms_scale, Nat.mul_add]

/-- upper bound of a linear form when every field it mentions has a known bound -/
def termsUpper (B : String → Option Nat) : List (String × Nat) → Option Nat
  | [] => some 0
  | t :: ts => match B t.1, termsUpper B ts with
    | some b, some u => some (t.2 * b + u)
    | _, _ => none

def LinForm.upper (B : String → Option Nat) (L : LinForm) : Option Nat := (termsUpper B L.2).map (L.1 + ·)

def Bounded (B : String → Option Nat) (r : Rec) : Prop := ∀ f b, B f = some b → r.num f ≤ b

theorem termsUpper_sound {B : String → Option Nat} {r : Rec} (hB : Bounded B r) :
    ∀ (ts : List (String × Nat)) (u : Nat), termsUpper B ts = some u → LinForm.terms r ts ≤ u
  | [], u, h => by simp [termsUpper] at h; simp [LinForm.terms, ← h]
  | t :: ts, u, h => by
    simp only [termsUpper] at h
    split at h
    · rename_i b u' hb hu
      simp at h; subst h
      have h1 := hB _ _ hb
      have h2 := termsUpper_sound hB ts u' hu
      simp only [LinForm.terms, List.map_cons, List.sum_cons] at h2 ⊢
      have := Nat.mul_le_mul_left t.2 h1
      omega
    · simp at h

theorem LinForm.upper_sound {B : String → Option Nat} {r : Rec} (hB : Bounded B r) (L : LinForm) (u : Nat)
    (h : L.upper B = some u) : L.eval r ≤ u := by
  simp only [LinForm.upper, Option.map_eq_some_iff] at h
  obtain ⟨u', hu, rfl⟩ := h
  have := termsUpper_sound hB L.2 u' hu
  simp only [LinForm.eval]; omega

/-- linearise a Go length expression; a conversion to a `k`-octet type is accepted only when
    the value provably fits (so it cannot wrap) -/
def lin (B : String → Option Nat) : Expr → Option LinForm
  | .lit n => some (n, [])
  | .fld f => some (0, [(f, 1)])
  | .lenOf _ => none
  | .add a b => match lin B a, lin B b with
    | some x, some y => some (x.add y)
    | _, _ => none
  | .mul a b => match a, b with
    | .lit n, _ => (lin B b).map (LinForm.scale n)
    | _, .lit n => (lin B a).map (LinForm.scale n)
    | _, _ => none
  | .conv k e => match lin B e with
    | some L => match L.upper B with
      | some u => if u < 256 ^ k then some L else none
      | none => none
    | none => none

theorem lin_sound {B : String → Option Nat} {r : Rec} (hB : Bounded B r) :
    ∀ (e : Expr) (L : LinForm), lin B e = some L → e.eval r = L.eval r
  | .lit n, L, h => by simp [lin] at h; subst h; simp [Expr.eval, LinForm.eval, LinForm.terms]
  | .fld f, L, h => by simp [lin] at h; subst h; simp [Expr.eval, LinForm.eval, LinForm.terms]
  | .lenOf _, L, h => by simp [lin] at h
  | .add a b, L, h => by
    simp only [lin] at h
    split at h
    · rename_i x y hx hy
      simp at h; subst h
      rw [LinForm.add_eval, ← lin_sound hB a x hx, ← lin_sound hB b y hy]; rfl
    · simp at h
  | .mul a b, L, h => by
    simp only [lin] at h
    split at h
    · rename_i n _
      simp only [Option.map_eq_some_iff] at h
      obtain ⟨y, hy, rfl⟩ := h
      rw [LinForm.scale_eval, ← lin_sound hB b y hy]; rfl
    · rename_i n _
      simp only [Option.map_eq_some_iff] at h
      obtain ⟨x, hx, rfl⟩ := h
      rw [LinForm.scale_eval, ← lin_sound hB a x hx]; simp [Expr.eval, Nat.mul_comm]
    · simp at h
  | .conv k e, L, h => by
    simp only [lin] at h
    split at h
    · rename_i L' hL
      split at h
      · rename_i u hu
        split at h
        · rename_i hlt
          simp at h; subst h
          have h1 := lin_sound hB e L' hL
          have h2 := LinForm.upper_sound hB L' u hu
          simp only [Expr.eval]
          rw [Nat.mod_eq_of_lt (by omega)]
          exact h1
        · simp at h
      · simp at h
    · simp at h

/-! ### the size of the image as a linear form -/

def itemSize : Item → Option LinForm
  | .num k _ _ => some (k, [])
  | .cstr _ => none
  | .fixedTrim _ n => some (n, [])
  | .fixedRaw _ n => some (n, [])
  | .fixedHexOut _ n => some (n, [])
  | .hexBoth _ n => some (n, [])
  | .body _ l _ => some (0, [(l, 1)])
  | .rep _ c n _ _ => some (0, [(c, n)])
  | .asg _ _ => some (0, [])
  | .tail _ _ => none

def sizeLin : List Item → Option LinForm
  | [] => some (0, [])
  | it :: rest => match itemSize it, sizeLin rest with
    | some a, some b => some (a.add b)
    | _, _ => none

theorem repBytes_length (n : Nat) (l : List Bytes) (h : ∀ s ∈ l, s.length ≤ n) :
    (repBytes n l).length = n * l.length := by
  induction l with
  | nil => simp [repBytes]
  | cons x xs ih =>
    have hx := h x (by simp)
    have := ih (fun s hs => h s (by simp [hs]))
    simp only [repBytes, List.length_append, zeros_length, this, List.length_cons, Nat.mul_add]
    omega

theorem itemSize_sound (it : Item) (r : Rec) (hf : it.Fits r) (L : LinForm) (h : itemSize it = some L) :
    (it.bytes r).length = L.eval r := by
  cases it with
  | num k f c => simp [itemSize] at h; subst h; simp [Item.bytes, LinForm.eval, LinForm.terms]
  | cstr f => simp [itemSize] at h
  | fixedTrim f n =>
    simp [itemSize] at h; subst h
    obtain ⟨s, hs, _, hl⟩ := hf
    simp [Item.bytes, LinForm.eval, LinForm.terms, Rec.str, hs]; omega
  | fixedRaw f n =>
    simp [itemSize] at h; subst h
    obtain ⟨s, hs, hl⟩ := hf
    simp [Item.bytes, LinForm.eval, LinForm.terms, Rec.str, hs]; omega
  | fixedHexOut f n =>
    simp [itemSize] at h; subst h
    obtain ⟨s, hs, hl⟩ := hf
    simp [Item.bytes, LinForm.eval, LinForm.terms, Rec.str, hs]; omega
  | hexBoth f n =>
    simp [itemSize] at h; subst h
    obtain ⟨b, hs, hl, hb⟩ := hf
    simp [Item.bytes, LinForm.eval, LinForm.terms, Rec.str, hs, hexDecode_hexEncode b hb]; omega
  | body f l d =>
    simp [itemSize] at h; subst h
    obtain ⟨s, hs, hl⟩ := hf
    simp [Item.bytes, LinForm.eval, LinForm.terms, Rec.str, Rec.num, hs, hl]
  | rep f c n cn ap =>
    simp [itemSize] at h; subst h
    obtain ⟨l, hs, hc, hl⟩ := hf
    simp only [Item.bytes, LinForm.eval, LinForm.terms, Rec.strs, Rec.num, hs, hc, List.map_cons,
      List.map_nil, List.sum_cons, List.sum_nil]
    rw [repBytes_length n l (fun s hs => (hl s hs).2)]; omega
  | asg c as => simp [itemSize] at h; subst h; simp [Item.bytes, LinForm.eval, LinForm.terms]
  | tail f p => simp [itemSize] at h

theorem sizeLin_sound : ∀ (its : List Item) (r : Rec), (∀ it ∈ its, it.Fits r) → ∀ L, sizeLin its = some L →
    (itemsBytes r its).length = L.eval r
  | [], r, _, L, h => by simp [sizeLin] at h; subst h; simp [itemsBytes, LinForm.eval, LinForm.terms]
  | it :: rest, r, hf, L, h => by
    simp only [sizeLin] at h
    split at h
    · rename_i a b ha hb
      simp at h; subst h
      rw [itemsBytes_cons, List.length_append, LinForm.add_eval,
        itemSize_sound it r (hf it (by simp)) a ha,
        sizeLin_sound rest r (fun x hx => hf x (by simp [hx])) b hb]
    · simp at h

/-! ### bounds of the integer fields, read off the items -/

def itemsBound : List Item → String → Option Nat
  | [], _ => none
  | .num k g _ :: rest, f => if g = f then some (256 ^ k - 1) else itemsBound rest f
  | _ :: rest, f => itemsBound rest f

theorem itemsBound_sound : ∀ (its : List Item) (r : Rec), (∀ it ∈ its, it.Fits r) → Bounded (itemsBound its) r
  | [], _, _, f, b, h => by simp [itemsBound] at h
  | it :: rest, r, hf, f, b, h => by
    have ih := itemsBound_sound rest r (fun x hx => hf x (by simp [hx]))
    cases it with
    | num k g c =>
      simp only [itemsBound] at h
      split at h
      · rename_i hg
        simp at h; subst h; subst hg
        obtain ⟨n, hn, hlt⟩ := hf _ (List.mem_cons_self ..)
        simp only [Rec.num, hn]; omega
      · exact ih f b h
    | _ => exact ih f b (by simpa [itemsBound] using h)

/-! ### the hand-computed length -/

def Expr.mentions : Expr → String → Bool
  | .lit _, _ => false
  | .fld g, f => g == f
  | .lenOf g, f => g == f
  | .add a b, f => a.mentions f || b.mentions f
  | .mul a b, f => a.mentions f || b.mentions f
  | .conv _ e, f => e.mentions f

theorem Expr.eval_set (e : Expr) (r : Rec) (f : String) (v : Val) (h : e.mentions f = false) :
    e.eval (r.set f v) = e.eval r := by
  induction e with
  | lit n => rfl
  | fld g =>
    simp only [Expr.mentions, beq_eq_false_iff_ne, ne_eq] at h
    simp only [Expr.eval, Rec.num, Rec.get?_set_ne _ _ _ _ h]
  | lenOf g =>
    simp only [Expr.mentions, beq_eq_false_iff_ne, ne_eq] at h
    simp only [Expr.eval, Rec.get?_set_ne _ _ _ _ h]
  | add a b iha ihb =>
    simp only [Expr.mentions, Bool.or_eq_false_iff] at h
    simp only [Expr.eval, iha h.1, ihb h.2]
  | mul a b iha ihb =>
    simp only [Expr.mentions, Bool.or_eq_false_iff] at h
    simp only [Expr.eval, iha h.1, ihb h.2]
  | conv k e ih => simp only [Expr.mentions] at h; simp only [Expr.eval, ih h]

def isLenAsg (lf : String) : Item → Option Expr
  | .asg none [(f, e)] => if f = lf then some e else none
  | _ => none

theorem isLenAsg_some {lf : String} {it : Item} {e : Expr} (h : isLenAsg lf it = some e) :
    it = .asg none [(lf, e)] := by
  unfold isLenAsg at h
  split at h
  · split at h
    · rename_i hf; simp at h; subst h; subst hf; rfl
    · simp at h
  · simp at h

/-- the expression the encoder assigns to the length field, provided no normalisation follows it -/
def lenExpr (lf : String) : List Item → Option Expr
  | [] => none
  | it :: rest =>
    match isLenAsg lf it with
    | some e => if rest.all (fun it => !it.isAsg) = true then some e else lenExpr lf rest
    | none => lenExpr lf rest

theorem norm_noAsg : ∀ (its : List Item) (r : Rec), its.all (fun it => !it.isAsg) = true → norm its r = r
  | [], _, _ => rfl
  | it :: rest, r, h => by
    simp only [List.all_cons, Bool.and_eq_true] at h
    cases it with
    | asg c as => simp [Item.isAsg] at h
    | _ => simp only [norm]; exact norm_noAsg rest r h.2

theorem norm_cons_exists (it : Item) (rest : List Item) (r : Rec) : ∃ r1, norm (it :: rest) r = norm rest r1 := by
  cases it with
  | asg c as => exact ⟨_, rfl⟩
  | _ => exact ⟨r, rfl⟩

theorem lenExpr_norm : ∀ (its : List Item) (lf : String) (e : Expr) (r : Rec), lenExpr lf its = some e →
    ∃ ρ : Rec, norm its r = ρ.set lf (.num (e.eval ρ))
  | [], _, _, _, h => by simp [lenExpr] at h
  | it :: rest, lf, e, r, h => by
    obtain ⟨r1, hr1⟩ := norm_cons_exists it rest r
    simp only [lenExpr] at h
    split at h
    · rename_i e' he'
      split at h
      · rename_i hrest
        simp at h; subst h
        have := isLenAsg_some he'
        subst this
        refine ⟨r, ?_⟩
        simp only [norm]
        rw [norm_noAsg rest _ hrest]
        simp [applyAsg]
      · rw [hr1]; exact lenExpr_norm rest lf e r1 h
    · rw [hr1]; exact lenExpr_norm rest lf e r1 h

/-- the extracted length formula equals, as a linear form, the size of the items, and none of its
    fixed-width sub-expressions can wrap on the range of the fields it reads -/
def lenCheck (lf : String) (its : List Item) : Bool :=
  match lenExpr lf its, sizeLin its with
  | some e, some Ls =>
    !e.mentions lf &&
    match lin (itemsBound its) e with
    | some Le => Le.1 == Ls.1 && Le.2.isPerm Ls.2
    | none => false
  | _, _ => false

theorem terms_perm (r : Rec) {a b : List (String × Nat)} (h : a.Perm b) : LinForm.terms r a = LinForm.terms r b :=
  (h.map _).sum_nat

/-- **lenCheck_sound**: for every PDU value whose normal form fits, the length field of the normal
    form is the real number of octets of the image. -/
theorem lenCheck_sound (lf : String) (its : List Item) (h : lenCheck lf its = true) (r : Rec)
    (hf : ∀ it ∈ its, it.Fits (norm its r)) :
    (norm its r).num lf = (itemsBytes (norm its r) its).length := by
  unfold lenCheck at h
  split at h
  · rename_i e Ls he hs
    simp only [Bool.and_eq_true, Bool.not_eq_true'] at h
    obtain ⟨hment, h⟩ := h
    split at h
    · rename_i Le hLe
      simp only [Bool.and_eq_true, beq_iff_eq] at h
      obtain ⟨hc, hp⟩ := h
      obtain ⟨ρ, hρ⟩ := lenExpr_norm its lf e r he
      have hB := itemsBound_sound its _ hf
      have h1 : (norm its r).num lf = e.eval (norm its r) := by
        rw [hρ, Expr.eval_set e ρ lf _ hment]
        simp [Rec.num, Rec.get?_set_self]
      rw [h1, lin_sound hB e Le hLe, sizeLin_sound its _ hf Ls hs]
      simp only [LinForm.eval, hc, terms_perm _ (List.isPerm_iff.1 hp)]
    · simp at h
  · simp at h

end SmsVerif
