import SmsVerif.Model.Packet
import SmsVerif.Lemmas.Bytes

namespace SmsVerif

theorem readExact_append (t rest : Bytes) (e : Option PErr) (a n : Nat) (hn : t.length = n) (h0 : n ≠ 0) :
    Reader.readExact ⟨t ++ rest, e, a⟩ n = (some t, ⟨rest, e, a + n⟩) := by
  have hne : (t ++ rest).isEmpty = false := by
    cases t with
    | nil => simp at hn; omega
    | cons b bs => simp
  have hlt : ¬ (t ++ rest).length < n := by simp; omega
  simp only [Reader.readExact, hne, hlt, if_false, Bool.false_eq_true]
  rw [List.take_left' hn, List.drop_left' hn]

theorem readCStringNRaw_append (t rest : Bytes) (a : Nat) :
    ∃ a', Reader.readCStringNRaw ⟨t ++ rest, none, a⟩ t.length = (t, ⟨rest, none, a'⟩) := by
  by_cases h0 : t.length = 0
  · have : t = [] := List.eq_nil_of_length_eq_zero h0
    subst this
    exact ⟨a, by simp [Reader.readCStringNRaw]⟩
  · exact ⟨a + t.length, by simp [Reader.readCStringNRaw, h0, readExact_append t rest none a _ rfl h0]⟩

theorem readCStringN_append (t rest : Bytes) (a n : Nat) (hn : t.length = n) :
    ∃ a', Reader.readCStringN ⟨t ++ rest, none, a⟩ n = (cutAtNul t, ⟨rest, none, a'⟩) := by
  by_cases h0 : n = 0
  · subst h0
    have : t = [] := List.eq_nil_of_length_eq_zero hn
    subst this
    exact ⟨a, by simp [Reader.readCStringN, cutAtNul]⟩
  · exact ⟨a + n, by simp [Reader.readCStringN, h0, readExact_append t rest none a n hn h0]⟩

theorem readNum_append (k n : Nat) (rest : Bytes) (a : Nat) (h : n < 256 ^ k) :
    Reader.readNum ⟨be k n ++ rest, none, a⟩ k = (n, ⟨rest, none, a⟩) := by
  simp [Reader.readNum, fromBe_be_of_lt h]

theorem splitNul_append (s rest : Bytes) (h : hasNul s = false) :
    Reader.splitNul (s ++ 0 :: rest) = some (s, rest) := by
  induction s with
  | nil => simp [Reader.splitNul]
  | cons b bs ih =>
    simp only [hasNul, List.any_cons, Bool.or_eq_false_iff, beq_eq_false_iff_ne] at h
    simp only [List.cons_append, Reader.splitNul, h.1, if_false]
    rw [ih (by simpa [hasNul] using h.2)]

theorem readCString_append (s rest : Bytes) (a : Nat) (h : hasNul s = false) :
    Reader.readCString ⟨s ++ 0 :: rest, none, a⟩ = (s, ⟨rest, none, a⟩) := by
  simp [Reader.readCString, splitNul_append s rest h]

theorem splitNul_some {bs x y : Bytes} (h : Reader.splitNul bs = some (x, y)) :
    bs = x ++ 0 :: y ∧ hasNul x = false := by
  induction bs generalizing x y with
  | nil => simp [Reader.splitNul] at h
  | cons b bs ih =>
    simp only [Reader.splitNul] at h
    split at h
    · rename_i hb; simp at h; obtain ⟨rfl, rfl⟩ := h; simp [hb, hasNul]
    · rename_i hb
      split at h
      · rename_i x' y' hs
        simp at h; obtain ⟨rfl, rfl⟩ := h
        have := ih hs
        refine ⟨by simp [this.1], ?_⟩
        simp only [hasNul, List.any_cons, Bool.or_eq_false_iff, beq_eq_false_iff_ne]
        exact ⟨hb, by simpa [hasNul] using this.2⟩
      · simp at h

theorem readExact_spec (r : Reader) (n : Nat) :
    (∃ t, r.readExact n = (some t, ⟨r.rest.drop n, r.err, r.alloc + n⟩) ∧ t = r.rest.take n ∧ n ≤ r.rest.length)
    ∨ (∃ e, r.readExact n = (none, ⟨r.rest, some e, r.alloc⟩) ∧ r.rest = [])
    ∨ (∃ e, r.readExact n = (none, ⟨[], some e, r.alloc⟩) ∧ r.rest.length < n) := by
  unfold Reader.readExact
  by_cases h1 : r.rest.isEmpty = true
  · right; left; exact ⟨.eof, by simp [h1], by simpa using h1⟩
  · by_cases h2 : r.rest.length < n
    · right; right; exact ⟨.short, by simp [h1, h2], h2⟩
    · left; exact ⟨_, by simp [h1, h2], rfl, by omega⟩

theorem readExact_suffix (r : Reader) (n : Nat) : (r.readExact n).2.rest <:+ r.rest := by
  rcases readExact_spec r n with ⟨t, h, _, _⟩ | ⟨e, h, _⟩ | ⟨e, h, _⟩ <;> rw [h]
  · exact List.drop_suffix _ _
  · exact List.suffix_refl _
  · exact List.nil_suffix

theorem readExact_alloc (r : Reader) (n : Nat) :
    (r.readExact n).2.alloc + (r.readExact n).2.rest.length ≤ r.alloc + r.rest.length := by
  rcases readExact_spec r n with ⟨t, h, _, hn⟩ | ⟨e, h, _⟩ | ⟨e, h, _⟩ <;> rw [h] <;> simp <;> omega

end SmsVerif
