/-
  GSM 7-bit packing: the block algorithm of `gsm7encoding.Pack` (masks, shifts, ors on bytes) is the
  little-endian bit stream of TS 23.038 §6.1.2.1.1, and a handset that knows the septet count reads
  every septet back from it.
-/
import SmsVerif.Model.Gsm7

namespace SmsVerif.Gsm7

/-! ### the byte operations as arithmetic -/

def allBelow (f : Nat → Bool) : Nat → Bool
  | 0 => true
  | n+1 => f n && allBelow f n

theorem allBelow_spec (f : Nat → Bool) : ∀ n, allBelow f n = true → ∀ i, i < n → f i = true
  | 0, _, i, h => by omega
  | n+1, h, i, hi => by
    simp only [allBelow, Bool.and_eq_true] at h
    rcases Nat.lt_or_ge i n with h' | h'
    · exact allBelow_spec f n h.2 i h'
    · have : i = n := by omega
      subst this; exact h.1

/-- 7 × 128 cases: keeping the high bits of a septet and shifting them down is a division -/
theorem hi_table : allBelow (fun i => (((i % 128) &&& hiMask (i / 128)) >>> (i / 128)) == (i % 128) / 2 ^ (i / 128)) (7 * 128) = true := by
  decide +kernel

/-- 7 × 128 cases: the low bits of the next septet, shifted up, as a byte -/
theorem lo_table : allBelow (fun i => ((((i % 128) &&& (2 ^ (i / 128 + 1) - 1)) <<< (7 - i / 128)) % 256)
    == ((i % 128) % 2 ^ (i / 128 + 1)) * 2 ^ (7 - i / 128)) (7 * 128) = true := by
  decide +kernel

theorem hi_arith (j a : Nat) (hj : j < 7) (ha : a < 128) : (a &&& hiMask j) >>> j = a / 2 ^ j := by
  have := allBelow_spec _ _ hi_table (j * 128 + a) (by omega)
  have e1 : (j * 128 + a) % 128 = a := by omega
  have e2 : (j * 128 + a) / 128 = j := by omega
  simpa [e1, e2] using this

theorem lo_arith (j b : Nat) (hj : j < 7) (hb : b < 128) :
    ((b &&& (2 ^ (j + 1) - 1)) <<< (7 - j)) % 256 = (b % 2 ^ (j + 1)) * 2 ^ (7 - j) := by
  have := allBelow_spec _ _ lo_table (j * 128 + b) (by omega)
  have e1 : (j * 128 + b) % 128 = b := by omega
  have e2 : (j * 128 + b) / 128 = j := by omega
  simpa [e1, e2] using this

theorem packLast_arith (j a : Nat) (hj : j < 7) (ha : a < 128) : packLast j a = a / 2 ^ j := hi_arith j a hj ha

theorem packOctet_arith (j a b : Nat) (hj : j < 7) (ha : a < 128) (hb : b < 128) :
    packOctet j a b = a / 2 ^ j + (b % 2 ^ (j + 1)) * 2 ^ (7 - j) := by
  unfold packOctet
  rw [hi_arith j a hj ha, lo_arith j b hj hb]
  have hx : a / 2 ^ j < 2 ^ (7 - j) := by
    apply Nat.div_lt_of_lt_mul
    have : 2 ^ j * 2 ^ (7 - j) = 128 := by
      rw [← Nat.pow_add]; have : j + (7 - j) = 7 := by omega
      rw [this]
    omega
  have := Nat.two_pow_add_eq_or_of_lt hx (b % 2 ^ (j + 1))
  rw [Nat.or_comm, Nat.mul_comm (b % 2 ^ (j + 1)), ← this]
  omega

/-! ### octet strings of a number -/

theorem octetsLE_length (k n : Nat) : (octetsLE k n).length = k := by
  induction k generalizing n with
  | zero => rfl
  | succ k ih => simp [octetsLE, ih]

/-- the octets of `x + 256^m·y` are the `m` octets of `x` followed by the octets of `y` -/
theorem octetsLE_append (m k : Nat) : ∀ (x y : Nat), x < 256 ^ m →
    octetsLE (m + k) (x + 256 ^ m * y) = octetsLE m x ++ octetsLE k y := by
  induction m with
  | zero => intro x y hx; simp at hx; subst hx; simp [octetsLE]
  | succ m ih =>
    intro x y hx
    have e : m + 1 + k = (m + k) + 1 := by omega
    rw [e]
    simp only [octetsLE, List.cons_append]
    have hp : 256 ^ (m + 1) = 256 * 256 ^ m := by rw [Nat.pow_succ]; omega
    generalize hz : 256 ^ m * y = z
    have hz' : 256 ^ (m + 1) * y = 256 * z := by rw [hp, Nat.mul_assoc, hz]
    rw [hz']
    have h1 : (x + 256 * z) % 256 = x % 256 := by omega
    have h2 : (x + 256 * z) / 256 = x / 256 + z := by omega
    rw [h1, h2, ← hz]
    congr 1
    exact ih (x / 256) y (by rw [hp] at hx; omega)

theorem bitsOf_lt (s : List Nat) : bitsOf s < 128 ^ s.length := by
  induction s with
  | nil => simp [bitsOf]
  | cons x xs ih =>
    simp only [bitsOf, List.length_cons, Nat.pow_succ]
    have : x % 128 < 128 := Nat.mod_lt _ (by omega)
    generalize 128 ^ xs.length = P at ih ⊢
    omega

/-! ### one block -/

theorem block8 (s0 s1 s2 s3 s4 s5 s6 s7 : Nat) (h0 : s0 < 128) (h1 : s1 < 128) (h2 : s2 < 128) (h3 : s3 < 128)
    (h4 : s4 < 128) (h5 : s5 < 128) (h6 : s6 < 128) (h7 : s7 < 128) :
    [packOctet 0 s0 s1, packOctet 1 s1 s2, packOctet 2 s2 s3, packOctet 3 s3 s4,
     packOctet 4 s4 s5, packOctet 5 s5 s6, packOctet 6 s6 s7]
    = octetsLE 7 (bitsOf [s0, s1, s2, s3, s4, s5, s6, s7]) := by
  rw [packOctet_arith 0 s0 s1 (by omega) h0 h1, packOctet_arith 1 s1 s2 (by omega) h1 h2,
    packOctet_arith 2 s2 s3 (by omega) h2 h3, packOctet_arith 3 s3 s4 (by omega) h3 h4,
    packOctet_arith 4 s4 s5 (by omega) h4 h5, packOctet_arith 5 s5 s6 (by omega) h5 h6,
    packOctet_arith 6 s6 s7 (by omega) h6 h7]
  simp only [octetsLE, bitsOf]
  refine List.cons_eq_cons.2 ⟨by omega, List.cons_eq_cons.2 ⟨by omega, List.cons_eq_cons.2 ⟨by omega,
    List.cons_eq_cons.2 ⟨by omega, List.cons_eq_cons.2 ⟨by omega, List.cons_eq_cons.2 ⟨by omega,
    List.cons_eq_cons.2 ⟨by omega, rfl⟩⟩⟩⟩⟩⟩⟩

/-! ### the whole message -/

theorem bitsOf_block (s0 s1 s2 s3 s4 s5 s6 s7 : Nat) (rest : List Nat) :
    bitsOf (s0 :: s1 :: s2 :: s3 :: s4 :: s5 :: s6 :: s7 :: rest)
      = bitsOf [s0, s1, s2, s3, s4, s5, s6, s7] + 256 ^ 7 * bitsOf rest := by
  simp only [bitsOf]
  generalize bitsOf rest = R
  omega

/-- **packBlocks is the bit stream**: ⌈7n/8⌉ octets of the little-endian number whose bits 7i..7i+6
    are septet i -/
theorem packBlocks_eq (s : List Nat) (h : ∀ x ∈ s, x < 128) :
    packBlocks s = octetsLE ((7 * s.length + 7) / 8) (bitsOf s) := by
  fun_induction packBlocks s with
  | case1 s0 s1 s2 s3 s4 s5 s6 s7 rest ih =>
    have hr : ∀ x ∈ rest, x < 128 := fun x hx => h x (by simp [hx])
    rw [ih hr, bitsOf_block]
    have hb := bitsOf_lt [s0, s1, s2, s3, s4, s5, s6, s7]
    have e : (7 * (s0 :: s1 :: s2 :: s3 :: s4 :: s5 :: s6 :: s7 :: rest).length + 7) / 8
        = 7 + (7 * rest.length + 7) / 8 := by simp only [List.length_cons]; omega
    rw [e, octetsLE_append 7 _ _ _ (by simpa using hb)]
    congr 1
    exact block8 s0 s1 s2 s3 s4 s5 s6 s7 (h _ (by simp)) (h _ (by simp)) (h _ (by simp)) (h _ (by simp))
      (h _ (by simp)) (h _ (by simp)) (h _ (by simp)) (h _ (by simp))
  | case2 s0 s1 s2 s3 s4 s5 s6 =>
    rw [packOctet_arith 0 s0 s1 (by omega) (h _ (by simp)) (h _ (by simp)),
      packOctet_arith 1 s1 s2 (by omega) (h _ (by simp)) (h _ (by simp)),
      packOctet_arith 2 s2 s3 (by omega) (h _ (by simp)) (h _ (by simp)),
      packOctet_arith 3 s3 s4 (by omega) (h _ (by simp)) (h _ (by simp)),
      packOctet_arith 4 s4 s5 (by omega) (h _ (by simp)) (h _ (by simp)),
      packOctet_arith 5 s5 s6 (by omega) (h _ (by simp)) (h _ (by simp)),
      packLast_arith 6 s6 (by omega) (h _ (by simp))]
    have h0 := h s0 (by simp); have h1 := h s1 (by simp); have h2 := h s2 (by simp); have h3 := h s3 (by simp)
    have h4 := h s4 (by simp); have h5 := h s5 (by simp); have h6 := h s6 (by simp)
    simp only [List.length_cons, List.length_nil, octetsLE, bitsOf]
    refine List.cons_eq_cons.2 ⟨by omega, List.cons_eq_cons.2 ⟨by omega, List.cons_eq_cons.2 ⟨by omega,
      List.cons_eq_cons.2 ⟨by omega, List.cons_eq_cons.2 ⟨by omega, List.cons_eq_cons.2 ⟨by omega,
      List.cons_eq_cons.2 ⟨by omega, rfl⟩⟩⟩⟩⟩⟩⟩
  | case3 s0 s1 s2 s3 s4 s5 =>
    rw [packOctet_arith 0 s0 s1 (by omega) (h _ (by simp)) (h _ (by simp)),
      packOctet_arith 1 s1 s2 (by omega) (h _ (by simp)) (h _ (by simp)),
      packOctet_arith 2 s2 s3 (by omega) (h _ (by simp)) (h _ (by simp)),
      packOctet_arith 3 s3 s4 (by omega) (h _ (by simp)) (h _ (by simp)),
      packOctet_arith 4 s4 s5 (by omega) (h _ (by simp)) (h _ (by simp)),
      packLast_arith 5 s5 (by omega) (h _ (by simp))]
    have h0 := h s0 (by simp); have h1 := h s1 (by simp); have h2 := h s2 (by simp); have h3 := h s3 (by simp)
    have h4 := h s4 (by simp); have h5 := h s5 (by simp)
    simp only [List.length_cons, List.length_nil, octetsLE, bitsOf]
    refine List.cons_eq_cons.2 ⟨by omega, List.cons_eq_cons.2 ⟨by omega, List.cons_eq_cons.2 ⟨by omega,
      List.cons_eq_cons.2 ⟨by omega, List.cons_eq_cons.2 ⟨by omega, List.cons_eq_cons.2 ⟨by omega, rfl⟩⟩⟩⟩⟩⟩
  | case4 s0 s1 s2 s3 s4 =>
    rw [packOctet_arith 0 s0 s1 (by omega) (h _ (by simp)) (h _ (by simp)),
      packOctet_arith 1 s1 s2 (by omega) (h _ (by simp)) (h _ (by simp)),
      packOctet_arith 2 s2 s3 (by omega) (h _ (by simp)) (h _ (by simp)),
      packOctet_arith 3 s3 s4 (by omega) (h _ (by simp)) (h _ (by simp)),
      packLast_arith 4 s4 (by omega) (h _ (by simp))]
    have h0 := h s0 (by simp); have h1 := h s1 (by simp); have h2 := h s2 (by simp); have h3 := h s3 (by simp)
    have h4 := h s4 (by simp)
    simp only [List.length_cons, List.length_nil, octetsLE, bitsOf]
    refine List.cons_eq_cons.2 ⟨by omega, List.cons_eq_cons.2 ⟨by omega, List.cons_eq_cons.2 ⟨by omega,
      List.cons_eq_cons.2 ⟨by omega, List.cons_eq_cons.2 ⟨by omega, rfl⟩⟩⟩⟩⟩
  | case5 s0 s1 s2 s3 =>
    rw [packOctet_arith 0 s0 s1 (by omega) (h _ (by simp)) (h _ (by simp)),
      packOctet_arith 1 s1 s2 (by omega) (h _ (by simp)) (h _ (by simp)),
      packOctet_arith 2 s2 s3 (by omega) (h _ (by simp)) (h _ (by simp)),
      packLast_arith 3 s3 (by omega) (h _ (by simp))]
    have h0 := h s0 (by simp); have h1 := h s1 (by simp); have h2 := h s2 (by simp); have h3 := h s3 (by simp)
    simp only [List.length_cons, List.length_nil, octetsLE, bitsOf]
    refine List.cons_eq_cons.2 ⟨by omega, List.cons_eq_cons.2 ⟨by omega, List.cons_eq_cons.2 ⟨by omega,
      List.cons_eq_cons.2 ⟨by omega, rfl⟩⟩⟩⟩
  | case6 s0 s1 s2 =>
    rw [packOctet_arith 0 s0 s1 (by omega) (h _ (by simp)) (h _ (by simp)),
      packOctet_arith 1 s1 s2 (by omega) (h _ (by simp)) (h _ (by simp)),
      packLast_arith 2 s2 (by omega) (h _ (by simp))]
    have h0 := h s0 (by simp); have h1 := h s1 (by simp); have h2 := h s2 (by simp)
    simp only [List.length_cons, List.length_nil, octetsLE, bitsOf]
    refine List.cons_eq_cons.2 ⟨by omega, List.cons_eq_cons.2 ⟨by omega, List.cons_eq_cons.2 ⟨by omega, rfl⟩⟩⟩
  | case7 s0 s1 =>
    rw [packOctet_arith 0 s0 s1 (by omega) (h _ (by simp)) (h _ (by simp)),
      packLast_arith 1 s1 (by omega) (h _ (by simp))]
    have h0 := h s0 (by simp); have h1 := h s1 (by simp)
    simp only [List.length_cons, List.length_nil, octetsLE, bitsOf]
    refine List.cons_eq_cons.2 ⟨by omega, List.cons_eq_cons.2 ⟨by omega, rfl⟩⟩
  | case8 s0 =>
    rw [packLast_arith 0 s0 (by omega) (h _ (by simp))]
    have h0 := h s0 (by simp)
    simp only [List.length_cons, List.length_nil, octetsLE, bitsOf]
    refine List.cons_eq_cons.2 ⟨by omega, rfl⟩
  | case9 => rfl

/-! ### the CR rule -/

theorem setLast_append (A : Bytes) (v : Nat) (f : Nat → Nat) : setLast (A ++ [v]) f = A ++ [f v] := by
  simp [setLast]

/-- the last octet, separately -/
theorem octetsLE_last (K x : Nat) (hK : 0 < K) :
    octetsLE K x = octetsLE (K - 1) (x % 256 ^ (K - 1)) ++ [(x / 256 ^ (K - 1)) % 256] := by
  have hP : 0 < 256 ^ (K - 1) := Nat.pow_pos (by omega)
  have e : x = x % 256 ^ (K - 1) + 256 ^ (K - 1) * (x / 256 ^ (K - 1)) := (Nat.mod_add_div _ _).symm
  have hk : K = (K - 1) + 1 := by omega
  conv => lhs; rw [hk, e]
  rw [octetsLE_append (K - 1) 1 _ _ (Nat.mod_lt _ hP)]
  simp [octetsLE]

theorem pow128_eq (n : Nat) : 128 ^ n = 2 ^ (7 * n) := by
  rw [show (128 : Nat) = 2 ^ 7 by decide, ← Nat.pow_mul]

/-- **pack = specification**: for septets (values below 128) `gsm7encoding.Pack` produces exactly the
    octets TS 23.038 §6.1.2.1.1 prescribes: the bit stream in ⌈7n/8⌉ octets, zero fill, and a CR in
    the seven spare bits when n ≡ 7 (mod 8) -/
theorem packGo_eq_spec (s : List Nat) (h : ∀ x ∈ s, x < 128) : packGo s = packSpec s := by
  unfold packGo packSpec
  simp only
  rw [packBlocks_eq s h]
  have hmul : s.length * 7 = 7 * s.length := Nat.mul_comm _ _
  rw [hmul]
  by_cases hcr : (7 * s.length) % 8 = 1
  · simp only [hcr, if_true]
    -- n ≡ 7 (mod 8): K octets with 8K = 7n + 7, and 2^(7n) = 2·256^(K-1)
    generalize hK : (7 * s.length + 7) / 8 = K
    have hK8 : 8 * K = 7 * s.length + 7 := by omega
    have hKpos : 0 < K := by omega
    have hpow : 2 ^ (7 * s.length) = 2 * 256 ^ (K - 1) := by
      have : 7 * s.length = 8 * (K - 1) + 1 := by omega
      rw [this, Nat.pow_succ, Nat.pow_mul]; simp [Nat.mul_comm]
    have hx := bitsOf_lt s
    rw [pow128_eq, hpow] at hx
    rw [hpow]
    generalize hP : 256 ^ (K - 1) = P at hx ⊢
    have hPpos : 0 < P := by rw [← hP]; exact Nat.pow_pos (by omega)
    rw [octetsLE_last K (bitsOf s) hKpos, octetsLE_last K (bitsOf s + 13 * (2 * P)) hKpos, hP, setLast_append]
    have hdiv : bitsOf s / P < 2 := by
      apply Nat.div_lt_of_lt_mul; rw [Nat.mul_comm]; exact hx
    have e1 : (bitsOf s + 13 * (2 * P)) % P = bitsOf s % P := by
      rw [show 13 * (2 * P) = P * 26 by omega, Nat.add_mul_mod_self_left]
    have e2 : (bitsOf s + 13 * (2 * P)) / P = bitsOf s / P + 26 := by
      rw [show 13 * (2 * P) = P * 26 by omega, Nat.add_mul_div_left _ _ hPpos]
    rw [e1, e2]
    congr 2
    generalize bitsOf s / P = q at hdiv ⊢
    have hv : q = 0 ∨ q = 1 := by omega
    rcases hv with hv | hv <;> simp [hv]
  · simp only [hcr, if_false, Nat.add_zero]

/-! ### reading the septets back -/

theorem foldr_octetsLE (K x : Nat) : (octetsLE K x).foldr (fun b acc => b % 256 + 256 * acc) 0 = x % 256 ^ K := by
  induction K generalizing x with
  | zero => simp [octetsLE, Nat.mod_one]
  | succ K ih =>
    simp only [octetsLE, List.foldr_cons, ih]
    rw [Nat.pow_succ, Nat.mul_comm (256 ^ K) 256, Nat.mod_mul, Nat.mod_mod]

theorem bitsOf_septet (s : List Nat) (h : ∀ x ∈ s, x < 128) (i : Nat) (hi : i < s.length) :
    (bitsOf s / 2 ^ (7 * i)) % 128 = s[i] := by
  induction s generalizing i with
  | nil => simp at hi
  | cons x xs ih =>
    have hx : x % 128 = x := Nat.mod_eq_of_lt (h x (by simp))
    cases i with
    | zero => simp only [bitsOf, Nat.mul_zero, Nat.pow_zero, Nat.div_one, List.getElem_cons_zero]; omega
    | succ i =>
      simp only [bitsOf, List.getElem_cons_succ]
      have e : 2 ^ (7 * (i + 1)) = 128 * 2 ^ (7 * i) := by
        rw [show 7 * (i + 1) = 7 * i + 7 by omega, Nat.pow_add]; omega
      rw [e, ← Nat.div_div_eq_div_mul]
      have : (x % 128 + 128 * bitsOf xs) / 128 = bitsOf xs := by omega
      rw [this]
      exact ih (fun y hy => h y (by simp [hy])) i (by simpa using hi)

/-- bits `m .. m+6` of `(B + c·2^t) mod 2^w` are those of `B` when `m + 7 ≤ t ≤ w` -/
theorem window (B c m t w : Nat) (h1 : m + 7 ≤ t) (h2 : t ≤ w) :
    ((B + c * 2 ^ t) % 2 ^ w) / 2 ^ m % 128 = B / 2 ^ m % 128 := by
  have hw : 2 ^ w = 2 ^ m * 2 ^ (w - m) := by rw [← Nat.pow_add]; congr 1; omega
  rw [hw, Nat.mod_mul_right_div_self]
  have hd : 128 ∣ 2 ^ (w - m) := by
    have : w - m = 7 + (w - m - 7) := by omega
    rw [this, Nat.pow_add]; exact ⟨2 ^ (w - m - 7), by simp⟩
  rw [Nat.mod_mod_of_dvd _ hd]
  have ht : c * 2 ^ t = (c * 2 ^ (t - m)) * 2 ^ m := by
    rw [Nat.mul_assoc, ← Nat.pow_add]; congr 2; omega
  rw [ht, Nat.add_mul_div_right _ _ (Nat.pow_pos (by omega))]
  have h128 : c * 2 ^ (t - m) = (c * 2 ^ (t - m - 7)) * 128 := by
    have : t - m = (t - m - 7) + 7 := by omega
    rw [this, Nat.pow_add, Nat.add_sub_cancel]; simp [Nat.mul_assoc]
  rw [h128, Nat.add_mul_mod_self_right]

/-- **a handset reads the text back**: told the septet count, the reference unpacker of
    TS 23.038 recovers every septet from the packed octets (CR filler included) -/
theorem unpackSpec_packSpec (s : List Nat) (h : ∀ x ∈ s, x < 128) : unpackSpec s.length (packSpec s) = s := by
  unfold unpackSpec packSpec
  simp only
  rw [foldr_octetsLE]
  apply List.ext_getElem
  · simp
  · intro i h1 h2
    simp only [List.length_map, List.length_range] at h1
    simp only [List.getElem_map, List.getElem_range]
    have h256 : (256 : Nat) ^ ((7 * s.length + 7) / 8) = 2 ^ (8 * ((7 * s.length + 7) / 8)) := by
      rw [show (256 : Nat) = 2 ^ 8 by decide, ← Nat.pow_mul]
    rw [h256]
    have hcr : (if 7 * s.length % 8 = 1 then 13 * 2 ^ (7 * s.length) else 0) =
        (if 7 * s.length % 8 = 1 then 13 else 0) * 2 ^ (7 * s.length) := by split <;> simp
    rw [hcr, window (bitsOf s) _ (7 * i) (7 * s.length) _ (by omega) (by omega)]
    exact bitsOf_septet s h i h1

end SmsVerif.Gsm7
