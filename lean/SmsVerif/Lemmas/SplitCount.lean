/-
  How many parts: bounds that hold for every content, from the boundary rules alone.

  A rule that moves a cut back by at most `s` units (`s < per`) yields between ⌈n/per⌉ and
  ⌈n/(per-s)⌉ parts.  Hence the 255-part refusal is decided by the length alone outside the window
  `255·(per-s) < n ≤ 255·per`, and inside it by the real cuts — never by ⌈n/per⌉.
-/
import SmsVerif.Lemmas.Split

namespace SmsVerif.Split

/-- the rule never moves the tentative end `b + per` back by more than `s` units -/
def BacksUpAtMost (bnd : Boundary) (d : List Nat) (per s : Nat) : Prop :=
  ∀ b, b + per - s ≤ bnd d b (b + per)

theorem partition_lower (per n : Nat) : ∀ (cuts : List Nat) (b : Nat),
    Partition per n b cuts → n - b ≤ cuts.length * per := by
  intro cuts
  induction cuts with
  | nil => intro b h; simp only [Partition] at h; subst h; simp
  | cons e rest ih =>
    intro b h
    obtain ⟨h1, h2, h3, h4⟩ := h
    have := ih e h4
    simp only [List.length_cons, Nat.succ_mul]
    omega

theorem cutPoints_upper (bnd : Boundary) (d : List Nat) (per s : Nat) (hs : s < per)
    (hb : BacksUpAtMost bnd d per s) (fuel b : Nat) :
    (cutPoints bnd d per fuel b).length * (per - s) < (d.length - b) + (per - s) := by
  induction fuel generalizing b with
  | zero => simp [cutPoints]; omega
  | succ fuel ih =>
    unfold cutPoints
    by_cases h1 : b ≥ d.length
    · simp only [h1, if_true, List.length_nil]; omega
    · simp only [h1, if_false]
      by_cases h2 : b + per ≥ d.length
      · simp only [h2, if_true, List.length_singleton]; omega
      · simp only [h2, if_false]
        generalize hE : (if bnd d b (b + per) > b ∧ bnd d b (b + per) ≤ b + per then bnd d b (b + per) else b + per) = e
        have he : b + per - s ≤ e ∧ e ≤ b + per := by
          have := hb b
          subst hE; split <;> omega
        have := ih e
        simp only [List.length_cons, Nat.succ_mul]
        omega

/-! ### the four rules -/

theorem noBoundary_backs (d : List Nat) (per : Nat) : BacksUpAtMost noBoundary d per 0 := by
  intro b; simp [noBoundary]

theorem gsmBoundary_backs (d : List Nat) (per : Nat) : BacksUpAtMost gsmBoundary d per 1 := by
  intro b; unfold gsmBoundary; split <;> omega

theorem ucs2Boundary_backs (d : List Nat) (per : Nat) : BacksUpAtMost ucs2Boundary d per 2 := by
  intro b; unfold ucs2Boundary; split <;> omega

theorem gbCharLen_le (d : List Nat) (i : Nat) : 1 ≤ gbCharLen d i ∧ gbCharLen d i ≤ 4 := by
  unfold gbCharLen; dsimp only; split
  · omega
  · split <;> omega

theorem gbScan_ge (d : List Nat) (e : Nat) : ∀ (fuel pos : Nat), pos ≤ e → e - pos ≤ fuel →
    e - 3 ≤ gbScan d e fuel pos := by
  intro fuel
  induction fuel with
  | zero => intro pos h1 h2; simp only [gbScan]; omega
  | succ fuel ih =>
    intro pos h1 h2
    have hl := gbCharLen_le d pos
    simp only [gbScan]
    split
    · rename_i hn; exact ih _ hn (by omega)
    · omega

theorem gbBoundary_backs (d : List Nat) (per : Nat) : BacksUpAtMost gbBoundary d per 3 := by
  intro b
  unfold gbBoundary
  have := gbScan_ge d (b + per) (b + per - b) b (by omega) (by omega)
  dsimp only
  split <;> omega

end SmsVerif.Split
