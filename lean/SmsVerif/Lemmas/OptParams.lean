/-
  Optional-parameter containers: parsing the serialisation of any emission order of a set of
  parameters with distinct tags yields that same list (hence the same set).
-/
import SmsVerif.Model.OptParams
import SmsVerif.Model.Check
import SmsVerif.Lemmas.Packet

namespace SmsVerif

theorem min_len_rem (v x : Bytes) (a : Nat) :
    min v.length (({ rest := v ++ x, err := none, alloc := a } : Reader).remaining + 1) = v.length := by
  simp only [Reader.remaining, List.length_append]; omega

theorem upsert_fresh (m : TlvMap) (t : Nat) (v : Bytes) (h : ∀ x ∈ m, x.1 ≠ t) :
    m.upsert t v = m ++ [(t, v)] := by
  induction m with
  | nil => rfl
  | cons x xs ih =>
    obtain ⟨t', v'⟩ := x
    have h1 : t' ≠ t := h (t', v') (by simp)
    simp only [TlvMap.upsert, h1, if_false, List.cons_append]
    rw [ih (fun y hy => h y (by simp [hy]))]

theorem readBytes_append (t rest : Bytes) (a : Nat) :
    Reader.readBytes ⟨t ++ rest, none, a⟩ t.length = (t, ⟨rest, none, a⟩) := by
  by_cases h0 : t.length = 0
  · have : t = [] := List.eq_nil_of_length_eq_zero h0
    subst this; simp [Reader.readBytes]
  · have hne : (t ++ rest).isEmpty = false := by
      cases t with
      | nil => simp at h0
      | cons b bs => simp
    have hlt : ¬ (t ++ rest).length < t.length := by simp
    simp only [Reader.readBytes, h0, if_false, hne, Bool.false_eq_true, hlt]
    rw [List.take_left' rfl, List.drop_left' rfl]

theorem tlvBytes_small (t : Nat) (v : Bytes) (hv : v.length < 65536) :
    tlvBytes (t, v) = (be 2 t ++ be 2 v.length) ++ v := by
  simp [tlvBytes, Nat.mod_eq_of_lt hv]

theorem tagsNodup_cons {t : Nat} {v : Bytes} {rest : TlvMap} (h : tagsNodup ((t, v) :: rest) = true) :
    (∀ x ∈ rest, x.1 ≠ t) ∧ tagsNodup rest = true := by
  simp only [tagsNodup, Bool.and_eq_true, Bool.not_eq_true', List.any_eq_false, beq_iff_eq] at h
  exact ⟨fun x hx => h.1 x hx, h.2⟩

/-- the reader-based parser on the serialisation of `order`, starting from the map `m` -/
theorem readTlvLoop_ser (order : TlvMap) (m : TlvMap) (a fuel : Nat)
    (hfuel : (tlvsBytes order).length < fuel)
    (hm : ∀ tv ∈ order, ∀ x ∈ m, x.1 ≠ tv.1) (hn : tagsNodup order = true)
    (hb : ∀ tv ∈ order, tv.1 < 65536 ∧ tv.2.length < 65536) :
    ∃ a', (readTlvLoop fuel ⟨tlvsBytes order, none, a⟩ m).map = some (m ++ order) ∧
          (readTlvLoop fuel ⟨tlvsBytes order, none, a⟩ m).rd = ⟨[], none, a'⟩ := by
  induction order generalizing m a fuel with
  | nil =>
    cases fuel with
    | zero => simp at hfuel
    | succ fuel => exact ⟨a, by simp [readTlvLoop, tlvsBytes, Reader.remaining]⟩
  | cons tv rest ih =>
    obtain ⟨t, v⟩ := tv
    obtain ⟨ht, hv⟩ := hb (t, v) (by simp)
    obtain ⟨hnr, hn'⟩ := tagsNodup_cons hn
    cases fuel with
    | zero => simp at hfuel
    | succ fuel =>
      have hser : tlvsBytes ((t, v) :: rest) = (be 2 t ++ be 2 v.length) ++ (v ++ tlvsBytes rest) := by
        simp [tlvsBytes, tlvBytes_small t v hv, List.append_assoc]
      have hrem : ¬ (Reader.remaining ⟨tlvsBytes ((t, v) :: rest), none, a⟩ = 0) := by
        simp [Reader.remaining, hser]
      have hhd : Reader.readBytes ⟨(be 2 t ++ be 2 v.length) ++ (v ++ tlvsBytes rest), none, a⟩ 4
          = (be 2 t ++ be 2 v.length, ⟨v ++ tlvsBytes rest, none, a⟩) := by
        have := readBytes_append (be 2 t ++ be 2 v.length) (v ++ tlvsBytes rest) a
        simpa using this
      have htag : fromBe ((be 2 t ++ be 2 v.length).take 2) = t := by
        rw [List.take_left' (by simp)]; exact fromBe_be_of_lt (by simpa using ht)
      have hlen : fromBe ((be 2 t ++ be 2 v.length).drop 2) = v.length := by
        rw [List.drop_left' (by simp)]; exact fromBe_be_of_lt (by simpa using hv)
      have hval : Reader.readBytes ⟨v ++ tlvsBytes rest, none, a + v.length⟩ v.length
          = (v, ⟨tlvsBytes rest, none, a + v.length⟩) := readBytes_append v (tlvsBytes rest) _
      have hfuel' : (tlvsBytes rest).length < fuel := by
        have := congrArg List.length hser
        simp at this; omega
      have hm' : ∀ tv ∈ rest, ∀ x ∈ m ++ [(t, v)], x.1 ≠ tv.1 := by
        intro tv htv x hx
        simp only [List.mem_append, List.mem_singleton] at hx
        rcases hx with hx | rfl
        · exact hm tv (by simp [htv]) x hx
        · exact fun e => hnr tv htv e.symm
      obtain ⟨a', h1, h2⟩ := ih (m ++ [(t, v)]) (a + v.length) fuel hfuel' hm' hn'
        (fun tv htv => hb tv (by simp [htv]))
      refine ⟨a', ?_, ?_⟩ <;>
      · rw [readTlvLoop]
        simp only [hrem, if_false]
        rw [hser, hhd]
        simp only [htag, hlen, min_len_rem, hval, upsert_fresh m t v (hm (t, v) (by simp))]
        first | (simpa [List.append_assoc] using h1) | exact h2

/-- `ReadTLVs1` / `ReadOptions` on the serialisation of any emission order -/
theorem readTlvs_ser (order : TlvMap) (a : Nat) (hn : tagsNodup order = true)
    (hb : ∀ tv ∈ order, tv.1 < 65536 ∧ tv.2.length < 65536) :
    ((readTlvs ⟨tlvsBytes order, none, a⟩).map.getD []) = order ∧
    (readTlvs ⟨tlvsBytes order, none, a⟩).rd.err = none := by
  cases order with
  | nil => simp [readTlvs, tlvsBytes, Reader.remaining]
  | cons tv rest =>
    have hne : ¬ (Reader.remaining ⟨tlvsBytes (tv :: rest), none, a⟩ = 0) := by
      obtain ⟨t, v⟩ := tv
      have := hb (t, v) (by simp)
      simp [Reader.remaining, tlvsBytes, tlvBytes_small t v this.2]
    obtain ⟨a', h1, h2⟩ := readTlvLoop_ser (tv :: rest) [] a
      (Reader.remaining ⟨tlvsBytes (tv :: rest), none, a⟩ + 1) (by simp [Reader.remaining])
      (fun _ _ x hx => by simp at hx) hn hb
    simp only [readTlvs, hne, if_false, Option.isSome_none, Bool.false_eq_true]
    rw [h1, h2]; simp

/-- `ParseOptions` on the serialisation of any emission order -/
theorem parseOptionsLoop_ser (order : TlvMap) (m : TlvMap) (fuel : Nat)
    (hfuel : (tlvsBytes order).length < fuel)
    (hm : ∀ tv ∈ order, ∀ x ∈ m, x.1 ≠ tv.1) (hn : tagsNodup order = true)
    (hb : ∀ tv ∈ order, tv.1 < 65536 ∧ tv.2.length < 65536) :
    parseOptionsLoop fuel (tlvsBytes order) m = some (m ++ order) := by
  induction order generalizing m fuel with
  | nil =>
    cases fuel with
    | zero => simp at hfuel
    | succ fuel => simp [parseOptionsLoop, tlvsBytes]
  | cons tv rest ih =>
    obtain ⟨t, v⟩ := tv
    obtain ⟨ht, hv⟩ := hb (t, v) (by simp)
    obtain ⟨hnr, hn'⟩ := tagsNodup_cons hn
    cases fuel with
    | zero => simp at hfuel
    | succ fuel =>
      have hser : tlvsBytes ((t, v) :: rest) = be 2 t ++ (be 2 v.length ++ (v ++ tlvsBytes rest)) := by
        simp [tlvsBytes, tlvBytes_small t v hv, List.append_assoc]
      have hfuel' : (tlvsBytes rest).length < fuel := by
        have := congrArg List.length hser
        simp at this; omega
      have hm' : ∀ tv ∈ rest, ∀ x ∈ m ++ [(t, v)], x.1 ≠ tv.1 := by
        intro tv htv x hx
        simp only [List.mem_append, List.mem_singleton] at hx
        rcases hx with hx | rfl
        · exact hm tv (by simp [htv]) x hx
        · exact fun e => hnr tv htv e.symm
      have hih := ih (m ++ [(t, v)]) fuel hfuel' hm' hn' (fun tv htv => hb tv (by simp [htv]))
      rw [parseOptionsLoop, hser]
      have e1 : (be 2 t ++ (be 2 v.length ++ (v ++ tlvsBytes rest))).isEmpty = false := by
        simp [be]
      have e2 : ¬ (be 2 t ++ (be 2 v.length ++ (v ++ tlvsBytes rest))).length < 4 := by simp; omega
      have e3 : (be 2 t ++ (be 2 v.length ++ (v ++ tlvsBytes rest))).take 2 = be 2 t :=
        List.take_left' (by simp)
      have e4 : (be 2 t ++ (be 2 v.length ++ (v ++ tlvsBytes rest))).drop 2
          = be 2 v.length ++ (v ++ tlvsBytes rest) := List.drop_left' (by simp)
      have e5 : (be 2 t ++ (be 2 v.length ++ (v ++ tlvsBytes rest))).drop 4 = v ++ tlvsBytes rest := by
        have : be 2 t ++ (be 2 v.length ++ (v ++ tlvsBytes rest))
            = (be 2 t ++ be 2 v.length) ++ (v ++ tlvsBytes rest) := by simp [List.append_assoc]
        rw [this]; exact List.drop_left' (by simp)
      simp only [e1, Bool.false_eq_true, if_false, e2, e3, e4, e5, List.take_left' (be_length 2 _),
        fromBe_be_of_lt (show t < 256 ^ 2 by simpa using ht),
        fromBe_be_of_lt (show v.length < 256 ^ 2 by simpa using hv)]
      have e6 : ¬ (v ++ tlvsBytes rest).length < v.length := by simp
      simp only [e6, if_false, List.take_left' rfl, List.drop_left' rfl,
        upsert_fresh m t v (hm (t, v) (by simp))]
      simpa [List.append_assoc] using hih

theorem parseOptions_ser (order : TlvMap) (hn : tagsNodup order = true)
    (hb : ∀ tv ∈ order, tv.1 < 65536 ∧ tv.2.length < 65536) :
    parseOptions (tlvsBytes order) = some order := by
  have := parseOptionsLoop_ser order [] ((tlvsBytes order).length + 1) (by omega)
    (fun _ _ x hx => by simp at hx) hn hb
  simpa [parseOptions] using this

end SmsVerif

namespace SmsVerif

/-- the map a parser builds from a triplet sequence: later triplets with the same tag win -/
def upsertAll (m : TlvMap) (seq : TlvMap) : TlvMap := seq.foldl (fun m tv => m.upsert tv.1 tv.2) m

/-- the reader-based parser on any well-formed triplet sequence (duplicates allowed, any order) -/
theorem readTlvLoop_seq (seq : TlvMap) (m : TlvMap) (a fuel : Nat)
    (hfuel : (tlvsBytes seq).length < fuel)
    (hb : ∀ tv ∈ seq, tv.1 < 65536 ∧ tv.2.length < 65536) :
    ∃ a', (readTlvLoop fuel ⟨tlvsBytes seq, none, a⟩ m).map = some (upsertAll m seq) ∧
          (readTlvLoop fuel ⟨tlvsBytes seq, none, a⟩ m).rd = ⟨[], none, a'⟩ := by
  induction seq generalizing m a fuel with
  | nil =>
    cases fuel with
    | zero => simp at hfuel
    | succ fuel => exact ⟨a, by simp [readTlvLoop, tlvsBytes, Reader.remaining, upsertAll]⟩
  | cons tv rest ih =>
    obtain ⟨t, v⟩ := tv
    obtain ⟨ht, hv⟩ := hb (t, v) (by simp)
    cases fuel with
    | zero => simp at hfuel
    | succ fuel =>
      have hser : tlvsBytes ((t, v) :: rest) = (be 2 t ++ be 2 v.length) ++ (v ++ tlvsBytes rest) := by
        simp [tlvsBytes, tlvBytes_small t v hv, List.append_assoc]
      have hrem : ¬ (Reader.remaining ⟨tlvsBytes ((t, v) :: rest), none, a⟩ = 0) := by
        simp [Reader.remaining, hser]
      have hhd : Reader.readBytes ⟨(be 2 t ++ be 2 v.length) ++ (v ++ tlvsBytes rest), none, a⟩ 4
          = (be 2 t ++ be 2 v.length, ⟨v ++ tlvsBytes rest, none, a⟩) := by
        have := readBytes_append (be 2 t ++ be 2 v.length) (v ++ tlvsBytes rest) a
        simpa using this
      have htag : fromBe ((be 2 t ++ be 2 v.length).take 2) = t := by
        rw [List.take_left' (by simp)]; exact fromBe_be_of_lt (by simpa using ht)
      have hlen : fromBe ((be 2 t ++ be 2 v.length).drop 2) = v.length := by
        rw [List.drop_left' (by simp)]; exact fromBe_be_of_lt (by simpa using hv)
      have hval : Reader.readBytes ⟨v ++ tlvsBytes rest, none, a + v.length⟩ v.length
          = (v, ⟨tlvsBytes rest, none, a + v.length⟩) := readBytes_append v (tlvsBytes rest) _
      have hfuel' : (tlvsBytes rest).length < fuel := by
        have := congrArg List.length hser
        simp at this; omega
      obtain ⟨a', h1, h2⟩ := ih (m.upsert t v) (a + v.length) fuel hfuel' (fun tv htv => hb tv (by simp [htv]))
      refine ⟨a', ?_, ?_⟩ <;>
      · rw [readTlvLoop]
        simp only [hrem, if_false]
        rw [hser, hhd]
        simp only [htag, hlen, min_len_rem, hval]
        first | (simpa [upsertAll] using h1) | exact h2

theorem parseOptionsLoop_seq (seq : TlvMap) (m : TlvMap) (fuel : Nat)
    (hfuel : (tlvsBytes seq).length < fuel)
    (hb : ∀ tv ∈ seq, tv.1 < 65536 ∧ tv.2.length < 65536) :
    parseOptionsLoop fuel (tlvsBytes seq) m = some (upsertAll m seq) := by
  induction seq generalizing m fuel with
  | nil =>
    cases fuel with
    | zero => simp at hfuel
    | succ fuel => simp [parseOptionsLoop, tlvsBytes, upsertAll]
  | cons tv rest ih =>
    obtain ⟨t, v⟩ := tv
    obtain ⟨ht, hv⟩ := hb (t, v) (by simp)
    cases fuel with
    | zero => simp at hfuel
    | succ fuel =>
      have hser : tlvsBytes ((t, v) :: rest) = be 2 t ++ (be 2 v.length ++ (v ++ tlvsBytes rest)) := by
        simp [tlvsBytes, tlvBytes_small t v hv, List.append_assoc]
      have hfuel' : (tlvsBytes rest).length < fuel := by
        have := congrArg List.length hser
        simp at this; omega
      have hih := ih (m.upsert t v) fuel hfuel' (fun tv htv => hb tv (by simp [htv]))
      rw [parseOptionsLoop, hser]
      have e1 : (be 2 t ++ (be 2 v.length ++ (v ++ tlvsBytes rest))).isEmpty = false := by simp [be]
      have e2 : ¬ (be 2 t ++ (be 2 v.length ++ (v ++ tlvsBytes rest))).length < 4 := by simp; omega
      have e3 : (be 2 t ++ (be 2 v.length ++ (v ++ tlvsBytes rest))).take 2 = be 2 t :=
        List.take_left' (by simp)
      have e4 : (be 2 t ++ (be 2 v.length ++ (v ++ tlvsBytes rest))).drop 2
          = be 2 v.length ++ (v ++ tlvsBytes rest) := List.drop_left' (by simp)
      have e5 : (be 2 t ++ (be 2 v.length ++ (v ++ tlvsBytes rest))).drop 4 = v ++ tlvsBytes rest := by
        have : be 2 t ++ (be 2 v.length ++ (v ++ tlvsBytes rest))
            = (be 2 t ++ be 2 v.length) ++ (v ++ tlvsBytes rest) := by simp [List.append_assoc]
        rw [this]; exact List.drop_left' (by simp)
      simp only [e1, Bool.false_eq_true, if_false, e2, e3, e4, e5, List.take_left' (be_length 2 _),
        fromBe_be_of_lt (show t < 256 ^ 2 by simpa using ht),
        fromBe_be_of_lt (show v.length < 256 ^ 2 by simpa using hv)]
      have e6 : ¬ (v ++ tlvsBytes rest).length < v.length := by simp
      simp only [e6, if_false, List.take_left' rfl, List.drop_left' rfl]
      simpa [upsertAll] using hih

end SmsVerif
