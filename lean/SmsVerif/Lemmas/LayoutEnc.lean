/-
  Soundness of the layout checkers, encoder side: if the statement lists align into items and
  every item fits, `IEncode` succeeds, leaves the receiver as `norm items r`, and emits exactly
  the concatenation of the items' octets.
-/
import SmsVerif.Model.Check
import SmsVerif.Lemmas.Packet
set_option linter.unusedSimpArgs false

namespace SmsVerif

/-! ### records -/

theorem Rec.get?_set (r : Rec) (f : String) (v : Val) (g : String) :
    (r.set f v).get? g = if g = f then some v else r.get? g := by
  induction r with
  | nil =>
    simp only [Rec.set, Rec.get?]
    by_cases h : g = f
    · simp [h]
    · have : ¬ f = g := fun e => h e.symm
      simp [h, this]
  | cons kv rest ih =>
    obtain ⟨k, v'⟩ := kv
    simp only [Rec.set]
    by_cases hk : k = f
    · subst hk
      simp only [if_true, Rec.get?]
      by_cases hg : k = g
      · subst hg; simp
      · have : ¬ g = k := fun e => hg e.symm
        simp [hg, this]
    · simp only [hk, if_false, Rec.get?]
      by_cases hg : k = g
      · subst hg
        have : ¬ k = f := hk
        simp [this]
      · simp only [hg, if_false, ih]

theorem Rec.get?_set_ne (r : Rec) (f : String) (v : Val) (g : String) (h : g ≠ f) :
    (r.set f v).get? g = r.get? g := by simp [Rec.get?_set, h]

theorem Rec.get?_set_self (r : Rec) (f : String) (v : Val) : (r.set f v).get? f = some v := by
  simp [Rec.get?_set]

/-- two records agree on a set of fields -/
def AgreeOn (S : List String) (a b : Rec) : Prop := ∀ f ∈ S, a.get? f = b.get? f

theorem num_congr {a b : Rec} {f : String} (h : a.get? f = b.get? f) : a.num f = b.num f := by
  simp [Rec.num, h]
theorem str_congr {a b : Rec} {f : String} (h : a.get? f = b.get? f) : a.str f = b.str f := by
  simp [Rec.str, h]
theorem strs_congr {a b : Rec} {f : String} (h : a.get? f = b.get? f) : a.strs f = b.strs f := by
  simp [Rec.strs, h]
theorem tlvs_congr {a b : Rec} {f : String} (h : a.get? f = b.get? f) : a.tlvs f = b.tlvs f := by
  simp [Rec.tlvs, h]

/-! ### normalisation touches only its targets -/

theorem foldl_set_get?_of_not_mem (vals : List (String × Nat)) (r : Rec) (g : String)
    (h : g ∉ vals.map (·.1)) :
    (vals.foldl (fun r (fv : String × Nat) => r.set fv.1 (.num fv.2)) r).get? g = r.get? g := by
  induction vals generalizing r with
  | nil => rfl
  | cons x xs ih =>
    simp only [List.map_cons, List.mem_cons, not_or] at h
    simp only [List.foldl_cons]
    rw [ih _ h.2, Rec.get?_set_ne _ _ _ _ h.1]

theorem applyAsg_get? (c : Option Cond) (as : List (String × Expr)) (r : Rec) (g : String)
    (h : g ∉ as.map (·.1)) : (applyAsg c as r).get? g = r.get? g := by
  have key : ((as.map fun (fe : String × Expr) => (fe.1, fe.2.eval r)).foldl
      (fun r (fv : String × Nat) => r.set fv.1 (.num fv.2)) r).get? g = r.get? g := by
    apply foldl_set_get?_of_not_mem
    simpa [List.map_map, Function.comp_def] using h
  unfold applyAsg
  cases c with
  | none => exact key
  | some c =>
    simp only
    split
    · exact key
    · rfl

theorem disjoint_spec {a b : List String} (h : disjoint a b = true) {x : String} (hx : x ∈ b) : x ∉ a := by
  intro ha
  simp only [disjoint, List.all_eq_true] at h
  have := h x ha
  simp [hx] at this

/-- later normalisations do not change what an earlier item reads -/
theorem norm_agree (M : List String) (rest : List Item) (r : Rec)
    (h : rest.all (fun a => disjoint a.targets M) = true) : AgreeOn M (norm rest r) r := by
  induction rest generalizing r with
  | nil => intro f _; rfl
  | cons it rest ih =>
    simp only [List.all_cons, Bool.and_eq_true] at h
    intro f hf
    cases it with
    | asg c as =>
      simp only [norm]
      rw [ih _ h.2 f hf]
      apply applyAsg_get?
      have := disjoint_spec h.1 hf
      simpa [Item.targets] using this
    | _ => simp only [norm]; exact ih _ h.2 f hf

/-! ### congruence: an item only looks at the fields it mentions -/

theorem Item.bytes_congr (it : Item) {a b : Rec} (h : AgreeOn it.mentions a b) : it.bytes a = it.bytes b := by
  cases it <;> simp only [Item.bytes, Item.mentions] at * <;>
    first
    | rfl
    | (rw [num_congr (h _ (by simp))])
    | (rw [str_congr (h _ (by simp))])
    | (rw [strs_congr (h _ (by simp))])
    | (rw [tlvs_congr (h _ (by simp))])

theorem Item.fits_congr (it : Item) {a b : Rec} (h : AgreeOn it.mentions a b) (hb : it.Fits b) : it.Fits a := by
  cases it <;> simp only [Item.Fits, Item.mentions] at * <;>
    first
    | trivial
    | (rw [h _ (by simp)]; exact hb)
    | (rw [h _ (List.mem_cons_self), h _ (by simp)]; exact hb)

/-! ### one statement pair, encoder side -/

/-- appending octets to a healthy writer -/
def Writer.app (w : Writer) (bs : Bytes) : Writer :=
  { w with buf := w.buf ++ bs, written := w.written + bs.length }

theorem Writer.app_nil (w : Writer) : w.app [] = w := by simp [Writer.app]

theorem Writer.app_app (w : Writer) (a b : Bytes) : (w.app a).app b = w.app (a ++ b) := by
  simp [Writer.app, List.append_assoc, Nat.add_assoc]

theorem Writer.app_err (w : Writer) (bs : Bytes) : (w.app bs).err = w.err := rfl

theorem writeRep_ok (w : Writer) (hw : w.err = none) (n : Nat) (l : List Bytes)
    (h : ∀ s ∈ l, s.length ≤ n) : writeRep w n l = w.app (repBytes n l) := by
  induction l generalizing w with
  | nil => simp [writeRep, repBytes, Writer.app]
  | cons x xs ih =>
    have hx : ¬ x.length > n := by have := h x (by simp); omega
    have h1 : w.writeFixed x n = w.app (x ++ zeros (n - x.length)) := by
      simp only [Writer.writeFixed, hw, hx, if_false, Writer.app]
      have : (x ++ zeros (n - x.length)).length = n := by simp; have := h x (by simp); omega
      simp [this, List.append_assoc]
    simp only [writeRep, h1, repBytes]
    rw [ih (w.app _) (by simp [Writer.app_err, hw]) (fun s hs => h s (by simp [hs])), Writer.app_app]

theorem writeFixed_ok (w : Writer) (hw : w.err = none) (s : Bytes) (n : Nat) (h : s.length ≤ n) :
    w.writeFixed s n = w.app (s ++ zeros (n - s.length)) := by
  have hx : ¬ s.length > n := by omega
  simp only [Writer.writeFixed, hw, hx, if_false, Writer.app]
  have : (s ++ zeros (n - s.length)).length = n := by simp; omega
  simp [this, List.append_assoc]

theorem hexNibble_hexChar (x : Nat) (h : x < 16) : hexNibble? (hexChar x) = some x := by
  have : ∀ x, x < 16 → hexNibble? (hexChar x) = some x := by decide
  exact this x h

theorem hexDecode_hexEncode (b : Bytes) (h : ∀ x ∈ b, x < 256) : hexDecodeLenient (hexEncode b) = b := by
  induction b with
  | nil => simp [hexEncode, hexDecodeLenient]
  | cons x xs ih =>
    have hx : x < 256 := h x (by simp)
    have ih' := ih (fun y hy => h y (by simp [hy]))
    simp only [hexEncode, List.flatMap_cons, List.cons_append, List.nil_append] at ih' ⊢
    simp only [hexDecodeLenient, hexNibble_hexChar (x / 16 % 16) (Nat.mod_lt _ (by decide)),
      hexNibble_hexChar (x % 16) (Nat.mod_lt _ (by decide))]
    rw [ih']
    congr 1
    omega

theorem hexValid_hexEncode (b : Bytes) : hexValid (hexEncode b) = true := by
  have hn : ∀ x, x < 16 → (hexNibble? (hexChar x)).isSome = true := by decide
  induction b with
  | nil => rfl
  | cons x xs ih =>
    simp only [hexValid, hexEncode, List.flatMap_cons, Bool.and_eq_true, beq_iff_eq, List.all_eq_true] at ih ⊢
    obtain ⟨h1, h2⟩ := ih
    refine ⟨by simp only [List.length_append, List.length_cons, List.length_nil]; omega, ?_⟩
    intro c hc
    simp only [List.mem_append, List.mem_cons, List.not_mem_nil, or_false] at hc
    rcases hc with (rfl | rfl) | hc
    · exact hn _ (Nat.mod_lt _ (by decide))
    · exact hn _ (Nat.mod_lt _ (by decide))
    · exact h2 c hc

theorem pairOne_enc (e : EncOp) (d : DecOp) (it : Item) (hp : pairOne e d = some it) (r : Rec)
    (hf : it.Fits r) (w : Writer) (hw : w.err = none) :
    e.run ⟨r, w⟩ = .ok ⟨r, w.app (it.bytes r)⟩ := by
  unfold pairOne at hp
  split at hp <;> (try (split at hp)) <;> simp at hp
  all_goals (subst hp)
  -- num, plain
  · obtain ⟨n, hn, _⟩ := hf
    simp [EncOp.run, Item.bytes, Expr.eval, Writer.writeNum, hw, Writer.app]
  -- num, through a conversion
  · rename_i k k'' f k' f' hk
    obtain ⟨n, hn, hlt⟩ := hf
    obtain ⟨_, rfl, _⟩ := hk
    have : r.num f = n := by simp [Rec.num, hn]
    simp [EncOp.run, Item.bytes, Expr.eval, Writer.writeNum, hw, Writer.app, this, Nat.mod_eq_of_lt hlt]
  -- cstr
  · obtain ⟨s, hs, _⟩ := hf
    simp [EncOp.run, Item.bytes, Writer.writeCString, hw, Writer.app, List.append_assoc, Nat.add_assoc]
  -- fixed ↔ trim
  · rename_i f n f' n' hh
    obtain ⟨s, hs, _, hl⟩ := hf
    have : r.str f = s := by simp [Rec.str, hs]
    simp only [EncOp.run, Item.bytes, this]
    rw [writeFixed_ok w hw s _ hl]
  -- fixed ↔ raw
  · rename_i f n f' n' hh
    obtain ⟨s, hs, hl⟩ := hf
    have : r.str f = s := by simp [Rec.str, hs]
    simp only [EncOp.run, Item.bytes, this]
    rw [writeFixed_ok w hw s _ (by omega)]
  -- fixed ↔ raw, hex out
  · rename_i f n f' n' hh
    obtain ⟨s, hs, hl⟩ := hf
    have : r.str f = s := by simp [Rec.str, hs]
    simp only [EncOp.run, Item.bytes, this]
    rw [writeFixed_ok w hw s _ (by omega)]
  -- hex in, hex out
  · rename_i f n f' n' hh
    obtain ⟨b, hs, hl, hb⟩ := hf
    have : r.str f = hexEncode b := by simp [Rec.str, hs]
    simp only [EncOp.run, Item.bytes, this, hexDecode_hexEncode b hb, hexValid_hexEncode, if_true]
    rw [writeFixed_ok w hw b _ (by omega)]
  -- raw body
  · obtain ⟨s, hs, _⟩ := hf
    simp [EncOp.run, Item.bytes, Writer.writeBytes, hw, Writer.app]
  -- body written as a fixed slot of its own declared length
  · rename_i f l f' l' hh
    obtain ⟨s, hs, hl⟩ := hf
    have h1 : r.str f = s := by simp [Rec.str, hs]
    have h2 : r.num l = s.length := by simp [Rec.num, hl]
    simp only [EncOp.run, Item.bytes, Expr.eval, h1, h2]
    rw [writeFixed_ok w hw s _ (Nat.le_refl _)]
    simp [zeros]
  -- range loop ↔ make
  · rename_i f n f' c n' hh
    obtain ⟨l, hs, _, hall⟩ := hf
    have h1 : r.strs f = l := by simp [Rec.strs, hs]
    simp only [EncOp.run, Item.bytes, h1]
    rw [writeRep_ok w hw _ l (fun s hs => (hall s hs).2)]
  -- range loop ↔ append
  · rename_i f n f' c n' hh
    obtain ⟨l, hs, _, hall⟩ := hf
    have h1 : r.strs f = l := by simp [Rec.strs, hs]
    simp only [EncOp.run, Item.bytes, h1]
    rw [writeRep_ok w hw _ l (fun s hs => (hall s hs).2)]
  -- counted loop ↔ make
  · rename_i f c n f' c' n' hh
    obtain ⟨l, hs, hc, hall⟩ := hf
    have h1 : r.strs f = l := by simp [Rec.strs, hs]
    have h2 : r.num c = l.length := by simp [Rec.num, hc]
    simp only [EncOp.run, Item.bytes, Expr.eval, h1, h2, Nat.lt_irrefl, if_false, List.take_length]
    rw [writeRep_ok w hw _ l (fun s hs => (hall s hs).2)]
  -- counted loop ↔ append
  · rename_i f c n f' c' n' hh
    obtain ⟨l, hs, hc, hall⟩ := hf
    have h1 : r.strs f = l := by simp [Rec.strs, hs]
    have h2 : r.num c = l.length := by simp [Rec.num, hc]
    simp only [EncOp.run, Item.bytes, Expr.eval, h1, h2, Nat.lt_irrefl, if_false, List.take_length]
    rw [writeRep_ok w hw _ l (fun s hs => (hall s hs).2)]
  -- optional tail (reader-based parser)
  · simp [EncOp.run, Item.bytes, Writer.writeBytes, hw, Writer.app]
  -- optional tail (ParseOptions)
  · simp [EncOp.run, Item.bytes, Writer.writeBytes, hw, Writer.app]

end SmsVerif

namespace SmsVerif

def itemsBytes (r : Rec) (its : List Item) : Bytes := (its.map (·.bytes r)).flatten

theorem itemsBytes_cons (r : Rec) (it : Item) (its : List Item) :
    itemsBytes r (it :: its) = it.bytes r ++ itemsBytes r its := by simp [itemsBytes]

/-- **encoder soundness** : aligned statement lists, applied to a receiver whose normal form
    fits, succeed, leave the normal form as the receiver, and append exactly the items' octets. -/
theorem runEnc_items (es : List EncOp) (ds : List DecOp) (its : List Item)
    (hp : pairOps es ds = some its) (hok : asgOK its = true) (ρ : Rec)
    (hf : ∀ it ∈ its, it.Fits (norm its ρ)) (w : Writer) (hw : w.err = none) :
    runEnc es ⟨ρ, w⟩ = .ok ⟨norm its ρ, w.app (itemsBytes (norm its ρ) its)⟩ := by
  fun_induction pairOps es ds generalizing its ρ w with
  | case1 =>
    simp at hp; subst hp
    simp [runEnc, norm, itemsBytes, Writer.app_nil]
  | case2 f e es ds ih =>
    simp only [Option.map_eq_some_iff] at hp
    obtain ⟨its', hp', rfl⟩ := hp
    simp only [asgOK, Bool.and_eq_true] at hok
    have hrun : (EncOp.assign f e).run ⟨ρ, w⟩ = .ok ⟨applyAsg none [(f, e)] ρ, w⟩ := by
      simp [EncOp.run, applyAsg]
    simp only [runEnc, hrun, norm, itemsBytes_cons, Item.bytes, List.nil_append]
    exact ih its' hp' hok.2 _ (fun it hit => by simpa [norm] using hf it (by simp [hit])) w hw
  | case3 c as es ds ih =>
    simp only [Option.map_eq_some_iff] at hp
    obtain ⟨its', hp', rfl⟩ := hp
    simp only [asgOK, Bool.and_eq_true] at hok
    have hrun : (EncOp.assignIf c as).run ⟨ρ, w⟩ = .ok ⟨applyAsg (some c) as ρ, w⟩ := by
      simp only [EncOp.run, applyAsg]
      split <;> rfl
    simp only [runEnc, hrun, norm, itemsBytes_cons, Item.bytes, List.nil_append]
    exact ih its' hp' hok.2 _ (fun it hit => by simpa [norm] using hf it (by simp [hit])) w hw
  | case4 e es d ds hne1 hne2 it hpo ih =>
    simp only [hpo, Option.map_eq_some_iff] at hp
    obtain ⟨its', hp', rfl⟩ := hp
    simp only [asgOK, Bool.and_eq_true] at hok
    -- `it` is not a normalisation, so `norm` skips it
    have hnorm : norm (it :: its') ρ = norm its' ρ := by
      cases it <;> first | rfl | (exfalso; revert hpo; unfold pairOne; split <;> (try split) <;> simp)
    rw [hnorm] at hf ⊢
    have hagree : AgreeOn it.mentions (norm its' ρ) ρ := norm_agree _ _ _ hok.1
    have hfit : it.Fits ρ := it.fits_congr (fun f hf' => (hagree f hf').symm) (hf it (by simp))
    have hbytes : it.bytes ρ = it.bytes (norm its' ρ) := it.bytes_congr (fun f hf' => (hagree f hf').symm)
    simp only [runEnc, pairOne_enc e d it hpo ρ hfit w hw, itemsBytes_cons]
    rw [ih its' hp' hok.2 ρ (fun x hx => hf x (by simp [hx])) _ (by simp [Writer.app_err, hw]),
      Writer.app_app, hbytes]
  | case5 e es d ds hne1 hne2 hpo => simp [hpo] at hp
  | case6 es ds h1 h2 h3 h4 => simp at hp

end SmsVerif
