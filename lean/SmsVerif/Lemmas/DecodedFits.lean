/-
  `decoded_fits`: whatever a decoder accepts meets the encoder's preconditions (C11).

  For a layout whose items pass the static check `fitsOK` (every wire field is assigned once, a
  length / count reference points back to an integer field decoded earlier), every PDU value a
  decoder returns without error satisfies `Item.Fits` for every item: integers within their
  width, text without NUL and no longer than its slot, binary fields at exactly their width,
  bodies and lists as long as their decoded length / count field says, optional parameters with
  distinct tags and 16-bit sizes.
-/
import SmsVerif.Lemmas.LayoutRoundTrip
import SmsVerif.Lemmas.DecodeBound

namespace SmsVerif

def Oct (b : Bytes) : Prop := ∀ x ∈ b, x < 256

theorem Oct.of_step {a b : Reader} {o m : Nat} (h : RdStep a b o m) (ho : Oct a.rest) : Oct b.rest :=
  fun x hx => ho x (h.sub x hx)

/-! ### optional-parameter maps built by `upsert` are well-formed -/

def MapOK (m : TlvMap) : Prop := tagsNodup m = true ∧ ∀ tv ∈ m, tv.1 < 65536 ∧ tv.2.length < 65536

theorem MapOK_nil : MapOK [] := ⟨rfl, by simp⟩

theorem upsert_any (m : TlvMap) (t : Nat) (v : Bytes) (t' : Nat) (hne : t' ≠ t)
    (h : m.any (·.1 == t') = false) : (m.upsert t v).any (·.1 == t') = false := by
  induction m with
  | nil => simp [TlvMap.upsert]; exact fun e => hne e.symm
  | cons x xs ih =>
    obtain ⟨a, b⟩ := x
    simp only [List.any_cons, Bool.or_eq_false_iff] at h
    simp only [TlvMap.upsert]
    split
    · rename_i hat
      simp only [List.any_cons, Bool.or_eq_false_iff]
      exact ⟨by simp; exact fun e => hne e.symm, h.2⟩
    · simp only [List.any_cons, Bool.or_eq_false_iff]
      exact ⟨h.1, ih h.2⟩

theorem upsert_mapOK (m : TlvMap) (t : Nat) (v : Bytes) (hm : MapOK m) (ht : t < 65536) (hv : v.length < 65536) :
    MapOK (m.upsert t v) := by
  induction m with
  | nil => exact ⟨by simp [TlvMap.upsert, tagsNodup], by simp [TlvMap.upsert]; exact ⟨ht, hv⟩⟩
  | cons x xs ih =>
    obtain ⟨a, b⟩ := x
    obtain ⟨hn, hb⟩ := hm
    simp only [tagsNodup, Bool.and_eq_true, Bool.not_eq_true'] at hn
    have ihx := ih ⟨hn.2, fun tv htv => hb tv (by simp [htv])⟩
    simp only [TlvMap.upsert]
    split
    · rename_i hat
      subst hat
      refine ⟨by simp only [tagsNodup, Bool.and_eq_true, Bool.not_eq_true']; exact hn, ?_⟩
      intro tv htv
      simp only [List.mem_cons] at htv
      rcases htv with rfl | htv
      · exact ⟨ht, hv⟩
      · exact hb tv (by simp [htv])
    · rename_i hat
      refine ⟨?_, ?_⟩
      · simp only [tagsNodup, Bool.and_eq_true, Bool.not_eq_true']
        exact ⟨upsert_any xs t v a hat hn.1, ihx.1⟩
      · intro tv htv
        simp only [List.mem_cons] at htv
        rcases htv with rfl | htv
        · exact hb _ (by simp)
        · exact ihx.2 tv htv

theorem fromBe_take2_lt (hd : Bytes) (h : ∀ x ∈ hd, x < 256) : fromBe (hd.take 2) < 65536 := by
  have h2 := fromBe_lt (hd.take 2) (fun x hx => h x ((List.take_sublist _ _).subset hx))
  have : (hd.take 2).length ≤ 2 := by simp; omega
  have hp : 256 ^ (hd.take 2).length ≤ 256 ^ 2 := Nat.pow_le_pow_right (by omega) this
  omega

theorem fromBe_len2_lt (bs : Bytes) (h : ∀ x ∈ bs, x < 256) (hl : bs.length ≤ 2) : fromBe bs < 65536 := by
  have h2 := fromBe_lt bs h
  have hp : 256 ^ bs.length ≤ 256 ^ 2 := Nat.pow_le_pow_right (by omega) hl
  omega

theorem readTlvLoop_mapOK : ∀ (fuel : Nat) (r : Reader) (m : TlvMap), MapOK m → Oct r.rest →
    MapOK ((readTlvLoop fuel r m).map.getD [])
  | 0, r, m, hm, _ => by simpa [readTlvLoop] using hm
  | fuel+1, r, m, hm, ho => by
    simp only [readTlvLoop]
    split
    · simpa using hm
    · have h1 := readBytes_step r 4
      have h1v := readBytes_val r 4
      have h1l := readBytes_length r 4
      generalize r.readBytes 4 = p1 at h1 h1v h1l
      obtain ⟨hd, r1⟩ := p1
      simp only at h1 h1v h1l ⊢
      have hdo : ∀ x ∈ hd, x < 256 := fun x hx => by
        rcases h1v x hx with h | h
        · exact ho x h
        · omega
      split
      · simpa using hm
      · exact MapOK_nil
      · have hlen : fromBe (hd.drop 2) < 65536 :=
          fromBe_len2_lt _ (fun x hx => hdo x (mem_drop hx)) (by simp [h1l])
        have htag : fromBe (hd.take 2) < 65536 := fromBe_take2_lt hd hdo
        generalize fromBe (hd.drop 2) = len at hlen ⊢
        have h2 := readBytes_step { r1 with alloc := r1.alloc + min len (r1.remaining + 1) } len
        have h2l := readBytes_length { r1 with alloc := r1.alloc + min len (r1.remaining + 1) } len
        generalize Reader.readBytes { r1 with alloc := r1.alloc + min len (r1.remaining + 1) } len = p2 at h2 h2l
        obtain ⟨v, r2⟩ := p2
        simp only at h2 h2l ⊢
        split
        · simpa using hm
        · exact MapOK_nil
        · exact readTlvLoop_mapOK fuel r2 _ (upsert_mapOK m _ v hm htag (by omega))
            (fun x hx => ho x (h1.sub x (h2.sub x hx)))

theorem readTlvs_mapOK (r : Reader) (ho : Oct r.rest) : MapOK ((readTlvs r).map.getD []) := by
  unfold readTlvs
  split
  · exact MapOK_nil
  · split
    · exact MapOK_nil
    · exact readTlvLoop_mapOK _ r [] MapOK_nil ho

theorem parseOptionsLoop_mapOK : ∀ (fuel : Nat) (bs : Bytes) (m : TlvMap), MapOK m → Oct bs →
    ∀ m', parseOptionsLoop fuel bs m = some m' → MapOK m'
  | 0, _, m, hm, _, m', h => by simp [parseOptionsLoop] at h; subst h; exact hm
  | fuel+1, bs, m, hm, ho, m', h => by
    simp only [parseOptionsLoop] at h
    split at h
    · simp at h; subst h; exact hm
    · split at h
      · simp at h
      · split at h
        · simp at h
        · rename_i hlen
          have htag : fromBe (bs.take 2) < 65536 := fromBe_take2_lt bs ho
          have hl : fromBe ((bs.drop 2).take 2) < 65536 :=
            fromBe_take2_lt _ (fun x hx => ho x (mem_drop hx))
          refine parseOptionsLoop_mapOK fuel _ _ (upsert_mapOK m _ _ hm htag ?_)
            (fun x hx => ho x (mem_drop (mem_drop hx))) m' h
          simp only [List.length_take]
          omega

theorem parseOptions_mapOK (bs : Bytes) (ho : Oct bs) (m : TlvMap) (h : parseOptions bs = some m) : MapOK m :=
  parseOptionsLoop_mapOK _ bs [] MapOK_nil ho m h

/-! ### what a read returns when it recorded no error -/

theorem readCString_noNul (r : Reader) : hasNul r.readCString.1 = false := by
  unfold Reader.readCString
  split
  · rfl
  · split
    · rename_i x y hs; exact (splitNul_some hs).2
    · rfl

theorem readCStringN_shape (r : Reader) (n : Nat) :
    hasNul (r.readCStringN n).1 = false ∧ (r.readCStringN n).1.length ≤ n := by
  unfold Reader.readCStringN
  split
  · exact ⟨rfl, Nat.zero_le _⟩
  · split
    · exact ⟨rfl, Nat.zero_le _⟩
    · rcases readExact_spec r n with ⟨t, h, ht, hn⟩ | ⟨e, h, _⟩ | ⟨e, h, _⟩ <;> rw [h]
      · simp only [Option.map_some, Option.getD_some]
        refine ⟨cutAtNul_noNul t, Nat.le_trans (cutAtNul_length_le t) ?_⟩
        rw [ht, List.length_take]; omega
      · exact ⟨rfl, Nat.zero_le _⟩
      · exact ⟨rfl, Nat.zero_le _⟩

theorem readCStringNRaw_len (r : Reader) (n : Nat) (h : (r.readCStringNRaw n).2.err = none) :
    (r.readCStringNRaw n).1.length = n := by
  unfold Reader.readCStringNRaw at h ⊢
  split
  · rename_i e he; simp [he] at h
  · split
    · rename_i h0; simp [h0]
    · rename_i he h0
      rw [if_neg h0] at h
      simp only [he] at h
      rcases readExact_spec r n with ⟨t, hx, ht, hn⟩ | ⟨e, hx, _⟩ | ⟨e, hx, _⟩ <;> rw [hx] at h ⊢
      · simp only [Option.getD_some]; rw [ht, List.length_take]; omega
      · simp at h
      · simp at h

theorem readRep_shape (n : Nat) : ∀ (cnt : Nat) (rd : Reader) (acc : List Bytes),
    (∀ s ∈ acc, hasNul s = false ∧ s.length ≤ n) →
    (readRep rd n cnt acc).1.length = acc.length + cnt ∧
    ∀ s ∈ (readRep rd n cnt acc).1, hasNul s = false ∧ s.length ≤ n
  | 0, rd, acc, h => by simpa [readRep] using h
  | c+1, rd, acc, h => by
    simp only [readRep]
    have := readRep_shape n c (rd.readCStringN n).2 ((rd.readCStringN n).1 :: acc) (by
      intro s hs
      simp only [List.mem_cons] at hs
      rcases hs with rfl | hs
      · exact readCStringN_shape rd n
      · exact h s hs)
    refine ⟨by rw [this.1]; simp; omega, this.2⟩

/-! ### the static check -/

def Item.isNum : Item → Bool | .num _ _ _ => true | _ => false

/-- every wire field is assigned once; a length / count reference points back to an integer field
    decoded earlier; no item reads back as something its encoder cannot take (`fixedHexOut`) -/
def fitsOK : List String → List Item → Bool
  | _, [] => true
  | nums, it :: rest =>
    it.exact && it.deps.all nums.contains && it.sets.all (fun g => !nums.contains g) &&
    it.sets.all (fun g => !(allSets rest).contains g) &&
    fitsOK (if it.isNum then it.sets ++ nums else nums) rest

def IsNumAt (r : Rec) (g : String) : Prop := ∃ v, r.get? g = some (.num v)

/-- the fields a statement list assigns are still at their zero value (lists are empty) -/
def Untouched (its : List Item) (r : Rec) : Prop := ∀ g ∈ allSets its, r.strs g = []

theorem strs_set_ne (r : Rec) (f g : String) (v : Val) (h : g ≠ f) : (r.set f v).strs g = r.strs g := by
  simp [Rec.strs, Rec.get?_set_ne _ _ _ _ h]

theorem body_case (f l : String) (dyn : Bool) (st st1 : DecState)
    (hrun : (DecOp.bytesN f (.fld l)).run st = .ok st1) (herr : st1.rd.err = none) (ho : Oct st.rd.rest)
    (hdeps : ∀ g ∈ (Item.body f l dyn).deps, IsNumAt st.r g) (hdepsne : ∀ g ∈ (Item.body f l dyn).deps, g ∉ (Item.body f l dyn).sets) :
    Oct st1.rd.rest ∧ (∃ f' v, (Item.body f l dyn).sets = [f'] ∧ st1.r = st.r.set f' v) ∧
      (Item.body f l dyn).Fits st1.r := by
  simp only [DecOp.run, Except.ok.injEq] at hrun; subst hrun
  have hs := readNBytes_step st.rd ((Expr.fld l).eval st.r)
  obtain ⟨x, hxl⟩ := hdeps l (by simp [Item.deps])
  have hne : l ≠ f := by
    have := hdepsne l (by simp [Item.deps])
    simpa [Item.sets, Item.mentions] using this
  refine ⟨Oct.of_step hs ho, ⟨f, _, by simp [Item.sets, Item.mentions], rfl⟩, ?_⟩
  · refine ⟨_, Rec.get?_set_self _ _ _, ?_⟩
    rw [Rec.get?_set_ne _ _ _ _ hne, hxl]
    have he : (Expr.fld l).eval st.r = x := by simp [Expr.eval, Rec.num, hxl]
    have hl := readCStringNRaw_len st.rd ((Expr.fld l).eval st.r) herr
    rw [he] at hl
    simp only [Reader.readNBytes, he, hl]

theorem rep_case (f c : String) (n : Nat) (counted app : Bool) (st st1 : DecState)
    (hrun : (if app then DecOp.repAppend f (.fld c) n else DecOp.repMake f (.fld c) n).run st = .ok st1)
    (herr : st1.rd.err = none) (ho : Oct st.rd.rest)
    (hdeps : ∀ g ∈ (Item.rep f c n counted app).deps, IsNumAt st.r g)
    (hdepsne : ∀ g ∈ (Item.rep f c n counted app).deps, g ∉ (Item.rep f c n counted app).sets)
    (hunt : ∀ g ∈ (Item.rep f c n counted app).appends, st.r.strs g = []) :
    Oct st1.rd.rest ∧ (∃ f' v, (Item.rep f c n counted app).sets = [f'] ∧ st1.r = st.r.set f' v) ∧
      (Item.rep f c n counted app).Fits st1.r := by
  obtain ⟨x, hxc⟩ := hdeps c (by simp [Item.deps])
  have hne : c ≠ f := by
    have := hdepsne c (by simp [Item.deps])
    simpa [Item.sets, Item.mentions] using this
  have hcnt : (Expr.fld c).eval st.r = x := by simp [Expr.eval, Rec.num, hxc]
  cases app with
  | false =>
    simp only [Bool.false_eq_true, if_false, DecOp.run, Except.ok.injEq] at hrun; subst hrun
    have hs := readRep_step n ((Expr.fld c).eval st.r) { st.rd with alloc := st.rd.alloc + (Expr.fld c).eval st.r } []
    have hsh := readRep_shape n ((Expr.fld c).eval st.r) { st.rd with alloc := st.rd.alloc + (Expr.fld c).eval st.r } [] (by simp)
    refine ⟨fun y hy => ho y (hs.sub y hy), ⟨f, _, by simp [Item.sets, Item.mentions], rfl⟩, ?_⟩
    · refine ⟨_, Rec.get?_set_self _ _ _, ?_, hsh.2⟩
      rw [Rec.get?_set_ne _ _ _ _ hne, hxc, hsh.1, hcnt]; simp
  | true =>
    simp only [if_true, DecOp.run, Except.ok.injEq] at hrun; subst hrun
    have hs := readRep_step n ((Expr.fld c).eval st.r) st.rd []
    have hsh := readRep_shape n ((Expr.fld c).eval st.r) st.rd [] (by simp)
    have hnil : st.r.strs f = [] := hunt f (by simp [Item.appends])
    refine ⟨Oct.of_step hs ho, ⟨f, _, by simp [Item.sets, Item.mentions], rfl⟩, ?_⟩
    · refine ⟨_, Rec.get?_set_self _ _ _, ?_, ?_⟩
      · rw [Rec.get?_set_ne _ _ _ _ hne, hxc, hnil, List.nil_append, hsh.1, hcnt]; simp
      · rw [hnil]; simpa using hsh.2

/-- one aligned decoder statement on an arbitrary reader: if no error is recorded afterwards, the
    field it assigns fits its item -/
theorem pairOne_dec_fits (e : EncOp) (d : DecOp) (it : Item) (hp : pairOne e d = some it) (hx : it.exact = true)
    (st st1 : DecState) (hrun : d.run st = .ok st1) (herr' : st1.rd.err = none ∨ it.isNum = true) (ho : Oct st.rd.rest)
    (hdeps : ∀ g ∈ it.deps, IsNumAt st.r g) (hdepsne : ∀ g ∈ it.deps, g ∉ it.sets)
    (hunt : ∀ g ∈ it.appends, st.r.strs g = []) :
    Oct st1.rd.rest ∧ (∃ f v, it.sets = [f] ∧ st1.r = st.r.set f v) ∧ it.Fits st1.r := by
  have herr : it.isNum = false → st1.rd.err = none := fun hn => by
    rcases herr' with h | h
    · exact h
    · rw [hn] at h; cases h
  clear herr'
  unfold pairOne at hp
  split at hp <;> (try (split at hp)) <;> simp at hp
  all_goals (subst hp)
  -- num (two forms)
  · rename_i k f k' f' hh
    obtain ⟨rfl, rfl⟩ := hh
    simp only [DecOp.run, Except.ok.injEq] at hrun; subst hrun
    have hs := readNum_step st.rd k
    refine ⟨Oct.of_step hs ho, ⟨f, _, rfl, rfl⟩, ?_⟩
    exact ⟨_, Rec.get?_set_self _ _ _, readNum_lt st.rd k ho⟩
  · rename_i k k'' f k' f' hh
    obtain ⟨rfl, rfl, rfl⟩ := hh
    simp only [DecOp.run, Except.ok.injEq] at hrun; subst hrun
    have hs := readNum_step st.rd k
    refine ⟨Oct.of_step hs ho, ⟨f, _, rfl, rfl⟩, ?_⟩
    exact ⟨_, Rec.get?_set_self _ _ _, readNum_lt st.rd k ho⟩
  -- cstr
  · rename_i f f' hh
    subst hh
    simp only [DecOp.run, Except.ok.injEq] at hrun; subst hrun
    have hs := readCString_step st.rd
    refine ⟨Oct.of_step hs ho, ⟨f, _, rfl, rfl⟩, ?_⟩
    exact ⟨_, Rec.get?_set_self _ _ _, readCString_noNul st.rd⟩
  -- fixed ↔ trim
  · rename_i f n f' n' hh
    obtain ⟨rfl, rfl⟩ := hh
    simp only [DecOp.run, Except.ok.injEq] at hrun; subst hrun
    have hs := readCStringN_step st.rd n
    refine ⟨Oct.of_step hs ho, ⟨f, _, rfl, rfl⟩, ?_⟩
    exact ⟨_, Rec.get?_set_self _ _ _, (readCStringN_shape st.rd n).1, (readCStringN_shape st.rd n).2⟩
  -- fixed ↔ raw
  · rename_i f n f' n' hh
    obtain ⟨rfl, rfl⟩ := hh
    simp only [DecOp.run, Except.ok.injEq] at hrun; subst hrun
    have hs := readCStringNRaw_step st.rd n
    refine ⟨Oct.of_step hs ho, ⟨f, _, rfl, rfl⟩, ?_⟩
    exact ⟨_, Rec.get?_set_self _ _ _, readCStringNRaw_len st.rd n (herr rfl)⟩
  -- fixed ↔ raw+hex: not exact
  · simp [Item.exact] at hx
  -- hex both ways
  · rename_i f n f' n' hh
    obtain ⟨rfl, rfl⟩ := hh
    simp only [DecOp.run, Except.ok.injEq] at hrun; subst hrun
    have hs := readCStringNRaw_step st.rd n
    refine ⟨Oct.of_step hs ho, ⟨f, _, rfl, rfl⟩, ?_⟩
    exact ⟨(st.rd.readCStringNRaw n).1, Rec.get?_set_self _ _ _, readCStringNRaw_len st.rd n (herr rfl),
        fun x hx => ho x (readCStringNRaw_val st.rd n x hx)⟩
  -- body (two encoder forms)
  · rename_i f f' l hh
    subst hh
    exact body_case f l false st st1 hrun (herr rfl) ho hdeps hdepsne
  · rename_i f l f' l' hh
    obtain ⟨rfl, rfl⟩ := hh
    exact body_case f l true st st1 hrun (herr rfl) ho hdeps hdepsne
  -- lists (four forms)
  · rename_i f n f' c n' hh
    obtain ⟨rfl, rfl⟩ := hh
    exact rep_case f c n false false st st1 hrun (herr rfl) ho hdeps hdepsne hunt
  · rename_i f n f' c n' hh
    obtain ⟨rfl, rfl⟩ := hh
    exact rep_case f c n false true st st1 hrun (herr rfl) ho hdeps hdepsne hunt
  · rename_i f c n f' c' n' hh
    obtain ⟨rfl, rfl, rfl⟩ := hh
    exact rep_case f c n true false st st1 hrun (herr rfl) ho hdeps hdepsne hunt
  · rename_i f c n f' c' n' hh
    obtain ⟨rfl, rfl, rfl⟩ := hh
    exact rep_case f c n true true st st1 hrun (herr rfl) ho hdeps hdepsne hunt
  -- optional parameters
  · rename_i f f' hh
    subst hh
    simp only [DecOp.run, Except.ok.injEq] at hrun; subst hrun
    have hs := readTlvs_step st.rd ho
    refine ⟨Oct.of_step hs ho, ⟨f, _, rfl, rfl⟩, ?_⟩
    have := readTlvs_mapOK st.rd ho
    exact ⟨_, Rec.get?_set_self _ _ _, this.1, this.2⟩
  · rename_i f f' hh
    subst hh
    simp only [DecOp.run] at hrun
    have hob : Oct st.rd.bytes := by
      unfold Reader.bytes; split
      · intro x hx; simp at hx
      · exact ho
    split at hrun
    · rename_i m hm
      simp only [Except.ok.injEq] at hrun; subst hrun
      have := parseOptions_mapOK _ hob m hm
      exact ⟨ho, ⟨f, _, rfl, rfl⟩, _, Rec.get?_set_self _ _ _, this.1, this.2⟩
    · simp only [Except.ok.injEq] at hrun; subst hrun
      exact ⟨ho, ⟨f, _, rfl, rfl⟩, _, Rec.get?_set_self _ _ _, MapOK_nil.1, MapOK_nil.2⟩

/-- the optional-parameter loop never un-consumes input -/
theorem tlvLoop_len : ∀ (fuel : Nat) (r : Reader) (m : TlvMap), (readTlvLoop fuel r m).rd.rest.length ≤ r.rest.length
  | 0, r, m => by simp [readTlvLoop]
  | fuel+1, r, m => by
    simp only [readTlvLoop]
    split
    · exact Nat.le_refl _
    · have h1 := (readBytes_step r 4).len
      generalize r.readBytes 4 = p1 at h1
      obtain ⟨hd, r1⟩ := p1
      simp only at h1 ⊢
      split
      · simpa [Reader.setErrNil] using h1
      · exact h1
      · generalize fromBe (hd.drop 2) = len
        have h2 := (readBytes_step { r1 with alloc := r1.alloc + min len (r1.remaining + 1) } len).len
        generalize Reader.readBytes { r1 with alloc := r1.alloc + min len (r1.remaining + 1) } len = p2 at h2
        obtain ⟨v, r2⟩ := p2
        simp only at h2 ⊢
        split
        · simp only [Reader.setErrNil]; omega
        · show r2.rest.length ≤ r.rest.length; omega
        · have := tlvLoop_len fuel r2 (m.upsert (fromBe (hd.take 2)) v); omega

/-! ### how much of the input an item occupies -/

/-- octets the item occupies on the wire, read off the PDU value -/
def Item.wireLen (r : Rec) : Item → Nat
  | .num k _ _ => k
  | .cstr f => (r.str f).length + 1
  | .fixedTrim _ n => n
  | .fixedRaw _ n => n
  | .fixedHexOut _ n => n
  | .hexBoth _ n => n
  | .body _ l _ => r.num l
  | .rep _ c n _ _ => n * r.num c
  | .asg _ _ => 0
  | .tail _ _ => 0

theorem repBytes_len (n : Nat) (l : List Bytes) (h : ∀ s ∈ l, s.length ≤ n) : (repBytes n l).length = n * l.length := by
  induction l with
  | nil => simp [repBytes]
  | cons x xs ih =>
    have hx := h x (by simp)
    have := ih (fun s hs => h s (by simp [hs]))
    simp only [repBytes, List.length_append, zeros_length, this, List.length_cons, Nat.mul_add]
    omega

/-- for a fitting PDU value the item's octets have exactly that length -/
theorem fits_bytes_length (it : Item) (r : Rec) (hf : it.Fits r) (hnt : it.isTail = false) :
    (it.bytes r).length = it.wireLen r := by
  cases it with
  | num k f c => simp [Item.bytes, Item.wireLen]
  | cstr f => simp [Item.bytes, Item.wireLen]
  | fixedTrim f n => obtain ⟨s, hs, _, hl⟩ := hf; simp [Item.bytes, Item.wireLen, Rec.str, hs]; omega
  | fixedRaw f n => obtain ⟨s, hs, hl⟩ := hf; simp [Item.bytes, Item.wireLen, Rec.str, hs]; omega
  | fixedHexOut f n => obtain ⟨s, hs, hl⟩ := hf; simp [Item.bytes, Item.wireLen, Rec.str, hs]; omega
  | hexBoth f n =>
    obtain ⟨b, hs, hl, hb⟩ := hf
    simp [Item.bytes, Item.wireLen, Rec.str, hs, hexDecode_hexEncode b hb]; omega
  | body f l d => obtain ⟨s, hs, hl⟩ := hf; simp [Item.bytes, Item.wireLen, Rec.str, Rec.num, hs, hl]
  | rep f c n cn ap =>
    obtain ⟨l, hs, hc, hl⟩ := hf
    simp only [Item.bytes, Item.wireLen, Rec.strs, Rec.num, hs, hc]
    exact repBytes_len n l (fun s hs' => (hl s hs').2)
  | asg c as => simp [Item.bytes, Item.wireLen]
  | tail f p => simp [Item.isTail] at hnt

/-- an aligned decoder statement that ends without a reader error consumed the item's octets -/
theorem pairOne_dec_consumes (e : EncOp) (d : DecOp) (it : Item) (hp : pairOne e d = some it)
    (st st1 : DecState) (hrun : d.run st = .ok st1) (herr : st1.rd.err = none)
    (hdeps : ∀ g ∈ it.deps, IsNumAt st.r g) (hdepsne : ∀ g ∈ it.deps, g ∉ it.sets) :
    st1.rd.rest.length + it.wireLen st1.r ≤ st.rd.rest.length := by
  unfold pairOne at hp
  split at hp <;> (try (split at hp)) <;> simp at hp
  all_goals (subst hp)
  · rename_i k f k' f' hh
    obtain ⟨rfl, rfl⟩ := hh
    simp only [DecOp.run, Except.ok.injEq] at hrun; subst hrun
    exact (readNum_step st.rd k).cons herr
  · rename_i k k'' f k' f' hh
    obtain ⟨rfl, rfl, rfl⟩ := hh
    simp only [DecOp.run, Except.ok.injEq] at hrun; subst hrun
    exact (readNum_step st.rd k).cons herr
  · rename_i f f' hh
    subst hh
    simp only [DecOp.run, Except.ok.injEq] at hrun; subst hrun
    have := readCString_consumes st.rd herr
    simp only [Item.wireLen, Rec.str, Rec.get?_set_self]
    omega
  · rename_i f n f' n' hh
    obtain ⟨rfl, rfl⟩ := hh
    simp only [DecOp.run, Except.ok.injEq] at hrun; subst hrun
    exact (readCStringN_step st.rd n).cons herr
  · rename_i f n f' n' hh
    obtain ⟨rfl, rfl⟩ := hh
    simp only [DecOp.run, Except.ok.injEq] at hrun; subst hrun
    exact (readCStringNRaw_step st.rd n).cons herr
  · rename_i f n f' n' hh
    obtain ⟨rfl, rfl⟩ := hh
    simp only [DecOp.run, Except.ok.injEq] at hrun; subst hrun
    exact (readCStringNRaw_step st.rd n).cons herr
  · rename_i f n f' n' hh
    obtain ⟨rfl, rfl⟩ := hh
    simp only [DecOp.run, Except.ok.injEq] at hrun; subst hrun
    exact (readCStringNRaw_step st.rd n).cons herr
  -- body
  · rename_i f f' l hh
    subst hh
    simp only [DecOp.run, Except.ok.injEq] at hrun; subst hrun
    have hne : l ≠ f := by
      have := hdepsne l (by simp [Item.deps]); simpa [Item.sets, Item.mentions] using this
    have := (readNBytes_step st.rd ((Expr.fld l).eval st.r)).cons herr
    simp only [Item.wireLen, Rec.num, Rec.get?_set_ne _ _ _ _ hne]
    simpa [Expr.eval, Rec.num] using this
  · rename_i f l f' l' hh
    obtain ⟨rfl, rfl⟩ := hh
    simp only [DecOp.run, Except.ok.injEq] at hrun; subst hrun
    have hne : l ≠ f := by
      have := hdepsne l (by simp [Item.deps]); simpa [Item.sets, Item.mentions] using this
    have := (readNBytes_step st.rd ((Expr.fld l).eval st.r)).cons herr
    simp only [Item.wireLen, Rec.num, Rec.get?_set_ne _ _ _ _ hne]
    simpa [Expr.eval, Rec.num] using this
  -- lists
  · rename_i f n f' c n' hh
    obtain ⟨rfl, rfl⟩ := hh
    simp only [DecOp.run, Except.ok.injEq] at hrun; subst hrun
    have hne : c ≠ f := by
      have := hdepsne c (by simp [Item.deps]); simpa [Item.sets, Item.mentions] using this
    have := readRep_consumes n ((Expr.fld c).eval st.r) { st.rd with alloc := st.rd.alloc + (Expr.fld c).eval st.r } [] herr
    simp only [Item.wireLen, Rec.num, Rec.get?_set_ne _ _ _ _ hne]
    simpa [Expr.eval, Rec.num] using this
  · rename_i f n f' c n' hh
    obtain ⟨rfl, rfl⟩ := hh
    simp only [DecOp.run, Except.ok.injEq] at hrun; subst hrun
    have hne : c ≠ f := by
      have := hdepsne c (by simp [Item.deps]); simpa [Item.sets, Item.mentions] using this
    have := readRep_consumes n ((Expr.fld c).eval st.r) st.rd [] herr
    simp only [Item.wireLen, Rec.num, Rec.get?_set_ne _ _ _ _ hne]
    simpa [Expr.eval, Rec.num] using this
  · rename_i f c n f' c' n' hh
    obtain ⟨rfl, rfl, rfl⟩ := hh
    simp only [DecOp.run, Except.ok.injEq] at hrun; subst hrun
    have hne : c ≠ f := by
      have := hdepsne c (by simp [Item.deps]); simpa [Item.sets, Item.mentions] using this
    have := readRep_consumes n ((Expr.fld c).eval st.r) { st.rd with alloc := st.rd.alloc + (Expr.fld c).eval st.r } [] herr
    simp only [Item.wireLen, Rec.num, Rec.get?_set_ne _ _ _ _ hne]
    simpa [Expr.eval, Rec.num] using this
  · rename_i f c n f' c' n' hh
    obtain ⟨rfl, rfl, rfl⟩ := hh
    simp only [DecOp.run, Except.ok.injEq] at hrun; subst hrun
    have hne : c ≠ f := by
      have := hdepsne c (by simp [Item.deps]); simpa [Item.sets, Item.mentions] using this
    have := readRep_consumes n ((Expr.fld c).eval st.r) st.rd [] herr
    simp only [Item.wireLen, Rec.num, Rec.get?_set_ne _ _ _ _ hne]
    simpa [Expr.eval, Rec.num] using this
  -- optional parameters: whatever remains
  · rename_i f f' hh
    subst hh
    simp only [DecOp.run, Except.ok.injEq] at hrun; subst hrun
    simp only [Item.wireLen, Nat.add_zero]
    by_cases ho : st.rd.rest.length = st.rd.rest.length
    · -- the parser never un-consumes
      unfold readTlvs
      split
      · exact Nat.le_refl _
      · split
        · exact Nat.le_refl _
        · exact tlvLoop_len _ _ _
    · exact absurd rfl ho
  · rename_i f f' hh
    subst hh
    simp only [DecOp.run] at hrun
    split at hrun <;> (simp only [Except.ok.injEq] at hrun; subst hrun; simp [Item.wireLen])

/-- a recorded reader error survives every decoder statement -/
theorem decOp_sticky (d : DecOp) (a b : DecState) (h : d.run a = .ok b) (hne : a.rd.err ≠ none) : b.rd.err ≠ none := by
  cases d with
  | guard n => simp only [DecOp.run, Except.ok.injEq] at h; subst h; exact hne
  | num k f => simp only [DecOp.run, Except.ok.injEq] at h; subst h; exact (readNum_step a.rd k).sticky hne
  | cstr f => simp only [DecOp.run, Except.ok.injEq] at h; subst h; exact (readCString_step a.rd).sticky hne
  | fixedTrim f n => simp only [DecOp.run, Except.ok.injEq] at h; subst h; exact (readCStringN_step a.rd n).sticky hne
  | fixedRaw f n => simp only [DecOp.run, Except.ok.injEq] at h; subst h; exact (readCStringNRaw_step a.rd n).sticky hne
  | fixedRawHex f n => simp only [DecOp.run, Except.ok.injEq] at h; subst h; exact (readCStringNRaw_step a.rd n).sticky hne
  | bytesN f l => simp only [DecOp.run, Except.ok.injEq] at h; subst h; exact (readNBytes_step a.rd _).sticky hne
  | repMake f c n =>
    simp only [DecOp.run, Except.ok.injEq] at h; subst h
    exact (readRep_step n _ { a.rd with alloc := a.rd.alloc + c.eval a.r } []).sticky hne
  | repAppend f c n => simp only [DecOp.run, Except.ok.injEq] at h; subst h; exact (readRep_step n _ a.rd []).sticky hne
  | tlvsRead f =>
    simp only [DecOp.run, Except.ok.injEq] at h; subst h
    unfold readTlvs
    split
    · exact hne
    · split
      · exact hne
      · rename_i h2; simp at h2; exact absurd h2 hne
  | optsParse f =>
    simp only [DecOp.run] at h
    split at h <;> (simp only [Except.ok.injEq] at h; subst h; exact hne)
  | stopIfAbsent f =>
    simp only [DecOp.run] at h
    split at h
    · simp at h
    · simp only [Except.ok.injEq] at h; subst h; exact hne
  | unsupported pos => simp [DecOp.run] at h

/-! ### statement lists -/

theorem fitsOK_nums_not_set : ∀ (its : List Item) (nums : List String), fitsOK nums its = true →
    ∀ g ∈ nums, g ∉ allSets its
  | [], _, _, _, _ => by simp [allSets]
  | it :: rest, nums, h, g, hg => by
    simp only [fitsOK, Bool.and_eq_true, List.all_eq_true, Bool.not_eq_true'] at h
    obtain ⟨⟨⟨⟨_, _⟩, hsn⟩, _⟩, hrest⟩ := h
    simp only [allSets, List.flatMap_cons, List.mem_append, not_or]
    refine ⟨fun hin => ?_, ?_⟩
    · have := hsn g hin
      simp [hg] at this
    · have := fitsOK_nums_not_set rest _ hrest g (by split <;> simp [hg])
      simpa [allSets] using this

theorem mentions_sub (it : Item) : ∀ g ∈ it.mentions, g ∈ it.sets ∨ g ∈ it.deps := by
  cases it <;> simp [Item.mentions, Item.sets, Item.deps]

theorem appends_sub (it : Item) : ∀ g ∈ it.appends, g ∈ it.sets := by
  cases it with
  | rep f c n cn ap => cases ap <;> simp [Item.appends, Item.sets, Item.mentions]
  | _ => simp [Item.appends]

def wireSum (r : Rec) (its : List Item) : Nat := (its.map (·.wireLen r)).sum

theorem wireLen_congr (it : Item) {a b : Rec} (h : AgreeOn it.mentions a b) : it.wireLen a = it.wireLen b := by
  cases it <;> simp only [Item.wireLen, Item.mentions] at * <;>
    first
    | rfl
    | (rw [str_congr (h _ (by simp))])
    | (rw [num_congr (h _ (by simp))])

def numOrAsg (it : Item) : Bool := it.isNum || it.isAsg

theorem runDec_sticky : ∀ (ds : List DecOp) (a b : DecState), runDec ds a = .ok b → a.rd.err ≠ none → b.rd.err ≠ none := by
  intro ds
  induction ds with
  | nil => intro a b h; simp only [runDec, Except.ok.injEq] at h; subst h; exact id
  | cons d' ds' ihd =>
    intro a b h hne
    simp only [runDec] at h
    cases h' : d'.run a with
    | error o => simp [h'] at h
    | ok a1 =>
      simp only [h'] at h
      exact ihd a1 b h (decOp_sticky d' a a1 h' hne)

/-- **decoder output fits**: after the aligned decoder statements ran without recording an error
    (or, for layouts made of integers only, in any case), every wire item fits the decoded PDU -/
theorem runDec_fits (es : List EncOp) (ds : List DecOp) (its : List Item) (hp : pairOps es ds = some its)
    (nums : List String) (hok : fitsOK nums its = true)
    (st st' : DecState) (hrun : runDec ds st = .ok st')
    (herr : st'.rd.err = none ∨ its.all numOrAsg = true) (ho : Oct st.rd.rest)
    (hnums : ∀ g ∈ nums, IsNumAt st.r g) (hunt : Untouched its st.r) :
    (∀ g, g ∉ allSets its → st'.r.get? g = st.r.get? g) ∧
      (∀ it ∈ its, it.isAsg = false → it.Fits st'.r) ∧
      (st'.rd.err = none → st'.rd.rest.length + wireSum st'.r its ≤ st.rd.rest.length) := by
  fun_induction pairOps es ds generalizing its nums st with
  | case1 =>
    simp at hp; subst hp
    simp only [runDec, Except.ok.injEq] at hrun; subst hrun
    exact ⟨fun _ _ => rfl, by simp, fun _ => by simp [wireSum]⟩
  | case2 f e es ds ih =>
    simp only [Option.map_eq_some_iff] at hp
    obtain ⟨its', hp', rfl⟩ := hp
    simp only [fitsOK, Item.exact, Item.deps, Item.sets, Item.isNum, List.all_nil, Bool.and_self, Bool.true_and,
      Bool.false_eq_true, if_false] at hok
    obtain ⟨h2, h3, h4⟩ := ih its' hp' nums hok st hrun (herr.imp id (fun h => by simpa [numOrAsg, Item.isAsg] using h))
      ho hnums (by simpa [Untouched, allSets, Item.sets] using hunt)
    refine ⟨fun g hg => h2 g (by simpa [allSets, Item.sets] using hg), fun it hit hna => ?_,
      fun he => by simpa [wireSum, Item.wireLen] using h4 he⟩
    simp only [List.mem_cons] at hit
    rcases hit with rfl | hit
    · simp [Item.isAsg] at hna
    · exact h3 it hit hna
  | case3 c as es ds ih =>
    simp only [Option.map_eq_some_iff] at hp
    obtain ⟨its', hp', rfl⟩ := hp
    simp only [fitsOK, Item.exact, Item.deps, Item.sets, Item.isNum, List.all_nil, Bool.and_self, Bool.true_and,
      Bool.false_eq_true, if_false] at hok
    obtain ⟨h2, h3, h4⟩ := ih its' hp' nums hok st hrun (herr.imp id (fun h => by simpa [numOrAsg, Item.isAsg] using h))
      ho hnums (by simpa [Untouched, allSets, Item.sets] using hunt)
    refine ⟨fun g hg => h2 g (by simpa [allSets, Item.sets] using hg), fun it hit hna => ?_,
      fun he => by simpa [wireSum, Item.wireLen] using h4 he⟩
    simp only [List.mem_cons] at hit
    rcases hit with rfl | hit
    · simp [Item.isAsg] at hna
    · exact h3 it hit hna
  | case4 e es d ds hne1 hne2 it hpo ih =>
    simp only [Option.map_eq_some_iff] at hp
    obtain ⟨its', hp', rfl⟩ := hp
    simp only [fitsOK, Bool.and_eq_true, List.all_eq_true, Bool.not_eq_true'] at hok
    obtain ⟨⟨⟨⟨hx, hdn⟩, hsn⟩, hsr⟩, hrest⟩ := hok
    simp only [runDec] at hrun
    cases h1 : d.run st with
    | error o => simp [h1] at hrun
    | ok st1 =>
      simp only [h1] at hrun
      have hdeps : ∀ g ∈ it.deps, IsNumAt st.r g := fun g hg => hnums g (by simpa using hdn g hg)
      have hdepsne : ∀ g ∈ it.deps, g ∉ it.sets := fun g hg hin => by
        have a := hdn g hg
        have b := hsn g hin
        simp at a; simp [a] at b
      have huntl : ∀ g ∈ it.appends, st.r.strs g = [] := fun g hg =>
        hunt g (by simp [allSets, appends_sub it g hg])
      -- errors are sticky: if the run ends without one, so did the first statement
      have herr1 : st1.rd.err = none ∨ it.isNum = true := by
        rcases herr with h | h
        · by_cases he1 : st1.rd.err = none
          · exact Or.inl he1
          · exact absurd h (runDec_sticky ds st1 st' hrun he1)
        · simp only [List.all_cons, Bool.and_eq_true] at h
          have hn := h.1
          simp only [numOrAsg, Bool.or_eq_true] at hn
          rcases hn with hn | hn
          · exact Or.inr hn
          · exfalso
            cases it <;> simp [Item.isAsg] at hn
            revert hpo; unfold pairOne; split <;> (try split) <;> simp
      have herrT : st'.rd.err = none ∨ its'.all numOrAsg = true :=
        herr.imp id (fun h => by simp only [List.all_cons, Bool.and_eq_true] at h; exact h.2)
      obtain ⟨ho1, ⟨f, v, hsets, hr1⟩, hfit⟩ := pairOne_dec_fits e d it hpo hx st st1 h1 herr1 ho hdeps hdepsne huntl
      have hnums' : ∀ g ∈ (if it.isNum = true then it.sets ++ nums else nums), IsNumAt st1.r g := by
        intro g hg
        by_cases hgf : g = f
        · subst hgf
          by_cases hn : it.isNum = true
          · cases it <;> simp [Item.isNum] at hn
            obtain ⟨n, hn', _⟩ := hfit
            simp only [Item.sets, Item.mentions, List.take_succ_cons, List.take_zero, List.cons.injEq, and_true] at hsets
            subst hsets
            exact ⟨n, hn'⟩
          · simp only [hn, Bool.false_eq_true, if_false] at hg
            have := hsn g (by simp [hsets])
            simp [hg] at this
        · have hgn : g ∈ nums := by
            split at hg
            · simp only [hsets, List.cons_append, List.nil_append, List.mem_cons] at hg
              rcases hg with h | h
              · exact absurd h hgf
              · exact h
            · exact hg
          obtain ⟨x, hx'⟩ := hnums g hgn
          exact ⟨x, by rw [hr1, Rec.get?_set_ne _ _ _ _ hgf]; exact hx'⟩
      have hunt' : Untouched its' st1.r := by
        intro g hg
        have hgf : g ≠ f := by
          intro e'; subst e'
          have := hsr g (by simp [hsets])
          simp [hg] at this
        rw [hr1, strs_set_ne _ _ _ _ hgf]
        exact hunt g (by simp only [allSets, List.flatMap_cons, List.mem_append]; exact Or.inr (by simpa [allSets] using hg))
      obtain ⟨h2, h3, h4⟩ := ih its' hp' _ hrest st1 hrun herrT ho1 hnums' hunt'
      have hframe : ∀ g ∈ it.mentions, st'.r.get? g = st1.r.get? g := by
        intro g hg
        have hnot : g ∉ allSets its' := by
          rcases mentions_sub it g hg with h | h
          · intro hin
            have := hsr g h
            simp [hin] at this
          · have hgn : g ∈ nums := by simpa using hdn g h
            exact fitsOK_nums_not_set its' _ hrest g (by split <;> simp [hgn])
        exact h2 g hnot
      refine ⟨?_, ?_, ?_⟩
      · intro g hg
        simp only [allSets, List.flatMap_cons, List.mem_append, not_or] at hg
        have hgf : g ≠ f := by intro e'; subst e'; exact hg.1 (by simp [hsets])
        rw [h2 g (by simpa [allSets] using hg.2), hr1, Rec.get?_set_ne _ _ _ _ hgf]
      · intro x hxm hna
        simp only [List.mem_cons] at hxm
        rcases hxm with rfl | hxm
        · exact x.fits_congr hframe hfit
        · exact h3 x hxm hna
      · intro he'
        have he1 : st1.rd.err = none := by
          cases hq : st1.rd.err with
          | none => rfl
          | some e' => exact absurd he' (runDec_sticky ds st1 st' hrun (by simp [hq]))
        have hc1 := pairOne_dec_consumes e d it hpo st st1 h1 he1 hdeps hdepsne
        have hc2 := h4 he'
        have hw : it.wireLen st'.r = it.wireLen st1.r := wireLen_congr it hframe
        simp only [wireSum, List.map_cons, List.sum_cons, hw] at hc2 ⊢
        omega
  | case5 e es d ds hne1 hne2 hpo => simp [hpo] at hp
  | case6 es ds h1 h2 h3 h4 => simp at hp

/-! ### the encoder's normalisations keep the decoded PDU fitting -/

/-- the declared width of the integer item carrying field `f` (0: none) -/
def widthOf : List Item → String → Nat
  | [], _ => 0
  | .num k g _ :: rest, f => if g = f then k else widthOf rest f
  | _ :: rest, f => widthOf rest f

/-- an assigned expression is a conversion to a type no wider than the field's wire width -/
def asgBounded (its : List Item) (fe : String × Expr) : Bool :=
  match fe.2 with
  | .conv k _ => decide (k ≤ widthOf its fe.1) && decide (0 < widthOf its fe.1)
  | _ => false

/-- normalisation targets are integer items; nothing else mentions a target -/
def normOK (its : List Item) : Bool :=
  let T := its.flatMap Item.targets
  its.all (fun it => match it with
    | .asg _ as => as.all (asgBounded its)
    | .num k f _ => !T.contains f || k == widthOf its f
    | other => other.mentions.all (fun g => !T.contains g))

/-- targets hold integers within the width of their wire field -/
def TargetsOK (its : List Item) (ρ : Rec) : Prop :=
  ∀ f ∈ its.flatMap Item.targets, ∃ n, ρ.get? f = some (.num n) ∧ n < 256 ^ widthOf its f

theorem set_targetsOK (its : List Item) (ρ : Rec) (f : String) (v : Nat) (h : TargetsOK its ρ)
    (hv : v < 256 ^ widthOf its f) : TargetsOK its (ρ.set f (.num v)) := by
  intro g hg
  by_cases e : g = f
  · subst e; exact ⟨v, Rec.get?_set_self _ _ _, hv⟩
  · rw [Rec.get?_set_ne _ _ _ _ e]; exact h g hg

theorem foldl_targetsOK (its : List Item) : ∀ (vals : List (String × Nat)) (ρ : Rec), TargetsOK its ρ →
    (∀ fv ∈ vals, fv.2 < 256 ^ widthOf its fv.1) →
    TargetsOK its (vals.foldl (fun r (fv : String × Nat) => r.set fv.1 (.num fv.2)) ρ)
  | [], ρ, h, _ => h
  | fv :: rest, ρ, h, hb => by
    simp only [List.foldl_cons]
    exact foldl_targetsOK its rest _ (set_targetsOK its ρ fv.1 fv.2 h (hb fv (by simp)))
      (fun x hx => hb x (by simp [hx]))

theorem asgBounded_sound (its : List Item) (fe : String × Expr) (h : asgBounded its fe = true) (ρ : Rec) :
    fe.2.eval ρ < 256 ^ widthOf its fe.1 := by
  unfold asgBounded at h
  split at h
  · rename_i k e heq
    simp only [Bool.and_eq_true, decide_eq_true_eq] at h
    rw [heq]
    simp only [Expr.eval]
    have : 256 ^ k ≤ 256 ^ widthOf its fe.1 := Nat.pow_le_pow_right (by omega) h.1
    have := Nat.mod_lt (e.eval ρ) (Nat.pow_pos (n := k) (show 0 < 256 by omega))
    omega
  · simp at h

theorem applyAsg_targetsOK (its : List Item) (c : Option Cond) (as : List (String × Expr)) (ρ : Rec)
    (h : TargetsOK its ρ) (hb : as.all (asgBounded its) = true) : TargetsOK its (applyAsg c as ρ) := by
  have key : TargetsOK its ((as.map fun (fe : String × Expr) => (fe.1, fe.2.eval ρ)).foldl
      (fun r (fv : String × Nat) => r.set fv.1 (.num fv.2)) ρ) := by
    apply foldl_targetsOK its _ ρ h
    intro fv hfv
    simp only [List.mem_map] at hfv
    obtain ⟨fe, hfe, rfl⟩ := hfv
    exact asgBounded_sound its fe (List.all_eq_true.1 hb fe hfe) ρ
  unfold applyAsg
  cases c with
  | none => exact key
  | some c =>
    simp only
    split
    · exact key
    · exact h

theorem norm_targetsOK (all : List Item) : ∀ (its : List Item) (ρ : Rec), TargetsOK all ρ →
    (∀ it ∈ its, match it with | .asg _ as => as.all (asgBounded all) = true | _ => True) →
    TargetsOK all (norm its ρ)
  | [], ρ, h, _ => h
  | it :: rest, ρ, h, hb => by
    cases it with
    | asg c as =>
      simp only [norm]
      exact norm_targetsOK all rest _ (applyAsg_targetsOK all c as ρ h (hb (.asg c as) (by simp)))
        (fun x hx => hb x (by simp [hx]))
    | _ => simp only [norm]; exact norm_targetsOK all rest ρ h (fun x hx => hb x (by simp [hx]))

theorem norm_get?_other : ∀ (its : List Item) (ρ : Rec) (g : String), g ∉ its.flatMap Item.targets →
    (norm its ρ).get? g = ρ.get? g
  | [], _, _, _ => rfl
  | it :: rest, ρ, g, h => by
    simp only [List.flatMap_cons, List.mem_append, not_or] at h
    cases it with
    | asg c as =>
      simp only [norm]
      rw [norm_get?_other rest _ g h.2]
      exact applyAsg_get? c as ρ g (by simpa [Item.targets] using h.1)
    | _ => simp only [norm]; exact norm_get?_other rest ρ g h.2

theorem widthOf_mem (its : List Item) (k : Nat) (f : String) (c : Bool) (hm : Item.num k f c ∈ its)
    (hw : ∀ k' c', Item.num k' f c' ∈ its → k' = widthOf its f) : k = widthOf its f := hw k c hm

/-- items that mention no normalisation target are untouched by `norm` -/
theorem norm_fits_other (its : List Item)
    (hn : ∀ x ∈ its, (match x with
      | .asg _ as => as.all (asgBounded its)
      | .num k f _ => !(its.flatMap Item.targets).contains f || k == widthOf its f
      | other => other.mentions.all (fun g => !(its.flatMap Item.targets).contains g)) = true)
    (r : Rec) (hf : ∀ it ∈ its, it.isAsg = false → it.Fits r) (it : Item) (hit : it ∈ its) (hna : it.isAsg = false)
    (hnn : it.isNum = false) : it.Fits (norm its r) := by
  refine Item.fits_congr _ (fun g hg => ?_) (hf _ hit hna)
  have h := hn _ hit
  have hg' : g ∉ its.flatMap Item.targets := by
    cases it <;> simp [Item.isAsg] at hna <;> simp [Item.isNum] at hnn <;>
      (simp only [List.all_eq_true, Bool.not_eq_true'] at h
       have := h g hg
       intro hc
       simp [List.contains_iff_mem, hc] at this)
  exact norm_get?_other its r g hg'

/-- **norm_fits**: if the decoded PDU fits, so does the receiver after the encoder's normalisations -/
theorem norm_fits (its : List Item) (hn : normOK its = true) (r : Rec)
    (hf : ∀ it ∈ its, it.isAsg = false → it.Fits r) : ∀ it ∈ its, it.Fits (norm its r) := by
  simp only [normOK, List.all_eq_true] at hn
  -- every target starts within its width: it is carried by an integer item that fits
  have hwidth : ∀ f ∈ its.flatMap Item.targets, 0 < widthOf its f := by
    intro f hf'
    simp only [List.mem_flatMap] at hf'
    obtain ⟨it, hit, hft⟩ := hf'
    cases it with
    | asg c as =>
      simp only [Item.targets, List.mem_map] at hft
      obtain ⟨fe, hfe, rfl⟩ := hft
      have := List.all_eq_true.1 (hn _ hit) fe hfe
      unfold asgBounded at this
      split at this
      · simp only [Bool.and_eq_true, decide_eq_true_eq] at this; exact this.2
      · simp at this
    | _ => simp [Item.targets] at hft
  -- a positive width means an integer item carries the field
  have hcarrier : ∀ (l : List Item) (f : String), 0 < widthOf l f → ∃ c, Item.num (widthOf l f) f c ∈ l := by
    intro l
    induction l with
    | nil => intro f h; simp [widthOf] at h
    | cons x xs ih =>
      intro f h
      cases x with
      | num k g c =>
        simp only [widthOf] at h ⊢
        split
        · rename_i hg; subst hg; exact ⟨c, by simp⟩
        · rename_i hg; rw [if_neg hg] at h; obtain ⟨c', hc'⟩ := ih f h; exact ⟨c', by simp [hc']⟩
      | _ => simp only [widthOf] at h ⊢; obtain ⟨c', hc'⟩ := ih f h; exact ⟨c', by simp [hc']⟩
  have h0 : TargetsOK its r := by
    intro f hf'
    obtain ⟨c, hc⟩ := hcarrier its f (hwidth f hf')
    obtain ⟨n, hn1, hn2⟩ := hf _ hc rfl
    exact ⟨n, hn1, hn2⟩
  have hT := norm_targetsOK its its r h0 (fun it hit => by
    cases it with
    | asg c as => exact hn _ hit
    | _ => trivial)
  intro it hit
  cases it with
  | asg c as => trivial
  | num k f c =>
    by_cases hft : f ∈ its.flatMap Item.targets
    · have hk := hn _ hit
      simp only [Bool.or_eq_true, Bool.not_eq_true', beq_iff_eq] at hk
      rcases hk with hk | hk
      · simp [List.contains_iff_mem, hft] at hk
      · obtain ⟨n, h1, h2⟩ := hT f hft
        exact ⟨n, h1, by rw [hk]; exact h2⟩
    · refine Item.fits_congr _ (fun g hg => ?_) (hf _ hit rfl)
      simp only [Item.mentions, List.mem_singleton] at hg
      subst hg
      exact norm_get?_other its r _ hft
  | cstr f => exact norm_fits_other its hn r hf _ hit rfl rfl
  | fixedTrim f n => exact norm_fits_other its hn r hf _ hit rfl rfl
  | fixedRaw f n => exact norm_fits_other its hn r hf _ hit rfl rfl
  | fixedHexOut f n => exact norm_fits_other its hn r hf _ hit rfl rfl
  | hexBoth f n => exact norm_fits_other its hn r hf _ hit rfl rfl
  | body f l d => exact norm_fits_other its hn r hf _ hit rfl rfl
  | rep f c n cn ap => exact norm_fits_other its hn r hf _ hit rfl rfl
  | tail f p => exact norm_fits_other its hn r hf _ hit rfl rfl

/-! ### a count fix-up that a decoded PDU never triggers -/

/-- every normalisation is `if len(p.list) != int(p.count) { p.count = … }` for a list item that
    reads that very count (sgip12.Submit) -/
def asgIdleOK (its : List Item) : Bool :=
  its.all fun it => match it with
    | .asg (some (.ne (.lenOf f) (.fld c))) _ =>
      its.any fun x => match x with | .rep f' c' _ _ _ => f' == f && c' == c | _ => false
    | .asg _ _ => false
    | _ => true

theorem norm_idle (all : List Item) (r : Rec) (hf : ∀ it ∈ all, it.isAsg = false → it.Fits r) :
    ∀ (its : List Item), (∀ it ∈ its, it ∈ all) → asgIdleOK all = true → norm its r = r
  | [], _, _ => rfl
  | it :: rest, hsub, hok => by
    have ih := norm_idle all r hf rest (fun x hx => hsub x (by simp [hx])) hok
    cases it with
    | asg c as =>
      simp only [norm]
      have hit := List.all_eq_true.1 hok (Item.asg c as) (hsub (Item.asg c as) (by simp))
      -- the condition is false on a PDU whose list item fits
      have hfalse : applyAsg c as r = r := by
        cases c with
        | none => simp at hit
        | some cond =>
          cases cond with
          | ne a b =>
            cases a <;> cases b <;> simp at hit
            rename_i f cfld
            obtain ⟨x, hx, hxm⟩ := hit
            cases x <;> simp at hxm
            rename_i f' c' n cn ap
            obtain ⟨rfl, rfl⟩ := hxm
            obtain ⟨l, hl, hc, _⟩ := hf _ hx rfl
            simp [applyAsg, Cond.eval, Expr.eval, hl, Rec.num, hc]
          | eq a b => simp at hit
          | and a b => simp at hit
      rw [hfalse]; exact ih
    | _ => simp only [norm]; exact ih

/-! ### whole decoders -/

/-- the static check behind `decode_fits` -/
def PduDesc.checkDecodedFits (p : PduDesc) : Bool :=
  match p.items with
  | none => false
  | some (lf, its) =>
    fitsOK [] its && (p.fin != .withLength || !(allSets its).contains lf) && (normOK its || asgIdleOK its) &&
    (p.ret != .nilAlways || its.all numOrAsg) && p.dec.all (fun d => !d.isStop)

theorem runDec_error (ds : List DecOp) (hns : ds.all (fun d => !d.isStop) = true) :
    ∀ (st : DecState) (o : DecOutcome), runDec ds st = .error o → ∃ pos, o = .unsupported pos := by
  induction ds with
  | nil => intro st o h; simp [runDec] at h
  | cons d ds ih =>
    intro st o h
    simp only [List.all_cons, Bool.and_eq_true, Bool.not_eq_true'] at hns
    simp only [runDec] at h
    cases hd : d.run st with
    | ok st1 => simp only [hd] at h; exact ih hns.2 st1 o h
    | error e =>
      simp only [hd, Except.error.injEq] at h
      subst h
      cases d <;> simp [DecOp.run] at hd
      · split at hd <;> simp at hd
      · simp [DecOp.isStop] at hns
      · exact ⟨_, hd.symm⟩

/-- **decode_fits**: whatever `IDecode` accepts satisfies the preconditions of `IEncode` (after the
    encoder's own normalisation of its receiver); and — unless the decoder never reports errors — the
    input contained every octet of every mandatory field the decoded PDU claims (`wireSum`) -/
theorem decode_fits (p : PduDesc) (h : p.checkDecodedFits = true) (data : Bytes) (ho : Oct data) (r : Rec)
    (hdec : p.decode data = .ok r) :
    ∃ lf its, p.items = some (lf, its) ∧ (∀ it ∈ its, it.Fits (norm its r)) ∧
      (p.ret ≠ .nilAlways → wireSum r its + (if p.fin = .withLength then 4 else 0) ≤ data.length) := by
  unfold PduDesc.checkDecodedFits at h
  cases hitems : p.items with
  | none => simp [hitems] at h
  | some pr =>
    obtain ⟨lf, its⟩ := pr
    simp only [hitems, Bool.and_eq_true, Bool.or_eq_true, bne_iff_ne, ne_eq, Bool.not_eq_true'] at h
    obtain ⟨⟨⟨⟨hok, hlf⟩, hnorm⟩, hret⟩, hnostop⟩ := h
    suffices hboth : (∀ it ∈ its, it.isAsg = false → it.Fits r) ∧
        (p.ret ≠ .nilAlways → wireSum r its + (if p.fin = .withLength then 4 else 0) ≤ data.length) by
      obtain ⟨hfit, hcons⟩ := hboth
      refine ⟨lf, its, rfl, ?_, hcons⟩
      rcases hnorm with hn | hn
      · exact norm_fits its hn r hfit
      · rw [norm_idle its r hfit its (fun _ h => h) hn]
        intro it hit
        cases hia : it.isAsg with
        | false => exact hfit it hit hia
        | true => cases it <;> simp [Item.isAsg] at hia; trivial
    -- open the decoder
    unfold PduDesc.decode PduDesc.decodeInto at hdec
    split at hdec
    · simp at hdec
    · rw [guardOf_decBody] at hdec
      cases hrun : runDec (decBody p.dec) { r := p.fresh, rd := ⟨data, none, 0⟩ } with
      | error o =>
        simp only [hrun] at hdec
        have hns' : (decBody p.dec).all (fun d => !d.isStop) = true := by
          cases hd : p.dec with
          | nil => rfl
          | cons d ds =>
            rw [hd] at hnostop
            cases d <;> simp only [decBody] <;> first | exact hnostop | (simp only [List.all_cons, Bool.and_eq_true] at hnostop; exact hnostop.2)
        obtain ⟨pos, hpos⟩ := runDec_error _ hns' _ _ hrun
        simp [hpos] at hdec
      | ok st' =>
        simp only [hrun] at hdec
        -- success means no reader error was left (or the layout is integers only)
        have herr : (st'.rd.err = none ∨ its.all numOrAsg = true) ∧ r = st'.r ∧ (p.ret ≠ .nilAlways → st'.rd.err = none) := by
          cases hr : p.ret with
          | nilAlways =>
            simp only [hr] at hdec
            simp only [Bool.false_eq_true, if_false, DecOutcome.ok.injEq] at hdec
            rcases hret with h' | h'
            · exact absurd hr h'
            · exact ⟨Or.inr h', hdec.symm, fun h => absurd rfl h⟩
          | readerErr =>
            simp only [hr] at hdec
            split at hdec
            · simp at hdec
            · rename_i hf
              simp only [DecOutcome.ok.injEq] at hdec
              have he : st'.rd.err = none := by
                cases he : st'.rd.err with
                | none => rfl
                | some e => simp [he] at hf
              exact ⟨Or.inl he, hdec.symm, fun _ => he⟩
          | readerOrParse =>
            simp only [hr] at hdec
            split at hdec
            · simp at hdec
            · rename_i hf
              simp only [DecOutcome.ok.injEq] at hdec
              have he : st'.rd.err = none := by
                cases he : st'.rd.err with
                | none => rfl
                | some e => simp [he] at hf
              exact ⟨Or.inl he, hdec.symm, fun _ => he⟩
        obtain ⟨herr, rfl, herr2⟩ := herr
        have hfilt : (decBody p.dec).filter (fun d => !d.isStop) = decBody p.dec := by
          apply List.filter_eq_self.2
          intro d hd
          have hmem : d ∈ p.dec := by
            cases hpd : p.dec with
            | nil => rw [hpd] at hd; simp [decBody] at hd
            | cons x xs =>
              rw [hpd] at hd
              cases x <;> simp only [decBody] at hd <;> first | exact hd | exact List.mem_cons_of_mem _ hd
          exact List.all_eq_true.1 hnostop d hmem
        unfold PduDesc.items at hitems
        rw [hfilt] at hitems
        split at hitems
        · -- length-prefixed: the first statement reads the length word
          rename_i lf' ds hfin hbody
          simp only [Option.map_eq_some_iff, Prod.mk.injEq] at hitems
          obtain ⟨its', hp, rfl, rfl⟩ := hitems
          rw [hbody] at hrun
          simp only [runDec, DecOp.run] at hrun
          have hs := readNum_step (⟨data, none, 0⟩ : Reader) 4
          have hunt : Untouched its' (p.fresh.set lf' (.num (Reader.readNum ⟨data, none, 0⟩ 4).1)) := by
            intro g _
            by_cases hg : g = lf'
            · subst hg; simp [Rec.strs, Rec.get?_set_self]
            · rw [strs_set_ne _ _ _ _ hg]; exact fresh_strs_nil p g
          obtain ⟨_, r2, r3⟩ := runDec_fits p.enc ds its' hp [] hok _ st' hrun herr (Oct.of_step hs ho) (by simp) hunt
          refine ⟨r2, fun hnil => ?_⟩
          have he := herr2 hnil
          have h3 := r3 he
          -- the length word itself was there
          have he1 : (Reader.readNum ⟨data, none, 0⟩ 4).2.err = none := by
            cases hq : (Reader.readNum ⟨data, none, 0⟩ 4).2.err with
            | none => rfl
            | some e' => exact absurd he (runDec_sticky ds _ st' hrun (by simp [hq]))
          have h4 := hs.cons he1
          simp only [hfin, if_true] at h3 h4 ⊢
          omega
        · rename_i ds hfin
          simp only [Option.map_eq_some_iff, Prod.mk.injEq] at hitems
          obtain ⟨its', hp, _, rfl⟩ := hitems
          obtain ⟨_, r2, r3⟩ := runDec_fits p.enc (decBody p.dec) its' hp [] hok _ st' hrun herr ho (by simp)
            (fun g _ => fresh_strs_nil p g)
          refine ⟨r2, fun hnil => ?_⟩
          have h3 := r3 (herr2 hnil)
          simp only [hfin] at h3 ⊢
          simp only [reduceCtorEq, if_false, Nat.add_zero]
          have : (⟨data, none, 0⟩ : Reader).rest.length = data.length := rfl
          omega
        · simp at hitems

end SmsVerif
