/-
  Cut points and slices: the parts cover the data exactly once, in order, each non-empty and at
  most `per` units long; every cut produced by a sound boundary rule is a character boundary.
-/
import SmsVerif.Model.Split

namespace SmsVerif.Split

/-- `cuts` is a valid partition of `[b, n]`: strictly increasing from `b`, steps of at most `per`, ending at `n` -/
def Partition (per n : Nat) : Nat → List Nat → Prop
  | b, [] => b = n
  | b, e :: rest => b < e ∧ e ≤ b + per ∧ e ≤ n ∧ Partition per n e rest

theorem cutPoints_partition (bnd : Boundary) (d : List Nat) (per : Nat) (hper : 0 < per)
    (fuel b : Nat) (hb : b ≤ d.length) (hfuel : d.length - b < fuel) :
    Partition per d.length b (cutPoints bnd d per fuel b) := by
  induction fuel generalizing b with
  | zero => omega
  | succ fuel ih =>
    unfold cutPoints
    by_cases h1 : b ≥ d.length
    · simp only [h1, if_true, Partition]; omega
    · simp only [h1, if_false]
      by_cases h2 : b + per ≥ d.length
      · rw [if_pos h2]
        exact ⟨Nat.lt_of_not_ge h1, h2, Nat.le_refl _, rfl⟩
      · simp only [h2, if_false]
        -- the cut actually used
        generalize hE : (if bnd d b (b + per) > b ∧ bnd d b (b + per) ≤ b + per then bnd d b (b + per) else b + per) = e
        have he : b < e ∧ e ≤ b + per := by
          subst hE; split <;> omega
        simp only [Partition]
        exact ⟨he.1, he.2, by omega, ih e (by omega) (by omega)⟩

theorem slices_flatten (d : List Nat) (per : Nat) (b : Nat) (cuts : List Nat)
    (h : Partition per d.length b cuts) : (slices d b cuts).flatten = d.drop b := by
  induction cuts generalizing b with
  | nil => simp only [Partition] at h; subst h; simp [slices]
  | cons e rest ih =>
    obtain ⟨h1, _, h3, h4⟩ := h
    simp only [slices, List.flatten_cons, ih e h4]
    have : d.drop e = (d.drop b).drop (e - b) := by
      rw [List.drop_drop]; congr 1; omega
    rw [this, List.take_append_drop]

theorem slices_length (d : List Nat) (per : Nat) (b : Nat) (cuts : List Nat)
    (h : Partition per d.length b cuts) : (slices d b cuts).length = cuts.length := by
  induction cuts generalizing b with
  | nil => rfl
  | cons e rest ih => simp [slices, ih e h.2.2.2]

theorem slices_sizes (d : List Nat) (per : Nat) (b : Nat) (cuts : List Nat)
    (h : Partition per d.length b cuts) : ∀ s ∈ slices d b cuts, 0 < s.length ∧ s.length ≤ per := by
  induction cuts generalizing b with
  | nil => intro s hs; simp [slices] at hs
  | cons e rest ih =>
    obtain ⟨h1, h2, h3, h4⟩ := h
    intro s hs
    simp only [slices, List.mem_cons] at hs
    rcases hs with rfl | hs
    · simp only [List.length_take, List.length_drop]; omega
    · exact ih e h4 s hs

/-! ### headers -/

theorem withHeaders_length (ref total i : Nat) (ps : List (List Nat)) :
    (withHeaders ref total i ps).length = ps.length := by
  induction ps generalizing i with
  | nil => rfl
  | cons p rest ih => simp [withHeaders, ih]

theorem withHeaders_get (ref total i : Nat) (ps : List (List Nat)) (k : Nat) (hk : k < ps.length) :
    (withHeaders ref total i ps)[k]? = some (header ref total (i + k + 1) ++ ps[k]) := by
  induction ps generalizing i k with
  | nil => simp at hk
  | cons p rest ih =>
    cases k with
    | zero => simp [withHeaders]
    | succ k =>
      simp only [withHeaders, List.getElem?_cons_succ, List.getElem_cons_succ]
      rw [ih (i + 1) k (by simpa using hk)]
      congr 3; omega

theorem withHeaders_strip (ref total i : Nat) (ps : List (List Nat)) :
    (withHeaders ref total i ps).map (List.drop 6) = ps := by
  induction ps generalizing i with
  | nil => rfl
  | cons p rest ih => simp [withHeaders, header, ih]

/-! ### character boundaries -/

/-- offsets at which a character of the segmentation `chars` starts (or the text ends) -/
def IsBoundary (chars : List (List Nat)) (pos : Nat) : Prop :=
  ∃ k, k ≤ chars.length ∧ pos = (chars.take k).flatten.length

/-- a boundary rule is sound for a segmentation when, starting from a character boundary, the cut it
    returns is again a character boundary (whenever it is usable at all) -/
def BoundarySound (bnd : Boundary) (chars : List (List Nat)) (per : Nat) : Prop :=
  ∀ b, IsBoundary chars b → b + per < chars.flatten.length →
    b < bnd chars.flatten b (b + per) → bnd chars.flatten b (b + per) ≤ b + per →
    IsBoundary chars (bnd chars.flatten b (b + per))

/-- with a rule that is sound and always usable, every cut is a character boundary -/
theorem cuts_on_boundaries (bnd : Boundary) (chars : List (List Nat)) (per : Nat)
    (hs : BoundarySound bnd chars per)
    (hprog : ∀ b, IsBoundary chars b → b + per < chars.flatten.length →
      b < bnd chars.flatten b (b + per) ∧ bnd chars.flatten b (b + per) ≤ b + per)
    (fuel b : Nat) (hb : IsBoundary chars b) :
    ∀ e ∈ cutPoints bnd chars.flatten per fuel b, IsBoundary chars e := by
  induction fuel generalizing b with
  | zero => intro e he; simp [cutPoints] at he
  | succ fuel ih =>
    intro e he
    unfold cutPoints at he
    by_cases h1 : b ≥ chars.flatten.length
    · simp only [h1, if_true, List.not_mem_nil] at he
    · simp only [h1, if_false] at he
      by_cases h2 : b + per ≥ chars.flatten.length
      · simp only [h2, if_true, List.mem_singleton] at he
        subst he
        exact ⟨chars.length, Nat.le_refl _, by simp⟩
      · simp only [h2, if_false] at he
        have hlt : b + per < chars.flatten.length := by omega
        obtain ⟨p1, p2⟩ := hprog b hb hlt
        have hcut : IsBoundary chars (bnd chars.flatten b (b + per)) := hs b hb hlt p1 p2
        simp only [p1, p2, and_self, if_true, List.mem_cons] at he
        rcases he with rfl | he
        · exact hcut
        · exact ih _ hcut e he

end SmsVerif.Split
