/-
  Resource facts about the decoder model (C03): what one read may do to the reader — it only
  consumes, it requests from the allocator no more than it consumes (plus a per-statement
  constant for the two statement kinds that allocate from an unchecked 8/16-bit field), an error
  once recorded stays recorded, and a read that succeeded consumed at least its fixed width.
-/
import SmsVerif.Model.Layout
import SmsVerif.Lemmas.Packet
import SmsVerif.Lemmas.Bytes
import SmsVerif.Lemmas.LayoutEnc

namespace SmsVerif

/-- `b` is the reader `a` after some reads: `over` bounds what was requested from the allocator
    beyond the octets consumed, `minc` is what a read without error must have consumed. -/
structure RdStep (a b : Reader) (over minc : Nat) : Prop where
  sub : ∀ x ∈ b.rest, x ∈ a.rest
  alloc : b.alloc + b.rest.length ≤ a.alloc + a.rest.length + over
  sticky : a.err ≠ none → b.err ≠ none
  cons : b.err = none → b.rest.length + minc ≤ a.rest.length
  len : b.rest.length ≤ a.rest.length

theorem RdStep.refl (a : Reader) : RdStep a a 0 0 :=
  ⟨fun _ h => h, by omega, fun h => h, fun _ => by omega, by omega⟩

theorem RdStep.ofErr {r : Reader} {e : PErr} (he : r.err = some e) (m : Nat) : RdStep r r 0 m :=
  ⟨fun _ h => h, by omega, fun h => h, fun hc => by simp [he] at hc, by omega⟩

theorem RdStep.trans {a b c : Reader} {o1 m1 o2 m2 : Nat} (h1 : RdStep a b o1 m1) (h2 : RdStep b c o2 m2) :
    RdStep a c (o1 + o2) (m1 + m2) := by
  refine ⟨fun x hx => h1.sub x (h2.sub x hx), ?_, fun h => h2.sticky (h1.sticky h), ?_, ?_⟩
  · have := h1.alloc; have := h2.alloc; have := h2.len; omega
  · intro hc
    have hb : b.err = none := by
      by_cases hb : b.err = none
      · exact hb
      · exact absurd hc (h2.sticky hb)
    have := h1.cons hb; have := h2.cons hc; omega
  · have := h1.len; have := h2.len; omega

theorem RdStep.weaken {a b : Reader} {o m o' m' : Nat} (h : RdStep a b o m) (ho : o ≤ o') (hm : m' ≤ m) :
    RdStep a b o' m' :=
  ⟨h.sub, by have := h.alloc; omega, h.sticky, fun hc => by have := h.cons hc; omega, h.len⟩

theorem mem_drop {α} {x : α} {n : Nat} {l : List α} (h : x ∈ l.drop n) : x ∈ l :=
  (List.drop_sublist n l).subset h

theorem readNum_step (r : Reader) (k : Nat) : RdStep r (r.readNum k).2 0 k := by
  unfold Reader.readNum
  split
  · rename_i e he
    exact RdStep.ofErr he _
  · rename_i he
    split
    · refine ⟨fun x hx => mem_drop hx, ?_, fun h => absurd he h, fun _ => ?_, ?_⟩ <;> simp <;> omega
    · split
      · refine ⟨fun _ h => h, by simp, fun _ => by simp, fun hc => by simp at hc, by simp⟩
      · refine ⟨fun _ h => by simp at h, by simp, fun _ => by simp, fun hc => by simp at hc, by simp⟩

theorem readExact_step (r : Reader) (n : Nat) (he : r.err = none) : RdStep r (r.readExact n).2 0 n := by
  rcases readExact_spec r n with ⟨t, h, _, hn⟩ | ⟨e, h, _⟩ | ⟨e, h, _⟩ <;> rw [h]
  · refine ⟨fun x hx => mem_drop hx, ?_, fun h => absurd he h, fun _ => ?_, ?_⟩ <;> simp <;> omega
  · exact ⟨fun _ h => h, by simp, fun _ => by simp, fun hc => by simp at hc, by simp⟩
  · exact ⟨fun _ h => by simp at h, by simp, fun _ => by simp, fun hc => by simp at hc, by simp⟩

theorem readCStringN_step (r : Reader) (n : Nat) : RdStep r (r.readCStringN n).2 0 n := by
  unfold Reader.readCStringN
  split
  · rename_i e he
    exact RdStep.ofErr he _
  · rename_i he
    split
    · rename_i h0; subst h0; exact RdStep.refl r
    · exact readExact_step r n he

theorem readCStringNRaw_step (r : Reader) (n : Nat) : RdStep r (r.readCStringNRaw n).2 0 n := by
  unfold Reader.readCStringNRaw
  split
  · rename_i e he
    exact RdStep.ofErr he _
  · rename_i he
    split
    · rename_i h0; subst h0; exact RdStep.refl r
    · exact readExact_step r n he

theorem readNBytes_step (r : Reader) (n : Nat) : RdStep r (r.readNBytes n).2 0 n :=
  readCStringNRaw_step r n

theorem splitNul_mem {bs x y : Bytes} (h : Reader.splitNul bs = some (x, y)) :
    (∀ b ∈ y, b ∈ bs) ∧ y.length + 1 ≤ bs.length := by
  have := (splitNul_some h).1
  subst this
  exact ⟨fun b hb => by simp [hb], by simp⟩

theorem readCString_step (r : Reader) : RdStep r r.readCString.2 0 1 := by
  unfold Reader.readCString
  split
  · rename_i e he
    exact RdStep.ofErr he _
  · rename_i he
    split
    · rename_i x y hs
      have := splitNul_mem hs
      refine ⟨this.1, ?_, fun h => absurd he h, fun _ => ?_, ?_⟩ <;> simp <;> omega
    · exact ⟨fun _ h => by simp at h, by simp, fun _ => by simp, fun hc => by simp at hc, by simp⟩

theorem readBytes_step (r : Reader) (n : Nat) : RdStep r (r.readBytes n).2 0 n := by
  unfold Reader.readBytes
  split
  · rename_i e he
    exact RdStep.ofErr he _
  · rename_i he
    split
    · rename_i h0; subst h0; exact RdStep.refl r
    · split
      · exact ⟨fun _ h => h, by simp, fun _ => by simp, fun hc => by simp at hc, by simp⟩
      · split
        · exact ⟨fun _ h => by simp at h, by simp, fun _ => by simp, fun hc => by simp at hc, by simp⟩
        · refine ⟨fun x hx => mem_drop hx, ?_, fun h => absurd he h, fun _ => ?_, ?_⟩ <;> simp <;> omega

theorem readBytes_alloc_eq (r : Reader) (n : Nat) : (r.readBytes n).2.alloc = r.alloc := by
  unfold Reader.readBytes
  repeat' split
  all_goals rfl

/-- every octet `ReadBytes` hands back is an octet of the input or a zero of the receiver -/
theorem readBytes_val (r : Reader) (n : Nat) : ∀ x ∈ (r.readBytes n).1, x ∈ r.rest ∨ x = 0 := by
  have hz : ∀ m x, x ∈ zeros m → x = 0 := by
    intro m x hx; simp [zeros] at hx; exact hx.2
  unfold Reader.readBytes
  repeat' split
  all_goals intro x hx
  · exact Or.inr (hz _ _ hx)
  · simp at hx
  · exact Or.inr (hz _ _ hx)
  · rcases List.mem_append.1 hx with h | h
    · exact Or.inl h
    · exact Or.inr (hz _ _ h)
  · exact Or.inl ((List.take_sublist _ _).subset hx)

theorem readRep_step (n : Nat) : ∀ (cnt : Nat) (rd : Reader) (acc : List Bytes),
    RdStep rd (readRep rd n cnt acc).2 0 0
  | 0, rd, acc => by simp only [readRep]; exact RdStep.refl rd
  | c+1, rd, acc => by
    simp only [readRep]
    exact ((readCStringN_step rd n).trans (readRep_step n c _ _)).weaken (by omega) (by omega)

theorem readBytes_length (r : Reader) (n : Nat) : (r.readBytes n).1.length = n := by
  unfold Reader.readBytes
  repeat' split
  all_goals simp <;> omega

/-- a failed `ReadBytes` leaves nothing buffered -/
theorem readBytes_fail_rest (r : Reader) (n : Nat) (he : r.err = none) (hf : (r.readBytes n).2.err ≠ none) :
    (r.readBytes n).2.rest = [] := by
  unfold Reader.readBytes at hf ⊢
  simp only [he] at hf ⊢
  split
  · rename_i h0; simp [h0, he] at hf
  · split
    · rename_i h1; simpa using h1
    · split
      · rfl
      · rename_i h0 h1 h2; simp [h0, h1, h2, he] at hf

/-- the optional-parameter loop: the value buffer is sized by the declared length only as far as the
    input backs it (one octet more on the failing path), so at most one octet is ever requested
    beyond what is consumed. -/
theorem readTlvLoop_step : ∀ (fuel : Nat) (r : Reader) (m : TlvMap), r.err = none →
    (∀ x ∈ r.rest, x < 256) → RdStep r (readTlvLoop fuel r m).rd 1 0
  | 0, r, m, _, _ => by simp only [readTlvLoop]; exact (RdStep.refl r).weaken (by omega) (by omega)
  | fuel+1, r, m, he, hb => by
    simp only [readTlvLoop]
    split
    · exact (RdStep.refl r).weaken (by omega) (by omega)
    · have h1 := readBytes_step r 4
      have h1a := readBytes_alloc_eq r 4
      generalize r.readBytes 4 = p1 at h1 h1a
      obtain ⟨hd, r1⟩ := p1
      simp only at h1 h1a ⊢
      have setNil : ∀ q : Reader, RdStep r q 1 0 → RdStep r q.setErrNil 1 0 := fun q hq =>
        ⟨hq.sub, hq.alloc, fun h => absurd he h, fun _ => by have := hq.len; simp [Reader.setErrNil]; omega, hq.len⟩
      split
      · exact setNil _ (h1.weaken (by omega) (by omega))
      · exact h1.weaken (by omega) (by omega)
      · rename_i he1
        generalize fromBe (hd.drop 2) = len
        have h2 := readBytes_step { r1 with alloc := r1.alloc + min len (r1.remaining + 1) } len
        have h2a := readBytes_alloc_eq { r1 with alloc := r1.alloc + min len (r1.remaining + 1) } len
        have h2f := readBytes_fail_rest { r1 with alloc := r1.alloc + min len (r1.remaining + 1) } len he1
        generalize Reader.readBytes { r1 with alloc := r1.alloc + min len (r1.remaining + 1) } len = p2 at h2 h2a h2f
        obtain ⟨v, r2⟩ := p2
        simp only at h2 h2a h2f ⊢
        -- the reader after a failed value read: nothing is left, one octet more than the input was requested
        have hfail : r2.err ≠ none → RdStep r r2 1 0 := by
          intro hne
          have hr2 := h2f hne
          refine ⟨fun x hx => h1.sub x (h2.sub x hx), ?_, fun h => absurd he h, fun _ => ?_, ?_⟩
          · have := h1.alloc; have := h1.len
            simp only [Reader.remaining] at h2a
            simp [hr2, h2a] at *; omega
          · simp [hr2]
          · simp [hr2]
        split
        · rename_i hq; exact setNil _ (hfail (by simp [hq]))
        · rename_i hq2; exact hfail (by simp [hq2])
        · rename_i he2
          have h2c := h2.cons he2
          have ih := readTlvLoop_step fuel r2 (m.upsert (fromBe (hd.take 2)) v) he2
            (fun x hx => hb x (h1.sub x (h2.sub x hx)))
          refine ⟨fun x hx => h1.sub x (h2.sub x (ih.sub x hx)), ?_, fun h => absurd he h, fun _ => ?_, ?_⟩
          · have := ih.alloc; have := h1.alloc
            simp only [Reader.remaining] at h2a
            simp at *; omega
          · have := ih.len; have := h2.len; have := h1.len; simp at *; omega
          · have := ih.len; have := h2.len; have := h1.len; simp at *; omega

theorem readTlvs_step (r : Reader) (hb : ∀ x ∈ r.rest, x < 256) : RdStep r (readTlvs r).rd 1 0 := by
  unfold readTlvs
  split
  · exact (RdStep.refl r).weaken (by omega) (by omega)
  · split
    · exact (RdStep.refl r).weaken (by omega) (by omega)
    · rename_i h
      exact readTlvLoop_step _ r [] (by simpa using h) hb

theorem readNum_lt (r : Reader) (k : Nat) (hb : ∀ x ∈ r.rest, x < 256) : (r.readNum k).1 < 256 ^ k := by
  have hp : 0 < 256 ^ k := Nat.pow_pos (by omega)
  unfold Reader.readNum
  split
  · exact hp
  · split
    · rename_i hk
      have := fromBe_lt (r.rest.take k) (fun x hx => hb x ((List.take_sublist _ _).subset hx))
      rw [List.length_take, Nat.min_eq_left hk] at this
      exact this
    · split <;> exact hp

theorem readCStringNRaw_val (r : Reader) (n : Nat) : ∀ x ∈ (r.readCStringNRaw n).1, x ∈ r.rest := by
  unfold Reader.readCStringNRaw
  split
  · simp
  · split
    · simp
    · rcases readExact_spec r n with ⟨t, hx, ht, hn⟩ | ⟨e, hx, _⟩ | ⟨e, hx, _⟩ <;> rw [hx]
      · simp only [Option.getD_some]
        intro x hx'; rw [ht] at hx'; exact (List.take_sublist _ _).subset hx'
      · simp
      · simp

/-- the list loop consumes one slot per entry when it ends without an error -/
theorem readRep_consumes (n : Nat) : ∀ (cnt : Nat) (rd : Reader) (acc : List Bytes),
    (readRep rd n cnt acc).2.err = none → (readRep rd n cnt acc).2.rest.length + n * cnt ≤ rd.rest.length
  | 0, rd, acc, _ => by simp [readRep]
  | c+1, rd, acc, h => by
    simp only [readRep] at h ⊢
    have ih := readRep_consumes n c (rd.readCStringN n).2 ((rd.readCStringN n).1 :: acc) h
    have hs := readCStringN_step rd n
    have hmid : (rd.readCStringN n).2.err = none := by
      cases he : (rd.readCStringN n).2.err with
      | none => rfl
      | some e => exact absurd h ((readRep_step n c _ _).sticky (by simp [he]))
    have := hs.cons hmid
    rw [Nat.mul_succ]; omega

/-- a C-string read that succeeds consumes the text and its terminator -/
theorem readCString_consumes (r : Reader) (h : r.readCString.2.err = none) :
    r.readCString.2.rest.length + (r.readCString.1.length + 1) = r.rest.length := by
  unfold Reader.readCString at h ⊢
  split
  · rename_i e he; simp [he] at h
  · rename_i he
    simp only [he] at h
    split
    · rename_i x y hs
      have := (splitNul_some hs).1
      simp only; rw [this]; simp; omega
    · rename_i hs; simp [hs] at h

end SmsVerif
