import SmsVerif.Model.Bytes

namespace SmsVerif

@[simp] theorem be_length (k n : Nat) : (be k n).length = k := by
  induction k with
  | zero => rfl
  | succ k ih => simp [be, ih]

theorem foldl_be_acc (bs : Bytes) (a : Nat) :
    bs.foldl (fun acc b => acc * 256 + b) a = a * 256 ^ bs.length + fromBe bs := by
  induction bs generalizing a with
  | nil => simp [fromBe]
  | cons b bs ih =>
    simp only [List.foldl_cons, List.length_cons, fromBe]
    rw [ih, ih (0 * 256 + b)]
    simp [Nat.pow_succ, Nat.add_mul, Nat.mul_assoc, Nat.mul_comm 256, Nat.add_assoc]

theorem fromBe_cons (b : Nat) (bs : Bytes) : fromBe (b :: bs) = b * 256 ^ bs.length + fromBe bs := by
  simp only [fromBe, List.foldl_cons]
  rw [foldl_be_acc]; simp [fromBe]

@[simp] theorem fromBe_nil : fromBe [] = 0 := rfl

theorem fromBe_be (k n : Nat) : fromBe (be k n) = n % 256 ^ k := by
  induction k with
  | zero => simp [be, Nat.mod_one]
  | succ k ih =>
    simp only [be, fromBe_cons, be_length, ih]
    have h : n % 256 ^ (k+1) = (n / 256 ^ k % 256) * 256 ^ k + n % 256 ^ k := by
      rw [Nat.pow_succ, Nat.mod_mul, Nat.add_comm, Nat.mul_comm]
    omega

theorem fromBe_be_of_lt {k n : Nat} (h : n < 256 ^ k) : fromBe (be k n) = n := by
  rw [fromBe_be, Nat.mod_eq_of_lt h]

theorem fromBe_lt (bs : Bytes) (h : ∀ b ∈ bs, b < 256) : fromBe bs < 256 ^ bs.length := by
  induction bs with
  | nil => simp
  | cons b bs ih =>
    rw [fromBe_cons]
    have hb : b < 256 := h b (by simp)
    have := ih (fun x hx => h x (by simp [hx]))
    simp only [List.length_cons, Nat.pow_succ]
    have : b * 256 ^ bs.length ≤ 255 * 256 ^ bs.length := Nat.mul_le_mul_right _ (by omega)
    omega

theorem be_lt (k n : Nat) : ∀ b ∈ be k n, b < 256 := by
  induction k with
  | zero => simp [be]
  | succ k ih =>
    intro b hb
    simp only [be, List.mem_cons] at hb
    rcases hb with rfl | hb
    · exact Nat.mod_lt _ (by decide)
    · exact ih b hb

@[simp] theorem zeros_length (n : Nat) : (zeros n).length = n := by simp [zeros]

theorem cutAtNul_append_zeros (s : Bytes) (h : hasNul s = false) (n : Nat) :
    cutAtNul (s ++ zeros n) = s := by
  induction s with
  | nil =>
    cases n with
    | zero => simp [zeros, cutAtNul]
    | succ n => simp [zeros, List.replicate_succ, cutAtNul]
  | cons b bs ih =>
    simp only [hasNul, List.any_cons, Bool.or_eq_false_iff, beq_eq_false_iff_ne] at h
    simp only [List.cons_append, cutAtNul, h.1, if_false]
    rw [ih]; simpa [hasNul] using h.2

theorem cutAtNul_noNul (s : Bytes) : hasNul (cutAtNul s) = false := by
  induction s with
  | nil => simp [cutAtNul, hasNul]
  | cons b bs ih =>
    simp only [cutAtNul]
    split
    · simp [hasNul]
    · rename_i hb
      simp only [hasNul, List.any_cons, Bool.or_eq_false_iff, beq_eq_false_iff_ne]
      exact ⟨hb, by simpa [hasNul] using ih⟩

theorem cutAtNul_length_le (s : Bytes) : (cutAtNul s).length ≤ s.length := by
  induction s with
  | nil => simp [cutAtNul]
  | cons b bs ih =>
    simp only [cutAtNul]; split <;> simp <;> omega

theorem cutAtNul_prefix (s : Bytes) : cutAtNul s <+: s := by
  induction s with
  | nil => simp [cutAtNul]
  | cons b bs ih =>
    simp only [cutAtNul]; split
    · exact List.nil_prefix
    · exact (List.cons_prefix_cons).2 ⟨rfl, ih⟩

end SmsVerif
