/-
  GSM 7-bit unpacking as the library does it (`gsm7encoding.Unpack`: it is not told the septet count):
  on what `Pack` produced it returns the septets again, except in the two situations where the
  packed octets do not determine the count — a message of 8k septets ending in `@` (septet 0) whose
  seventh octet of the last block is zero, and a message of 8k septets ending in a real CR.
-/
import SmsVerif.Lemmas.Pack

namespace SmsVerif.Gsm7

/-! ### the byte operations of the unpacker as arithmetic -/

theorem ulo_table : allBelow (fun i => ((((i % 256) &&& (2 ^ (7 - i / 256) - 1)) <<< (i / 256)) % 256)
    == ((i % 256) % 2 ^ (7 - i / 256)) * 2 ^ (i / 256)) (7 * 256) = true := by decide +kernel

theorem uhi_table : allBelow (fun i => (((i % 256) &&& (255 - (2 ^ (8 - i / 256) - 1))) >>> (8 - i / 256))
    == (i % 256) / 2 ^ (8 - i / 256)) (8 * 256) = true := by decide +kernel

theorem first_table : allBelow (fun o => (o &&& 0x7F) == o % 128) 256 = true := by decide +kernel
theorem eighth_table : allBelow (fun o => ((o &&& 0xFE) >>> 1) == o / 2) 256 = true := by decide +kernel

theorem first_arith (o : Nat) (h : o < 256) : o &&& 0x7F = o % 128 := by
  simpa using allBelow_spec _ _ first_table o h

theorem eighth_arith (o : Nat) (h : o < 256) : (o &&& 0xFE) >>> 1 = o / 2 := by
  simpa using allBelow_spec _ _ eighth_table o h

theorem unpackSeptet_arith (j prev cur : Nat) (hj : j < 7) (hp : prev < 256) (hc : cur < 256) :
    unpackSeptet j prev cur = (cur % 2 ^ (7 - j)) * 2 ^ j + prev / 2 ^ (8 - j) := by
  unfold unpackSeptet
  have h1 := allBelow_spec _ _ ulo_table (j * 256 + cur) (by omega)
  have h2 := allBelow_spec _ _ uhi_table (j * 256 + prev) (by omega)
  have e1 : (j * 256 + cur) % 256 = cur := by omega
  have e2 : (j * 256 + cur) / 256 = j := by omega
  have e3 : (j * 256 + prev) % 256 = prev := by omega
  have e4 : (j * 256 + prev) / 256 = j := by omega
  simp only [e1, e2, beq_iff_eq] at h1
  simp only [e3, e4, beq_iff_eq] at h2
  rw [h1, h2]
  have hB : prev / 2 ^ (8 - j) < 2 ^ j := by
    apply Nat.div_lt_of_lt_mul
    have : 2 ^ (8 - j) * 2 ^ j = 256 := by
      rw [← Nat.pow_add]; have : 8 - j + j = 8 := by omega
      rw [this]
    omega
  have := Nat.two_pow_add_eq_or_of_lt hB (cur % 2 ^ (7 - j))
  rw [Nat.mul_comm (cur % 2 ^ (7 - j)), ← this]

/-! ### one block back -/

theorem packOctet_lt (j a b : Nat) (hj : j < 7) (ha : a < 128) (hb : b < 128) : packOctet j a b < 256 := by
  rw [packOctet_arith j a b hj ha hb]
  have h1 : a / 2 ^ j < 2 ^ (7 - j) := by
    apply Nat.div_lt_of_lt_mul
    have : 2 ^ j * 2 ^ (7 - j) = 128 := by
      rw [← Nat.pow_add]; have : j + (7 - j) = 7 := by omega
      rw [this]
    omega
  have h2 : b % 2 ^ (j + 1) < 2 ^ (j + 1) := Nat.mod_lt _ (Nat.pow_pos (by omega))
  have h3 : 2 ^ (j + 1) * 2 ^ (7 - j) = 256 := by
    rw [← Nat.pow_add]; have : j + 1 + (7 - j) = 8 := by omega
    rw [this]
  generalize 2 ^ (7 - j) = P at *
  generalize 2 ^ (j + 1) = Q at *
  generalize b % Q = m at *
  have : m * P + P ≤ Q * P := by
    have : (m + 1) * P ≤ Q * P := Nat.mul_le_mul_right P (by omega)
    simpa [Nat.add_mul] using this
  omega

theorem packLast_lt (j a : Nat) (hj : j < 7) (ha : a < 128) : packLast j a < 256 := by
  rw [packLast_arith j a hj ha]
  exact Nat.lt_of_le_of_lt (Nat.div_le_self _ _) (by omega)

/-- a full block: the eight septets come back from the seven octets -/
theorem unblock8 (s0 s1 s2 s3 s4 s5 s6 s7 : Nat) (h0 : s0 < 128) (h1 : s1 < 128) (h2 : s2 < 128) (h3 : s3 < 128)
    (h4 : s4 < 128) (h5 : s5 < 128) (h6 : s6 < 128) (h7 : s7 < 128) :
    packOctet 0 s0 s1 &&& 0x7F = s0 ∧
    unpackSeptet 1 (packOctet 0 s0 s1) (packOctet 1 s1 s2) = s1 ∧
    unpackSeptet 2 (packOctet 1 s1 s2) (packOctet 2 s2 s3) = s2 ∧
    unpackSeptet 3 (packOctet 2 s2 s3) (packOctet 3 s3 s4) = s3 ∧
    unpackSeptet 4 (packOctet 3 s3 s4) (packOctet 4 s4 s5) = s4 ∧
    unpackSeptet 5 (packOctet 4 s4 s5) (packOctet 5 s5 s6) = s5 ∧
    unpackSeptet 6 (packOctet 5 s5 s6) (packOctet 6 s6 s7) = s6 ∧
    (packOctet 6 s6 s7 &&& 0xFE) >>> 1 = s7 ∧
    (packOctet 6 s6 s7 > 0 ↔ ¬ (s7 = 0 ∧ s6 < 64)) := by
  have l0 := packOctet_lt 0 s0 s1 (by omega) h0 h1
  have l1 := packOctet_lt 1 s1 s2 (by omega) h1 h2
  have l2 := packOctet_lt 2 s2 s3 (by omega) h2 h3
  have l3 := packOctet_lt 3 s3 s4 (by omega) h3 h4
  have l4 := packOctet_lt 4 s4 s5 (by omega) h4 h5
  have l5 := packOctet_lt 5 s5 s6 (by omega) h5 h6
  have l6 := packOctet_lt 6 s6 s7 (by omega) h6 h7
  rw [first_arith _ l0, unpackSeptet_arith 1 _ _ (by omega) l0 l1, unpackSeptet_arith 2 _ _ (by omega) l1 l2,
    unpackSeptet_arith 3 _ _ (by omega) l2 l3, unpackSeptet_arith 4 _ _ (by omega) l3 l4,
    unpackSeptet_arith 5 _ _ (by omega) l4 l5, unpackSeptet_arith 6 _ _ (by omega) l5 l6, eighth_arith _ l6]
  rw [packOctet_arith 0 s0 s1 (by omega) h0 h1, packOctet_arith 1 s1 s2 (by omega) h1 h2,
    packOctet_arith 2 s2 s3 (by omega) h2 h3, packOctet_arith 3 s3 s4 (by omega) h3 h4,
    packOctet_arith 4 s4 s5 (by omega) h4 h5, packOctet_arith 5 s5 s6 (by omega) h5 h6,
    packOctet_arith 6 s6 s7 (by omega) h6 h7]
  refine ⟨by omega, by omega, by omega, by omega, by omega, by omega, by omega, by omega, by omega⟩

/-! ### the whole message -/

/-- the message is a whole number of blocks and its last block ends in septet 0 (`@`) after a septet
    below 64: then the seventh octet of that block is zero and `Unpack`, not knowing the septet
    count, takes it for padding -/
def endsInLostAt : List Nat → Bool
  | _ :: _ :: _ :: _ :: _ :: _ :: s6 :: s7 :: rest =>
    if rest.isEmpty then s7 == 0 && decide (s6 < 64) else endsInLostAt rest
  | _ => false

theorem packBlocks_ne_nil (s : List Nat) (h : s ≠ []) : packBlocks s ≠ [] := by
  fun_induction packBlocks s <;> simp_all

/-- **unpackBlocks ∘ packBlocks**: outside the `@` ambiguity, and when the message does not end one
    septet short of a block (that case goes through the CR rule), the septets come back -/
theorem unpackBlocks_packBlocks (s : List Nat) (h : ∀ x ∈ s, x < 128) (h7 : s.length % 8 ≠ 7)
    (ha : endsInLostAt s = false) : unpackBlocks (packBlocks s) = s := by
  fun_induction packBlocks s with
  | case1 s0 s1 s2 s3 s4 s5 s6 s7 rest ih =>
    have hr : ∀ x ∈ rest, x < 128 := fun x hx => h x (by simp [hx])
    have b := unblock8 s0 s1 s2 s3 s4 s5 s6 s7 (h _ (by simp)) (h _ (by simp)) (h _ (by simp)) (h _ (by simp))
      (h _ (by simp)) (h _ (by simp)) (h _ (by simp)) (h _ (by simp))
    obtain ⟨b0, b1, b2, b3, b4, b5, b6, b7, bz⟩ := b
    have h7' : rest.length % 8 ≠ 7 := by simp only [List.length_cons] at h7; omega
    simp only [List.cons_append, List.nil_append, unpackBlocks, b0, b1, b2, b3, b4, b5, b6, b7]
    by_cases hre : rest = []
    · subst hre
      simp only [endsInLostAt, List.isEmpty_nil, if_true, Bool.and_eq_false_iff, beq_eq_false_iff_ne,
        decide_eq_false_iff_not] at ha
      have hpos : packOctet 6 s6 s7 > 0 := bz.2 (by
        rintro ⟨a1, a2⟩
        rcases ha with h' | h'
        · exact h' a1
        · exact h' a2)
      simp [packBlocks, unpackBlocks, hpos]
    · have ha' : endsInLostAt rest = false := by
        have : rest.isEmpty = false := by cases rest <;> simp_all
        simpa [endsInLostAt, this] using ha
      have hne := packBlocks_ne_nil rest hre
      rw [if_pos (Or.inr hne), ih hr h7' ha']
      simp
  | case2 s0 s1 s2 s3 s4 s5 s6 => simp at h7
  | case3 s0 s1 s2 s3 s4 s5 =>
    have h0 := h s0 (by simp); have h1 := h s1 (by simp); have h2 := h s2 (by simp); have h3 := h s3 (by simp)
    have h4 := h s4 (by simp); have h5 := h s5 (by simp)
    have l0 := packOctet_lt 0 s0 s1 (by omega) h0 h1
    have l1 := packOctet_lt 1 s1 s2 (by omega) h1 h2
    have l2 := packOctet_lt 2 s2 s3 (by omega) h2 h3
    have l3 := packOctet_lt 3 s3 s4 (by omega) h3 h4
    have l4 := packOctet_lt 4 s4 s5 (by omega) h4 h5
    have l5 := packLast_lt 5 s5 (by omega) h5
    simp only [unpackBlocks]
    rw [first_arith _ l0, unpackSeptet_arith 1 _ _ (by omega) l0 l1, unpackSeptet_arith 2 _ _ (by omega) l1 l2,
      unpackSeptet_arith 3 _ _ (by omega) l2 l3, unpackSeptet_arith 4 _ _ (by omega) l3 l4,
      unpackSeptet_arith 5 _ _ (by omega) l4 l5]
    rw [packOctet_arith 0 s0 s1 (by omega) h0 h1, packOctet_arith 1 s1 s2 (by omega) h1 h2,
      packOctet_arith 2 s2 s3 (by omega) h2 h3, packOctet_arith 3 s3 s4 (by omega) h3 h4,
      packOctet_arith 4 s4 s5 (by omega) h4 h5, packLast_arith 5 s5 (by omega) h5]
    refine List.cons_eq_cons.2 ⟨by omega, List.cons_eq_cons.2 ⟨by omega, List.cons_eq_cons.2 ⟨by omega,
      List.cons_eq_cons.2 ⟨by omega, List.cons_eq_cons.2 ⟨by omega, List.cons_eq_cons.2 ⟨by omega, rfl⟩⟩⟩⟩⟩⟩
  | case4 s0 s1 s2 s3 s4 =>
    have h0 := h s0 (by simp); have h1 := h s1 (by simp); have h2 := h s2 (by simp); have h3 := h s3 (by simp)
    have h4 := h s4 (by simp)
    have l0 := packOctet_lt 0 s0 s1 (by omega) h0 h1
    have l1 := packOctet_lt 1 s1 s2 (by omega) h1 h2
    have l2 := packOctet_lt 2 s2 s3 (by omega) h2 h3
    have l3 := packOctet_lt 3 s3 s4 (by omega) h3 h4
    have l4 := packLast_lt 4 s4 (by omega) h4
    simp only [unpackBlocks]
    rw [first_arith _ l0, unpackSeptet_arith 1 _ _ (by omega) l0 l1, unpackSeptet_arith 2 _ _ (by omega) l1 l2,
      unpackSeptet_arith 3 _ _ (by omega) l2 l3, unpackSeptet_arith 4 _ _ (by omega) l3 l4]
    rw [packOctet_arith 0 s0 s1 (by omega) h0 h1, packOctet_arith 1 s1 s2 (by omega) h1 h2,
      packOctet_arith 2 s2 s3 (by omega) h2 h3, packOctet_arith 3 s3 s4 (by omega) h3 h4,
      packLast_arith 4 s4 (by omega) h4]
    refine List.cons_eq_cons.2 ⟨by omega, List.cons_eq_cons.2 ⟨by omega, List.cons_eq_cons.2 ⟨by omega,
      List.cons_eq_cons.2 ⟨by omega, List.cons_eq_cons.2 ⟨by omega, rfl⟩⟩⟩⟩⟩
  | case5 s0 s1 s2 s3 =>
    have h0 := h s0 (by simp); have h1 := h s1 (by simp); have h2 := h s2 (by simp); have h3 := h s3 (by simp)
    have l0 := packOctet_lt 0 s0 s1 (by omega) h0 h1
    have l1 := packOctet_lt 1 s1 s2 (by omega) h1 h2
    have l2 := packOctet_lt 2 s2 s3 (by omega) h2 h3
    have l3 := packLast_lt 3 s3 (by omega) h3
    simp only [unpackBlocks]
    rw [first_arith _ l0, unpackSeptet_arith 1 _ _ (by omega) l0 l1, unpackSeptet_arith 2 _ _ (by omega) l1 l2,
      unpackSeptet_arith 3 _ _ (by omega) l2 l3]
    rw [packOctet_arith 0 s0 s1 (by omega) h0 h1, packOctet_arith 1 s1 s2 (by omega) h1 h2,
      packOctet_arith 2 s2 s3 (by omega) h2 h3, packLast_arith 3 s3 (by omega) h3]
    refine List.cons_eq_cons.2 ⟨by omega, List.cons_eq_cons.2 ⟨by omega, List.cons_eq_cons.2 ⟨by omega,
      List.cons_eq_cons.2 ⟨by omega, rfl⟩⟩⟩⟩
  | case6 s0 s1 s2 =>
    have h0 := h s0 (by simp); have h1 := h s1 (by simp); have h2 := h s2 (by simp)
    have l0 := packOctet_lt 0 s0 s1 (by omega) h0 h1
    have l1 := packOctet_lt 1 s1 s2 (by omega) h1 h2
    have l2 := packLast_lt 2 s2 (by omega) h2
    simp only [unpackBlocks]
    rw [first_arith _ l0, unpackSeptet_arith 1 _ _ (by omega) l0 l1, unpackSeptet_arith 2 _ _ (by omega) l1 l2]
    rw [packOctet_arith 0 s0 s1 (by omega) h0 h1, packOctet_arith 1 s1 s2 (by omega) h1 h2,
      packLast_arith 2 s2 (by omega) h2]
    refine List.cons_eq_cons.2 ⟨by omega, List.cons_eq_cons.2 ⟨by omega, List.cons_eq_cons.2 ⟨by omega, rfl⟩⟩⟩
  | case7 s0 s1 =>
    have h0 := h s0 (by simp); have h1 := h s1 (by simp)
    have l0 := packOctet_lt 0 s0 s1 (by omega) h0 h1
    have l1 := packLast_lt 1 s1 (by omega) h1
    simp only [unpackBlocks]
    rw [first_arith _ l0, unpackSeptet_arith 1 _ _ (by omega) l0 l1]
    rw [packOctet_arith 0 s0 s1 (by omega) h0 h1, packLast_arith 1 s1 (by omega) h1]
    refine List.cons_eq_cons.2 ⟨by omega, List.cons_eq_cons.2 ⟨by omega, rfl⟩⟩
  | case8 s0 =>
    have h0 := h s0 (by simp)
    have l0 := packLast_lt 0 s0 (by omega) h0
    simp only [unpackBlocks]
    rw [first_arith _ l0, packLast_arith 0 s0 (by omega) h0]
    refine List.cons_eq_cons.2 ⟨by omega, rfl⟩
  | case9 => rfl

/-! ### Unpack ∘ Pack -/

theorem bitsOf_append (a b : List Nat) : bitsOf (a ++ b) = bitsOf a + 128 ^ a.length * bitsOf b := by
  induction a with
  | nil => simp [bitsOf]
  | cons x xs ih =>
    simp only [List.cons_append, bitsOf, ih, List.length_cons, Nat.pow_succ]
    generalize 128 ^ xs.length = P
    generalize bitsOf b = B
    generalize bitsOf xs = A
    rw [Nat.mul_add, ← Nat.mul_assoc, Nat.mul_comm 128 P]; omega

theorem endsInLostAt_last (t : List Nat) (h : endsInLostAt t = true) : t.getLast? = some 0 := by
  fun_induction endsInLostAt t with
  | case1 a b c d e f s6 s7 rest hre =>
    have : rest = [] := by cases rest <;> simp_all
    subst this
    simp only [Bool.and_eq_true, beq_iff_eq] at h
    simp [h.1]
  | case2 a b c d e f s6 s7 rest hre ih =>
    have hne : rest ≠ [] := by intro e'; subst e'; simp at hre
    have := ih h
    rw [← this]
    simp [List.getLast?_cons_cons, hne]
    cases rest with
    | nil => exact absurd rfl hne
    | cons x xs => simp [List.getLast?_cons_cons]
  | case3 t hx => simp at h

/-- with seven septets in the last block `Pack` is the block packing of the message with the CR filler appended -/
theorem packGo_cr (s : List Nat) (h : ∀ x ∈ s, x < 128) (hn : s.length % 8 = 7) :
    packGo s = packBlocks (s ++ [0x0D]) := by
  rw [packGo_eq_spec s h, packBlocks_eq (s ++ [0x0D]) (by
    intro x hx; simp only [List.mem_append, List.mem_singleton] at hx
    rcases hx with hx | rfl
    · exact h x hx
    · omega)]
  unfold packSpec
  simp only
  have hcr : 7 * s.length % 8 = 1 := by omega
  rw [if_pos hcr, bitsOf_append, pow128_eq]
  have e : (7 * (s ++ [0x0D]).length + 7) / 8 = (7 * s.length + 7) / 8 := by
    simp only [List.length_append, List.length_cons, List.length_nil]; omega
  rw [e]
  simp [bitsOf, Nat.mul_comm]

/-- **Unpack ∘ Pack**: what `gsm7encoding.Pack` produced, `gsm7encoding.Unpack` turns back into the
    same septets — except in the two situations in which the octets do not determine the septet
    count: a message of 8k septets ending in `@` after a septet below 64 (`endsInLostAt`), and a
    message of 8k septets ending in a real CR -/
theorem unpackGo_packGo (s : List Nat) (h : ∀ x ∈ s, x < 128) (ha : endsInLostAt s = false)
    (hcr : ¬ (s.length % 8 = 0 ∧ s.getLast? = some 0x0D)) : unpackGo (packGo s) = s := by
  by_cases hn : s.length % 8 = 7
  · rw [packGo_cr s h hn]
    have h' : ∀ x ∈ s ++ [0x0D], x < 128 := by
      intro x hx; simp only [List.mem_append, List.mem_singleton] at hx
      rcases hx with hx | rfl
      · exact h x hx
      · omega
    have hl : (s ++ [0x0D]).length % 8 ≠ 7 := by
      simp only [List.length_append, List.length_cons, List.length_nil]; omega
    have ha' : endsInLostAt (s ++ [0x0D]) = false := by
      cases hq : endsInLostAt (s ++ [0x0D]) with
      | false => rfl
      | true => have := endsInLostAt_last _ hq; simp at this
    unfold unpackGo
    simp only [unpackBlocks_packBlocks _ h' hl ha']
    have : (s.length + 1) % 8 = 0 := by omega
    simp [this]
  · have hp : packGo s = packBlocks s := by
      unfold packGo
      have : ¬ (s.length * 7) % 8 = 1 := by omega
      simp [this]
    rw [hp]
    unfold unpackGo
    simp only [unpackBlocks_packBlocks s h hn ha]
    rw [if_neg hcr]

end SmsVerif.Gsm7
