/-
  Soundness of the layout checkers, decoder side.
-/
import SmsVerif.Lemmas.LayoutEnc
import SmsVerif.Lemmas.OptParams
set_option linter.unusedSimpArgs false

namespace SmsVerif

theorem readRep_ok (n : Nat) (l : List Bytes) (h : ∀ s ∈ l, hasNul s = false ∧ s.length ≤ n)
    (rest : Bytes) (a : Nat) (acc : List Bytes) :
    ∃ a', readRep ⟨repBytes n l ++ rest, none, a⟩ n l.length acc = (acc.reverse ++ l, ⟨rest, none, a'⟩) := by
  induction l generalizing a acc with
  | nil => exact ⟨a, by simp [readRep, repBytes]⟩
  | cons x xs ih =>
    obtain ⟨hx1, hx2⟩ := h x (by simp)
    have hlen : (x ++ zeros (n - x.length)).length = n := by simp; omega
    obtain ⟨a1, h1⟩ := readCStringN_append (x ++ zeros (n - x.length)) (repBytes n xs ++ rest) a n hlen
    obtain ⟨a2, h2⟩ := ih (fun s hs => h s (by simp [hs])) a1 (x :: acc)
    refine ⟨a2, ?_⟩
    simp only [List.length_cons, readRep, repBytes, List.append_assoc] at h1 ⊢
    rw [h1, cutAtNul_append_zeros x hx1]
    simp only [h2, List.reverse_cons, List.append_assoc, List.singleton_append]

theorem pairOne_dec (e : EncOp) (d : DecOp) (it : Item) (hp : pairOne e d = some it)
    (hnt : it.isTail = false) (r : Rec) (hf : it.Fits r) (ρ : Rec)
    (hdeps : ∀ g ∈ it.deps, ρ.get? g = r.get? g) (hnil : ∀ g ∈ it.appends, ρ.strs g = [])
    (rest : Bytes) (a : Nat) (pe : Bool) :
    ∃ a' fv, it.expect r = some fv ∧
      d.run ⟨ρ, ⟨it.bytes r ++ rest, none, a⟩, pe⟩ = .ok ⟨ρ.set fv.1 fv.2, ⟨rest, none, a'⟩, pe⟩ := by
  unfold pairOne at hp
  split at hp <;> (try (split at hp)) <;> simp at hp
  all_goals (subst hp)
  -- num
  · rename_i k f k' f' hh
    obtain ⟨rfl, rfl⟩ := hh
    obtain ⟨n, hn, hlt⟩ := hf
    have : r.num f = n := by simp [Rec.num, hn]
    exact ⟨a, _, rfl, by simp [DecOp.run, Item.bytes, this, readNum_append k n rest a hlt]⟩
  · rename_i k k'' f k' f' hh
    obtain ⟨rfl, rfl, rfl⟩ := hh
    obtain ⟨n, hn, hlt⟩ := hf
    have : r.num f = n := by simp [Rec.num, hn]
    exact ⟨a, _, rfl, by simp [DecOp.run, Item.bytes, this, readNum_append k n rest a hlt]⟩
  -- cstr
  · rename_i f f' hh
    subst hh
    obtain ⟨s, hs, hn⟩ := hf
    have : r.str f = s := by simp [Rec.str, hs]
    exact ⟨a, _, rfl, by simp [DecOp.run, Item.bytes, this, List.append_assoc, readCString_append s rest a hn]⟩
  -- fixed ↔ trim
  · rename_i f n f' n' hh
    obtain ⟨rfl, rfl⟩ := hh
    obtain ⟨s, hs, hn, hl⟩ := hf
    have hstr : r.str f = s := by simp [Rec.str, hs]
    have hlen : (s ++ zeros (n - s.length)).length = n := by simp; omega
    obtain ⟨a', h⟩ := readCStringN_append (s ++ zeros (n - s.length)) rest a n hlen
    exact ⟨a', _, rfl, by simp only [DecOp.run, Item.bytes, Item.expect, hstr, h, cutAtNul_append_zeros s hn]⟩
  -- fixed ↔ raw
  · rename_i f n f' n' hh
    obtain ⟨rfl, rfl⟩ := hh
    obtain ⟨s, hs, hl⟩ := hf
    have hstr : r.str f = s := by simp [Rec.str, hs]
    obtain ⟨a', h⟩ := readCStringNRaw_append s rest a
    subst hl
    exact ⟨a', _, rfl, by simp [DecOp.run, Item.bytes, Item.expect, hstr, zeros, h]⟩
  -- fixed ↔ raw, hex out
  · rename_i f n f' n' hh
    obtain ⟨rfl, rfl⟩ := hh
    obtain ⟨s, hs, hl⟩ := hf
    have hstr : r.str f = s := by simp [Rec.str, hs]
    obtain ⟨a', h⟩ := readCStringNRaw_append s rest a
    subst hl
    exact ⟨a', _, rfl, by simp [DecOp.run, Item.bytes, Item.expect, hstr, zeros, h]⟩
  -- hex in, hex out
  · rename_i f n f' n' hh
    obtain ⟨rfl, rfl⟩ := hh
    obtain ⟨b, hs, hl, hb⟩ := hf
    have hstr : r.str f = hexEncode b := by simp [Rec.str, hs]
    obtain ⟨a', h⟩ := readCStringNRaw_append b rest a
    subst hl
    exact ⟨a', _, rfl, by simp [DecOp.run, Item.bytes, Item.expect, hstr, zeros, h, hexDecode_hexEncode b hb]⟩
  -- raw body
  · rename_i f f' l hh
    subst hh
    obtain ⟨s, hs, hl⟩ := hf
    have hstr : r.str f = s := by simp [Rec.str, hs]
    have hnum : ρ.num l = s.length := by simp [Rec.num, hdeps l (by simp [Item.deps]), hl]
    obtain ⟨a', h⟩ := readCStringNRaw_append s rest a
    exact ⟨a', _, rfl, by simp [DecOp.run, Item.bytes, Item.expect, hstr, Expr.eval, hnum, Reader.readNBytes, h]⟩
  · rename_i f l f' l' hh
    obtain ⟨rfl, rfl⟩ := hh
    obtain ⟨s, hs, hl⟩ := hf
    have hstr : r.str f = s := by simp [Rec.str, hs]
    have hnum : ρ.num l = s.length := by simp [Rec.num, hdeps l (by simp [Item.deps]), hl]
    obtain ⟨a', h⟩ := readCStringNRaw_append s rest a
    exact ⟨a', _, rfl, by simp [DecOp.run, Item.bytes, Item.expect, hstr, Expr.eval, hnum, Reader.readNBytes, h]⟩
  -- lists
  · rename_i f n f' c n' hh
    obtain ⟨rfl, rfl⟩ := hh
    obtain ⟨l, hs, hc, hall⟩ := hf
    have hstr : r.strs f = l := by simp [Rec.strs, hs]
    have hnum : ρ.num c = l.length := by simp [Rec.num, hdeps c (by simp [Item.deps]), hc]
    obtain ⟨a', h⟩ := readRep_ok n l hall rest (a + l.length) []
    exact ⟨a', _, rfl, by simp [DecOp.run, Item.bytes, Item.expect, hstr, Expr.eval, hnum, h]⟩
  · rename_i f n f' c n' hh
    obtain ⟨rfl, rfl⟩ := hh
    obtain ⟨l, hs, hc, hall⟩ := hf
    have hstr : r.strs f = l := by simp [Rec.strs, hs]
    have hnum : ρ.num c = l.length := by simp [Rec.num, hdeps c (by simp [Item.deps]), hc]
    have hn : ρ.strs f = [] := hnil f (by simp [Item.appends])
    obtain ⟨a', h⟩ := readRep_ok n l hall rest a []
    exact ⟨a', _, rfl, by simp [DecOp.run, Item.bytes, Item.expect, hstr, Expr.eval, hnum, h, hn]⟩
  · rename_i f c n f' c' n' hh
    obtain ⟨rfl, rfl, rfl⟩ := hh
    obtain ⟨l, hs, hc, hall⟩ := hf
    have hstr : r.strs f = l := by simp [Rec.strs, hs]
    have hnum : ρ.num c = l.length := by simp [Rec.num, hdeps c (by simp [Item.deps]), hc]
    obtain ⟨a', h⟩ := readRep_ok n l hall rest (a + l.length) []
    exact ⟨a', _, rfl, by simp [DecOp.run, Item.bytes, Item.expect, hstr, Expr.eval, hnum, h]⟩
  · rename_i f c n f' c' n' hh
    obtain ⟨rfl, rfl, rfl⟩ := hh
    obtain ⟨l, hs, hc, hall⟩ := hf
    have hstr : r.strs f = l := by simp [Rec.strs, hs]
    have hnum : ρ.num c = l.length := by simp [Rec.num, hdeps c (by simp [Item.deps]), hc]
    have hn : ρ.strs f = [] := hnil f (by simp [Item.appends])
    obtain ⟨a', h⟩ := readRep_ok n l hall rest a []
    exact ⟨a', _, rfl, by simp [DecOp.run, Item.bytes, Item.expect, hstr, Expr.eval, hnum, h, hn]⟩
  -- tails are excluded here
  · simp [Item.isTail] at hnt
  · simp [Item.isTail] at hnt

end SmsVerif

namespace SmsVerif

/-- the PDU value after the decoder has assigned every item's field, in order -/
def applyExpect (r : Rec) : List Item → Rec → Rec
  | [], ρ => ρ
  | it :: rest, ρ => applyExpect r rest (match it.expect r with | some fv => ρ.set fv.1 fv.2 | none => ρ)

theorem expect_sets (it : Item) (r : Rec) (fv : String × Val) (h : it.expect r = some fv) :
    it.sets = [fv.1] := by
  cases it <;> simp [Item.expect] at h <;> subst h <;> simp [Item.sets, Item.mentions]

theorem expect_exact_fits (it : Item) (r : Rec) (fv : String × Val) (hx : it.exact = true)
    (hf : it.Fits r) (h : it.expect r = some fv) : r.get? fv.1 = some fv.2 := by
  cases it <;> simp [Item.expect] at h <;> (try subst h) <;> simp [Item.exact] at hx <;>
    simp only [Item.Fits] at hf
  · obtain ⟨n, hn, _⟩ := hf; simp [Rec.num, hn]
  · obtain ⟨s, hs, _⟩ := hf; simp [Rec.str, hs]
  · obtain ⟨s, hs, _⟩ := hf; simp [Rec.str, hs]
  · obtain ⟨s, hs, _⟩ := hf; simp [Rec.str, hs]
  · obtain ⟨s, hs, _⟩ := hf; simp [Rec.str, hs]
  · obtain ⟨s, hs, _⟩ := hf; simp [Rec.str, hs]
  · obtain ⟨s, hs, _⟩ := hf; simp [Rec.strs, hs]
  · obtain ⟨s, hs, _⟩ := hf; simp [Rec.tlvs, hs]

theorem pairOps_nil (es : List EncOp) (ds : List DecOp) (h : pairOps es ds = some []) : es = [] ∧ ds = [] := by
  fun_induction pairOps es ds with
  | case1 => exact ⟨rfl, rfl⟩
  | case2 => simp at h
  | case3 => simp at h
  | case4 => simp at h
  | case5 e es d ds _ _ hpo => simp [hpo] at h
  | case6 => simp at h

/-- the optional-parameter tail: the decoder statement applied to exactly the serialised set -/
theorem pairOne_dec_tail (e : EncOp) (d : DecOp) (it : Item) (hp : pairOne e d = some it)
    (ht : it.isTail = true) (r : Rec) (hf : it.Fits r) (ρ : Rec) (a : Nat) (pe : Bool) :
    ∃ rd' fv, rd'.err = none ∧ it.expect r = some fv ∧
      d.run ⟨ρ, ⟨it.bytes r, none, a⟩, pe⟩ = .ok ⟨ρ.set fv.1 fv.2, rd', pe⟩ := by
  unfold pairOne at hp
  split at hp <;> (try (split at hp)) <;> simp at hp
  all_goals (subst hp)
  all_goals (try (simp [Item.isTail] at ht; done))
  · rename_i f f' hh
    subst hh
    obtain ⟨l, hl, hn, hb⟩ := hf
    have hstr : r.tlvs f = l := by simp [Rec.tlvs, hl]
    obtain ⟨h1, h2⟩ := readTlvs_ser l a hn hb
    exact ⟨_, _, h2, rfl, by simp [DecOp.run, Item.bytes, Item.expect, hstr, h1]⟩
  · rename_i f f' hh
    subst hh
    obtain ⟨l, hl, hn, hb⟩ := hf
    have hstr : r.tlvs f = l := by simp [Rec.tlvs, hl]
    exact ⟨⟨tlvsBytes l, none, a⟩, _, rfl, rfl, by simp [DecOp.run, Item.bytes, Item.expect, hstr, Reader.bytes, parseOptions_ser l hn hb]⟩

theorem tailLast_cons {it : Item} {its : List Item} (h : tailLast (it :: its) = true) :
    (it.isTail = true → its = []) ∧ tailLast its = true := by
  cases its with
  | nil => simp [tailLast]
  | cons x xs =>
    simp only [tailLast, Bool.and_eq_true, Bool.not_eq_true'] at h
    exact ⟨fun ht => by simp [ht] at h, h.2⟩

/-- **decoder soundness** : fed the items' octets (followed by anything when there is no optional
    tail), the aligned decoder statements record no error and assign each item's field its
    expected value. -/
theorem runDec_items (es : List EncOp) (ds : List DecOp) (its : List Item)
    (hp : pairOps es ds = some its) (htl : tailLast its = true)
    (r : Rec) (hf : ∀ it ∈ its, it.Fits r)
    (seen touched : List String) (hok : decOK seen touched its = true)
    (ρ0 ρ : Rec) (h0 : ∀ g, ρ0.strs g = [])
    (hseen : ∀ g ∈ seen, ρ.get? g = r.get? g) (htouched : ∀ g, g ∉ touched → ρ.get? g = ρ0.get? g)
    (rest : Bytes) (hrest : its.any Item.isTail = true → rest = []) (a : Nat) (pe : Bool) :
    ∃ rd', rd'.err = none ∧ runDec ds ⟨ρ, ⟨itemsBytes r its ++ rest, none, a⟩, pe⟩
      = .ok ⟨applyExpect r its ρ, rd', pe⟩ := by
  fun_induction pairOps es ds generalizing its seen touched ρ a with
  | case1 =>
    simp at hp; subst hp
    exact ⟨⟨rest, none, a⟩, rfl, by simp [runDec, applyExpect, itemsBytes]⟩
  | case2 f e es ds ih =>
    simp only [Option.map_eq_some_iff] at hp
    obtain ⟨its', hp', rfl⟩ := hp
    simp only [decOK, Item.deps, Item.appends, Item.exact, Item.sets, List.all_nil, Bool.true_and,
      if_true, List.nil_append] at hok
    have := ih its' hp' (tailLast_cons htl).2 (fun it h => hf it (by simp [h]))
      seen touched hok ρ hseen htouched (fun h => hrest (by simp [h])) a
    simpa [itemsBytes_cons, Item.bytes, applyExpect, Item.expect] using this
  | case3 c as es ds ih =>
    simp only [Option.map_eq_some_iff] at hp
    obtain ⟨its', hp', rfl⟩ := hp
    simp only [decOK, Item.deps, Item.appends, Item.exact, Item.sets, List.all_nil, Bool.true_and,
      if_true, List.nil_append] at hok
    have := ih its' hp' (tailLast_cons htl).2 (fun it h => hf it (by simp [h]))
      seen touched hok ρ hseen htouched (fun h => hrest (by simp [h])) a
    simpa [itemsBytes_cons, Item.bytes, applyExpect, Item.expect] using this
  | case4 e es d ds hne1 hne2 it hpo ih =>
    simp only [Option.map_eq_some_iff] at hp
    obtain ⟨its', hp', rfl⟩ := hp
    by_cases htail : it.isTail = true
    · -- the tail is the last item and the input ends with it
      have hnil : its' = [] := (tailLast_cons htl).1 htail
      subst hnil
      obtain ⟨rfl, rfl⟩ := pairOps_nil es ds hp'
      have hr : rest = [] := hrest (by simp [htail])
      subst hr
      obtain ⟨rd', fv, herr, hexp, hrun⟩ := pairOne_dec_tail e d it hpo htail r (hf it (by simp)) ρ a pe
      exact ⟨rd', herr, by simp [runDec, itemsBytes, hrun, applyExpect, hexp]⟩
    · have htail' : it.isTail = false := by simpa using htail
      simp only [decOK, Bool.and_eq_true, List.all_eq_true] at hok
      obtain ⟨⟨hdeps, happ⟩, hrest'⟩ := hok
      have hd : ∀ g ∈ it.deps, ρ.get? g = r.get? g := fun g hg =>
        hseen g (by simpa using hdeps g hg)
      have hn : ∀ g ∈ it.appends, ρ.strs g = [] := fun g hg => by
        have : g ∉ touched := by simpa using happ g hg
        rw [strs_congr (htouched g this)]; exact h0 g
      obtain ⟨a1, fv, hexp, hrun⟩ := pairOne_dec e d it hpo htail' r (hf it (by simp)) ρ hd hn
        (itemsBytes r its' ++ rest) a pe
      have hsets := expect_sets it r fv hexp
      have hseen' : ∀ g ∈ (if it.exact = true then it.sets ++ seen
          else seen.filter (fun g => !it.sets.contains g)), (ρ.set fv.1 fv.2).get? g = r.get? g := by
        intro g hg
        by_cases hx : it.exact = true
        · simp only [hx, if_true, hsets, List.cons_append, List.nil_append, List.mem_cons] at hg
          by_cases hgf : g = fv.1
          · subst hgf
            rw [Rec.get?_set_self, expect_exact_fits it r fv hx (hf it (by simp)) hexp]
          · rw [Rec.get?_set_ne _ _ _ _ hgf]
            rcases hg with h | h
            · exact absurd h hgf
            · exact hseen g h
        · have hx' : it.exact = false := by simpa using hx
          simp only [hx', hsets, Bool.false_eq_true, if_false, List.mem_filter] at hg
          have hgf : g ≠ fv.1 := by
            intro h; subst h; simp at hg
          rw [Rec.get?_set_ne _ _ _ _ hgf]
          exact hseen g hg.1
      have htouched' : ∀ g, g ∉ it.sets ++ touched → (ρ.set fv.1 fv.2).get? g = ρ0.get? g := by
        intro g hg
        simp only [hsets, List.cons_append, List.nil_append, List.mem_cons, not_or] at hg
        rw [Rec.get?_set_ne _ _ _ _ hg.1]
        exact htouched g hg.2
      obtain ⟨rd', herr, h2⟩ := ih its' hp' (tailLast_cons htl).2 (fun x h => hf x (by simp [h]))
        _ _ hrest' (ρ.set fv.1 fv.2) hseen' htouched' (fun h => hrest (by simp [h])) a1
      refine ⟨rd', herr, ?_⟩
      simp only [runDec, itemsBytes_cons, List.append_assoc, hrun, applyExpect, hexp, h2]
  | case5 e es d ds hne1 hne2 hpo => simp [hpo] at hp
  | case6 es ds h1 h2 h3 h4 => simp at hp

end SmsVerif
