/-
  `roundtrip_sound`: the reflection theorem behind C01 / C11 / C15.  Proved once, for every
  layout description; the per-PDU obligations are closed boolean evaluations of
  `PduDesc.checkRoundTrip` on the regenerated `Gen` data.
-/
import SmsVerif.Lemmas.LayoutDec
set_option linter.unusedSimpArgs false

namespace SmsVerif

/-! ### what `applyExpect` leaves in each field -/

theorem applyExpect_untouched (r : Rec) (its : List Item) (ρ : Rec) (g : String)
    (h : g ∉ allSets its) : (applyExpect r its ρ).get? g = ρ.get? g := by
  induction its generalizing ρ with
  | nil => rfl
  | cons it rest ih =>
    simp only [allSets, List.flatMap_cons, List.mem_append, not_or] at h
    simp only [applyExpect]
    rw [ih _ (by simpa [allSets] using h.2)]
    cases hexp : it.expect r with
    | none => rfl
    | some fv =>
      have := expect_sets it r fv hexp
      have hg : g ≠ fv.1 := by
        intro e; apply h.1; simp [this, e]
      simp [Rec.get?_set_ne _ _ _ _ hg]

theorem applyExpect_exact (r : Rec) (its : List Item) (ρ : Rec)
    (hx : ∀ it ∈ its, it.exact = true) (hf : ∀ it ∈ its, it.Fits r) (g : String)
    (h : g ∈ allSets its) : (applyExpect r its ρ).get? g = r.get? g := by
  induction its generalizing ρ with
  | nil => simp [allSets] at h
  | cons it rest ih =>
    simp only [applyExpect]
    by_cases hr : g ∈ allSets rest
    · exact ih _ (fun x hx' => hx x (by simp [hx'])) (fun x hx' => hf x (by simp [hx'])) hr
    · rw [applyExpect_untouched r rest _ g hr]
      have hit : g ∈ it.sets := by
        simp only [allSets, List.flatMap_cons, List.mem_append] at h
        rcases h with h | h
        · exact h
        · exact absurd (by simpa [allSets] using h) hr
      cases hexp : it.expect r with
      | none =>
        cases it <;> simp [Item.expect] at hexp
        simp [Item.sets] at hit
      | some fv =>
        have hs := expect_sets it r fv hexp
        have : g = fv.1 := by simpa [hs] using hit
        subst this
        simp [Rec.get?_set_self, expect_exact_fits it r fv (hx it (by simp)) (hf it (by simp)) hexp]

/-! ### sizes -/

theorem repBytes_length_ge (n : Nat) (l : List Bytes) : 0 ≤ (repBytes n l).length := Nat.zero_le _

theorem Item.bytes_length_ge (it : Item) (r : Rec) (hf : it.Fits r) : it.minLen ≤ (it.bytes r).length := by
  cases it <;> simp only [Item.minLen, Item.bytes, Item.Fits] at * <;> try (simp; done)
  all_goals (simp; try omega)

theorem itemsBytes_length_ge (its : List Item) (r : Rec) (hf : ∀ it ∈ its, it.Fits r) :
    sumMinLen its ≤ (itemsBytes r its).length := by
  induction its with
  | nil => simp [sumMinLen]
  | cons it rest ih =>
    have h1 := it.bytes_length_ge r (hf it (by simp))
    have h2 := ih (fun x hx => hf x (by simp [hx]))
    simp only [sumMinLen, itemsBytes_cons, List.length_append]
    omega

/-! ### fresh PDU values -/

theorem fresh_strs_nil (p : PduDesc) (g : String) : p.fresh.strs g = [] := by
  unfold PduDesc.fresh Rec.strs
  generalize p.fields = fs
  induction fs with
  | nil => simp [Rec.get?]
  | cons ft rest ih =>
    obtain ⟨f, t⟩ := ft
    simp only [List.map_cons, Rec.get?]
    by_cases hfg : f = g
    · simp only [hfg, if_true]
      cases t <;> simp [FTy.zero]
    · simpa [hfg] using ih

/-! ### the wire image -/

/-- the octets `IEncode` emits for the normalised receiver `r'` -/
def wire (p : PduDesc) (its : List Item) (r' : Rec) : Bytes :=
  match p.fin with
  | .plain => itemsBytes r' its
  | .withLength => be 4 ((itemsBytes r' its).length + 4) ++ itemsBytes r' its

theorem runDec_guard (n : Nat) (ds : List DecOp) (st : DecState) :
    runDec (.guard n :: ds) st = runDec ds st := by simp [runDec, DecOp.run]

theorem guardOf_decBody (ds : List DecOp) (st : DecState) : runDec ds st = runDec (decBody ds) st := by
  cases ds with
  | nil => rfl
  | cons d rest =>
    cases d <;> first | rfl | (simp [decBody, runDec_guard])

theorem encode_items (p : PduDesc) (lf : String) (its : List Item) (hits : p.items = some (lf, its))
    (hasg : asgOK its = true) (r : Rec) (hf : ∀ it ∈ its, it.Fits (norm its r)) :
    p.encode r = .ok (wire p its (norm its r), norm its r) := by
  unfold PduDesc.items at hits
  have hpair : ∃ ds, pairOps p.enc ds = some its := by
    split at hits
    · rename_i lf' ds _ _
      simp only [Option.map_eq_some_iff, Prod.mk.injEq] at hits
      obtain ⟨its', h1, _, rfl⟩ := hits
      exact ⟨ds, h1⟩
    · rename_i ds _
      simp only [Option.map_eq_some_iff, Prod.mk.injEq] at hits
      obtain ⟨its', h1, _, rfl⟩ := hits
      exact ⟨_, h1⟩
    · simp at hits
  obtain ⟨ds, hp⟩ := hpair
  have hrun := runEnc_items p.enc ds its hp hasg r hf {} rfl
  unfold PduDesc.encode wire
  rw [hrun]
  cases hfin : p.fin with
  | plain => simp [Writer.bytes, Writer.app]
  | withLength => simp [Writer.bytesWithLength, Writer.app, zeros]

/-- the expected decoding of a PDU encoded from the normalised receiver `r'` -/
def expected (p : PduDesc) (lf : String) (its : List Item) (r' : Rec) : Rec :=
  match p.fin with
  | .plain => applyExpect r' its p.fresh
  | .withLength => applyExpect r' its (p.fresh.set lf (.num ((itemsBytes r' its).length + 4)))

theorem decode_items (p : PduDesc) (lf : String) (its : List Item) (hits : p.items = some (lf, its))
    (hdec : decOK [] (if p.fin = .withLength then [lf] else []) its = true)
    (htl : tailLast its = true)
    (hguard : guardOf p.dec ≤ sumMinLen its + (if p.fin = .withLength then 4 else 0))
    (hns : p.dec.all (fun d => !d.isStop) = true)
    (r' : Rec) (hf : ∀ it ∈ its, it.Fits r') (hsize : (itemsBytes r' its).length + 4 < 2 ^ 32) :
    p.decode (wire p its r') = .ok (expected p lf its r') := by
  have hlen := itemsBytes_length_ge its r' hf
  have hfilt : (decBody p.dec).filter (fun d => !d.isStop) = decBody p.dec := by
    apply List.filter_eq_self.2
    intro d hd
    have hmem : d ∈ p.dec := by
      cases hpd : p.dec with
      | nil => rw [hpd] at hd; simp [decBody] at hd
      | cons x xs =>
        rw [hpd] at hd
        cases x <;> simp only [decBody] at hd <;> first | exact hd | exact List.mem_cons_of_mem _ hd
    exact List.all_eq_true.1 hns d hmem
  unfold PduDesc.items at hits
  rw [hfilt] at hits
  unfold PduDesc.decode PduDesc.decodeInto wire expected
  split at hits
  · -- length-prefixed
    rename_i lf' ds hfin hbody
    simp only [Option.map_eq_some_iff, Prod.mk.injEq] at hits
    obtain ⟨its', hp, rfl, rfl⟩ := hits
    simp only [hfin, if_true] at hdec hguard ⊢
    have hg : ¬ (be 4 ((itemsBytes r' its').length + 4) ++ itemsBytes r' its').length < guardOf p.dec := by
      simp; omega
    rw [if_neg hg, guardOf_decBody, hbody]
    have hnum : Reader.readNum ⟨be 4 ((itemsBytes r' its').length + 4) ++ itemsBytes r' its', none, 0⟩ 4
        = ((itemsBytes r' its').length + 4, ⟨itemsBytes r' its', none, 0⟩) :=
      readNum_append 4 _ _ 0 (by simpa using hsize)
    obtain ⟨rd', herr, hrun⟩ := runDec_items p.enc ds its' hp htl r' hf [] [lf'] hdec p.fresh
      (p.fresh.set lf' (.num ((itemsBytes r' its').length + 4))) (fresh_strs_nil p)
      (fun g hg => by simp at hg)
      (fun g hg => by
        have : g ≠ lf' := by simpa using hg
        exact Rec.get?_set_ne _ _ _ _ this)
      [] (fun _ => rfl) 0 false
    simp only [List.append_nil] at hrun
    simp only [runDec, DecOp.run, hnum, hrun, herr]
    cases p.ret <;> simp
  · -- hand-computed length, written as an ordinary field
    rename_i ds hfin
    simp only [Option.map_eq_some_iff, Prod.mk.injEq] at hits
    obtain ⟨its', hp, _, rfl⟩ := hits
    simp only [hfin, reduceCtorEq, if_false, Nat.add_zero] at hdec hguard ⊢
    have hg : ¬ (itemsBytes r' its').length < guardOf p.dec := by omega
    rw [if_neg hg, guardOf_decBody]
    obtain ⟨rd', herr, hrun⟩ := runDec_items p.enc (decBody p.dec) its' hp htl r' hf [] [] hdec p.fresh
      p.fresh (fresh_strs_nil p) (fun g hg => by simp at hg) (fun g _ => rfl)
      [] (fun _ => rfl) 0 false
    simp only [List.append_nil] at hrun
    simp only [hrun, herr]
    cases p.ret <;> simp
  · simp at hits

/-- **roundtrip_sound** (reflection theorem).  If the checker accepts a layout description, then
    for every PDU value `r` whose normal form `r'` (the receiver as `IEncode` leaves it) fits the
    wire format: `IEncode` succeeds and leaves `r'`; decoding the produced octets into a fresh PDU
    succeeds; every struct field of the decoded PDU equals the field of `r'`, except the header
    length field of a length-prefixed PDU, which holds the real number of octets. -/
theorem roundtrip_sound (p : PduDesc) (h : p.checkRoundTrip = true) :
    ∃ lf its, p.items = some (lf, its) ∧ ∀ r : Rec,
      (∀ it ∈ its, it.Fits (norm its r)) → (itemsBytes (norm its r) its).length + 4 < 2 ^ 32 →
      ∃ bs dec, p.encode r = .ok (bs, norm its r) ∧ p.decode bs = .ok dec ∧
        ∀ ft ∈ p.fields,
          dec.get? ft.1 = (if p.fin = .withLength ∧ ft.1 = lf then some (.num bs.length)
                           else (norm its r).get? ft.1) := by
  unfold PduDesc.checkRoundTrip at h
  simp only [Bool.and_eq_true] at h
  obtain ⟨hunsup, hmatch⟩ := h
  cases hitems : p.items with
  | none => simp [hitems] at hmatch
  | some pr =>
    obtain ⟨lf, its⟩ := pr
    simp only [hitems, Bool.and_eq_true, decide_eq_true_eq, List.all_eq_true, Bool.or_eq_true,
      Bool.not_eq_true', beq_iff_eq] at hmatch
    obtain ⟨⟨⟨⟨⟨⟨⟨hasg, hdec⟩, htl⟩, hexact⟩, hlf⟩, hcov⟩, hguard⟩, hns⟩ := hmatch
    refine ⟨lf, its, rfl, fun r hf hsize => ?_⟩
    refine ⟨wire p its (norm its r), expected p lf its (norm its r),
      encode_items p lf its hitems hasg r hf,
      decode_items p lf its hitems hdec htl hguard (by simpa [List.all_eq_true] using hns) (norm its r) hf hsize, ?_⟩
    intro ft hft
    have hc := hcov ft hft
    unfold expected wire
    cases hfin : p.fin with
    | plain =>
      simp only [hfin, reduceCtorEq, false_and, false_or] at hc
      simp only [reduceCtorEq, false_and, if_false]
      exact applyExpect_exact _ its _ hexact hf _ (by simpa using hc)
    | withLength =>
      simp only [hfin, true_and] at hc hlf
      simp only [true_and]
      by_cases hl : ft.1 = lf
      · have hnot : ft.1 ∉ allSets its := by
          rcases hlf with h | h
          · simp at h
          · rw [hl]; simpa using h
        simp only [hl, if_true]
        rw [← hl, applyExpect_untouched _ its _ _ hnot, hl, Rec.get?_set_self]
        simp [Nat.add_comm]
      · simp only [hl, if_false]
        rcases hc with hc | hc
        · exact absurd hc hl
        · exact applyExpect_exact _ its _ hexact hf _ (by simpa using hc)

end SmsVerif
