/-
  Converse of `parseOptionsLoop_seq` / `readTlvLoop_seq`: whatever `smgp.ParseOptions` accepts IS a
  well-formed triplet sequence (no trailing octets, no truncated triplet), and the container it
  returns is the last-wins fold of exactly those triplets.
-/
import SmsVerif.Lemmas.OptParams

namespace SmsVerif

theorem be2_fromBe (x y : Nat) (hx : x < 256) (hy : y < 256) : be 2 (fromBe [x, y]) = [x, y] := by
  simp [be, fromBe]
  omega

theorem fromBe2_lt (x y : Nat) (hx : x < 256) (hy : y < 256) : fromBe [x, y] < 65536 := by
  simp [fromBe]
  omega

theorem parseOptionsLoop_conv : ∀ (fuel : Nat) (bs : Bytes) (m res : TlvMap),
    bs.length < fuel → (∀ b ∈ bs, b < 256) → parseOptionsLoop fuel bs m = some res →
    ∃ seq : TlvMap, (∀ tv ∈ seq, tv.1 < 65536 ∧ tv.2.length < 65536) ∧ bs = tlvsBytes seq ∧
      res = upsertAll m seq := by
  intro fuel
  induction fuel with
  | zero => intro bs m res h; simp at h
  | succ fuel ih =>
    intro bs m res hfuel hb h
    match bs, hfuel, hb, h with
    | [], _, _, h =>
      simp [parseOptionsLoop] at h
      exact ⟨[], by simp, by simp [tlvsBytes], by simp [upsertAll, h]⟩
    | [_], _, _, h => simp [parseOptionsLoop] at h
    | [_, _], _, _, h => simp [parseOptionsLoop] at h
    | [_, _, _], _, _, h => simp [parseOptionsLoop] at h
    | x :: y :: z :: w :: rest, hfuel, hb, h =>
      have hx : x < 256 := hb x (by simp)
      have hy : y < 256 := hb y (by simp)
      have hz : z < 256 := hb z (by simp)
      have hw : w < 256 := hb w (by simp)
      rw [parseOptionsLoop] at h
      simp only [List.isEmpty_cons, Bool.false_eq_true, if_false, List.length_cons] at h
      have e0 : ¬ (rest.length + 1 + 1 + 1 + 1 < 4) := by omega
      simp only [e0, if_false] at h
      have e1 : (x :: y :: z :: w :: rest).take 2 = [x, y] := rfl
      have e2 : ((x :: y :: z :: w :: rest).drop 2).take 2 = [z, w] := rfl
      have e3 : (x :: y :: z :: w :: rest).drop 4 = rest := rfl
      simp only [e1, e2, e3] at h
      by_cases hl : rest.length < fromBe [z, w]
      · simp [hl] at h
      · simp only [hl, if_false] at h
        have hlen : (rest.take (fromBe [z, w])).length = fromBe [z, w] := by
          simp; omega
        have hfuel' : (rest.drop (fromBe [z, w])).length < fuel := by
          simp at hfuel ⊢; omega
        obtain ⟨seq, hwf, hbs, hres⟩ := ih (rest.drop (fromBe [z, w])) _ res hfuel'
          (fun b hbm => hb b (by
            have := List.mem_of_mem_drop hbm
            simp [this])) h
        refine ⟨(fromBe [x, y], rest.take (fromBe [z, w])) :: seq, ?_, ?_, ?_⟩
        · intro tv htv
          rcases List.mem_cons.1 htv with rfl | h'
          · exact ⟨fromBe2_lt x y hx hy, by rw [hlen]; exact fromBe2_lt z w hz hw⟩
          · exact hwf tv h'
        · have hsmall := tlvBytes_small (fromBe [x, y]) (rest.take (fromBe [z, w]))
            (by rw [hlen]; exact fromBe2_lt z w hz hw)
          simp only [tlvsBytes, List.map_cons, List.flatten_cons]
          rw [hsmall, hlen, be2_fromBe x y hx hy, be2_fromBe z w hz hw]
          have : rest = rest.take (fromBe [z, w]) ++ rest.drop (fromBe [z, w]) :=
            (List.take_append_drop _ _).symm
          simp only [tlvsBytes] at hbs
          rw [← hbs]
          simp [List.take_append_drop]
        · simpa [upsertAll] using hres

/-- `smgp.ParseOptions` accepts exactly the well-formed triplet sequences. -/
theorem parseOptions_conv (bs : Bytes) (m : TlvMap) (hb : ∀ b ∈ bs, b < 256)
    (h : parseOptions bs = some m) :
    ∃ seq : TlvMap, (∀ tv ∈ seq, tv.1 < 65536 ∧ tv.2.length < 65536) ∧ bs = tlvsBytes seq ∧
      m = upsertAll [] seq :=
  parseOptionsLoop_conv (bs.length + 1) bs [] m (by omega) hb (by simpa [parseOptions] using h)

end SmsVerif
