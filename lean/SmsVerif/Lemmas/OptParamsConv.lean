/-
  Converse of `parseOptionsLoop_seq` / `readTlvLoop_seq`: whatever `smgp.ParseOptions` accepts IS a
  well-formed triplet sequence (no trailing octets, no truncated triplet), and the container it
  returns is the last-wins fold of exactly those triplets.
-/
import SmsVerif.Lemmas.OptParams

namespace SmsVerif

theorem be2_fromBe (x y : Nat) (hx : x < 256) (hy : y < 256) : be 2 (fromBe [x, y]) = [x, y] := by
  simp [be, fromBe]
  omega

theorem fromBe2_lt (x y : Nat) (hx : x < 256) (hy : y < 256) : fromBe [x, y] < 65536 := by
  simp [fromBe]
  omega

theorem parseOptionsLoop_conv : ∀ (fuel : Nat) (bs : Bytes) (m res : TlvMap),
    bs.length < fuel → (∀ b ∈ bs, b < 256) → parseOptionsLoop fuel bs m = some res →
    ∃ seq : TlvMap, (∀ tv ∈ seq, tv.1 < 65536 ∧ tv.2.length < 65536) ∧ bs = tlvsBytes seq ∧
      res = upsertAll m seq := by
  intro fuel
  induction fuel with
  | zero => intro bs m res h; simp at h
  | succ fuel ih =>
    intro bs m res hfuel hb h
    match bs, hfuel, hb, h with
    | [], _, _, h =>
      simp [parseOptionsLoop] at h
      exact ⟨[], by simp, by simp [tlvsBytes], by simp [upsertAll, h]⟩
    | [_], _, _, h => simp [parseOptionsLoop] at h
    | [_, _], _, _, h => simp [parseOptionsLoop] at h
    | [_, _, _], _, _, h => simp [parseOptionsLoop] at h
    | x :: y :: z :: w :: rest, hfuel, hb, h =>
      have hx : x < 256 := hb x (by simp)
      have hy : y < 256 := hb y (by simp)
      have hz : z < 256 := hb z (by simp)
      have hw : w < 256 := hb w (by simp)
      rw [parseOptionsLoop] at h
      simp only [List.isEmpty_cons, Bool.false_eq_true, if_false, List.length_cons] at h
      have e0 : ¬ (rest.length + 1 + 1 + 1 + 1 < 4) := by omega
      simp only [e0, if_false] at h
      have e1 : (x :: y :: z :: w :: rest).take 2 = [x, y] := rfl
      have e2 : ((x :: y :: z :: w :: rest).drop 2).take 2 = [z, w] := rfl
      have e3 : (x :: y :: z :: w :: rest).drop 4 = rest := rfl
      simp only [e1, e2, e3] at h
      by_cases hl : rest.length < fromBe [z, w]
      · simp [hl] at h
      · simp only [hl, if_false] at h
        have hlen : (rest.take (fromBe [z, w])).length = fromBe [z, w] := by
          simp; omega
        have hfuel' : (rest.drop (fromBe [z, w])).length < fuel := by
          simp at hfuel ⊢; omega
        obtain ⟨seq, hwf, hbs, hres⟩ := ih (rest.drop (fromBe [z, w])) _ res hfuel'
          (fun b hbm => hb b (by
            have := List.mem_of_mem_drop hbm
            simp [this])) h
        refine ⟨(fromBe [x, y], rest.take (fromBe [z, w])) :: seq, ?_, ?_, ?_⟩
        · intro tv htv
          rcases List.mem_cons.1 htv with rfl | h'
          · exact ⟨fromBe2_lt x y hx hy, by rw [hlen]; exact fromBe2_lt z w hz hw⟩
          · exact hwf tv h'
        · have hsmall := tlvBytes_small (fromBe [x, y]) (rest.take (fromBe [z, w]))
            (by rw [hlen]; exact fromBe2_lt z w hz hw)
          simp only [tlvsBytes, List.map_cons, List.flatten_cons]
          rw [hsmall, hlen, be2_fromBe x y hx hy, be2_fromBe z w hz hw]
          have : rest = rest.take (fromBe [z, w]) ++ rest.drop (fromBe [z, w]) :=
            (List.take_append_drop _ _).symm
          simp only [tlvsBytes] at hbs
          rw [← hbs]
          simp [List.take_append_drop]
        · simpa [upsertAll] using hres

/-- `smgp.ParseOptions` accepts exactly the well-formed triplet sequences. -/
theorem parseOptions_conv (bs : Bytes) (m : TlvMap) (hb : ∀ b ∈ bs, b < 256)
    (h : parseOptions bs = some m) :
    ∃ seq : TlvMap, (∀ tv ∈ seq, tv.1 < 65536 ∧ tv.2.length < 65536) ∧ bs = tlvsBytes seq ∧
      m = upsertAll [] seq :=
  parseOptionsLoop_conv (bs.length + 1) bs [] m (by omega) hb (by simpa [parseOptions] using h)

end SmsVerif

namespace SmsVerif

theorem readBytes_ok' (r : Reader) (n : Nat) (h0 : r.err = none) (h1 : (r.readBytes n).2.err = none) :
    (r.readBytes n).1 = r.rest.take n ∧ (r.readBytes n).2.rest = r.rest.drop n ∧ n ≤ r.rest.length := by
  unfold Reader.readBytes at h1 ⊢
  simp only [h0] at h1 ⊢
  split
  · rename_i hn; subst hn; simp
  · rename_i hn
    rw [if_neg hn] at h1
    split
    · rename_i he; rw [if_pos he] at h1; simp at h1
    · rename_i he
      rw [if_neg he] at h1
      split
      · rename_i hl; rw [if_pos hl] at h1; simp at h1
      · rename_i hl; exact ⟨rfl, rfl, by omega⟩

theorem four_bytes (hd : Bytes) (h : hd.length = 4) (hb : ∀ b ∈ hd, b < 256) :
    be 2 (fromBe (hd.take 2)) ++ be 2 (fromBe (hd.drop 2)) = hd ∧ fromBe (hd.take 2) < 65536 ∧
      fromBe (hd.drop 2) < 65536 := by
  match hd, h, hb with
  | [x, y, z, w], _, hb =>
    have hx : x < 256 := hb x (by simp)
    have hy : y < 256 := hb y (by simp)
    have hz : z < 256 := hb z (by simp)
    have hw : w < 256 := hb w (by simp)
    refine ⟨?_, fromBe2_lt x y hx hy, fromBe2_lt z w hz hw⟩
    show be 2 (fromBe [x, y]) ++ be 2 (fromBe [z, w]) = [x, y, z, w]
    rw [be2_fromBe x y hx hy, be2_fromBe z w hz hw]; rfl

/-- the reader-based parsers return the last-wins container of a *prefix* of the input made of
    complete triplets (they stop quietly at the first triplet that is cut short) -/
theorem readTlvLoop_prefix : ∀ (fuel : Nat) (r : Reader) (m res : TlvMap),
    r.err = none → (∀ b ∈ r.rest, b < 256) → (readTlvLoop fuel r m).map = some res →
    ∃ seq : TlvMap, (∀ tv ∈ seq, tv.1 < 65536 ∧ tv.2.length < 65536) ∧ tlvsBytes seq <+: r.rest ∧
      res = upsertAll m seq
  | 0, r, m, res, _, _, h => by
    simp only [readTlvLoop, Option.some.injEq] at h
    exact ⟨[], by simp, by simp [tlvsBytes], by simp [upsertAll, h]⟩
  | fuel+1, r, m, res, he, hb, h => by
    have nilcase : ∀ res', some m = some res' →
        ∃ seq : TlvMap, (∀ tv ∈ seq, tv.1 < 65536 ∧ tv.2.length < 65536) ∧ tlvsBytes seq <+: r.rest ∧
          res' = upsertAll m seq := by
      intro res' h'
      simp only [Option.some.injEq] at h'
      exact ⟨[], by simp, by simp [tlvsBytes], by simp [upsertAll, h']⟩
    simp only [readTlvLoop] at h
    split at h
    · exact nilcase res h
    · have h1 := readBytes_ok' r 4 he
      generalize r.readBytes 4 = p1 at h1 h
      obtain ⟨hd, r1⟩ := p1
      simp only at h1 h
      split at h
      · exact nilcase res (by simpa [Reader.setErrNil] using h)
      · simp at h
      · rename_i he1
        obtain ⟨hhd, hr1, hlen4⟩ := h1 he1
        generalize hlen : fromBe (hd.drop 2) = len at h
        have h2 := readBytes_ok' { r1 with alloc := r1.alloc + min len (r1.remaining + 1) } len (by simpa using he1)
        generalize Reader.readBytes { r1 with alloc := r1.alloc + min len (r1.remaining + 1) } len = p2 at h2 h
        obtain ⟨v, r2⟩ := p2
        simp only at h2 h
        split at h
        · exact nilcase res (by simpa [Reader.setErrNil] using h)
        · simp at h
        · rename_i he2
          obtain ⟨hv, hr2, hlenv⟩ := h2 he2
          have hr2' : r2.rest = (r.rest.drop 4).drop len := by rw [hr2]; simp [hr1]
          have hv' : v = (r.rest.drop 4).take len := by rw [hv]; simp [hr1]
          have hlenv' : len ≤ (r.rest.drop 4).length := by simpa [hr1] using hlenv
          have hb2 : ∀ b ∈ r2.rest, b < 256 := by
            intro b hbm; rw [hr2'] at hbm
            exact hb b (List.mem_of_mem_drop (List.mem_of_mem_drop hbm))
          obtain ⟨seq, hwf, hpre, hres⟩ := readTlvLoop_prefix fuel r2 _ res he2 hb2 h
          have hhdlen : hd.length = 4 := by rw [hhd, List.length_take]; omega
          have hhdb : ∀ b ∈ hd, b < 256 := by
            intro b hbm; rw [hhd] at hbm; exact hb b (List.mem_of_mem_take hbm)
          obtain ⟨h4a, h4b, h4c⟩ := four_bytes hd hhdlen hhdb
          have hvlen : v.length = len := by rw [hv', List.length_take]; omega
          refine ⟨(fromBe (hd.take 2), v) :: seq, ?_, ?_, ?_⟩
          · intro tv htv
            rcases List.mem_cons.1 htv with rfl | h'
            · exact ⟨h4b, by rw [hvlen, ← hlen]; exact h4c⟩
            · exact hwf tv h'
          · have hsmall := tlvBytes_small (fromBe (hd.take 2)) v (by rw [hvlen, ← hlen]; exact h4c)
            obtain ⟨post, hpost⟩ := hpre
            refine ⟨post, ?_⟩
            simp only [tlvsBytes, List.map_cons, List.flatten_cons]
            rw [hsmall, hvlen, ← hlen, h4a]
            simp only [tlvsBytes] at hpost
            have e1 : r.rest = hd ++ (v ++ r2.rest) := by
              rw [hhd, hv', hr2', List.take_append_drop, List.take_append_drop]
            rw [e1, ← hpost]
            simp [List.append_assoc]
          · simpa [upsertAll] using hres

theorem readTlvs_prefix (r : Reader) (res : TlvMap) (hb : ∀ b ∈ r.rest, b < 256)
    (h : (readTlvs r).map = some res) :
    ∃ seq : TlvMap, (∀ tv ∈ seq, tv.1 < 65536 ∧ tv.2.length < 65536) ∧ tlvsBytes seq <+: r.rest ∧
      res = upsertAll [] seq := by
  unfold readTlvs at h
  split at h
  · simp at h
  · split at h
    · simp at h
    · rename_i he
      exact readTlvLoop_prefix _ r [] res (by simpa using he) hb h

end SmsVerif
