/-
  Delivery receipts as texts `key:value key:value …`: every occurrence of a key token `key:` in such
  a text is the beginning of a field with that key — provided the key set has no key that is a
  proper suffix of another or ends in a space followed by another key, and the values are free of
  spaces and key tokens.  This removes the "first occurrence is the field occurrence" hypothesis of
  the C18 theorems for well-formed receipts.
-/
import SmsVerif.Model.Receipt

namespace SmsVerif.Receipt

/-! ### occurrences and `strings.Index` -/

def OccursAt (s pat : Bytes) (i : Nat) : Prop := pat <+: s.drop i

theorem isPrefixOf_iff : ∀ (a b : Bytes), isPrefixOf a b = true ↔ a <+: b
  | [], b => by simp [isPrefixOf]
  | _ :: _, [] => by simp [isPrefixOf]
  | x :: xs, y :: ys => by
    simp only [isPrefixOf, Bool.and_eq_true, beq_iff_eq, isPrefixOf_iff xs ys]
    constructor
    · rintro ⟨rfl, h⟩; exact List.cons_prefix_cons.2 ⟨rfl, h⟩
    · intro h; exact List.cons_prefix_cons.1 h

theorem occursAt_zero (s pat : Bytes) : OccursAt s pat 0 ↔ pat <+: s := by simp [OccursAt]

theorem occursAt_succ (c : Nat) (cs pat : Bytes) (i : Nat) : OccursAt (c :: cs) pat (i + 1) ↔ OccursAt cs pat i := by
  simp [OccursAt]

/-- the first occurrence is what `strings.Index` returns -/
theorem indexOf_first : ∀ (s pat : Bytes) (n : Nat), OccursAt s pat n → n ≤ s.length →
    (∀ i, i < n → ¬ OccursAt s pat i) → indexOf s pat = some n
  | [], pat, n, h, hn, _ => by
    have : n = 0 := by simpa using hn
    subst this
    have hp : pat = [] := by simpa [OccursAt] using h
    subst hp; simp [indexOf]
  | c :: cs, pat, n, h, hn, hfirst => by
    unfold indexOf
    cases n with
    | zero =>
      have : isPrefixOf pat (c :: cs) = true := (isPrefixOf_iff _ _).2 (by simpa [OccursAt] using h)
      simp [this]
    | succ n =>
      have h0 : ¬ isPrefixOf pat (c :: cs) = true := fun hc =>
        hfirst 0 (by omega) ((occursAt_zero _ _).2 ((isPrefixOf_iff _ _).1 hc))
      simp only [h0, Bool.false_eq_true, if_false]
      rw [indexOf_first cs pat n ((occursAt_succ c cs pat n).1 h) (by simpa using hn)
        (fun i hi hc => hfirst (i + 1) (by omega) ((occursAt_succ c cs pat i).2 hc))]
      rfl

theorem indexOf_none : ∀ (s pat : Bytes), (∀ i, i ≤ s.length → ¬ OccursAt s pat i) → indexOf s pat = none
  | [], pat, h => by
    unfold indexOf
    have : pat ≠ [] := fun e => h 0 (by simp) (by simp [OccursAt, e])
    cases pat <;> simp_all
  | c :: cs, pat, h => by
    unfold indexOf
    have h0 : ¬ isPrefixOf pat (c :: cs) = true := fun hc =>
      h 0 (by simp) ((occursAt_zero _ _).2 ((isPrefixOf_iff _ _).1 hc))
    simp only [h0, Bool.false_eq_true, if_false]
    rw [indexOf_none cs pat (fun i hi hc => h (i + 1) (by simpa using hi) ((occursAt_succ c cs pat i).2 hc))]
    rfl

theorem occursAt_append_right (x y pat : Bytes) (i : Nat) (hi : x.length ≤ i) :
    OccursAt (x ++ y) pat i ↔ OccursAt y pat (i - x.length) := by
  simp only [OccursAt]
  rw [List.drop_append, List.drop_eq_nil_of_le hi, List.nil_append]

theorem occursAt_append_left (x y pat : Bytes) (i : Nat) (hi : i ≤ x.length) :
    OccursAt (x ++ y) pat i ↔ pat <+: x.drop i ++ y := by
  simp only [OccursAt]
  rw [List.drop_append_of_le_length hi]

/-! ### colon-terminated tokens -/

/-- two colon-free words followed by a colon: if one is a prefix of the other's continuation, the words are equal -/
theorem colon_word_eq : ∀ (p a : Bytes) (b : Bytes), 58 ∉ p → 58 ∉ a → (p ++ [58]) <+: (a ++ [58] ++ b) → p = a
  | [], [], _, _, _, _ => rfl
  | [], y :: ys, b, _, ha, h => by
    simp only [List.nil_append, List.cons_append] at h
    have := (List.cons_prefix_cons.1 h).1
    exact absurd (by simp [← this]) ha
  | x :: xs, [], b, hp, _, h => by
    simp only [List.cons_append, List.nil_append] at h
    have := (List.cons_prefix_cons.1 h).1
    exact absurd (by simp [this]) hp
  | x :: xs, y :: ys, b, hp, ha, h => by
    simp only [List.cons_append] at h
    obtain ⟨rfl, h'⟩ := List.cons_prefix_cons.1 h
    rw [colon_word_eq xs ys b (fun hc => hp (by simp [hc])) (fun hc => ha (by simp [hc])) (by simpa using h')]

/-! ### receipts -/

/-- `key:value` fields joined by single spaces -/
def render : List (Bytes × Bytes) → Bytes
  | [] => []
  | [(k, v)] => k ++ [58] ++ v
  | (k, v) :: f :: fs => k ++ [58] ++ v ++ [32] ++ render (f :: fs)

/-- offset of field `j` in the rendered text -/
def offsetOf : List (Bytes × Bytes) → Nat → Nat
  | [], _ => 0
  | _ :: _, 0 => 0
  | (k, v) :: fs, j + 1 => k.length + 1 + v.length + 1 + offsetOf fs j

/-- the key universe: no colons, no key a proper suffix of another, no key ending in a space
    followed by another key -/
structure KeysOK (K : List Bytes) : Prop where
  noColon : ∀ k ∈ K, 58 ∉ k
  nonempty : ∀ k ∈ K, k ≠ []
  suffixEq : ∀ k ∈ K, ∀ k' ∈ K, k <:+ k' → k = k'
  noSpaceKey : ∀ k ∈ K, ∀ k' ∈ K, ¬ (32 :: k') <:+ k

/-- a value contains no key token -/
def NoToken (K : List Bytes) (v : Bytes) : Prop := ∀ k ∈ K, ∀ i, ¬ OccursAt v (k ++ [58]) i

/-- a value contains no space and no key token -/
def TokenFree (K : List Bytes) (v : Bytes) : Prop := 32 ∉ v ∧ NoToken K v

theorem prefix_append_cases {pat a b : Bytes} (h : pat <+: a ++ b) :
    pat <+: a ∨ ∃ r, r ≠ [] ∧ pat = a ++ r ∧ r <+: b := by
  rcases List.prefix_or_prefix_of_prefix h (List.prefix_append a b) with h1 | ⟨r, hr⟩
  · exact Or.inl h1
  · by_cases hre : r = []
    · subst hre; exact Or.inl (by simp at hr; rw [← hr]; exact List.prefix_refl _)
    · refine Or.inr ⟨r, hre, hr.symm, ?_⟩
      rw [← hr] at h
      exact (List.prefix_append_right_inj a).1 h

theorem render_head (k v : Bytes) (fs : List (Bytes × Bytes)) : ∃ T, render ((k, v) :: fs) = k ++ [58] ++ T := by
  cases fs with
  | nil => exact ⟨v, rfl⟩
  | cons f fs => exact ⟨v ++ [32] ++ render (f :: fs), by simp [render, List.append_assoc]⟩

/-- the analysis of one field followed by the rest of the text `T` (empty, or a space and another field):
    a key token occurring before the end of this field's separator is this field's own key at offset 0 -/
theorem head_region (K : List Bytes) (hK : KeysOK K) (k1 v1 T : Bytes) (hk1 : k1 ∈ K) (hv1 : NoToken K v1)
    (hT : T = [] ∨ ∃ k2 T', k2 ∈ K ∧ T = [32] ++ (k2 ++ [58] ++ T'))
    (k : Bytes) (hk : k ∈ K) (i : Nat) (hi : i ≤ k1.length + 1 + v1.length)
    (h : OccursAt (k1 ++ [58] ++ v1 ++ T) (k ++ [58]) i) : i = 0 ∧ k = k1 := by
  have hkc := hK.noColon k hk
  have hk1c := hK.noColon k1 hk1
  have hkne := hK.nonempty k hk
  -- the token continuing into the next field is impossible
  have cross : ∀ (X : Bytes), 32 ∉ X ∨ True → ∀ r, r ≠ [] → k ++ [58] = X ++ r → r <+: T → False := by
    intro X _ r hr heq hpre
    rcases hT with rfl | ⟨k2, T', hk2, rfl⟩
    · exact hr (by simpa using hpre)
    · -- r starts with the space
      cases r with
      | nil => exact hr rfl
      | cons c r2 =>
        simp only [List.cons_append, List.nil_append] at hpre
        obtain ⟨rfl, hpre2⟩ := List.cons_prefix_cons.1 hpre
        -- r2 ends with the colon of the token
        have hne2 : r2 ≠ [] := by
          intro e; subst e
          have := congrArg List.getLast? heq
          simp at this
        obtain ⟨t, c', rfl⟩ : ∃ t c', r2 = t ++ [c'] := ⟨r2.dropLast, r2.getLast hne2, (List.dropLast_concat_getLast hne2).symm⟩
        have hlast : c' = 58 ∧ k = X ++ 32 :: t := by
          have e : k ++ [58] = (X ++ 32 :: t) ++ [c'] := by rw [heq]; simp
          have := List.append_inj' e rfl
          exact ⟨by simpa using this.2.symm, this.1⟩
        obtain ⟨rfl, hkeq⟩ := hlast
        have htc : 58 ∉ t := fun hc => hkc (by rw [hkeq]; simp [hc])
        have : t = k2 := colon_word_eq t k2 T' htc (hK.noColon k2 hk2) (by simpa [List.append_assoc] using hpre2)
        subst this
        exact hK.noSpaceKey k hk t hk2 ⟨X, by rw [hkeq]⟩
  by_cases hi0 : i = 0
  · subst hi0
    refine ⟨rfl, ?_⟩
    have := (occursAt_zero _ _).1 h
    exact colon_word_eq k k1 (v1 ++ T) hkc hk1c (by simpa [List.append_assoc] using this)
  · exfalso
    by_cases hik : i ≤ k1.length
    · -- the token starts inside the key of this field: it would be a proper suffix of it
      have h' := (occursAt_append_left (k1 ++ [58] ++ v1) T (k ++ [58]) i (by simp; omega)).1 h
      have hd : (k1 ++ [58] ++ v1).drop i = k1.drop i ++ [58] ++ v1 := by
        rw [List.append_assoc, List.drop_append_of_le_length hik, List.append_assoc]
      rw [hd] at h'
      have hdc : 58 ∉ k1.drop i := fun hc => hk1c ((List.drop_suffix i k1).subset hc)
      have := colon_word_eq k (k1.drop i) (v1 ++ T) hkc hdc (by simpa [List.append_assoc] using h')
      have hs : k <:+ k1 := by rw [this]; exact List.drop_suffix i k1
      have he := hK.suffixEq k hk k1 hk1 hs
      have hl := congrArg List.length this
      rw [he, List.length_drop] at hl
      omega
    · -- the token starts inside the value
      have hi' : k1.length + 1 ≤ i := by omega
      have h1 : OccursAt (v1 ++ T) (k ++ [58]) (i - (k1.length + 1)) := by
        have := (occursAt_append_right (k1 ++ [58]) (v1 ++ T) (k ++ [58]) i (by simp; omega)).1
          (by simpa [List.append_assoc] using h)
        simpa using this
      have h2 := (occursAt_append_left v1 T (k ++ [58]) (i - (k1.length + 1)) (by omega)).1 h1
      rcases prefix_append_cases h2 with hin | ⟨r, hr, heq, hpre⟩
      · exact hv1 k hk _ hin
      · exact cross _ (Or.inr trivial) r hr heq hpre

/-- **every occurrence of a key token is a field**: in a well-formed receipt a token `k:` (k a key)
    occurs only at the beginning of a field whose key is `k` -/
theorem occ_is_field (K : List Bytes) (hK : KeysOK K) : ∀ (fs : List (Bytes × Bytes)),
    (∀ f ∈ fs, f.1 ∈ K ∧ NoToken K f.2) → ∀ k ∈ K, ∀ i, OccursAt (render fs) (k ++ [58]) i →
    ∃ j, j < fs.length ∧ (fs[j]?.map (·.1)) = some k ∧ offsetOf fs j = i
  | [], _, k, _, i, h => by
    simp [render, OccursAt] at h
  | [(k1, v1)], hf, k, hk, i, h => by
    obtain ⟨hk1, hv1⟩ := hf (k1, v1) (by simp)
    have hlen : i ≤ k1.length + 1 + v1.length := by
      rcases Nat.lt_or_ge (k1.length + 1 + v1.length) i with h' | h'
      · exfalso
        simp only [render, OccursAt] at h
        rw [List.drop_eq_nil_of_le (by simp; omega)] at h
        simp at h
      · exact h'
    have := head_region K hK k1 v1 [] hk1 hv1 (Or.inl rfl) k hk i hlen (by simpa [render] using h)
    exact ⟨0, by simp, by simp [this.2], by simp [offsetOf, this.1]⟩
  | (k1, v1) :: f :: fs, hf, k, hk, i, h => by
    obtain ⟨hk1, hv1⟩ := hf (k1, v1) (by simp)
    obtain ⟨hk2, _⟩ := hf f (by simp)
    obtain ⟨T', hT'⟩ := render_head f.1 f.2 fs
    have hrender : render ((k1, v1) :: f :: fs) = k1 ++ [58] ++ v1 ++ ([32] ++ (f.1 ++ [58] ++ T')) := by
      simp only [render]; rw [show render (f :: fs) = render ((f.1, f.2) :: fs) from rfl, hT']
      simp [List.append_assoc]
    by_cases hlen : i ≤ k1.length + 1 + v1.length
    · have := head_region K hK k1 v1 _ hk1 hv1 (Or.inr ⟨f.1, T', hk2, rfl⟩) k hk i hlen (by rw [← hrender]; exact h)
      exact ⟨0, by simp, by simp [this.2], by simp [offsetOf, this.1]⟩
    · -- the occurrence lies in the rest of the text
      have hge : k1.length + 1 + v1.length + 1 ≤ i := by omega
      have hsplit : render ((k1, v1) :: f :: fs) = (k1 ++ [58] ++ v1 ++ [32]) ++ render (f :: fs) := by
        simp [render, List.append_assoc]
      rw [hsplit] at h
      have h' := (occursAt_append_right _ _ _ i (by simp; omega)).1 h
      have hl : (k1 ++ [58] ++ v1 ++ [32]).length = k1.length + 1 + v1.length + 1 := by simp; omega
      rw [hl] at h'
      obtain ⟨j, hj, hkey, hoff⟩ := occ_is_field K hK (f :: fs) (fun x hx => hf x (by simp [hx])) k hk _ h'
      refine ⟨j + 1, by simpa using hj, by simpa using hkey, ?_⟩
      simp only [offsetOf]; omega

/-- the offset of a field really is where its text starts: the rendering splits there -/
theorem render_split : ∀ (fs : List (Bytes × Bytes)) (j : Nat) (hj : j < fs.length),
    ∃ pre post, render fs = pre ++ (fs[j].1 ++ [58] ++ fs[j].2) ++ post ∧ pre.length = offsetOf fs j ∧
      (post = [] ∨ post.head? = some 32)
  | [(k, v)], 0, _ => ⟨[], [], by simp [render], rfl, Or.inl rfl⟩
  | (k, v) :: f :: fs, 0, _ => ⟨[], [32] ++ render (f :: fs), by simp [render, List.append_assoc], rfl, Or.inr rfl⟩
  | [(k, v)], j + 1, hj => by simp at hj
  | (k, v) :: f :: fs, j + 1, hj => by
    obtain ⟨pre, post, h1, h2, h3⟩ := render_split (f :: fs) j (by simpa using hj)
    refine ⟨k ++ [58] ++ v ++ [32] ++ pre, post, ?_, ?_, h3⟩
    · simp only [render, List.getElem_cons_succ]; rw [h1]; simp [List.append_assoc]
    · simp only [offsetOf, List.length_append, List.length_cons, List.length_nil, h2]

end SmsVerif.Receipt
