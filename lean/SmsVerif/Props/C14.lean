/-
  C14 — no character is cut in two by a part boundary.

  A text is a list of characters, each a non-empty list of units; the encoded message is their
  concatenation.  A cut is harmless iff it is a character boundary.  `cuts_on_boundaries` (Lemmas)
  shows that with a sound boundary rule every cut is one; here the rules of the code are shown
  sound for their codings.
-/
import SmsVerif.Lemmas.Split

namespace SmsVerif.C14
open SmsVerif SmsVerif.Split

/-! ### generic consequences -/

theorem isBoundary_zero (chars : List (List Nat)) : IsBoundary chars 0 := ⟨0, Nat.zero_le _, by simp⟩

/-- when the first cut point is a character boundary, the first part is a whole number of characters
    and what follows is again a segmented text -/
theorem boundary_split (chars : List (List Nat)) (p : Nat) (h : IsBoundary chars p) :
    ∃ k, chars.flatten.take p = (chars.take k).flatten ∧ chars.flatten.drop p = (chars.drop k).flatten := by
  obtain ⟨k, _, rfl⟩ := h
  refine ⟨k, ?_, ?_⟩
  · conv => lhs; rw [← List.take_append_drop k chars, List.flatten_append]
    simp
  · conv => lhs; rw [← List.take_append_drop k chars, List.flatten_append]
    simp

/-! ### single-unit codings (ASCII, Latin-1): every offset is a boundary -/

theorem take_flatten_length_single (chars : List (List Nat)) (h1 : ∀ c ∈ chars, c.length = 1) (k : Nat)
    (hk : k ≤ chars.length) : (chars.take k).flatten.length = k := by
  induction chars generalizing k with
  | nil => simp at hk; subst hk; simp
  | cons c rest ih =>
    cases k with
    | zero => simp
    | succ k =>
      simp only [List.take_succ_cons, List.flatten_cons, List.length_append]
      rw [ih (fun c hc => h1 c (by simp [hc])) k (by simpa using hk), h1 c (by simp)]
      omega

theorem single_unit_boundary (chars : List (List Nat)) (h1 : ∀ c ∈ chars, c.length = 1) (p : Nat)
    (hp : p ≤ chars.flatten.length) : IsBoundary chars p := by
  have htot : chars.flatten.length = chars.length := by
    have := take_flatten_length_single chars h1 chars.length (Nat.le_refl _)
    simpa using this
  exact ⟨p, by omega, (take_flatten_length_single chars h1 p (by omega)).symm⟩

theorem C14_plain_rule_sound (chars : List (List Nat)) (h1 : ∀ c ∈ chars, c.length = 1) (per : Nat) :
    BoundarySound noBoundary chars per := by
  intro b _ hlt _ _
  exact single_unit_boundary chars h1 _ (by simp only [noBoundary]; omega)

/-! ### GSM 7-bit (packed and unpacked): escape pairs -/

/-- a GSM 7-bit septet string segmented into characters: single septets other than ESC, and
    ESC followed by a septet other than ESC -/
def GsmSeg (chars : List (List Nat)) : Prop :=
  ∀ c ∈ chars, (∃ x, c = [x] ∧ x ≠ Gsm7.esc) ∨ (∃ y, c = [Gsm7.esc, y] ∧ y ≠ Gsm7.esc)

theorem isBoundary_cons (c : List Nat) (rest : List (List Nat)) (p : Nat) (hp : c.length ≤ p) :
    IsBoundary (c :: rest) p ↔ IsBoundary rest (p - c.length) := by
  constructor
  · rintro ⟨k, hk, hpk⟩
    cases k with
    | zero =>
      simp at hpk
      exact ⟨0, Nat.zero_le _, by simp; omega⟩
    | succ k =>
      simp only [List.take_succ_cons, List.flatten_cons, List.length_append] at hpk
      exact ⟨k, by simpa using hk, by omega⟩
  · rintro ⟨k, hk, hpk⟩
    exact ⟨k + 1, by simpa using hk, by simp only [List.take_succ_cons, List.flatten_cons, List.length_append]; omega⟩

theorem flatten_cons_length (c : List Nat) (rest : List (List Nat)) :
    (c :: rest).flatten.length = c.length + rest.flatten.length := by
  simp only [List.flatten_cons, List.length_append]

/-- the key fact about escape pairs: the unit at offset `q` decides whether `q + 1` is a character
    boundary (and an ESC always starts a character) -/
theorem gsm_boundary_char (chars : List (List Nat)) (hseg : GsmSeg chars) (q : Nat)
    (hq : q < chars.flatten.length) :
    (chars.flatten.getD q 0 = Gsm7.esc → IsBoundary chars q ∧ q + 1 < chars.flatten.length) ∧
    (chars.flatten.getD q 0 ≠ Gsm7.esc → IsBoundary chars (q + 1)) := by
  induction chars generalizing q with
  | nil => simp at hq
  | cons c rest ih =>
    have hc := hseg c (by simp)
    have hrest : GsmSeg rest := fun x hx => hseg x (by simp [hx])
    rw [flatten_cons_length] at hq ⊢
    rcases hc with ⟨x, rfl, hx⟩ | ⟨y, rfl, hy⟩
    · -- single septet
      cases q with
      | zero =>
        simp only [List.flatten_cons, List.singleton_append, List.getD_cons_zero]
        exact ⟨fun h => absurd h hx, fun _ => ⟨1, by simp, by simp⟩⟩
      | succ q =>
        have hq' : q < rest.flatten.length := by simp only [List.length_cons, List.length_nil] at hq; omega
        have := ih hrest q hq'
        have hget : ([x] :: rest).flatten.getD (q + 1) 0 = rest.flatten.getD q 0 := by
          simp only [List.flatten_cons, List.singleton_append, List.getD_cons_succ]
        rw [hget]
        constructor
        · intro h
          obtain ⟨hb, hl⟩ := this.1 h
          exact ⟨(isBoundary_cons [x] rest (q + 1) (by simp)).2 (by simpa using hb), by simp only [List.length_cons, List.length_nil]; omega⟩
        · intro h
          exact (isBoundary_cons [x] rest (q + 1 + 1) (by simp)).2 (by simpa using this.2 h)
    · -- escape pair
      cases q with
      | zero =>
        simp only [List.flatten_cons, List.cons_append, List.getD_cons_zero]
        exact ⟨fun _ => ⟨isBoundary_zero _, by simp only [List.length_cons, List.length_nil]; omega⟩, fun h => absurd rfl h⟩
      | succ q =>
        cases q with
        | zero =>
          simp only [List.flatten_cons, List.cons_append, List.nil_append, List.getD_cons_succ, List.getD_cons_zero]
          exact ⟨fun h => absurd h hy, fun _ => ⟨1, by simp, by simp⟩⟩
        | succ q =>
          have hq' : q < rest.flatten.length := by simp only [List.length_cons, List.length_nil] at hq; omega
          have := ih hrest q hq'
          have hget : ([Gsm7.esc, y] :: rest).flatten.getD (q + 1 + 1) 0 = rest.flatten.getD q 0 := by
            simp only [List.flatten_cons, List.cons_append, List.nil_append, List.getD_cons_succ]
          rw [hget]
          constructor
          · intro h
            obtain ⟨hb, hl⟩ := this.1 h
            exact ⟨(isBoundary_cons [Gsm7.esc, y] rest (q + 1 + 1) (by simp)).2 (by simpa using hb), by simp only [List.length_cons, List.length_nil]; omega⟩
          · intro h
            exact (isBoundary_cons [Gsm7.esc, y] rest (q + 1 + 1 + 1) (by simp)).2 (by simpa using this.2 h)

/-- **the escape rule is sound** : for GSM 7-bit septets (packed or unpacked path) the cut chosen by
    the code is a character boundary, so no escape pair straddles two parts -/
theorem C14_gsm_rule_sound (chars : List (List Nat)) (hseg : GsmSeg chars) (per : Nat) (hper : 2 ≤ per) :
    BoundarySound gsmBoundary chars per ∧
    (∀ b, IsBoundary chars b → b + per < chars.flatten.length →
      b < gsmBoundary chars.flatten b (b + per) ∧ gsmBoundary chars.flatten b (b + per) ≤ b + per) := by
  constructor
  · intro b _ hlt _ _
    have key := gsm_boundary_char chars hseg (b + per - 1) (by omega)
    have e1 : b + per - 1 + 1 = b + per := by omega
    rw [e1] at key
    unfold gsmBoundary
    by_cases hesc : chars.flatten.getD (b + per - 1) 0 = Gsm7.esc
    · have : b + per - b ≥ 2 := by omega
      simp only [this, hesc, and_self, if_true]
      exact (key.1 hesc).1
    · simp only [hesc, and_false, if_false]
      exact key.2 hesc
  · intro b _ _
    unfold gsmBoundary
    split <;> omega

/-- **standalone_decodable (GSM 7-bit)** : every cut the splitter makes in a GSM 7-bit message is a
    character boundary -/
theorem C14_gsm_cuts_are_boundaries (chars : List (List Nat)) (hseg : GsmSeg chars) (per : Nat) (hper : 2 ≤ per) :
    ∀ e ∈ cutPoints gsmBoundary chars.flatten per (chars.flatten.length + 1) 0, IsBoundary chars e :=
  cuts_on_boundaries gsmBoundary chars per (C14_gsm_rule_sound chars hseg per hper).1
    (C14_gsm_rule_sound chars hseg per hper).2 _ 0 (isBoundary_zero chars)

/-- **standalone_decodable (single-unit codings)** -/
theorem C14_plain_cuts_are_boundaries (chars : List (List Nat)) (h1 : ∀ c ∈ chars, c.length = 1) (per : Nat)
    (hper : 0 < per) :
    ∀ e ∈ cutPoints noBoundary chars.flatten per (chars.flatten.length + 1) 0, IsBoundary chars e :=
  cuts_on_boundaries noBoundary chars per (C14_plain_rule_sound chars h1 per)
    (fun b _ _ => by simp [noBoundary]; omega) _ 0 (isBoundary_zero chars)

example : GsmSeg [[0x31], [Gsm7.esc, 0x3C], [0x00]] := by
  intro c hc
  simp at hc
  rcases hc with rfl | rfl | rfl
  · exact Or.inl ⟨_, rfl, by decide⟩
  · exact Or.inr ⟨_, rfl, by decide⟩
  · exact Or.inl ⟨_, rfl, by decide⟩

end SmsVerif.C14

section
open SmsVerif.C14
#print axioms boundary_split
#print axioms C14_plain_rule_sound
#print axioms C14_gsm_rule_sound
#print axioms C14_gsm_cuts_are_boundaries
#print axioms C14_plain_cuts_are_boundaries
#print axioms SmsVerif.Split.cuts_on_boundaries
end
