/-
  C14 — no character is cut in two by a part boundary.

  A text is a list of characters, each a non-empty list of units; the encoded message is their
  concatenation.  A cut is harmless iff it is a character boundary.  `cuts_on_boundaries` (Lemmas)
  shows that with a sound boundary rule every cut is one; here the rules of the code are shown
  sound for their codings.
-/
import SmsVerif.Lemmas.Split
import SmsVerif.Props.C05

namespace SmsVerif.C14
open SmsVerif SmsVerif.Split

/-! ### generic consequences -/

theorem isBoundary_zero (chars : List (List Nat)) : IsBoundary chars 0 := ⟨0, Nat.zero_le _, by simp⟩

/-- when the first cut point is a character boundary, the first part is a whole number of characters
    and what follows is again a segmented text -/
theorem boundary_split (chars : List (List Nat)) (p : Nat) (h : IsBoundary chars p) :
    ∃ k, chars.flatten.take p = (chars.take k).flatten ∧ chars.flatten.drop p = (chars.drop k).flatten := by
  obtain ⟨k, _, rfl⟩ := h
  refine ⟨k, ?_, ?_⟩
  · conv => lhs; rw [← List.take_append_drop k chars, List.flatten_append]
    simp
  · conv => lhs; rw [← List.take_append_drop k chars, List.flatten_append]
    simp

/-! ### single-unit codings (ASCII, Latin-1): every offset is a boundary -/

theorem take_flatten_length_single (chars : List (List Nat)) (h1 : ∀ c ∈ chars, c.length = 1) (k : Nat)
    (hk : k ≤ chars.length) : (chars.take k).flatten.length = k := by
  induction chars generalizing k with
  | nil => simp at hk; subst hk; simp
  | cons c rest ih =>
    cases k with
    | zero => simp
    | succ k =>
      simp only [List.take_succ_cons, List.flatten_cons, List.length_append]
      rw [ih (fun c hc => h1 c (by simp [hc])) k (by simpa using hk), h1 c (by simp)]
      omega

theorem single_unit_boundary (chars : List (List Nat)) (h1 : ∀ c ∈ chars, c.length = 1) (p : Nat)
    (hp : p ≤ chars.flatten.length) : IsBoundary chars p := by
  have htot : chars.flatten.length = chars.length := by
    have := take_flatten_length_single chars h1 chars.length (Nat.le_refl _)
    simpa using this
  exact ⟨p, by omega, (take_flatten_length_single chars h1 p (by omega)).symm⟩

theorem C14_plain_rule_sound (chars : List (List Nat)) (h1 : ∀ c ∈ chars, c.length = 1) (per : Nat) :
    BoundarySound noBoundary chars per := by
  intro b _ hlt _ _
  exact single_unit_boundary chars h1 _ (by simp only [noBoundary]; omega)

/-! ### GSM 7-bit (packed and unpacked): escape pairs -/

/-- a GSM 7-bit septet string segmented into characters: single septets other than ESC, and
    ESC followed by a septet other than ESC -/
def GsmSeg (chars : List (List Nat)) : Prop :=
  ∀ c ∈ chars, (∃ x, c = [x] ∧ x ≠ Gsm7.esc) ∨ (∃ y, c = [Gsm7.esc, y] ∧ y ≠ Gsm7.esc)

theorem isBoundary_cons (c : List Nat) (rest : List (List Nat)) (p : Nat) (hp : c.length ≤ p) :
    IsBoundary (c :: rest) p ↔ IsBoundary rest (p - c.length) := by
  constructor
  · rintro ⟨k, hk, hpk⟩
    cases k with
    | zero =>
      simp at hpk
      exact ⟨0, Nat.zero_le _, by simp; omega⟩
    | succ k =>
      simp only [List.take_succ_cons, List.flatten_cons, List.length_append] at hpk
      exact ⟨k, by simpa using hk, by omega⟩
  · rintro ⟨k, hk, hpk⟩
    exact ⟨k + 1, by simpa using hk, by simp only [List.take_succ_cons, List.flatten_cons, List.length_append]; omega⟩

theorem flatten_cons_length (c : List Nat) (rest : List (List Nat)) :
    (c :: rest).flatten.length = c.length + rest.flatten.length := by
  simp only [List.flatten_cons, List.length_append]

/-- the key fact about escape pairs: the unit at offset `q` decides whether `q + 1` is a character
    boundary (and an ESC always starts a character) -/
theorem gsm_boundary_char (chars : List (List Nat)) (hseg : GsmSeg chars) (q : Nat)
    (hq : q < chars.flatten.length) :
    (chars.flatten.getD q 0 = Gsm7.esc → IsBoundary chars q ∧ q + 1 < chars.flatten.length) ∧
    (chars.flatten.getD q 0 ≠ Gsm7.esc → IsBoundary chars (q + 1)) := by
  induction chars generalizing q with
  | nil => simp at hq
  | cons c rest ih =>
    have hc := hseg c (by simp)
    have hrest : GsmSeg rest := fun x hx => hseg x (by simp [hx])
    rw [flatten_cons_length] at hq ⊢
    rcases hc with ⟨x, rfl, hx⟩ | ⟨y, rfl, hy⟩
    · -- single septet
      cases q with
      | zero =>
        simp only [List.flatten_cons, List.singleton_append, List.getD_cons_zero]
        exact ⟨fun h => absurd h hx, fun _ => ⟨1, by simp, by simp⟩⟩
      | succ q =>
        have hq' : q < rest.flatten.length := by simp only [List.length_cons, List.length_nil] at hq; omega
        have := ih hrest q hq'
        have hget : ([x] :: rest).flatten.getD (q + 1) 0 = rest.flatten.getD q 0 := by
          simp only [List.flatten_cons, List.singleton_append, List.getD_cons_succ]
        rw [hget]
        constructor
        · intro h
          obtain ⟨hb, hl⟩ := this.1 h
          exact ⟨(isBoundary_cons [x] rest (q + 1) (by simp)).2 (by simpa using hb), by simp only [List.length_cons, List.length_nil]; omega⟩
        · intro h
          exact (isBoundary_cons [x] rest (q + 1 + 1) (by simp)).2 (by simpa using this.2 h)
    · -- escape pair
      cases q with
      | zero =>
        simp only [List.flatten_cons, List.cons_append, List.getD_cons_zero]
        exact ⟨fun _ => ⟨isBoundary_zero _, by simp only [List.length_cons, List.length_nil]; omega⟩, fun h => absurd rfl h⟩
      | succ q =>
        cases q with
        | zero =>
          simp only [List.flatten_cons, List.cons_append, List.nil_append, List.getD_cons_succ, List.getD_cons_zero]
          exact ⟨fun h => absurd h hy, fun _ => ⟨1, by simp, by simp⟩⟩
        | succ q =>
          have hq' : q < rest.flatten.length := by simp only [List.length_cons, List.length_nil] at hq; omega
          have := ih hrest q hq'
          have hget : ([Gsm7.esc, y] :: rest).flatten.getD (q + 1 + 1) 0 = rest.flatten.getD q 0 := by
            simp only [List.flatten_cons, List.cons_append, List.nil_append, List.getD_cons_succ]
          rw [hget]
          constructor
          · intro h
            obtain ⟨hb, hl⟩ := this.1 h
            exact ⟨(isBoundary_cons [Gsm7.esc, y] rest (q + 1 + 1) (by simp)).2 (by simpa using hb), by simp only [List.length_cons, List.length_nil]; omega⟩
          · intro h
            exact (isBoundary_cons [Gsm7.esc, y] rest (q + 1 + 1 + 1) (by simp)).2 (by simpa using this.2 h)

/-- **the escape rule is sound** : for GSM 7-bit septets (packed or unpacked path) the cut chosen by
    the code is a character boundary, so no escape pair straddles two parts -/
theorem C14_gsm_rule_sound (chars : List (List Nat)) (hseg : GsmSeg chars) (per : Nat) (hper : 2 ≤ per) :
    BoundarySound gsmBoundary chars per ∧
    (∀ b, IsBoundary chars b → b + per < chars.flatten.length →
      b < gsmBoundary chars.flatten b (b + per) ∧ gsmBoundary chars.flatten b (b + per) ≤ b + per) := by
  constructor
  · intro b _ hlt _ _
    have key := gsm_boundary_char chars hseg (b + per - 1) (by omega)
    have e1 : b + per - 1 + 1 = b + per := by omega
    rw [e1] at key
    unfold gsmBoundary
    by_cases hesc : chars.flatten.getD (b + per - 1) 0 = Gsm7.esc
    · have : b + per - b ≥ 2 := by omega
      simp only [this, hesc, and_self, if_true]
      exact (key.1 hesc).1
    · simp only [hesc, and_false, if_false]
      exact key.2 hesc
  · intro b _ _
    unfold gsmBoundary
    split <;> omega

/-- **standalone_decodable (GSM 7-bit)** : every cut the splitter makes in a GSM 7-bit message is a
    character boundary -/
theorem C14_gsm_cuts_are_boundaries (chars : List (List Nat)) (hseg : GsmSeg chars) (per : Nat) (hper : 2 ≤ per) :
    ∀ e ∈ cutPoints gsmBoundary chars.flatten per (chars.flatten.length + 1) 0, IsBoundary chars e :=
  cuts_on_boundaries gsmBoundary chars per (C14_gsm_rule_sound chars hseg per hper).1
    (C14_gsm_rule_sound chars hseg per hper).2 _ 0 (isBoundary_zero chars)

/-- **standalone_decodable (single-unit codings)** -/
theorem C14_plain_cuts_are_boundaries (chars : List (List Nat)) (h1 : ∀ c ∈ chars, c.length = 1) (per : Nat)
    (hper : 0 < per) :
    ∀ e ∈ cutPoints noBoundary chars.flatten per (chars.flatten.length + 1) 0, IsBoundary chars e :=
  cuts_on_boundaries noBoundary chars per (C14_plain_rule_sound chars h1 per)
    (fun b _ _ => by simp [noBoundary]; omega) _ 0 (isBoundary_zero chars)

/-! ### UCS-2 / UTF-16BE: surrogate pairs -/

/-- a UTF-16BE octet string segmented into characters: two octets whose first is not a surrogate
    octet, or a surrogate pair of four octets (first octet D8..DB, third octet DC..DF) -/
def UcsSeg (chars : List (List Nat)) : Prop :=
  ∀ c ∈ chars, (∃ a b, c = [a, b] ∧ a / 4 ≠ 0x36 ∧ a / 4 ≠ 0x37) ∨
    (∃ h1 h2 l1 l2, c = [h1, h2, l1, l2] ∧ h1 / 4 = 0x36 ∧ l1 / 4 = 0x37)

/-- the 16-bit unit at an even offset decides: a high surrogate starts a character (and its partner
    is there), anything else ends one -/
theorem ucs_boundary_unit (chars : List (List Nat)) (hseg : UcsSeg chars) (m : Nat)
    (hq : 2 * m + 2 ≤ chars.flatten.length) :
    (chars.flatten.getD (2 * m) 0 / 4 = 0x36 → IsBoundary chars (2 * m) ∧ 2 * m + 4 ≤ chars.flatten.length) ∧
    (chars.flatten.getD (2 * m) 0 / 4 ≠ 0x36 → IsBoundary chars (2 * m + 2)) := by
  induction chars generalizing m with
  | nil => simp at hq
  | cons c rest ih =>
    have hc := hseg c (by simp)
    have hrest : UcsSeg rest := fun x hx => hseg x (by simp [hx])
    rw [flatten_cons_length] at hq ⊢
    rcases hc with ⟨a, b, rfl, ha1, ha2⟩ | ⟨h1, h2, l1, l2, rfl, hh, hl⟩
    · -- a BMP character
      cases m with
      | zero =>
        simp only [Nat.mul_zero, List.flatten_cons, List.cons_append, List.nil_append, List.getD_cons_zero]
        exact ⟨fun h => absurd h ha1, fun _ => ⟨1, by simp, by simp⟩⟩
      | succ m =>
        have hq' : 2 * m + 2 ≤ rest.flatten.length := by
          simp only [List.length_cons, List.length_nil] at hq; omega
        have := ih hrest m hq'
        have hget : ([a, b] :: rest).flatten.getD (2 * (m + 1)) 0 = rest.flatten.getD (2 * m) 0 := by
          have : 2 * (m + 1) = 2 * m + 1 + 1 := by omega
          rw [this]
          simp only [List.flatten_cons, List.cons_append, List.nil_append, List.getD_cons_succ]
        rw [hget]
        constructor
        · intro h
          obtain ⟨hb, hlen⟩ := this.1 h
          refine ⟨(isBoundary_cons [a, b] rest (2 * (m + 1)) (by simp only [List.length_cons, List.length_nil]; omega)).2 ?_, by simp only [List.length_cons, List.length_nil]; omega⟩
          have e : 2 * (m + 1) - [a, b].length = 2 * m := by simp only [List.length_cons, List.length_nil]; omega
          rw [e]; exact hb
        · intro h
          refine (isBoundary_cons [a, b] rest (2 * (m + 1) + 2) (by simp only [List.length_cons, List.length_nil]; omega)).2 ?_
          have e : 2 * (m + 1) + 2 - [a, b].length = 2 * m + 2 := by simp only [List.length_cons, List.length_nil]; omega
          rw [e]; exact this.2 h
    · -- a surrogate pair
      cases m with
      | zero =>
        simp only [Nat.mul_zero, List.flatten_cons, List.cons_append, List.nil_append, List.getD_cons_zero]
        exact ⟨fun _ => ⟨isBoundary_zero _, by simp only [List.length_cons, List.length_nil]; omega⟩,
          fun h => absurd hh h⟩
      | succ m =>
        cases m with
        | zero =>
          simp only [List.flatten_cons, List.cons_append, List.nil_append, List.getD_cons_succ, List.getD_cons_zero]
          constructor
          · intro h; rw [hl] at h; omega
          · intro _; exact ⟨1, by simp, by simp⟩
        | succ m =>
          have hq' : 2 * m + 2 ≤ rest.flatten.length := by
            simp only [List.length_cons, List.length_nil] at hq; omega
          have := ih hrest m hq'
          have hget : ([h1, h2, l1, l2] :: rest).flatten.getD (2 * (m + 1 + 1)) 0 = rest.flatten.getD (2 * m) 0 := by
            have : 2 * (m + 1 + 1) = 2 * m + 1 + 1 + 1 + 1 := by omega
            rw [this]
            simp only [List.flatten_cons, List.cons_append, List.nil_append, List.getD_cons_succ]
          rw [hget]
          constructor
          · intro h
            obtain ⟨hb, hlen⟩ := this.1 h
            refine ⟨(isBoundary_cons [h1, h2, l1, l2] rest (2 * (m + 1 + 1)) (by simp only [List.length_cons, List.length_nil]; omega)).2 ?_, by simp only [List.length_cons, List.length_nil]; omega⟩
            have e : 2 * (m + 1 + 1) - [h1, h2, l1, l2].length = 2 * m := by simp only [List.length_cons, List.length_nil]; omega
            rw [e]; exact hb
          · intro h
            refine (isBoundary_cons [h1, h2, l1, l2] rest (2 * (m + 1 + 1) + 2) (by simp only [List.length_cons, List.length_nil]; omega)).2 ?_
            have e : 2 * (m + 1 + 1) + 2 - [h1, h2, l1, l2].length = 2 * m + 2 := by simp only [List.length_cons, List.length_nil]; omega
            rw [e]; exact this.2 h

/-- character boundaries of a UTF-16 text are at even offsets -/
theorem ucs_boundary_even (chars : List (List Nat)) (hseg : UcsSeg chars) (b : Nat) (hb : IsBoundary chars b) :
    b % 2 = 0 := by
  obtain ⟨k, hk, rfl⟩ := hb
  clear hk
  induction chars generalizing k with
  | nil => simp
  | cons c rest ih =>
    cases k with
    | zero => simp
    | succ k =>
      have hc := hseg c (by simp)
      have := ih (fun x hx => hseg x (by simp [hx])) k
      simp only [List.take_succ_cons, List.flatten_cons, List.length_append]
      rcases hc with ⟨a, b, rfl, _, _⟩ | ⟨h1, h2, l1, l2, rfl, _, _⟩ <;>
        (simp only [List.length_cons, List.length_nil]; omega)

/-- **the surrogate rule is sound**: for UTF-16BE text and an even capacity of at least four octets
    the cut chosen by the code is a character boundary -/
theorem C14_ucs2_rule_sound (chars : List (List Nat)) (hseg : UcsSeg chars) (per : Nat) (hper : 4 ≤ per)
    (heven : per % 2 = 0) :
    BoundarySound ucs2Boundary chars per ∧
    (∀ b, IsBoundary chars b → b + per < chars.flatten.length →
      b < ucs2Boundary chars.flatten b (b + per) ∧ ucs2Boundary chars.flatten b (b + per) ≤ b + per) := by
  constructor
  · intro b hb hlt _ _
    have hbe := ucs_boundary_even chars hseg b hb
    obtain ⟨m, hm⟩ : ∃ m, b + per - 2 = 2 * m := ⟨(b + per - 2) / 2, by omega⟩
    have key := ucs_boundary_unit chars hseg m (by omega)
    rw [← hm] at key
    have e1 : b + per - 2 + 2 = b + per := by omega
    rw [e1] at key
    unfold ucs2Boundary
    by_cases hs : chars.flatten.getD (b + per - 2) 0 / 4 = 0x36
    · have : b + per - b ≥ 4 := by omega
      have h36 : (0xD8 : Nat) / 4 = 0x36 := by decide
      simp only [this, hs, h36, and_self, if_true]
      exact (key.1 hs).1
    · have h36 : (0xD8 : Nat) / 4 = 0x36 := by decide
      simp only [h36, hs, and_false, if_false]
      exact key.2 hs
  · intro b _ _
    unfold ucs2Boundary
    split <;> omega

/-- **standalone_decodable (UCS-2)**: every cut the splitter makes in a UTF-16BE message is a
    character boundary: no surrogate pair straddles two parts -/
theorem C14_ucs2_cuts_are_boundaries (chars : List (List Nat)) (hseg : UcsSeg chars) (per : Nat) (hper : 4 ≤ per)
    (heven : per % 2 = 0) :
    ∀ e ∈ cutPoints ucs2Boundary chars.flatten per (chars.flatten.length + 1) 0, IsBoundary chars e :=
  cuts_on_boundaries ucs2Boundary chars per (C14_ucs2_rule_sound chars hseg per hper heven).1
    (C14_ucs2_rule_sound chars hseg per hper heven).2 _ 0 (isBoundary_zero chars)

/-- U+4F60, U+1F600 (D83D DE00), U+597D -/
example : UcsSeg [[0x4F, 0x60], [0xD8, 0x3D, 0xDE, 0x00], [0x59, 0x7D]] := by
  intro c hc
  simp at hc
  rcases hc with rfl | rfl | rfl
  · exact Or.inl ⟨_, _, rfl, by decide, by decide⟩
  · exact Or.inr ⟨_, _, _, _, rfl, by decide, by decide⟩
  · exact Or.inl ⟨_, _, rfl, by decide, by decide⟩

/-! ### GB18030: one, two and four octet characters -/

/-- a GB18030 octet string segmented into characters -/
def GbSeg (chars : List (List Nat)) : Prop :=
  ∀ c ∈ chars, (∃ a, c = [a] ∧ (a < 0x81 ∨ a = 0xFF)) ∨
    (∃ a b, c = [a, b] ∧ 0x81 ≤ a ∧ a ≠ 0xFF ∧ ¬ (0x30 ≤ b ∧ b ≤ 0x39)) ∨
    (∃ a b c' d, c = [a, b, c', d] ∧ 0x81 ≤ a ∧ a ≠ 0xFF ∧ 0x30 ≤ b ∧ b ≤ 0x39)

theorem getD_append_shift (c l : List Nat) (i : Nat) : (c ++ l).getD (c.length + i) 0 = l.getD i 0 := by
  simp [List.getD_eq_getElem?_getD, List.getElem?_append_right]

theorem gbCharLen_shift (c l : List Nat) (i : Nat) : gbCharLen (c ++ l) (c.length + i) = gbCharLen l i := by
  unfold gbCharLen
  rw [getD_append_shift, show c.length + i + 1 = c.length + (i + 1) by omega, getD_append_shift]

theorem isBoundary_pos_ge (c : List Nat) (rest : List (List Nat)) (p : Nat) (hb : IsBoundary (c :: rest) p)
    (hp : 0 < p) : c.length ≤ p := by
  obtain ⟨k, _, rfl⟩ := hb
  cases k with
  | zero => simp at hp
  | succ k => simp only [List.take_succ_cons, List.flatten_cons, List.length_append]; omega

/-- scanning from a character boundary, the length the code computes is the length of the character
    that starts there: the next scan position is again a boundary -/
theorem gb_step (chars : List (List Nat)) (hseg : GbSeg chars) (p : Nat) (hb : IsBoundary chars p)
    (hlt : p < chars.flatten.length) :
    IsBoundary chars (p + gbCharLen chars.flatten p) ∧ 1 ≤ gbCharLen chars.flatten p ∧
      gbCharLen chars.flatten p ≤ 4 ∧ p + gbCharLen chars.flatten p ≤ chars.flatten.length := by
  induction chars generalizing p with
  | nil => simp at hlt
  | cons c rest ih =>
    have hc := hseg c (by simp)
    have hrest : GbSeg rest := fun x hx => hseg x (by simp [hx])
    by_cases hp0 : p = 0
    · subst hp0
      simp only [Nat.zero_add]
      rcases hc with ⟨a, rfl, ha⟩ | ⟨a, b, rfl, ha1, ha2, hb2⟩ | ⟨a, b, c', d, rfl, ha1, ha2, hb1, hb2⟩
      · have : gbCharLen ([[a]] ++ rest).flatten 0 = 1 := by
          simp only [gbCharLen, List.flatten_cons, List.cons_append, List.nil_append, List.getD_cons_zero]
          simp [ha]
        simp only [List.cons_append, List.nil_append] at this
        rw [this]
        exact ⟨⟨1, by simp, by simp⟩, by omega, by omega, by simp [flatten_cons_length]⟩
      · have : gbCharLen ([a, b] :: rest).flatten 0 = 2 := by
          simp only [gbCharLen, List.flatten_cons, List.cons_append, List.nil_append, List.getD_cons_zero,
            List.getD_cons_succ]
          have h1 : ¬ (a < 0x81 ∨ a = 0xFF) := by omega
          simp [h1, hb2]
        rw [this]
        exact ⟨⟨1, by simp, by simp⟩, by omega, by omega, by simp [flatten_cons_length]⟩
      · have : gbCharLen ([a, b, c', d] :: rest).flatten 0 = 4 := by
          simp only [gbCharLen, List.flatten_cons, List.cons_append, List.nil_append, List.getD_cons_zero,
            List.getD_cons_succ]
          have h1 : ¬ (a < 0x81 ∨ a = 0xFF) := by omega
          simp [h1, hb1, hb2]
        rw [this]
        exact ⟨⟨1, by simp, by simp⟩, by omega, by omega, by simp [flatten_cons_length]⟩
    · have hge := isBoundary_pos_ge c rest p hb (by omega)
      obtain ⟨p', rfl⟩ : ∃ p', p = c.length + p' := ⟨p - c.length, by omega⟩
      have hb' : IsBoundary rest p' := by
        have := (isBoundary_cons c rest (c.length + p') (by omega)).1 hb
        simpa using this
      rw [flatten_cons_length] at hlt
      obtain ⟨i1, i2, i3, i4⟩ := ih hrest p' hb' (by omega)
      have hshift : gbCharLen (c :: rest).flatten (c.length + p') = gbCharLen rest.flatten p' := by
        simp only [List.flatten_cons]; exact gbCharLen_shift c rest.flatten p'
      rw [hshift, flatten_cons_length]
      refine ⟨?_, i2, i3, by omega⟩
      refine (isBoundary_cons c rest _ (by omega)).2 ?_
      have e : c.length + p' + gbCharLen rest.flatten p' - c.length = p' + gbCharLen rest.flatten p' := by omega
      rw [e]; exact i1

/-- the scan only ever stands on character boundaries, never passes `e`, never goes back -/
theorem gbScan_boundary (chars : List (List Nat)) (hseg : GbSeg chars) (e : Nat) (he : e ≤ chars.flatten.length) :
    ∀ (fuel pos : Nat), IsBoundary chars pos → pos ≤ e →
      IsBoundary chars (gbScan chars.flatten e fuel pos) ∧ pos ≤ gbScan chars.flatten e fuel pos ∧
        gbScan chars.flatten e fuel pos ≤ e
  | 0, pos, hb, hle => by simp only [gbScan]; exact ⟨hb, Nat.le_refl _, hle⟩
  | fuel+1, pos, hb, hle => by
    simp only [gbScan]
    split
    · rename_i hnxt
      have hlt : pos < chars.flatten.length := by
        rcases Nat.lt_or_ge pos chars.flatten.length with h | h
        · exact h
        · -- at the end of the data the computed length is 1 (a missing octet reads as 0)
          exfalso
          have : gbCharLen chars.flatten pos = 1 := by
            simp [gbCharLen, List.getD_eq_getElem?_getD, List.getElem?_eq_none h]
          omega
      obtain ⟨s1, s2, _, _⟩ := gb_step chars hseg pos hb hlt
      obtain ⟨r1, r2, r3⟩ := gbScan_boundary chars hseg e he fuel _ s1 hnxt
      exact ⟨r1, by omega, r3⟩
    · exact ⟨hb, Nat.le_refl _, hle⟩

/-- **the GB18030 rule is sound**: with a capacity of at least four octets the cut chosen by the code
    is a character boundary strictly after the previous one -/
theorem C14_gb18030_rule_sound (chars : List (List Nat)) (hseg : GbSeg chars) (per : Nat) (hper : 4 ≤ per) :
    BoundarySound gbBoundary chars per ∧
    (∀ b, IsBoundary chars b → b + per < chars.flatten.length →
      b < gbBoundary chars.flatten b (b + per) ∧ gbBoundary chars.flatten b (b + per) ≤ b + per) := by
  have key : ∀ b, IsBoundary chars b → b + per < chars.flatten.length →
      IsBoundary chars (gbScan chars.flatten (b + per) (b + per - b) b) ∧
      b < gbScan chars.flatten (b + per) (b + per - b) b ∧ gbScan chars.flatten (b + per) (b + per - b) b ≤ b + per := by
    intro b hb hlt
    obtain ⟨f, hf⟩ : ∃ f, b + per - b = f + 1 := ⟨per - 1, by omega⟩
    rw [hf]
    simp only [gbScan]
    obtain ⟨s1, s2, s3, _⟩ := gb_step chars hseg b hb (by omega)
    have hn : b + gbCharLen chars.flatten b ≤ b + per := by omega
    rw [if_pos hn]
    obtain ⟨r1, r2, r3⟩ := gbScan_boundary chars hseg (b + per) (by omega) f _ s1 hn
    exact ⟨r1, by omega, r3⟩
  constructor
  · intro b hb hlt _ _
    obtain ⟨k1, k2, _⟩ := key b hb hlt
    unfold gbBoundary
    simp only [k2, if_true]
    exact k1
  · intro b hb hlt
    obtain ⟨_, k2, k3⟩ := key b hb hlt
    unfold gbBoundary
    simp only [k2, if_true]
    exact ⟨trivial, k3⟩

/-- **standalone_decodable (GB18030)** -/
theorem C14_gb18030_cuts_are_boundaries (chars : List (List Nat)) (hseg : GbSeg chars) (per : Nat) (hper : 4 ≤ per) :
    ∀ e ∈ cutPoints gbBoundary chars.flatten per (chars.flatten.length + 1) 0, IsBoundary chars e :=
  cuts_on_boundaries gbBoundary chars per (C14_gb18030_rule_sound chars hseg per hper).1
    (C14_gb18030_rule_sound chars hseg per hper).2 _ 0 (isBoundary_zero chars)

/-- 'A', U+4F60 (C4 E3), U+1F600 (94 39 FC 36) -/
example : GbSeg [[0x41], [0xC4, 0xE3], [0x94, 0x39, 0xFC, 0x36]] := by
  intro c hc
  simp at hc
  rcases hc with rfl | rfl | rfl
  · exact Or.inl ⟨_, rfl, by decide⟩
  · exact Or.inr (Or.inl ⟨_, _, rfl, by decide, by decide, by decide⟩)
  · exact Or.inr (Or.inr ⟨_, _, _, _, rfl, by decide, by decide, by decide, by decide⟩)

/-! ### parts are filled as far as whole characters allow (C07) -/

/-- an offset strictly inside the first character is not a boundary -/
theorem not_boundary_inside_head (c : List Nat) (rest : List (List Nat)) (q : Nat) (h0 : 0 < q) (h1 : q < c.length) :
    ¬ IsBoundary (c :: rest) q := by
  rintro ⟨k, _, hk⟩
  cases k with
  | zero => simp at hk; omega
  | succ k => simp only [List.take_succ_cons, List.flatten_cons, List.length_append] at hk; omega

/-- GSM 7-bit: the offset right after an escape septet that starts a character is inside that character -/
theorem gsm_esc_next_not_boundary (chars : List (List Nat)) (hseg : GsmSeg chars) (q : Nat)
    (hq : q < chars.flatten.length) (hesc : chars.flatten.getD q 0 = Gsm7.esc) : ¬ IsBoundary chars (q + 1) := by
  induction chars generalizing q with
  | nil => simp at hq
  | cons c rest ih =>
    have hc := hseg c (by simp)
    have hrest : GsmSeg rest := fun x hx => hseg x (by simp [hx])
    rw [flatten_cons_length] at hq
    rcases hc with ⟨x, rfl, hx⟩ | ⟨y, rfl, hy⟩
    · cases q with
      | zero => simp [List.flatten_cons] at hesc; exact absurd hesc hx
      | succ q =>
        have hget : ([x] :: rest).flatten.getD (q + 1) 0 = rest.flatten.getD q 0 := by
          simp only [List.flatten_cons, List.singleton_append, List.getD_cons_succ]
        rw [hget] at hesc
        intro hb
        have := (isBoundary_cons [x] rest (q + 1 + 1) (by simp)).1 hb
        exact ih hrest q (by simp only [List.length_cons, List.length_nil] at hq; omega) hesc (by simpa using this)
    · cases q with
      | zero => exact not_boundary_inside_head [Gsm7.esc, y] rest 1 (by omega) (by simp)
      | succ q =>
        cases q with
        | zero =>
          simp only [List.flatten_cons, List.cons_append, List.nil_append, List.getD_cons_succ, List.getD_cons_zero] at hesc
          exact absurd hesc hy
        | succ q =>
          have hget : ([Gsm7.esc, y] :: rest).flatten.getD (q + 1 + 1) 0 = rest.flatten.getD q 0 := by
            simp only [List.flatten_cons, List.cons_append, List.nil_append, List.getD_cons_succ]
          rw [hget] at hesc
          intro hb
          have := (isBoundary_cons [Gsm7.esc, y] rest (q + 1 + 1 + 1) (by simp)).1 hb
          exact ih hrest q (by simp only [List.length_cons, List.length_nil] at hq; omega) hesc (by simpa using this)

/-- **parts are filled (GSM 7-bit)**: between the cut the code chooses and the capacity there is no
    character boundary: the part could not have held one more whole character -/
theorem C07_filled_gsm (chars : List (List Nat)) (hseg : GsmSeg chars) (per : Nat) (b : Nat)
    (hlt : b + per < chars.flatten.length) (q : Nat)
    (h1 : gsmBoundary chars.flatten b (b + per) < q) (h2 : q ≤ b + per) : ¬ IsBoundary chars q := by
  unfold gsmBoundary at h1
  split at h1
  · rename_i hc
    have hq : q = b + per - 1 + 1 := by omega
    rw [hq]
    exact gsm_esc_next_not_boundary chars hseg (b + per - 1) (by omega) hc.2
  · omega

/-- UTF-16BE: the offset two octets after a high surrogate is inside the pair -/
theorem ucs_high_next_not_boundary (chars : List (List Nat)) (hseg : UcsSeg chars) (m : Nat)
    (hq : 2 * m + 2 ≤ chars.flatten.length) (hhi : chars.flatten.getD (2 * m) 0 / 4 = 0x36) :
    ¬ IsBoundary chars (2 * m + 2) := by
  induction chars generalizing m with
  | nil => simp at hq
  | cons c rest ih =>
    have hc := hseg c (by simp)
    have hrest : UcsSeg rest := fun x hx => hseg x (by simp [hx])
    rw [flatten_cons_length] at hq
    rcases hc with ⟨a, b, rfl, ha1, ha2⟩ | ⟨h1, h2, l1, l2, rfl, hh, hl⟩
    · cases m with
      | zero =>
        simp only [Nat.mul_zero, List.flatten_cons, List.cons_append, List.nil_append, List.getD_cons_zero] at hhi
        exact absurd hhi ha1
      | succ m =>
        have hget : ([a, b] :: rest).flatten.getD (2 * (m + 1)) 0 = rest.flatten.getD (2 * m) 0 := by
          have : 2 * (m + 1) = 2 * m + 1 + 1 := by omega
          rw [this]
          simp only [List.flatten_cons, List.cons_append, List.nil_append, List.getD_cons_succ]
        rw [hget] at hhi
        intro hb
        have := (isBoundary_cons [a, b] rest (2 * (m + 1) + 2) (by simp only [List.length_cons, List.length_nil]; omega)).1 hb
        have e : 2 * (m + 1) + 2 - [a, b].length = 2 * m + 2 := by simp only [List.length_cons, List.length_nil]; omega
        rw [e] at this
        exact ih hrest m (by simp only [List.length_cons, List.length_nil] at hq; omega) hhi this
    · cases m with
      | zero => exact not_boundary_inside_head [h1, h2, l1, l2] rest 2 (by omega) (by simp)
      | succ m =>
        cases m with
        | zero =>
          simp only [List.flatten_cons, List.cons_append, List.nil_append, List.getD_cons_succ, List.getD_cons_zero] at hhi
          rw [hl] at hhi; omega
        | succ m =>
          have hget : ([h1, h2, l1, l2] :: rest).flatten.getD (2 * (m + 1 + 1)) 0 = rest.flatten.getD (2 * m) 0 := by
            have : 2 * (m + 1 + 1) = 2 * m + 1 + 1 + 1 + 1 := by omega
            rw [this]
            simp only [List.flatten_cons, List.cons_append, List.nil_append, List.getD_cons_succ]
          rw [hget] at hhi
          intro hb
          have := (isBoundary_cons [h1, h2, l1, l2] rest (2 * (m + 1 + 1) + 2) (by simp only [List.length_cons, List.length_nil]; omega)).1 hb
          have e : 2 * (m + 1 + 1) + 2 - [h1, h2, l1, l2].length = 2 * m + 2 := by
            simp only [List.length_cons, List.length_nil]; omega
          rw [e] at this
          exact ih hrest m (by simp only [List.length_cons, List.length_nil] at hq; omega) hhi this

/-- **parts are filled (UCS-2)** -/
theorem C07_filled_ucs2 (chars : List (List Nat)) (hseg : UcsSeg chars) (per : Nat) (heven : per % 2 = 0) (b : Nat)
    (hb : IsBoundary chars b) (hlt : b + per < chars.flatten.length) (q : Nat)
    (h1 : ucs2Boundary chars.flatten b (b + per) < q) (h2 : q ≤ b + per) : ¬ IsBoundary chars q := by
  have hbe := ucs_boundary_even chars hseg b hb
  unfold ucs2Boundary at h1
  split at h1
  · rename_i hc
    intro hq
    have hqe := ucs_boundary_even chars hseg q hq
    have hqv : q = b + per := by omega
    obtain ⟨m, hm⟩ : ∃ m, b + per - 2 = 2 * m := ⟨(b + per - 2) / 2, by omega⟩
    have h36 : (0xD8 : Nat) / 4 = 0x36 := by decide
    rw [h36, hm] at hc
    have := ucs_high_next_not_boundary chars hseg m (by omega) hc.2
    rw [← hm] at this
    have e : b + per - 2 + 2 = q := by omega
    rw [e] at this
    exact this hq
  · omega

theorem gbCharLen_pos (d : List Nat) (i : Nat) : 1 ≤ gbCharLen d i := by
  unfold gbCharLen; simp only; split <;> (try split) <;> omega

/-- GB18030: no boundary strictly inside the character that starts at a boundary -/
theorem gb_no_boundary_inside (chars : List (List Nat)) (hseg : GbSeg chars) (p : Nat) (hb : IsBoundary chars p)
    (hlt : p < chars.flatten.length) (q : Nat) (h1 : p < q) (h2 : q < p + gbCharLen chars.flatten p) :
    ¬ IsBoundary chars q := by
  induction chars generalizing p q with
  | nil => simp at hlt
  | cons c rest ih =>
    have hc := hseg c (by simp)
    have hrest : GbSeg rest := fun x hx => hseg x (by simp [hx])
    by_cases hp0 : p = 0
    · subst hp0
      -- the computed length is the length of the first character
      have hlen : gbCharLen (c :: rest).flatten 0 = c.length := by
        rcases hc with ⟨a, rfl, ha⟩ | ⟨a, b, rfl, ha1, ha2, hb2⟩ | ⟨a, b, c', d, rfl, ha1, ha2, hb1, hb2⟩
        · simp only [gbCharLen, List.flatten_cons, List.cons_append, List.nil_append, List.getD_cons_zero]
          simp [ha]
        · simp only [gbCharLen, List.flatten_cons, List.cons_append, List.nil_append, List.getD_cons_zero,
            List.getD_cons_succ]
          have h1 : ¬ (a < 0x81 ∨ a = 0xFF) := by omega
          simp [h1, hb2]
        · simp only [gbCharLen, List.flatten_cons, List.cons_append, List.nil_append, List.getD_cons_zero,
            List.getD_cons_succ]
          have h1 : ¬ (a < 0x81 ∨ a = 0xFF) := by omega
          simp [h1, hb1, hb2]
      rw [hlen] at h2
      exact not_boundary_inside_head c rest q h1 (by omega)
    · have hge := isBoundary_pos_ge c rest p hb (by omega)
      obtain ⟨p', rfl⟩ : ∃ p', p = c.length + p' := ⟨p - c.length, by omega⟩
      have hb' : IsBoundary rest p' := by
        have := (isBoundary_cons c rest (c.length + p') (by omega)).1 hb
        simpa using this
      rw [flatten_cons_length] at hlt
      have hshift : gbCharLen (c :: rest).flatten (c.length + p') = gbCharLen rest.flatten p' := by
        simp only [List.flatten_cons]; exact gbCharLen_shift c rest.flatten p'
      rw [hshift] at h2
      intro hq
      have hq' := (isBoundary_cons c rest q (by omega)).1 hq
      exact ih hrest p' hb' (by omega) (q - c.length) (by omega) (by omega) hq'

/-- with enough fuel the scan stops only where the next character would pass `e` -/
theorem gbScan_stops (d : List Nat) (e : Nat) : ∀ (fuel pos : Nat), e - pos ≤ fuel → pos ≤ e →
    e < gbScan d e fuel pos + gbCharLen d (gbScan d e fuel pos)
  | 0, pos, hf, hle => by
    simp only [gbScan]
    have := gbCharLen_pos d pos
    omega
  | fuel+1, pos, hf, hle => by
    simp only [gbScan]
    split
    · rename_i hn
      have := gbCharLen_pos d pos
      exact gbScan_stops d e fuel _ (by omega) hn
    · omega

/-- **parts are filled (GB18030)** -/
theorem C07_filled_gb18030 (chars : List (List Nat)) (hseg : GbSeg chars) (per : Nat) (hper : 4 ≤ per) (b : Nat)
    (hb : IsBoundary chars b) (hlt : b + per < chars.flatten.length) (q : Nat)
    (h1 : gbBoundary chars.flatten b (b + per) < q) (h2 : q ≤ b + per) : ¬ IsBoundary chars q := by
  obtain ⟨r1, r2, r3⟩ := gbScan_boundary chars hseg (b + per) (by omega) (b + per - b) b hb (by omega)
  have hstop := gbScan_stops chars.flatten (b + per) (b + per - b) b (by omega) (by omega)
  have hprog := ((C14_gb18030_rule_sound chars hseg per hper).2 b hb hlt).1
  unfold gbBoundary at h1 hprog
  simp only at h1 hprog
  split at h1
  · exact gb_no_boundary_inside chars hseg _ r1 (by omega) q h1 (by omega)
  · rename_i hn
    rw [if_neg hn] at hprog
    omega

example : GsmSeg [[0x31], [Gsm7.esc, 0x3C], [0x00]] := by
  intro c hc
  simp at hc
  rcases hc with rfl | rfl | rfl
  · exact Or.inl ⟨_, rfl, by decide⟩
  · exact Or.inr ⟨_, rfl, by decide⟩
  · exact Or.inl ⟨_, rfl, by decide⟩


/-! ### the encoders emit segmented strings: the segmentation hypotheses discharged

  For ASCII, Windows-1252, UTF-16BE and GSM 7-bit the encoder is modelled (`Model/Text.lean`,
  `Model/Gsm7.lean`, tied to `datacoding` by C05 / C08), so "the message is a sequence of whole
  characters" is a theorem about the encoder's output rather than an assumption.  (GB18030 is
  golang.org/x/text and stays an assumption.) -/

open SmsVerif.Text in
/-- the octets of each scalar of a text under a per-scalar coding -/
def codeChars (c : Text.Coding) (text : List Nat) : List (List Nat) := text.map fun s => (c.code s).getD []

open SmsVerif.Text in
theorem encodeAll_chars (c : Coding) (text out : List Nat) (h : encodeAll c text = some out) :
    (codeChars c text).flatten = out ∧ ∀ s ∈ text, ∃ u, c.code s = some u := by
  induction text generalizing out with
  | nil => simp [encodeAll] at h; subst h; simp [codeChars]
  | cons s rest ih =>
    simp only [encodeAll] at h
    cases hc : c.code s with
    | none => simp [hc] at h
    | some u =>
      simp only [hc, Option.map_eq_some_iff] at h
      obtain ⟨r, hr, rfl⟩ := h
      obtain ⟨h1, h2⟩ := ih r hr
      refine ⟨by simp [codeChars, hc] at h1 ⊢; rw [h1], ?_⟩
      intro x hx
      simp only [List.mem_cons] at hx
      rcases hx with rfl | hx
      · exact ⟨u, hc⟩
      · exact h2 x hx

open SmsVerif.Text in
/-- UTF-16BE: every scalar becomes one non-surrogate unit or one surrogate pair -/
theorem utf16_chars_seg (text out : List Nat) (h : encodeAll utf16 text = some out) :
    UcsSeg (codeChars utf16 text) := by
  obtain ⟨_, hall⟩ := encodeAll_chars utf16 text out h
  intro c hc
  simp only [codeChars, List.mem_map] at hc
  obtain ⟨s, hs, rfl⟩ := hc
  obtain ⟨u, hu⟩ := hall s hs
  rw [hu]
  simp only [utf16] at hu
  split at hu
  · simp at hu
  · rename_i hsc
    simp only [isScalar, Bool.or_eq_true, decide_eq_true_eq, Bool.and_eq_true, Decidable.not_not] at hsc
    split at hu
    · simp only [Option.some.injEq] at hu; subst hu
      left
      exact ⟨_, _, rfl, by omega, by omega⟩
    · simp only [Option.some.injEq] at hu; subst hu
      right
      exact ⟨_, _, _, _, rfl, by omega, by omega⟩

open SmsVerif.Text in
/-- **C14_ucs2_text_never_split**: for every text the UCS-2 encoder accepts, every cut the splitter
    makes in the encoded message falls between two scalars — no assumption on the octets. -/
theorem C14_ucs2_text_never_split (text out : List Nat) (h : encodeAll utf16 text = some out)
    (per : Nat) (hper : 4 ≤ per) (heven : per % 2 = 0) :
    ∀ e ∈ cutPoints ucs2Boundary out per (out.length + 1) 0, IsBoundary (codeChars utf16 text) e := by
  have hf := (encodeAll_chars utf16 text out h).1
  have := C14_ucs2_cuts_are_boundaries (codeChars utf16 text) (utf16_chars_seg text out h) per hper heven
  rw [hf] at this
  exact this

open SmsVerif.Text in
/-- single-octet codings (ASCII, Windows-1252): every scalar is one octet, every cut is a boundary -/
theorem C14_single_octet_text_never_split (c : Coding) (h1 : ∀ s u, c.code s = some u → u.length = 1)
    (text out : List Nat) (h : encodeAll c text = some out) (per : Nat) (hper : 0 < per) :
    ∀ e ∈ cutPoints noBoundary out per (out.length + 1) 0, IsBoundary (codeChars c text) e := by
  obtain ⟨hf, hall⟩ := encodeAll_chars c text out h
  have hlen : ∀ ch ∈ codeChars c text, ch.length = 1 := by
    intro ch hch
    simp only [codeChars, List.mem_map] at hch
    obtain ⟨s, hs, rfl⟩ := hch
    obtain ⟨u, hu⟩ := hall s hs
    rw [hu]; exact h1 s u hu
  have := C14_plain_cuts_are_boundaries (codeChars c text) hlen per hper
  rw [hf] at this
  exact this

/-- GSM 7-bit: the septets of each code point -/
def gsmChars (t : Gsm7.Tables) (text : List Nat) : List (List Nat) :=
  text.map fun c =>
    match Gsm7.lookup t.fwd c with
    | some v => [v]
    | none => match Gsm7.lookup t.fwdEsc c with
      | some v => [Gsm7.esc, v]
      | none => []

theorem lookup_mem (tbl : List (Nat × Nat)) (k v : Nat) (h : Gsm7.lookup tbl k = some v) : (k, v) ∈ tbl := by
  induction tbl with
  | nil => simp [Gsm7.lookup] at h
  | cons kv rest ih =>
    obtain ⟨a, b⟩ := kv
    simp only [Gsm7.lookup] at h
    split at h
    · rename_i hab; simp at h; subst h; subst hab; simp
    · exact List.mem_cons_of_mem _ (ih h)

/-- no character of the regenerated alphabet is coded as ESC, neither directly nor after an ESC -/
theorem gsm_tables_avoid_esc :
    (C08.T.fwd.all fun kv => kv.2 != Gsm7.esc) = true ∧ (C08.T.fwdEsc.all fun kv => kv.2 != Gsm7.esc) = true := by
  decide +kernel

theorem gsm_encode_chars (text s : List Nat) (h : Gsm7.encode C08.T text = some s) :
    (gsmChars C08.T text).flatten = s ∧ GsmSeg (gsmChars C08.T text) := by
  induction text generalizing s with
  | nil => simp [Gsm7.encode] at h; subst h; simp [gsmChars, GsmSeg]
  | cons c cs ih =>
    simp only [Gsm7.encode] at h
    cases h1 : Gsm7.lookup C08.T.fwd c with
    | some v =>
      simp only [h1, Option.map_eq_some_iff] at h
      obtain ⟨r, hr, rfl⟩ := h
      obtain ⟨hf, hseg⟩ := ih r hr
      have hv : v ≠ Gsm7.esc := by
        have := List.all_eq_true.1 gsm_tables_avoid_esc.1 _ (lookup_mem _ _ _ h1)
        simpa using this
      have hcons : gsmChars C08.T (c :: cs) = [v] :: gsmChars C08.T cs := by simp [gsmChars, h1]
      refine ⟨by rw [hcons, List.flatten_cons, hf]; rfl, ?_⟩
      intro ch hch
      rw [hcons, List.mem_cons] at hch
      rcases hch with rfl | hch
      · exact Or.inl ⟨v, rfl, hv⟩
      · exact hseg ch hch
    | none =>
      simp only [h1] at h
      cases h2 : Gsm7.lookup C08.T.fwdEsc c with
      | none => simp [h2] at h
      | some v =>
        simp only [h2, Option.map_eq_some_iff] at h
        obtain ⟨r, hr, rfl⟩ := h
        obtain ⟨hf, hseg⟩ := ih r hr
        have hv : v ≠ Gsm7.esc := by
          have := List.all_eq_true.1 gsm_tables_avoid_esc.2 _ (lookup_mem _ _ _ h2)
          simpa using this
        have hcons : gsmChars C08.T (c :: cs) = [Gsm7.esc, v] :: gsmChars C08.T cs := by simp [gsmChars, h1, h2]
        refine ⟨by rw [hcons, List.flatten_cons, hf]; rfl, ?_⟩
        intro ch hch
        rw [hcons, List.mem_cons] at hch
        rcases hch with rfl | hch
        · exact Or.inr ⟨v, rfl, hv⟩
        · exact hseg ch hch

/-- **C14_gsm_text_never_split**: for every text the GSM 7-bit encoder accepts, no cut separates an
    ESC from the septet it introduces -/
theorem C14_gsm_text_never_split (text s : List Nat) (h : Gsm7.encode C08.T text = some s) (per : Nat) (hper : 2 ≤ per) :
    ∀ e ∈ cutPoints gsmBoundary s per (s.length + 1) 0, IsBoundary (gsmChars C08.T text) e := by
  obtain ⟨hf, hseg⟩ := gsm_encode_chars text s h
  have := C14_gsm_cuts_are_boundaries (gsmChars C08.T text) hseg per hper
  rw [hf] at this
  exact this

/-! ### the property as stated: decoding the parts separately and concatenating gives the text -/

theorem take_flatten_mono (chars : List (List Nat)) (a b : Nat) (h : a ≤ b) :
    (chars.take a).flatten.length ≤ (chars.take b).flatten.length := by
  have : chars.take b = chars.take a ++ (chars.take b).drop a := by
    have := List.take_append_drop a (chars.take b)
    rw [List.take_take, Nat.min_eq_left h] at this
    exact this.symm
  rw [this, List.flatten_append, List.length_append]; omega

/-- cut points that are character boundaries slice the flattened text into groups of whole characters -/
theorem slices_are_groups (chars : List (List Nat)) (hne : ∀ c ∈ chars, c ≠ []) (per : Nat) :
    ∀ (cuts : List Nat) (b k0 : Nat), k0 ≤ chars.length → b = (chars.take k0).flatten.length →
      Partition per chars.flatten.length b cuts → (∀ e ∈ cuts, IsBoundary chars e) →
      ∃ segs : List (List (List Nat)), segs.flatten = chars.drop k0 ∧
        slices chars.flatten b cuts = segs.map List.flatten := by
  intro cuts
  induction cuts with
  | nil =>
    intro b k0 hk hb hp _
    simp only [Partition] at hp
    refine ⟨[], ?_, rfl⟩
    -- nothing is left after `k0`
    have hlen : (chars.drop k0).flatten.length = 0 := by
      have := congrArg List.length (congrArg List.flatten (List.take_append_drop k0 chars))
      rw [List.flatten_append, List.length_append] at this
      omega
    cases hd : chars.drop k0 with
    | nil => rfl
    | cons c rest =>
      have hc : c ∈ chars := List.mem_of_mem_drop (by rw [hd]; simp)
      have := hne c hc
      rw [hd] at hlen
      simp only [List.flatten_cons, List.length_append] at hlen
      cases c with
      | nil => exact absurd rfl this
      | cons x xs => simp at hlen
  | cons e rest ih =>
    intro b k0 hk hb hp hbd
    obtain ⟨h1, _, h3, h4⟩ := hp
    obtain ⟨k1, hk1, he⟩ := hbd e (by simp)
    have hlt : k0 < k1 := by
      rcases Nat.lt_or_ge k0 k1 with h | h
      · exact h
      · have := take_flatten_mono chars k1 k0 h
        omega
    obtain ⟨segs, hsegs, hsl⟩ := ih e k1 hk1 he h4 (fun x hx => hbd x (by simp [hx]))
    refine ⟨(chars.drop k0).take (k1 - k0) :: segs, ?_, ?_⟩
    · simp only [List.flatten_cons, hsegs]
      have : chars.drop k1 = (chars.drop k0).drop (k1 - k0) := by
        rw [List.drop_drop]; congr 1; omega
      rw [this, List.take_append_drop]
    · simp only [slices, List.map_cons, hsl, List.cons.injEq, and_true]
      -- the first slice
      have hd : chars.flatten.drop b = (chars.drop k0).flatten := by
        have h := List.take_append_drop k0 chars
        conv => lhs; rw [← h, List.flatten_append, hb]
        simp
      rw [hd]
      have hsplit : chars.drop k0 = (chars.drop k0).take (k1 - k0) ++ (chars.drop k0).drop (k1 - k0) :=
        (List.take_append_drop _ _).symm
      have hlen : e - b = ((chars.drop k0).take (k1 - k0)).flatten.length := by
        have h1' : chars.take k1 = chars.take k0 ++ (chars.drop k0).take (k1 - k0) := by
          have := @List.take_add _ chars k0 (k1 - k0)
          rw [show k0 + (k1 - k0) = k1 by omega] at this
          exact this
        rw [he, hb, h1', List.flatten_append, List.length_append]; omega
      conv => lhs; rw [hsplit, List.flatten_append, hlen]
      simp

open SmsVerif.Text in
theorem encodeAll_of_codes (c : Coding) (t : List Nat) (h : ∀ s ∈ t, ∃ u, c.code s = some u) :
    encodeAll c t = some (codeChars c t).flatten := by
  induction t with
  | nil => rfl
  | cons s rest ih =>
    obtain ⟨u, hu⟩ := h s (by simp)
    simp only [encodeAll, hu, ih (fun x hx => h x (by simp [hx])), Option.map_some, codeChars, List.map_cons,
      List.flatten_cons, Option.getD_some]

theorem groups_of_map {α β} (f : α → β) : ∀ (segs : List (List β)) (l : List α), segs.flatten = l.map f →
    ∃ tsegs : List (List α), tsegs.flatten = l ∧ segs = tsegs.map (List.map f)
  | [], l, h => by
    simp only [List.flatten_nil] at h
    have : l = [] := by simpa using h.symm
    exact ⟨[], by simp [this], rfl⟩
  | seg :: rest, l, h => by
    simp only [List.flatten_cons] at h
    obtain ⟨l1, l2, hl, h1, h2⟩ := List.map_eq_append_iff.1 h.symm
    obtain ⟨ts, hts, hrest⟩ := groups_of_map f rest l2 h2.symm
    exact ⟨l1 :: ts, by simp [hts, hl], by simp [h1, hrest]⟩

open SmsVerif.Text in
/-- **standalone_decodable, at the level of texts** (any per-scalar coding whose cut points are
    character boundaries): the payloads of the parts are the encodings of consecutive pieces of the
    text, each piece decodes on its own to itself, and the pieces concatenate to the text. -/
theorem parts_decode_to_text (c : Coding)
    (h1 : ∀ s u rest, c.code s = some u → c.step (u ++ rest) = some (s, rest))
    (hne : ∀ s u, c.code s = some u → u ≠ [])
    (text out : List Nat) (henc : encodeAll c text = some out) (per : Nat) (cuts : List Nat)
    (hpart : Partition per out.length 0 cuts) (hb : ∀ e ∈ cuts, IsBoundary (codeChars c text) e) :
    ∃ pieces : List (List Nat), pieces.flatten = text ∧
      slices out 0 cuts = pieces.map (fun t => (codeChars c t).flatten) ∧
      ∀ t ∈ pieces, decodeAll c (t.length + 1) (codeChars c t).flatten = some t := by
  obtain ⟨hf, hall⟩ := encodeAll_chars c text out henc
  have hne' : ∀ ch ∈ codeChars c text, ch ≠ [] := by
    intro ch hch
    simp only [codeChars, List.mem_map] at hch
    obtain ⟨s, hs, rfl⟩ := hch
    obtain ⟨u, hu⟩ := hall s hs
    rw [hu]; exact hne s u hu
  obtain ⟨segs, hsegs, hsl⟩ := slices_are_groups (codeChars c text) hne' per cuts 0 0 (Nat.zero_le _) (by simp)
    (by rw [hf]; exact hpart) hb
  rw [hf] at hsl
  simp only [List.drop_zero, codeChars] at hsegs
  obtain ⟨pieces, hp, hsegs'⟩ := groups_of_map (fun s => (c.code s).getD []) segs text hsegs
  refine ⟨pieces, hp, ?_, ?_⟩
  · rw [hsl, hsegs']; simp [codeChars, List.map_map, Function.comp_def]
  · intro t ht
    have hsub : ∀ s ∈ t, ∃ u, c.code s = some u := by
      intro s hs
      exact hall s (by rw [← hp]; exact List.mem_flatten.2 ⟨t, ht, hs⟩)
    exact C05.string_roundtrip c h1 hne t _ (encodeAll_of_codes c t hsub) _ (by omega)

open SmsVerif.Text in
/-- **C14 for UCS-2**: for every text the encoder accepts, with the surrogate-aware rule, the parts
    decoded separately and concatenated give the text -/
theorem C14_ucs2_parts_decode_to_text (text out : List Nat) (h : encodeAll utf16 text = some out)
    (per : Nat) (hper : 4 ≤ per) (heven : per % 2 = 0) :
    ∃ pieces : List (List Nat), pieces.flatten = text ∧
      slices out 0 (cutPoints ucs2Boundary out per (out.length + 1) 0)
        = pieces.map (fun t => (codeChars utf16 t).flatten) ∧
      ∀ t ∈ pieces, decodeAll utf16 (t.length + 1) (codeChars utf16 t).flatten = some t :=
  parts_decode_to_text utf16 C05.utf16_step_code
    (by
      intro s u hu
      simp only [utf16] at hu
      split at hu
      · simp at hu
      · split at hu <;> (simp at hu; subst hu; simp))
    text out h per _
    (cutPoints_partition ucs2Boundary out per (by omega) _ 0 (Nat.zero_le _) (by omega))
    (C14_ucs2_text_never_split text out h per hper heven)

/-- the septets of one code point (as in `gsmChars`) -/
def gsmCode (t : Gsm7.Tables) (c : Nat) : List Nat :=
  match Gsm7.lookup t.fwd c with
  | some v => [v]
  | none => match Gsm7.lookup t.fwdEsc c with
    | some v => [Gsm7.esc, v]
    | none => []

theorem gsmChars_eq_map (t : Gsm7.Tables) (text : List Nat) : gsmChars t text = text.map (gsmCode t) := rfl

def gsmEncodable (t : Gsm7.Tables) (c : Nat) : Prop :=
  (Gsm7.lookup t.fwd c).isSome = true ∨ (Gsm7.lookup t.fwdEsc c).isSome = true

theorem gsm_encode_all_encodable (text s : List Nat) (h : Gsm7.encode C08.T text = some s) :
    ∀ c ∈ text, gsmEncodable C08.T c := by
  induction text generalizing s with
  | nil => simp
  | cons c cs ih =>
    simp only [Gsm7.encode] at h
    intro x hx
    simp only [List.mem_cons] at hx
    cases h1 : Gsm7.lookup C08.T.fwd c with
    | some v =>
      simp only [h1, Option.map_eq_some_iff] at h
      obtain ⟨r, hr, _⟩ := h
      rcases hx with rfl | hx
      · exact Or.inl (by simp [h1])
      · exact ih r hr x hx
    | none =>
      simp only [h1] at h
      cases h2 : Gsm7.lookup C08.T.fwdEsc c with
      | none => simp [h2] at h
      | some v =>
        simp only [h2, Option.map_eq_some_iff] at h
        obtain ⟨r, hr, _⟩ := h
        rcases hx with rfl | hx
        · exact Or.inr (by simp [h2])
        · exact ih r hr x hx

theorem gsm_encode_of_encodable (t : List Nat) (h : ∀ c ∈ t, gsmEncodable C08.T c) :
    Gsm7.encode C08.T t = some (gsmChars C08.T t).flatten := by
  induction t with
  | nil => rfl
  | cons c cs ih =>
    have ihc := ih (fun x hx => h x (by simp [hx]))
    have hc := h c (by simp)
    simp only [Gsm7.encode, gsmChars, List.map_cons, List.flatten_cons]
    cases h1 : Gsm7.lookup C08.T.fwd c with
    | some v => simp [ihc, gsmChars]
    | none =>
      cases h2 : Gsm7.lookup C08.T.fwdEsc c with
      | some v => simp [ihc, gsmChars]
      | none =>
        rcases hc with hc | hc
        · simp [h1] at hc
        · simp [h2] at hc

/-- **C14 for GSM 7-bit**: the parts (septet strings, cut with the escape-aware rule) decoded
    separately and concatenated give the text -/
theorem C14_gsm_parts_decode_to_text (text s : List Nat) (h : Gsm7.encode C08.T text = some s)
    (per : Nat) (hper : 2 ≤ per) :
    ∃ pieces : List (List Nat), pieces.flatten = text ∧
      slices s 0 (cutPoints gsmBoundary s per (s.length + 1) 0)
        = pieces.map (fun t => (gsmChars C08.T t).flatten) ∧
      ∀ t ∈ pieces, Gsm7.decode C08.T (gsmChars C08.T t).flatten = some t := by
  obtain ⟨hf, hseg⟩ := gsm_encode_chars text s h
  have hne : ∀ ch ∈ gsmChars C08.T text, ch ≠ [] := by
    intro ch hch
    rcases hseg ch hch with ⟨x, rfl, _⟩ | ⟨y, rfl, _⟩ <;> simp
  have hpart := cutPoints_partition gsmBoundary s per (by omega) (s.length + 1) 0 (Nat.zero_le _) (by omega)
  obtain ⟨segs, hsegs, hsl⟩ := slices_are_groups (gsmChars C08.T text) hne per _ 0 0 (Nat.zero_le _) (by simp)
    (by rw [hf]; exact hpart) (C14_gsm_text_never_split text s h per hper)
  rw [hf] at hsl
  simp only [List.drop_zero, gsmChars_eq_map] at hsegs
  obtain ⟨pieces, hp, hsegs'⟩ := groups_of_map (gsmCode C08.T) segs text hsegs
  have henc := gsm_encode_all_encodable text s h
  refine ⟨pieces, hp, ?_, ?_⟩
  · rw [hsl, hsegs']; simp [gsmChars_eq_map, List.map_map, Function.comp_def]
  · intro t ht
    have hsub : ∀ c ∈ t, gsmEncodable C08.T c := by
      intro c hc
      exact henc c (by rw [← hp]; exact List.mem_flatten.2 ⟨t, ht, hc⟩)
    exact C08.C08_encode_decode t _ (gsm_encode_of_encodable t hsub)

/-- non-vacuity: "你😀好" is accepted by the UCS-2 encoder (8 octets, the pair in the middle) -/
example : Text.encodeAll Text.utf16 [0x4F60, 0x1F600, 0x597D] = some [0x4F, 0x60, 0xD8, 0x3D, 0xDE, 0x00, 0x59, 0x7D] := by decide
/-- non-vacuity: "a€b" is accepted by the GSM 7-bit encoder as 61 1B 65 62 -/
example : Gsm7.encode C08.T [0x61, 0x20AC, 0x62] = some [0x61, 0x1B, 0x65, 0x62] := by decide +kernel

end SmsVerif.C14

section
open SmsVerif.C14
#print axioms boundary_split
#print axioms C14_plain_rule_sound
#print axioms C14_gsm_rule_sound
#print axioms C14_gsm_cuts_are_boundaries
#print axioms C14_plain_cuts_are_boundaries
#print axioms C14_ucs2_rule_sound
#print axioms C14_ucs2_cuts_are_boundaries
#print axioms C14_gb18030_rule_sound
#print axioms C14_gb18030_cuts_are_boundaries
#print axioms C07_filled_gsm
#print axioms C07_filled_ucs2
#print axioms C07_filled_gb18030
#print axioms C14_ucs2_parts_decode_to_text
#print axioms C14_gsm_parts_decode_to_text
#print axioms parts_decode_to_text
#print axioms C14_ucs2_text_never_split
#print axioms C14_gsm_text_never_split
#print axioms C14_single_octet_text_never_split
#print axioms gsm_tables_avoid_esc
#print axioms SmsVerif.Split.cuts_on_boundaries
end
