/-
  C20 — packet reader/writer primitives are mutually inverse with sticky errors.
  Property theorems only; helper lemmas live in `Lemmas/`.
-/
import SmsVerif.Model.Packet
import SmsVerif.Lemmas.Bytes
import SmsVerif.Lemmas.Packet

namespace SmsVerif.C20
open SmsVerif

/-- well-formedness of one write operation ("the value fits the wire format") -/
def WOp.Fits : WOp → Prop
  | .num k n => n < 256 ^ k
  | .bytes _ => True
  | .cstr s => hasNul s = false
  | .fixed s n => s.length ≤ n ∧ hasNul s = false

/-- the matching read primitive -/
def mirror : WOp → ROp
  | .num k _ => .num k
  | .bytes d => .rawN d.length
  | .cstr _ => .cstr
  | .fixed _ n => .cstrN n

/-- the value the matching read must return -/
def valOf : WOp → RVal
  | .num _ n => .n n
  | .bytes d => .b d
  | .cstr s => .b s
  | .fixed s _ => .b s

/-- octets one operation appends on success -/
def opBytes : WOp → Bytes
  | .num k n => be k n
  | .bytes d => d
  | .cstr s => s ++ [0]
  | .fixed s n => s ++ zeros (n - s.length)

/-! ### writer: count = bytes, sticky error -/

theorem step_written (w : Writer) (op : WOp) (h : w.written = w.buf.length) :
    (w.step op).written = (w.step op).buf.length := by
  cases op <;> simp only [Writer.step, Writer.writeNum, Writer.writeBytes, Writer.writeCString,
    Writer.writeFixed] <;> (repeat' split) <;> simp_all <;> omega

/-- **written_eq_len** : after any operation sequence, failed operations included, the reported
    count equals the number of octets in the buffer. -/
theorem written_eq_len (w : Writer) (ops : List WOp) (h : w.written = w.buf.length) :
    (w.run ops).written = (w.run ops).buf.length := by
  induction ops generalizing w with
  | nil => simpa [Writer.run]
  | cons op ops ih => exact ih (w.step op) (step_written w op h)

/-- **bytesWithLength_prefix** : the length-prefixed output is the 4-octet big-endian total
    followed by exactly the octets written. -/
theorem bytesWithLength_prefix (ops : List WOp) (h : (Writer.run {} ops).err = none) :
    (Writer.run {} ops).bytesWithLength
      = .ok (be 4 ((Writer.run {} ops).buf.length + 4) ++ (Writer.run {} ops).buf) := by
  have hw := written_eq_len {} ops rfl
  simp only [Writer.bytesWithLength, h, hw, Nat.sub_self, zeros, List.replicate_zero,
    List.append_nil, List.take_length]

theorem step_sticky (w : Writer) (op : WOp) (e : PErr) (h : w.err = some e) : w.step op = w := by
  cases op <;> simp [Writer.step, Writer.writeNum, Writer.writeBytes, Writer.writeCString,
    Writer.writeFixed, h]

/-- **sticky_writer** : after the first failure every later operation leaves bytes, count and the
    first error unchanged. -/
theorem sticky_writer (w : Writer) (ops : List WOp) (e : PErr) (h : w.err = some e) :
    w.run ops = w := by
  induction ops with
  | nil => rfl
  | cons op ops ih =>
    simp only [Writer.run, List.foldl_cons, step_sticky w op e h]
    exact ih

/-- a failed writer reports no bytes at all -/
theorem failed_writer_outputs (w : Writer) (e : PErr) (h : w.err = some e) :
    w.bytes = .error e ∧ w.bytesWithLength = .error e ∧ w.len = 0 := by
  simp [Writer.bytes, Writer.bytesWithLength, Writer.len, h]

/-- an over-long fixed-width value is refused (no truncated or shifted bytes) -/
theorem fixed_too_long_refused (w : Writer) (s : Bytes) (n : Nat) (h : s.length > n)
    (hw : w.err = none) : (w.writeFixed s n).err = some .tooLong ∧ (w.writeFixed s n).buf = w.buf := by
  simp [Writer.writeFixed, hw, h]

/-! ### write then read -/

theorem step_ok (w : Writer) (op : WOp) (hf : WOp.Fits op) (hw : w.err = none) :
    (w.step op).err = none ∧ (w.step op).buf = w.buf ++ opBytes op := by
  cases op with
  | num k n => simp [Writer.step, Writer.writeNum, hw, opBytes]
  | bytes d => simp [Writer.step, Writer.writeBytes, hw, opBytes]
  | cstr s => simp [Writer.step, Writer.writeCString, hw, opBytes]
  | fixed s n =>
    have : ¬ s.length > n := by have := hf.1; omega
    simp [Writer.step, Writer.writeFixed, hw, opBytes, this]

theorem run_ok (w : Writer) (ops : List WOp) (hf : ∀ op ∈ ops, WOp.Fits op) (hw : w.err = none) :
    (w.run ops).err = none ∧ (w.run ops).buf = w.buf ++ (ops.map opBytes).flatten := by
  induction ops generalizing w with
  | nil => simp [Writer.run, hw]
  | cons op ops ih =>
    have h1 := step_ok w op (hf op (by simp)) hw
    have h2 := ih (w.step op) (fun o ho => hf o (by simp [ho])) h1.1
    simp only [Writer.run, List.foldl_cons] at h2 ⊢
    simp [h2.1, h2.2, h1.2, List.append_assoc]

theorem read_one (op : WOp) (hf : WOp.Fits op) (rest : Bytes) (a : Nat) :
    ∃ a', (Reader.step ⟨opBytes op ++ rest, none, a⟩ (mirror op)) = (valOf op, ⟨rest, none, a'⟩) := by
  cases op with
  | num k n =>
    exact ⟨a, by simp only [Reader.step, mirror, opBytes, valOf, readNum_append k n rest a hf]⟩
  | bytes d =>
    obtain ⟨a', h⟩ := readCStringNRaw_append d rest a
    exact ⟨a', by simp only [Reader.step, mirror, opBytes, valOf, h]⟩
  | cstr s =>
    exact ⟨a, by simp only [Reader.step, mirror, opBytes, valOf, List.append_assoc, List.singleton_append,
      readCString_append s rest a hf]⟩
  | fixed s n =>
    obtain ⟨hl, hn⟩ := hf
    have hlen : (s ++ zeros (n - s.length)).length = n := by simp; omega
    obtain ⟨a', h⟩ := readCStringN_append (s ++ zeros (n - s.length)) rest a n hlen
    exact ⟨a', by simp only [Reader.step, mirror, opBytes, valOf, h, cutAtNul_append_zeros s hn]⟩

/-- **read_write_inverse** : any sequence of fitting writes, read back through the mirrored
    reads from the written bytes followed by arbitrary further input, returns exactly the values
    written, leaves exactly the further input, and records no error. -/
theorem read_write_inverse (ops : List WOp) (hf : ∀ op ∈ ops, WOp.Fits op) (rest : Bytes) (a : Nat) :
    ∃ a', Reader.run ⟨(Writer.run {} ops).buf ++ rest, none, a⟩ (ops.map mirror)
      = (ops.map valOf, ⟨rest, none, a'⟩) := by
  have hb := (run_ok {} ops hf rfl).2
  simp only [List.nil_append] at hb
  rw [hb]
  clear hb
  induction ops generalizing a with
  | nil => exact ⟨a, by simp [Reader.run]⟩
  | cons op ops ih =>
    obtain ⟨a1, h1⟩ := read_one op (hf op (by simp)) ((ops.map opBytes).flatten ++ rest) a
    obtain ⟨a2, h2⟩ := ih (fun o ho => hf o (by simp [ho])) a1
    refine ⟨a2, ?_⟩
    simp only [List.map_cons, List.flatten_cons, List.append_assoc, Reader.run, h1, h2]

/-! ### reader: sticky error, bounds -/

def zeroOf : ROp → RVal
  | .num _ => .n 0
  | .cstrN _ => .b []
  | .rawN _ => .b []
  | .cstr => .b []
  | .bytes n => .b (zeros n)

theorem rstep_sticky (r : Reader) (op : ROp) (e : PErr) (h : r.err = some e) :
    r.step op = (zeroOf op, r) := by
  cases op <;> simp [Reader.step, Reader.readNum, Reader.readCStringN, Reader.readCStringNRaw,
    Reader.readCString, Reader.readBytes, h, zeroOf]

/-- **sticky_reader** : once an error is recorded, every later read returns the zero value,
    consumes nothing and keeps the first error. -/
theorem sticky_reader (r : Reader) (ops : List ROp) (e : PErr) (h : r.err = some e) :
    r.run ops = (ops.map zeroOf, r) := by
  induction ops with
  | nil => rfl
  | cons op ops ih => simp [Reader.run, rstep_sticky r op e h, ih]

/-- one read never yields a reader positioned outside its input -/
theorem rstep_suffix (r : Reader) (op : ROp) : (r.step op).2.rest <:+ r.rest := by
  cases op with
  | num k =>
    simp only [Reader.step, Reader.readNum]
    repeat' split
    all_goals first | exact List.suffix_refl _ | exact List.drop_suffix _ _ | exact List.nil_suffix
  | cstrN n =>
    have := readExact_suffix r n
    simp only [Reader.step, Reader.readCStringN]
    repeat' split
    all_goals first | exact List.suffix_refl _ | simp_all
  | rawN n =>
    have := readExact_suffix r n
    simp only [Reader.step, Reader.readCStringNRaw]
    repeat' split
    all_goals first | exact List.suffix_refl _ | simp_all
  | cstr =>
    simp only [Reader.step, Reader.readCString]
    repeat' split
    · exact List.suffix_refl _
    · rename_i x y h
      have := (splitNul_some h).1
      exact ⟨x ++ [0], by simp [this]⟩
    · exact List.nil_suffix
  | bytes n =>
    simp only [Reader.step, Reader.readBytes]
    repeat' split
    all_goals first | exact List.suffix_refl _ | exact List.drop_suffix _ _ | exact List.nil_suffix

/-- **reader_in_bounds** : whatever is read, in whatever order, the reader's position stays
    inside its input: what remains is always a suffix of the input, so at most
    `input.length` octets are ever consumed. -/
theorem reader_in_bounds (r : Reader) (ops : List ROp) :
    (r.run ops).2.rest <:+ r.rest ∧ (r.run ops).2.rest.length ≤ r.rest.length := by
  induction ops generalizing r with
  | nil => exact ⟨List.suffix_refl _, Nat.le_refl _⟩
  | cons op ops ih =>
    have h1 := rstep_suffix r op
    have h2 := (ih (r.step op).2).1
    have h3 : (r.run (op :: ops)).2 = ((r.step op).2.run ops).2 := by simp [Reader.run]
    rw [h3]
    exact ⟨h2.trans h1, (h2.trans h1).length_le⟩

/-- every octet string a read returns is a piece of the input (a prefix of what was unread),
    possibly cut at a NUL; nothing comes from beyond the end. -/
theorem read_value_from_input (r : Reader) (n : Nat) :
    (r.readCStringNRaw n).1 <+: r.rest ∧ (r.readCStringN n).1 <+: r.rest ∧ (r.readCString).1 <+: r.rest := by
  refine ⟨?_, ?_, ?_⟩
  · simp only [Reader.readCStringNRaw]
    rcases readExact_spec r n with ⟨t, h, ht, _⟩ | ⟨e, h, _⟩ | ⟨e, h, _⟩ <;> rw [h] <;> (repeat' split)
    all_goals first | exact List.nil_prefix | (subst ht; exact List.take_prefix _ _)
  · simp only [Reader.readCStringN]
    rcases readExact_spec r n with ⟨t, h, ht, _⟩ | ⟨e, h, _⟩ | ⟨e, h, _⟩ <;> rw [h] <;> (repeat' split)
    all_goals first | exact List.nil_prefix
                    | (subst ht; exact (cutAtNul_prefix _).trans (List.take_prefix _ _))
  · simp only [Reader.readCString]
    repeat' split
    · exact List.nil_prefix
    · rename_i x y h
      exact ⟨0 :: y, (splitNul_some h).1.symm⟩
    · exact List.nil_prefix

/-- a failed read drains or keeps the input but never un-consumes: the allocation requested by
    the reader never exceeds the octets that were really buffered (C03 support). -/
theorem read_alloc_bounded (r : Reader) (op : ROp) :
    (r.step op).2.alloc + (r.step op).2.rest.length ≤ r.alloc + r.rest.length := by
  cases op with
  | num k =>
    simp only [Reader.step, Reader.readNum]
    repeat' split
    all_goals simp <;> omega
  | cstrN n =>
    have := readExact_alloc r n
    simp only [Reader.step, Reader.readCStringN]
    repeat' split
    all_goals simp_all
  | rawN n =>
    have := readExact_alloc r n
    simp only [Reader.step, Reader.readCStringNRaw]
    repeat' split
    all_goals simp_all
  | cstr =>
    simp only [Reader.step, Reader.readCString]
    repeat' split
    · simp
    · rename_i x y h
      have := congrArg List.length (splitNul_some h).1
      simp at this ⊢; omega
    · simp
  | bytes n =>
    simp only [Reader.step, Reader.readBytes]
    repeat' split
    all_goals simp <;> omega

/-! ### non-vacuity -/

example : ∀ op ∈ [WOp.num 4 0xdeadbeef, .fixed [65, 66] 6, .cstr [104, 105], .bytes [0, 1, 0], .num 1 255],
    WOp.Fits op := by
  intro op h; simp at h; rcases h with rfl | rfl | rfl | rfl | rfl <;> simp [WOp.Fits, hasNul]

example : (Writer.run {} [.fixed [1, 2, 3] 2, .num 4 7, .bytes [9]]) = ⟨[], 0, some .tooLong⟩ := by decide

end SmsVerif.C20

section
open SmsVerif.C20
#print axioms written_eq_len
#print axioms bytesWithLength_prefix
#print axioms sticky_writer
#print axioms failed_writer_outputs
#print axioms fixed_too_long_refused
#print axioms read_write_inverse
#print axioms sticky_reader
#print axioms reader_in_bounds
#print axioms read_value_from_input
#print axioms read_alloc_bounded
end
