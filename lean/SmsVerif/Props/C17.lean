/-
  C17 — CMPP message id: specified bit layout, lossless split / compose / string form.
-/
import SmsVerif.Model.MsgId
import SmsVerif.Gen.Funcs
import SmsVerif.Props.C15

namespace SmsVerif.C17
open SmsVerif SmsVerif.MsgId

def InRange (p : Parts) : Prop :=
  p.month < 16 ∧ p.day < 32 ∧ p.hour < 32 ∧ p.minute < 64 ∧ p.second < 64 ∧ p.gate < 2 ^ 22 ∧ p.seq < 2 ^ 16

/-- **field_positions** : composing in-range fields puts each at the bit positions the CMPP
    specification assigns (month bits 64–61, day 60–56, hour 55–51, minute 50–45, second 44–39,
    gateway 38–17, sequence 16–1) -/
theorem C17_field_positions (p : Parts) (h : InRange p) :
    combineP p = p.month * 2 ^ 60 + p.day * 2 ^ 55 + p.hour * 2 ^ 50 + p.minute * 2 ^ 44 +
      p.second * 2 ^ 38 + p.gate * 2 ^ 16 + p.seq ∧ combineP p < 2 ^ 64 := by
  obtain ⟨m, d, hh, mi, s, g, q⟩ := p
  obtain ⟨h1, h2, h3, h4, h5, h6, h7⟩ := h
  simp only [combineP, combine, W] at *
  omega

/-- **split_combine** : splitting a composed id returns the same seven values -/
theorem C17_split_combine (p : Parts) (h : InRange p) : split (combineP p) = p := by
  obtain ⟨hpos, _⟩ := C17_field_positions p h
  rw [hpos]
  obtain ⟨m, d, hh, mi, s, g, q⟩ := p
  obtain ⟨h1, h2, h3, h4, h5, h6, h7⟩ := h
  simp only [split, Parts.mk.injEq] at *
  refine ⟨?_, ?_, ?_, ?_, ?_, ?_, ?_⟩ <;> omega

/-- what `split` returns is always in range -/
theorem C17_split_in_range (id : Nat) : InRange (split id) := by
  simp only [InRange, split]
  refine ⟨?_, ?_, ?_, ?_, ?_, ?_, ?_⟩ <;> omega

/-- **combine_split** : splitting then composing any 64-bit id is the identity -/
theorem C17_combine_split (id : Nat) (h : id < 2 ^ 64) : combineP (split id) = id := by
  obtain ⟨hpos, _⟩ := C17_field_positions (split id) (C17_split_in_range id)
  rw [hpos]
  simp only [split]
  omega

theorem decDigits_isDigits (n t : Nat) : isDigits (decDigits n t) = true := by
  induction n generalizing t with
  | zero => rfl
  | succ n ih =>
    simp only [decDigits, isDigits, List.all_append, List.all_cons, List.all_nil, Bool.and_true,
      Bool.and_eq_true, decide_eq_true_eq]
    refine ⟨by simpa [isDigits] using ih (t / 10), ?_, ?_⟩ <;> omega

theorem isDigits_append (a b : Bytes) : isDigits (a ++ b) = (isDigits a && isDigits b) := by
  simp [isDigits, List.all_append]

/-- **string_roundtrip** : the decimal string form of a non-zero id parses back to the same id
    (each field's maximum fits its printed width: 15, 31, 31, 63, 63 < 100; 2^22-1 < 10^7; 65535 < 10^5) -/
theorem C17_string_roundtrip (id : Nat) (h : id < 2 ^ 64) (h0 : id ≠ 0) : parse (format id) = id := by
  have hr := C17_split_in_range id
  obtain ⟨h1, h2, h3, h4, h5, h6, h7⟩ := hr
  have hlen : (format id).length = 22 := by
    simp [format, h0, C15.decDigits_length]
  have hdig : isDigits (format id) = true := by
    simp [format, h0, isDigits_append, decDigits_isDigits]
  have L := C15.decDigits_length
  have P := C15.parseDec_decDigits
  simp only [parse, hlen, hdig, and_self, if_true]
  simp only [format, h0, if_false, List.append_assoc]
  have t1 : ∀ (a b : Bytes) (n : Nat), a.length = n → (a ++ b).take n = a := fun a b n h => List.take_left' h
  have d1 : ∀ (a b : Bytes) (n : Nat), a.length = n → (a ++ b).drop n = b := fun a b n h => List.drop_left' h
  rw [t1 _ _ 2 (L 2 _), d1 _ _ 2 (L 2 _), t1 _ _ 2 (L 2 _)]
  have e4 : ∀ (a b c : Bytes), a.length = 2 → b.length = 2 → (a ++ (b ++ c)).drop 4 = c := by
    intro a b c ha hb
    rw [← List.append_assoc]; exact List.drop_left' (by simp [ha, hb])
  rw [e4 _ _ _ (L 2 _) (L 2 _), t1 _ _ 2 (L 2 _)]
  have e6 : ∀ (a b c d : Bytes), a.length = 2 → b.length = 2 → c.length = 2 → (a ++ (b ++ (c ++ d))).drop 6 = d := by
    intro a b c d ha hb hc
    rw [← List.append_assoc, ← List.append_assoc]; exact List.drop_left' (by simp [ha, hb, hc])
  rw [e6 _ _ _ _ (L 2 _) (L 2 _) (L 2 _), t1 _ _ 2 (L 2 _)]
  have e8 : ∀ (a b c d e : Bytes), a.length = 2 → b.length = 2 → c.length = 2 → d.length = 2 →
      (a ++ (b ++ (c ++ (d ++ e)))).drop 8 = e := by
    intro a b c d e ha hb hc hd
    rw [← List.append_assoc, ← List.append_assoc, ← List.append_assoc]
    exact List.drop_left' (by simp [ha, hb, hc, hd])
  rw [e8 _ _ _ _ _ (L 2 _) (L 2 _) (L 2 _) (L 2 _), t1 _ _ 2 (L 2 _)]
  have e10 : ∀ (a b c d e f : Bytes), a.length = 2 → b.length = 2 → c.length = 2 → d.length = 2 → e.length = 2 →
      (a ++ (b ++ (c ++ (d ++ (e ++ f))))).drop 10 = f := by
    intro a b c d e f ha hb hc hd he
    rw [← List.append_assoc, ← List.append_assoc, ← List.append_assoc, ← List.append_assoc]
    exact List.drop_left' (by simp [ha, hb, hc, hd, he])
  rw [e10 _ _ _ _ _ _ (L 2 _) (L 2 _) (L 2 _) (L 2 _) (L 2 _), t1 _ _ 7 (L 7 _)]
  have e17 : ∀ (a b c d e f g : Bytes), a.length = 2 → b.length = 2 → c.length = 2 → d.length = 2 → e.length = 2 →
      f.length = 7 → (a ++ (b ++ (c ++ (d ++ (e ++ (f ++ g)))))).drop 17 = g := by
    intro a b c d e f g ha hb hc hd he hf
    rw [← List.append_assoc, ← List.append_assoc, ← List.append_assoc, ← List.append_assoc, ← List.append_assoc]
    exact List.drop_left' (by simp [ha, hb, hc, hd, he, hf])
  rw [e17 _ _ _ _ _ _ _ (L 2 _) (L 2 _) (L 2 _) (L 2 _) (L 2 _) (L 7 _)]
  rw [List.take_of_length_le (by rw [L]; exact Nat.le_refl 5)]
  rw [P 2 _ (by simp only [split]; omega), P 2 _ (by simp only [split]; omega), P 2 _ (by simp only [split]; omega),
    P 2 _ (by simp only [split]; omega), P 2 _ (by simp only [split]; omega),
    P 7 _ (by simp only [split]; omega), P 5 _ (by simp only [split]; omega)]
  exact C17_combine_split id h

example : InRange ⟨12, 31, 23, 59, 59, 4194303, 65535⟩ := by simp [InRange]
example : combineP ⟨12, 31, 23, 59, 59, 4194303, 65535⟩ = 12 * 2 ^ 60 + 31 * 2 ^ 55 + 23 * 2 ^ 50 + 59 * 2 ^ 44 + 59 * 2 ^ 38 + 4194303 * 2 ^ 16 + 65535 := by decide


/-! ### the model is the source: `CombineMsgID` / `SplitMsgID` translated statement by statement

  `Gen.cmpp_CombineMsgID` / `Gen.cmpp_SplitMsgID` are regenerated from `cmpp/msgid.go` on every run
  (`go/extract/funcs.go`: straight-line unsigned arithmetic, wrap-around explicit, closed statement
  set).  The theorems below identify them with the hand-written model for all 64-bit arguments, so
  every C17 theorem is a theorem about the code as it stands. -/

theorem and15 (x : Nat) : x &&& 15 = x % 16 := Nat.and_two_pow_sub_one_eq_mod x 4
theorem and31 (x : Nat) : x &&& 31 = x % 32 := Nat.and_two_pow_sub_one_eq_mod x 5
theorem and63 (x : Nat) : x &&& 63 = x % 64 := Nat.and_two_pow_sub_one_eq_mod x 6
theorem and22 (x : Nat) : x &&& 4194303 = x % 2 ^ 22 := Nat.and_two_pow_sub_one_eq_mod x 22
theorem and16 (x : Nat) : x &&& 65535 = x % 2 ^ 16 := Nat.and_two_pow_sub_one_eq_mod x 16

/-- per-run obligation: both functions are inside the translated fragment, and the format string
    shared by printer and scanner is the one the model's `format` / `parse` transcribe -/
theorem C17_translated : Gen.funcsUnsupported = [] ∧ Gen.msgIDFormat = "%02d%02d%02d%02d%02d%07d%05d" := by
  decide

/-- **`CombineMsgID` is `combine`** for every uint64 argument -/
theorem C17_combine_is_source (m d h mi s g q : Nat) (hm : m < 2 ^ 64) :
    Gen.cmpp_CombineMsgID m d h mi s g q = combine m d h mi s g q := by
  simp only [Gen.cmpp_CombineMsgID, combine, W, Nat.shiftLeft_eq]
  omega

/-- **`SplitMsgID` is `split`** -/
theorem C17_split_is_source (id : Nat) :
    Gen.cmpp_SplitMsgID id =
      ((split id).month, (split id).day, (split id).hour, (split id).minute, (split id).second,
       (split id).gate, (split id).seq) := by
  simp only [Gen.cmpp_SplitMsgID, split, Nat.shiftRight_eq_div_pow, and15, and31, and63, and22, and16]
  -- a source that shifts step by step (`msgID >>= 16; … msgID & mask`) leaves nested divisions: linear arithmetic
  <;> (simp only [Prod.mk.injEq]; repeat' apply And.intro) <;> (first | trivial | omega)

/-- **split ∘ combine on the source functions**: in-range fields come back -/
theorem C17_source_split_combine (p : Parts) (h : InRange p) :
    Gen.cmpp_SplitMsgID (Gen.cmpp_CombineMsgID p.month p.day p.hour p.minute p.second p.gate p.seq)
      = (p.month, p.day, p.hour, p.minute, p.second, p.gate, p.seq) := by
  have hm : p.month < 2 ^ 64 := by have := h.1; omega
  rw [C17_combine_is_source _ _ _ _ _ _ _ hm, C17_split_is_source]
  have := C17_split_combine p h
  simp only [combineP] at this
  rw [this]

/-- **combine ∘ split on the source functions**: the identity on all 2^64 ids -/
theorem C17_source_combine_split (id : Nat) (h : id < 2 ^ 64) :
    (match Gen.cmpp_SplitMsgID id with
     | (m, d, hh, mi, s, g, q) => Gen.cmpp_CombineMsgID m d hh mi s g q) = id := by
  rw [C17_split_is_source]
  simp only
  have hr := C17_split_in_range id
  rw [C17_combine_is_source _ _ _ _ _ _ _ (by have := hr.1; omega)]
  exact C17_combine_split id h

end SmsVerif.C17

section
open SmsVerif.C17
#print axioms C17_field_positions
#print axioms C17_split_combine
#print axioms C17_split_in_range
#print axioms C17_combine_split
#print axioms C17_string_roundtrip
#print axioms C17_translated
#print axioms C17_combine_is_source
#print axioms C17_split_is_source
#print axioms C17_source_split_combine
#print axioms C17_source_combine_split
end
