/-
  C02 — refutation of the full statement on the recorded deviation (open entry of
  known-findings.json): SMGP 3.0.3 §5.2.2.5.2 defines Active_Test_Resp without a message body,
  the library writes (and requires) one reserved octet.  Expected to hold only while the defect is
  present; a failure of this module is not an alarm.
-/
import SmsVerif.Props.C02

namespace SmsVerif.C02
open SmsVerif SmsVerif.Spec

/-- the excluded type really does not match its table (the exception list is not slack) -/
theorem C02_activetestresp_refuted : tableFor Gen.smgp30_ActiveTestResp = false := by decide +kernel

/-- concretely: the all-zero PDU encodes to 13 octets, the document prescribes 12 -/
theorem C02_activetestresp_witness :
    (match Gen.smgp30_ActiveTestResp.encode Gen.smgp30_ActiveTestResp.fresh with
     | .ok (bs, _) => bs.length | .error _ => 0) = 13 ∧
    ((Spec.find? "smgp30.ActiveTestResp").map fun s => (s.wire Gen.smgp30_ActiveTestResp.fresh).length) = some 12 := by
  decide +kernel

end SmsVerif.C02

#print axioms SmsVerif.C02.C02_activetestresp_refuted
#print axioms SmsVerif.C02.C02_activetestresp_witness
