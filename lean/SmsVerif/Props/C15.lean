/-
  C15 — login authenticators verify end to end for all credentials.

  `md5` is an arbitrary function `Bytes → Bytes` (uninterpreted): the theorems hold for whatever
  digest function is used; what is proved is everything around it — the digest input, the
  zero-padded timestamp, and that account, timestamp and the 16 digest octets (any byte values,
  0x00 included) survive encoding, transmission and decoding unchanged, so that the peer's
  recomputation from the decoded PDU equals the authenticator it received.
-/
import SmsVerif.Props.C01
import SmsVerif.Model.Auth
import SmsVerif.Gen.Funcs

namespace SmsVerif.C15
open SmsVerif SmsVerif.C01

/-! ### the zero-padded decimal timestamp -/

theorem decDigits_length (n t : Nat) : (decDigits n t).length = n := by
  induction n generalizing t with
  | zero => rfl
  | succ n ih => simp [decDigits, ih]

/-- **ts10_width** : the timestamp string always has exactly ten characters -/
theorem C15_ts10_width (t : Nat) : (ts10 t).length = 10 := decDigits_length 10 t

theorem parseDec_append_digit (bs : Bytes) (d : Nat) :
    parseDec (bs ++ [48 + d]) = parseDec bs * 10 + d := by
  simp [parseDec, List.foldl_append]

theorem parseDec_decDigits (n t : Nat) (h : t < 10 ^ n) : parseDec (decDigits n t) = t := by
  induction n generalizing t with
  | zero => simp at h; subst h; rfl
  | succ n ih =>
    simp only [decDigits, parseDec_append_digit]
    rw [ih (t / 10) (by rw [Nat.pow_succ] at h; omega)]
    omega

/-- … and it denotes the timestamp (every 32-bit value, in particular 0..1231235959) -/
theorem C15_ts10_parse (t : Nat) (h : t < 2 ^ 32) : parseDec (ts10 t) = t :=
  parseDec_decDigits 10 t (by omega)

theorem C15_ts10_digits (t : Nat) : ∀ b ∈ ts10 t, 48 ≤ b ∧ b ≤ 57 := by
  unfold ts10
  generalize 10 = n
  induction n generalizing t with
  | zero => simp [decDigits]
  | succ n ih =>
    intro b hb
    simp only [decDigits, List.mem_append, List.mem_singleton] at hb
    rcases hb with hb | rfl
    · exact ih _ b hb
    · omega

/-- the digest inputs have the layout the protocols define -/
theorem C15_digest_input_layout (account secret : Bytes) (ts : Nat) :
    cmppAuthInput account secret ts = account ++ List.replicate 9 0 ++ secret ++ ts10 ts ∧
    smgpAuthInput account secret ts = account ++ List.replicate 7 0 ++ secret ++ ts10 ts ∧
    (cmppAuthInput account secret ts).length = account.length + 9 + secret.length + 10 ∧
    (smgpAuthInput account secret ts).length = account.length + 7 + secret.length + 10 := by
  simp [cmppAuthInput, smgpAuthInput, zeros, C15_ts10_width]
  omega

/-! ### the digest inputs are the source: regenerated piece lists

  `Gen.digestInputs` is re-extracted on every run from the syntax of the four functions that call
  MD5 (`go/extract/digest.go`).  Evaluating the piece list is the model's digest input. -/

/-- `arg i`: the i-th argument as octets; `num`: a numeric argument or call result; `res f k`: the k-th
    result of the call `f()` as octets -/
structure Args where
  arg : Nat → Bytes
  num : Gen.Num → Nat
  res : String → Nat → Bytes

def evalPiece (a : Args) : Gen.Piece → Bytes
  | .arg i => a.arg i
  | .zeros n => zeros n
  | .dec10 x => ts10 (a.num x)
  | .res f k => a.res f k
  | .lit bs => bs
  | .digest => []
  | .unrecognised _ => []

def evalPieces (a : Args) (ps : List Gen.Piece) : Bytes :=
  (ps.map (evalPiece a)).flatten

def digestOf (name : String) : Option (List Gen.Piece) := (Gen.digestInputs.find? (·.1 == name)).map (·.2)

/-- per-run obligation: what the four functions hand to MD5 (arguments by position, so that renaming a
    parameter or a local, or moving the concatenation into a helper, regenerates the same list) -/
theorem C15_digest_inputs_from_source :
    digestOf "cmpp.GenConnectAuth" = some [.arg 0, .zeros 9, .arg 1, .arg 2] ∧
    digestOf "cmpp20.NewConnect" = some [.arg 0, .zeros 9, .arg 1, .res "cmpp20.now" 0] ∧
    digestOf "cmpp.GenConnectRespAuthISMG" = some [.arg 0, .arg 1, .arg 2] ∧
    digestOf "smgp30.genAuthenticatorClient" = some [.arg 0, .zeros 7, .arg 1, .dec10 (.arg 2)] ∧
    Gen.timestampFormat = "%010d" := by decide

/-- **the source's digest inputs are the model's**: for any argument values.
    `cmpp.GenConnectAuth(account, password, timestampStr)` receives the timestamp already rendered by
    `TimeStamp2Str`, i.e. `ts10 ts`; `cmpp20.NewConnect(account, passwd, …)` takes it from the first result of
    `now()`; `cmpp.GenConnectRespAuthISMG(statusBytes, reqAuth, password)`;
    `smgp30.genAuthenticatorClient(clientId, secret, timestamp)` -/
theorem C15_digest_input_is_source (a : Args) :
    (∀ ps ts, digestOf "cmpp.GenConnectAuth" = some ps → a.arg 2 = ts10 ts →
      evalPieces a ps = cmppAuthInput (a.arg 0) (a.arg 1) ts) ∧
    (∀ ps ts, digestOf "cmpp20.NewConnect" = some ps → a.res "cmpp20.now" 0 = ts10 ts →
      evalPieces a ps = cmppAuthInput (a.arg 0) (a.arg 1) ts) ∧
    (∀ ps, digestOf "cmpp.GenConnectRespAuthISMG" = some ps →
      evalPieces a ps = cmppRespAuthInput (a.arg 0) (a.arg 1) (a.arg 2)) ∧
    (∀ ps, digestOf "smgp30.genAuthenticatorClient" = some ps →
      evalPieces a ps = smgpAuthInput (a.arg 0) (a.arg 1) (a.num (.arg 2))) := by
  obtain ⟨h1, h2, h3, h4, _⟩ := C15_digest_inputs_from_source
  refine ⟨?_, ?_, ?_, ?_⟩
  · intro ps ts hps hts
    rw [h1] at hps; cases hps
    simp [evalPieces, evalPiece, cmppAuthInput, hts]
  · intro ps ts hps hts
    rw [h2] at hps; cases hps
    simp [evalPieces, evalPiece, cmppAuthInput, hts]
  · intro ps hps
    rw [h3] at hps; cases hps
    simp [evalPieces, evalPiece, cmppRespAuthInput]
  · intro ps hps
    rw [h4] at hps; cases hps
    simp [evalPieces, evalPiece, smgpAuthInput]

/-! ### the fields the peer needs survive the wire -/

/-- `F` are struct fields, none of them the length word, none assigned by the encoder's normalisation -/
def survivesCheck (p : PduDesc) (F : List String) : Bool :=
  match p.items with
  | none => false
  | some (lf, its) =>
    F.all fun f => p.fields.any (·.1 == f) && !(p.fin == .withLength && f == lf) &&
      its.all (fun a => disjoint a.targets [f])

theorem fields_survive (p : PduDesc) (hp : p ∈ Gen.allPdus) (hx : exceptions.contains p.name = false)
    (F : List String) (hF : survivesCheck p F = true) :
    ∃ lf its, p.items = some (lf, its) ∧ ∀ r : Rec,
      (∀ it ∈ its, it.Fits (norm its r)) → (itemsBytes (norm its r) its).length + 4 < 2 ^ 32 →
      ∃ bs dec r', p.encode r = .ok (bs, r') ∧ p.decode bs = .ok dec ∧ ∀ f ∈ F, dec.get? f = r.get? f := by
  obtain ⟨lf, its, hits, hrt⟩ := C01_roundtrip p hp hx
  refine ⟨lf, its, hits, fun r hfit hsize => ?_⟩
  obtain ⟨bs, dec, henc, hdec, hfields⟩ := hrt r hfit hsize
  refine ⟨bs, dec, _, henc, hdec, fun f hf => ?_⟩
  simp only [survivesCheck, hits, List.all_eq_true, Bool.and_eq_true, List.any_eq_true, beq_iff_eq,
    Bool.not_eq_true', Bool.and_eq_false_iff] at hF
  obtain ⟨⟨⟨ft, hft, hfeq⟩, hnl⟩, hdisj⟩ := hF f hf
  have h1 := hfields ft hft
  rw [hfeq] at h1
  have hnot : ¬ (p.fin = .withLength ∧ f = lf) := by
    intro ⟨ha, hb⟩
    rcases hnl with h | h
    · simp [ha] at h
    · simp [hb] at h
  rw [if_neg hnot] at h1
  rw [h1]
  exact norm_agree [f] its r (by simpa [List.all_eq_true] using hdisj) f (by simp)

/-- the three values a CMPP / SMGP peer needs to re-verify a login: account, timestamp, digest -/
def loginFields : List (String × List String) :=
  [("cmpp20.PduConnect", ["SourceAddr", "AuthenticatorSource", "Timestamp"]),
   ("cmpp30.Connect", ["SourceAddr", "AuthenticatorSource", "Timestamp"]),
   ("smgp30.Login", ["ClientID", "AuthenticatorClient", "Timestamp"]),
   ("cmpp20.PduConnectResp", ["Status", "AuthenticatorISMG"]),
   ("cmpp30.ConnectResp", ["Status", "AuthenticatorISMG"])]

theorem loginFields_checked :
    loginFields.all (fun nf => match Gen.allPdus.find? (·.name == nf.1) with
      | some p => survivesCheck p nf.2 && !exceptions.contains p.name
      | none => false) = true := by decide

/-- **auth_survives / peer_recomputation_matches** (CMPP 3.0 connect, stated for an arbitrary digest
    function): if the request carries `md5(digest input)` for its own account and timestamp, then
    whatever the 16 digest octets are, the receiver — decoding the bytes and recomputing from the
    decoded account and decoded timestamp with the same secret — obtains exactly the authenticator
    it received. -/
theorem C15_cmpp30_connect_exchange (md5 : Bytes → Bytes) (account secret : Bytes) (ts : Nat) (r : Rec)
    (hacc : r.get? "SourceAddr" = some (.str account))
    (hts : r.get? "Timestamp" = some (.num ts))
    (hauth : r.get? "AuthenticatorSource" = some (.str (md5 (cmppAuthInput account secret ts)))) :
    ∃ lf its, Gen.cmpp30_Connect.items = some (lf, its) ∧
      ((∀ it ∈ its, it.Fits (norm its r)) → (itemsBytes (norm its r) its).length + 4 < 2 ^ 32 →
       ∃ bs dec r', Gen.cmpp30_Connect.encode r = .ok (bs, r') ∧ Gen.cmpp30_Connect.decode bs = .ok dec ∧
         dec.str "AuthenticatorSource"
           = md5 (cmppAuthInput (dec.str "SourceAddr") secret (dec.num "Timestamp"))) := by
  obtain ⟨lf, its, hits, h⟩ := fields_survive Gen.cmpp30_Connect (by simp [Gen.allPdus]) (by decide)
    ["SourceAddr", "AuthenticatorSource", "Timestamp"] (by decide)
  refine ⟨lf, its, hits, fun hfit hsize => ?_⟩
  obtain ⟨bs, dec, r', henc, hdec, hf⟩ := h r hfit hsize
  refine ⟨bs, dec, r', henc, hdec, ?_⟩
  have h1 := hf "SourceAddr" (by simp)
  have h2 := hf "AuthenticatorSource" (by simp)
  have h3 := hf "Timestamp" (by simp)
  simp [Rec.str, Rec.num, h1, h2, h3, hacc, hts, hauth]

/-- the same statement for any login PDU and any digest-input function: if the three fields survive
    the wire (`survivesCheck`, decided on the regenerated layouts), the peer's recomputation from the
    *decoded* account and timestamp equals the authenticator it received -/
theorem login_exchange (p : PduDesc) (hp : p ∈ Gen.allPdus) (hx : exceptions.contains p.name = false)
    (accF authF tsF : String) (hF : survivesCheck p [accF, authF, tsF] = true)
    (md5 : Bytes → Bytes) (input : Bytes → Bytes → Nat → Bytes) (account secret : Bytes) (ts : Nat) (r : Rec)
    (hacc : r.get? accF = some (.str account))
    (hts : r.get? tsF = some (.num ts))
    (hauth : r.get? authF = some (.str (md5 (input account secret ts)))) :
    ∃ lf its, p.items = some (lf, its) ∧
      ((∀ it ∈ its, it.Fits (norm its r)) → (itemsBytes (norm its r) its).length + 4 < 2 ^ 32 →
       ∃ bs dec r', p.encode r = .ok (bs, r') ∧ p.decode bs = .ok dec ∧
         dec.str authF = md5 (input (dec.str accF) secret (dec.num tsF))) := by
  obtain ⟨lf, its, hits, h⟩ := fields_survive p hp hx [accF, authF, tsF] hF
  refine ⟨lf, its, hits, fun hfit hsize => ?_⟩
  obtain ⟨bs, dec, r', henc, hdec, hf⟩ := h r hfit hsize
  refine ⟨bs, dec, r', henc, hdec, ?_⟩
  have h1 := hf accF (by simp)
  have h2 := hf authF (by simp)
  have h3 := hf tsF (by simp)
  simp [Rec.str, Rec.num, h1, h2, h3, hacc, hts, hauth]

/-- **CMPP 2.0 connect** -/
theorem C15_cmpp20_connect_exchange (md5 : Bytes → Bytes) (account secret : Bytes) (ts : Nat) (r : Rec)
    (hacc : r.get? "SourceAddr" = some (.str account))
    (hts : r.get? "Timestamp" = some (.num ts))
    (hauth : r.get? "AuthenticatorSource" = some (.str (md5 (cmppAuthInput account secret ts)))) :
    ∃ lf its, Gen.cmpp20_PduConnect.items = some (lf, its) ∧
      ((∀ it ∈ its, it.Fits (norm its r)) → (itemsBytes (norm its r) its).length + 4 < 2 ^ 32 →
       ∃ bs dec r', Gen.cmpp20_PduConnect.encode r = .ok (bs, r') ∧ Gen.cmpp20_PduConnect.decode bs = .ok dec ∧
         dec.str "AuthenticatorSource"
           = md5 (cmppAuthInput (dec.str "SourceAddr") secret (dec.num "Timestamp"))) :=
  login_exchange Gen.cmpp20_PduConnect (by simp [Gen.allPdus]) (by decide) _ _ _ (by decide)
    md5 cmppAuthInput account secret ts r hacc hts hauth

/-- **SMGP 3.0 login** (7 zero octets) -/
theorem C15_smgp30_login_exchange (md5 : Bytes → Bytes) (account secret : Bytes) (ts : Nat) (r : Rec)
    (hacc : r.get? "ClientID" = some (.str account))
    (hts : r.get? "Timestamp" = some (.num ts))
    (hauth : r.get? "AuthenticatorClient" = some (.str (md5 (smgpAuthInput account secret ts)))) :
    ∃ lf its, Gen.smgp30_Login.items = some (lf, its) ∧
      ((∀ it ∈ its, it.Fits (norm its r)) → (itemsBytes (norm its r) its).length + 4 < 2 ^ 32 →
       ∃ bs dec r', Gen.smgp30_Login.encode r = .ok (bs, r') ∧ Gen.smgp30_Login.decode bs = .ok dec ∧
         dec.str "AuthenticatorClient"
           = md5 (smgpAuthInput (dec.str "ClientID") secret (dec.num "Timestamp"))) :=
  login_exchange Gen.smgp30_Login (by simp [Gen.allPdus]) (by decide) _ _ _ (by decide)
    md5 smgpAuthInput account secret ts r hacc hts hauth

/-- the response direction: `AuthenticatorISMG = md5(status octets ++ request authenticator ++ secret)`; the
    client, recomputing from the *decoded* status with the authenticator it sent, obtains what it received.
    `statusOctets` is the big-endian rendering of the status the protocol version uses (1 octet in
    CMPP 2.0, 4 in CMPP 3.0) — any function of the decoded status value. -/
theorem resp_exchange (p : PduDesc) (hp : p ∈ Gen.allPdus) (hx : exceptions.contains p.name = false)
    (hF : survivesCheck p ["Status", "AuthenticatorISMG"] = true)
    (md5 : Bytes → Bytes) (statusOctets : Nat → Bytes) (status : Nat) (reqAuth secret : Bytes) (r : Rec)
    (hst : r.get? "Status" = some (.num status))
    (hauth : r.get? "AuthenticatorISMG" = some (.str (md5 (cmppRespAuthInput (statusOctets status) reqAuth secret)))) :
    ∃ lf its, p.items = some (lf, its) ∧
      ((∀ it ∈ its, it.Fits (norm its r)) → (itemsBytes (norm its r) its).length + 4 < 2 ^ 32 →
       ∃ bs dec r', p.encode r = .ok (bs, r') ∧ p.decode bs = .ok dec ∧
         dec.str "AuthenticatorISMG" = md5 (cmppRespAuthInput (statusOctets (dec.num "Status")) reqAuth secret)) := by
  obtain ⟨lf, its, hits, h⟩ := fields_survive p hp hx ["Status", "AuthenticatorISMG"] hF
  refine ⟨lf, its, hits, fun hfit hsize => ?_⟩
  obtain ⟨bs, dec, r', henc, hdec, hf⟩ := h r hfit hsize
  refine ⟨bs, dec, r', henc, hdec, ?_⟩
  have h1 := hf "Status" (by simp)
  have h2 := hf "AuthenticatorISMG" (by simp)
  simp [Rec.str, Rec.num, h1, h2, hst, hauth]

theorem C15_cmpp20_connect_resp_exchange (md5 : Bytes → Bytes) (statusOctets : Nat → Bytes) (status : Nat)
    (reqAuth secret : Bytes) (r : Rec) (hst : r.get? "Status" = some (.num status))
    (hauth : r.get? "AuthenticatorISMG" = some (.str (md5 (cmppRespAuthInput (statusOctets status) reqAuth secret)))) :
    ∃ lf its, Gen.cmpp20_PduConnectResp.items = some (lf, its) ∧
      ((∀ it ∈ its, it.Fits (norm its r)) → (itemsBytes (norm its r) its).length + 4 < 2 ^ 32 →
       ∃ bs dec r', Gen.cmpp20_PduConnectResp.encode r = .ok (bs, r') ∧ Gen.cmpp20_PduConnectResp.decode bs = .ok dec ∧
         dec.str "AuthenticatorISMG" = md5 (cmppRespAuthInput (statusOctets (dec.num "Status")) reqAuth secret)) :=
  resp_exchange Gen.cmpp20_PduConnectResp (by simp [Gen.allPdus]) (by decide) (by decide) md5 statusOctets status reqAuth secret r hst hauth
theorem C15_cmpp30_connect_resp_exchange (md5 : Bytes → Bytes) (statusOctets : Nat → Bytes) (status : Nat)
    (reqAuth secret : Bytes) (r : Rec) (hst : r.get? "Status" = some (.num status))
    (hauth : r.get? "AuthenticatorISMG" = some (.str (md5 (cmppRespAuthInput (statusOctets status) reqAuth secret)))) :
    ∃ lf its, Gen.cmpp30_ConnectResp.items = some (lf, its) ∧
      ((∀ it ∈ its, it.Fits (norm its r)) → (itemsBytes (norm its r) its).length + 4 < 2 ^ 32 →
       ∃ bs dec r', Gen.cmpp30_ConnectResp.encode r = .ok (bs, r') ∧ Gen.cmpp30_ConnectResp.decode bs = .ok dec ∧
         dec.str "AuthenticatorISMG" = md5 (cmppRespAuthInput (statusOctets (dec.num "Status")) reqAuth secret)) :=
  resp_exchange Gen.cmpp30_ConnectResp (by simp [Gen.allPdus]) (by decide) (by decide) md5 statusOctets status reqAuth secret r hst hauth

/-- the same exchange for every login PDU of the three protocols: all the fields the peer
    recomputes from come back exactly as sent (so the CMPP 3.0 argument applies verbatim) -/
theorem C15_login_fields_survive (nf : String × List String) (hnf : nf ∈ loginFields) :
    ∃ p, p ∈ Gen.allPdus ∧ p.name = nf.1 ∧
      ∃ lf its, p.items = some (lf, its) ∧ ∀ r : Rec,
        (∀ it ∈ its, it.Fits (norm its r)) → (itemsBytes (norm its r) its).length + 4 < 2 ^ 32 →
        ∃ bs dec r', p.encode r = .ok (bs, r') ∧ p.decode bs = .ok dec ∧ ∀ f ∈ nf.2, dec.get? f = r.get? f := by
  have h := loginFields_checked
  rw [List.all_eq_true] at h
  have hh := h nf hnf
  cases hfind : Gen.allPdus.find? (·.name == nf.1) with
  | none => simp [hfind] at hh
  | some p =>
    simp only [hfind, Bool.and_eq_true, Bool.not_eq_true'] at hh
    have hmem := List.mem_of_find?_eq_some hfind
    have hname : p.name = nf.1 := by simpa using List.find?_some hfind
    exact ⟨p, hmem, hname, fields_survive p hmem hh.2 nf.2 hh.1⟩

/-- the authenticator slots are 16 raw octets in all of them (NUL octets included) -/
theorem C15_slots_raw : (binaryFields.filter (fun pf => !binaryExceptions.contains pf)).all binaryOK = true :=
  C01_binary_fields_exact

end SmsVerif.C15

section
open SmsVerif.C15
#print axioms C15_ts10_width
#print axioms C15_ts10_parse
#print axioms C15_ts10_digits
#print axioms C15_digest_input_layout
#print axioms C15_digest_inputs_from_source
#print axioms C15_digest_input_is_source
#print axioms C15_cmpp30_connect_exchange
#print axioms C15_cmpp20_connect_exchange
#print axioms C15_smgp30_login_exchange
#print axioms C15_cmpp20_connect_resp_exchange
#print axioms C15_cmpp30_connect_resp_exchange
#print axioms C15_login_fields_survive
#print axioms C15_slots_raw
end
