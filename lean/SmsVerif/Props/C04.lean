/-
  C04 — stream framing returns exactly the frames sent, under any arrival pattern.
-/
import SmsVerif.Model.Framing
import SmsVerif.Lemmas.Bytes

namespace SmsVerif.C04
open SmsVerif SmsVerif.Framing

/-- a frame as the protocols define it: at least the 4-octet prefix, which holds the total length -/
def ValidFrame (f : Bytes) : Prop := 4 ≤ f.length ∧ fromBe (f.take 4) = f.length

/-- the extractor has nothing to return for `t` (no complete frame at its front) -/
def Pending (t : Bytes) : Prop := decodeNB t = .incomplete

theorem decodeNB_frame (f rest : Bytes) (hv : ValidFrame f) : decodeNB (f ++ rest) = .frame f rest := by
  obtain ⟨h4, hn⟩ := hv
  have htake : (f ++ rest).take 4 = f.take 4 := by
    rw [List.take_append_of_le_length h4]
  unfold decodeNB
  have h1 : ¬ (f ++ rest).length < 4 := by simp; omega
  simp only [h1, if_false, htake, hn]
  have h2 : ¬ f.length < 4 := by omega
  have h3 : ¬ (f ++ rest).length < f.length := by simp
  simp only [h2, h3, if_false, List.take_left' rfl, List.drop_left' rfl]

/-- **framing_exact (one shot)** : on a buffer holding valid frames followed by an incomplete tail,
    repeated extraction returns exactly those frames, in order and octet for octet, and leaves
    exactly the tail. -/
theorem extractAll_exact (fs : List Bytes) (t : Bytes) (hv : ∀ f ∈ fs, ValidFrame f) (ht : Pending t)
    (fuel : Nat) (hfuel : fs.length < fuel) : extractAll fuel (fs.flatten ++ t) = (fs, t, false) := by
  induction fs generalizing fuel with
  | nil =>
    cases fuel with
    | zero => omega
    | succ fuel =>
      have ht' : decodeNB t = .incomplete := ht
      simp only [List.flatten_nil, List.nil_append, extractAll, ht']
  | cons f rest ih =>
    cases fuel with
    | zero => omega
    | succ fuel =>
      have hf := hv f (by simp)
      simp only [List.flatten_cons, List.append_assoc, extractAll, decodeNB_frame f _ hf]
      rw [ih (fun g hg => hv g (by simp [hg])) fuel (by simpa using hfuel)]

/-- the fuel the driver uses (buffer length + 1) is enough: every frame has at least four octets -/
theorem frames_le_length (fs : List Bytes) (hv : ∀ f ∈ fs, ValidFrame f) : fs.length ≤ fs.flatten.length := by
  induction fs with
  | nil => simp
  | cons f rest ih =>
    have := (hv f (by simp)).1
    have := ih (fun g hg => hv g (by simp [hg]))
    simp only [List.length_cons, List.flatten_cons, List.length_append]; omega

/-- **incomplete_consumes_nothing** : while the next frame is incomplete the extractor reports
    'incomplete' and the buffer is untouched; it stays so until enough octets have arrived -/
theorem C04_incomplete_consumes_nothing (t : Bytes) (ht : Pending t) (fuel : Nat) :
    extractAll fuel t = ([], t, false) := by
  cases fuel with
  | zero => rfl
  | succ fuel =>
    have ht' : decodeNB t = .incomplete := ht
    simp only [extractAll, ht']

/-- a proper prefix of a valid frame is pending -/
theorem prefix_pending (f : Bytes) (hv : ValidFrame f) (k : Nat) (hk : k < f.length) : Pending (f.take k) := by
  obtain ⟨h4, hn⟩ := hv
  unfold Pending decodeNB
  by_cases h : (f.take k).length < 4
  · simp only [h, if_true]
  · have hk4 : 4 ≤ k := by
      simp only [List.length_take] at h; omega
    have htake : (f.take k).take 4 = f.take 4 := by
      rw [List.take_take]; congr 1; omega
    have h2 : ¬ f.length < 4 := by omega
    have h3 : (f.take k).length < f.length := by simp only [List.length_take]; omega
    simp only [h, if_false, htake, hn, h2, h3, if_true]

/-- extraction from any prefix of `frames ++ tail`: the whole frames inside the prefix come out, in
    order, and the remainder — a pending prefix of what is still to come — stays buffered -/
theorem extract_prefix (gs : List Bytes) (t : Bytes) (hv : ∀ f ∈ gs, ValidFrame f)
    (hpend : ∀ k, Pending (t.take k)) (j fuel : Nat) (hfuel : ((gs.flatten ++ t).take j).length < fuel) :
    ∃ m, m ≤ gs.length ∧ (gs.take m).flatten.length ≤ j ∧
      extractAll fuel ((gs.flatten ++ t).take j)
        = (gs.take m, ((gs.drop m).flatten ++ t).take (j - (gs.take m).flatten.length), false) ∧
      Pending (((gs.drop m).flatten ++ t).take (j - (gs.take m).flatten.length)) := by
  induction gs generalizing j fuel with
  | nil =>
    refine ⟨0, Nat.le_refl _, by simp, ?_, ?_⟩
    · simp only [List.flatten_nil, List.nil_append, List.take_zero, List.drop_zero, List.length_nil, Nat.sub_zero]
      exact C04_incomplete_consumes_nothing _ (hpend j) fuel
    · simpa using hpend j
  | cons g rest ih =>
    have hg := hv g (by simp)
    cases fuel with
    | zero => omega
    | succ fuel =>
      by_cases hj : j < g.length
      · -- the prefix ends inside the first frame
        have e : ((g :: rest).flatten ++ t).take j = g.take j := by
          simp only [List.flatten_cons, List.append_assoc]
          rw [List.take_append_of_le_length (by omega)]
        have hp := prefix_pending g hg j hj
        refine ⟨0, Nat.zero_le _, by simp, ?_, ?_⟩
        · simp only [List.take_zero, List.flatten_nil, List.length_nil, Nat.sub_zero, List.drop_zero]
          rw [e]; exact C04_incomplete_consumes_nothing _ hp _
        · simp only [List.take_zero, List.flatten_nil, List.length_nil, Nat.sub_zero, List.drop_zero]
          rw [e]; exact hp
      · -- the first frame is complete
        have hjg : g.length ≤ j := by omega
        have e0 : ((g :: rest).flatten ++ t).take j = g ++ (rest.flatten ++ t).take (j - g.length) := by
          simp only [List.flatten_cons, List.append_assoc]
          rw [List.take_append]
          congr 1
          exact List.take_of_length_le hjg
        have hfuel' : ((rest.flatten ++ t).take (j - g.length)).length < fuel := by
          rw [e0] at hfuel
          simp only [List.length_append] at hfuel
          have := hg.1
          omega
        obtain ⟨m, hm, hle, hex, hp⟩ := ih (fun f hf => hv f (by simp [hf])) (j - g.length) fuel hfuel'
        have e : ((g :: rest).flatten ++ t).take j = g ++ (rest.flatten ++ t).take (j - g.length) := by
          simp only [List.flatten_cons, List.append_assoc]
          rw [List.take_append]
          congr 1
          exact List.take_of_length_le hjg
        have hlen : ((g :: rest).take (m + 1)).flatten.length = g.length + (rest.take m).flatten.length := by
          simp only [List.take_succ_cons, List.flatten_cons, List.length_append]
        have hsub : j - (g.length + (rest.take m).flatten.length) = j - g.length - (rest.take m).flatten.length := by omega
        refine ⟨m + 1, by simpa using hm, by rw [hlen]; omega, ?_, ?_⟩
        · rw [e]
          simp only [extractAll, decodeNB_frame g _ hg, hex, List.take_succ_cons, List.drop_succ_cons]
          have hl2 : (g :: rest.take m).flatten.length = g.length + (rest.take m).flatten.length := by
            simp only [List.flatten_cons, List.length_append]
          rw [hl2, hsub]
        · simp only [List.drop_succ_cons]
          rw [hlen, hsub]
          exact hp

/-- the stream after the first `k` frames -/
def remaining (fs : List Bytes) (t : Bytes) (k : Nat) : Bytes := (fs.drop k).flatten ++ t

theorem take_flatten_drop (fs : List Bytes) (k m : Nat) :
    (fs.take (k + m)).flatten = (fs.take k).flatten ++ ((fs.drop k).take m).flatten := by
  rw [← List.flatten_append]
  congr 1
  rw [List.take_add]

/-- **framing_exact (any arrival pattern)** : feed the receiver the stream `frames ++ tail` cut into
    arbitrary chunks; whatever the cuts are, it delivers exactly the frames, in order and octet for
    octet, consumes exactly their octets, and is left with exactly the tail buffered.
    Invariant: `delivered = first k frames`, `buffer = a pending prefix of what follows frame k`,
    `buffer ++ future chunks = what follows frame k`. -/
theorem C04_framing_invariant (fs : List Bytes) (t : Bytes) (hv : ∀ f ∈ fs, ValidFrame f)
    (hpend : ∀ k, Pending (t.take k)) (d0 : List Bytes) (chunks : List Bytes) (c : Conn) (k j : Nat)
    (hk : k ≤ fs.length) (hcl : c.closed = false) (hdel : c.delivered = d0 ++ fs.take k)
    (hbuf : c.buf = (remaining fs t k).take j) (hpen : Pending c.buf)
    (hfut : chunks.flatten = (remaining fs t k).drop j) :
    ∃ k' j', k' ≤ fs.length ∧ (chunks.foldl Conn.arrive c).closed = false ∧
      (chunks.foldl Conn.arrive c).delivered = d0 ++ fs.take k' ∧
      (chunks.foldl Conn.arrive c).buf = (remaining fs t k').take j' ∧
      (remaining fs t k').length ≤ j' ∧ Pending (chunks.foldl Conn.arrive c).buf := by
  induction chunks generalizing c k j with
  | nil =>
    refine ⟨k, j, hk, hcl, hdel, hbuf, ?_, hpen⟩
    have := congrArg List.length hfut
    simp at this; omega
  | cons ch rest ih =>
    -- the buffer after the arrival is a longer prefix of the same remaining stream
    have hch : ch = ((remaining fs t k).drop j).take ch.length := by
      rw [← hfut]; simp
    have hB : c.buf ++ ch = (remaining fs t k).take (j + ch.length) := by
      rw [List.take_add, ← hch, hbuf]
    obtain ⟨m, hm, hle, hex, hp⟩ := extract_prefix (fs.drop k) t (fun f hf => hv f (List.mem_of_mem_drop hf))
      hpend (j + ch.length) ((c.buf ++ ch).length + 1) (by
        have : (fs.drop k).flatten ++ t = remaining fs t k := rfl
        rw [this, ← hB]; omega)
    have harr : Conn.arrive c ch = ⟨((fs.drop k).drop m).flatten ++ t |>.take (j + ch.length - ((fs.drop k).take m).flatten.length),
        c.delivered ++ (fs.drop k).take m, false⟩ := by
      have hB' : c.buf ++ ch = ((fs.drop k).flatten ++ t).take (j + ch.length) := hB
      rw [hB'] at hex
      simp only [Conn.arrive, hcl, Bool.false_eq_true, if_false]
      rw [hB', hex]
    have hrem : remaining fs t (k + m) = ((fs.drop k).drop m).flatten ++ t := by
      simp [remaining, List.drop_drop, Nat.add_comm]
    have hkm : k + m ≤ fs.length := by simp at hm; omega
    have hfut' : rest.flatten = (remaining fs t (k + m)).drop (j + ch.length - ((fs.drop k).take m).flatten.length) := by
      have h1 : rest.flatten = (remaining fs t k).drop (j + ch.length) := by
        have : (ch :: rest).flatten = ch ++ rest.flatten := by simp
        rw [this] at hfut
        have := congrArg (List.drop ch.length) hfut
        simpa [List.drop_drop, Nat.add_comm] using this
      have h2 : remaining fs t k = ((fs.drop k).take m).flatten ++ remaining fs t (k + m) := by
        rw [hrem]
        simp only [remaining]
        rw [← List.append_assoc, ← List.flatten_append, List.take_append_drop]
      rw [h1, h2, List.drop_append]
      have : (((fs.drop k).take m).flatten).drop (j + ch.length) = [] := List.drop_eq_nil_of_le hle
      simp [this]
    exact ih (Conn.arrive c ch) (k + m)
      (j + ch.length - ((fs.drop k).take m).flatten.length) hkm (by rw [harr])
      (by rw [harr, hdel, List.append_assoc, List.take_add]) (by rw [harr, hrem]) (by rw [harr]; exact hp) hfut'

/-- **framing_exact** : the receiver, fed the stream `frames ++ tail` in any chunking, ends with
    exactly the frames delivered and exactly the tail buffered. -/
theorem C04_framing_exact (fs : List Bytes) (t : Bytes) (hv : ∀ f ∈ fs, ValidFrame f)
    (hpend : ∀ k, Pending (t.take k)) (chunks : List Bytes) (hs : chunks.flatten = fs.flatten ++ t) :
    (chunks.foldl Conn.arrive {}).delivered = fs ∧ (chunks.foldl Conn.arrive {}).buf = t ∧
    (chunks.foldl Conn.arrive {}).closed = false := by
  have hp0 : Pending ([] : Bytes) := by simp [Pending, decodeNB]
  obtain ⟨k', j', hk', hc', hd', hb', hj', hpen'⟩ := C04_framing_invariant fs t hv hpend [] chunks {} 0 0
    (Nat.zero_le _) rfl (by simp) (by simp) hp0 (by simpa [remaining] using hs)
  have hwhole : (chunks.foldl Conn.arrive {}).buf = remaining fs t k' := by
    rw [hb']; exact List.take_of_length_le hj'
  -- a pending buffer that is the whole remaining stream cannot start with a complete frame
  have hk : fs.drop k' = [] := by
    cases hdrop : fs.drop k' with
    | nil => rfl
    | cons g rest =>
      exfalso
      have hg : ValidFrame g := hv g (List.mem_of_mem_drop (by rw [hdrop]; simp))
      rw [hwhole] at hpen'
      simp only [remaining, hdrop, List.flatten_cons, List.append_assoc] at hpen'
      rw [Pending, decodeNB_frame g _ hg] at hpen'
      cases hpen'
  have hk2 : fs.take k' = fs := by
    have := List.take_append_drop k' fs
    rw [hk, List.append_nil] at this; exact this
  refine ⟨by simpa [hk2] using hd', ?_, hc'⟩
  rw [hwhole]; simp [remaining, hk]

/-! ### malformed prefixes, blocking extractor -/

/-- **short_prefix_refused (non-blocking)** : a length prefix smaller than the prefix itself is an
    error; it never yields a frame (in particular not an empty one) and consumes nothing -/
theorem C04_short_prefix_refused (buf : Bytes) (h4 : 4 ≤ buf.length) (hn : fromBe (buf.take 4) < 4) :
    decodeNB buf = .invalid ∧ ∀ fuel, 0 < fuel → extractAll fuel buf = ([], buf, true) := by
  have h : decodeNB buf = .invalid := by
    unfold decodeNB
    have : ¬ buf.length < 4 := by omega
    simp [this, hn]
  refine ⟨h, fun fuel hf => ?_⟩
  cases fuel with
  | zero => omega
  | succ fuel => simp only [extractAll, h]

/-- what the non-blocking extractor returns is always a complete frame: exactly the first `n`
    buffered octets, `n ≥ 4` being the prefix value, and exactly those are consumed -/
theorem C04_nb_frame_complete (buf f rest : Bytes) (h : decodeNB buf = .frame f rest) :
    buf = f ++ rest ∧ 4 ≤ f.length ∧ fromBe (f.take 4) = f.length := by
  unfold decodeNB at h
  split at h
  · cases h
  · rename_i h4
    dsimp only at h
    split at h
    · cases h
    · rename_i hn
      split at h
      · cases h
      · rename_i hlen
        simp only [NB.frame.injEq] at h
        obtain ⟨rfl, rfl⟩ := h
        have hl : (buf.take (fromBe (buf.take 4))).length = fromBe (buf.take 4) := by
          simp only [List.length_take]; omega
        refine ⟨(List.take_append_drop _ _).symm, by omega, ?_⟩
        rw [List.take_take, hl]
        congr 2
        omega

/-- **blocked_no_partial** : the blocking extractor returns a whole frame — the next `n` octets of
    the stream, `n` being their own prefix — or an error; never a partial frame -/
theorem C04_blocked_no_partial (s : Stream) (f : Bytes) (n : Nat) (h : decodeBlocked s = (.ok f, n)) :
    f = s.data.take n ∧ n ≤ s.data.length ∧ 4 ≤ n ∧ fromBe (f.take 4) = n := by
  unfold decodeBlocked at h
  cases h1 : readFull s 4 with
  | error e => simp [h1] at h
  | ok p1 =>
    obtain ⟨pre, s1⟩ := p1
    simp only [h1] at h
    unfold readFull at h1
    split at h1
    · rename_i hle
      simp only [Except.ok.injEq, Prod.mk.injEq] at h1
      obtain ⟨rfl, rfl⟩ := h1
      split at h
      · simp at h
      · rename_i hn4
        cases h2 : readFull { s with data := s.data.drop 4 } (fromBe (s.data.take 4) - 4) with
        | error e => simp [h2] at h
        | ok p2 =>
          obtain ⟨body, s2⟩ := p2
          simp only [h2, Prod.mk.injEq, Except.ok.injEq] at h
          obtain ⟨rfl, rfl⟩ := h
          unfold readFull at h2
          split at h2
          · rename_i hle2
            simp only [Except.ok.injEq, Prod.mk.injEq] at h2
            obtain ⟨rfl, _⟩ := h2
            simp only [List.length_drop] at hle2
            have hn : 4 + (fromBe (s.data.take 4) - 4) = fromBe (s.data.take 4) := by omega
            refine ⟨?_, by omega, by omega, ?_⟩
            · rw [← List.take_add, hn]
            · rw [List.take_append_of_le_length (by simp; omega), List.take_take]
              simp
          · split at h2 <;> (try split at h2) <;> simp at h2
    · split at h1 <;> (try split at h1) <;> simp at h1

/-- **short_prefix_refused (blocking)** : a prefix below 4 is an error after exactly the four prefix
    octets have been read — no panic, no frame -/
theorem C04_blocked_short_prefix (s : Stream) (h4 : 4 ≤ s.data.length) (hn : fromBe (s.data.take 4) < 4) :
    decodeBlocked s = (.error .badPrefix, 4) := by
  simp [decodeBlocked, readFull, h4, hn]

/-- a stream that ends or fails before the frame is complete gives an error, not a frame -/
theorem C04_blocked_truncated (s : Stream) (h : s.data.length < 4 ∨ s.data.length < fromBe (s.data.take 4)) :
    ∃ e, (decodeBlocked s).1 = .error e := by
  unfold decodeBlocked
  cases h1 : readFull s 4 with
  | error e => exact ⟨e, rfl⟩
  | ok p1 =>
    obtain ⟨pre, s1⟩ := p1
    simp only
    unfold readFull at h1
    split at h1
    · rename_i hle
      simp only [Except.ok.injEq, Prod.mk.injEq] at h1
      obtain ⟨rfl, rfl⟩ := h1
      split
      · exact ⟨_, rfl⟩
      · rename_i hn4
        have hlt : s.data.length < fromBe (s.data.take 4) := by
          rcases h with h | h
          · omega
          · exact h
        cases h2 : readFull { s with data := s.data.drop 4 } (fromBe (s.data.take 4) - 4) with
        | error e => exact ⟨e, rfl⟩
        | ok p2 =>
          exfalso
          unfold readFull at h2
          split at h2
          · rename_i hle2
            simp only [List.length_drop] at hle2; omega
          · split at h2 <;> (try split at h2) <;> simp at h2
    · split at h1 <;> (try split at h1) <;> simp at h1

example : ValidFrame [0, 0, 0, 6, 9, 9] := by simp [ValidFrame, fromBe]
example : (([[0, 0, 0, 4], [0], [0, 0, 5, 7]] : List Bytes).foldl Conn.arrive {}).delivered
    = [[0, 0, 0, 4], [0, 0, 0, 5, 7]] := by decide

/-- **sharing one codec value between connections**: in the model the extractor is a function of the
    stream it is given, so what one connection yields does not depend on the other connection's
    octets, read sizes or timing.  The implementation is held to this by the correspondence run
    (`frame pair`: two connections, one codec value, strictly alternating reads). -/
theorem C04_connections_independent (a b b' : Bytes) :
    (blockedPair a b).1 = (blockedPair a b').1 ∧ (blockedPair b a).2 = (blockedPair b' a).2 := ⟨rfl, rfl⟩

def okFrames : List (Except BErr Bytes) → List Bytes
  | [] => []
  | .ok f :: rs => f :: okFrames rs
  | .error _ :: rs => okFrames rs

/-- a drained connection yields consecutive pieces of its own stream: the frames handed out, concatenated, are a
    prefix of what was sent on that connection (nothing invented, nothing skipped, nothing from elsewhere) -/
theorem C04_drained_frames_are_stream_prefix (fuel : Nat) (data : Bytes) :
    (okFrames (blockedAll fuel data)).flatten <+: data := by
  induction fuel generalizing data with
  | zero => simp [blockedAll, okFrames]
  | succ k ih =>
    unfold blockedAll
    cases h : decodeBlocked ⟨data, false⟩ with
    | mk r n =>
      cases r with
      | error e => simp [okFrames]
      | ok f =>
        have hp := C04_blocked_no_partial ⟨data, false⟩ f n h
        simp only [okFrames, List.flatten_cons]
        obtain ⟨t, ht⟩ := ih (data.drop n)
        refine ⟨t, ?_⟩
        rw [List.append_assoc, ht, hp.1]
        exact List.take_append_drop n data

end SmsVerif.C04

section
open SmsVerif.C04
#print axioms extractAll_exact
#print axioms C04_incomplete_consumes_nothing
#print axioms C04_framing_exact
#print axioms C04_short_prefix_refused
#print axioms C04_nb_frame_complete
#print axioms C04_blocked_no_partial
#print axioms C04_blocked_short_prefix
#print axioms C04_blocked_truncated
#print axioms C04_connections_independent
#print axioms C04_drained_frames_are_stream_prefix
end
