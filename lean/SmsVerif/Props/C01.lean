/-
  C01 — PDU encode → decode round trip for every PDU type of all five protocols.

  The layouts (`Gen.allPdus`) are regenerated from /repo on every run; the obligations that
  depend on them are the `by decide` lines below, everything else is proved once.
-/
import SmsVerif.Lemmas.LayoutRoundTrip
import SmsVerif.Gen.Layouts

namespace SmsVerif.C01
open SmsVerif

/-- The property for one PDU type, at full strength: the statement lists of `IEncode` and
    `IDecode` align into wire items, and for every PDU value whose normal form (the receiver as
    the encoder leaves it: only the documented defaults applied) fits the wire format — integers
    in range, text without NUL and no longer than its slot, fixed binary fields at exactly their
    width, declared lengths and counts equal to the actual ones, optional parameters with distinct
    tags — encoding succeeds and decoding the produced octets into a fresh PDU gives a PDU equal
    to the normal form in every struct field, the header length field holding the real byte count. -/
def RoundTrips (p : PduDesc) : Prop :=
  ∃ lf its, p.items = some (lf, its) ∧ ∀ r : Rec,
    (∀ it ∈ its, it.Fits (norm its r)) → (itemsBytes (norm its r) its).length + 4 < 2 ^ 32 →
    ∃ bs dec, p.encode r = .ok (bs, norm its r) ∧ p.decode bs = .ok dec ∧
      ∀ ft ∈ p.fields,
        dec.get? ft.1 = (if p.fin = .withLength ∧ ft.1 = lf then some (.num bs.length)
                         else (norm its r).get? ft.1)

/-- PDU types outside the reflective theorems.  Two for which the pinned code is *not* an inverse pair
    (known findings, see known-findings.json): the SMGP message id is written raw and read back
    hex-expanded.  Two whose decoder has a conditional body (SMPP 3.4 §4.1.2, §4.4.2: a response with a
    non-zero command_status has no body; the decoder returns early on a bare header): the statement
    `stopIfAbsent` is interpreted faithfully by the model (`DecOp.run`) and compared with the code on
    every run, but the round-trip / fit / truncation theorems are proved for layouts without it. -/
def exceptions : List String := ["smgp30.Deliver", "smgp30.SubmitResp", "smpp34.BindResp", "smpp34.SubmitSmResp"]

/-- per-run obligation: the checker accepts every regenerated layout outside the exceptions -/
theorem layouts_checked :
    (Gen.allPdus.filter (fun p => !exceptions.contains p.name)).all PduDesc.checkRoundTrip = true := by
  decide

/-- **C01_roundtrip** : every PDU type the translator finds in /repo (outside the recorded
    exceptions) round-trips. -/
theorem C01_roundtrip (p : PduDesc) (hp : p ∈ Gen.allPdus) (hx : exceptions.contains p.name = false) :
    RoundTrips p := by
  have h := layouts_checked
  rw [List.all_eq_true] at h
  exact roundtrip_sound p (h p (List.mem_filter.2 ⟨hp, by rw [hx]; rfl⟩))

/-- the dispatchers' 57 PDU types plus the CMPP status-report body are all covered -/
theorem C01_count : Gen.allPdus.length = 58 := by decide

/-! ### fixed binary fields are read at exact width -/

/-- the 16-octet authenticators must be carried as raw octets (all byte values, NUL included) -/
def binaryFields : List (String × String) :=
  [("cmpp20.PduConnect", "AuthenticatorSource"), ("cmpp20.PduConnectResp", "AuthenticatorISMG"),
   ("cmpp30.Connect", "AuthenticatorSource"), ("cmpp30.ConnectResp", "AuthenticatorISMG"),
   ("smgp30.Login", "AuthenticatorClient"), ("smgp30.LoginResp", "AuthenticatorServer")]

def rawAt (p : PduDesc) (f : String) : Bool :=
  match p.items with
  | some (_, its) => its.any fun | .fixedRaw f' 16 => f' == f | _ => false
  | none => false

def binaryOK (pf : String × String) : Bool :=
  match Gen.allPdus.find? (·.name == pf.1) with
  | some p => rawAt p pf.2
  | none => false

/-- known finding (open): `smgp30.LoginResp.AuthenticatorServer` is read as a NUL-terminated
    string (its test pins the trimming), so a digest containing 0x00 is cut. -/
def binaryExceptions : List (String × String) := [("smgp30.LoginResp", "AuthenticatorServer")]

theorem C01_binary_fields_exact :
    (binaryFields.filter (fun pf => !binaryExceptions.contains pf)).all binaryOK = true := by decide

/-! ### over-long values are refused -/

theorem writeRep_sticky (w : Writer) (e : PErr) (hw : w.err = some e) (n : Nat) (l : List Bytes) :
    writeRep w n l = w := by
  induction l with
  | nil => rfl
  | cons x xs ih => simp only [writeRep, Writer.writeFixed, hw, ih]

theorem EncOp.run_sticky (op : EncOp) (r : Rec) (w : Writer) (e : PErr) (hw : w.err = some e)
    (st : EncState) (h : op.run ⟨r, w⟩ = .ok st) : st.w = w := by
  cases op <;> simp only [EncOp.run] at h
  case repCount f c n => split at h <;> simp at h; subst h; exact writeRep_sticky w e hw _ _
  case assignIf c as => split at h <;> simp at h <;> subst h <;> rfl
  case unsupported pos => simp at h
  case hexFixed f n => split at h <;> simp at h; subst h; simp [Writer.writeFixed, hw]
  all_goals (simp at h; subst h)
  all_goals first
    | rfl
    | exact writeRep_sticky w e hw _ _
    | simp [Writer.writeNum, Writer.writeCString, Writer.writeFixed, Writer.writeBytes, hw]

/-- once the writer has failed, the rest of `IEncode` cannot succeed with a healthy writer -/
theorem runEnc_sticky (ops : List EncOp) (r : Rec) (w : Writer) (e : PErr) (hw : w.err = some e) :
    ∀ st, runEnc ops ⟨r, w⟩ = .ok st → st.w.err = some e := by
  induction ops generalizing r w with
  | nil => intro st h; simp [runEnc] at h; subst h; exact hw
  | cons op ops ih =>
    intro st h
    simp only [runEnc] at h
    cases hop : op.run ⟨r, w⟩ with
    | error x => simp [hop] at h
    | ok st1 =>
      simp only [hop] at h
      have hw1 : st1.w = w := EncOp.run_sticky op r w e hw st1 hop
      exact ih st1.r st1.w (by rw [hw1]; exact hw) st h

theorem runEnc_append (a b : List EncOp) (st : EncState) :
    runEnc (a ++ b) st = match runEnc a st with | .ok st' => runEnc b st' | .error e => .error e := by
  induction a generalizing st with
  | nil => simp [runEnc]
  | cons op ops ih =>
    simp only [List.cons_append, runEnc]
    cases op.run st with
    | error e => rfl
    | ok st1 => exact ih st1

/-- **encode_rejects_oversize** : if, when `IEncode` reaches a `WriteFixedLenString(p.f, n)`
    statement, the field holds more than `n` octets, then `IEncode` returns an error and no bytes —
    never truncated or shifted output. -/
theorem C01_encode_rejects_oversize (p : PduDesc) (pre post : List EncOp) (f : String) (n : Nat)
    (henc : p.enc = pre ++ .fixed f n :: post) (r : Rec)
    (hlong : ∀ st, runEnc pre ⟨r, {}⟩ = .ok st → n < (st.r.str f).length) :
    ∃ e, p.encode r = .error e := by
  unfold PduDesc.encode
  rw [henc, runEnc_append]
  cases hpre : runEnc pre ⟨r, {}⟩ with
  | error e => exact ⟨e, rfl⟩
  | ok st =>
    have hl := hlong st hpre
    simp only [runEnc, EncOp.run]
    cases hw : st.w.err with
    | some e =>
      have hfix : st.w.writeFixed (st.r.str f) n = st.w := by simp [Writer.writeFixed, hw]
      rw [hfix]
      cases hpost : runEnc post ⟨st.r, st.w⟩ with
      | error e' => exact ⟨e', rfl⟩
      | ok st2 =>
        have := runEnc_sticky post st.r st.w e hw st2 hpost
        cases p.fin <;> simp [Writer.bytes, Writer.bytesWithLength, this]
    | none =>
      have hfix : (st.w.writeFixed (st.r.str f) n).err = some .tooLong := by
        simp [Writer.writeFixed, hw, hl]
      cases hpost : runEnc post ⟨st.r, st.w.writeFixed (st.r.str f) n⟩ with
      | error e' => exact ⟨e', rfl⟩
      | ok st2 =>
        have := runEnc_sticky post st.r _ .tooLong hfix st2 hpost
        cases p.fin <;> simp [Writer.bytes, Writer.bytesWithLength, this]

/-! ### non-vacuity: a concrete non-trivial PDU value meets the hypotheses -/

example : Gen.cmpp30_ActiveTestResp.checkRoundTrip = true := by decide

end SmsVerif.C01

section
open SmsVerif.C01
#print axioms C01_roundtrip
#print axioms C01_count
#print axioms C01_binary_fields_exact
#print axioms C01_encode_rejects_oversize
#print axioms SmsVerif.roundtrip_sound
end
