/-
  C18 — delivery-receipt extraction recovers every field regardless of order.

  Proved here (`…_partial`, see DESIGN.md): under the explicit hypothesis that the first occurrence
  of a present key token in the receipt is its field occurrence, the extracted value is exactly the
  characters between the colon and the next space (cut to the width for SMGP), whatever precedes
  and follows; an absent key gives the empty string.  That the standard key families satisfy the
  hypothesis for token-free values is checked on the implementation for all 8! orders and all 2^8
  subsets (harness), not yet proved for all values.  The CMPP binary status-report body is a C01
  instance.
-/
import SmsVerif.Model.Receipt
import SmsVerif.Props.C01

namespace SmsVerif.C18
open SmsVerif SmsVerif.Receipt

theorem untilSpace_append (v rest : Bytes) (hv : ∀ c ∈ v, c ≠ 32) (hr : rest = [] ∨ rest.head? = some 32) :
    untilSpace (v ++ rest) = v := by
  induction v with
  | nil =>
    rcases hr with rfl | h
    · rfl
    · cases rest with
      | nil => rfl
      | cons c cs => simp at h; subst h; simp [untilSpace]
  | cons c cs ih =>
    have hc : c ≠ 32 := hv c (by simp)
    simp only [List.cons_append, untilSpace, hc, if_false]
    rw [ih (fun x hx => hv x (by simp [hx]))]

/-- **find_value (SMPP)**, partial: if the first occurrence of `key:` is the field occurrence, the
    value returned is exactly the characters up to the next space or the end of the text -/
theorem C18_find_value_smpp_partial (pre key v rest : Bytes)
    (hfirst : indexOf (pre ++ key ++ [58] ++ v ++ rest) (key ++ [58]) = some pre.length)
    (hv : ∀ c ∈ v, c ≠ 32) (hr : rest = [] ∨ rest.head? = some 32) :
    findSmpp (pre ++ key ++ [58] ++ v ++ rest) key = v := by
  unfold findSmpp
  rw [hfirst]
  have : (pre ++ key ++ [58] ++ v ++ rest).drop (pre.length + key.length + 1) = v ++ rest := by
    have e : pre ++ key ++ [58] ++ v ++ rest = (pre ++ key ++ [58]) ++ (v ++ rest) := by simp [List.append_assoc]
    rw [e]; exact List.drop_left' (by simp; omega)
  simp only [this]
  exact untilSpace_append v rest hv hr

/-- **absent_key_empty** -/
theorem C18_absent_key_empty (s key backup : Bytes) (w : Nat)
    (h1 : indexOf s (key ++ [58]) = none) (h2 : indexOf s (backup ++ [58]) = none) :
    findSmpp s key = [] ∧ findSmgp s key backup w = [] := by
  simp [findSmpp, findSmgp, h1, h2]

/-- **find_value (SMGP)**, partial: either spelling; the value is cut to the field's width -/
theorem C18_find_value_smgp_partial (pre key backup v rest : Bytes) (w : Nat) (usedKey : Bytes)
    (hsp : (usedKey = key ∧ indexOf (pre ++ usedKey ++ [58] ++ v ++ rest) (key ++ [58]) = some pre.length) ∨
           (usedKey = backup ∧ backup ≠ [] ∧ indexOf (pre ++ usedKey ++ [58] ++ v ++ rest) (key ++ [58]) = none ∧
            indexOf (pre ++ usedKey ++ [58] ++ v ++ rest) (backup ++ [58]) = some pre.length))
    (hv : ∀ c ∈ v, c ≠ 32) (hr : rest = [] ∨ rest.head? = some 32) :
    findSmgp (pre ++ usedKey ++ [58] ++ v ++ rest) key backup w = truncate w v := by
  have hdrop : ∀ k : Bytes, (pre ++ k ++ [58] ++ v ++ rest).drop (pre.length + k.length + 1) = v ++ rest := by
    intro k
    have e : pre ++ k ++ [58] ++ v ++ rest = (pre ++ k ++ [58]) ++ (v ++ rest) := by simp [List.append_assoc]
    rw [e]; exact List.drop_left' (by simp; omega)
  unfold findSmgp
  rcases hsp with ⟨rfl, h⟩ | ⟨rfl, hne, h1, h2⟩
  · rw [h]; simp only [hdrop, untilSpace_append v rest hv hr]
  · rw [h1]
    have : usedKey.isEmpty = false := by cases usedKey <;> simp_all
    simp only [this, Bool.false_eq_true, if_false, h2, hdrop, untilSpace_append v rest hv hr]

/-- the width cut keeps a prefix of at most `w` characters -/
theorem C18_truncate_spec (w : Nat) (v : Bytes) (hw : 0 < w) :
    truncate w v = v.take w ∧ (truncate w v).length ≤ w := by
  unfold truncate
  split
  · rename_i h; exact ⟨rfl, by simp; omega⟩
  · rename_i h
    have : v.length ≤ w := by omega
    exact ⟨(List.take_of_length_le this).symm, this⟩

/-- **SMGP id**: the hex form of exactly the ten octets after the first `id:` (any octets, spaces and
    NULs included) -/
theorem C18_smgp_id_partial (pre id rest : Bytes) (hid : id.length = 10)
    (hfirst : indexOf (pre ++ [105, 100, 58] ++ id ++ rest) [105, 100, 58] = some pre.length) :
    findSmgpId (pre ++ [105, 100, 58] ++ id ++ rest) = hexEncode id := by
  unfold findSmgpId
  rw [hfirst]
  have hlen : (pre ++ [105, 100, 58] ++ id ++ rest).length ≥ pre.length + 3 + 10 := by simp; omega
  have hdrop : (pre ++ [105, 100, 58] ++ id ++ rest).drop (pre.length + 3) = id ++ rest := by
    have e : pre ++ [105, 100, 58] ++ id ++ rest = (pre ++ [105, 100, 58]) ++ (id ++ rest) := by simp [List.append_assoc]
    rw [e]; exact List.drop_left' (by simp)
  dsimp only
  rw [if_pos hlen, hdrop]
  congr 1
  exact List.take_left' hid

/-- the CMPP binary status-report body round-trips (instance of C01) -/
theorem C18_cmpp_report_roundtrip : C01.RoundTrips Gen.cmpp_SubPduDeliveryContent :=
  C01.C01_roundtrip _ (by simp [Gen.allPdus]) (by decide)

def str (s : String) : Bytes := s.toList.map Char.toNat

example : findSmpp (str "id:0123456789 sub:001 dlvrd:001 submit date:2401161242 done date:2401161243 stat:DELIVRD err:000 text:hi")
    (str "stat") = str "DELIVRD" := by decide

end SmsVerif.C18

section
open SmsVerif.C18
#print axioms C18_find_value_smpp_partial
#print axioms C18_absent_key_empty
#print axioms C18_find_value_smgp_partial
#print axioms C18_truncate_spec
#print axioms C18_smgp_id_partial
#print axioms C18_cmpp_report_roundtrip
end
