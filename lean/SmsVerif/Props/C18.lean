/-
  C18 — delivery-receipt extraction recovers every field regardless of order.

  Proved here (`…_partial`, see DESIGN.md): under the explicit hypothesis that the first occurrence
  of a present key token in the receipt is its field occurrence, the extracted value is exactly the
  characters between the colon and the next space (cut to the width for SMGP), whatever precedes
  and follows; an absent key gives the empty string.  That the standard key families satisfy the
  hypothesis for token-free values is checked on the implementation for all 8! orders and all 2^8
  subsets (harness), not yet proved for all values.  The CMPP binary status-report body is a C01
  instance.
-/
import SmsVerif.Model.Receipt
import SmsVerif.Lemmas.Receipt
import SmsVerif.Props.C01

namespace SmsVerif.C18
open SmsVerif SmsVerif.Receipt

theorem untilSpace_append (v rest : Bytes) (hv : ∀ c ∈ v, c ≠ 32) (hr : rest = [] ∨ rest.head? = some 32) :
    untilSpace (v ++ rest) = v := by
  induction v with
  | nil =>
    rcases hr with rfl | h
    · rfl
    · cases rest with
      | nil => rfl
      | cons c cs => simp at h; subst h; simp [untilSpace]
  | cons c cs ih =>
    have hc : c ≠ 32 := hv c (by simp)
    simp only [List.cons_append, untilSpace, hc, if_false]
    rw [ih (fun x hx => hv x (by simp [hx]))]

/-- **find_value (SMPP)**, partial: if the first occurrence of `key:` is the field occurrence, the
    value returned is exactly the characters up to the next space or the end of the text -/
theorem C18_find_value_smpp_partial (pre key v rest : Bytes)
    (hfirst : indexOf (pre ++ key ++ [58] ++ v ++ rest) (key ++ [58]) = some pre.length)
    (hv : ∀ c ∈ v, c ≠ 32) (hr : rest = [] ∨ rest.head? = some 32) :
    findSmpp (pre ++ key ++ [58] ++ v ++ rest) key = v := by
  unfold findSmpp
  rw [hfirst]
  have : (pre ++ key ++ [58] ++ v ++ rest).drop (pre.length + key.length + 1) = v ++ rest := by
    have e : pre ++ key ++ [58] ++ v ++ rest = (pre ++ key ++ [58]) ++ (v ++ rest) := by simp [List.append_assoc]
    rw [e]; exact List.drop_left' (by simp; omega)
  simp only [this]
  exact untilSpace_append v rest hv hr

/-- **absent_key_empty** -/
theorem C18_absent_key_empty (s key backup : Bytes) (w : Nat)
    (h1 : indexOf s (key ++ [58]) = none) (h2 : indexOf s (backup ++ [58]) = none) :
    findSmpp s key = [] ∧ findSmgp s key backup w = [] := by
  simp [findSmpp, findSmgp, h1, h2]

/-- **find_value (SMGP)**, partial: either spelling; the value is cut to the field's width -/
theorem C18_find_value_smgp_partial (pre key backup v rest : Bytes) (w : Nat) (usedKey : Bytes)
    (hsp : (usedKey = key ∧ indexOf (pre ++ usedKey ++ [58] ++ v ++ rest) (key ++ [58]) = some pre.length) ∨
           (usedKey = backup ∧ backup ≠ [] ∧ indexOf (pre ++ usedKey ++ [58] ++ v ++ rest) (key ++ [58]) = none ∧
            indexOf (pre ++ usedKey ++ [58] ++ v ++ rest) (backup ++ [58]) = some pre.length))
    (hv : ∀ c ∈ v, c ≠ 32) (hr : rest = [] ∨ rest.head? = some 32) :
    findSmgp (pre ++ usedKey ++ [58] ++ v ++ rest) key backup w = truncate w v := by
  have hdrop : ∀ k : Bytes, (pre ++ k ++ [58] ++ v ++ rest).drop (pre.length + k.length + 1) = v ++ rest := by
    intro k
    have e : pre ++ k ++ [58] ++ v ++ rest = (pre ++ k ++ [58]) ++ (v ++ rest) := by simp [List.append_assoc]
    rw [e]; exact List.drop_left' (by simp; omega)
  unfold findSmgp
  rcases hsp with ⟨rfl, h⟩ | ⟨rfl, hne, h1, h2⟩
  · rw [h]; simp only [hdrop, untilSpace_append v rest hv hr]
  · rw [h1]
    have : usedKey.isEmpty = false := by cases usedKey <;> simp_all
    simp only [this, Bool.false_eq_true, if_false, h2, hdrop, untilSpace_append v rest hv hr]

/-- the width cut keeps a prefix of at most `w` characters -/
theorem C18_truncate_spec (w : Nat) (v : Bytes) (hw : 0 < w) :
    truncate w v = v.take w ∧ (truncate w v).length ≤ w := by
  unfold truncate
  split
  · rename_i h; exact ⟨rfl, by simp; omega⟩
  · rename_i h
    have : v.length ≤ w := by omega
    exact ⟨(List.take_of_length_le this).symm, this⟩

/-- **SMGP id**: the hex form of exactly the ten octets after the first `id:` (any octets, spaces and
    NULs included) -/
theorem C18_smgp_id_partial (pre id rest : Bytes) (hid : id.length = 10)
    (hfirst : indexOf (pre ++ [105, 100, 58] ++ id ++ rest) [105, 100, 58] = some pre.length) :
    findSmgpId (pre ++ [105, 100, 58] ++ id ++ rest) = hexEncode id := by
  unfold findSmgpId
  rw [hfirst]
  have hlen : (pre ++ [105, 100, 58] ++ id ++ rest).length ≥ pre.length + 3 + 10 := by simp; omega
  have hdrop : (pre ++ [105, 100, 58] ++ id ++ rest).drop (pre.length + 3) = id ++ rest := by
    have e : pre ++ [105, 100, 58] ++ id ++ rest = (pre ++ [105, 100, 58]) ++ (id ++ rest) := by simp [List.append_assoc]
    rw [e]; exact List.drop_left' (by simp)
  dsimp only
  rw [if_pos hlen, hdrop]
  congr 1
  exact List.take_left' hid

/-! ### well-formed receipts: the first-occurrence hypothesis discharged -/

def str' (s : String) : Bytes := s.toList.map Char.toNat

/-- the eight keys of an SMPP receipt (Appendix B of the SMPP 3.4 document) -/
def smppKeys : List Bytes :=
  [str' "id", str' "sub", str' "dlvrd", str' "submit date", str' "done date", str' "stat", str' "err", str' "text"]

/-- the keys of an SMGP receipt, both spellings the extractor accepts -/
def smgpKeys : List Bytes :=
  [str' "id", str' "sub", str' "dlvrd", str' "submit date", str' "done date", str' "stat", str' "err", str' "text",
   str' "Sub", str' "Dlvrd", str' "Submit_Date", str' "Done_Date", str' "Stat", str' "Err", str' "Text"]

theorem smppKeysOK : KeysOK smppKeys := ⟨by decide, by decide, by decide, by decide⟩
theorem smgpKeysOK : KeysOK smgpKeys := ⟨by decide, by decide, by decide, by decide⟩

/-- in a receipt whose keys are distinct, the first occurrence of a field's key token is that field -/
theorem first_occurrence (K : List Bytes) (hK : KeysOK K) (fs : List (Bytes × Bytes))
    (hf : ∀ f ∈ fs, f.1 ∈ K ∧ NoToken K f.2) (hnd : (fs.map (·.1)).Nodup) (j : Nat) (hj : j < fs.length) :
    indexOf (render fs) (fs[j].1 ++ [58]) = some (offsetOf fs j) := by
  obtain ⟨pre, post, hsplit, hpre, _⟩ := render_split fs j hj
  have hk := (hf fs[j] (List.getElem_mem hj)).1
  apply indexOf_first
  · rw [hsplit, ← hpre]
    have : (pre ++ (fs[j].1 ++ [58] ++ fs[j].2) ++ post) = pre ++ ((fs[j].1 ++ [58]) ++ (fs[j].2 ++ post)) := by
      simp [List.append_assoc]
    rw [this]
    exact (occursAt_append_right pre _ _ pre.length (Nat.le_refl _)).2 (by simp [OccursAt])
  · rw [hsplit, ← hpre]; simp
  · intro i hi hocc
    obtain ⟨j', hj', hkey, hoff⟩ := occ_is_field K hK fs hf fs[j].1 hk i hocc
    -- distinct keys: j' = j
    have : j' = j := by
      have h1 : (fs.map (·.1))[j']? = some fs[j].1 := by simpa using hkey
      have h2 : (fs.map (·.1))[j]? = some fs[j].1 := by simp [hj]
      have hj1 : j' < (fs.map (·.1)).length := by simpa using hj'
      have hj2 : j < (fs.map (·.1)).length := by simpa using hj
      rw [List.getElem?_eq_getElem hj1] at h1
      rw [List.getElem?_eq_getElem hj2] at h2
      exact (List.getElem_inj (h₀ := hj1) (h₁ := hj2) hnd).1 (by rw [Option.some.inj h1, Option.some.inj h2])
    subst this
    omega

theorem drop_field (fs : List (Bytes × Bytes)) (j : Nat) (hj : j < fs.length) :
    ∃ post, (render fs).drop (offsetOf fs j + fs[j].1.length + 1) = fs[j].2 ++ post ∧
      (post = [] ∨ post.head? = some 32) ∧ offsetOf fs j + fs[j].1.length + 1 + fs[j].2.length ≤ (render fs).length := by
  obtain ⟨pre, post, hsplit, hpre, hpost⟩ := render_split fs j hj
  refine ⟨post, ?_, hpost, ?_⟩
  · rw [hsplit, ← hpre]
    have : pre ++ (fs[j].1 ++ [58] ++ fs[j].2) ++ post = (pre ++ fs[j].1 ++ [58]) ++ (fs[j].2 ++ post) := by
      simp [List.append_assoc]
    rw [this]
    exact List.drop_left' (by simp; omega)
  · rw [hsplit, ← hpre]; simp; omega

/-- **C18_smpp_receipt** (full strength): for every receipt made of distinct standard keys in any
    order, any subset, with space-free values that contain no key token, the extractor returns
    exactly each field's value, and the empty string for every absent key -/
theorem C18_smpp_receipt (fs : List (Bytes × Bytes))
    (hf : ∀ f ∈ fs, f.1 ∈ smppKeys ∧ TokenFree smppKeys f.2) (hnd : (fs.map (·.1)).Nodup) :
    (∀ j (hj : j < fs.length), findSmpp (render fs) fs[j].1 = fs[j].2) ∧
    (∀ k ∈ smppKeys, k ∉ fs.map (·.1) → findSmpp (render fs) k = []) := by
  have hf' : ∀ f ∈ fs, f.1 ∈ smppKeys ∧ NoToken smppKeys f.2 := fun f hm => ⟨(hf f hm).1, (hf f hm).2.2⟩
  constructor
  · intro j hj
    unfold findSmpp
    rw [first_occurrence smppKeys smppKeysOK fs hf' hnd j hj]
    obtain ⟨post, hd, hpost, _⟩ := drop_field fs j hj
    simp only [hd]
    exact untilSpace_append _ post (fun c hc => by
      have := (hf fs[j] (List.getElem_mem hj)).2.1
      intro e; subst e; exact this hc) hpost
  · intro k hk habs
    unfold findSmpp
    rw [indexOf_none]
    intro i _ hocc
    obtain ⟨j', hj', hkey, _⟩ := occ_is_field smppKeys smppKeysOK fs hf' k hk i hocc
    apply habs
    have : (fs.map (·.1))[j']? = some k := by simpa using hkey
    exact List.mem_of_getElem? this

/-- **C18_smgp_receipt** (full strength): either spelling of a key, value cut to the field width;
    `id` is the hex form of the ten octets after its token, whatever they are -/
theorem C18_smgp_receipt (fs : List (Bytes × Bytes))
    (hf : ∀ f ∈ fs, f.1 ∈ smgpKeys ∧ NoToken smgpKeys f.2) (hnd : (fs.map (·.1)).Nodup)
    (j : Nat) (hj : j < fs.length) (hsp : 32 ∉ fs[j].2) (primary backup : Bytes) (w : Nat)
    (hp : primary ∈ smgpKeys)
    (huse : fs[j].1 = primary ∨ (fs[j].1 = backup ∧ backup ≠ [] ∧ primary ∉ fs.map (·.1))) :
    findSmgp (render fs) primary backup w = truncate w fs[j].2 := by
  obtain ⟨post, hd, hpost, _⟩ := drop_field fs j hj
  have hval : untilSpace (fs[j].2 ++ post) = fs[j].2 :=
    untilSpace_append _ post (fun c hc => by intro e; subst e; exact hsp hc) hpost
  unfold findSmgp
  rcases huse with h1 | ⟨h1, hne, habs⟩
  · rw [← h1, first_occurrence smgpKeys smgpKeysOK fs hf hnd j hj]
    simp only [hd, hval]
  · have hnone : indexOf (render fs) (primary ++ [58]) = none := by
      apply indexOf_none
      intro i _ hocc
      obtain ⟨j', hj', hkey, _⟩ := occ_is_field smgpKeys smgpKeysOK fs hf primary hp i hocc
      apply habs
      have : (fs.map (·.1))[j']? = some primary := by simpa using hkey
      exact List.mem_of_getElem? this
    rw [hnone]
    have hbe : backup.isEmpty = false := by cases backup <;> simp_all
    simp only [hbe, Bool.false_eq_true, if_false]
    rw [← h1, first_occurrence smgpKeys smgpKeysOK fs hf hnd j hj]
    simp only [hd, hval]

/-- SMGP `id`: the ten octets after the token, as hex, in any position of a well-formed receipt -/
theorem C18_smgp_id (fs : List (Bytes × Bytes))
    (hf : ∀ f ∈ fs, f.1 ∈ smgpKeys ∧ NoToken smgpKeys f.2) (hnd : (fs.map (·.1)).Nodup)
    (j : Nat) (hj : j < fs.length) (hid : fs[j].1 = str' "id") (hlen : fs[j].2.length = 10) :
    findSmgpId (render fs) = hexEncode fs[j].2 := by
  obtain ⟨post, hd, _, hbound⟩ := drop_field fs j hj
  have hfirst := first_occurrence smgpKeys smgpKeysOK fs hf hnd j hj
  rw [hid] at hfirst hd hbound
  unfold findSmgpId
  have hstr : str' "id" ++ [58] = [105, 100, 58] := by decide
  rw [hstr] at hfirst
  rw [hfirst]
  have hl : (str' "id").length = 2 := by decide
  rw [hl] at hd hbound
  dsimp only
  rw [if_pos (by omega), show offsetOf fs j + 3 = offsetOf fs j + 2 + 1 by omega, hd]
  congr 1
  exact List.take_left' hlen

/-- the CMPP binary status-report body round-trips (instance of C01) -/
theorem C18_cmpp_report_roundtrip : C01.RoundTrips Gen.cmpp_SubPduDeliveryContent :=
  C01.C01_roundtrip _ (by simp [Gen.allPdus]) (by decide)

def str (s : String) : Bytes := s.toList.map Char.toNat

example : findSmpp (str "id:0123456789 sub:001 dlvrd:001 submit date:2401161242 done date:2401161243 stat:DELIVRD err:000 text:hi")
    (str "stat") = str "DELIVRD" := by decide

end SmsVerif.C18

section
open SmsVerif.C18
#print axioms C18_find_value_smpp_partial
#print axioms C18_absent_key_empty
#print axioms C18_find_value_smgp_partial
#print axioms C18_truncate_spec
#print axioms C18_smgp_id_partial
#print axioms C18_cmpp_report_roundtrip
#print axioms C18_smpp_receipt
#print axioms C18_smgp_receipt
#print axioms C18_smgp_id
end
