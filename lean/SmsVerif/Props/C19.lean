/-
  C19 — SMPP validity-period strings denote exactly the requested time.

  Durations and instants are integers (nanoseconds).  Modelled, not proved: `time.ParseDuration`,
  the float arithmetic of `Duration.Hours()/Minutes()/Seconds()` (equal to integer division in the
  admitted range < 31 days, checked by correspondence at every unit boundary ± 1 ns) and
  `time.Format` (checked against `civilFromDays` by correspondence).
-/
import SmsVerif.Model.Validity
import SmsVerif.Props.C15

namespace SmsVerif.C19
open SmsVerif SmsVerif.Validity

theorem L (n t : Nat) : (decDigits n t).length = n := C15.decDigits_length n t
theorem P (n t : Nat) (h : t < 10 ^ n) : parseDec (decDigits n t) = t := C15.parseDec_decDigits n t h

/-- **negative_refused / unparsable_refused / unrepresentable_refused** -/
theorem C19_refusals (nowNs : Nat) (rel : Bool) :
    toValidatePeriod nowNs none rel = .error .unparsable ∧
    (∀ d : Int, d < 0 → toValidatePeriod nowNs (some d) rel = .error .negative) ∧
    (∀ d : Int, 0 ≤ d → 31 * 86400 * 1000000000 ≤ d → toValidatePeriod nowNs (some d) true = .error .tooLong) := by
  refine ⟨rfl, fun d hd => by simp [toValidatePeriod, hd], fun d h0 hd => ?_⟩
  have h1 : ¬ d < 0 := by omega
  have h2 : d.toNat ≥ 31 * secPerDay * nsPerSec := by
    simp only [secPerDay, nsPerSec]; omega
  simp [toValidatePeriod, h1, h2]

/-- **relative_denotes** : for a non-negative duration below 31 days the relative string is either
    empty — exactly when the duration truncated to whole seconds is zero — or a 16-character SMPP
    time `0000DDhhmmss000R` denoting exactly the duration truncated to whole seconds. -/
theorem relativeOfSeconds_denotes (s : Nat) (hs31 : s < 31 * 86400) :
    (relativeOfSeconds s = [] ∧ s = 0) ∨
    ((relativeOfSeconds s).length = 16 ∧ denoteRel (relativeOfSeconds s) = s ∧
      (relativeOfSeconds s).take 4 = [48, 48, 48, 48] ∧ (relativeOfSeconds s).drop 12 = [48, 48, 48, 82]) := by
  unfold relativeOfSeconds
  simp only [secPerDay]
  by_cases hz : s / 86400 = 0 ∧ s / 3600 % 24 = 0 ∧ s / 60 % 60 = 0 ∧ s % 60 = 0
  · left
    simp only [hz, and_self, if_true, true_and]
    omega
  · right
    simp only [hz, if_false]
    refine ⟨by simp [L], ?_, by simp, ?_⟩
    · unfold denoteRel
      simp only [secPerDay]
      have t1 : ∀ (a b : Bytes) (n : Nat), a.length = n → (a ++ b).take n = a := fun a b n h => List.take_left' h
      have e4 : ∀ (x : Bytes), ([48, 48, 48, 48] ++ x).drop 4 = x := fun x => rfl
      have e6 : ∀ (a x : Bytes), a.length = 2 → ([48, 48, 48, 48] ++ (a ++ x)).drop 6 = x := by
        intro a x ha
        have : [48, 48, 48, 48] ++ (a ++ x) = ([48, 48, 48, 48] ++ a) ++ x := by simp
        rw [this]; exact List.drop_left' (by simp [ha])
      have e8 : ∀ (a b x : Bytes), a.length = 2 → b.length = 2 → ([48, 48, 48, 48] ++ (a ++ (b ++ x))).drop 8 = x := by
        intro a b x ha hb
        have : [48, 48, 48, 48] ++ (a ++ (b ++ x)) = ([48, 48, 48, 48] ++ a ++ b) ++ x := by simp
        rw [this]; exact List.drop_left' (by simp [ha, hb])
      have e10 : ∀ (a b c x : Bytes), a.length = 2 → b.length = 2 → c.length = 2 →
          ([48, 48, 48, 48] ++ (a ++ (b ++ (c ++ x)))).drop 10 = x := by
        intro a b c x ha hb hc
        have : [48, 48, 48, 48] ++ (a ++ (b ++ (c ++ x))) = ([48, 48, 48, 48] ++ a ++ b ++ c) ++ x := by simp
        rw [this]; exact List.drop_left' (by simp [ha, hb, hc])
      simp only [List.append_assoc]
      rw [e4, t1 _ _ 2 (L 2 _), e6 _ _ (L 2 _), t1 _ _ 2 (L 2 _), e8 _ _ _ (L 2 _) (L 2 _), t1 _ _ 2 (L 2 _),
        e10 _ _ _ _ (L 2 _) (L 2 _) (L 2 _), t1 _ _ 2 (L 2 _)]
      rw [P 2 _ (by omega), P 2 _ (by omega), P 2 _ (by omega), P 2 _ (by omega)]
      omega
    · have : ([48, 48, 48, 48] ++ decDigits 2 (s / 86400) ++ decDigits 2 (s / 3600 % 24) ++ decDigits 2 (s / 60 % 60) ++
          decDigits 2 (s % 60) ++ [48, 48, 48, 82])
          = ([48, 48, 48, 48] ++ decDigits 2 (s / 86400) ++ decDigits 2 (s / 3600 % 24) ++ decDigits 2 (s / 60 % 60) ++
          decDigits 2 (s % 60)) ++ [48, 48, 48, 82] := rfl
      rw [this]
      exact List.drop_left' (by simp [L])

theorem C19_relative_denotes (dn : Nat) (h : dn < 31 * 86400 * 1000000000) :
    (relative dn = [] ∧ dn / 1000000000 = 0) ∨
    ((relative dn).length = 16 ∧ denoteRel (relative dn) = dn / 1000000000 ∧
      (relative dn).take 4 = [48, 48, 48, 48] ∧ (relative dn).drop 12 = [48, 48, 48, 82]) := by
  have := relativeOfSeconds_denotes (dn / 1000000000) (by omega)
  simpa [relative, nsPerSec] using this

/-! ### absolute form -/

theorem findYear_le (fuel y z : Nat) (h : daysBeforeYear y ≤ z) : daysBeforeYear (findYear fuel y z) ≤ z := by
  induction fuel generalizing y with
  | zero => exact h
  | succ fuel ih =>
    simp only [findYear]
    split
    · rename_i h1; exact ih (y + 1) h1
    · exact h

theorem findMonth_le (fuel y m r : Nat) (h : daysBeforeMonth y m ≤ r) :
    daysBeforeMonth y (findMonth fuel y m r) ≤ r := by
  induction fuel generalizing m with
  | zero => exact h
  | succ fuel ih =>
    simp only [findMonth]
    split
    · rename_i h1; exact ih (m + 1) h1.2
    · exact h

/-- the civil date computed for a day number denotes that day number -/
theorem civil_left_inverse (z : Nat) :
    let (y, m, d) := civilFromDays z
    daysFromCivil y m d = z := by
  simp only [civilFromDays, daysFromCivil]
  have h1 : daysBeforeYear (findYear 400 1970 z) ≤ z := findYear_le 400 1970 z (by simp [daysBeforeYear])
  have h2 := findMonth_le 12 (findYear 400 1970 z) 1 (z - daysBeforeYear (findYear 400 1970 z)) (by simp [daysBeforeMonth])
  omega

/-- **absolute_denotes** (seconds form; the nanosecond form follows) : when the target instant falls in 2000..2099 the absolute string is a
    16-character SMPP time `YYMMDDhhmmss000+` that denotes exactly the UTC instant now + duration,
    truncated to whole seconds. -/
theorem absoluteOfSeconds_denotes (s : Nat)
    (hy : 2000 ≤ (civilFromDays (s / 86400)).1 ∧ (civilFromDays (s / 86400)).1 ≤ 2099)
    (hm : (civilFromDays (s / 86400)).2.1 < 100) (hd : (civilFromDays (s / 86400)).2.2 < 100) :
    (absoluteOfSeconds s).length = 16 ∧ denoteAbs (absoluteOfSeconds s) = s ∧
    (absoluteOfSeconds s).drop 12 = [48, 48, 48, 43] := by
  have hinv := civil_left_inverse (s / 86400)
  unfold absoluteOfSeconds
  simp only [secPerDay]
  generalize hc : civilFromDays (s / 86400) = c at *
  obtain ⟨y, m, d⟩ := c
  simp only at hy hm hd hinv ⊢
  refine ⟨by simp [L], ?_, ?_⟩
  · unfold denoteAbs
    simp only [secPerDay, List.append_assoc]
    have t1 : ∀ (a b : Bytes) (n : Nat), a.length = n → (a ++ b).take n = a := fun a b n h => List.take_left' h
    have d1 : ∀ (a b : Bytes) (n : Nat), a.length = n → (a ++ b).drop n = b := fun a b n h => List.drop_left' h
    have e4 : ∀ (a b x : Bytes), a.length = 2 → b.length = 2 → (a ++ (b ++ x)).drop 4 = x := by
      intro a b x ha hb
      rw [← List.append_assoc]; exact List.drop_left' (by simp [ha, hb])
    have e6 : ∀ (a b c x : Bytes), a.length = 2 → b.length = 2 → c.length = 2 → (a ++ (b ++ (c ++ x))).drop 6 = x := by
      intro a b c x ha hb hc
      rw [← List.append_assoc, ← List.append_assoc]; exact List.drop_left' (by simp [ha, hb, hc])
    have e8 : ∀ (a b c e x : Bytes), a.length = 2 → b.length = 2 → c.length = 2 → e.length = 2 →
        (a ++ (b ++ (c ++ (e ++ x)))).drop 8 = x := by
      intro a b c e x ha hb hc he
      rw [← List.append_assoc, ← List.append_assoc, ← List.append_assoc]; exact List.drop_left' (by simp [ha, hb, hc, he])
    have e10 : ∀ (a b c e f x : Bytes), a.length = 2 → b.length = 2 → c.length = 2 → e.length = 2 → f.length = 2 →
        (a ++ (b ++ (c ++ (e ++ (f ++ x))))).drop 10 = x := by
      intro a b c e f x ha hb hc he hf
      rw [← List.append_assoc, ← List.append_assoc, ← List.append_assoc, ← List.append_assoc]
      exact List.drop_left' (by simp [ha, hb, hc, he, hf])
    rw [t1 _ _ 2 (L 2 _), d1 _ _ 2 (L 2 _), t1 _ _ 2 (L 2 _), e4 _ _ _ (L 2 _) (L 2 _), t1 _ _ 2 (L 2 _),
      e6 _ _ _ _ (L 2 _) (L 2 _) (L 2 _), t1 _ _ 2 (L 2 _), e8 _ _ _ _ _ (L 2 _) (L 2 _) (L 2 _) (L 2 _), t1 _ _ 2 (L 2 _),
      e10 _ _ _ _ _ _ (L 2 _) (L 2 _) (L 2 _) (L 2 _) (L 2 _), t1 _ _ 2 (L 2 _)]
    rw [P 2 _ (by omega), P 2 _ (by omega), P 2 _ (by omega), P 2 _ (by omega), P 2 _ (by omega), P 2 _ (by omega)]
    have hyy : 2000 + y % 100 = y := by omega
    rw [hyy, hinv]
    omega
  · have : ∀ (a b c e f g x : Bytes), a.length = 2 → b.length = 2 → c.length = 2 → e.length = 2 → f.length = 2 → g.length = 2 →
        (a ++ b ++ c ++ e ++ f ++ g ++ x).drop 12 = x := by
      intro a b c e f g x ha hb hc he hf hg
      exact List.drop_left' (by simp [ha, hb, hc, he, hf, hg])
    exact this _ _ _ _ _ _ _ (L 2 _) (L 2 _) (L 2 _) (L 2 _) (L 2 _) (L 2 _)

theorem C19_absolute_denotes (t : Nat)
    (hy : 2000 ≤ (civilFromDays (t / 1000000000 / 86400)).1 ∧ (civilFromDays (t / 1000000000 / 86400)).1 ≤ 2099)
    (hm : (civilFromDays (t / 1000000000 / 86400)).2.1 < 100) (hd : (civilFromDays (t / 1000000000 / 86400)).2.2 < 100) :
    (absolute t).length = 16 ∧ denoteAbs (absolute t) = t / 1000000000 ∧ (absolute t).drop 12 = [48, 48, 48, 43] := by
  have := absoluteOfSeconds_denotes (t / 1000000000) hy hm hd
  simpa [absolute, nsPerSec] using this

/-- years outside 2000..2099 are refused rather than wrapped to two digits -/
theorem C19_absolute_year_refused (nowNs : Nat) (d : Int) (h0 : 0 ≤ d)
    (hy : (civilFromDays ((nowNs + d.toNat) / 1000000000 / 86400)).1 < 2000 ∨
          2099 < (civilFromDays ((nowNs + d.toNat) / 1000000000 / 86400)).1) :
    toValidatePeriod nowNs (some d) false = .error .yearOutOfRange := by
  have h1 : ¬ d < 0 := by omega
  have hy' : (civilFromDays ((nowNs + d.toNat) / nsPerSec / secPerDay)).1 < 2000 ∨
      (civilFromDays ((nowNs + d.toNat) / nsPerSec / secPerDay)).1 > 2099 := by
    simpa [nsPerSec, secPerDay] using hy
  simp only [toValidatePeriod, h1, if_false, Bool.false_eq_true]
  rw [if_pos hy']

/-- the calendar facts the hypotheses of `C19_absolute_denotes` ask for hold on sampled days of every
    year 2000..2099 (a test, labelled as such; the unbounded part is `civil_left_inverse`) -/
example : (List.range 100).all (fun i =>
    let z := daysFromCivil (2000 + i) 1 1 + 58 + i
    let c := civilFromDays z
    c.1 == 2000 + i && c.2.1 ≥ 1 && c.2.1 ≤ 12 && c.2.2 ≥ 1 && c.2.2 ≤ 31) = true := by decide +kernel

example : relative (90061 * 1000000000) = "000001010101000R".toList.map Char.toNat := by decide

end SmsVerif.C19

section
open SmsVerif.C19
#print axioms C19_refusals
#print axioms C19_relative_denotes
#print axioms civil_left_inverse
#print axioms C19_absolute_denotes
#print axioms C19_absolute_year_refused
end
