/-
  C06 — splitting a long message never loses, duplicates or alters content.
  Model: `Model/Split.lean` (hand model of longsms.go, tied by correspondence).
-/
import SmsVerif.Lemmas.Split
import SmsVerif.Lemmas.Pack
import SmsVerif.Gen.Tables

namespace SmsVerif.C06
open SmsVerif SmsVerif.Split

/-- the capacities the model is run with are the constants of the code (regenerated) -/
theorem C06_constants : Gen.dc_MaxLongSmsLength = 140 ∧ Gen.dc_MaxGSM7Length = 160 ∧
    Gen.dc_SplitBy134 = 134 ∧ Gen.dc_SplitBy153 = 153 ∧ Gen.dc_UDHILength = 6 := by decide

/-- **split_concat** : for every boundary rule, every unit string, every capacity and reference:
    removing the 6-octet headers and concatenating the parts in order gives back exactly the
    encoded message — nothing dropped, repeated or reordered. -/
theorem C06_split_concat (bnd : Boundary) (d : List Nat) (per ref : Nat) (hper : 0 < per)
    (parts : List (List Nat)) (h : splitUnits bnd d per ref = .ok parts) :
    (parts.map (List.drop 6)).flatten = d := by
  unfold splitUnits at h
  dsimp only at h
  split at h
  · simp at h
  · simp only [Except.ok.injEq, List.map_id_fun, id] at h
    subst h
    have hp := cutPoints_partition bnd d per hper (d.length + 1) 0 (Nat.zero_le _) (by omega)
    rw [withHeaders_strip, slices_flatten d per 0 _ hp]
    simp

/-- the packed GSM 7-bit splitter: the parts are the packed images of consecutive septet slices
    that together are exactly the message's septets (each slice is packed on its own, so a receiver
    told the septet count of a part recovers the slice) -/
theorem C06_split_concat_packed (d : List Nat) (per ref : Nat) (hper : 0 < per)
    (parts : List (List Nat)) (h : splitUnits gsmBoundary d per ref Gsm7.packGo = .ok parts) :
    ∃ sl : List (List Nat), sl.flatten = d ∧ (∀ s ∈ sl, 0 < s.length ∧ s.length ≤ per) ∧
      parts.map (List.drop 6) = sl.map Gsm7.packGo := by
  unfold splitUnits at h
  dsimp only at h
  split at h
  · simp at h
  · simp only [Except.ok.injEq] at h
    subst h
    have hp := cutPoints_partition gsmBoundary d per hper (d.length + 1) 0 (Nat.zero_le _) (by omega)
    refine ⟨slices d 0 (cutPoints gsmBoundary d per (d.length + 1) 0), ?_, slices_sizes d per 0 _ hp, ?_⟩
    · rw [slices_flatten d per 0 _ hp]; simp
    · rw [withHeaders_strip]

/-- **packed parts decode on their own**: every part of the packed path, header removed, is the
    TS 23.038 packing of its slice of septets, so a receiver that knows the septet count of the part
    reads exactly that slice; the slices concatenate to the message -/
theorem C06_packed_parts_readable (d : List Nat) (hd : ∀ x ∈ d, x < 128) (per ref : Nat) (hper : 0 < per)
    (parts : List (List Nat)) (h : splitUnits gsmBoundary d per ref Gsm7.packGo = .ok parts) :
    ∃ sl : List (List Nat), sl.flatten = d ∧ parts.map (List.drop 6) = sl.map Gsm7.packSpec ∧
      ∀ s ∈ sl, Gsm7.unpackSpec s.length (Gsm7.packSpec s) = s := by
  obtain ⟨sl, hfl, _, hparts⟩ := C06_split_concat_packed d per ref hper parts h
  have hs : ∀ s ∈ sl, ∀ x ∈ s, x < 128 := fun s hs x hx => hd x (by rw [← hfl]; exact List.mem_flatten.2 ⟨s, hs, hx⟩)
  refine ⟨sl, hfl, ?_, fun s hsm => Gsm7.unpackSpec_packSpec s (hs s hsm)⟩
  rw [hparts]
  exact List.map_congr_left (fun s hsm => Gsm7.packGo_eq_spec s (hs s hsm))

/-- **single_when_fits** : a message that fits one SMS is returned as one part without a header -/
theorem C06_single_when_fits (bnd : Boundary) (d : List Nat) (maxLen per ref : Nat) (h : d.length ≤ maxLen) :
    splitMessage bnd d maxLen per ref = .ok [d] := by
  simp [splitMessage, h]

/-- a message that does not fit is split (never returned whole) -/
theorem C06_split_when_long (bnd : Boundary) (d : List Nat) (maxLen per ref : Nat) (h : maxLen < d.length) :
    splitMessage bnd d maxLen per ref = splitUnits bnd d per ref := by
  have : ¬ d.length ≤ maxLen := by omega
  simp [splitMessage, this]

example : splitMessage gsmBoundary [1, 2, 0x1B, 0x3C, 5] 4 3 9
    = .ok [[5, 0, 3, 9, 2, 1, 1, 2], [5, 0, 3, 9, 2, 2, 0x1B, 0x3C, 5]] := by rfl

end SmsVerif.C06

section
open SmsVerif.C06
#print axioms C06_constants
#print axioms C06_split_concat
#print axioms C06_split_concat_packed
#print axioms C06_packed_parts_readable
#print axioms C06_single_when_fits
#print axioms C06_split_when_long
end
