/-
  C12 — results own their memory: no aliasing of input buffers or pooled buffers.

  Over the heap model of `Model/Own.lean`: for every history of decode / encode / String / helper
  calls, with the caller overwriting each input buffer right after the call and reusing any output
  it holds, a result returned earlier keeps its value — provided every primitive hands out fresh
  storage (`Own.facts`, compared with the implementation on every run).  The converse examples
  show that a single aliasing primitive breaks the statement, i.e. the hypothesis is what carries it.
-/
import SmsVerif.Model.Own
import SmsVerif.Model.Layout
import SmsVerif.Gen.Layouts
import SmsVerif.Gen.Lifecycle

namespace SmsVerif.C12
open SmsVerif SmsVerif.Own

/-! ### heap lemmas -/

theorem read_alloc_old (h : Heap) (b : Bytes) (l : Nat) (hl : l < h.mem.length) :
    (h.alloc b).1.read l = h.read l := by
  simp [Heap.alloc, Heap.read, List.getD_eq_getElem?_getD, List.getElem?_append_left hl]

theorem read_alloc_new (h : Heap) (b : Bytes) : (h.alloc b).1.read (h.alloc b).2 = b := by
  simp [Heap.alloc, Heap.read, List.getD_eq_getElem?_getD]

theorem size_alloc (h : Heap) (b : Bytes) : (h.alloc b).1.mem.length = h.mem.length + 1 := by
  simp [Heap.alloc]

theorem alloc_loc (h : Heap) (b : Bytes) : (h.alloc b).2 = h.mem.length := rfl

theorem read_write_ne (h : Heap) (l l' : Nat) (b : Bytes) (hne : l ≠ l') : (h.write l' b).read l = h.read l := by
  simp [Heap.write, Heap.read, List.getD_eq_getElem?_getD, List.getElem?_set_ne (Ne.symm hne)]

theorem size_write (h : Heap) (l : Nat) (b : Bytes) : (h.write l b).mem.length = h.mem.length := by
  simp [Heap.write]

/-! ### what `mkRefs` does when every field is fresh -/

def fieldsFresh (fs : List (Nat × Nat × Prov)) : Bool := fs.all fun f => f.2.2 == .fresh

theorem mkRefs_fresh (inp : Nat) (img : Bytes) : ∀ (fs : List (Nat × Nat × Prov)) (h : Heap),
    fieldsFresh fs = true →
    let res := mkRefs inp img h fs
    h.mem.length ≤ res.1.mem.length ∧
    (∀ l, l < h.mem.length → res.1.read l = h.read l) ∧
    (∀ r ∈ res.2, h.mem.length ≤ r.loc ∧ r.loc < res.1.mem.length) ∧
    res.2.Pairwise (fun a b => a.loc ≠ b.loc)
  | [], h, _ => by simp [mkRefs]
  | (off, len, p) :: fs, h, hf => by
    simp only [fieldsFresh, List.all_cons, Bool.and_eq_true, beq_iff_eq] at hf
    obtain ⟨hp, hf⟩ := hf
    subst hp
    have ih := mkRefs_fresh inp img fs (h.alloc ((img.drop off).take len)).1 (by simpa [fieldsFresh] using hf)
    simp only [mkRefs]
    simp only at ih
    obtain ⟨i1, i2, i3, i4⟩ := ih
    rw [size_alloc] at i1 i3
    refine ⟨by omega, ?_, ?_, ?_⟩
    · intro l hl
      rw [i2 l (by rw [size_alloc]; omega), read_alloc_old _ _ _ hl]
    · intro r hr
      simp only [List.mem_cons] at hr
      rcases hr with rfl | hr
      · simp only [alloc_loc]; omega
      · have := i3 r hr; omega
    · rw [List.pairwise_cons]
      refine ⟨fun r hr => ?_, i4⟩
      have := i3 r hr
      simp only [alloc_loc]; omega

/-! ### the invariant of a history -/

structure Inv (w : World) : Prop where
  valid : ∀ r ∈ w.results, r.loc < w.heap.mem.length
  freeValid : ∀ l ∈ w.free, l < w.heap.mem.length
  sep : ∀ r ∈ w.results, r.loc ∉ w.free
  distinct : w.results.Pairwise (fun a b => a.loc ≠ b.loc)

theorem inv_init : Inv {} := ⟨by simp, by simp, by simp, by simp⟩

/-- the event does not hand result `r`'s storage back to the caller for reuse -/
def touches (w : World) (e : Event) (r : Ref) : Prop :=
  match e with
  | .reuse i _ => ∃ r', w.results[i]? = some r' ∧ r'.loc = r.loc
  | _ => False

theorem getBuf_spec (h : Heap) (free : List Nat) (hv : ∀ l ∈ free, l < h.mem.length) :
    let g := getBuf h free
    h.mem.length ≤ g.1.mem.length ∧ (∀ l, l < h.mem.length → g.1.read l = h.read l) ∧
    g.2.1 < g.1.mem.length ∧ (g.2.1 ∈ free ∨ h.mem.length ≤ g.2.1) ∧
    (∀ l ∈ g.2.2, l ∈ free) ∧ (∀ l ∈ g.2.2, l < g.1.mem.length) := by
  cases free with
  | nil =>
    simp only [getBuf]
    refine ⟨by rw [size_alloc]; omega, fun l hl => read_alloc_old _ _ _ hl, by rw [size_alloc, alloc_loc]; omega,
      Or.inr (by rw [alloc_loc]; omega), by simp, by simp⟩
  | cons l rest =>
    simp only [getBuf]
    exact ⟨Nat.le_refl _, (fun _ _ => trivial), hv l (by simp), Or.inl (by simp), fun x hx => by simp [hx],
      fun x hx => hv x (by simp [hx])⟩

/-- **one step**: with fresh provenance the invariant is kept, results are only appended, and
    the storage of every earlier result the event does not hand back for reuse is untouched -/
theorem step_inv (w : World) (e : Event) (hi : Inv w) (hf : e.allFresh = true) :
    Inv (w.step e) ∧ (∃ new, (w.step e).results = w.results ++ new) ∧
    ∀ r ∈ w.results, ¬ touches w e r → (w.step e).heap.read r.loc = w.heap.read r.loc := by
  cases e with
  | decode img fields junk =>
    simp only [Event.allFresh] at hf
    have hm := mkRefs_fresh (w.heap.alloc img).2 img fields (w.heap.alloc img).1 (by simpa [fieldsFresh] using hf)
    simp only at hm
    obtain ⟨m1, m2, m3, m4⟩ := hm
    rw [size_alloc] at m1 m3
    simp only [World.step]
    refine ⟨⟨?_, ?_, ?_, ?_⟩, ⟨_, rfl⟩, ?_⟩
    · intro r hr
      rw [size_write]
      simp only [List.mem_append] at hr
      rcases hr with hr | hr
      · have := hi.valid r hr; omega
      · exact (m3 r hr).2
    · intro l hl
      rw [size_write]
      have := hi.freeValid l hl; omega
    · intro r hr
      simp only [List.mem_append] at hr
      rcases hr with hr | hr
      · exact hi.sep r hr
      · intro hfree
        have := hi.freeValid _ hfree
        have := (m3 r hr).1
        omega
    · rw [List.pairwise_append]
      refine ⟨hi.distinct, m4, fun a ha b hb => ?_⟩
      have := hi.valid a ha
      have := (m3 b hb).1
      omega
    · intro r hr _
      have hv := hi.valid r hr
      rw [read_write_ne _ _ _ _ (by rw [alloc_loc]; omega), m2 r.loc (by rw [size_alloc]; omega),
        read_alloc_old _ _ _ hv]
  | encode out p =>
    simp only [Event.allFresh, beq_iff_eq] at hf
    subst hf
    have hg := getBuf_spec w.heap w.free hi.freeValid
    simp only at hg
    obtain ⟨g1, g2, g3, g4, g5, g6⟩ := hg
    simp only [World.step]
    generalize getBuf w.heap w.free = g at g1 g2 g3 g4 g5 g6
    obtain ⟨h1, b, free1⟩ := g
    simp only at g1 g2 g3 g4 g5 g6 ⊢
    -- the pooled buffer is not the storage of any result
    have hb : ∀ r ∈ w.results, r.loc ≠ b := by
      intro r hr heq
      rcases g4 with h | h
      · exact hi.sep r hr (heq ▸ h)
      · have := hi.valid r hr; omega
    refine ⟨⟨?_, ?_, ?_, ?_⟩, ⟨_, rfl⟩, ?_⟩
    · intro r hr
      rw [size_alloc, size_write]
      simp only [List.mem_append, List.mem_singleton] at hr
      rcases hr with hr | rfl
      · have := hi.valid r hr; omega
      · simp only [alloc_loc, size_write]; omega
    · intro l hl
      rw [size_alloc, size_write]
      simp only [List.mem_cons] at hl
      rcases hl with rfl | hl
      · omega
      · have := g6 l hl; omega
    · intro r hr
      simp only [List.mem_append, List.mem_singleton] at hr
      simp only [List.mem_cons, not_or]
      rcases hr with hr | rfl
      · exact ⟨hb r hr, fun h => hi.sep r hr (g5 _ h)⟩
      · simp only [alloc_loc, size_write]
        exact ⟨by omega, fun h => by have := g6 _ h; omega⟩
    · rw [List.pairwise_append]
      refine ⟨hi.distinct, by simp, fun a ha c hc => ?_⟩
      simp only [List.mem_singleton] at hc
      subst hc
      have := hi.valid a ha
      simp only [alloc_loc, size_write]; omega
    · intro r hr _
      have hv := hi.valid r hr
      rw [read_alloc_old _ _ _ (by rw [size_write]; omega), read_write_ne _ _ _ _ (hb r hr), g2 _ hv]
  | reuse i junk =>
    simp only [World.step]
    cases hget : w.results[i]? with
    | none => exact ⟨by simpa using hi, ⟨[], by simp⟩, fun _ _ _ => rfl⟩
    | some r' =>
      simp only
      refine ⟨⟨fun r hr => by rw [size_write]; exact hi.valid r hr,
        fun l hl => by rw [size_write]; exact hi.freeValid l hl, hi.sep, hi.distinct⟩, ⟨[], by simp⟩, ?_⟩
      intro r _ hnt
      apply read_write_ne
      intro heq
      exact hnt ⟨r', hget, heq.symm⟩

/-! ### the property -/

/-- a later history leaves result `r` alone: it never hands `r`'s storage back for reuse -/
def LeavesAlone (r : Ref) : World → List Event → Prop
  | _, [] => True
  | w, e :: es => ¬ touches w e r ∧ LeavesAlone r (w.step e) es

theorem run_stable (r : Ref) : ∀ (es : List Event) (w : World), Inv w → r ∈ w.results →
    (∀ e ∈ es, e.allFresh = true) → LeavesAlone r w es →
    Inv (w.run es) ∧ r ∈ (w.run es).results ∧ (w.run es).heap.read r.loc = w.heap.read r.loc
  | [], w, hi, hr, _, _ => ⟨hi, hr, rfl⟩
  | e :: es, w, hi, hr, hf, hl => by
    obtain ⟨hi', ⟨new, hnew⟩, hkeep⟩ := step_inv w e hi (hf e (by simp))
    have hr' : r ∈ (w.step e).results := by rw [hnew]; simp [hr]
    obtain ⟨h1, h2, h3⟩ := run_stable r es (w.step e) hi' hr' (fun x hx => hf x (by simp [hx])) hl.2
    exact ⟨h1, h2, by rw [show w.run (e :: es) = (w.step e).run es from rfl, h3, hkeep r hr hl.1]⟩

/-- **C12_results_own_their_memory**: in every history in which every primitive hands out fresh
    storage, a result the library returned keeps its value through any number of later decode /
    encode / formatting calls, through the caller overwriting every input buffer, and through the
    caller reusing any *other* output it holds. -/
theorem C12_results_own_their_memory (pre post : List Event)
    (hpre : ∀ e ∈ pre, e.allFresh = true) (hpost : ∀ e ∈ post, e.allFresh = true)
    (r : Ref) (hr : r ∈ (World.run {} pre).results) (hl : LeavesAlone r (World.run {} pre) post) :
    r.deref ((World.run {} pre).run post).heap = r.deref (World.run {} pre).heap := by
  have hinv : ∀ (es : List Event) (w : World), Inv w → (∀ e ∈ es, e.allFresh = true) → Inv (w.run es) := by
    intro es
    induction es with
    | nil => intro w hi _; exact hi
    | cons e es ih =>
      intro w hi hf
      exact ih _ (step_inv w e hi (hf e (by simp))).1 (fun x hx => hf x (by simp [hx]))
  have hi := hinv pre {} inv_init hpre
  have := (run_stable r post _ hi hr hpost hl).2.2
  simp only [Ref.deref, this]

/-- the library's primitives all hand out fresh storage, the documented views aside: the unread
    part of a reader is a view of the input (never stored in a PDU), a frame is a view of the
    connection buffer (documented in codec/codec.go) -/
theorem C12_primitives_fresh :
    Own.facts.writerBytes = .fresh ∧ Own.facts.readNBytes = .fresh ∧
    Prov.through Own.facts.parseOptions Own.facts.readerBytes = .fresh ∧
    Own.facts.readOptions = .fresh ∧ Own.facts.tlvBytes = .fresh ∧ Own.facts.stringer = .fresh ∧
    Own.facts.ucs2Pooled = .fresh := by decide

/-! ### every regenerated decoder hands out fresh storage -/

/-- provenance of the byte slices a decode statement stores in the PDU (strings are immutable
    copies made by `string(…)`, integers are values: no storage) -/
def decOpProv (f : OwnFacts) : DecOp → Option Prov
  | .bytesN _ _ => some f.readNBytes
  | .tlvsRead _ => some f.readOptions
  | .optsParse _ => some (Prov.through f.parseOptions f.readerBytes)   -- ParseOptions(b.Bytes())
  | .unsupported _ => some .input                                       -- unknown statement: assume the worst
  | _ => none

def decodesFresh (f : OwnFacts) (p : PduDesc) : Bool :=
  p.dec.all fun op => match decOpProv f op with | some pr => pr == .fresh | none => true

/-- the ownership facts with the parser entries *read off the source* (`Gen.optionValueProv`, regenerated
    on every run): anything but a value the syntax shows to be freshly allocated counts as aliasing -/
def provOf (fn : String) : Prov :=
  match Gen.optionValueProv.lookup fn with
  | some "fresh" => .fresh
  | _ => .input

/-- storage of the byte slices the packet reader hands out (`Gen.readerProv`, regenerated on every run
    from every return statement of the method): `fresh` only when the syntax shows a slice made in the call -/
def readerProvOf (fn : String) : Prov :=
  match Gen.readerProv.lookup fn with
  | some "fresh" => .fresh
  | some "view" => .input
  | _ => .pool

def factsFromSource : OwnFacts :=
  { Own.facts with
    readNBytes := readerProvOf "packet.(*Reader).ReadNBytes",
    readerBytes := readerProvOf "packet.(*Reader).Bytes",
    parseOptions := provOf "smgp.ParseOptions",
    readOptions := if provOf "smgp.ReadOptions" = .fresh ∧ provOf "smpp.ReadTLVs" = .fresh ∧ provOf "smpp.ReadTLVs1" = .fresh
      then .fresh else .input,
    writerBytes := if Gen.copyOuts.all (·.2) && Gen.copyOuts.length == 2 then .fresh else .pool }

/-- per-run obligation: with the facts read off the current source, no decode statement of any PDU
    type keeps a reference into the caller's buffer, and the hand-written record agrees with them -/
theorem C12_decoders_fresh :
    Gen.allPdus.all (decodesFresh factsFromSource) = true ∧ factsFromSource = Own.facts := by decide +kernel

/-- with the pinned `smgp.ParseOptions` (values sliced from `rawData`) the obligation fails, for
    exactly the PDU type that parses its options from `b.Bytes()` -/
example : (Gen.allPdus.filter (fun p => !decodesFresh { Own.facts with parseOptions := .input } p)).map (·.name)
    = ["smgp30.Submit"] := by decide +kernel

/-! ### the hypothesis is what carries the statement -/

/-- a decoder that keeps a sub-slice of its input (the pinned `smgp.ParseOptions`): the caller
    reusing its buffer changes the decoded value -/
example :
    let w1 := World.run {} [.decode [1, 2, 3, 4] [(1, 2, .input)] 0xEE]
    w1.results.map (·.deref w1.heap) = [[0xEE, 0xEE]] := by decide

/-- an encoder that returns a view of its pooled buffer: the next encode overwrites the result -/
example :
    let w1 := World.run {} [.encode [1, 2, 3] .pool]
    let w2 := w1.run [.encode [9, 9, 9] .fresh]
    (w1.results.map (·.deref w1.heap), (w2.results.take 1).map (·.deref w2.heap)) = ([[1, 2, 3]], [[9, 9, 9]]) := by
  decide

/-- the premises are satisfiable by a non-trivial history -/
example :
    let pre : List Event := [.decode [1, 2, 3, 4] [(1, 2, .fresh), (0, 4, .fresh)] 0xEE, .encode [7, 7] .fresh]
    let post : List Event := [.encode [8, 8, 8] .fresh, .reuse 2 0xDD, .decode [5, 5] [(0, 2, .fresh)] 0]
    let w1 := World.run {} pre
    (w1.results.map (·.deref w1.heap), ((w1.run post).results.take 2).map (·.deref (w1.run post).heap))
      = ([[2, 3], [1, 2, 3, 4], [7, 7]], [[2, 3], [1, 2, 3, 4]]) := by decide

end SmsVerif.C12

#print axioms SmsVerif.C12.C12_results_own_their_memory
#print axioms SmsVerif.C12.C12_primitives_fresh
#print axioms SmsVerif.C12.C12_decoders_fresh
#print axioms SmsVerif.C12.step_inv
