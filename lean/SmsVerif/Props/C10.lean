/-
  C10 — responses pair with their requests and dispatch is consistent with encoding.

  Everything about the code comes from the regenerated tables `Gen.metas`, `Gen.dispatchers`
  and `Gen.allPdus`; the request/response pairing demanded by the protocol documents is the
  hand-written table `specPairs`.
-/
import SmsVerif.Model.Meta
import SmsVerif.Gen.Tables
import SmsVerif.Gen.Layouts

namespace SmsVerif.C10
open SmsVerif

def respBit : Nat := 0x80000000

/-- request ↦ response, per the protocol documents (SMPP 3.4 §4, CMPP 2.0/3.0 §7/8, SGIP 1.2 §4, SMGP 3.0 §6) -/
def specPairs : List (String × String) :=
  [("cmpp20.PduConnect", "cmpp20.PduConnectResp"), ("cmpp20.PduTerminate", "cmpp20.PduTerminateResp"),
   ("cmpp20.PduSubmit", "cmpp20.PduSubmitResp"), ("cmpp20.PduDeliver", "cmpp20.PduDeliverResp"),
   ("cmpp20.PduQuery", "cmpp20.PduQueryResp"), ("cmpp20.PduActiveTest", "cmpp20.PduActiveTestResp"),
   ("cmpp30.Connect", "cmpp30.ConnectResp"), ("cmpp30.Terminate", "cmpp30.TerminateResp"),
   ("cmpp30.Submit", "cmpp30.SubmitResp"), ("cmpp30.Deliver", "cmpp30.DeliverResp"),
   ("cmpp30.Query", "cmpp30.QueryResp"), ("cmpp30.Cancel", "cmpp30.CancelResp"),
   ("cmpp30.ActiveTest", "cmpp30.ActiveTestResp"),
   ("sgip12.Bind", "sgip12.BindResp"), ("sgip12.Unbind", "sgip12.UnbindResp"),
   ("sgip12.Submit", "sgip12.SubmitResp"), ("sgip12.Deliver", "sgip12.DeliverResp"),
   ("sgip12.Report", "sgip12.ReportResp"),
   ("smgp30.Login", "smgp30.LoginResp"), ("smgp30.Submit", "smgp30.SubmitResp"),
   ("smgp30.Deliver", "smgp30.DeliverResp"), ("smgp30.ActiveTest", "smgp30.ActiveTestResp"),
   ("smgp30.Exit", "smgp30.ExitResp"),
   ("smpp34.Bind", "smpp34.BindResp"), ("smpp34.Unbind", "smpp34.UnBindResp"),
   ("smpp34.SubmitSm", "smpp34.SubmitSmResp"), ("smpp34.DeliverSm", "smpp34.DeliverSmResp"),
   ("smpp34.EnquireLink", "smpp34.EnquireLinkResp")]

def metaOf (n : String) : Option PduMeta := Gen.metas.find? (·.name == n)

def pdus : List PduMeta := Gen.metas.filter (·.isPdu)

def isRequest (m : PduMeta) : Bool := specPairs.any (·.1 == m.name)

/-- the response command agrees with the request command with the response bit set, for every
    value the request's header id can hold -/
def respCmdOK : CmdSpec → RespCmd → Bool
  | .const c, .const r => r == c ||| respBit
  | .hdrOr f allowed d, .byReq f' table d' =>
    f == f' && d' == d ||| respBit && table.map (·.1) == allowed.filter (· != d) &&
    table.all (fun kv => kv.2 == kv.1 ||| respBit)
  | _, _ => false

theorem respCmdOK_sound (c : CmdSpec) (r : RespCmd) (h : respCmdOK c r = true) (hv : Nat) :
    c.eval hv = some ((r.eval hv) - respBit) ∧ r.eval hv = ((r.eval hv) - respBit) ||| respBit ∨
    ∃ n, c.eval hv = some n ∧ r.eval hv = n ||| respBit := by
  right
  cases c <;> cases r <;> simp only [respCmdOK] at h <;> try (simp at h; done)
  · rename_i n m
    exact ⟨n, rfl, by simpa [RespCmd.eval] using h⟩
  · rename_i f allowed d f' table d'
    simp only [Bool.and_eq_true, beq_iff_eq, List.all_eq_true] at h
    obtain ⟨⟨⟨_, hd⟩, hkeys⟩, hall⟩ := h
    refine ⟨_, rfl, ?_⟩
    simp only [RespCmd.eval]
    by_cases hmem : allowed.contains hv = true
    · simp only [hmem, if_true]
      by_cases hvd : hv = d
      · subst hvd
        -- the default value is not a key of the table
        have : table.find? (fun x => x.1 == hv) = none := by
          rw [List.find?_eq_none]
          intro x hx hxe
          have : x.1 ∈ table.map (·.1) := List.mem_map_of_mem hx
          rw [hkeys, List.mem_filter] at this
          simp at hxe this
          exact this.2 hxe
        simp [this, hd]
      · have hin : hv ∈ table.map (·.1) := by
          rw [hkeys, List.mem_filter]; simpa [hvd] using hmem
        obtain ⟨kv, hkv, hk⟩ := List.mem_map.1 hin
        cases hfind : table.find? (fun x => x.1 == hv) with
        | none =>
          rw [List.find?_eq_none] at hfind
          exact absurd (by simpa using hk) (hfind kv hkv)
        | some kv' =>
          have h1 := List.find?_some hfind
          have h2 := List.mem_of_find?_eq_some hfind
          have := hall kv' h2
          simp at h1 this
          simp [this, h1]
    · have hmem' : allowed.contains hv = false := by simpa using hmem
      simp only [hmem', Bool.false_eq_true, if_false]
      have : table.find? (fun x => x.1 == hv) = none := by
        rw [List.find?_eq_none]
        intro x hx hxe
        have : x.1 ∈ table.map (·.1) := List.mem_map_of_mem hx
        rw [hkeys, List.mem_filter] at this
        simp at hxe
        rw [hxe] at this
        simp at hmem'
        exact hmem' this.1
      simp [this, hd]

/-- per-type obligations of a request: its generated response is the specified type, carries the
    request's sequence identifier in the field the response's own accessors use, and its command is
    the request's command with the response bit set; the response type reports that command. -/
def requestOK (m : PduMeta) : Bool :=
  match m.resp with
  | .some rt rc cf sf seqOK =>
    seqOK && specPairs.contains (m.name, rt) && respCmdOK m.cmd rc &&
    match metaOf rt with
    | some mr =>
        -- the sequence identifier lands in the field the response's accessors use; for a three-word
        -- sequence number (SGIP 1.2 §3.4: "the sequence number of a response must be the same as that of
        -- the corresponding command") every word is the request's word at the same position
        (mr.getSeq == sf || (mr.getSeq == sf ++ ".2" && m.seqWords.length == 3)) &&
        (m.seqWords == [] || m.seqWords == [(0, some 0), (1, some 1), (2, some 2)]) &&
        (m.pkg != "sgip12" || m.seqWords.length == 3) && mr.resp == .none &&
        (match mr.cmd, rc with
         | .const c, .const r => c == r
         | .hdrOr f allowed d, .byReq _ table d' => f == cf && d == d' && table.all (fun kv => allowed.contains kv.2)
         | _, _ => false)
    | none => false
  | _ => false

theorem C10_resp_pairs : (pdus.filter isRequest).all requestOK = true := by decide

theorem C10_responses_generate_none :
    (pdus.filter (fun m => !isRequest m)).all (fun m => m.resp == .none) = true := by decide

/-- every request in the specification table exists in the code, and nothing else claims to be one -/
theorem C10_requests_exist : specPairs.all (fun pr => (metaOf pr.1).isSome && (metaOf pr.2).isSome) = true := by decide

theorem C10_set_get_seq : pdus.all (fun m => m.getSeq == m.setSeq && m.getSeq != "?") = true := by decide

/-! ### dispatchers -/

def cmdAt (m : PduMeta) (hv : Nat) : Option Nat := m.cmd.eval hv

/-- the PDU a dispatcher allocates for command id `c` reports `c` as its command -/
theorem C10_dispatch_consistent :
    Gen.dispatchers.all (fun d => d.cases.all fun ct =>
      match metaOf ct.2 with
      | some m => cmdAt m ct.1 == some ct.1
      | none => false) = true := by decide

/-- every PDU type of a package is reachable through its dispatcher -/
theorem C10_dispatch_complete :
    pdus.all (fun m => Gen.dispatchers.any fun d => d.pkg == m.pkg && d.cases.any (·.2 == m.name)) = true := by
  decide

theorem C10_dispatch_unknown_is_error : Gen.dispatchers.all (·.unknownIsError) = true := by decide

def nodupNat : List Nat → Bool
  | [] => true
  | x :: xs => !xs.contains x && nodupNat xs

theorem C10_dispatch_cases_distinct : Gen.dispatchers.all (fun d => nodupNat (d.cases.map (·.1))) = true := by decide

theorem C10_five_dispatchers : Gen.dispatchers.map (·.pkg) = ["cmpp20", "cmpp30", "sgip12", "smgp30", "smpp34"] := by decide

/-! ### header offsets (from the regenerated layouts) -/

def offsetGo (f : String) : List Item → Nat → Option Nat
  | [], _ => none
  | .num k g _ :: rest, off => if g == f then some off else offsetGo f rest (off + k)
  | .asg _ _ :: rest, off => offsetGo f rest off
  | it :: rest, off => if it.minLen == 0 then none else offsetGo f rest (off + it.minLen)

/-- wire offset of the integer field `f` in the encoded image -/
def offsetOf (p : PduDesc) (f : String) : Option Nat :=
  match p.items with
  | none => none
  | some (_, its) => offsetGo f its (if p.fin == .withLength then 4 else 0)

def layoutOf (n : String) : Option PduDesc := Gen.allPdus.find? (·.name == n)

def seqOffsetSpec (pkg : String) : Nat :=
  if pkg == "smpp34" then 12 else if pkg == "sgip12" then 16 else 8

/-- the sequence field that `Set/GetSequenceID` use sits at the header's sequence offset, and the
    command field the dispatcher switches on sits at offset 4 -/
theorem C10_seq_and_cmd_offsets :
    pdus.all (fun m =>
      match layoutOf m.name with
      | some p => offsetOf p m.getSeq == some (seqOffsetSpec m.pkg) &&
                  Gen.dispatchers.all (fun d => d.pkg != m.pkg || offsetOf p d.cmdField == some 4)
      | none => false) = true := by decide

end SmsVerif.C10

section
open SmsVerif.C10
#print axioms C10_resp_pairs
#print axioms respCmdOK_sound
#print axioms C10_responses_generate_none
#print axioms C10_requests_exist
#print axioms C10_set_get_seq
#print axioms C10_dispatch_consistent
#print axioms C10_dispatch_complete
#print axioms C10_dispatch_unknown_is_error
#print axioms C10_dispatch_cases_distinct
#print axioms C10_five_dispatchers
#print axioms C10_seq_and_cmd_offsets
end
