/-
  C02 — encoded bytes are exactly the layout the protocol specifications prescribe.

  `Spec/Tables.lean` holds the field tables of the five documents, `Spec.wire` the reference
  serialiser over such a table (it never looks at the library).  Proved here:
    * `C02_bytes_are_spec`: for every PDU type the translator finds (outside the recorded
      deviation) and every well-formed field assignment, `IEncode` returns exactly `Spec.wire` of
      its table — fields in document order, integers big-endian, fixed fields NUL-padded,
      C-strings NUL-terminated;
    * `C02_length_prefix`, `C02_header_*`: the first four octets of a framed message are its total
      length, the command id and the sequence number(s) follow at their fixed offsets;
    * the hand-computed CMPP 2.0 lengths equal the real size (`lenCheck`, inside `specOK`): the
      extracted formula is linearised with Go's fixed-width arithmetic made explicit, a product
      such as `21*DestUsrTL` computed in 8 bits is refused;
    * `C02_decode_of_spec_image`: decoding the reference image gives back every field.
  Per-run obligations: the `decide` lines over the regenerated layouts.
-/
import SmsVerif.Lemmas.SpecMatch
import SmsVerif.Props.C01

namespace SmsVerif.C02
open SmsVerif SmsVerif.Spec

/-- drop the leading normalisations and the hand-written length word of a CMPP 2.0 style encoder -/
def stripLen (l : String) : List Item → Option (List Item)
  | .asg _ _ :: rest => stripLen l rest
  | .num 4 g _ :: rest => if g = l then some rest else none
  | _ => none

theorem stripLen_bytes : ∀ (its rest : List Item) (l : String) (r : Rec), stripLen l its = some rest →
    itemsBytes r its = be 4 (r.num l) ++ itemsBytes r rest
  | [], _, _, _, h => by simp [stripLen] at h
  | it :: its, rest, l, r, h => by
    cases it with
    | asg c as =>
      simp only [stripLen] at h
      rw [itemsBytes_cons, stripLen_bytes its rest l r h]; simp [Item.bytes]
    | num k g c =>
      unfold stripLen at h
      split at h
      · rename_i heq; simp at heq
      · rename_i g' c' rest' heq
        simp only [List.cons.injEq, Item.num.injEq] at heq
        obtain ⟨⟨rfl, rfl, rfl⟩, rfl⟩ := heq
        split at h
        · rename_i hg; simp at h; subst h; subst hg
          simp [itemsBytes_cons, Item.bytes]
        · simp at h
      · rename_i hne1 hne2; exact absurd h (by simp)
    | _ => simp [stripLen] at h

/-- the regenerated layout `p` is the document table `s` -/
def specOK (p : PduDesc) (s : Spec) : Bool :=
  s.pdu == p.name &&
  match p.items with
  | none => false
  | some (lf, its) =>
    asgOK its &&
    match p.fin, s.lenField with
    | .withLength, some l => l == lf && matchItems its s.fields
    | .plain, none => matchItems its s.fields
    | .plain, some l =>
      (match stripLen l its with
       | some rest => matchItems rest s.fields
       | none => false) && lenCheck l its
    | _, _ => false

/-- **bytes = specification, one PDU type** -/
theorem spec_wire (p : PduDesc) (s : Spec) (h : specOK p s = true) :
    ∃ lf its, p.items = some (lf, its) ∧ ∀ r : Rec, (∀ it ∈ its, it.Fits (norm its r)) →
      p.encode r = .ok (s.wire (norm its r), norm its r) := by
  unfold specOK at h
  simp only [Bool.and_eq_true] at h
  obtain ⟨_, h⟩ := h
  cases hitems : p.items with
  | none => simp [hitems] at h
  | some pr =>
    obtain ⟨lf, its⟩ := pr
    simp only [hitems, Bool.and_eq_true] at h
    obtain ⟨hasg, h⟩ := h
    refine ⟨lf, its, rfl, fun r hf => ?_⟩
    rw [encode_items p lf its hitems hasg r hf]
    have key : wire p its (norm its r) = s.wire (norm its r) := by
      unfold wire Spec.wire
      cases hfin : p.fin <;> cases hlen : s.lenField <;> simp only [hfin, hlen] at h ⊢
      · -- a bare structure (the CMPP status report)
        exact matchItems_bytes its s.fields h _
      · -- hand-written length word: it must hold the real size
        rename_i l
        simp only [Bool.and_eq_true] at h
        obtain ⟨hm, hlc⟩ := h
        split at hm
        · rename_i rest hstrip
          have hsz := lenCheck_sound l its hlc r hf
          rw [stripLen_bytes its rest l _ hstrip] at hsz ⊢
          rw [matchItems_bytes rest s.fields hm] at hsz ⊢
          rw [hsz]
          simp [Nat.add_comm]
        · simp at hm
      · simp at h
      · -- length prefix written by the packet writer
        simp only [Bool.and_eq_true] at h
        rw [matchItems_bytes its s.fields h.2]
    rw [key]

/-! ### the per-run obligation -/

/-- PDU types whose layout deviates from the document (known finding, see known-findings.json):
    SMGP 3.0.3 §5.2.2.5.2 defines Active_Test_Resp without a body, the library writes and expects
    one reserved octet.  (The two SMPP response types whose body is present only when
    command_status is zero — SMPP 3.4 §4.1.2, §4.4.2 — are *not* deviations of the encoder's layout: the
    tables describe the layout with its body, `C02_bytes_are_spec` holds for them, and the library writing
    that body also for a non-zero status is an open finding reported by the correspondence run.) -/
def deviations : List String := ["smgp30.ActiveTestResp"]

def tableFor (p : PduDesc) : Bool :=
  match Spec.find? p.name with
  | some s => specOK p s
  | none => false

theorem layouts_are_spec :
    (Gen.allPdus.filter (fun p => !deviations.contains p.name)).all tableFor = true := by decide +kernel

/-- **C02_bytes_are_spec**: every PDU type of the library has a table in the documents, and for
    every field assignment whose normal form fits the wire format `IEncode` returns exactly the
    reference serialisation of that table. -/
theorem C02_bytes_are_spec (p : PduDesc) (hp : p ∈ Gen.allPdus) (hx : deviations.contains p.name = false) :
    ∃ s ∈ Spec.all, s.pdu = p.name ∧ ∃ lf its, p.items = some (lf, its) ∧ ∀ r : Rec,
      (∀ it ∈ its, it.Fits (norm its r)) → p.encode r = .ok (s.wire (norm its r), norm its r) := by
  have h := List.all_eq_true.1 layouts_are_spec p (List.mem_filter.2 ⟨hp, by rw [hx]; rfl⟩)
  unfold tableFor at h
  split at h
  · rename_i s hs
    have hmem : s ∈ Spec.all := List.mem_of_find?_eq_some hs
    have hname : s.pdu = p.name := by
      have := List.find?_some hs
      simpa using this
    exact ⟨s, hmem, hname, spec_wire p s h⟩
  · simp at h

/-! ### what the reference serialiser guarantees about the header -/

/-- **C02_length_prefix**: the first four octets of a framed message are its total length -/
theorem C02_length_prefix (s : Spec) (h : s.lenField.isSome = true) (r : Rec) :
    (s.wire r).take 4 = be 4 (s.wire r).length := by
  unfold Spec.wire
  split
  · rename_i hn; simp [hn] at h
  · simp [Nat.add_comm]

/-- the message after its length word begins with the header fields `hdr` -/
theorem wire_header (s : Spec) (l : String) (hl : s.lenField = some l) (hdr body : List SField)
    (hf : s.fields = hdr ++ body) (r : Rec) :
    s.wire r = be 4 (s.wire r).length ++ fieldsBytes r hdr ++ fieldsBytes r body := by
  unfold Spec.wire
  simp only [hl, hf, fieldsBytes, List.map_append, List.flatten_append, List.length_append, be_length]
  simp [Nat.add_comm]

def startsWith (hdr : List SField) (s : Spec) : Bool := s.lenField.isSome && s.fields.take hdr.length == hdr

theorem tables_have_headers :
    (Spec.cmpp20 ++ Spec.cmpp30).all (startsWith Spec.cmppHdr) = true ∧
    Spec.sgip12.all (startsWith Spec.sgipHdr) = true ∧
    Spec.smgp30.all (startsWith Spec.smgpHdr) = true ∧
    Spec.smpp34.all (startsWith Spec.smppHdr) = true := by decide +kernel

theorem header_of_startsWith (hdr : List SField) (s : Spec) (h : startsWith hdr s = true) (r : Rec) :
    s.wire r = be 4 (s.wire r).length ++ fieldsBytes r hdr ++ fieldsBytes r (s.fields.drop hdr.length) := by
  simp only [startsWith, Bool.and_eq_true, beq_iff_eq] at h
  obtain ⟨l, hl⟩ := Option.isSome_iff_exists.1 h.1
  have hsplit : s.fields = hdr ++ s.fields.drop hdr.length := by
    have := (List.take_append_drop hdr.length s.fields).symm
    rw [h.2] at this
    exact this
  exact wire_header s l hl hdr _ hsplit r

theorem cmppHdr_bytes (r : Rec) : fieldsBytes r Spec.cmppHdr
    = be 4 (r.num "Header.CommandID") ++ be 4 (r.num "Header.SequenceID") := by
  simp [fieldsBytes, Spec.cmppHdr, SField.bytes, Spec.u]
theorem smgpHdr_bytes (r : Rec) : fieldsBytes r Spec.smgpHdr
    = be 4 (r.num "Header.CommandID") ++ be 4 (r.num "Header.SequenceID") := by
  simp [fieldsBytes, Spec.smgpHdr, SField.bytes, Spec.u]
theorem sgipHdr_bytes (r : Rec) : fieldsBytes r Spec.sgipHdr
    = be 4 (r.num "Header.CommandID") ++ be 4 (r.num "Header.Sequence.0") ++ be 4 (r.num "Header.Sequence.1")
      ++ be 4 (r.num "Header.Sequence.2") := by
  simp [fieldsBytes, Spec.sgipHdr, SField.bytes, Spec.u]
theorem smppHdr_bytes (r : Rec) : fieldsBytes r Spec.smppHdr
    = be 4 (r.num "Header.ID") ++ be 4 (r.num "Header.Status") ++ be 4 (r.num "Header.Sequence") := by
  simp [fieldsBytes, Spec.smppHdr, SField.bytes, Spec.u]

/-- **C02_header_cmpp**: CMPP 2.0/3.0 — length, Command_Id at offset 4, Sequence_Id at offset 8 -/
theorem C02_header_cmpp (s : Spec) (hs : s ∈ Spec.cmpp20 ++ Spec.cmpp30) (r : Rec) :
    ∃ body, s.wire r = be 4 (s.wire r).length ++ be 4 (r.num "Header.CommandID")
      ++ be 4 (r.num "Header.SequenceID") ++ body := by
  have h := List.all_eq_true.1 tables_have_headers.1 s hs
  have e := header_of_startsWith _ s h r
  rw [cmppHdr_bytes] at e
  exact ⟨_, by simpa [List.append_assoc] using e⟩

/-- **C02_header_smgp**: SMGP 3.0 — PacketLength, RequestID at 4, SequenceID at 8 -/
theorem C02_header_smgp (s : Spec) (hs : s ∈ Spec.smgp30) (r : Rec) :
    ∃ body, s.wire r = be 4 (s.wire r).length ++ be 4 (r.num "Header.CommandID")
      ++ be 4 (r.num "Header.SequenceID") ++ body := by
  have h := List.all_eq_true.1 tables_have_headers.2.2.1 s hs
  have e := header_of_startsWith _ s h r
  rw [smgpHdr_bytes] at e
  exact ⟨_, by simpa [List.append_assoc] using e⟩

/-- **C02_header_sgip**: SGIP 1.2 — Message Length, Command ID at 4, the three sequence words at 8, 12, 16 -/
theorem C02_header_sgip (s : Spec) (hs : s ∈ Spec.sgip12) (r : Rec) :
    ∃ body, s.wire r = be 4 (s.wire r).length ++ be 4 (r.num "Header.CommandID")
      ++ be 4 (r.num "Header.Sequence.0") ++ be 4 (r.num "Header.Sequence.1")
      ++ be 4 (r.num "Header.Sequence.2") ++ body := by
  have h := List.all_eq_true.1 tables_have_headers.2.1 s hs
  have e := header_of_startsWith _ s h r
  rw [sgipHdr_bytes] at e
  exact ⟨_, by simpa [List.append_assoc] using e⟩

/-- **C02_header_smpp**: SMPP 3.4 — command_length, command_id at 4, command_status at 8, sequence_number at 12 -/
theorem C02_header_smpp (s : Spec) (hs : s ∈ Spec.smpp34) (r : Rec) :
    ∃ body, s.wire r = be 4 (s.wire r).length ++ be 4 (r.num "Header.ID") ++ be 4 (r.num "Header.Status")
      ++ be 4 (r.num "Header.Sequence") ++ body := by
  have h := List.all_eq_true.1 tables_have_headers.2.2.2 s hs
  have e := header_of_startsWith _ s h r
  rw [smppHdr_bytes] at e
  exact ⟨_, by simpa [List.append_assoc] using e⟩

/-! ### conversely: decoding a specification-conformant image -/

/-- **C02_decode_of_spec_image**: the decoder, given the reference serialisation of a table, returns
    every field value the image carries (the header length field holding the image size). -/
theorem C02_decode_of_spec_image (p : PduDesc) (hp : p ∈ Gen.allPdus)
    (hx : deviations.contains p.name = false) (hx1 : C01.exceptions.contains p.name = false) :
    ∃ s ∈ Spec.all, s.pdu = p.name ∧ ∃ lf its, p.items = some (lf, its) ∧ ∀ r : Rec,
      (∀ it ∈ its, it.Fits (norm its r)) → (itemsBytes (norm its r) its).length + 4 < 2 ^ 32 →
      ∃ dec, p.decode (s.wire (norm its r)) = .ok dec ∧ ∀ ft ∈ p.fields,
        dec.get? ft.1 = (if p.fin = .withLength ∧ ft.1 = lf then some (.num (s.wire (norm its r)).length)
                         else (norm its r).get? ft.1) := by
  obtain ⟨s, hs, hn, lf, its, hits, henc⟩ := C02_bytes_are_spec p hp hx
  obtain ⟨lf', its', hits', hrt⟩ := C01.C01_roundtrip p hp hx1
  rw [hits] at hits'
  simp only [Option.some.injEq, Prod.mk.injEq] at hits'
  obtain ⟨rfl, rfl⟩ := hits'
  refine ⟨s, hs, hn, lf, its, hits, fun r hf hsz => ?_⟩
  obtain ⟨bs, dec, he, hd, hfields⟩ := hrt r hf hsz
  rw [henc r hf] at he
  simp only [Except.ok.injEq, Prod.mk.injEq, and_true] at he
  subst he
  exact ⟨dec, hd, hfields⟩

/-! ### the statements are not vacuous, and the check has teeth -/

/-- the CMPP 2.0 submit formula as extracted: accepted, and a 13-destination PDU really is 413 octets -/
example : tableFor Gen.cmpp20_PduSubmit = true := by decide +kernel
/-- the 8-bit product `21*DestUsrTL` of the pinned tree would be refused: with the bound 255 on the
    field, `conv 1 (21 * DestUsrTL)` cannot be linearised -/
example : lin (fun f => if f = "DestUsrTL" then some 255 else none)
    (.conv 4 (.conv 1 (.mul (.lit 21) (.fld "DestUsrTL")))) = none := by decide +kernel
example : (lin (fun f => if f = "DestUsrTL" then some 255 else none)
    (.conv 4 (.mul (.lit 21) (.conv 4 (.fld "DestUsrTL"))))).isSome = true := by decide +kernel

end SmsVerif.C02

#print axioms SmsVerif.C02.C02_bytes_are_spec
#print axioms SmsVerif.C02.C02_length_prefix
#print axioms SmsVerif.C02.C02_header_cmpp
#print axioms SmsVerif.C02.C02_header_smgp
#print axioms SmsVerif.C02.C02_header_sgip
#print axioms SmsVerif.C02.C02_header_smpp
#print axioms SmsVerif.C02.C02_decode_of_spec_image
#print axioms SmsVerif.C02.layouts_are_spec
#print axioms SmsVerif.lenCheck_sound
