/-
  C16 — optional-parameter containers (SMPP TLVs, SMGP options) are lossless and safe.
  Model: `Model/OptParams.lean` (hand model of smpp/pdu_tlv.go and smgp/options.go).
-/
import SmsVerif.Lemmas.OptParams
import SmsVerif.Lemmas.OptParamsConv

namespace SmsVerif.C16
open SmsVerif

def WellFormed (seq : TlvMap) : Prop := ∀ tv ∈ seq, tv.1 < 65536 ∧ tv.2.length < 65536

/-- **parse_serialize_perm** : a set of parameters with distinct tags, serialised in any emission
    order `order`, parses back (with either entry point) to exactly the emitted list — hence to the
    same set whatever the order was. -/
theorem C16_parse_serialize (order : TlvMap) (hn : tagsNodup order = true) (hb : WellFormed order) (a : Nat) :
    (readTlvs ⟨tlvsBytes order, none, a⟩).map.getD [] = order ∧
    (readTlvs ⟨tlvsBytes order, none, a⟩).rd.err = none ∧
    parseOptions (tlvsBytes order) = some order :=
  ⟨(readTlvs_ser order a hn hb).1, (readTlvs_ser order a hn hb).2, parseOptions_ser order hn hb⟩

/-- **parsers_agree** : on every well-formed triplet sequence — any order, duplicate tags allowed —
    the reader-based entry point (ReadTLVs / ReadTLVs1 / ReadOptions) and the slice-based one
    (ParseOptions) build the same map: the last triplet of a tag wins in both. -/
theorem C16_parsers_agree (seq : TlvMap) (hb : WellFormed seq) (hne : seq ≠ []) (a : Nat) :
    (readTlvs ⟨tlvsBytes seq, none, a⟩).map = parseOptions (tlvsBytes seq) ∧
    parseOptions (tlvsBytes seq) = some (upsertAll [] seq) := by
  have h2 := parseOptionsLoop_seq seq [] ((tlvsBytes seq).length + 1) (by omega) hb
  have hrem : ¬ (Reader.remaining ⟨tlvsBytes seq, none, a⟩ = 0) := by
    cases seq with
    | nil => exact absurd rfl hne
    | cons tv rest =>
      obtain ⟨t, v⟩ := tv
      have := hb (t, v) (by simp)
      simp [Reader.remaining, tlvsBytes, tlvBytes_small t v this.2]
  obtain ⟨a', h1, _⟩ := readTlvLoop_seq seq [] a (Reader.remaining ⟨tlvsBytes seq, none, a⟩ + 1)
    (by simp [Reader.remaining]) hb
  refine ⟨?_, by simpa [parseOptions] using h2⟩
  simp only [readTlvs, hrem, if_false, Option.isSome_none, Bool.false_eq_true, parseOptions]
  rw [h1, h2]

/-! ### no fabrication -/

/-- the triplet `(t, v)` is completely present in `bs`: a 4-octet header whose two halves read
    `t` and `len v`, immediately followed by the octets of `v` -/
def Present (bs : Bytes) (t : Nat) (v : Bytes) : Prop :=
  ∃ pre hd post, bs = pre ++ hd ++ v ++ post ∧ hd.length = 4 ∧ fromBe (hd.take 2) = t ∧ fromBe (hd.drop 2) = v.length

theorem mem_upsert (m : TlvMap) (t : Nat) (v : Bytes) (x : Tlv) (h : x ∈ m.upsert t v) : x ∈ m ∨ x = (t, v) := by
  induction m with
  | nil => simp [TlvMap.upsert] at h; exact Or.inr h
  | cons y ys ih =>
    obtain ⟨t', v'⟩ := y
    simp only [TlvMap.upsert] at h
    split at h
    · simp only [List.mem_cons] at h ⊢
      rcases h with h | h
      · exact Or.inr h
      · exact Or.inl (Or.inr h)
    · simp only [List.mem_cons] at h ⊢
      rcases h with h | h
      · exact Or.inl (Or.inl h)
      · rcases ih h with h | h
        · exact Or.inl (Or.inr h)
        · exact Or.inr h

theorem parseOptionsLoop_present (bs : Bytes) (fuel : Nat) (pre cur : Bytes) (m res : TlvMap)
    (hsplit : bs = pre ++ cur) (hm : ∀ x ∈ m, Present bs x.1 x.2)
    (h : parseOptionsLoop fuel cur m = some res) : ∀ x ∈ res, Present bs x.1 x.2 := by
  induction fuel generalizing pre cur m with
  | zero => simp [parseOptionsLoop] at h; subst h; exact hm
  | succ fuel ih =>
    rw [parseOptionsLoop] at h
    split at h
    · simp at h; subst h; exact hm
    · split at h
      · simp at h
      · rename_i hlen4
        dsimp only at h
        split at h
        · simp at h
        · rename_i hlenv
          -- the triplet just read
          have hcur : cur = cur.take 4 ++ ((cur.drop 4).take (fromBe ((cur.drop 2).take 2)) ++
              (cur.drop 4).drop (fromBe ((cur.drop 2).take 2))) := by
            rw [List.take_append_drop, List.take_append_drop]
          refine ih (pre ++ cur.take 4 ++ (cur.drop 4).take (fromBe ((cur.drop 2).take 2)))
            ((cur.drop 4).drop (fromBe ((cur.drop 2).take 2))) _ ?_ ?_ h
          · rw [hsplit]
            conv => lhs; rw [hcur]
            simp [List.append_assoc]
          · intro x hx
            rcases mem_upsert _ _ _ _ hx with hx | rfl
            · exact hm x hx
            · refine ⟨pre, cur.take 4, (cur.drop 4).drop (fromBe ((cur.drop 2).take 2)), ?_, ?_, ?_, ?_⟩
              · rw [hsplit]
                conv => lhs; rw [hcur]
                simp [List.append_assoc]
              · simp; omega
              · simp [List.take_take]
              · have e : (cur.take 4).drop 2 = (cur.drop 2).take 2 := by
                  rw [List.drop_take]
                rw [e, List.length_take]
                have : ¬ (cur.drop 4).length < fromBe ((cur.drop 2).take 2) := hlenv
                omega

/-- **no_fabrication** (slice-based parser): whatever octets are parsed, every parameter reported
    is completely present in the input -/
theorem C16_no_fabrication (bs : Bytes) (m : TlvMap) (h : parseOptions bs = some m) :
    ∀ x ∈ m, Present bs x.1 x.2 :=
  parseOptionsLoop_present bs (bs.length + 1) [] bs [] m (by simp) (by simp) h

/-- a successful `ReadBytes` hands back exactly the next `n` octets -/
theorem readBytes_ok (r : Reader) (n : Nat) (h0 : r.err = none) (h1 : (r.readBytes n).2.err = none) :
    (r.readBytes n).1 = r.rest.take n ∧ (r.readBytes n).2.rest = r.rest.drop n ∧ n ≤ r.rest.length := by
  unfold Reader.readBytes at h1 ⊢
  simp only [h0] at h1 ⊢
  split
  · rename_i hn; subst hn; simp
  · rename_i hn
    rw [if_neg hn] at h1
    split
    · rename_i he; rw [if_pos he] at h1; simp at h1
    · rename_i he
      rw [if_neg he] at h1
      split
      · rename_i hl; rw [if_pos hl] at h1; simp at h1
      · rename_i hl; exact ⟨rfl, rfl, by omega⟩

theorem readTlvLoop_present (bs : Bytes) : ∀ (fuel : Nat) (r : Reader) (m : TlvMap) (pre : Bytes),
    r.err = none → bs = pre ++ r.rest → (∀ x ∈ m, Present bs x.1 x.2) →
    ∀ x ∈ (readTlvLoop fuel r m).map.getD [], Present bs x.1 x.2
  | 0, r, m, pre, _, _, hm => by simpa [readTlvLoop] using hm
  | fuel+1, r, m, pre, he, hsplit, hm => by
    simp only [readTlvLoop]
    split
    · simpa using hm
    · have h1 := readBytes_ok r 4 he
      generalize r.readBytes 4 = p1 at h1
      obtain ⟨hd, r1⟩ := p1
      simp only at h1 ⊢
      split
      · simpa [Reader.setErrNil] using hm
      · simp
      · rename_i he1
        obtain ⟨hhd, hr1, hlen4⟩ := h1 he1
        generalize hlen : fromBe (hd.drop 2) = len
        have h2 := readBytes_ok { r1 with alloc := r1.alloc + min len (r1.remaining + 1) } len (by simpa using he1)
        generalize Reader.readBytes { r1 with alloc := r1.alloc + min len (r1.remaining + 1) } len = p2 at h2
        obtain ⟨v, r2⟩ := p2
        simp only at h2 ⊢
        split
        · simpa [Reader.setErrNil] using hm
        · simp
        · rename_i he2
          obtain ⟨hv, hr2, hlenv⟩ := h2 he2
          refine readTlvLoop_present bs fuel r2 _ (pre ++ hd ++ v) he2 ?_ ?_
          · rw [hsplit, hr2, hr1, hv, hhd, hr1]
            simp only [List.append_assoc]
            rw [List.take_append_drop, List.take_append_drop]
          · intro x hx
            rcases mem_upsert m _ v x hx with h | h
            · exact hm x h
            · subst h
              refine ⟨pre, hd, r2.rest, ?_, by rw [hhd, List.length_take]; omega, rfl, ?_⟩
              · rw [hsplit, hr2, hv, hhd, hr1]
                simp only [List.append_assoc]
                rw [List.take_append_drop, List.take_append_drop]
              · have hlv : len ≤ r1.rest.length := hlenv
                rw [hlen, hv]
                show len = (List.take len r1.rest).length
                rw [List.length_take]; omega

/-- **no_fabrication** (reader-based parsers `ReadTLVs`, `ReadTLVs1`, `ReadOptions`): every parameter
    reported is completely present in the unread input -/
theorem C16_no_fabrication_reader (r : Reader) (x : Tlv) (hx : x ∈ (readTlvs r).map.getD []) :
    Present r.rest x.1 x.2 := by
  unfold readTlvs at hx
  split at hx
  · simp at hx
  · split at hx
    · simp at hx
    · rename_i h
      exact readTlvLoop_present r.rest _ r [] [] (by simpa using h) (by simp) (by simp) x hx

/-- **long_value_consistent** : for a value of any length the emitted length field and the emitted
    value agree (the value is truncated to `len mod 65536` octets, never a panic or a mismatch) -/
theorem C16_long_value_consistent (t : Nat) (v : Bytes) :
    ∃ l, l = v.length % 65536 ∧ tlvBytes (t, v) = be 2 t ++ be 2 l ++ v.take l ∧
      (tlvBytes (t, v)).length = 4 + l ∧ (v.take l).length = l := by
  refine ⟨v.length % 65536, rfl, rfl, ?_, ?_⟩
  · simp [tlvBytes]; have := Nat.mod_le v.length 65536; omega
  · simp only [List.length_take]; have := Nat.mod_le v.length 65536; omega

/-- adding to an empty container takes effect; accessors find what was added and tolerate absence -/
theorem C16_add_to_empty (t : Nat) (v : Bytes) :
    TlvMap.find? (TlvMap.upsert [] t v) t = some v ∧ TlvMap.find? [] t = none := by
  simp [TlvMap.upsert, TlvMap.find?]

/-- **accepts_exactly** : the slice-based parser accepts a byte string if and only if it is the
    concatenation of complete triplets (no trailing octets, no triplet cut short), and what it
    returns is then the last-wins container of exactly those triplets.  Together with
    `C16_parsers_agree` this makes "all well-formed triplet sequences" the whole accepted domain:
    nothing outside it is ever parsed into a container. -/
theorem C16_parse_options_accepts_exactly (bs : Bytes) (hb : ∀ b ∈ bs, b < 256) (m : TlvMap) :
    parseOptions bs = some m ↔ ∃ seq : TlvMap, WellFormed seq ∧ bs = tlvsBytes seq ∧ m = upsertAll [] seq := by
  constructor
  · intro h; exact parseOptions_conv bs m hb h
  · rintro ⟨seq, hwf, rfl, rfl⟩
    simpa [parseOptions] using parseOptionsLoop_seq seq [] ((tlvsBytes seq).length + 1) (by omega) hwf

/-- a byte string that is not a triplet sequence is refused (`ErrLength`), e.g. a triplet sequence
    followed by one to three stray octets, or a triplet whose value is cut short -/
theorem C16_parse_options_refuses (bs : Bytes) (hb : ∀ b ∈ bs, b < 256)
    (h : ¬ ∃ seq : TlvMap, WellFormed seq ∧ bs = tlvsBytes seq) : parseOptions bs = none := by
  cases hp : parseOptions bs with
  | none => rfl
  | some m =>
    obtain ⟨seq, hwf, hbs, _⟩ := (C16_parse_options_accepts_exactly bs hb m).1 hp
    exact absurd ⟨seq, hwf, hbs⟩ h

/-- **reader_returns_triplet_prefix** : for *every* byte string, what the reader-based parsers
    (ReadTLVs / ReadTLVs1 / ReadOptions) return is the last-wins container of a prefix of the unread
    input consisting of complete triplets — they stop quietly at the first triplet that is cut
    short, and never assemble a parameter from anywhere else. -/
theorem C16_reader_returns_triplet_prefix (r : Reader) (hb : ∀ b ∈ r.rest, b < 256) (res : TlvMap)
    (h : (readTlvs r).map = some res) :
    ∃ seq : TlvMap, WellFormed seq ∧ tlvsBytes seq <+: r.rest ∧ res = upsertAll [] seq :=
  readTlvs_prefix r res hb h

/-- **parsers_agree_on_accepted** : parser agreement stated on octets rather than on triplet lists:
    whatever non-empty input the slice-based parser accepts, the reader-based ones turn into the
    same container. -/
theorem C16_parsers_agree_on_accepted (bs : Bytes) (hb : ∀ b ∈ bs, b < 256) (hne : bs ≠ []) (m : TlvMap)
    (h : parseOptions bs = some m) (a : Nat) : (readTlvs ⟨bs, none, a⟩).map = some m := by
  obtain ⟨seq, hwf, rfl, rfl⟩ := (C16_parse_options_accepts_exactly bs hb m).1 h
  have hs : seq ≠ [] := by
    rintro rfl; exact hne (by simp [tlvsBytes])
  have := C16_parsers_agree seq hwf hs a
  rw [this.1, this.2]

example : parseOptions [0, 5, 0, 2, 1, 2, 0, 5, 0, 1, 9] = some [(5, [9])] := by decide
example : parseOptions [0, 5, 0, 2, 1, 2, 7] = none := by decide
example : parseOptions [0, 5, 0, 3, 1, 2] = none := by decide

example : WellFormed [(5, [1, 2]), (0x0204, []), (3, [0xff])] ∧ tagsNodup [(5, [1, 2]), (0x0204, []), (3, [0xff])] = true := by
  refine ⟨?_, by decide⟩
  intro tv h; simp at h; rcases h with rfl | rfl | rfl <;> simp

end SmsVerif.C16

section
open SmsVerif.C16
#print axioms C16_parse_serialize
#print axioms C16_parsers_agree
#print axioms C16_no_fabrication
#print axioms C16_no_fabrication_reader
#print axioms C16_long_value_consistent
#print axioms C16_add_to_empty
#print axioms C16_parse_options_accepts_exactly
#print axioms C16_parse_options_refuses
#print axioms C16_reader_returns_triplet_prefix
#print axioms C16_parsers_agree_on_accepted
end
