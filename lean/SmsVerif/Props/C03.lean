/-
  C03 — decoding untrusted bytes never panics, hangs or over-allocates; an input that ends
  before the mandatory part is complete is an error.

  What is a theorem here, for every byte string and every PDU type the translator finds:
    * the decoder model is a total function whose only outcomes are a PDU or an error
      (`C03_no_panic`): no `panic`, no `unsupported` statement; termination is accepted by the
      kernel, the optional-parameter loops by a fuel that the input length bounds;
    * what it requests from the allocator is the input length plus a constant
      (`C03_alloc_proportional`): a reader never requests octets it has not seen
      (`read_never_requests_unseen`), the two statement kinds that size a request from an unchecked
      field are bounded by the width of that field (255 slots, 65 535 octets);
    * a decode that reports success consumed at least the fixed-width mandatory part
      (`C03_truncated_is_error`).
  The per-run obligations are the `decide` lines over the regenerated layouts.
-/
import SmsVerif.Lemmas.DecodeBound
import SmsVerif.Props.C11

namespace SmsVerif.C03
open SmsVerif

/-! ### static bounds read off a layout -/

/-- largest value a struct field of integer type can hold -/
def fieldMax (fields : List (String × FTy)) (f : String) : Nat :=
  match fields.lookup f with
  | some (.u k) => 256 ^ k - 1
  | _ => 0

/-- static upper bound of a count / length expression over integer fields -/
def exprBound (fields : List (String × FTy)) : Expr → Option Nat
  | .lit n => some n
  | .fld f => some (fieldMax fields f)
  | .lenOf _ => none
  | .add a b => match exprBound fields a, exprBound fields b with
    | some x, some y => some (x + y) | _, _ => none
  | .mul a b => match exprBound fields a, exprBound fields b with
    | some x, some y => some (x * y) | _, _ => none
  | .conv _ e => exprBound fields e

/-- a decode statement the bounds below understand -/
def opOK (fields : List (String × FTy)) : DecOp → Bool
  | .num k f => match fields.lookup f with
    | some (.u k') => decide (k ≤ k')
    | _ => false
  | .repMake _ c _ => (exprBound fields c).isSome
  | .unsupported _ => false
  | .stopIfAbsent _ => false     -- an early successful return: such layouts are outside the bounds below (see `conditional`)
  | _ => true

/-- what a statement may request from the allocator beyond the octets it consumes -/
def opOver (fields : List (String × FTy)) : DecOp → Nat
  | .repMake _ c _ => (exprBound fields c).getD 0    -- `make([]string, count)`: one slot per declared entry
  | .tlvsRead _ => 1                                 -- the value buffer is bounded by the input left to read (+1 on the failing path)
  | _ => 0

/-- octets a statement must consume when it completes without a reader error -/
def opMin : DecOp → Nat
  | .num k _ => k
  | .cstr _ => 1
  | .fixedTrim _ n => n
  | .fixedRaw _ n => n
  | .fixedRawHex _ n => n
  | _ => 0

def overSum (fields : List (String × FTy)) (ops : List DecOp) : Nat := (ops.map (opOver fields)).sum
def minSum (ops : List DecOp) : Nat := (ops.map opMin).sum

/-- the fixed-width mandatory part of a PDU type: what every accepted image must at least contain -/
def mandatoryMin (p : PduDesc) : Nat := minSum p.dec
/-- the constant of "proportional to the input" for a PDU type -/
def allocConst (p : PduDesc) : Nat := overSum p.fields p.dec

/-! ### integer fields stay within their declared width -/

def WT (fields : List (String × FTy)) (r : Rec) : Prop := ∀ f, r.num f ≤ fieldMax fields f

theorem num_set (r : Rec) (f g : String) (v : Val) :
    (r.set f v).num g = if g = f then (match v with | .num n => n | _ => 0) else r.num g := by
  unfold Rec.num
  rw [Rec.get?_set]
  by_cases h : g = f
  · simp only [h, if_true]; cases v <;> rfl
  · simp only [h, if_false]

theorem WT.set_other {fields : List (String × FTy)} {r : Rec} (h : WT fields r) (f : String) (v : Val)
    (hv : ∀ n, v ≠ .num n) : WT fields (r.set f v) := by
  intro g
  rw [num_set]
  by_cases hg : g = f
  · simp only [hg, if_true]
    cases v with
    | num n => exact absurd rfl (hv n)
    | _ => exact Nat.zero_le _
  · simp only [hg, if_false]; exact h g

theorem WT.set_num {fields : List (String × FTy)} {r : Rec} (h : WT fields r) (f : String) (n : Nat)
    (hn : n ≤ fieldMax fields f) : WT fields (r.set f (.num n)) := by
  intro g
  rw [num_set]
  by_cases hg : g = f
  · simp only [hg, if_true]; exact hn
  · simp only [hg, if_false]; exact h g

theorem fresh_num (fs : List (String × FTy)) (f : String) :
    Rec.num (fs.map fun (x : String × FTy) => (x.1, x.2.zero)) f = 0 := by
  induction fs with
  | nil => rfl
  | cons x xs ih =>
    obtain ⟨k, t⟩ := x
    unfold Rec.num at ih ⊢
    simp only [List.map_cons, Rec.get?]
    by_cases h : k = f
    · simp only [h, if_true]; cases t <;> rfl
    · simp only [h, if_false]; exact ih

theorem fresh_WT (p : PduDesc) : WT p.fields p.fresh := by
  intro f
  have := fresh_num p.fields f
  unfold PduDesc.fresh
  simp only [] at this ⊢
  omega

theorem exprBound_sound {fields : List (String × FTy)} {r : Rec} (h : WT fields r) :
    ∀ (e : Expr) (b : Nat), exprBound fields e = some b → e.eval r ≤ b
  | .lit n, b, hb => by simp [exprBound] at hb; simp [Expr.eval, hb]
  | .fld f, b, hb => by simp [exprBound] at hb; subst hb; exact h f
  | .lenOf _, b, hb => by simp [exprBound] at hb
  | .add x y, b, hb => by
    simp only [exprBound] at hb
    split at hb
    · rename_i bx by' hx hy
      simp at hb; subst hb
      have := exprBound_sound h x bx hx; have := exprBound_sound h y by' hy
      simp only [Expr.eval]; omega
    · simp at hb
  | .mul x y, b, hb => by
    simp only [exprBound] at hb
    split at hb
    · rename_i bx by' hx hy
      simp at hb; subst hb
      have h1 := exprBound_sound h x bx hx; have h2 := exprBound_sound h y by' hy
      simp only [Expr.eval]; exact Nat.mul_le_mul h1 h2
    · simp at hb
  | .conv k e, b, hb => by
    simp only [exprBound] at hb
    have := exprBound_sound h e b hb
    simp only [Expr.eval]
    exact Nat.le_trans (Nat.mod_le _ _) this

/-! ### one statement, then a statement list -/

/-- the state a decoder is in: integer fields within their width, input octets are octets -/
structure Good (fields : List (String × FTy)) (st : DecState) : Prop where
  wt : WT fields st.r
  oct : ∀ x ∈ st.rd.rest, x < 256

theorem op_step (fields : List (String × FTy)) (op : DecOp) (hok : opOK fields op = true) (st : DecState)
    (hg : Good fields st) :
    ∃ st', op.run st = .ok st' ∧ Good fields st' ∧ RdStep st.rd st'.rd (opOver fields op) (opMin op) := by
  have keep : ∀ {rd' : Reader} {o m : Nat}, RdStep st.rd rd' o m → ∀ x ∈ rd'.rest, x < 256 :=
    fun h x hx => hg.oct x (h.sub x hx)
  cases op with
  | guard n => exact ⟨st, rfl, hg, RdStep.refl _⟩
  | num k f =>
    have hs := readNum_step st.rd k
    have hv := readNum_lt st.rd k hg.oct
    refine ⟨_, rfl, ⟨?_, keep hs⟩, hs⟩
    apply hg.wt.set_num
    simp only [opOK] at hok
    unfold fieldMax
    split at hok
    · rename_i k' hl
      have hkk : k ≤ k' := of_decide_eq_true hok
      have : 256 ^ k ≤ 256 ^ k' := Nat.pow_le_pow_right (by omega) hkk
      exact Nat.le_sub_one_of_lt (Nat.lt_of_lt_of_le hv this)
    · simp at hok
  | cstr f =>
    have hs := readCString_step st.rd
    exact ⟨_, rfl, ⟨hg.wt.set_other f _ (fun n => by simp), keep hs⟩, hs⟩
  | fixedTrim f n =>
    have hs := readCStringN_step st.rd n
    exact ⟨_, rfl, ⟨hg.wt.set_other f _ (fun n => by simp), keep hs⟩, hs⟩
  | fixedRaw f n =>
    have hs := readCStringNRaw_step st.rd n
    exact ⟨_, rfl, ⟨hg.wt.set_other f _ (fun n => by simp), keep hs⟩, hs⟩
  | fixedRawHex f n =>
    have hs := readCStringNRaw_step st.rd n
    exact ⟨_, rfl, ⟨hg.wt.set_other f _ (fun n => by simp), keep hs⟩, hs⟩
  | bytesN f l =>
    have hs := (readNBytes_step st.rd (l.eval st.r)).weaken (Nat.le_refl 0) (Nat.zero_le _)
    exact ⟨_, rfl, ⟨hg.wt.set_other f _ (fun n => by simp), keep hs⟩, hs⟩
  | repMake f c n =>
    simp only [opOK] at hok
    obtain ⟨b, hb⟩ := Option.isSome_iff_exists.1 hok
    have hcb := exprBound_sound hg.wt c b hb
    have h0 : RdStep st.rd { st.rd with alloc := st.rd.alloc + c.eval st.r } b 0 :=
      ⟨fun _ h => h, by simp; omega, fun h => h, fun _ => by simp, by simp⟩
    have hs := (h0.trans (readRep_step n (c.eval st.r) _ [])).weaken
      (show b + 0 ≤ opOver fields (.repMake f c n) by simp [opOver, hb]) (Nat.zero_le _)
    exact ⟨_, rfl, ⟨hg.wt.set_other f _ (fun n => by simp), keep hs⟩, hs⟩
  | repAppend f c n =>
    have hs := readRep_step n (c.eval st.r) st.rd []
    exact ⟨_, rfl, ⟨hg.wt.set_other f _ (fun n => by simp), keep hs⟩, hs⟩
  | tlvsRead f =>
    have hs := readTlvs_step st.rd hg.oct
    exact ⟨_, rfl, ⟨hg.wt.set_other f _ (fun n => by simp), keep hs⟩, hs⟩
  | optsParse f =>
    simp only [DecOp.run]
    split
    · exact ⟨_, rfl, ⟨hg.wt.set_other f _ (fun n => by simp), hg.oct⟩, RdStep.refl _⟩
    · exact ⟨_, rfl, ⟨hg.wt.set_other f _ (fun n => by simp), hg.oct⟩, RdStep.refl _⟩
  | stopIfAbsent f => simp [opOK] at hok
  | unsupported pos => simp [opOK] at hok

theorem ops_step (fields : List (String × FTy)) : ∀ (ops : List DecOp), ops.all (opOK fields) = true →
    ∀ st, Good fields st →
    ∃ st', runDec ops st = .ok st' ∧ Good fields st' ∧ RdStep st.rd st'.rd (overSum fields ops) (minSum ops)
  | [], _, st, hg => ⟨st, rfl, hg, RdStep.refl _⟩
  | op :: ops, hok, st, hg => by
    simp only [List.all_cons, Bool.and_eq_true] at hok
    obtain ⟨st1, h1, hg1, hs1⟩ := op_step fields op hok.1 st hg
    obtain ⟨st2, h2, hg2, hs2⟩ := ops_step fields ops hok.2 st1 hg1
    refine ⟨st2, ?_, hg2, ?_⟩
    · simp only [runDec, h1, h2]
    · have := hs1.trans hs2
      simpa [overSum, minSum] using this

/-! ### the per-run obligations over the regenerated layouts -/

/-- every decode statement of every PDU type is one the bounds understand (in particular: the
    translator met no statement outside its closed set), integer fields are read at their width -/
def layoutOK (p : PduDesc) : Bool :=
  p.dec.all (opOK p.fields)
  && decide (allocConst p ≤ 1 + 255)
  && (p.ret != .nilAlways || decide (mandatoryMin p ≤ guardOf p.dec))

/-- PDU types whose body is conditional (SMPP 3.4: a response with a non-zero command_status has no body, the
    decoder returns early): the theorems below are stated for the other types; these are covered by the
    correspondence run (every truncation point, allocation measured) only -/
def conditional (p : PduDesc) : Bool := p.dec.any DecOp.isStop

theorem conditional_types : (Gen.allPdus.filter conditional).map (·.name) = ["smpp34.BindResp", "smpp34.SubmitSmResp"] := by
  decide +kernel

theorem layouts_bounded : (Gen.allPdus.filter (fun p => !conditional p)).all layoutOK = true := by decide +kernel

/-! ### the property -/

/-- **C03_no_panic**: on every byte string every PDU decoder returns a PDU or an error —
    nothing else (no panic, no statement the model does not understand), and it terminates. -/
theorem C03_no_panic (p : PduDesc) (hp : p ∈ Gen.allPdus) (hc : conditional p = false) (data : Bytes)
    (hoct : ∀ x ∈ data, x < 256) :
    p.decode data = .err ∨ ∃ r, p.decode data = .ok r := by
  have h := List.all_eq_true.1 layouts_bounded p (List.mem_filter.2 ⟨hp, by rw [hc]; rfl⟩)
  simp only [layoutOK, Bool.and_eq_true] at h
  obtain ⟨⟨hok, _⟩, _⟩ := h
  unfold PduDesc.decode PduDesc.decodeInto
  split
  · exact Or.inl rfl
  · obtain ⟨st', hr, _, _⟩ := ops_step p.fields p.dec hok ⟨p.fresh, ⟨data, none, 0⟩, false⟩
      ⟨fresh_WT p, hoct⟩
    simp only [hr]
    split <;> (split <;> first | exact Or.inl rfl | exact Or.inr ⟨_, rfl⟩)

/-- **C03_alloc_proportional**: what a decoder requests from the allocator is at most the
    input length plus a small constant (255 destination slots, one octet on the failing path of an
    optional-parameter value): a length field is never trusted before the octets it announces have
    been seen. -/
theorem C03_alloc_proportional (p : PduDesc) (hp : p ∈ Gen.allPdus) (hcond : conditional p = false) (data : Bytes)
    (hoct : ∀ x ∈ data, x < 256) : p.decodeAlloc data ≤ data.length + 256 := by
  have h := List.all_eq_true.1 layouts_bounded p (List.mem_filter.2 ⟨hp, by rw [hcond]; rfl⟩)
  simp only [layoutOK, Bool.and_eq_true, decide_eq_true_eq] at h
  obtain ⟨⟨hok, hc⟩, _⟩ := h
  unfold PduDesc.decodeAlloc PduDesc.decodeInto
  split
  · exact Nat.zero_le _
  · obtain ⟨st', hr, _, hs⟩ := ops_step p.fields p.dec hok ⟨p.fresh, ⟨data, none, 0⟩, false⟩
      ⟨fresh_WT p, hoct⟩
    simp only [hr]
    have := hs.alloc
    simp only [allocConst] at hc
    simp at this
    omega

/-- **C03_truncated_is_error**: a decode that reports success was given at least the
    fixed-width mandatory part of its PDU type: an input that ends earlier is an error. -/
theorem C03_truncated_is_error (p : PduDesc) (hp : p ∈ Gen.allPdus) (hcond : conditional p = false) (data : Bytes)
    (hoct : ∀ x ∈ data, x < 256) (r : Rec) (hdec : p.decode data = .ok r) :
    mandatoryMin p ≤ data.length := by
  have h := List.all_eq_true.1 layouts_bounded p (List.mem_filter.2 ⟨hp, by rw [hcond]; rfl⟩)
  simp only [layoutOK, Bool.and_eq_true, Bool.or_eq_true, decide_eq_true_eq, bne_iff_ne, ne_eq] at h
  obtain ⟨⟨hok, _⟩, hnil⟩ := h
  unfold PduDesc.decode PduDesc.decodeInto at hdec
  split at hdec
  · simp at hdec
  · rename_i hlen
    obtain ⟨st', hr, _, hs⟩ := ops_step p.fields p.dec hok ⟨p.fresh, ⟨data, none, 0⟩, false⟩
      ⟨fresh_WT p, hoct⟩
    simp only [hr] at hdec
    have hcons := hs.cons
    simp only [mandatoryMin] at hnil ⊢
    cases hret : p.ret with
    | nilAlways =>
      rcases hnil with h | h
      · exact absurd hret h
      · omega
    | readerErr =>
      simp only [hret] at hdec
      split at hdec
      · simp at hdec
      · rename_i hf
        have : st'.rd.err = none := by
          cases he : st'.rd.err with
          | none => rfl
          | some e => simp [he] at hf
        have := hcons this
        simp at this; omega
    | readerOrParse =>
      simp only [hret] at hdec
      split at hdec
      · simp at hdec
      · rename_i hf
        have : st'.rd.err = none := by
          cases he : st'.rd.err with
          | none => rfl
          | some e => simp [he] at hf
        have := hcons this
        simp at this; omega

/-- **C03_truncated_mandatory_is_error**: at full strength for the decoders that report reader
    errors (all but the three header-only types covered by `C03_truncated_is_error`, and the two SMGP
    types of the open finding): if decoding reports success, the input contained every octet of every
    mandatory field *as the decoded PDU describes it* — each C-string with its terminator, each body
    as long as its length field says, each list entry its count field announces (`wireSum`), plus the
    length word.  Cutting a PDU anywhere inside its mandatory part therefore gives an error. -/
theorem C03_truncated_mandatory_is_error (p : PduDesc) (hp : p ∈ Gen.allPdus)
    (hx : C11.notCovered.contains p.name = false) (hret : p.ret ≠ .nilAlways)
    (data : Bytes) (hoct : ∀ x ∈ data, x < 256) (r : Rec) (hdec : p.decode data = .ok r) :
    ∃ lf its, p.items = some (lf, its) ∧
      wireSum r its + (if p.fin = .withLength then 4 else 0) ≤ data.length := by
  have hchk := List.all_eq_true.1 C11.layouts_decoded_fit p (List.mem_filter.2 ⟨hp, by rw [hx]; rfl⟩)
  obtain ⟨lf, its, hits, _, hc⟩ := decode_fits p hchk data hoct r hdec
  exact ⟨lf, its, hits, hc hret⟩

/-- the reader itself: whatever is read, the octets requested from the allocator so far plus the
    octets still buffered never exceed what was buffered at the start (`packet/reader.go`). -/
theorem read_never_requests_unseen (r : Reader) (n : Nat) (he : r.err = none) :
    (r.readExact n).2.alloc + (r.readExact n).2.rest.length ≤ r.alloc + r.rest.length := by
  have := (readExact_step r n he).alloc
  omega

/-! ### the statements are not vacuous -/

/-- the mandatory minimum is a real quantity: e.g. a CMPP 2.0 submit has 126 fixed octets before
    its variable part, and its 12-octet header alone is rejected -/
example : mandatoryMin Gen.cmpp20_PduSubmit = 126 + 12 := by decide +kernel
example : (match Gen.cmpp20_PduSubmit.decode (be 4 12 ++ be 4 4 ++ be 4 1) with | .err => true | _ => false) = true := by
  decide +kernel
/-- a count octet of 255 with nothing behind it: the model requests 255 slots and no octets -/
example : Gen.allPdus.any (fun p => allocConst p == 255) = true := by decide +kernel
example : Gen.allPdus.any (fun p => allocConst p == 1) = true := by decide +kernel

end SmsVerif.C03

#print axioms SmsVerif.C03.C03_no_panic
#print axioms SmsVerif.C03.C03_alloc_proportional
#print axioms SmsVerif.C03.C03_truncated_is_error
#print axioms SmsVerif.C03.C03_truncated_mandatory_is_error
#print axioms SmsVerif.C03.read_never_requests_unseen
#print axioms SmsVerif.C03.layouts_bounded
#print axioms SmsVerif.C03.conditional_types
