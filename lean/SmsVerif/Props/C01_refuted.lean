/-
  C01 — refutations of the full statement on the recorded known findings (open entries of
  known-findings.json).  These theorems are expected to hold only while the defects are present;
  the check builds this module separately and a failure here is not an alarm (it means a
  recorded defect has been repaired).
-/
import SmsVerif.Props.C01

namespace SmsVerif.C01
open SmsVerif

/-- the excluded case really fails (so the exception list is not slack) -/
theorem C01_loginresp_refuted : binaryOK ("smgp30.LoginResp", "AuthenticatorServer") = false := by decide

/-- for the two SMGP types the items still align, with the message id as the only non-inverse
    pair; the checker rejects them exactly for that reason -/
theorem C01_smgp_msgid_refuted :
    (Gen.allPdus.filter (fun p => ["smgp30.Deliver", "smgp30.SubmitResp"].contains p.name)).all
      (fun p => !p.checkRoundTrip &&
        match p.items with
        | some (_, its) => its.any (fun | .fixedHexOut "MsgID" 10 => true | _ => false)
        | none => false) = true := by decide

/-- the two SMPP response types are outside the reflective theorem only because their decoder has the
    conditional stop (`stopIfAbsent`): with the stop filtered out the items align and invert -/
theorem C01_smpp_conditional_refuted :
    (Gen.allPdus.filter (fun p => ["smpp34.BindResp", "smpp34.SubmitSmResp"].contains p.name)).all
      (fun p => !p.checkRoundTrip && p.dec.any DecOp.isStop &&
        ({ p with dec := p.dec.filter (fun d => !d.isStop) } : PduDesc).checkRoundTrip) = true := by decide

/-- the four names are all there is in the exception list -/
theorem C01_exceptions_accounted :
    exceptions = ["smgp30.Deliver", "smgp30.SubmitResp"] ++ ["smpp34.BindResp", "smpp34.SubmitSmResp"] := by decide

end SmsVerif.C01

section
open SmsVerif.C01
#print axioms C01_loginresp_refuted
#print axioms C01_smgp_msgid_refuted
#print axioms C01_smpp_conditional_refuted
#print axioms C01_exceptions_accounted
end
