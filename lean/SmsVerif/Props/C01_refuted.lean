/-
  C01 — refutations of the full statement on the recorded known findings (open entries of
  known-findings.json).  These theorems are expected to hold only while the defects are present;
  the check builds this module separately and a failure here is not an alarm (it means a
  recorded defect has been repaired).
-/
import SmsVerif.Props.C01

namespace SmsVerif.C01
open SmsVerif

/-- the excluded case really fails (so the exception list is not slack) -/
theorem C01_loginresp_refuted : binaryOK ("smgp30.LoginResp", "AuthenticatorServer") = false := by decide

/-- for the two SMGP types the items still align, with the message id as the only non-inverse
    pair; the checker rejects them exactly for that reason -/
theorem C01_smgp_msgid_refuted :
    (Gen.allPdus.filter (fun p => exceptions.contains p.name)).all
      (fun p => !p.checkRoundTrip &&
        match p.items with
        | some (_, its) => its.any (fun | .fixedHexOut "MsgID" 10 => true | _ => false)
        | none => false) = true := by decide


end SmsVerif.C01

section
open SmsVerif.C01
#print axioms C01_loginresp_refuted
#print axioms C01_smgp_msgid_refuted
end
