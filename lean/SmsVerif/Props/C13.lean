/-
  C13 — concurrent use on distinct values equals sequential use.

  The interleaving model of `Model/Own.lean`: any number of goroutines, each running one encoder
  call as a sequence of atomic steps (take a pooled buffer and reset it; append one octet per
  step; copy the result out and put the buffer back), scheduled in an arbitrary order given as a
  list of thread indices.  Proved for every schedule, every number of threads and every payload:
  no two running threads ever hold the same buffer and no held buffer is in the pool (the shared
  state is race-free at the granularity of the model), and every thread that finishes returns
  exactly its own octets — what it returns when run alone.

  What the model cannot exhibit: races inside `sync.Pool` / `bytebufferpool` themselves, torn
  reads, reordering allowed by the Go memory model, and package-level tables written after
  `init`.  Those are covered by the race-detector runs of the check (sampled schedules).
-/
import SmsVerif.Props.C12
import SmsVerif.Gen.Lifecycle

namespace SmsVerif.C13
open SmsVerif SmsVerif.Own SmsVerif.C12

/-- the allocation a thread owns: its pooled buffer while writing, its result when done -/
def own : Th → Option Nat
  | .idle _ => none
  | .writing b _ _ => some b
  | .done l _ => some l

/-- the payload a thread was asked to encode -/
def payload : Th → Bytes
  | .idle todo => todo
  | .writing _ _ all => all
  | .done _ all => all

/-- the thread's storage holds what it has produced so far -/
def ThOK (h : Heap) : Th → Prop
  | .idle _ => True
  | .writing b rest all => h.read b ++ rest = all
  | .done l all => h.read l = all

structure SInv (s : Sys) : Prop where
  content : ∀ (t : Nat) (th : Th), s.ths[t]? = some th → ThOK s.heap th
  owned : ∀ (t : Nat) (th : Th) (l : Nat), s.ths[t]? = some th → own th = some l → l < s.heap.mem.length ∧ l ∉ s.free
  excl : ∀ (t1 t2 : Nat) (th1 th2 : Th) (l : Nat), t1 ≠ t2 → s.ths[t1]? = some th1 → s.ths[t2]? = some th2 →
    own th1 = some l → own th2 ≠ some l
  freeValid : ∀ l ∈ s.free, l < s.heap.mem.length
  freeNodup : s.free.Nodup

theorem sinv_init (todos : List Bytes) : SInv { ths := todos.map .idle } := by
  refine ⟨?_, ?_, ?_, by simp, by simp⟩
  · intro t th h
    simp only [List.getElem?_map, Option.map_eq_some_iff] at h
    obtain ⟨b, _, rfl⟩ := h; trivial
  · intro t th l h ho
    simp only [List.getElem?_map, Option.map_eq_some_iff] at h
    obtain ⟨b, _, rfl⟩ := h; simp [own] at ho
  · intro t1 t2 th1 th2 l _ h1 _ ho
    simp only [List.getElem?_map, Option.map_eq_some_iff] at h1
    obtain ⟨b, _, rfl⟩ := h1; simp [own] at ho

/-- ThOK only depends on the thread's own allocation -/
theorem ThOK_congr {h h' : Heap} {th : Th} (hk : ThOK h th)
    (hsame : ∀ l, own th = some l → h'.read l = h.read l) : ThOK h' th := by
  cases th with
  | idle _ => trivial
  | writing b rest all => simp only [ThOK] at hk ⊢; rw [hsame b rfl]; exact hk
  | done l all => simp only [ThOK] at hk ⊢; rw [hsame l rfl]; exact hk

theorem getElem?_set_self' {α} (l : List α) (i : Nat) (a b : α) (h : l[i]? = some b) : (l.set i a)[i]? = some a := by
  have : i < l.length := by
    rcases Nat.lt_or_ge i l.length with h' | h'
    · exact h'
    · rw [List.getElem?_eq_none h'] at h; cases h
  simp [List.getElem?_set, this]

theorem lit_size (h : Heap) (x : Bytes) : ({ mem := h.mem ++ [x] } : Heap).mem.length = h.mem.length + 1 := by simp
theorem lit_read_new (h : Heap) (x : Bytes) : ({ mem := h.mem ++ [x] } : Heap).read h.mem.length = x := by
  simp [Heap.read, List.getD_eq_getElem?_getD]
theorem lit_read_old (h : Heap) (x : Bytes) (l : Nat) (hl : l < h.mem.length) :
    ({ mem := h.mem ++ [x] } : Heap).read l = h.read l := by
  simp [Heap.read, List.getD_eq_getElem?_getD, List.getElem?_append_left hl]

/-- the shape shared by the three kinds of step: thread `t` moves to `th'`, the heap changes only
    at allocations no other thread owns, the pool changes consistently -/
theorem step_frame (s : Sys) (hi : SInv s) (t : Nat) (th th' : Th) (heap' : Heap) (free' : List Nat)
    (hget : s.ths[t]? = some th)
    (hsize : s.heap.mem.length ≤ heap'.mem.length)
    (hok' : ThOK heap' th')
    (hown' : ∀ l, own th' = some l → l < heap'.mem.length ∧ l ∉ free' ∧
      (own th = some l ∨ l ∈ s.free ∨ s.heap.mem.length ≤ l))
    (hkeep : ∀ l, l < s.heap.mem.length → own th ≠ some l → l ∉ s.free → heap'.read l = s.heap.read l)
    (hfree : ∀ l ∈ free', (l ∈ s.free ∨ own th = some l) ∧ l < heap'.mem.length)
    (hnodup : free'.Nodup) :
    SInv { heap := heap', free := free', ths := s.ths.set t th' } := by
  have hself := getElem?_set_self' s.ths t th' th hget
  have hother : ∀ t2, t2 ≠ t → (s.ths.set t th')[t2]? = s.ths[t2]? := fun t2 hne => by
    simp [List.getElem?_set, Ne.symm hne]
  refine ⟨?_, ?_, ?_, fun l hl => (hfree l hl).2, hnodup⟩
  · intro t2 th2 h2
    by_cases ht : t2 = t
    · subst ht; rw [hself] at h2; cases h2; exact hok'
    · rw [hother t2 ht] at h2
      refine ThOK_congr (hi.content t2 th2 h2) (fun l hl => ?_)
      have ho := hi.owned t2 th2 l h2 hl
      exact hkeep l ho.1 (fun hc => hi.excl t t2 th th2 l (Ne.symm ht) hget h2 hc hl) ho.2
  · intro t2 th2 l h2 ho
    by_cases ht : t2 = t
    · subst ht; rw [hself] at h2; cases h2
      exact ⟨(hown' l ho).1, (hown' l ho).2.1⟩
    · rw [hother t2 ht] at h2
      have hold := hi.owned t2 th2 l h2 ho
      refine ⟨Nat.lt_of_lt_of_le hold.1 hsize, fun hin => ?_⟩
      rcases (hfree l hin).1 with h | h
      · exact hold.2 h
      · exact hi.excl t t2 th th2 l (Ne.symm ht) hget h2 h ho
  · intro t1 t2 th1 th2 l hne h1 h2 ho1 ho2
    -- at most one of the two is the thread that moved
    by_cases e1 : t1 = t
    · subst e1; rw [hself] at h1; cases h1
      have ht2 : t2 ≠ t1 := Ne.symm hne
      rw [hother t2 ht2] at h2
      have hold := hi.owned t2 th2 l h2 ho2
      rcases (hown' l ho1).2.2 with h | h | h
      · exact hi.excl t1 t2 th th2 l hne hget h2 h ho2
      · exact hold.2 h
      · omega
    · rw [hother t1 e1] at h1
      by_cases e2 : t2 = t
      · subst e2; rw [hself] at h2; cases h2
        have hold := hi.owned t1 th1 l h1 ho1
        rcases (hown' l ho2).2.2 with h | h | h
        · exact hi.excl t2 t1 th th1 l (Ne.symm hne) hget h1 h ho1
        · exact hold.2 h
        · omega
      · rw [hother t2 e2] at h2
        exact hi.excl t1 t2 th1 th2 l hne h1 h2 ho1 ho2

/-- **one atomic step of any thread keeps the invariant** -/
theorem step_sinv (s : Sys) (hi : SInv s) (t : Nat) : SInv (s.step t) := by
  unfold Sys.step
  split
  · -- Get + Reset
    rename_i todo hget
    split
    · rename_i l rest hfree
      have hl := hi.freeValid l (by simp [hfree])
      have hnd := hi.freeNodup
      rw [hfree, List.nodup_cons] at hnd
      refine step_frame s hi t (.idle todo) _ _ _ hget (by rw [size_write]; exact Nat.le_refl _) ?_ ?_ ?_ ?_ hnd.2
      · simp only [ThOK, Heap.read, Heap.write]
        simp [List.getD_eq_getElem?_getD, List.getElem?_set, hl]
      · intro l' ho
        simp only [own, Option.some.injEq] at ho
        subst ho
        exact ⟨by rw [size_write]; exact hl, hnd.1, Or.inr (Or.inl (by simp [hfree]))⟩
      · intro l' _ _ hnf
        apply read_write_ne
        intro e; subst e; exact hnf (by simp [hfree])
      · intro l' hl'
        exact ⟨Or.inl (by simp [hfree, hl']), by rw [size_write]; exact hi.freeValid l' (by simp [hfree, hl'])⟩
    · rename_i hfree
      refine step_frame s hi t (.idle todo) _ _ _ hget (by rw [lit_size]; omega) ?_ ?_ ?_ ?_ (by simp)
      · simp only [ThOK]; rw [lit_read_new]; rfl
      · intro l' ho
        simp only [own, Option.some.injEq] at ho
        subst ho
        exact ⟨by rw [lit_size]; omega, by simp, Or.inr (Or.inr (Nat.le_refl _))⟩
      · intro l' hl' _ _
        exact lit_read_old _ _ _ hl'
      · intro l' hl'; simp at hl'
  · -- append one octet to the held buffer
    rename_i b x rest all hget
    have hc := hi.content t _ hget
    have ho := hi.owned t _ b hget rfl
    refine step_frame s hi t (.writing b (x :: rest) all) _ _ _ hget (by rw [size_write]; exact Nat.le_refl _) ?_ ?_ ?_ ?_ hi.freeNodup
    · simp only [ThOK] at hc ⊢
      simp only [Heap.read, Heap.write, List.getD_eq_getElem?_getD, List.getElem?_set, ho.1, if_true]
      simp only [Heap.read, List.getD_eq_getElem?_getD] at hc
      simpa using hc
    · intro l' ho'
      simp only [own, Option.some.injEq] at ho'
      subst ho'
      exact ⟨by rw [size_write]; exact ho.1, ho.2, Or.inl rfl⟩
    · intro l' _ hno _
      apply read_write_ne
      intro e; subst e; exact hno rfl
    · intro l' hl'
      exact ⟨Or.inl hl', by rw [size_write]; exact hi.freeValid l' hl'⟩
  · -- copy-out, then Put
    rename_i b all hget
    have hc := hi.content t _ hget
    have ho := hi.owned t _ b hget rfl
    refine step_frame s hi t (.writing b [] all) _ _ _ hget (by rw [lit_size]; omega) ?_ ?_ ?_ ?_ ?_
    · simp only [ThOK] at hc ⊢
      rw [lit_read_new]; simpa using hc
    · intro l' ho'
      simp only [own, Option.some.injEq] at ho'
      subst ho'
      refine ⟨by rw [lit_size]; omega, ?_, Or.inr (Or.inr (Nat.le_refl _))⟩
      simp only [List.mem_cons, not_or]
      exact ⟨by omega, fun h => by have := hi.freeValid _ h; omega⟩
    · intro l' hl' _ _
      exact lit_read_old _ _ _ hl'
    · intro l' hl'
      simp only [List.mem_cons] at hl'
      rcases hl' with rfl | hl'
      · exact ⟨Or.inr rfl, by rw [lit_size]; omega⟩
      · exact ⟨Or.inl hl', by rw [lit_size]; have := hi.freeValid l' hl'; omega⟩
    · rw [List.nodup_cons]; exact ⟨ho.2, hi.freeNodup⟩
  · exact hi

theorem run_sinv (sched : List Nat) : ∀ (s : Sys), SInv s → SInv (s.run sched) := by
  induction sched with
  | nil => intro s h; exact h
  | cons t ts ih => intro s h; exact ih _ (step_sinv s h t)

/-- a step never changes which payload a thread works on, nor the number of threads -/
theorem step_payload (s : Sys) (t : Nat) :
    (s.step t).ths.map payload = s.ths.map payload := by
  unfold Sys.step
  have key : ∀ (th th' : Th) (heap' : Heap) (free' : List Nat), s.ths[t]? = some th → payload th' = payload th →
      ({ heap := heap', free := free', ths := s.ths.set t th' } : Sys).ths.map payload = s.ths.map payload := by
    intro th th' _ _ hget hp
    apply List.ext_getElem?
    intro i
    simp only [List.getElem?_map, List.getElem?_set]
    by_cases e : t = i
    · subst e
      have : t < s.ths.length := by
        rcases Nat.lt_or_ge t s.ths.length with h' | h'
        · exact h'
        · rw [List.getElem?_eq_none h'] at hget; cases hget
      have hg : s.ths[t] = th := by
        have := List.getElem?_eq_getElem this
        rw [this] at hget; exact Option.some.inj hget
      simp [this, hg, hp]
    · simp [e]
  split
  · rename_i todo hget
    split <;> exact key _ _ _ _ hget rfl
  · rename_i b x rest all hget; exact key _ _ _ _ hget rfl
  · rename_i b all hget; exact key _ _ _ _ hget rfl
  · rfl

theorem run_payload (sched : List Nat) : ∀ (s : Sys), (s.run sched).ths.map payload = s.ths.map payload := by
  induction sched with
  | nil => intro s; rfl
  | cons t ts ih => intro s; rw [show s.run (t :: ts) = (s.step t).run ts from rfl, ih, step_payload]

/-- **C13_concurrent_equals_sequential**: for every number of goroutines, every payload and every
    schedule, a goroutine that has finished holds exactly the octets it was asked to encode — the
    result of running it alone — and while it is still running its buffer holds exactly the octets
    it has written so far. -/
theorem C13_concurrent_equals_sequential (todos : List Bytes) (sched : List Nat) (t : Nat) (th : Th)
    (h : ((Sys.run { ths := todos.map .idle } sched).ths)[t]? = some th) :
    todos[t]? = some (payload th) ∧
    match th with
    | .done l _ => (Sys.run { ths := todos.map .idle } sched).heap.read l = payload th
    | .writing b rest _ => (Sys.run { ths := todos.map .idle } sched).heap.read b ++ rest = payload th
    | .idle _ => True := by
  have hinv := run_sinv sched _ (sinv_init todos)
  have hpay := run_payload sched { ths := todos.map .idle }
  constructor
  · have := congrArg (·[t]?) hpay
    simp only [List.getElem?_map, h, Option.map_some] at this
    cases hq : todos[t]? with
    | none => simp [hq] at this
    | some b =>
      rw [hq] at this
      simp only [Option.map_some] at this
      have e : payload th = b := Option.some.inj this
      rw [e]
  · have := hinv.content t th h
    cases th <;> simpa [ThOK, payload] using this

/-- **C13_buffers_exclusive**: under every schedule two goroutines never hold the same buffer, and a
    held buffer or a returned result is never in the pool (no shared mutable storage: race-free at
    the granularity of the model) -/
theorem C13_buffers_exclusive (todos : List Bytes) (sched : List Nat) (t1 t2 : Nat) (th1 th2 : Th) (l : Nat)
    (hne : t1 ≠ t2)
    (h1 : ((Sys.run { ths := todos.map .idle } sched).ths)[t1]? = some th1)
    (h2 : ((Sys.run { ths := todos.map .idle } sched).ths)[t2]? = some th2)
    (ho : own th1 = some l) :
    own th2 ≠ some l ∧ l ∉ (Sys.run { ths := todos.map .idle } sched).free := by
  have hinv := run_sinv sched _ (sinv_init todos)
  exact ⟨hinv.excl t1 t2 th1 th2 l hne h1 h2 ho, (hinv.owned t1 th1 l h1 ho).2⟩

/-! ### the code follows the hand-off protocol of the model (regenerated facts) -/

/-- every pooled writer / reader / stringer the library acquires (172 sites at the pinned commit) is
    used by one function activation only: never returned, aliased, stored or captured by a closure
    or a go statement; released at most once, and only by a deferred call (so never before a use) -/
theorem C13_pool_discipline :
    Gen.poolUses.all (fun u => !u.escapes && u.directReleases == 0 && decide (u.deferredReleases ≤ 1)) = true := by
  decide +kernel

/-- objects are handed back to a pool only by the four release functions, once each: no other
    function (an error path, say) returns a buffer that a deferred Release will return again -/
theorem C13_put_sites : Gen.poolPuts =
    [("logger.(*systemLogger).addPrefix", "(*sync.Pool).Put"),
     ("packet.(*Writer).Release", "github.com/valyala/bytebufferpool.Put"),
     ("cmpp.Utf8ToUcs2Pooled", "(*github.com/valyala/bytebufferpool.Pool).Put"),
     ("packet.restoreStringBuilder", "(*sync.Pool).Put")] := by decide +kernel

/-- the copy-out step of the model: `Writer.Bytes` and `Writer.BytesWithLength` return a slice made
    in the call and filled by `copy`, never the pooled buffer -/
theorem C13_copy_out : Gen.copyOuts = [("packet.(*Writer).Bytes", true), ("packet.(*Writer).BytesWithLength", true)] := by
  decide +kernel

/-- **C13_shared_state** (regenerated from the syntax and types of the working tree, `go/extract/globals.go`):
    the only package-level variables any function outside `init` can write — by assignment to or
    through them, `++`, `&v`, a pointer-receiver method, `copy`/`delete`, an alias, or by handing a
    table to foreign code — are the three configuration variables of the logger package, written by
    their setters (set-up API, not one of the calls the property quantifies over); and the only
    self-synchronising shared objects are the three pools.  Every other package-level variable is
    therefore read-only after initialisation: the threads of the model share the pool and nothing
    else.  A lookup table grown on demand, a cache or a counter changes `globalWrites`. -/
theorem C13_shared_state :
    Gen.globalWrites = [("logger.logger", "logger.SetLogger", "assign"),
                        ("logger.silentMode", "logger.SetSilentMode", "assign"),
                        ("logger.sysLogger", "logger.SetSystemLogger", "assign")] ∧
    (Gen.packageVars.filter (fun v => v.2.1 == "pool")).map (·.1)
      = ["cmpp.ucs2BytesBufferPool", "logger.builderPool", "packet.stringBuilderPool"] := by
  decide

/-! ### teeth: returning the buffer before copying out breaks it -/

def runEarly (s : Sys) (sched : List Nat) : Sys := sched.foldl Sys.stepEarlyPut s

/-- two goroutines, the first finishes and (wrongly) returns a view of the buffer it has already put
    back; the second takes that buffer and overwrites it: the first result is no longer its own octets -/
example :
    let s := runEarly { ths := [.idle [1, 2], .idle [9, 9]] } [0, 0, 0, 0, 1, 1, 1, 1]
    s.ths.map (fun th => match th with | .done l all => (s.heap.read l, all) | _ => ([], [])) =
      [([9, 9], [1, 2]), ([9, 9], [9, 9])] := by decide

/-- the same schedule in the model of the code -/
example :
    let s := Sys.run { ths := [.idle [1, 2], .idle [9, 9]] } [0, 0, 0, 0, 1, 1, 1, 1]
    s.ths.map (fun th => match th with | .done l all => (s.heap.read l, all) | _ => ([], [])) =
      [([1, 2], [1, 2]), ([9, 9], [9, 9])] := by decide

end SmsVerif.C13

#print axioms SmsVerif.C13.C13_concurrent_equals_sequential
#print axioms SmsVerif.C13.C13_buffers_exclusive
#print axioms SmsVerif.C13.step_sinv
#print axioms SmsVerif.C13.C13_pool_discipline
#print axioms SmsVerif.C13.C13_put_sites
#print axioms SmsVerif.C13.C13_copy_out
#print axioms SmsVerif.C13.C13_shared_state
