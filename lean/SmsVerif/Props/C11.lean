/-
  C11 — decode → encode → decode is stable; canonical images re-encode bit for bit.

  Proved here from the reflective round-trip theorem (C01): whenever what a decoder returned fits
  the wire format (after the encoder's own normalisation), it re-encodes without error and decoding
  the re-encoded bytes gives back every field unchanged except the fields the encoder normalises,
  which are shown (per run, on the regenerated layouts) to be only the header length and the two
  documented defaults.  `decode_fits` (Lemmas/DecodedFits.lean) shows that whatever a decoder
  accepts does fit, so `C11_accepted_reencodes` states the property for arbitrary accepted octet
  strings: junk after NULs, inconsistent but parseable counts, duplicate optional tags, extreme
  values, maximum-length optional values are all just octet strings here.  Not covered by the
  theorem (explored on the implementation): the two SMGP types of the open finding.
-/
import SmsVerif.Props.C01
import SmsVerif.Props.C02
import SmsVerif.Lemmas.DecodedFits

namespace SmsVerif.C11
open SmsVerif SmsVerif.C01

def allTargets (its : List Item) : List String := its.flatMap Item.targets

/-- **stable (partial)** : a PDU value whose normal form fits re-encodes, and decoding the result
    gives the same value in every field that the encoder does not normalise -/
theorem C11_stable_partial (p : PduDesc) (hp : p ∈ Gen.allPdus) (hx : exceptions.contains p.name = false) :
    ∃ lf its, p.items = some (lf, its) ∧ ∀ dec : Rec,
      (∀ it ∈ its, it.Fits (norm its dec)) → (itemsBytes (norm its dec) its).length + 4 < 2 ^ 32 →
      ∃ bs dec2, (∃ r', p.encode dec = .ok (bs, r')) ∧ p.decode bs = .ok dec2 ∧
        ∀ ft ∈ p.fields, ft.1 ∉ allTargets its → ¬ (p.fin = .withLength ∧ ft.1 = lf) →
          dec2.get? ft.1 = dec.get? ft.1 := by
  obtain ⟨lf, its, hits, hrt⟩ := C01_roundtrip p hp hx
  refine ⟨lf, its, hits, fun dec hfit hsize => ?_⟩
  obtain ⟨bs, dec2, henc, hdec, hfields⟩ := hrt dec hfit hsize
  refine ⟨bs, dec2, ⟨_, henc⟩, hdec, fun ft hft hnt hnl => ?_⟩
  rw [hfields ft hft, if_neg hnl]
  -- normalisation leaves every non-target field alone
  have : ∀ (its' : List Item) (r : Rec), ft.1 ∉ allTargets its' → (norm its' r).get? ft.1 = r.get? ft.1 := by
    intro its' r h
    induction its' generalizing r with
    | nil => rfl
    | cons it rest ih =>
      simp only [allTargets, List.flatMap_cons, List.mem_append, not_or] at h
      cases it with
      | asg c as =>
        simp only [norm]
        rw [ih _ (by simpa [allTargets] using h.2)]
        exact applyAsg_get? c as r ft.1 (by simpa [Item.targets] using h.1)
      | _ => simp only [norm]; exact ih _ (by simpa [allTargets] using h.2)
  exact this its dec hnt

/-- what the encoders normalise, over all regenerated layouts: the hand-computed header length of
    the CMPP 2.0 types, the CMPP 2.0 submit part counters (0/0 → 1/1) and the SGIP user count -/
def normalisedFields (p : PduDesc) : List String :=
  match p.items with
  | some (_, its) => allTargets its
  | none => ["?"]

theorem C11_normalisations_are_documented :
    Gen.allPdus.all (fun p => (normalisedFields p).all fun f =>
      f == "Header.TotalLength" || (p.name == "cmpp20.PduSubmit" && (f == "PkTotal" || f == "PkNumber")) ||
      (p.name == "sgip12.Submit" && f == "UserCount")) = true := by decide

/-- **canonical images re-encode bit for bit** on the model: the image depends only on the fields the
    items read, so a decoded value that agrees with the normalised original on those fields — which
    is what C01 gives — produces the same octets -/
theorem C11_same_fields_same_bytes (its : List Item) (a b : Rec)
    (h : ∀ it ∈ its, AgreeOn it.mentions a b) : itemsBytes a its = itemsBytes b its := by
  induction its with
  | nil => rfl
  | cons it rest ih =>
    rw [itemsBytes_cons, itemsBytes_cons, it.bytes_congr (h it (by simp)),
      ih (fun x hx => h x (by simp [hx]))]

/-! ### arbitrary accepted octet strings -/

/-- PDU types outside `C11_accepted_reencodes`: the two SMGP types of the open finding -/
def notCovered : List String := exceptions

/-- per-run obligation: the static check of `decode_fits` accepts every other regenerated layout -/
theorem layouts_decoded_fit :
    (Gen.allPdus.filter (fun p => !notCovered.contains p.name)).all PduDesc.checkDecodedFits = true := by
  decide +kernel

/-- **C11_accepted_reencodes**: whatever octet string a decoder accepts, the decoded PDU re-encodes
    without error, and decoding the re-encoded octets gives the same PDU again in every field the
    encoder does not normalise (those are listed by `C11_normalisations_are_documented`); the header
    length field holds the size of the re-encoded image. -/
theorem C11_accepted_reencodes (p : PduDesc) (hp : p ∈ Gen.allPdus) (hx : notCovered.contains p.name = false)
    (data : Bytes) (hoct : ∀ x ∈ data, x < 256) (r : Rec) (hdec : p.decode data = .ok r) :
    ∃ lf its, p.items = some (lf, its) ∧
      ((itemsBytes (norm its r) its).length + 4 < 2 ^ 32 →
        ∃ bs r2, (∃ r', p.encode r = .ok (bs, r')) ∧ p.decode bs = .ok r2 ∧
          ∀ ft ∈ p.fields, ft.1 ∉ allTargets its → ¬ (p.fin = .withLength ∧ ft.1 = lf) →
            r2.get? ft.1 = r.get? ft.1) := by
  have hx1 : exceptions.contains p.name = false := hx
  have hchk := List.all_eq_true.1 layouts_decoded_fit p (List.mem_filter.2 ⟨hp, by rw [hx]; rfl⟩)
  obtain ⟨lf, its, hits, hfit, _⟩ := decode_fits p hchk data hoct r hdec
  obtain ⟨lf', its', hits', hst⟩ := C11_stable_partial p hp hx1
  rw [hits] at hits'
  simp only [Option.some.injEq, Prod.mk.injEq] at hits'
  obtain ⟨rfl, rfl⟩ := hits'
  exact ⟨lf, its, hits, fun hsz => hst r hfit hsz⟩

/-- **C11_reencoded_is_frame**: what a relay sends on is a frame — the re-encoded image of any accepted
    octet string is the reference serialisation of the document table for the decoded values, and
    (for every type that has a message header) its first four octets are its own length, so the
    framer at the next hop cuts exactly this image. -/
theorem C11_reencoded_is_frame (p : PduDesc) (hp : p ∈ Gen.allPdus) (hx : notCovered.contains p.name = false)
    (hd : C02.deviations.contains p.name = false)
    (data : Bytes) (hoct : ∀ x ∈ data, x < 256) (r : Rec) (hdec : p.decode data = .ok r) :
    ∃ s ∈ Spec.all, s.pdu = p.name ∧ ∃ bs r', p.encode r = .ok (bs, r') ∧
      (s.lenField.isSome = true → bs.take 4 = be 4 bs.length) := by
  have hchk := List.all_eq_true.1 layouts_decoded_fit p (List.mem_filter.2 ⟨hp, by rw [hx]; rfl⟩)
  obtain ⟨lf, its, hits, hfit, _⟩ := decode_fits p hchk data hoct r hdec
  obtain ⟨s, hs, hn, lf', its', hits', henc⟩ := C02.C02_bytes_are_spec p hp hd
  rw [hits] at hits'
  simp only [Option.some.injEq, Prod.mk.injEq] at hits'
  obtain ⟨rfl, rfl⟩ := hits'
  exact ⟨s, hs, hn, _, _, henc r hfit, fun hl => C02.C02_length_prefix s hl _⟩

/-- non-vacuity: a CMPP 3.0 deliver-response image with junk in every field is accepted, and the
    theorem's premises hold for it -/
example : (match Gen.cmpp30_DeliverResp.decode (be 4 24 ++ be 4 0x80000005 ++ be 4 7 ++ be 8 0x1122334455667788 ++ be 4 9) with
    | .ok _ => true | _ => false) = true := by decide +kernel

end SmsVerif.C11

section
open SmsVerif.C11
#print axioms C11_stable_partial
#print axioms C11_normalisations_are_documented
#print axioms C11_same_fields_same_bytes
#print axioms C11_accepted_reencodes
#print axioms C11_reencoded_is_frame
#print axioms layouts_decoded_fit
end
