/-
  C11 — decode → encode → decode is stable; canonical images re-encode bit for bit.

  Proved here from the reflective round-trip theorem (C01): whenever what a decoder returned fits
  the wire format (after the encoder's own normalisation), it re-encodes without error and decoding
  the re-encoded bytes gives back every field unchanged except the fields the encoder normalises,
  which are shown (per run, on the regenerated layouts) to be only the header length and the two
  documented defaults.  That a decoder's output *always* fits (`decoded_fits`) is not yet a theorem:
  it is checked on the implementation over mutated canonical images (partial).
-/
import SmsVerif.Props.C01

namespace SmsVerif.C11
open SmsVerif SmsVerif.C01

def allTargets (its : List Item) : List String := its.flatMap Item.targets

/-- **stable (partial)** : a PDU value whose normal form fits re-encodes, and decoding the result
    gives the same value in every field that the encoder does not normalise -/
theorem C11_stable_partial (p : PduDesc) (hp : p ∈ Gen.allPdus) (hx : exceptions.contains p.name = false) :
    ∃ lf its, p.items = some (lf, its) ∧ ∀ dec : Rec,
      (∀ it ∈ its, it.Fits (norm its dec)) → (itemsBytes (norm its dec) its).length + 4 < 2 ^ 32 →
      ∃ bs dec2, (∃ r', p.encode dec = .ok (bs, r')) ∧ p.decode bs = .ok dec2 ∧
        ∀ ft ∈ p.fields, ft.1 ∉ allTargets its → ¬ (p.fin = .withLength ∧ ft.1 = lf) →
          dec2.get? ft.1 = dec.get? ft.1 := by
  obtain ⟨lf, its, hits, hrt⟩ := C01_roundtrip p hp hx
  refine ⟨lf, its, hits, fun dec hfit hsize => ?_⟩
  obtain ⟨bs, dec2, henc, hdec, hfields⟩ := hrt dec hfit hsize
  refine ⟨bs, dec2, ⟨_, henc⟩, hdec, fun ft hft hnt hnl => ?_⟩
  rw [hfields ft hft, if_neg hnl]
  -- normalisation leaves every non-target field alone
  have : ∀ (its' : List Item) (r : Rec), ft.1 ∉ allTargets its' → (norm its' r).get? ft.1 = r.get? ft.1 := by
    intro its' r h
    induction its' generalizing r with
    | nil => rfl
    | cons it rest ih =>
      simp only [allTargets, List.flatMap_cons, List.mem_append, not_or] at h
      cases it with
      | asg c as =>
        simp only [norm]
        rw [ih _ (by simpa [allTargets] using h.2)]
        exact applyAsg_get? c as r ft.1 (by simpa [Item.targets] using h.1)
      | _ => simp only [norm]; exact ih _ (by simpa [allTargets] using h.2)
  exact this its dec hnt

/-- what the encoders normalise, over all regenerated layouts: the hand-computed header length of
    the CMPP 2.0 types, the CMPP 2.0 submit part counters (0/0 → 1/1) and the SGIP user count -/
def normalisedFields (p : PduDesc) : List String :=
  match p.items with
  | some (_, its) => allTargets its
  | none => ["?"]

theorem C11_normalisations_are_documented :
    Gen.allPdus.all (fun p => (normalisedFields p).all fun f =>
      f == "Header.TotalLength" || (p.name == "cmpp20.PduSubmit" && (f == "PkTotal" || f == "PkNumber")) ||
      (p.name == "sgip12.Submit" && f == "UserCount")) = true := by decide

/-- **canonical images re-encode bit for bit** on the model: the image depends only on the fields the
    items read, so a decoded value that agrees with the normalised original on those fields — which
    is what C01 gives — produces the same octets -/
theorem C11_same_fields_same_bytes (its : List Item) (a b : Rec)
    (h : ∀ it ∈ its, AgreeOn it.mentions a b) : itemsBytes a its = itemsBytes b its := by
  induction its with
  | nil => rfl
  | cons it rest ih =>
    rw [itemsBytes_cons, itemsBytes_cons, it.bytes_congr (h it (by simp)),
      ih (fun x hx => h x (by simp [hx]))]

end SmsVerif.C11

section
open SmsVerif.C11
#print axioms C11_stable_partial
#print axioms C11_normalisations_are_documented
#print axioms C11_same_fields_same_bytes
end
