/-
  C07 — every part fits one SMS and carries a correct, parseable concatenation header.
-/
import SmsVerif.Lemmas.Split
import SmsVerif.Lemmas.SplitCount
import SmsVerif.Props.C14
import SmsVerif.Gen.Tables

namespace SmsVerif.C07
open SmsVerif SmsVerif.Split

/-- **part_sizes** : every part of a split message is the 6-octet header followed by a non-empty
    payload of at most `per` units (134 octets → at most 140 octets per part; 153 septets). -/
theorem C07_part_sizes (bnd : Boundary) (d : List Nat) (per ref : Nat) (hper : 0 < per)
    (parts : List (List Nat)) (h : splitUnits bnd d per ref = .ok parts) :
    ∀ p ∈ parts, 6 < p.length ∧ p.length ≤ per + 6 := by
  unfold splitUnits at h
  dsimp only at h
  split at h
  · simp at h
  · simp only [Except.ok.injEq, List.map_id_fun, id] at h
    subst h
    have hp := cutPoints_partition bnd d per hper (d.length + 1) 0 (Nat.zero_le _) (by omega)
    have hs := slices_sizes d per 0 _ hp
    intro p hpm
    obtain ⟨k, hk, rfl⟩ := List.getElem_of_mem hpm
    have hlen : k < (slices d 0 (cutPoints bnd d per (d.length + 1) 0)).length := by
      simpa [withHeaders_length] using hk
    have hget := withHeaders_get ref (cutPoints bnd d per (d.length + 1) 0).length 0 _ k hlen
    rw [List.getElem?_eq_getElem hk] at hget
    simp only [Option.some.injEq] at hget
    rw [hget]
    have := hs _ (List.getElem_mem hlen)
    simp only [List.length_append, header, List.length_cons, List.length_nil]
    omega

/-- **header_fields** : part `k` (counting from 0) is `05 00 03 ref total k+1` followed by its
    payload, `total` being the number of parts, which is at most 255. -/
theorem C07_header_fields (bnd : Boundary) (d : List Nat) (per ref : Nat)
    (parts : List (List Nat)) (h : splitUnits bnd d per ref = .ok parts) :
    parts.length ≤ 255 ∧ ∀ k, k < parts.length →
      ∃ payload, parts[k]? = some ([0x05, 0x00, 0x03, ref % 256, parts.length % 256, (k + 1) % 256] ++ payload) := by
  unfold splitUnits at h
  dsimp only at h
  split at h
  · simp at h
  · rename_i hle
    simp only [Except.ok.injEq, List.map_id_fun, id] at h
    subst h
    simp only [withHeaders_length]
    have hl : (slices d 0 (cutPoints bnd d per (d.length + 1) 0)).length
        = (cutPoints bnd d per (d.length + 1) 0).length := by
      generalize cutPoints bnd d per (d.length + 1) 0 = cuts
      generalize 0 = b
      induction cuts generalizing b with
      | nil => rfl
      | cons e rest ih => simp [slices, ih]
    refine ⟨by omega, fun k hk => ?_⟩
    refine ⟨(slices d 0 (cutPoints bnd d per (d.length + 1) 0))[k], ?_⟩
    rw [withHeaders_get _ _ _ _ k hk]
    simp [header, hl]

/-- **too_many_parts_refused** : a message needing more than 255 parts is an error, never wrapped counters -/
theorem C07_too_many_parts_refused (bnd : Boundary) (d : List Nat) (per ref : Nat)
    (h : 255 < (cutPoints bnd d per (d.length + 1) 0).length) :
    splitUnits bnd d per ref = .error .tooManyParts := by
  simp [splitUnits, h]

/-- with the plain rule the number of parts is exactly ⌈n/per⌉ -/
theorem cutPoints_plain_length (d : List Nat) (per : Nat) (hper : 0 < per) (fuel b : Nat)
    (hb : b ≤ d.length) (hfuel : d.length - b < fuel) :
    (cutPoints noBoundary d per fuel b).length = (d.length - b + per - 1) / per := by
  induction fuel generalizing b with
  | zero => omega
  | succ fuel ih =>
    unfold cutPoints
    by_cases h1 : b ≥ d.length
    · have : d.length - b + per - 1 < per := by omega
      simp only [h1, if_true, List.length_nil]
      exact (Nat.div_eq_of_lt this).symm
    · simp only [h1, if_false]
      by_cases h2 : b + per ≥ d.length
      · simp only [h2, if_true, List.length_singleton]
        have h3 : per ≤ d.length - b + per - 1 := by omega
        have h4 : d.length - b + per - 1 < 2 * per := by omega
        have : (d.length - b + per - 1) / per = 1 := by
          apply Nat.div_eq_of_lt_le <;> omega
        omega
      · simp only [h2, if_false, noBoundary]
        have hc : b < b + per ∧ b + per ≤ b + per := by omega
        simp only [hc, and_self, if_true, List.length_cons]
        rw [ih (b + per) (by omega) (by omega)]
        have : d.length - b + per - 1 = (d.length - (b + per) + per - 1) + per := by omega
        rw [this, Nat.add_div_right _ hper]

/-! ### how many parts, for every content (Lemmas/SplitCount.lean)

The rules move a cut back by at most `s` units: 0 (plain), 1 (GSM escape), 2 (UCS-2 surrogate
pair), 3 (GB18030 four-octet character).  That alone bounds the number of parts from both sides
and fixes when the 255-part refusal can and cannot happen; in between the real cuts decide. -/

/-- **part_count_bounds** : ⌈n/per⌉ ≤ parts ≤ ⌈n/(per-s)⌉ for a rule backing up at most `s` units -/
theorem C07_part_count_bounds (bnd : Boundary) (d : List Nat) (per s : Nat) (hs : s < per)
    (hb : BacksUpAtMost bnd d per s) :
    d.length ≤ (cutPoints bnd d per (d.length + 1) 0).length * per ∧
    (cutPoints bnd d per (d.length + 1) 0).length * (per - s) < d.length + (per - s) := by
  constructor
  · have := partition_lower per d.length _ 0
      (cutPoints_partition bnd d per (by omega) (d.length + 1) 0 (Nat.zero_le _) (by omega))
    simpa using this
  · simpa using cutPoints_upper bnd d per s hs hb (d.length + 1) 0

/-- **accepted_when_short_parts_suffice** : a message that fits 255 parts even if every part is cut
    `s` units short is never refused -/
theorem C07_accepted_when_short_parts_suffice (bnd : Boundary) (d : List Nat) (per s ref : Nat) (hs : s < per)
    (hb : BacksUpAtMost bnd d per s) (hn : d.length ≤ 255 * (per - s)) :
    ∃ parts, splitUnits bnd d per ref = .ok parts := by
  have h := (C07_part_count_bounds bnd d per s hs hb).2
  have hk : (cutPoints bnd d per (d.length + 1) 0).length < 256 := by
    apply Nat.lt_of_mul_lt_mul_right (a := per - s)
    omega
  have : ¬ (cutPoints bnd d per (d.length + 1) 0).length > 255 := by omega
  simp [splitUnits, this]

/-- **refused_when_full_parts_do_not_suffice** : a message longer than 255 full parts is refused,
    whatever the rule does -/
theorem C07_refused_when_full_parts_do_not_suffice (bnd : Boundary) (d : List Nat) (per ref : Nat) (hper : 0 < per)
    (hn : 255 * per < d.length) : splitUnits bnd d per ref = .error .tooManyParts := by
  apply C07_too_many_parts_refused
  have := partition_lower per d.length _ 0
    (cutPoints_partition bnd d per hper (d.length + 1) 0 (Nat.zero_le _) (by omega))
  simp only [Nat.sub_zero] at this
  apply Nat.lt_of_mul_lt_mul_right (a := per)
  omega

/-- the four rules of `longsms.go` satisfy the hypothesis, for every content and capacity -/
theorem C07_rules_back_up (d : List Nat) (per : Nat) :
    BacksUpAtMost noBoundary d per 0 ∧ BacksUpAtMost gsmBoundary d per 1 ∧
    BacksUpAtMost ucs2Boundary d per 2 ∧ BacksUpAtMost gbBoundary d per 3 :=
  ⟨noBoundary_backs d per, gsmBoundary_backs d per, ucs2Boundary_backs d per, gbBoundary_backs d per⟩

/-- with the constants of the code: UCS-2 up to 255·132 octets, GB18030 up to 255·131, GSM 7-bit up to
    255·152 septets are always split; beyond 255·134 octets (255·153 septets) always refused -/
theorem C07_refusal_window_ucs2 (d : List Nat) (ref : Nat) :
    (d.length ≤ 33660 → ∃ parts, splitUnits ucs2Boundary d 134 ref = .ok parts) ∧
    (34170 < d.length → splitUnits ucs2Boundary d 134 ref = .error .tooManyParts) :=
  ⟨fun h => C07_accepted_when_short_parts_suffice _ d 134 2 ref (by omega) (ucs2Boundary_backs d 134) (by omega),
   fun h => C07_refused_when_full_parts_do_not_suffice _ d 134 ref (by omega) (by omega)⟩

/-- the same window for GB18030 (134 octets per part, a cut moves back at most 3 octets) and for
    GSM 7-bit (153 septets per part, at most 1) -/
theorem C07_refusal_window_gb18030 (d : List Nat) (ref : Nat) :
    (d.length ≤ 33405 → ∃ parts, splitUnits gbBoundary d 134 ref = .ok parts) ∧
    (34170 < d.length → splitUnits gbBoundary d 134 ref = .error .tooManyParts) :=
  ⟨fun h => C07_accepted_when_short_parts_suffice _ d 134 3 ref (by omega) (gbBoundary_backs d 134) (by omega),
   fun h => C07_refused_when_full_parts_do_not_suffice _ d 134 ref (by omega) (by omega)⟩

theorem C07_refusal_window_gsm (d : List Nat) (ref : Nat) :
    (d.length ≤ 38760 → ∃ parts, splitUnits gsmBoundary d 153 ref = .ok parts) ∧
    (39015 < d.length → splitUnits gsmBoundary d 153 ref = .error .tooManyParts) :=
  ⟨fun h => C07_accepted_when_short_parts_suffice _ d 153 1 ref (by omega) (gsmBoundary_backs d 153) (by omega),
   fun h => C07_refused_when_full_parts_do_not_suffice _ d 153 ref (by omega) (by omega)⟩

/-- the plain rule has no window: refused exactly beyond 255 full parts -/
theorem C07_refusal_plain (d : List Nat) (per ref : Nat) (hper : 0 < per) :
    (d.length ≤ 255 * per → ∃ parts, splitUnits noBoundary d per ref = .ok parts) ∧
    (255 * per < d.length → splitUnits noBoundary d per ref = .error .tooManyParts) :=
  ⟨fun h => C07_accepted_when_short_parts_suffice _ d per 0 ref hper (noBoundary_backs d per) (by simpa using h),
   fun h => C07_refused_when_full_parts_do_not_suffice _ d per ref hper h⟩

/-- the UCS-2 window with the capacity as the source spells it (`Gen.dc_SplitBy134`, regenerated on
    every run): if the constant changes, this obligation is re-proved against the new value or fails -/
theorem C07_refusal_window_ucs2_source (d : List Nat) (ref : Nat) :
    (d.length ≤ 255 * (Gen.dc_SplitBy134 - 2) → ∃ parts, splitUnits ucs2Boundary d Gen.dc_SplitBy134 ref = .ok parts) ∧
    (255 * Gen.dc_SplitBy134 < d.length → splitUnits ucs2Boundary d Gen.dc_SplitBy134 ref = .error .tooManyParts) := by
  have hc : 2 < Gen.dc_SplitBy134 := by decide
  exact ⟨fun h => C07_accepted_when_short_parts_suffice _ d _ 2 ref hc (ucs2Boundary_backs d _) h,
    fun h => C07_refused_when_full_parts_do_not_suffice _ d _ ref (by omega) h⟩

/-- inside the window the naive count ⌈n/per⌉ is not the number of parts: three surrogate pairs,
    capacity 6 → three parts, not two -/
example : (cutPoints ucs2Boundary [0xD8, 0, 0xDC, 0, 0xD8, 0, 0xDC, 0, 0xD8, 0, 0xDC, 0] 6 13 0).length = 3 := by decide

/-! ### the header parser, on arbitrary octets -/

/-- **parse_hdr6** -/
theorem C07_parse_hdr6 (r t s : Nat) (payload : List Nat) :
    parseLong (0x05 :: 0x00 :: 0x03 :: r :: t :: s :: payload) = ⟨r, t, s, payload, true⟩ := by
  simp [parseLong]

/-- **parse_hdr7** : the 16-bit reference is `hi * 256 + lo` -/
theorem C07_parse_hdr7 (hi lo t s : Nat) (payload : List Nat) :
    parseLong (0x06 :: 0x08 :: 0x04 :: hi :: lo :: t :: s :: payload) = ⟨hi * 256 + lo, t, s, payload, true⟩ := by
  simp [parseLong]

/-- what a produced part parses back to -/
theorem C07_parse_part (ref total seq : Nat) (payload : List Nat) :
    parseLong (header ref total seq ++ payload) = ⟨ref % 256, total % 256, seq % 256, payload, true⟩ := by
  simp [header, parseLong]

/-- **parse_other** : anything that does not start with one of the two headers is "not concatenated"
    and is returned unchanged -/
theorem C07_parse_other (c : List Nat)
    (h6 : ¬ (6 ≤ c.length ∧ c.take 3 = [0x05, 0x00, 0x03]))
    (h7 : ¬ (7 ≤ c.length ∧ c.take 3 = [0x06, 0x08, 0x04])) :
    parseLong c = ⟨0, 0, 0, c, false⟩ := by
  unfold parseLong
  split
  · rfl
  · rename_i hlen
    split
    · exfalso; apply h6; simp
    · exfalso; apply h7; simp
    · rfl

example : parseLong [6, 8, 4, 1, 2, 3, 1, 0x61] = ⟨258, 3, 1, [0x61], true⟩ := by decide

/-! ### no more parts than filling each part as far as whole characters allow

For each coding the cut the code chooses is the *last* character boundary within the capacity:
no boundary lies strictly between the cut and `begin + capacity` (proved in Props/C14.lean beside
the soundness of the rules; the plain rule cuts at the capacity itself). -/

theorem C07_parts_filled_plain (d : List Nat) (b per : Nat) : noBoundary d b (b + per) = b + per := rfl
theorem C07_parts_filled_gsm (chars : List (List Nat)) (hseg : C14.GsmSeg chars) (per b : Nat)
    (hlt : b + per < chars.flatten.length) (q : Nat)
    (h1 : gsmBoundary chars.flatten b (b + per) < q) (h2 : q ≤ b + per) : ¬ IsBoundary chars q :=
  C14.C07_filled_gsm chars hseg per b hlt q h1 h2

theorem C07_parts_filled_ucs2 (chars : List (List Nat)) (hseg : C14.UcsSeg chars) (per : Nat) (heven : per % 2 = 0)
    (b : Nat) (hb : IsBoundary chars b) (hlt : b + per < chars.flatten.length) (q : Nat)
    (h1 : ucs2Boundary chars.flatten b (b + per) < q) (h2 : q ≤ b + per) : ¬ IsBoundary chars q :=
  C14.C07_filled_ucs2 chars hseg per heven b hb hlt q h1 h2

theorem C07_parts_filled_gb18030 (chars : List (List Nat)) (hseg : C14.GbSeg chars) (per : Nat) (hper : 4 ≤ per)
    (b : Nat) (hb : IsBoundary chars b) (hlt : b + per < chars.flatten.length) (q : Nat)
    (h1 : gbBoundary chars.flatten b (b + per) < q) (h2 : q ≤ b + per) : ¬ IsBoundary chars q :=
  C14.C07_filled_gb18030 chars hseg per hper b hb hlt q h1 h2

/-- the same for the texts the modelled encoders accept: no segmentation hypothesis left -/
theorem C07_parts_filled_ucs2_text (text out : List Nat) (h : Text.encodeAll Text.utf16 text = some out)
    (per : Nat) (heven : per % 2 = 0) (b : Nat) (hb : IsBoundary (C14.codeChars Text.utf16 text) b)
    (hlt : b + per < out.length) (q : Nat) (h1 : ucs2Boundary out b (b + per) < q) (h2 : q ≤ b + per) :
    ¬ IsBoundary (C14.codeChars Text.utf16 text) q := by
  have hf := (C14.encodeAll_chars Text.utf16 text out h).1
  have := C14.C07_filled_ucs2 (C14.codeChars Text.utf16 text) (C14.utf16_chars_seg text out h) per heven b hb
  rw [hf] at this
  exact this hlt q h1 h2

theorem C07_parts_filled_gsm_text (text s : List Nat) (h : Gsm7.encode C08.T text = some s) (per b : Nat)
    (hlt : b + per < s.length) (q : Nat) (h1 : gsmBoundary s b (b + per) < q) (h2 : q ≤ b + per) :
    ¬ IsBoundary (C14.gsmChars C08.T text) q := by
  obtain ⟨hf, hseg⟩ := C14.gsm_encode_chars text s h
  have := C14.C07_filled_gsm (C14.gsmChars C08.T text) hseg per b
  rw [hf] at this
  exact this hlt q h1 h2


end SmsVerif.C07

section
open SmsVerif.C07
#print axioms C07_parts_filled_ucs2_text
#print axioms C07_parts_filled_gsm_text
#print axioms C07_part_sizes
#print axioms C07_header_fields
#print axioms C07_too_many_parts_refused
#print axioms cutPoints_plain_length
#print axioms C07_part_count_bounds
#print axioms C07_accepted_when_short_parts_suffice
#print axioms C07_refused_when_full_parts_do_not_suffice
#print axioms C07_rules_back_up
#print axioms C07_refusal_window_ucs2
#print axioms C07_refusal_window_gb18030
#print axioms C07_refusal_window_gsm
#print axioms C07_refusal_plain
#print axioms C07_refusal_window_ucs2_source
#print axioms C07_parse_hdr6
#print axioms C07_parse_hdr7
#print axioms C07_parse_part
#print axioms C07_parse_other
#print axioms C07_parts_filled_gsm
#print axioms C07_parts_filled_ucs2
#print axioms C07_parts_filled_gb18030
end
