/-
  C05 — text codings invert on their repertoire and refuse what they cannot represent.
  (partial: GB18030 is a golang.org/x/text table, covered by exhaustive per-scalar execution in the
  harness, not by the kernel; Windows-1252 is modelled by its code-page table.)
-/
import SmsVerif.Model.Text
import SmsVerif.Props.C08

namespace SmsVerif.C05
open SmsVerif SmsVerif.Text

/-- **string_roundtrip** (generic): if reading one scalar off its own code followed by anything
    gives back that scalar and the rest, then every text the encoder accepts decodes to itself. -/
theorem string_roundtrip (c : Coding)
    (h1 : ∀ s u rest, c.code s = some u → c.step (u ++ rest) = some (s, rest))
    (hne : ∀ s u, c.code s = some u → u ≠ [])
    (text out : List Nat) (h : encodeAll c text = some out) (fuel : Nat) (hf : text.length < fuel) :
    decodeAll c fuel out = some text := by
  induction text generalizing out fuel with
  | nil =>
    simp [encodeAll] at h; subst h
    cases fuel with
    | zero => omega
    | succ f => simp [decodeAll]
  | cons s rest ih =>
    simp only [encodeAll] at h
    cases hc : c.code s with
    | none => simp [hc] at h
    | some u =>
      simp only [hc, Option.map_eq_some_iff] at h
      obtain ⟨r, hr, rfl⟩ := h
      cases fuel with
      | zero => omega
      | succ f =>
        have hu := hne s u hc
        cases hur : u ++ r with
        | nil => simp at hur; exact absurd hur.1 hu
        | cons x xs =>
          rw [← hur]
          have : decodeAll c (f + 1) (u ++ r) = (match c.step (u ++ r) with
              | none => none
              | some (s, rest) => (decodeAll c f rest).map (s :: ·)) := by
            rw [hur]; rfl
          rw [this, h1 s u r hc]
          simp [ih r hr f (by simpa using hf)]

/-- **encode_refuses** (generic): one scalar outside the repertoire makes the whole encoding fail —
    never a replacement character, never a silent drop -/
theorem encode_refuses (c : Coding) (pre post : List Nat) (s : Nat) (h : c.code s = none) :
    encodeAll c (pre ++ s :: post) = none := by
  induction pre with
  | nil => simp [encodeAll, h]
  | cons x xs ih =>
    simp only [List.cons_append, encodeAll, ih]
    cases c.code x <;> simp

/-! ### Windows-1252 (`datacoding.Latin1`) -/

theorem lookupFrom_spec (t : List Nat) (s i j : Nat) (h : lookupFrom t s i = some j) :
    i ≤ j ∧ t[j - i]? = some s := by
  induction t generalizing i with
  | nil => simp [lookupFrom] at h
  | cons x xs ih =>
    simp only [lookupFrom] at h
    split at h
    · simp at h; subst h; simp [*]
    · obtain ⟨h1, h2⟩ := ih (i + 1) h
      refine ⟨by omega, ?_⟩
      have : j - i = (j - (i + 1)) + 1 := by omega
      rw [this]; simpa using h2

theorem lookupFrom_none (t : List Nat) (s i : Nat) (h : lookupFrom t s i = none) : s ∉ t := by
  induction t generalizing i with
  | nil => simp
  | cons x xs ih =>
    simp only [lookupFrom] at h
    split at h
    · simp at h
    · simp only [List.mem_cons, not_or]
      exact ⟨fun e => by simp_all, ih (i + 1) h⟩

/-- every Windows-1252 code is one octet, and reading it back gives the scalar -/
theorem win1252_step_code (s : Nat) (u rest : List Nat) (hc : win1252.code s = some u) :
    win1252.step (u ++ rest) = some (s, rest) := by
  simp only [win1252] at hc ⊢
  split at hc
  · rename_i h
    simp at hc; subst hc
    have : s < 256 := by omega
    have hd : win1252Dec s = s := by
      unfold win1252Dec
      rcases h with h | h
      · simp [h]
      · simp [h.1]
    simp [this, hd]
  · rename_i h
    split at hc
    · simp at hc
    simp only [Option.map_eq_some_iff] at hc
    obtain ⟨i, hi, rfl⟩ := hc
    obtain ⟨_, hget⟩ := lookupFrom_spec _ _ _ _ hi
    have hlt : i < 32 := by
      have := (List.getElem?_eq_some_iff.mp hget).1
      simpa [win1252Hi] using this
    have hd : win1252Dec (0x80 + i) = s := by
      unfold win1252Dec
      have h1 : ¬ (0x80 + i < 0x80 ∨ 0xA0 ≤ 0x80 + i) := by omega
      simp only [h1, if_false]
      have : 0x80 + i - 0x80 = i := by omega
      rw [this]
      simp only [Nat.sub_zero] at hget
      simp [List.getD, hget]
    have : 0x80 + i < 256 := by omega
    simp [this, hd]

/-- **latin1_roundtrip** : every text the Windows-1252 encoder accepts decodes to itself -/
theorem C05_latin1_roundtrip (text out : List Nat) (h : encodeAll win1252 text = some out) :
    decodeAll win1252 (text.length + 1) out = some text ∧ out.length = text.length := by
  refine ⟨string_roundtrip win1252 win1252_step_code ?_ text out h _ (by omega), ?_⟩
  · intro s u hc
    simp only [win1252] at hc
    split at hc
    · simp at hc; subst hc; simp
    · split at hc
      · simp at hc
      · simp only [Option.map_eq_some_iff] at hc
        obtain ⟨i, _, rfl⟩ := hc; simp
  · induction text generalizing out with
    | nil => simp [encodeAll] at h; subst h; rfl
    | cons s rest ih =>
      simp only [encodeAll] at h
      cases hc : win1252.code s with
      | none => simp [hc] at h
      | some u =>
        simp only [hc, Option.map_eq_some_iff] at h
        obtain ⟨r, hr, rfl⟩ := h
        have hu : u.length = 1 := by
          simp only [win1252] at hc
          split at hc
          · simp at hc; subst hc; rfl
          · split at hc
            · simp at hc
            · simp only [Option.map_eq_some_iff] at hc
              obtain ⟨i, _, rfl⟩ := hc; rfl
        simp [ih r hr, hu]; omega

/-- **latin1_refuses** : the repertoire is exactly U+0000..U+007F, U+00A0..U+00FF and the 27 defined
    table entries; anything else (U+0080, U+0081, U+0100, U+FFFD, a CJK ideograph, an emoji …) makes
    the encoding fail -/
theorem C05_latin1_refuses (pre post : List Nat) (s : Nat)
    (h1 : ¬ (s < 0x80 ∨ (0xA0 ≤ s ∧ s < 0x100))) (h2 : s ∉ win1252Hi ∨ s = 0xFFFD) :
    encodeAll win1252 (pre ++ s :: post) = none := by
  apply encode_refuses
  simp only [win1252, h1, if_false]
  split
  · rfl
  · rename_i hne
    rcases h2 with h2 | h2
    · simp only [Option.map_eq_none_iff]
      cases hl : lookupFrom win1252Hi s 0 with
      | none => rfl
      | some j => exact absurd (List.mem_of_getElem? (lookupFrom_spec _ _ _ _ hl).2) h2
    · exact absurd h2 hne

/-- the table has no duplicates and does not overlap the identity ranges: decoding is injective -/
theorem C05_latin1_table_injective :
    (win1252Hi.filter (· ≠ 0xFFFD)).Nodup ∧ (win1252Hi.filter (· ≠ 0xFFFD)).length = 27 ∧ win1252Hi.length = 32 ∧
      ∀ c ∈ win1252Hi, ¬ (c < 0x80 ∨ (0xA0 ≤ c ∧ c < 0x100)) := by
  decide

example : encodeAll win1252 [0x61, 0x20AC, 0xE9, 0x2122] = some [0x61, 0x80, 0xE9, 0x99] := by decide
example : encodeAll win1252 [0x61, 0x100] = none := by decide
example : encodeAll win1252 [0x80] = none ∧ encodeAll win1252 [0x81] = none ∧ encodeAll win1252 [0xFFFD] = none := by decide

/-! ### ASCII -/

theorem C05_ascii_roundtrip (text out : List Nat) (h : encodeAll ascii text = some out) :
    decodeAll ascii (text.length + 1) out = some text ∧ out = text := by
  refine ⟨string_roundtrip ascii ?_ ?_ text out h _ (by omega), ?_⟩
  · intro s u rest hc
    simp only [ascii] at hc ⊢
    split at hc <;> simp at hc
    subst hc; rename_i hs; simp [hs]
  · intro s u hc
    simp only [ascii] at hc
    split at hc <;> simp at hc
    subst hc; simp
  · induction text generalizing out with
    | nil => simp [encodeAll] at h; exact h
    | cons s rest ih =>
      simp only [encodeAll, ascii] at h
      split at h
      · simp at h
      · rename_i u hu
        split at hu <;> simp at hu
        subst hu
        simp only [Option.map_eq_some_iff] at h
        obtain ⟨r, hr, rfl⟩ := h
        simp [ih r hr]

theorem C05_ascii_refuses (pre post : List Nat) (s : Nat) (h : 128 ≤ s) :
    encodeAll ascii (pre ++ s :: post) = none :=
  encode_refuses ascii pre post s (by simp [ascii]; omega)

/-! ### UTF-16BE, surrogate pairs included -/

theorem utf16_step_code (s : Nat) (u rest : List Nat) (hc : utf16.code s = some u) :
    utf16.step (u ++ rest) = some (s, rest) := by
  simp only [utf16] at hc
  split at hc
  · simp at hc
  · rename_i hsc
    simp only [isScalar, Bool.or_eq_true, decide_eq_true_eq, Bool.and_eq_true, Bool.not_eq_true] at hsc
    have hsc' : s < 0xD800 ∨ (0xE000 ≤ s ∧ s < 0x110000) := by
      by_cases h : s < 0xD800
      · exact Or.inl h
      · right
        by_cases h2 : 0xE000 ≤ s ∧ s < 0x110000
        · exact h2
        · exfalso; apply hsc; simp [isScalar]; omega
    split at hc
    · rename_i hb
      simp at hc; subst hc
      simp only [utf16, List.cons_append, List.nil_append]
      have hw : s / 256 * 256 + s % 256 = s := by rw [Nat.mul_comm]; exact Nat.div_add_mod s 256
      rw [hw]
      have n1 : ¬ (0xD800 ≤ s ∧ s < 0xDC00) := by omega
      have n2 : ¬ (0xDC00 ≤ s ∧ s < 0xE000) := by omega
      simp [n1, n2]
    · rename_i hb
      simp at hc; subst hc
      simp only [utf16, List.cons_append, List.nil_append]
      have hs : 0x10000 ≤ s ∧ s < 0x110000 := by omega
      have hdm : ∀ x : Nat, x / 256 * 256 + x % 256 = x := fun x => by
        rw [Nat.mul_comm]; exact Nat.div_add_mod x 256
      have hw := hdm (0xD800 + (s - 0x10000) / 1024)
      have hw2 := hdm (0xDC00 + (s - 0x10000) % 1024)
      rw [hw, hw2]
      have p1 : 0xD800 ≤ 0xD800 + (s - 0x10000) / 1024 ∧ 0xD800 + (s - 0x10000) / 1024 < 0xDC00 := by omega
      have p2 : 0xDC00 ≤ 0xDC00 + (s - 0x10000) % 1024 ∧ 0xDC00 + (s - 0x10000) % 1024 < 0xE000 := by omega
      simp only [p1, p2, and_self, if_true]
      have e : 0x10000 + (0xD800 + (s - 0x10000) / 1024 - 0xD800) * 1024 + (0xDC00 + (s - 0x10000) % 1024 - 0xDC00) = s := by
        omega
      rw [e]

/-- **UTF-16 round trip** : every text of Unicode scalar values (astral planes included) encodes,
    and decodes back to itself -/
theorem C05_utf16_roundtrip (text : List Nat) (hs : ∀ c ∈ text, isScalar c = true) :
    ∃ out, encodeAll utf16 text = some out ∧ decodeAll utf16 (text.length + 1) out = some text := by
  have henc : ∃ out, encodeAll utf16 text = some out := by
    induction text with
    | nil => exact ⟨[], rfl⟩
    | cons s rest ih =>
      obtain ⟨o, ho⟩ := ih (fun c hc => hs c (by simp [hc]))
      have h1 := hs s (by simp)
      have hcode : ∃ u, utf16.code s = some u := by
        simp only [utf16, h1, not_true_eq_false, if_false]
        split <;> exact ⟨_, rfl⟩
      obtain ⟨u, hu⟩ := hcode
      exact ⟨u ++ o, by simp [encodeAll, hu, ho]⟩
  obtain ⟨out, ho⟩ := henc
  refine ⟨out, ho, string_roundtrip utf16 utf16_step_code ?_ text out ho _ (by omega)⟩
  intro s u hc
  simp only [utf16] at hc
  split at hc
  · simp at hc
  · split at hc <;> simp at hc <;> subst hc <;> simp

/-- a lone or misplaced surrogate is refused by the decoder, a surrogate code point by the encoder -/
theorem C05_utf16_refuses :
    (∀ s, isScalar s = false → utf16.code s = none) ∧
    (∀ a b rest, 0xDC00 ≤ a * 256 + b → a * 256 + b < 0xE000 → utf16.step (a :: b :: rest) = none) := by
  refine ⟨fun s h => by simp [utf16, h], fun a b rest h1 h2 => ?_⟩
  simp only [utf16]
  have n1 : ¬ (0xD800 ≤ a * 256 + b ∧ a * 256 + b < 0xDC00) := by omega
  simp [n1, h1, h2]

/-! ### GSM 7-bit (from C08) -/

theorem C05_gsm7_roundtrip (text s : List Nat) (h : Gsm7.encode C08.T text = some s) : Gsm7.decode C08.T s = some text :=
  C08.C08_encode_decode text s h

theorem C05_gsm7_refuses (pre post : List Nat) (c : Nat)
    (h1 : Gsm7.lookup C08.T.fwd c = none) (h2 : Gsm7.lookup C08.T.fwdEsc c = none) :
    Gsm7.encode C08.T (pre ++ c :: post) = none := C08.C08_encode_refuses pre post c h1 h2

/-- **GSM 7-bit, packed**: text → septets → `Pack` → `Unpack` → septets → text gives the text back,
    outside the two end-of-message situations in which packed octets do not determine the septet
    count (the carve-out of the property, stated exactly) -/
theorem C05_gsm7_packed_roundtrip (text s : List Nat) (h : Gsm7.encode C08.T text = some s)
    (ha : Gsm7.endsInLostAt s = false)
    (hcr : ¬ (s.length % 8 = 0 ∧ s.getLast? = some 0x0D)) :
    Gsm7.decode C08.T (Gsm7.unpackGo (Gsm7.packGo s)) = some text := by
  rw [Gsm7.unpackGo_packGo s (C08.C08_encode_range text s h) ha hcr]
  exact C08.C08_encode_decode text s h

/-! ### the protocol-level decoder selected by a data-coding number inverts the encoder -/

/-- the decoder chosen for the number that goes on the wire is the inverse of the encoder chosen for
    the library number (packed GSM 7-bit goes on the wire as 0 and is decoded as unpacked first —
    the carve-out of the property); unknown numbers are refused by both -/
theorem C05_selection_pairs :
    (∀ n, n < 256 → cmppDecoder n = cmppEncoder n) ∧
    (∀ n, n < 256 → n ≠ 99 → smppDecoder (smppWire n) = smppEncoder n) ∧
    smppDecoder (smppWire 99) = some .gsm7 ∧
    (∀ n, n < 256 → (cmppEncoder n).isSome = (n = 0 ∨ n = 8 ∨ n = 9 ∨ n = 15)) ∧
    (∀ n, n < 256 → (smppDecoder n).isSome = (n = 0 ∨ n = 1 ∨ n = 3 ∨ n = 8)) := by
  refine ⟨by decide +kernel, by decide +kernel, by decide +kernel, by decide +kernel, by decide +kernel⟩

example : encodeAll utf16 [0x61, 0x1F600, 0x4E2D] = some [0, 0x61, 0xD8, 0x3D, 0xDE, 0x00, 0x4E, 0x2D] := by decide

end SmsVerif.C05

section
open SmsVerif.C05
#print axioms string_roundtrip
#print axioms encode_refuses
#print axioms C05_ascii_roundtrip
#print axioms C05_ascii_refuses
#print axioms C05_utf16_roundtrip
#print axioms C05_utf16_refuses
#print axioms C05_latin1_roundtrip
#print axioms C05_latin1_refuses
#print axioms C05_latin1_table_injective
#print axioms C05_gsm7_roundtrip
#print axioms C05_gsm7_refuses
#print axioms C05_gsm7_packed_roundtrip
#print axioms C05_selection_pairs
end
