/-
  C09 — the batch encoder returns the cheapest usable coding, deterministically.
-/
import SmsVerif.Model.Batch
import SmsVerif.Gen.Tables

namespace SmsVerif.C09
open SmsVerif SmsVerif.Batch

/-- candidates of one request: pairwise different (parts, priority) keys — guaranteed when they
    are distinct codings of one protocol, because priorities are injective (below) -/
def DistinctKeys (s : List Cand) : Prop :=
  s.Pairwise fun a b => ¬ (a.parts = b.parts ∧ a.prio = b.prio)

/-- `m` is the cheapest element of `s` -/
def IsMin (s : List Cand) (m : Cand) : Prop := m ∈ s ∧ ∀ x ∈ s, x = m ∨ less m x

theorem less_asymm (a b : Cand) (h : less a b) : ¬ less b a := by
  unfold less at *; omega

theorem less_total (a b : Cand) (h : ¬ (a.parts = b.parts ∧ a.prio = b.prio)) : less a b ∨ less b a := by
  unfold less; omega

/-- the minimum is unique: it is a function of the candidate set -/
theorem isMin_unique (s : List Cand) (m m' : Cand) (h : IsMin s m) (h' : IsMin s m') : m = m' := by
  rcases h.2 m' h'.1 with e | l
  · exact e.symm
  · rcases h'.2 m h.1 with e | l'
    · exact e
    · exact absurd l' (less_asymm _ _ l)

/-- **pick_is_min** : whatever enumeration order the runtime chose and whatever permutation the
    sorting routine produced — as long as it honours `sort.Sort`'s contract (a permutation of its
    input, no later element `Less` than an earlier one) — the head is the cheapest usable candidate. -/
theorem C09_pick_is_min (usable out : List Cand) (hperm : out.Perm usable) (hd : DistinctKeys usable)
    (hsorted : out.Pairwise fun a b => ¬ less b a) (m : Cand) (hm : out.head? = some m) : IsMin usable m := by
  cases out with
  | nil => simp at hm
  | cons x rest =>
    simp at hm; subst hm
    refine ⟨hperm.mem_iff.1 (by simp), fun y hy => ?_⟩
    have hy' : y ∈ x :: rest := hperm.mem_iff.2 hy
    simp only [List.mem_cons] at hy'
    rcases hy' with rfl | hy'
    · exact Or.inl rfl
    · right
      have hnl : ¬ less y x := (List.pairwise_cons.1 hsorted).1 y hy'
      -- x and y have different keys because the candidates are distinct
      have hd' : (x :: rest).Pairwise fun a b => ¬ (a.parts = b.parts ∧ a.prio = b.prio) := by
        have hsymm : ∀ a b : Cand, ¬ (a.parts = b.parts ∧ a.prio = b.prio) → ¬ (b.parts = a.parts ∧ b.prio = a.prio) := by
          intro a b h ⟨h1, h2⟩; exact h ⟨h1.symm, h2.symm⟩
        exact hperm.symm.pairwise hd (fun {a b} h => hsymm a b h)
      have := (List.pairwise_cons.1 hd').1 y hy'
      rcases less_total x y this with h | h
      · exact h
      · exact absurd h hnl

/-- **order_independent / dup_independent** : two runs on the same candidate set, enumerated and
    sorted differently, return the same candidate -/
theorem C09_order_independent (usable out1 out2 : List Cand) (h1 : out1.Perm usable) (h2 : out2.Perm usable)
    (hd : DistinctKeys usable) (s1 : out1.Pairwise fun a b => ¬ less b a) (s2 : out2.Pairwise fun a b => ¬ less b a)
    (m1 m2 : Cand) (e1 : out1.head? = some m1) (e2 : out2.head? = some m2) : m1 = m2 :=
  isMin_unique usable m1 m2 (C09_pick_is_min usable out1 h1 hd s1 m1 e1) (C09_pick_is_min usable out2 h2 hd s2 m2 e2)

/-- the model's executable choice is that minimum -/
theorem pickMin_isMin (s : List Cand) (hd : DistinctKeys s) (m : Cand) (h : pickMin s = some m) : IsMin s m := by
  induction s generalizing m with
  | nil => simp [pickMin] at h
  | cons c rest ih =>
    have hd' := (List.pairwise_cons.1 hd)
    simp only [pickMin] at h
    cases hr : pickMin rest with
    | none =>
      simp [hr] at h; subst h
      have : rest = [] := by
        cases rest with
        | nil => rfl
        | cons x xs => simp [pickMin] at hr; split at hr <;> (try split at hr) <;> simp at hr
      subst this
      exact ⟨by simp, fun x hx => by simp at hx; exact Or.inl hx⟩
    | some mr =>
      have hmin := ih hd'.2 mr hr
      simp only [hr] at h
      split at h
      · rename_i hl
        simp at h; subst h
        refine ⟨by simp [hmin.1], fun x hx => ?_⟩
        simp only [List.mem_cons] at hx
        rcases hx with rfl | hx
        · exact Or.inr hl
        · exact hmin.2 x hx
      · rename_i hl
        have hcm' : c = m := by simpa using h
        subst hcm'
        have hk := hd'.1 mr hmin.1
        have hcm : less c mr := by
          rcases less_total c mr hk with h | h
          · exact h
          · exact absurd h hl
        refine ⟨by simp, fun x hx => ?_⟩
        simp only [List.mem_cons] at hx
        rcases hx with rfl | hx
        · exact Or.inl rfl
        · rcases hmin.2 x hx with rfl | hl2
          · exact Or.inr hcm
          · right
            unfold less at *; omega

/-- priorities are injective per protocol (regenerated tables): distinct codings never tie completely -/
def injective (t : List (Nat × Nat)) : Bool :=
  t.all fun a => t.all fun b => a.1 == b.1 || a.2 != b.2

theorem C09_priorities_injective :
    injective Gen.cmppDataCodingPriority = true ∧ injective Gen.smppDataCodingPriority = true ∧
    Gen.cmppDataCodingPriority.map (·.1) = [9, 8, 15, 0] ∧ Gen.smppDataCodingPriority.map (·.1) = [8, 0, 3, 1, 99] := by
  decide

/-- **fallback_ucs2 / error_iff** : the outcome is an error exactly when the request is empty, or
    nothing usable remains (`pickMin … = none`, i.e. the filtered list is empty) and there is no UCS-2
    fallback left to try -/
theorem pickMin_none (s : List Cand) : pickMin s = none ↔ s = [] := by
  cases s with
  | nil => simp [pickMin]
  | cons x xs =>
    simp only [pickMin]
    constructor
    · intro h; split at h <;> (try split at h) <;> simp at h
    · intro h; simp at h

theorem C09_error_iff (empty hasUcs2 fallbackOk : Bool) (cs : List Cand) :
    build empty hasUcs2 fallbackOk cs = .error ↔
      (empty = true ∨ (pickMin (cs.filter (·.can)) = none ∧ (hasUcs2 = true ∨ fallbackOk = false))) := by
  unfold build
  cases empty
  · cases hp : pickMin (cs.filter (·.can)) with
    | some c => simp
    | none => cases hasUcs2 <;> cases fallbackOk <;> simp
  · simp

theorem C09_fallback_ucs2 (hasUcs2 fallbackOk : Bool) (cs : List Cand) (h : cs.filter (·.can) = []) :
    build false hasUcs2 fallbackOk cs = (if !hasUcs2 && fallbackOk then .fallbackUcs2 else .error) := by
  simp [build, h, pickMin]

example : pickMin [⟨8, 2, true, 3⟩, ⟨0, 4, true, 2⟩, ⟨3, 8, true, 2⟩] = some ⟨0, 4, true, 2⟩ := by decide

end SmsVerif.C09

section
open SmsVerif.C09
#print axioms C09_pick_is_min
#print axioms C09_order_independent
#print axioms pickMin_isMin
#print axioms C09_priorities_injective
#print axioms pickMin_none
#print axioms C09_error_iff
#print axioms C09_fallback_ucs2
end
