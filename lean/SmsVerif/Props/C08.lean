/-
  C08 — GSM 7-bit alphabet and septet packing follow 3GPP TS 23.038.

  Alphabet tables: regenerated from the Go map literals (`Gen.gsm_*`), compared with the
  hand-transcribed specification tables (`Spec.gsm*`) by `decide`.  Packing: hand model
  `Gsm7.packGo` / `unpackGo` (tied to the code by correspondence) against the arithmetic
  specification `Gsm7.packSpec`.
-/
import SmsVerif.Model.Gsm7
import SmsVerif.Lemmas.Pack
import SmsVerif.Lemmas.Unpack
import SmsVerif.Spec.Gsm7
import SmsVerif.Gen.Tables

namespace SmsVerif.C08
open SmsVerif SmsVerif.Gsm7

def T : Tables := ⟨Gen.gsm_forwardLookup, Gen.gsm_forwardEscape, Gen.gsm_reverseLookup, Gen.gsm_reverseEscape⟩

def swap (l : List (Nat × Nat)) : List (Nat × Nat) := l.map fun kv => (kv.2, kv.1)

def keysNodup : List (Nat × Nat) → Bool
  | [] => true
  | (k, _) :: rest => !(rest.any (·.1 == k)) && keysNodup rest

/-- same finite map, irrespective of the order of the literal -/
def sameMap (a b : List (Nat × Nat)) : Bool :=
  a.length == b.length && keysNodup a && b.all fun kv => lookup a kv.1 == some kv.2

/-- **alphabet = TS 23.038** : the four tables of the code are exactly the default alphabet, the
    extension table and their inverses. -/
theorem C08_tables_match_spec :
    sameMap T.rev Spec.gsmDefault = true ∧ sameMap T.revEsc Spec.gsmExtension = true ∧
    sameMap T.fwd (swap Spec.gsmDefault) = true ∧ sameMap T.fwdEsc (swap Spec.gsmExtension) = true ∧
    Gen.gsm_escape = 0x1B := by decide +kernel

theorem lookup_some_mem {tbl : List (Nat × Nat)} {k v : Nat} (h : lookup tbl k = some v) : (k, v) ∈ tbl := by
  induction tbl with
  | nil => simp [lookup] at h
  | cons kv rest ih =>
    obtain ⟨a, b⟩ := kv
    simp only [lookup] at h
    split at h
    · rename_i hk; simp at h; subst hk; subst h; simp
    · simp [ih h]

/-- table facts, checked over the finite tables -/
theorem fwd_facts : ∀ kv ∈ T.fwd, kv.2 ≠ esc ∧ kv.2 < 128 ∧ lookup T.rev kv.2 = some kv.1 := by decide +kernel
theorem fwdEsc_facts : ∀ kv ∈ T.fwdEsc, kv.2 < 128 ∧ lookup T.revEsc kv.2 = some kv.1 := by decide +kernel
theorem rev_facts : ∀ kv ∈ T.rev, kv.1 < 128 ∧ kv.1 ≠ esc ∧ lookup T.fwd kv.2 = some kv.1 := by decide +kernel
theorem revEsc_facts : ∀ kv ∈ T.revEsc, kv.1 < 128 ∧ lookup T.fwd kv.2 = none ∧ lookup T.fwdEsc kv.2 = some kv.1 := by decide +kernel

theorem decode_cons_ne (t : Tables) (b : Nat) (bs : List Nat) (h : b ≠ esc) :
    decode t (b :: bs) = match lookup t.rev b with
      | some r => (decode t bs).map (r :: ·)
      | none => none := by
  rw [decode.eq_def]; simp only [h, if_false]; cases lookup t.rev b <;> rfl

theorem decode_esc (t : Tables) (e : Nat) (rest : List Nat) :
    decode t (esc :: e :: rest) = match lookup t.revEsc e with
      | some r => (decode t rest).map (r :: ·)
      | none => none := by
  rw [decode.eq_def]; simp only [if_true]; cases lookup t.revEsc e <;> rfl

/-- **encode_decode** : every text the encoder accepts decodes back to exactly itself. -/
theorem C08_encode_decode (text : List Nat) (s : List Nat) (h : encode T text = some s) : decode T s = some text := by
  induction text generalizing s with
  | nil => simp [encode] at h; subst h; simp [decode]
  | cons c cs ih =>
    simp only [encode] at h
    cases hf : lookup T.fwd c with
    | some v =>
      simp only [hf, Option.map_eq_some_iff] at h
      obtain ⟨r, hr, rfl⟩ := h
      obtain ⟨hne, _, hrev⟩ := fwd_facts (c, v) (lookup_some_mem hf)
      rw [decode_cons_ne T v r hne]
      simp [hrev, ih r hr]
    | none =>
      simp only [hf] at h
      cases he : lookup T.fwdEsc c with
      | some v =>
        simp only [he, Option.map_eq_some_iff] at h
        obtain ⟨r, hr, rfl⟩ := h
        obtain ⟨_, hrev⟩ := fwdEsc_facts (c, v) (lookup_some_mem he)
        rw [decode_esc]
        simp [hrev, ih r hr]
      | none => simp [he] at h

/-- encoded septets are 7-bit values -/
theorem C08_encode_range (text s : List Nat) (h : encode T text = some s) : ∀ b ∈ s, b < 128 := by
  induction text generalizing s with
  | nil => simp [encode] at h; subst h; simp
  | cons c cs ih =>
    simp only [encode] at h
    cases hf : lookup T.fwd c with
    | some v =>
      simp only [hf, Option.map_eq_some_iff] at h
      obtain ⟨r, hr, rfl⟩ := h
      have := (fwd_facts (c, v) (lookup_some_mem hf)).2.1
      intro b hb
      simp only [List.mem_cons] at hb
      rcases hb with rfl | hb
      · exact this
      · exact ih r hr b hb
    | none =>
      simp only [hf] at h
      cases he : lookup T.fwdEsc c with
      | some v =>
        simp only [he, Option.map_eq_some_iff] at h
        obtain ⟨r, hr, rfl⟩ := h
        have := (fwdEsc_facts (c, v) (lookup_some_mem he)).1
        intro b hb
        simp only [List.mem_cons] at hb
        rcases hb with rfl | rfl | hb
        · decide
        · exact this
        · exact ih r hr b hb
      | none => simp [he] at h

/-- **encode_refuses** : a character outside the repertoire makes encoding fail — it is never
    replaced or dropped. -/
theorem C08_encode_refuses (pre post : List Nat) (c : Nat)
    (h1 : lookup T.fwd c = none) (h2 : lookup T.fwdEsc c = none) : encode T (pre ++ c :: post) = none := by
  induction pre with
  | nil => simp [encode, h1, h2]
  | cons x xs ih =>
    simp only [List.cons_append, encode, ih]
    cases lookup T.fwd x <;> cases lookup T.fwdEsc x <;> simp

/-- the validators agree with encodability -/
theorem C08_validators_agree (text : List Nat) :
    validText T text = (encode T text).isSome ∧ (invalidChars T text = [] ↔ validText T text = true) := by
  constructor
  · induction text with
    | nil => simp [validText, encode]
    | cons c cs ih =>
      simp only [validText, List.all_cons] at ih ⊢
      simp only [encode]
      cases lookup T.fwd c <;> cases lookup T.fwdEsc c <;> simp [ih, Option.isSome_map]
  · simp only [invalidChars, validText, List.filter_eq_nil_iff, List.all_eq_true]
    constructor
    · intro h c hc
      have := h c hc
      cases h1 : lookup T.fwd c <;> cases h2 : lookup T.fwdEsc c <;> simp_all
    · intro h c hc
      have := h c hc
      cases h1 : lookup T.fwd c <;> cases h2 : lookup T.fwdEsc c <;> simp_all

/-- **decode_rejects** : a lone escape, an escape followed by a septet that is not in the extension
    table, and any value outside 0..0x7F are refused. -/
theorem C08_decode_rejects :
    decode T [esc] = none ∧
    (∀ e rest, lookup T.revEsc e = none → decode T (esc :: e :: rest) = none) ∧
    (∀ b rest, 128 ≤ b → decode T (b :: rest) = none) := by
  refine ⟨by decide, ?_, ?_⟩
  · intro e rest h; rw [decode_esc]; simp [h]
  · intro b rest hb
    have hne : b ≠ esc := by unfold esc; omega
    have hnone : lookup T.rev b = none := by
      cases h : lookup T.rev b with
      | none => rfl
      | some v => have := (rev_facts (b, v) (lookup_some_mem h)).1; simp at this; omega
    rw [decode_cons_ne T b rest hne]
    simp [hnone]

/-- every septet value 0..0x7F except ESC is a character, and exactly ten escapes are -/
theorem C08_alphabet_complete :
    (∀ b, b < 128 → b ≠ esc → (lookup T.rev b).isSome = true) ∧ T.revEsc.length = 10 ∧ T.rev.length = 127 := by
  refine ⟨by decide +kernel, by decide +kernel, by decide +kernel⟩

/-! ### packing -/

theorem packBlocks_length (s : List Nat) : (packBlocks s).length = (7 * s.length + 7) / 8 := by
  fun_induction packBlocks s with
  | case1 s0 s1 s2 s3 s4 s5 s6 s7 rest ih => simp [ih]; omega
  | case2 => simp
  | case3 => simp
  | case4 => simp
  | case5 => simp
  | case6 => simp
  | case7 => simp
  | case8 => simp
  | case9 => simp

theorem setLast_length (bs : Bytes) (f : Nat → Nat) : (setLast bs f).length = bs.length := by
  unfold setLast
  cases h : bs.reverse with
  | nil => simp at h; simp [h]
  | cons x xs =>
    have := congrArg List.length h
    simp at this ⊢; omega

/-- **pack_length** : n septets pack into ⌈7n/8⌉ octets. -/
theorem C08_pack_length (s : List Nat) : (packGo s).length = (7 * s.length + 7) / 8 := by
  unfold packGo
  split
  · rw [setLast_length, packBlocks_length]
  · exact packBlocks_length s

/-- the specification packer has the same length by construction -/
theorem octetsLE_length (k n : Nat) : (octetsLE k n).length = k := by
  induction k generalizing n with
  | zero => rfl
  | succ k ih => simp [octetsLE, ih]

theorem C08_packSpec_length (s : List Nat) : (packSpec s).length = (7 * s.length + 7) / 8 := by
  simp [packSpec, octetsLE_length]

/-! ### non-vacuity / sanity on concrete values (tests, labelled as such) -/

example : encode T [49, 50, 64, 91, 8364] = some [0x31, 0x32, 0x00, 0x1B, 0x3C, 0x1B, 0x65] := by decide
/-- **Unpack ∘ Pack** for the library's own unpacker, which is not told the septet count: the
    septets come back, except in exactly the two situations in which the packed octets do not
    determine how many septets there are -/
theorem C08_unpack_pack (s : List Nat) (h : ∀ x ∈ s, x < 128) (ha : endsInLostAt s = false)
    (hcr : ¬ (s.length % 8 = 0 ∧ s.getLast? = some 0x0D)) : unpackGo (packGo s) = s :=
  unpackGo_packGo s h ha hcr

/-- the two carve-outs are real: a message of eight septets ending in `@` after a septet below 64
    loses the `@`; one ending in CR loses the CR -/
example : unpackGo (packGo [1, 2, 3, 4, 5, 6, 7, 0]) = [1, 2, 3, 4, 5, 6, 7] := by decide
example : unpackGo (packGo [1, 2, 3, 4, 5, 6, 7, 0x0D]) = [1, 2, 3, 4, 5, 6, 7] := by decide
/-- … and `@` after a septet of 64 or more survives -/
example : unpackGo (packGo [1, 2, 3, 4, 5, 6, 64, 0]) = [1, 2, 3, 4, 5, 6, 64, 0] := by decide

example : packGo [0x31, 0x32, 0x33, 0x34, 0x35, 0x36, 0x37] = packSpec [0x31, 0x32, 0x33, 0x34, 0x35, 0x36, 0x37] := by decide
example : unpackGo (packGo [0x31, 0x32, 0x33, 0x34, 0x35, 0x36, 0x37, 0x00, 0x61]) = [0x31, 0x32, 0x33, 0x34, 0x35, 0x36, 0x37, 0x00, 0x61] := by decide

/-- **pack = TS 23.038 bit stream**: for every septet string the block algorithm of
    `gsm7encoding.Pack` (masks, shifts and ors on bytes) yields exactly the specified octets: septet
    `i` in bits `7i..7i+6` of the little-endian stream, ⌈7n/8⌉ octets, zero fill, CR in the seven
    spare bits when n ≡ 7 (mod 8) -/
theorem C08_pack_is_spec (s : List Nat) (h : ∀ x ∈ s, x < 128) : packGo s = packSpec s :=
  packGo_eq_spec s h

/-- **interoperability**: a receiver that knows the septet count (it is in the TP-UDL field) reads
    every septet back from what `Pack` produced -/
theorem C08_handset_reads_back (s : List Nat) (h : ∀ x ∈ s, x < 128) : unpackSpec s.length (packGo s) = s := by
  rw [packGo_eq_spec s h]; exact unpackSpec_packSpec s h

example : packGo [0x31, 0x32, 0x33, 0x34, 0x35, 0x36, 0x37] = [0x31, 0xD9, 0x8C, 0x56, 0xB3, 0xDD, 0x1A] := by decide

end SmsVerif.C08

section
open SmsVerif.C08
#print axioms C08_tables_match_spec
#print axioms C08_encode_decode
#print axioms C08_encode_range
#print axioms C08_encode_refuses
#print axioms C08_validators_agree
#print axioms C08_decode_rejects
#print axioms C08_alphabet_complete
#print axioms C08_pack_length
#print axioms C08_packSpec_length
#print axioms C08_pack_is_spec
#print axioms C08_handset_reads_back
#print axioms C08_unpack_pack
end
