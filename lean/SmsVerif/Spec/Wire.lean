/-
  The wire formats as the protocol documents define them (doc/*.pdf): a field table per message
  and one straightforward serialiser over such a table.  Nothing here looks at the Go code or at
  the regenerated layouts; the tables (`Spec/Tables.lean`) are transcribed by hand from the
  documents (text extracts: /verif/spec-src/*.txt).  The only link to the library is the
  *binding* column: which Go struct field carries the value of a document field, and whether the
  library keeps a binary value as hex digits.
-/
import SmsVerif.Model.Layout

namespace SmsVerif.Spec
open SmsVerif

/-- field types of the documents -/
inductive SKind
  | uint (n : Nat)                      -- "Unsigned Integer" / "Integer": n octets, big-endian
  | octets (n : Nat)                    -- "Octet String" / "Text" of fixed size: left-aligned, NUL-padded
  | cOctets                             -- SMPP "C-Octet String": variable, NUL-terminated
  | var (lenField : String)             -- octet string whose size is the value of another field
  | list (countField : String) (n : Nat)  -- `n`-octet strings repeated `countField` times
  | tlvs                                -- optional parameters (tag, length, value)*
  deriving DecidableEq, Repr

/-- how the library represents the value of a fixed octet field -/
inductive Repr' | asIs | hexDigits
  deriving DecidableEq, Repr

structure SField where
  doc : String            -- name in the document
  go : String             -- binding: flattened Go struct field
  kind : SKind
  rep : Repr' := .asIs
  deriving DecidableEq, Repr

structure Spec where
  pdu : String                    -- Go type the table is bound to
  docName : String                -- message name in the document
  commandId : Nat                 -- Command_Id / command_id / RequestID value of the document
  lenField : Option String        -- binding of the leading total-length word (none: a bare body structure)
  fields : List SField            -- every field after the length word, header first
  deriving Repr

def pad (n : Nat) (s : Bytes) : Bytes := s ++ zeros (n - s.length)

def padAll (n : Nat) : List Bytes → Bytes
  | [] => []
  | x :: xs => pad n x ++ padAll n xs

/-- octets of one field for the PDU value `r` -/
def SField.bytes (r : Rec) (f : SField) : Bytes :=
  match f.kind with
  | .uint n => be n (r.num f.go)
  | .octets n =>
    match f.rep with
    | .asIs => pad n (r.str f.go)
    | .hexDigits => pad n (hexDecodeLenient (r.str f.go))
  | .cOctets => r.str f.go ++ [0]
  | .var _ => r.str f.go
  | .list _ n => padAll n (r.strs f.go)
  | .tlvs => tlvsBytes (r.tlvs f.go)

def fieldsBytes (r : Rec) (fs : List SField) : Bytes := (fs.map (·.bytes r)).flatten

/-- **the reference serialiser**: the fields in document order, preceded — for a framed message —
    by the total number of octets as a 4-octet big-endian integer -/
def Spec.wire (s : Spec) (r : Rec) : Bytes :=
  match s.lenField with
  | none => fieldsBytes r s.fields
  | some _ => be 4 ((fieldsBytes r s.fields).length + 4) ++ fieldsBytes r s.fields

end SmsVerif.Spec
