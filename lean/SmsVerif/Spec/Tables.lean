/-
  Field tables transcribed from the protocol documents in /repo/doc (page references are to the
  text extracts in /verif/spec-src/):
    CMPP 2.0  §7.3 header, §7.4.1–7.4.7      CMPP 3.0  §7.3, §7.4.1–7.4.7
    SGIP 1.2  §4.2.2 header, §4.2.3.1–4.2.3.5  SMGP 3.0.3 §5.2.1 header, §5.2.2.1–5.2.2.6
    SMPP 3.4  §3.2 header, §4.1, §4.2, §4.3, §4.4, §4.6, §4.11
  Second column: the Go struct field bound to the document field.
-/
import SmsVerif.Spec.Wire

namespace SmsVerif.Spec

def u (doc go : String) (n : Nat) : SField := ⟨doc, go, .uint n, .asIs⟩
def o (doc go : String) (n : Nat) : SField := ⟨doc, go, .octets n, .asIs⟩
def oh (doc go : String) (n : Nat) : SField := ⟨doc, go, .octets n, .hexDigits⟩
def c (doc go : String) : SField := ⟨doc, go, .cOctets, .asIs⟩
def v (doc go len : String) : SField := ⟨doc, go, .var len, .asIs⟩
def l (doc go cnt : String) (n : Nat) : SField := ⟨doc, go, .list cnt n, .asIs⟩
def t (doc go : String) : SField := ⟨doc, go, .tlvs, .asIs⟩

/-! ## CMPP (2.0 and 3.0): Total_Length 4, Command_Id 4, Sequence_Id 4 -/

def cmppHdr : List SField := [u "Command_Id" "Header.CommandID" 4, u "Sequence_Id" "Header.SequenceID" 4]
def cmpp (pdu doc : String) (cmd : Nat) (body : List SField) : Spec :=
  ⟨pdu, doc, cmd, some "Header.TotalLength", cmppHdr ++ body⟩

def cmppConnectBody : List SField :=
  [o "Source_Addr" "SourceAddr" 6, o "AuthenticatorSource" "AuthenticatorSource" 16,
   u "Version" "Version" 1, u "Timestamp" "Timestamp" 4]
def cmppQueryBody : List SField :=
  [o "Time" "Time" 8, u "Query_Type" "QueryType" 1, o "Query_Code" "QueryCode" 10, o "Reserve" "Reserve" 8]
def cmppQueryRespBody : List SField :=
  [o "Time" "Time" 8, u "Query_Type" "QueryType" 1, o "Query_Code" "QueryCode" 10,
   u "MT_TLMsg" "MtTLMsg" 4, u "MT_Tlusr" "MtTlUsr" 4, u "MT_Scs" "MtScs" 4, u "MT_WT" "MtWT" 4,
   u "MT_FL" "MtFL" 4, u "MO_Scs" "MoScs" 4, u "MO_WT" "MoWT" 4, u "MO_FL" "MoFL" 4]

def cmpp20 : List Spec := [
  cmpp "cmpp20.PduConnect" "CMPP_CONNECT" 0x00000001 cmppConnectBody,
  cmpp "cmpp20.PduConnectResp" "CMPP_CONNECT_RESP" 0x80000001
    [u "Status" "Status" 1, o "AuthenticatorISMG" "AuthenticatorISMG" 16, u "Version" "Version" 1],
  cmpp "cmpp20.PduTerminate" "CMPP_TERMINATE" 0x00000002 [],
  cmpp "cmpp20.PduTerminateResp" "CMPP_TERMINATE_RESP" 0x80000002 [],
  cmpp "cmpp20.PduSubmit" "CMPP_SUBMIT" 0x00000004
    [u "Msg_Id" "MsgID" 8, u "Pk_total" "PkTotal" 1, u "Pk_number" "PkNumber" 1,
     u "Registered_Delivery" "RegisteredDelivery" 1, u "Msg_level" "MsgLevel" 1,
     o "Service_Id" "ServiceID" 10, u "Fee_UserType" "FeeUserType" 1, o "Fee_terminal_Id" "FeeTerminalID" 21,
     u "TP_pId" "TpPID" 1, u "TP_udhi" "TpUDHI" 1, u "Msg_Fmt" "MsgFmt" 1, o "Msg_src" "MsgSrc" 6,
     o "FeeType" "FeeType" 2, o "FeeCode" "FeeCode" 6, o "ValId_Time" "ValIDTime" 17, o "At_Time" "AtTime" 17,
     o "Src_Id" "SrcID" 21, u "DestUsr_tl" "DestUsrTL" 1, l "Dest_terminal_Id" "DestTerminalID" "DestUsrTL" 21,
     u "Msg_Length" "MsgLength" 1, v "Msg_Content" "MsgContent" "MsgLength", o "Reserve" "Reserve" 8],
  cmpp "cmpp20.PduSubmitResp" "CMPP_SUBMIT_RESP" 0x80000004 [u "Msg_Id" "MsgID" 8, u "Result" "Result" 1],
  cmpp "cmpp20.PduQuery" "CMPP_QUERY" 0x00000006 cmppQueryBody,
  cmpp "cmpp20.PduQueryResp" "CMPP_QUERY_RESP" 0x80000006 cmppQueryRespBody,
  cmpp "cmpp20.PduDeliver" "CMPP_DELIVER" 0x00000005
    [u "Msg_Id" "MsgID" 8, o "Dest_Id" "DestID" 21, o "Service_Id" "ServiceID" 10, u "TP_pid" "TpPID" 1,
     u "TP_udhi" "TpUDHI" 1, u "Msg_Fmt" "MsgFmt" 1, o "Src_terminal_Id" "SrcTerminalID" 21,
     u "Registered_Delivery" "RegisteredDeliver" 1, u "Msg_Length" "MsgLength" 1,
     v "Msg_Content" "MsgContent" "MsgLength", o "Reserved" "Reserved" 8],
  cmpp "cmpp20.PduDeliverResp" "CMPP_DELIVER_RESP" 0x80000005 [u "Msg_Id" "MsgID" 8, u "Result" "Result" 1],
  cmpp "cmpp20.PduActiveTest" "CMPP_ACTIVE_TEST" 0x00000008 [],
  cmpp "cmpp20.PduActiveTestResp" "CMPP_ACTIVE_TEST_RESP" 0x80000008 [u "Reserved" "Reserved" 1]]

def cmpp30 : List Spec := [
  cmpp "cmpp30.Connect" "CMPP_CONNECT" 0x00000001 cmppConnectBody,
  cmpp "cmpp30.ConnectResp" "CMPP_CONNECT_RESP" 0x80000001
    [u "Status" "Status" 4, o "AuthenticatorISMG" "AuthenticatorISMG" 16, u "Version" "Version" 1],
  cmpp "cmpp30.Terminate" "CMPP_TERMINATE" 0x00000002 [],
  cmpp "cmpp30.TerminateResp" "CMPP_TERMINATE_RESP" 0x80000002 [],
  cmpp "cmpp30.Submit" "CMPP_SUBMIT" 0x00000004
    [u "Msg_Id" "MsgID" 8, u "Pk_total" "PkTotal" 1, u "Pk_number" "PkNumber" 1,
     u "Registered_Delivery" "RegisteredDelivery" 1, u "Msg_level" "MsgLevel" 1,
     o "Service_Id" "ServiceID" 10, u "Fee_UserType" "FeeUserType" 1, o "Fee_terminal_Id" "FeeTerminalID" 32,
     u "Fee_terminal_type" "FeeTerminalType" 1, u "TP_pId" "TpPID" 1, u "TP_udhi" "TpUDHI" 1,
     u "Msg_Fmt" "MsgFmt" 1, o "Msg_src" "MsgSrc" 6, o "FeeType" "FeeType" 2, o "FeeCode" "FeeCode" 6,
     o "ValId_Time" "ValiDTime" 17, o "At_Time" "AtTime" 17, o "Src_Id" "SrcID" 21,
     u "DestUsr_tl" "DestUsrTL" 1, l "Dest_terminal_Id" "DestTerminalID" "DestUsrTL" 32,
     u "Dest_terminal_type" "DestTerminalType" 1, u "Msg_Length" "MsgLength" 1,
     v "Msg_Content" "MsgContent" "MsgLength", o "LinkID" "LinkID" 20],
  cmpp "cmpp30.SubmitResp" "CMPP_SUBMIT_RESP" 0x80000004 [u "Msg_Id" "MsgID" 8, u "Result" "Result" 4],
  cmpp "cmpp30.Query" "CMPP_QUERY" 0x00000006 cmppQueryBody,
  cmpp "cmpp30.QueryResp" "CMPP_QUERY_RESP" 0x80000006 cmppQueryRespBody,
  cmpp "cmpp30.Deliver" "CMPP_DELIVER" 0x00000005
    [u "Msg_Id" "MsgID" 8, o "Dest_Id" "DestID" 21, o "Service_Id" "ServiceID" 10, u "TP_pid" "TpPID" 1,
     u "TP_udhi" "TpUDHI" 1, u "Msg_Fmt" "MsgFmt" 1, o "Src_terminal_Id" "SrcTerminalID" 32,
     u "Src_terminal_type" "SrcTerminalType" 1, u "Registered_Delivery" "RegisteredDeliver" 1,
     u "Msg_Length" "MsgLength" 1, v "Msg_Content" "MsgContent" "MsgLength", o "LinkID" "LinkID" 20],
  cmpp "cmpp30.DeliverResp" "CMPP_DELIVER_RESP" 0x80000005 [u "Msg_Id" "MsgID" 8, u "Result" "Result" 4],
  cmpp "cmpp30.Cancel" "CMPP_CANCEL" 0x00000007 [u "Msg_Id" "MsgID" 8],
  cmpp "cmpp30.CancelResp" "CMPP_CANCEL_RESP" 0x80000007 [u "Success_Id" "SuccessID" 4],
  cmpp "cmpp30.ActiveTest" "CMPP_ACTIVE_TEST" 0x00000008 [],
  cmpp "cmpp30.ActiveTestResp" "CMPP_ACTIVE_TEST_RESP" 0x80000008 [u "Reserved" "Reserved" 1]]

/-- the status-report structure carried in Msg_Content of a CMPP_DELIVER (2.0 §7.4.5.1, 3.0 §7.4.5.1) -/
def cmppReport : Spec :=
  ⟨"cmpp.SubPduDeliveryContent", "CMPP_DELIVER status report", 0, none,
   [u "Msg_Id" "MsgID" 8, o "Stat" "Stat" 7, o "Submit_time" "SubmitTime" 10, o "Done_time" "DoneTime" 10,
    o "Dest_terminal_Id" "DestTerminalID" 21, u "SMSC_sequence" "SMSCSequence" 4]⟩

/-! ## SGIP 1.2: Message Length 4, Command ID 4, Sequence Number 12 (three 4-octet integers) -/

def sgipHdr : List SField :=
  [u "Command ID" "Header.CommandID" 4, u "Sequence Number (1)" "Header.Sequence.0" 4,
   u "Sequence Number (2)" "Header.Sequence.1" 4, u "Sequence Number (3)" "Header.Sequence.2" 4]
def sgip (pdu doc : String) (cmd : Nat) (body : List SField) : Spec :=
  ⟨pdu, doc, cmd, some "Header.TotalLength", sgipHdr ++ body⟩
def sgipResp : List SField := [u "Result" "Result" 1, o "Reserve" "Reserved" 8]

def sgip12 : List Spec := [
  sgip "sgip12.Bind" "Bind" 0x1
    [u "Login Type" "Type" 1, o "Login Name" "Name" 16, o "Login Passowrd" "Password" 16, o "Reserve" "Reserved" 8],
  sgip "sgip12.BindResp" "Bind_Resp" 0x80000001 sgipResp,
  sgip "sgip12.Unbind" "Unbind" 0x2 [],
  sgip "sgip12.UnbindResp" "Unbind_Resp" 0x80000002 [],
  sgip "sgip12.Submit" "Submit" 0x3
    [o "SPNumber" "SpNumber" 21, o "ChargeNumber" "ChargeNumber" 21, u "UserCount" "UserCount" 1,
     l "UserNumber" "UserNumber" "UserCount" 21, o "CorpId" "CorpID" 5, o "ServiceType" "ServiceType" 10,
     u "FeeType" "FeeType" 1, o "FeeValue" "FeeValue" 6, o "GivenValue" "GivenValue" 6,
     u "AgentFlag" "AgentFlag" 1, u "MorelatetoMTFlag" "MorelatetoMTFlag" 1, u "Priority" "Priority" 1,
     o "ExpireTime" "ExpireTime" 16, o "ScheduleTime" "ScheduleTime" 16, u "ReportFlag" "ReportFlag" 1,
     u "TP_pid" "TpPid" 1, u "TP_udhi" "TpUdhi" 1, u "MessageCoding" "MessageCoding" 1,
     u "MessageType" "MessageType" 1, u "MessageLength" "MessageLength" 4,
     v "MessageContent" "MessageContent" "MessageLength", o "Reserve" "Reserved" 8],
  sgip "sgip12.SubmitResp" "Submit_Resp" 0x80000003 sgipResp,
  sgip "sgip12.Deliver" "Deliver" 0x4
    [o "UserNumber" "UserNumber" 21, o "SPNumber" "SPNumber" 21, u "TP_pid" "TpPid" 1, u "TP_udhi" "TpUdhi" 1,
     u "MessageCoding" "MessageCoding" 1, u "MessageLength" "MessageLength" 4,
     v "MessageContent" "MessageContent" "MessageLength", o "Reserve" "Reserved" 8],
  sgip "sgip12.DeliverResp" "Deliver_Resp" 0x80000004 sgipResp,
  sgip "sgip12.Report" "Report" 0x5
    [u "SubmitSequenceNumber (1)" "SubmitSequence.0" 4, u "SubmitSequenceNumber (2)" "SubmitSequence.1" 4,
     u "SubmitSequenceNumber (3)" "SubmitSequence.2" 4, u "ReportType" "ReportType" 1,
     o "UserNumber" "UserNumber" 21, u "State" "State" 1, u "ErrorCode" "ErrorCode" 1, o "Reserve" "Reserved" 8],
  sgip "sgip12.ReportResp" "Report_Resp" 0x80000005 sgipResp]

/-! ## SMGP 3.0.3: PacketLength 4, RequestID 4, SequenceID 4 -/

def smgpHdr : List SField := [u "RequestID" "Header.CommandID" 4, u "SequenceID" "Header.SequenceID" 4]
def smgp (pdu doc : String) (cmd : Nat) (body : List SField) : Spec :=
  ⟨pdu, doc, cmd, some "Header.TotalLength", smgpHdr ++ body⟩

def smgp30 : List Spec := [
  smgp "smgp30.Login" "Login" 0x00000001
    [o "ClientID" "ClientID" 8, o "AuthenticatorClient" "AuthenticatorClient" 16, u "LoginMode" "LoginMode" 1,
     u "TimeStamp" "Timestamp" 4, u "ClientVersion" "Version" 1],
  smgp "smgp30.LoginResp" "Login_Resp" 0x80000001
    [u "Status" "Status" 4, o "AuthenticatorServer" "AuthenticatorServer" 16, u "ServerVersion" "ServerVersion" 1],
  smgp "smgp30.Submit" "Submit" 0x00000002
    [u "MsgType" "MsgType" 1, u "NeedReport" "NeedReport" 1, u "Priority" "Priority" 1,
     o "ServiceID" "ServiceID" 10, o "FeeType" "FeeType" 2, o "FeeCode" "FeeCode" 6, o "FixedFee" "FixedFee" 6,
     u "MsgFormat" "MsgFormat" 1, o "ValidTime" "ValidTime" 17, o "AtTime" "AtTime" 17,
     o "SrcTermID" "SrcTermID" 21, o "ChargeTermID" "ChargeTermID" 21, u "DestTermIDCount" "DestTermIDCount" 1,
     l "DestTermID" "DestTermID" "DestTermIDCount" 21, u "MsgLength" "MsgLength" 1,
     v "MsgContent" "MsgContent" "MsgLength", o "Reserve" "Reserve" 8, t "TLV" "Options"],
  smgp "smgp30.SubmitResp" "Submit_Resp" 0x80000002 [o "MsgID" "MsgID" 10, u "Status" "Status" 4],
  smgp "smgp30.Deliver" "Deliver" 0x00000003
    [o "MsgID" "MsgID" 10, u "IsReport" "IsReport" 1, u "MsgFormat" "MsgFormat" 1, o "RecvTime" "RecvTime" 14,
     o "SrcTermID" "SrcTermID" 21, o "DestTermID" "DestTermID" 21, u "MsgLength" "MsgLength" 1,
     v "MsgContent" "MsgContent" "MsgLength", o "Reserve" "Reserve" 8, t "TLV" "Options"],
  smgp "smgp30.DeliverResp" "Deliver_Resp" 0x80000003 [oh "MsgID" "MsgID" 10, u "Status" "Result" 4],
  smgp "smgp30.ActiveTest" "Active_Test" 0x00000004 [],
  smgp "smgp30.ActiveTestResp" "Active_Test_Resp" 0x80000004 [],      -- §5.2.2.5.2: no message body
  smgp "smgp30.Exit" "Exit" 0x00000006 [],
  smgp "smgp30.ExitResp" "Exit_Resp" 0x80000006 []]

/-! ## SMPP 3.4: command_length 4, command_id 4, command_status 4, sequence_number 4 -/

def smppHdr : List SField :=
  [u "command_id" "Header.ID" 4, u "command_status" "Header.Status" 4, u "sequence_number" "Header.Sequence" 4]
def smpp (pdu doc : String) (cmd : Nat) (body : List SField) : Spec :=
  ⟨pdu, doc, cmd, some "Header.Length", smppHdr ++ body⟩

def smppSmBody (defaultMsgId : String) : List SField :=
  [c "service_type" "ServiceType", u "source_addr_ton" "SourceAddrTon" 1, u "source_addr_npi" "SourceAddrNpi" 1,
   c "source_addr" "SourceAddr", u "dest_addr_ton" "DestAddrTon" 1, u "dest_addr_npi" "DestAddrNpi" 1,
   c "destination_addr" "DestinationAddr", u "esm_class" "ESMClass" 1, u "protocol_id" "ProtocolID" 1,
   u "priority_flag" "PriorityFlag" 1, c "schedule_delivery_time" "ScheduleDeliveryTime",
   c "validity_period" "ValidityPeriod", u "registered_delivery" "RegisteredDelivery" 1,
   u "replace_if_present_flag" "ReplaceIfPresentFlag" 1, u "data_coding" "DataCoding" 1,
   u "sm_default_msg_id" defaultMsgId 1, u "sm_length" "SmLength" 1,
   v "short_message" "ShortMessage" "SmLength", t "optional parameters" "TLVs"]

def smpp34 : List Spec := [
  -- bind_transmitter 0x2 / bind_receiver 0x1 / bind_transceiver 0x9 share one body (§4.1.1, 4.1.3, 4.1.5)
  smpp "smpp34.Bind" "bind_transmitter / bind_receiver / bind_transceiver" 0x00000002
    [c "system_id" "SystemID", c "password" "Password", c "system_type" "SystemType",
     u "interface_version" "InterfaceVersion" 1, u "addr_ton" "AddrTon" 1, u "addr_npi" "AddrNpi" 1,
     c "address_range" "AddressRange"],
  smpp "smpp34.BindResp" "bind_*_resp" 0x80000002 [c "system_id" "SystemID", t "sc_interface_version" "TLVs"],
  smpp "smpp34.Unbind" "unbind" 0x00000006 [],
  smpp "smpp34.UnBindResp" "unbind_resp" 0x80000006 [],
  smpp "smpp34.GenericNack" "generic_nack" 0x80000000 [],
  smpp "smpp34.SubmitSm" "submit_sm" 0x00000004 (smppSmBody "SmDefaultMsgID"),
  smpp "smpp34.SubmitSmResp" "submit_sm_resp" 0x80000004 [c "message_id" "MessageID"],
  smpp "smpp34.DeliverSm" "deliver_sm" 0x00000005 (smppSmBody "SmDefaultMsgId"),
  smpp "smpp34.DeliverSmResp" "deliver_sm_resp" 0x80000005 [c "message_id" "MessageID"],
  smpp "smpp34.EnquireLink" "enquire_link" 0x00000015 [],
  smpp "smpp34.EnquireLinkResp" "enquire_link_resp" 0x80000015 []]

def all : List Spec := cmppReport :: cmpp20 ++ cmpp30 ++ sgip12 ++ smgp30 ++ smpp34

def find? (pdu : String) : Option Spec := all.find? (·.pdu == pdu)

end SmsVerif.Spec
