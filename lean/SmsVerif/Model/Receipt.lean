/-
  Delivery-receipt text extraction (`smpp/smpp34/delivery_receipt.go`, `smgp/smgp30/pdu_deliver.go`).
  Strings are octet lists; `indexOf` is `strings.Index`.
-/
import SmsVerif.Model.Layout

namespace SmsVerif.Receipt

def isPrefixOf : Bytes → Bytes → Bool
  | [], _ => true
  | _ :: _, [] => false
  | a :: as, b :: bs => a == b && isPrefixOf as bs

/-- `strings.Index(s, sub)`: offset of the first occurrence -/
def indexOf (s sub : Bytes) : Option Nat :=
  match s with
  | [] => if sub.isEmpty then some 0 else none
  | c :: cs => if isPrefixOf sub (c :: cs) then some 0 else (indexOf cs sub).map (· + 1)

def untilSpace : Bytes → Bytes
  | [] => []
  | c :: cs => if c = 32 then [] else c :: untilSpace cs

def truncate (maxSize : Nat) (v : Bytes) : Bytes := if maxSize > 0 ∧ v.length > maxSize then v.take maxSize else v

/-- SMPP `findSubValue(s, key, _)`: the characters between `key:` and the next space (no width cut) -/
def findSmpp (s key : Bytes) : Bytes :=
  match indexOf s (key ++ [58]) with
  | none => []
  | some n => untilSpace (s.drop (n + key.length + 1))

/-- SMGP `findSubValue(s, key, backup, maxSize)`: primary spelling `key:`, else `backup:`; value cut to the field width -/
def findSmgp (s key backup : Bytes) (maxSize : Nat) : Bytes :=
  match indexOf s (key ++ [58]) with
  | some n => truncate maxSize (untilSpace (s.drop (n + key.length + 1)))
  | none =>
    if backup.isEmpty then [] else
    match indexOf s (backup ++ [58]) with
    | some n => truncate maxSize (untilSpace (s.drop (n + backup.length + 1)))
    | none => []

/-- SMGP `findSMGPIDValue`: hex of the ten octets after `id:`; empty when fewer than ten follow -/
def findSmgpId (s : Bytes) : Bytes :=
  match indexOf s [105, 100, 58] with
  | none => []
  | some n =>
    let start := n + 3
    if s.length ≥ start + 10 then hexEncode ((s.drop start).take 10) else []

end SmsVerif.Receipt
