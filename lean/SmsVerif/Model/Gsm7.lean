/-
  GSM 7-bit default alphabet and septet packing (`datacoding/gsm7encoding/gsm7.go`).

  Text is a list of Unicode code points (the Go code ranges over the runes of a string); septets
  and octets are `Nat`s.  `packGo` / `unpackGo` transcribe the block-of-8 structure of the Go
  functions `Pack` / `Unpack` (and of the packed stream transformers, which contain the same
  statements); `packSpec` is the TS 23.038 definition as arithmetic on the little-endian bit
  stream, independent of the block structure.
-/
import SmsVerif.Model.Bytes

namespace SmsVerif.Gsm7

def esc : Nat := 0x1B

def lookup (tbl : List (Nat × Nat)) (k : Nat) : Option Nat :=
  match tbl with
  | [] => none
  | (a, b) :: rest => if a = k then some b else lookup rest k

/-- alphabet tables: code point ↦ septet, code point ↦ escaped septet, and the two reverses -/
structure Tables where
  fwd : List (Nat × Nat)
  fwdEsc : List (Nat × Nat)
  rev : List (Nat × Nat)
  revEsc : List (Nat × Nat)

/-- `gsm7encoding.Encode` (and the unpacked stream encoder): code points → septets -/
def encode (t : Tables) : List Nat → Option (List Nat)
  | [] => some []
  | c :: cs =>
    match lookup t.fwd c with
    | some v => (encode t cs).map (v :: ·)
    | none =>
      match lookup t.fwdEsc c with
      | some v => (encode t cs).map (fun r => esc :: v :: r)
      | none => none

/-- `gsm7encoding.Decode`: septets → code points; `none` = ErrInvalidByte -/
def decode (t : Tables) : List Nat → Option (List Nat)
  | [] => some []
  | b :: bs =>
    if b = esc then
      match bs with
      | [] => none
      | e :: rest =>
        match lookup t.revEsc e with
        | some r => (decode t rest).map (r :: ·)
        | none => none
    else
      match lookup t.rev b with
      | some r => (decode t bs).map (r :: ·)
      | none => none

/-- `IsValidGSM7String` / `ValidateGSM7String(text) = []` -/
def validText (t : Tables) (cs : List Nat) : Bool :=
  cs.all fun c => (lookup t.fwd c).isSome || (lookup t.fwdEsc c).isSome

/-- `ValidateGSM7String`: the offending code points, in order -/
def invalidChars (t : Tables) (cs : List Nat) : List Nat :=
  cs.filter fun c => !((lookup t.fwd c).isSome || (lookup t.fwdEsc c).isSome)

/-- `ValidateGSM7Buffer`: the offending septets -/
def invalidBytes (t : Tables) : List Nat → List Nat
  | [] => []
  | b :: bs =>
    if b = esc then
      match bs with
      | [] => [b]
      | e :: rest => (if (lookup t.revEsc e).isSome then [] else [b, e]) ++ invalidBytes t rest
    else (if (lookup t.rev b).isSome then [] else [b]) ++ invalidBytes t bs

/-! ### packing, Go structure -/

/-- `0x7F &^ (2^j - 1)` : 0x7F, 0x7E, 0x7C, 0x78, 0x70, 0x60, 0x40 -/
def hiMask (j : Nat) : Nat := 0x7F - (2 ^ j - 1)

/-- octet `j` of a block when septet `j+1` exists: `(s[j] & hiMask j) >> j | (s[j+1] & (2^(j+1)-1)) << (7-j)` (a Go byte) -/
def packOctet (j a b : Nat) : Nat :=
  ((a &&& hiMask j) >>> j) ||| (((b &&& (2 ^ (j + 1) - 1)) <<< (7 - j)) % 256)

/-- last octet of a partial block: `s[j] & hiMask j >> j` -/
def packLast (j a : Nat) : Nat := (a &&& hiMask j) >>> j

/-- the octets of one block of up to 8 septets, without the CR rule -/
def packBlocks : List Nat → Bytes
  | s0 :: s1 :: s2 :: s3 :: s4 :: s5 :: s6 :: s7 :: rest =>
    [packOctet 0 s0 s1, packOctet 1 s1 s2, packOctet 2 s2 s3, packOctet 3 s3 s4,
     packOctet 4 s4 s5, packOctet 5 s5 s6, packOctet 6 s6 s7] ++ packBlocks rest
  | [s0, s1, s2, s3, s4, s5, s6] =>
    [packOctet 0 s0 s1, packOctet 1 s1 s2, packOctet 2 s2 s3, packOctet 3 s3 s4,
     packOctet 4 s4 s5, packOctet 5 s5 s6, packLast 6 s6]
  | [s0, s1, s2, s3, s4, s5] =>
    [packOctet 0 s0 s1, packOctet 1 s1 s2, packOctet 2 s2 s3, packOctet 3 s3 s4,
     packOctet 4 s4 s5, packLast 5 s5]
  | [s0, s1, s2, s3, s4] =>
    [packOctet 0 s0 s1, packOctet 1 s1 s2, packOctet 2 s2 s3, packOctet 3 s3 s4, packLast 4 s4]
  | [s0, s1, s2, s3] => [packOctet 0 s0 s1, packOctet 1 s1 s2, packOctet 2 s2 s3, packLast 3 s3]
  | [s0, s1, s2] => [packOctet 0 s0 s1, packOctet 1 s1 s2, packLast 2 s2]
  | [s0, s1] => [packOctet 0 s0 s1, packLast 1 s1]
  | [s0] => [packLast 0 s0]
  | [] => []

def setLast (bs : Bytes) (f : Nat → Nat) : Bytes :=
  match bs.reverse with
  | [] => []
  | x :: xs => (f x :: xs).reverse

/-- `gsm7encoding.Pack`: seven spare bits in the last octet are filled with CR -/
def packGo (s : List Nat) : Bytes :=
  let out := packBlocks s
  if (s.length * 7) % 8 = 1 then
    setLast out fun v => if v = 0 ∨ v = 1 then (v ||| (0x0D <<< 1)) % 256 else v
  else out

/-- septet `j ≥ 1` of a block: `(o[j] & (2^(7-j)-1)) << j | (o[j-1] & hi) >> (8-j)` (a Go byte) -/
def unpackSeptet (j prev cur : Nat) : Nat :=
  (((cur &&& (2 ^ (7 - j) - 1)) <<< j) % 256) ||| ((prev &&& (255 - (2 ^ (8 - j) - 1))) >>> (8 - j))

def unpackBlocks : Bytes → List Nat
  | o0 :: o1 :: o2 :: o3 :: o4 :: o5 :: o6 :: rest =>
    [o0 &&& 0x7F, unpackSeptet 1 o0 o1, unpackSeptet 2 o1 o2, unpackSeptet 3 o2 o3,
     unpackSeptet 4 o3 o4, unpackSeptet 5 o4 o5, unpackSeptet 6 o5 o6] ++
    -- an all-zero seventh octet is padding only at the very end of the message
    (if o6 > 0 ∨ rest ≠ [] then [(o6 &&& 0xFE) >>> 1] else []) ++ unpackBlocks rest
  | [o0, o1, o2, o3, o4, o5] =>
    [o0 &&& 0x7F, unpackSeptet 1 o0 o1, unpackSeptet 2 o1 o2, unpackSeptet 3 o2 o3,
     unpackSeptet 4 o3 o4, unpackSeptet 5 o4 o5]
  | [o0, o1, o2, o3, o4] =>
    [o0 &&& 0x7F, unpackSeptet 1 o0 o1, unpackSeptet 2 o1 o2, unpackSeptet 3 o2 o3, unpackSeptet 4 o3 o4]
  | [o0, o1, o2, o3] => [o0 &&& 0x7F, unpackSeptet 1 o0 o1, unpackSeptet 2 o1 o2, unpackSeptet 3 o2 o3]
  | [o0, o1, o2] => [o0 &&& 0x7F, unpackSeptet 1 o0 o1, unpackSeptet 2 o1 o2]
  | [o0, o1] => [o0 &&& 0x7F, unpackSeptet 1 o0 o1]
  | [o0] => [o0 &&& 0x7F]
  | [] => []

/-- `gsm7encoding.Unpack`: a CR in the eighth position of the last block is the filler -/
def unpackGo (bs : Bytes) : List Nat :=
  let s := unpackBlocks bs
  if s.length % 8 = 0 ∧ s.getLast? = some 0x0D then s.dropLast else s

/-! ### packing, specification (TS 23.038 §6.1.2.1.1) -/

/-- the septets as one little-endian number: septet `i` occupies bits `7i .. 7i+6` -/
def bitsOf : List Nat → Nat
  | [] => 0
  | s :: rest => s % 128 + 128 * bitsOf rest

/-- `k` octets, least significant first -/
def octetsLE : Nat → Nat → Bytes
  | 0, _ => []
  | k+1, n => (n % 256) :: octetsLE k (n / 256)

/-- ⌈7n/8⌉ octets holding the bit stream, zero fill, CR in seven spare bits -/
def packSpec (s : List Nat) : Bytes :=
  let n := s.length
  let bits := bitsOf s + (if (7 * n) % 8 = 1 then 0x0D * 2 ^ (7 * n) else 0)
  octetsLE ((7 * n + 7) / 8) bits

/-- the reference unpacker a handset uses: it is told the septet count -/
def unpackSpec (count : Nat) (bs : Bytes) : List Nat :=
  let n := bs.foldr (fun b acc => b % 256 + 256 * acc) 0
  (List.range count).map fun i => (n / 2 ^ (7 * i)) % 128

end SmsVerif.Gsm7
