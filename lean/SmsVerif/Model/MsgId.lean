/-
  CMPP message id (`cmpp/msgid.go`): 64-bit layout month(4) day(5) hour(5) minute(6) second(6)
  gateway(22) sequence(16), and its decimal string form "%02d%02d%02d%02d%02d%07d%05d".
-/
import SmsVerif.Model.Auth

namespace SmsVerif.MsgId

def W : Nat := 2 ^ 64

/-- `CombineMsgID` with Go's uint64 wrap-around at every step -/
def combine (month day hour minute second gate seq : Nat) : Nat :=
  let m0 := month % W
  let m1 := (m0 * 2 ^ 5 + day) % W
  let m2 := (m1 * 2 ^ 5 + hour) % W
  let m3 := (m2 * 2 ^ 6 + minute) % W
  let m4 := (m3 * 2 ^ 6 + second) % W
  let m5 := (m4 * 2 ^ 22 + gate) % W
  (m5 * 2 ^ 16 + seq % 2 ^ 16) % W

structure Parts where
  month : Nat
  day : Nat
  hour : Nat
  minute : Nat
  second : Nat
  gate : Nat
  seq : Nat
  deriving DecidableEq, Repr

/-- `SplitMsgID` -/
def split (id : Nat) : Parts :=
  ⟨id / 2 ^ 60 % 16, id / 2 ^ 55 % 32, id / 2 ^ 50 % 32, id / 2 ^ 44 % 64, id / 2 ^ 38 % 64,
   id / 2 ^ 16 % 2 ^ 22, id % 2 ^ 16⟩

def combineP (p : Parts) : Nat := combine p.month p.day p.hour p.minute p.second p.gate p.seq

/-- `MsgID2String` -/
def format (id : Nat) : Bytes :=
  if id = 0 then [] else
  let p := split id
  decDigits 2 p.month ++ decDigits 2 p.day ++ decDigits 2 p.hour ++ decDigits 2 p.minute ++
  decDigits 2 p.second ++ decDigits 7 p.gate ++ decDigits 5 p.seq

def isDigits (bs : Bytes) : Bool := bs.all fun b => 48 ≤ b && b ≤ 57

/-- `MsgIDString2Uint64` on a string of exactly 22 decimal digits (anything else: see the driver) -/
def parse (s : Bytes) : Nat :=
  if s.length = 22 ∧ isDigits s then
    combine (parseDec (s.take 2)) (parseDec ((s.drop 2).take 2)) (parseDec ((s.drop 4).take 2))
      (parseDec ((s.drop 6).take 2)) (parseDec ((s.drop 8).take 2)) (parseDec ((s.drop 10).take 7))
      (parseDec ((s.drop 17).take 5))
  else 0

end SmsVerif.MsgId
