/-
  SMPP validity period (`smpp/util.go`, `ToValidatePeriod`).  Durations are integer nanoseconds,
  instants are integer nanoseconds since the Unix epoch (UTC); `time.ParseDuration` is outside the
  model (the harness passes the parsed value or "unparsable").
-/
import SmsVerif.Model.Auth

namespace SmsVerif.Validity

def nsPerSec : Nat := 1000000000
def secPerDay : Nat := 86400

inductive VErr | unparsable | negative | tooLong | yearOutOfRange
  deriving DecidableEq, Repr

/-- `timeToSMPPTimeFormatRelative` for a duration below 31 days: "0000DDhhmmss000R", or "" when all
    four fields are zero -/
def relativeOfSeconds (s : Nat) : Bytes :=
  let days := s / secPerDay
  let hours := s / 3600 % 24
  let minutes := s / 60 % 60
  let seconds := s % 60
  if days = 0 ∧ hours = 0 ∧ minutes = 0 ∧ seconds = 0 then []
  else [48, 48, 48, 48] ++ decDigits 2 days ++ decDigits 2 hours ++ decDigits 2 minutes ++ decDigits 2 seconds ++ [48, 48, 48, 82]

def relative (dNs : Nat) : Bytes := relativeOfSeconds (dNs / nsPerSec)

/-! civil calendar (proleptic Gregorian), days since 1970-01-01 -/

def isLeap (y : Nat) : Bool := (y % 4 == 0 && y % 100 != 0) || y % 400 == 0

def daysInMonth (y m : Nat) : Nat :=
  if m = 2 then (if isLeap y then 29 else 28)
  else if m = 4 ∨ m = 6 ∨ m = 9 ∨ m = 11 then 30 else 31

def daysBeforeYear (y : Nat) : Nat :=   -- days from 1970-01-01 to y-01-01, y ≥ 1970
  let y' := y - 1
  365 * (y - 1970) + (y' / 4 - 1969 / 4) - (y' / 100 - 1969 / 100) + (y' / 400 - 1969 / 400)

def daysBeforeMonth (y : Nat) : Nat → Nat
  | 0 => 0 | 1 => 0
  | m+1 => daysBeforeMonth y m + daysInMonth y m

/-- days since the epoch of the civil date y-m-d -/
def daysFromCivil (y m d : Nat) : Nat := daysBeforeYear y + daysBeforeMonth y m + (d - 1)

def findYear : Nat → Nat → Nat → Nat
  | 0, y, _ => y
  | fuel+1, y, z => if daysBeforeYear (y + 1) ≤ z then findYear fuel (y + 1) z else y

def findMonth : Nat → Nat → Nat → Nat → Nat
  | 0, _, m, _ => m
  | fuel+1, y, m, r => if m < 12 ∧ daysBeforeMonth y (m + 1) ≤ r then findMonth fuel y (m + 1) r else m

/-- civil date of day number `z` -/
def civilFromDays (z : Nat) : Nat × Nat × Nat :=
  let y := findYear 400 1970 z
  let r := z - daysBeforeYear y
  let m := findMonth 12 y 1 r
  (y, m, r - daysBeforeMonth y m + 1)

/-- `timeToSMPPTimeFormatAbsolute`: "YYMMDDhhmmss" + "0" + "00" + "+" of the UTC instant -/
def absoluteOfSeconds (t : Nat) : Bytes :=
  let (y, m, d) := civilFromDays (t / secPerDay)
  let sod := t % secPerDay
  decDigits 2 (y % 100) ++ decDigits 2 m ++ decDigits 2 d ++ decDigits 2 (sod / 3600) ++
    decDigits 2 (sod / 60 % 60) ++ decDigits 2 (sod % 60) ++ [48, 48, 48, 43]

def absolute (targetNs : Nat) : Bytes := absoluteOfSeconds (targetNs / nsPerSec)

/-- `ToValidatePeriod(now, v, isRelative)` after `v` has been parsed (`none` = ParseDuration failed) -/
def toValidatePeriod (nowNs : Nat) (d : Option Int) (rel : Bool) : Except VErr Bytes :=
  match d with
  | none => .error .unparsable
  | some d =>
    if d < 0 then .error .negative
    else
      let dn := d.toNat
      if rel then
        if dn ≥ 31 * secPerDay * nsPerSec then .error .tooLong else .ok (relative dn)
      else
        let (y, _, _) := civilFromDays ((nowNs + dn) / nsPerSec / secPerDay)
        if y < 2000 ∨ y > 2099 then .error .yearOutOfRange else .ok (absolute (nowNs + dn))

/-- what a relative string denotes, in seconds -/
def denoteRel (s : Bytes) : Nat :=
  parseDec ((s.drop 4).take 2) * secPerDay + parseDec ((s.drop 6).take 2) * 3600 +
  parseDec ((s.drop 8).take 2) * 60 + parseDec ((s.drop 10).take 2)

/-- what an absolute string denotes: seconds since the epoch, years read as 20YY -/
def denoteAbs (s : Bytes) : Nat :=
  daysFromCivil (2000 + parseDec (s.take 2)) (parseDec ((s.drop 2).take 2)) (parseDec ((s.drop 4).take 2)) * secPerDay +
  parseDec ((s.drop 6).take 2) * 3600 + parseDec ((s.drop 8).take 2) * 60 + parseDec ((s.drop 10).take 2)

end SmsVerif.Validity
