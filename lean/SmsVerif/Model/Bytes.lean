/-
  Bytes, big-endian integers, hex helpers.

  An octet is modelled as a `Nat` (the models never need the bound `< 256` to compute; every
  theorem that needs it states it).  Go `string` and `[]byte` are both `List Nat`.
-/
namespace SmsVerif

abbrev Bytes := List Nat

/-- `k` octets, big-endian, of `n mod 256^k` (Go: `binary.BigEndian.PutUintXX` after the
    conversion to the fixed-width type). -/
def be : Nat → Nat → Bytes
  | 0, _ => []
  | k+1, n => (n / 256 ^ k % 256) :: be k n

/-- Big-endian value of an octet string. -/
def fromBe (bs : Bytes) : Nat := bs.foldl (fun acc b => acc * 256 + b) 0

def zeros (n : Nat) : Bytes := List.replicate n 0

/-- index of the first NUL, if any (Go: `bytes.IndexByte(b, 0)`) -/
def cutAtNul : Bytes → Bytes
  | [] => []
  | b :: bs => if b = 0 then [] else b :: cutAtNul bs

def hasNul (bs : Bytes) : Bool := bs.any (· == 0)

/-! ### hex (driver only) -/

def hexDigit (n : Nat) : Char :=
  if n < 10 then Char.ofNat (48 + n) else Char.ofNat (87 + n)

def hexOfBytes (bs : Bytes) : String :=
  if bs.isEmpty then "-" else
  String.ofList (bs.flatMap fun b => [hexDigit (b / 16 % 16), hexDigit (b % 16)])

def hexVal (c : Char) : Option Nat :=
  if '0' ≤ c ∧ c ≤ '9' then some (c.toNat - 48)
  else if 'a' ≤ c ∧ c ≤ 'f' then some (c.toNat - 87)
  else if 'A' ≤ c ∧ c ≤ 'F' then some (c.toNat - 55)
  else none

def bytesOfHexChars : List Char → Option Bytes
  | [] => some []
  | [_] => none
  | a :: b :: rest => do
    let x ← hexVal a
    let y ← hexVal b
    let r ← bytesOfHexChars rest
    pure ((x * 16 + y) :: r)

def bytesOfHex (s : String) : Option Bytes :=
  if s == "-" then some [] else bytesOfHexChars s.toList

end SmsVerif
