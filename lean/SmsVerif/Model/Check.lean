/-
  Decidable checkers over layout descriptions.  `pairOps` aligns the statements of `IEncode`
  with the statements of `IDecode` into *items* (one wire field each); every property theorem
  about a regenerated layout is discharged by evaluating these checkers (`by decide`) and
  applying a soundness theorem proved once (Lemmas/Layout.lean).
-/
import SmsVerif.Model.Layout

namespace SmsVerif

/-- one wire field: how it is written and how it is read back -/
inductive Item
  | num (k : Nat) (f : String) (conv : Bool)            -- WriteUintK([T](p.f))  ↔  p.f = T(ReadUintK())
  | cstr (f : String)                                   -- WriteCString ↔ ReadCString
  | fixedTrim (f : String) (n : Nat)                    -- WriteFixedLenString(f,n) ↔ ReadCStringN(n)
  | fixedRaw (f : String) (n : Nat)                     -- WriteFixedLenString(f,n) ↔ ReadCStringNWithoutTrim(n)
  | fixedHexOut (f : String) (n : Nat)                  -- WriteFixedLenString(f,n) ↔ hex(ReadCStringNWithoutTrim(n))   (not an inverse pair)
  | hexBoth (f : String) (n : Nat)                      -- WriteFixedLenString(unhex(f),n) ↔ hex(ReadCStringNWithoutTrim(n))
  | body (f l : String) (dyn : Bool)                    -- WriteString/WriteBytes(f) | WriteFixedLenString(f,int(l)) ↔ ReadNBytes(int(l))
  | rep (f c : String) (n : Nat) (counted app : Bool)   -- loop of WriteFixedLenString(x,n) ↔ loop of ReadCStringN(n)
  | asg (c : Option Cond) (as : List (String × Expr))   -- receiver normalisation (encoder only)
  | tail (f : String) (parse : Bool)                    -- WriteBytes(f.Bytes()) ↔ ReadTLVs1/ReadOptions (parse=false) | ParseOptions (parse=true)
  deriving Repr

/-- try to align one encoder statement with one decoder statement -/
def pairOne : EncOp → DecOp → Option Item
  | .num k (.fld f) , .num k' f' => if k = k' ∧ f = f' then some (.num k f false) else none
  | .num k (.conv k'' (.fld f)), .num k' f' => if k = k' ∧ k = k'' ∧ f = f' then some (.num k f true) else none
  | .cstr f, .cstr f' => if f = f' then some (.cstr f) else none
  | .fixed f n, .fixedTrim f' n' => if f = f' ∧ n = n' then some (.fixedTrim f n) else none
  | .fixed f n, .fixedRaw f' n' => if f = f' ∧ n = n' then some (.fixedRaw f n) else none
  | .fixed f n, .fixedRawHex f' n' => if f = f' ∧ n = n' then some (.fixedHexOut f n) else none
  | .hexFixed f n, .fixedRawHex f' n' => if f = f' ∧ n = n' then some (.hexBoth f n) else none
  | .raw f, .bytesN f' (.fld l) => if f = f' then some (.body f l false) else none
  | .fixedDyn f (.fld l), .bytesN f' (.fld l') => if f = f' ∧ l = l' then some (.body f l true) else none
  | .repRange f n, .repMake f' (.fld c) n' => if f = f' ∧ n = n' then some (.rep f c n false false) else none
  | .repRange f n, .repAppend f' (.fld c) n' => if f = f' ∧ n = n' then some (.rep f c n false true) else none
  | .repCount f (.fld c) n, .repMake f' (.fld c') n' => if f = f' ∧ n = n' ∧ c = c' then some (.rep f c n true false) else none
  | .repCount f (.fld c) n, .repAppend f' (.fld c') n' => if f = f' ∧ n = n' ∧ c = c' then some (.rep f c n true true) else none
  | .tlvs f, .tlvsRead f' => if f = f' then some (.tail f false) else none
  | .tlvs f, .optsParse f' => if f = f' then some (.tail f true) else none
  | _, _ => none

/-- align the two statement lists; encoder-only normalisation statements pair with nothing -/
def pairOps : List EncOp → List DecOp → Option (List Item)
  | [], [] => some []
  | .assign f e :: es, ds => (pairOps es ds).map (.asg none [(f, e)] :: ·)
  | .assignIf c as :: es, ds => (pairOps es ds).map (.asg (some c) as :: ·)
  | e :: es, d :: ds =>
    match pairOne e d with
    | some it => (pairOps es ds).map (it :: ·)
    | none => none
  | _, _ => none

/-! ### semantics of items over a record -/

def Item.isAsg : Item → Bool | .asg _ _ => true | _ => false
def Item.isTail : Item → Bool | .tail _ _ => true | _ => false

/-- fields whose value the item reads -/
def Item.mentions : Item → List String
  | .num _ f _ => [f] | .cstr f => [f] | .fixedTrim f _ => [f] | .fixedRaw f _ => [f]
  | .fixedHexOut f _ => [f] | .hexBoth f _ => [f]
  | .body f l _ => [f, l] | .rep f c _ _ _ => [f, c] | .asg _ _ => [] | .tail f _ => [f]

/-- fields an encoder-side normalisation assigns -/
def Item.targets : Item → List String
  | .asg _ as => as.map (·.1) | _ => []

def applyAsg (c : Option Cond) (as : List (String × Expr)) (r : Rec) : Rec :=
  let go := (as.map fun (f, e) => (f, e.eval r)).foldl (fun r (f, v) => r.set f (.num v)) r
  match c with
  | none => go
  | some c => if c.eval r then go else r

/-- the receiver after all normalisations, in order -/
def norm : List Item → Rec → Rec
  | [], r => r
  | .asg c as :: rest, r => norm rest (applyAsg c as r)
  | _ :: rest, r => norm rest r

def repBytes (n : Nat) : List Bytes → Bytes
  | [] => []
  | x :: xs => x ++ zeros (n - x.length) ++ repBytes n xs

/-- octets the item contributes to the wire image -/
def Item.bytes (r : Rec) : Item → Bytes
  | .num k f _ => be k (r.num f)
  | .cstr f => r.str f ++ [0]
  | .fixedTrim f n => r.str f ++ zeros (n - (r.str f).length)
  | .fixedRaw f n => r.str f ++ zeros (n - (r.str f).length)
  | .fixedHexOut f n => r.str f ++ zeros (n - (r.str f).length)
  | .hexBoth f n => hexDecodeLenient (r.str f) ++ zeros (n - (hexDecodeLenient (r.str f)).length)
  | .body f _ _ => r.str f
  | .rep f _ n _ _ => repBytes n (r.strs f)
  | .asg _ _ => []
  | .tail f _ => tlvsBytes (r.tlvs f)

def tagsNodup : TlvMap → Bool
  | [] => true
  | (t, _) :: rest => !(rest.any (·.1 == t)) && tagsNodup rest

/-- "the value fits the wire format", per item -/
def Item.Fits (r : Rec) : Item → Prop
  | .num k f _ => ∃ n, r.get? f = some (.num n) ∧ n < 256 ^ k
  | .cstr f => ∃ s, r.get? f = some (.str s) ∧ hasNul s = false
  | .fixedTrim f n => ∃ s, r.get? f = some (.str s) ∧ hasNul s = false ∧ s.length ≤ n
  | .fixedRaw f n => ∃ s, r.get? f = some (.str s) ∧ s.length = n
  | .fixedHexOut f n => ∃ s, r.get? f = some (.str s) ∧ s.length = n
  | .hexBoth f n => ∃ b : Bytes, r.get? f = some (.str (hexEncode b)) ∧ b.length = n ∧ ∀ x ∈ b, x < 256
  | .body f l _ => ∃ s, r.get? f = some (.str s) ∧ r.get? l = some (.num s.length)
  | .rep f c n _ _ => ∃ l : List Bytes, r.get? f = some (.strs l) ∧ r.get? c = some (.num l.length)
      ∧ ∀ s ∈ l, hasNul s = false ∧ s.length ≤ n
  | .asg _ _ => True
  | .tail f _ => ∃ l : TlvMap, r.get? f = some (.tlvs l) ∧ tagsNodup l = true
      ∧ ∀ tv ∈ l, tv.1 < 65536 ∧ tv.2.length < 65536

/-- what the decoder yields for the item's field when fed the item's bytes -/
def Item.expect (r : Rec) : Item → Option (String × Val)
  | .num _ f _ => some (f, .num (r.num f))
  | .cstr f => some (f, .str (r.str f))
  | .fixedTrim f _ => some (f, .str (r.str f))
  | .fixedRaw f _ => some (f, .str (r.str f))
  | .fixedHexOut f _ => some (f, .str (hexEncode (r.str f)))
  | .hexBoth f _ => some (f, .str (r.str f))
  | .body f _ _ => some (f, .str (r.str f))
  | .rep f _ _ _ _ => some (f, .strs (r.strs f))
  | .asg _ _ => none
  | .tail f _ => some (f, .tlvs (r.tlvs f))

/-- the item is a true inverse pair (decode returns the encoded value itself) -/
def Item.exact : Item → Bool
  | .fixedHexOut _ _ => false
  | _ => true

/-- minimal number of octets the item occupies -/
def Item.minLen : Item → Nat
  | .num k _ _ => k | .cstr _ => 1 | .fixedTrim _ n => n | .fixedRaw _ n => n | .fixedHexOut _ n => n
  | .hexBoth _ n => n | _ => 0

def disjoint (a b : List String) : Bool := a.all fun x => !b.contains x

/-- no normalisation assigns a field that an earlier item has already put on the wire -/
def asgOK : List Item → Bool
  | [] => true
  | it :: rest => (rest.all fun a => disjoint a.targets it.mentions) && asgOK rest

/-- fields the decoder statement looks up in the PDU decoded so far (length / count) -/
def Item.deps : Item → List String
  | .body _ l _ => [l]
  | .rep _ c _ _ _ => [c]
  | _ => []

/-- list fields the decoder appends to (they must still be empty) -/
def Item.appends : Item → List String
  | .rep f _ _ _ true => [f]
  | _ => []

/-- the field the decoder statement assigns -/
def Item.sets : Item → List String
  | .asg _ _ => []
  | it => it.mentions.take 1

/-- decoder-side well-formedness: length / count references point backwards to a field that was
    decoded by a true inverse pair (`seen`), and a list the decoder appends to has not been
    assigned before (`touched`). -/
def decOK : List String → List String → List Item → Bool
  | _, _, [] => true
  | seen, touched, it :: rest =>
    it.deps.all seen.contains && it.appends.all (fun g => !touched.contains g) &&
    decOK (if it.exact then it.sets ++ seen else seen.filter (fun g => !it.sets.contains g))
          (it.sets ++ touched) rest

/-- an optional-parameter tail, if any, is the last item -/
def tailLast : List Item → Bool
  | [] => true
  | [_] => true
  | it :: rest => !it.isTail && tailLast rest

def hasUnsupported (p : PduDesc) : Bool :=
  p.enc.any (fun | .unsupported _ => true | _ => false) || p.dec.any (fun | .unsupported _ => true | _ => false)

/-- decoder statements after the optional guard -/
def decBody : List DecOp → List DecOp
  | .guard _ :: ds => ds
  | ds => ds

/-- the items of a PDU: for length-prefixed encoders the decoder's first statement reads the
    length word, which the encoder's statement list does not contain -/
def PduDesc.items (p : PduDesc) : Option (String × List Item) :=
  -- an early-return statement (`stopIfAbsent`) is not an item: the items describe the image with its body
  match p.fin, (decBody p.dec).filter (fun d => !d.isStop) with
  | .withLength, .num 4 lf :: ds => (pairOps p.enc ds).map fun its => (lf, its)
  | .plain, ds => (pairOps p.enc ds).map fun its => ("", its)
  | _, _ => none

def sumMinLen : List Item → Nat
  | [] => 0
  | it :: rest => it.minLen + sumMinLen rest

def allSets (its : List Item) : List String := its.flatMap Item.sets

/-- the round-trip checker (C01) -/
def PduDesc.checkRoundTrip (p : PduDesc) : Bool :=
  !hasUnsupported p &&
  match p.items with
  | none => false
  | some (lf, its) =>
    let wl := p.fin == .withLength
    asgOK its && decOK [] (if wl then [lf] else []) its && tailLast its && its.all Item.exact &&
    (!wl || !(allSets its).contains lf) &&
    p.fields.all (fun ft => (wl && ft.1 == lf) || (allSets its).contains ft.1) &&
    guardOf p.dec ≤ sumMinLen its + (if wl then 4 else 0) &&
    p.dec.all (fun d => !d.isStop)     -- a conditional body is outside the round-trip theorem

end SmsVerif
