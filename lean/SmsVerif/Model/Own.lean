/-
  Memory ownership (C12) and pooled-buffer hand-off under interleaving (C13).

  The model is a heap of allocations (`Nat ↦ Bytes`), a free list standing for the shared buffer
  pool (`bytebufferpool` / `sync.Pool`: `Get` pops or allocates, `Put` pushes; both atomic), and
  the values the library hands out as *references* into allocations.  Where a returned byte
  slice lives — a fresh allocation, the caller's input buffer, a pooled buffer, the connection
  buffer — is a per-primitive fact (`OwnFacts`), written down by hand below and compared on every
  run with pointer-overlap observations on the implementation (`own facts` line of the driver).

  Modelled, not verified: Go's garbage collector (a fresh allocation is never the storage of a
  live object), `sync.Pool` / `bytebufferpool` as linearizable `Get`/`Put`, the Go memory model
  (the C13 interleaving semantics is sequentially consistent at the granularity of the steps).
-/
import SmsVerif.Model.Bytes

namespace SmsVerif.Own

/-- where the storage of a returned byte slice lives -/
inductive Prov
  | fresh     -- allocated by the call, referenced by nothing else
  | input     -- inside the caller's input buffer
  | pool      -- inside a pooled buffer that goes back to the pool
  | conn      -- inside the connection's read buffer (documented for the frame extractor)
  deriving DecidableEq, Repr

def Prov.code : Prov → String
  | .fresh => "fresh" | .input => "alias" | .pool => "pool" | .conn => "view"

/-- the ownership facts of the library's primitives -/
structure OwnFacts where
  writerBytes : Prov         -- packet.Writer.Bytes / BytesWithLength: copy-out before the deferred Release
  readerBytes : Prov         -- packet.Reader.Bytes(): the unread part of the input, a view
  readNBytes : Prov          -- packet.Reader.ReadNBytes: filled from a fresh `make`
  parseOptions : Prov        -- smgp.ParseOptions: option values relative to `rawData`
  readOptions : Prov         -- smgp.ReadOptions / smpp.ReadTLVs / ReadTLVs1: values read into fresh slices
  tlvBytes : Prov            -- TLV.Bytes / TLVs.Bytes / Options.Serialize relative to the stored values
  frame : Prov               -- codec.Decode: a Peek view of the connection buffer
  stringer : Prov            -- PDUStringer.String(): the builder is reset, never truncated, before reuse
  ucs2Pooled : Prov          -- cmpp.Utf8ToUcs2Pooled: `ByteBuffer.String()` copies before `Put`
  deriving DecidableEq, Repr

/-- what the code does (hand-written; tied to the implementation by the `own facts` correspondence) -/
def facts : OwnFacts :=
  { writerBytes := .fresh, readerBytes := .input, readNBytes := .fresh, parseOptions := .fresh,
    readOptions := .fresh, tlvBytes := .fresh, frame := .conn, stringer := .fresh, ucs2Pooled := .fresh }

def OwnFacts.render (f : OwnFacts) : String :=
  s!"writerBytes={f.writerBytes.code} readerBytes={f.readerBytes.code} readNBytes={f.readNBytes.code} " ++
  s!"parseOptions={f.parseOptions.code} readOptions={f.readOptions.code} tlvBytes={f.tlvBytes.code} " ++
  s!"frame={f.frame.code} stringer={f.stringer.code} ucs2Pooled={f.ucs2Pooled.code}"

/-- what a decoder returns is the composition: a parser applied to a view of the input keeps the
    parser's own provenance unless the parser aliases its argument -/
def Prov.through (parser view : Prov) : Prov :=
  match parser with
  | .input => view     -- the parser keeps sub-slices of what it was given
  | p => p

/-! ## heap, references, pool -/

/-- an allocation is named by its index in the heap -/
abbrev Loc := Nat

structure Heap where
  mem : List Bytes := []
  deriving Repr

def Heap.read (h : Heap) (l : Nat) : Bytes := h.mem.getD l []
def Heap.alloc (h : Heap) (b : Bytes) : Heap × Nat := ({ mem := h.mem ++ [b] }, h.mem.length)
def Heap.write (h : Heap) (l : Nat) (b : Bytes) : Heap := { mem := h.mem.set l b }

/-- a returned byte slice: `len` octets at `off` inside allocation `loc` -/
structure Ref where
  loc : Nat
  off : Nat
  len : Nat
  deriving DecidableEq, Repr

def Ref.deref (h : Heap) (r : Ref) : Bytes := ((h.read r.loc).drop r.off).take r.len

/-! ## C12: sequential histories -/

/-- what the caller and the library do, one event per call -/
inductive Event
  /-- `IDecode(in)`: the caller's buffer holds `img`; the library returns, for each byte-slice field,
      `len` octets found at `off`, with the given provenance; then the caller overwrites `in` -/
  | decode (img : Bytes) (fields : List (Nat × Nat × Prov)) (junk : Nat)
  /-- `IEncode()` (also `String()`, pooled helpers): the library takes a pooled buffer, writes `out`
      into it, returns the result with the given provenance, and puts the buffer back -/
  | encode (out : Bytes) (p : Prov)
  /-- the caller overwrites the storage of the `i`-th result it holds (it owns it) -/
  | reuse (i : Nat) (junk : Nat)
  deriving Repr

structure World where
  heap : Heap := {}
  free : List Nat := []            -- the pool
  results : List Ref := []         -- everything the library has returned so far, oldest first
  deriving Repr

def fill (n junk : Nat) : Bytes := List.replicate n junk

/-- the references a decoder returns for its byte-slice fields -/
def mkRefs (inp : Nat) (img : Bytes) : Heap → List (Nat × Nat × Prov) → Heap × List Ref
  | h, [] => (h, [])
  | h, (off, len, .fresh) :: fs =>
    let (h', l) := h.alloc ((img.drop off).take len)
    let (h'', rs) := mkRefs inp img h' fs
    (h'', ⟨l, 0, len⟩ :: rs)
  | h, (off, len, _) :: fs =>
    let (h'', rs) := mkRefs inp img h fs
    (h'', ⟨inp, off, len⟩ :: rs)

/-- `pool.Get()`: a buffer from the free list, or a new one -/
def getBuf (h : Heap) (free : List Nat) : Heap × Nat × List Nat :=
  match free with
  | l :: rest => (h, l, rest)
  | [] => let (h', l) := h.alloc []; (h', l, [])

def World.step (w : World) : Event → World
  | .decode img fields junk =>
    let (h1, inp) := w.heap.alloc img
    let (h2, refs) := mkRefs inp img h1 fields
    -- the caller reuses its buffer immediately
    { w with heap := h2.write inp (fill img.length junk), results := w.results ++ refs }
  | .encode out p =>
    let (h1, b, free1) := getBuf w.heap w.free
    let h2 := h1.write b out
    match p with
    | .fresh =>
      let (h3, l) := h2.alloc out
      { heap := h3, free := b :: free1, results := w.results ++ [⟨l, 0, out.length⟩] }
    | _ => { heap := h2, free := b :: free1, results := w.results ++ [⟨b, 0, out.length⟩] }
  | .reuse i junk =>
    match w.results[i]? with
    | some r => { w with heap := w.heap.write r.loc (fill (w.heap.read r.loc).length junk) }
    | none => w

def World.run (w : World) (es : List Event) : World := es.foldl World.step w

/-- every provenance an event mentions is `fresh` -/
def Event.allFresh : Event → Bool
  | .decode _ fields _ => fields.all fun f => f.2.2 == .fresh
  | .encode _ p => p == .fresh
  | .reuse _ _ => true

/-! ## C13: interleaved encoders over the shared pool -/

/-- one goroutine running one `IEncode`: take a pooled buffer, append the octets one write at a
    time, copy the result out, put the buffer back -/
inductive Th
  | idle (todo : Bytes)
  | writing (buf : Nat) (rest all : Bytes)
  | done (res : Nat) (all : Bytes)
  deriving Repr, DecidableEq

structure Sys where
  heap : Heap := {}
  free : List Nat := []
  ths : List Th
  deriving Repr

/-- one atomic step of thread `t` -/
def Sys.step (s : Sys) (t : Nat) : Sys :=
  match s.ths[t]? with
  | some (.idle todo) =>
    -- pool.Get() followed by Reset()
    match s.free with
    | l :: rest => { heap := s.heap.write l [], free := rest, ths := s.ths.set t (.writing l todo todo) }
    | [] =>
      let (h', l) := s.heap.alloc []
      { heap := h', free := [], ths := s.ths.set t (.writing l todo todo) }
  | some (.writing b (x :: rest) all) =>
    { s with heap := s.heap.write b (s.heap.read b ++ [x]), ths := s.ths.set t (.writing b rest all) }
  | some (.writing b [] all) =>
    -- copy-out, then the deferred Release (pool.Put)
    let (h', l) := s.heap.alloc (s.heap.read b)
    { heap := h', free := b :: s.free, ths := s.ths.set t (.done l all) }
  | _ => s

def Sys.run (s : Sys) (sched : List Nat) : Sys := sched.foldl Sys.step s

/-- the faulty variant used to show the theorem has teeth: the buffer goes back to the pool
    *before* the result is copied out (or: the result is a view of the pooled buffer) -/
def Sys.stepEarlyPut (s : Sys) (t : Nat) : Sys :=
  match s.ths[t]? with
  | some (.writing b [] all) => { s with free := b :: s.free, ths := s.ths.set t (.done b all) }
  | _ => s.step t

end SmsVerif.Own
