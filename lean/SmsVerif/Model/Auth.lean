/-
  Login authenticators (C15): the octet strings the MD5 digests are computed over.
  `crypto/md5` itself is not modelled (an uninterpreted function in the theorems).
-/
import SmsVerif.Model.Bytes

namespace SmsVerif

/-- `n` decimal digits of `t`, most significant first, zero padded (ASCII) — `fmt.Sprintf("%0nd", t)`
    for `t < 10^n` -/
def decDigits : Nat → Nat → Bytes
  | 0, _ => []
  | n+1, t => decDigits n (t / 10) ++ [48 + t % 10]

/-- `cmpp.TimeStamp2Str` / `fmt.Sprintf("%010d", timestamp)` for a 32-bit timestamp -/
def ts10 (t : Nat) : Bytes := decDigits 10 t

def parseDec (bs : Bytes) : Nat := bs.foldl (fun acc b => acc * 10 + (b - 48)) 0

/-- CMPP `AuthenticatorSource` digest input: Source_Addr ++ 9 zero octets ++ shared secret ++ timestamp -/
def cmppAuthInput (account secret : Bytes) (ts : Nat) : Bytes := account ++ zeros 9 ++ secret ++ ts10 ts

/-- SMGP `AuthenticatorClient` digest input: ClientID ++ 7 zero octets ++ shared secret ++ timestamp -/
def smgpAuthInput (account secret : Bytes) (ts : Nat) : Bytes := account ++ zeros 7 ++ secret ++ ts10 ts

/-- CMPP `AuthenticatorISMG` digest input: Status ++ AuthenticatorSource ++ shared secret -/
def cmppRespAuthInput (status reqAuth secret : Bytes) : Bytes := status ++ reqAuth ++ secret

end SmsVerif
