/-
  Model of `packet/writer.go` and `packet/reader.go`, transcribed statement by statement.

  Modelled rather than verified here: `bytebufferpool.ByteBuffer` / `bytes.Buffer` (an
  append-only octet list / a consumed-from-the-front octet list), `encoding/binary`
  (big-endian fixed-width integers; `io.ReadFull` drains the buffer on a short read and reports
  `io.EOF` on an empty one, `io.ErrUnexpectedEOF` otherwise).
-/
import SmsVerif.Model.Bytes

namespace SmsVerif

/-- the error kinds the packet layer can record (the Go errors, mapped to a small enum) -/
inductive PErr
  | tooLong        -- WriteFixedLenString: s is longer than the defined length
  | eof            -- io.EOF (empty buffer)
  | unexpectedEOF  -- io.ErrUnexpectedEOF (binary.Read, partial)
  | short          -- "read unexpected length" / "the data read is less than expected"
  deriving DecidableEq, Repr, Inhabited

def PErr.code : PErr → String
  | .tooLong => "toolong" | .eof => "eof" | .unexpectedEOF => "ueof" | .short => "short"

/-! ## Writer -/

structure Writer where
  buf : Bytes := []
  written : Nat := 0
  err : Option PErr := none
  deriving Repr, DecidableEq

namespace Writer

/-- `WriteUint8/16/32/64` (k = 1,2,4,8).  The count is bumped only when the write happened. -/
def writeNum (w : Writer) (k n : Nat) : Writer :=
  match w.err with
  | some _ => w
  | none => { w with buf := w.buf ++ be k n, written := w.written + k }

/-- `WriteBytes` / `WriteString` -/
def writeBytes (w : Writer) (d : Bytes) : Writer :=
  match w.err with
  | some _ => w
  | none => { w with buf := w.buf ++ d, written := w.written + d.length }

/-- `WriteCString` -/
def writeCString (w : Writer) (s : Bytes) : Writer :=
  match w.err with
  | some _ => w
  | none => { w with buf := w.buf ++ s ++ [0], written := w.written + s.length + 1 }

/-- `WriteFixedLenString(s, n)`; `n` is a Go `int` (never negative at any call site: it is a
    constant or a conversion from an unsigned field). -/
def writeFixed (w : Writer) (s : Bytes) (n : Nat) : Writer :=
  match w.err with
  | some _ => w
  | none =>
    if s.length > n then { w with err := some .tooLong }
    else { w with buf := w.buf ++ s ++ zeros (n - s.length), written := w.written + n }

/-- `Bytes()` -/
def bytes (w : Writer) : Except PErr Bytes :=
  match w.err with
  | some e => .error e
  | none => .ok w.buf

/-- `BytesWithLength()`: `res := make([]byte, 4+written); PutUint32(res, written+4); copy(res[4:], buf)` -/
def bytesWithLength (w : Writer) : Except PErr Bytes :=
  match w.err with
  | some e => .error e
  | none => .ok (be 4 (w.written + 4) ++ (w.buf ++ zeros (w.written - w.buf.length)).take w.written)

/-- `Len()` -/
def len (w : Writer) : Nat :=
  match w.err with
  | some _ => 0
  | none => w.buf.length

end Writer

/-! ## Reader -/

structure Reader where
  rest : Bytes
  err : Option PErr := none
  /-- octets requested from the allocator by `make([]byte, n)` so far (C03) -/
  alloc : Nat := 0
  deriving Repr, DecidableEq

namespace Reader

def fail (r : Reader) (e : PErr) : Reader := { r with err := some e }

/-- `ReadUint8/16/32/64` -/
def readNum (r : Reader) (k : Nat) : Nat × Reader :=
  match r.err with
  | some _ => (0, r)
  | none =>
    if k ≤ r.rest.length then (fromBe (r.rest.take k), { r with rest := r.rest.drop k })
    else if r.rest.isEmpty then (0, { r with err := some .eof })
    else (0, { r with rest := [], err := some .unexpectedEOF })

/-- the common core of `ReadCStringN`, `ReadCStringNWithoutTrim`, `ReadNBytes`: read exactly
    `n > 0` octets.  The request is checked against what is buffered *before* allocating. -/
def readExact (r : Reader) (n : Nat) : Option Bytes × Reader :=
  if r.rest.isEmpty then (none, { r with err := some .eof })
  else if r.rest.length < n then (none, { r with rest := [], err := some .short })
  else (some (r.rest.take n), { r with rest := r.rest.drop n, alloc := r.alloc + n })

/-- `ReadCStringN(n)` for `n : int` given as an integer -/
def readCStringN (r : Reader) (n : Nat) : Bytes × Reader :=
  match r.err with
  | some _ => ([], r)
  | none =>
    if n = 0 then ([], r) else
    (((r.readExact n).1.map cutAtNul).getD [], (r.readExact n).2)

def readCStringNRaw (r : Reader) (n : Nat) : Bytes × Reader :=
  match r.err with
  | some _ => ([], r)
  | none =>
    if n = 0 then ([], r) else
    ((r.readExact n).1.getD [], (r.readExact n).2)

/-- `ReadNBytes(n)`; `nil` and empty are identified -/
def readNBytes (r : Reader) (n : Nat) : Bytes × Reader := r.readCStringNRaw n

/-- split at the first NUL: `(before, after)`; `none` when there is no NUL -/
def splitNul : Bytes → Option (Bytes × Bytes)
  | [] => none
  | b :: bs =>
    if b = 0 then some ([], bs) else
    match splitNul bs with
    | some (x, y) => some (b :: x, y)
    | none => none

/-- `ReadCString()`: `bytes.Buffer.ReadString(0)` consumes everything when no delimiter is found -/
def readCString (r : Reader) : Bytes × Reader :=
  match r.err with
  | some _ => ([], r)
  | none =>
    match splitNul r.rest with
    | some (x, y) => (x, { r with rest := y })
    | none => ([], { r with rest := [], err := some .eof })

/-- `ReadBytes(receiver)` with `len(receiver) = n`; returns the receiver's new content -/
def readBytes (r : Reader) (n : Nat) : Bytes × Reader :=
  match r.err with
  | some _ => (zeros n, r)
  | none =>
    if n = 0 then ([], r)
    else if r.rest.isEmpty then (zeros n, { r with err := some .eof })
    else if r.rest.length < n then
      (r.rest ++ zeros (n - r.rest.length), { r with rest := [], err := some .short })
    else (r.rest.take n, { r with rest := r.rest.drop n })

/-- `Bytes()` -/
def bytes (r : Reader) : Bytes :=
  match r.err with
  | some _ => []
  | none => r.rest

def remaining (r : Reader) : Nat := r.rest.length

def setErrNil (r : Reader) : Reader := { r with err := none }

end Reader

/-! ## Operation sequences (C20) -/

inductive WOp
  | num (k n : Nat)       -- k ∈ {1,2,4,8}
  | bytes (d : Bytes)     -- WriteBytes / WriteString
  | cstr (s : Bytes)
  | fixed (s : Bytes) (n : Nat)
  deriving Repr, DecidableEq

def Writer.step (w : Writer) : WOp → Writer
  | .num k n => w.writeNum k n
  | .bytes d => w.writeBytes d
  | .cstr s => w.writeCString s
  | .fixed s n => w.writeFixed s n

def Writer.run (w : Writer) (ops : List WOp) : Writer := ops.foldl Writer.step w

inductive ROp
  | num (k : Nat)
  | cstrN (n : Nat)
  | rawN (n : Nat)        -- ReadCStringNWithoutTrim / ReadNBytes
  | cstr
  | bytes (n : Nat)       -- ReadBytes into a receiver of length n
  deriving Repr, DecidableEq

/-- a value returned by a read -/
inductive RVal
  | n (v : Nat)
  | b (v : Bytes)
  deriving Repr, DecidableEq

def Reader.step (r : Reader) : ROp → RVal × Reader
  | .num k => let (v, r') := r.readNum k; (.n v, r')
  | .cstrN n => let (v, r') := r.readCStringN n; (.b v, r')
  | .rawN n => let (v, r') := r.readCStringNRaw n; (.b v, r')
  | .cstr => let (v, r') := r.readCString; (.b v, r')
  | .bytes n => let (v, r') := r.readBytes n; (.b v, r')

def Reader.run : Reader → List ROp → List RVal × Reader
  | r, [] => ([], r)
  | r, op :: ops =>
    let (v, r') := r.step op
    let (vs, r'') := Reader.run r' ops
    (v :: vs, r'')

end SmsVerif
