/-
  The batch encoder (`batchencoder.go`, `Build`): candidates are enumerated in an order chosen by
  the runtime (map iteration, goroutine completion), each is encoded independently, the unusable
  ones are filtered out, the rest is sorted by (number of parts, coding priority) with `sort.Sort`
  and the head is returned.
-/
import SmsVerif.Model.Gsm7

namespace SmsVerif.Batch

structure Cand where
  coding : Nat
  prio : Nat        -- Priority(): smaller is preferred
  can : Bool        -- the coding can represent the content (and it fits 255 parts)
  parts : Nat
  deriving DecidableEq, Repr

/-- `Less` of the sorter: fewer parts first, then the smaller priority value -/
def less (p q : Cand) : Prop := p.parts < q.parts ∨ (p.parts = q.parts ∧ p.prio < q.prio)

instance (p q : Cand) : Decidable (less p q) := by unfold less; infer_instance

/-- an executable choice function: the first minimum -/
def pickMin : List Cand → Option Cand
  | [] => none
  | c :: rest =>
    match pickMin rest with
    | none => some c
    | some m => if less m c then some m else some c

inductive Outcome
  | picked (c : Cand)
  | fallbackUcs2
  | error
  deriving DecidableEq, Repr

/-- `Build` for one enumeration order `cs` of the (deduplicated) candidates.
    `empty`: empty content or no candidates; `hasUcs2`: SMPP UCS2 among the candidates;
    `fallbackOk`: the protocol has a UCS2 fallback and it can encode the content -/
def build (empty hasUcs2 fallbackOk : Bool) (cs : List Cand) : Outcome :=
  if empty then .error
  else
    match pickMin (cs.filter (·.can)) with
    | some c => .picked c
    | none => if !hasUcs2 && fallbackOk then .fallbackUcs2 else .error

end SmsVerif.Batch
