/-
  Stream framing (`codec/cmpp.go`, `codec/smpp.go`): the non-blocking extractor over the bytes a
  connection has buffered, and the blocking extractor over a stream that may end or fail.
  Both codecs are the same code with the same 4-octet big-endian total-length prefix.
-/
import SmsVerif.Model.Bytes

namespace SmsVerif.Framing

inductive NB
  | frame (f rest : Bytes)   -- a complete frame was returned and exactly its octets consumed
  | incomplete               -- ErrPacketNotComplete, nothing consumed
  | invalid                  -- a length prefix smaller than the prefix itself: error, nothing consumed
  deriving DecidableEq, Repr

/-- `Decode(c)` on the buffered octets `buf` (`Peek(4)`, `Size()`, `Peek(total)`, `Discard(total)`) -/
def decodeNB (buf : Bytes) : NB :=
  if buf.length < 4 then .incomplete
  else
    let n := fromBe (buf.take 4)
    if n < 4 then .invalid
    else if buf.length < n then .incomplete
    else .frame (buf.take n) (buf.drop n)

/-- call the extractor until it stops returning frames: (frames, what stays buffered, invalid prefix seen) -/
def extractAll : Nat → Bytes → List Bytes × Bytes × Bool
  | 0, buf => ([], buf, false)
  | fuel+1, buf =>
    match decodeNB buf with
    | .frame f rest =>
      let (fs, r, bad) := extractAll fuel rest
      (f :: fs, r, bad)
    | .incomplete => ([], buf, false)
    | .invalid => ([], buf, true)

/-- the receiving side: on every arrival append to the buffer and extract; an invalid prefix closes the connection -/
structure Conn where
  buf : Bytes := []
  delivered : List Bytes := []
  closed : Bool := false
  deriving Repr

def Conn.arrive (c : Conn) (chunk : Bytes) : Conn :=
  if c.closed then c else
  let (fs, r, bad) := extractAll ((c.buf ++ chunk).length + 1) (c.buf ++ chunk)
  { buf := r, delivered := c.delivered ++ fs, closed := bad }

/-! ### blocking extractor -/

/-- a stream that yields `data` and then ends with `io.EOF` (`fail = false`) or a read error -/
structure Stream where
  data : Bytes
  fail : Bool := false

inductive BErr | eof | unexpectedEOF | readError | badPrefix
  deriving DecidableEq, Repr

/-- `io.ReadFull(c, buf[:n])` -/
def readFull (s : Stream) (n : Nat) : Except BErr (Bytes × Stream) :=
  if n ≤ s.data.length then .ok (s.data.take n, { s with data := s.data.drop n })
  else if s.fail then .error .readError
  else if s.data.isEmpty then .error .eof
  else .error .unexpectedEOF

/-- `DecodeBlocked(c)`: result and the octets consumed from the stream -/
def decodeBlocked (s : Stream) : Except BErr Bytes × Nat :=
  match readFull s 4 with
  | .error e => (.error e, s.data.length)           -- a failed ReadFull has drained what was there
  | .ok (pre, s1) =>
    let n := fromBe pre
    if n < 4 then (.error .badPrefix, 4)
    else
      match readFull s1 (n - 4) with
      | .error e => (.error e, s.data.length)
      | .ok (body, _) => (.ok (pre ++ body), n)

/-- a connection drained by repeated `DecodeBlocked` until the first error: the results in order -/
def blockedAll (fuel : Nat) (data : Bytes) : List (Except BErr Bytes) :=
  match fuel with
  | 0 => []
  | fuel + 1 =>
    match decodeBlocked ⟨data, false⟩ with
    | (.ok f, n) => .ok f :: blockedAll fuel (data.drop n)
    | (.error e, _) => [.error e]

/-- two connections served by one extractor: the extractor has no state, so whatever the interleaving of their
    reads each connection yields what it yields alone (this *is* the specification of sharing a codec value) -/
def blockedPair (a b : Bytes) : List (Except BErr Bytes) × List (Except BErr Bytes) :=
  (blockedAll 64 a, blockedAll 64 b)

end SmsVerif.Framing
