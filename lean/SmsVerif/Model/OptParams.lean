/-
  Optional parameters: SMPP TLVs (`smpp/pdu_tlv.go`) and SMGP options (`smgp/options.go`).

  A container is a Go `map[uint16]…`; it is modelled as an association list with "last write
  wins" (`upsert`).  Serialisation iterates the map in an order chosen by the runtime: the
  model takes the emission order as an explicit argument (any list of the entries).
-/
import SmsVerif.Model.Packet

namespace SmsVerif

abbrev Tlv := Nat × Bytes          -- (tag, value); the stored `length` is `uint16(len(value))`
abbrev TlvMap := List Tlv

def TlvMap.upsert : TlvMap → Nat → Bytes → TlvMap
  | [], t, v => [(t, v)]
  | (t', v') :: rest, t, v => if t' = t then (t, v) :: rest else (t', v') :: TlvMap.upsert rest t v

def TlvMap.find? : TlvMap → Nat → Option Bytes
  | [], _ => none
  | (t', v') :: rest, t => if t' = t then some v' else TlvMap.find? rest t

/-- `TLV.Bytes()` / `Option.Bytes()` of a value built by `NewTLV` / `NewOption` / a parser:
    `length = uint16(len(value))`, `b := make([]byte, int(length)+4)`, `copy(b[4:], value)`. -/
def tlvBytes (t : Tlv) : Bytes :=
  let l := t.2.length % 65536
  be 2 t.1 ++ be 2 l ++ t.2.take l

/-- `TLVs.Bytes()` / `Options.Serialize()` for one emission order -/
def tlvsBytes (order : List Tlv) : Bytes := (order.map tlvBytes).flatten

/-! ### the reader-based parsers: `smpp.ReadTLVs1`, `smpp.ReadTLVs`, `smgp.ReadOptions` -/

/-- result of a parser that can give up: the map (or `none` for Go `nil` after a hard failure) -/
structure TlvParse where
  map : Option TlvMap
  rd : Reader

/-- the shared loop of `ReadTLVs1` / `ReadOptions`; `fuel` bounds the iterations (every
    iteration that continues consumes at least four octets). -/
def readTlvLoop : Nat → Reader → TlvMap → TlvParse
  | 0, r, m => ⟨some m, r⟩          -- unreachable with fuel > remaining
  | fuel+1, r, m =>
    if r.remaining = 0 then ⟨some m, r⟩ else
    let (hd, r1) := r.readBytes 4
    match r1.err with
    | some .eof => ⟨some m, r1.setErrNil⟩
    | some _ => ⟨none, r1⟩
    | none =>
      let tag := fromBe (hd.take 2)
      let len := fromBe (hd.drop 2)
      -- value := make([]byte, min(length, r.Remaining()+1)): the untrusted length never sizes the buffer beyond the input
      let r1a := { r1 with alloc := r1.alloc + min len (r1.remaining + 1) }
      let (v, r2) := r1a.readBytes len
      match r2.err with
      | some .eof => ⟨some m, r2.setErrNil⟩
      | some _ => ⟨none, r2⟩
      | none => readTlvLoop fuel r2 (m.upsert tag v)

/-- `ReadTLVs1(r)` / `ReadOptions(r)`: `nil` when nothing remains or an error is pending -/
def readTlvs (r : Reader) : TlvParse :=
  if r.remaining = 0 then ⟨none, r⟩
  else if r.err.isSome then ⟨none, r⟩
  else readTlvLoop (r.remaining + 1) r []

/-! ### `smgp.ParseOptions(rawData)` -/

def parseOptionsLoop : Nat → Bytes → TlvMap → Option TlvMap
  | 0, _, m => some m
  | fuel+1, bs, m =>
    if bs.isEmpty then some m
    else if bs.length < 4 then none
    else
      let tag := fromBe (bs.take 2)
      let len := fromBe ((bs.drop 2).take 2)
      let rest := bs.drop 4
      if rest.length < len then none
      else parseOptionsLoop fuel (rest.drop len) (m.upsert tag (rest.take len))

/-- `none` = `ErrLength` -/
def parseOptions (bs : Bytes) : Option TlvMap := parseOptionsLoop (bs.length + 1) bs []

end SmsVerif
