/-
  Text codings (`datacoding/*.go`): texts are lists of Unicode scalar values; a coding maps a text
  to octets (or septets) or refuses it.  ASCII and UTF-16BE ("UCS-2") are modelled here; GSM 7-bit
  is `Model/Gsm7.lean`; Windows-1252 (`datacoding.Latin1`) is the table of the WHATWG / Microsoft code page;
  GB18030 lives in golang.org/x/text and is not modelled.
-/
import SmsVerif.Model.Gsm7

namespace SmsVerif.Text

def isScalar (c : Nat) : Bool := c < 0xD800 || (0xE000 ≤ c && c < 0x110000)

/-! ### a coding as a per-scalar prefix code -/

structure Coding where
  code : Nat → Option (List Nat)              -- units of one scalar, `none` = outside the repertoire
  step : List Nat → Option (Nat × List Nat)   -- read one scalar off the front

def encodeAll (c : Coding) : List Nat → Option (List Nat)
  | [] => some []
  | s :: rest =>
    match c.code s with
    | none => none
    | some u => (encodeAll c rest).map (u ++ ·)

def decodeAll (c : Coding) : Nat → List Nat → Option (List Nat)
  | 0, _ => none
  | _, [] => some []
  | fuel+1, u =>
    match c.step u with
    | none => none
    | some (s, rest) => (decodeAll c fuel rest).map (s :: ·)

/-! ### ASCII -/

def ascii : Coding where
  code s := if s < 128 then some [s] else none
  step
    | [] => none
    | b :: rest => if b < 128 then some (b, rest) else none

/-! ### UTF-16BE -/

def utf16 : Coding where
  code s :=
    if ¬ isScalar s then none
    else if s < 0x10000 then some [s / 256, s % 256]
    else
      let v := s - 0x10000
      let hi := 0xD800 + v / 1024
      let lo := 0xDC00 + v % 1024
      some [hi / 256, hi % 256, lo / 256, lo % 256]
  step
    | a :: b :: rest =>
      let w := a * 256 + b
      if 0xD800 ≤ w ∧ w < 0xDC00 then
        match rest with
        | c :: d :: rest' =>
          let w2 := c * 256 + d
          if 0xDC00 ≤ w2 ∧ w2 < 0xE000 then some (0x10000 + (w - 0xD800) * 1024 + (w2 - 0xDC00), rest') else none
        | _ => none
      else if 0xDC00 ≤ w ∧ w < 0xE000 then none
      else some (w, rest)
    | _ => none

/-! ### Windows-1252 (`datacoding.Latin1` uses `charmap.Windows1252`) -/

/-- code points of octets 0x80..0x9F (Microsoft code page 1252 as golang.org/x/text carries it: the
    five octets 81, 8D, 8F, 90, 9D are undefined — they decode to U+FFFD and nothing encodes to them) -/
def win1252Hi : List Nat :=
  [0x20AC, 0xFFFD, 0x201A, 0x0192, 0x201E, 0x2026, 0x2020, 0x2021, 0x02C6, 0x2030, 0x0160, 0x2039, 0x0152, 0xFFFD, 0x017D, 0xFFFD,
   0xFFFD, 0x2018, 0x2019, 0x201C, 0x201D, 0x2022, 0x2013, 0x2014, 0x02DC, 0x2122, 0x0161, 0x203A, 0x0153, 0xFFFD, 0x017E, 0x0178]

/-- position of `s` in `t`, counted from `i` -/
def lookupFrom : List Nat → Nat → Nat → Option Nat
  | [], _, _ => none
  | x :: xs, s, i => if x = s then some i else lookupFrom xs s (i + 1)

def win1252Dec (b : Nat) : Nat := if b < 0x80 ∨ 0xA0 ≤ b then b else win1252Hi.getD (b - 0x80) 0xFFFD

def win1252 : Coding where
  code s :=
    if s < 0x80 ∨ (0xA0 ≤ s ∧ s < 0x100) then some [s]
    else if s = 0xFFFD then none
    else (lookupFrom win1252Hi s 0).map fun i => [0x80 + i]
  step
    | [] => none
    | b :: rest => if b < 256 then some (win1252Dec b, rest) else none

/-! ### selection tables (hand-written; tied to the code by exhaustive correspondence over 0..255) -/

inductive Codec | ascii | latin1 | ucs2 | gb18030 | gsm7 | gsm7packed
  deriving DecidableEq, Repr

/-- `datacoding.NewCMPPCodec` -/
def cmppEncoder (n : Nat) : Option Codec :=
  if n = 0 then some .ascii else if n = 15 then some .gb18030 else if n = 8 ∨ n = 9 then some .ucs2 else none

/-- `DecodeCMPPCContent` -/
def cmppDecoder (n : Nat) : Option Codec :=
  if n = 0 then some .ascii else if n = 15 then some .gb18030 else if n = 8 ∨ n = 9 then some .ucs2 else none

/-- `datacoding.NewSMPPCodec` (99 is the library's own number for packed GSM 7-bit) -/
def smppEncoder (n : Nat) : Option Codec :=
  if n = 99 then some .gsm7packed else if n = 0 then some .gsm7 else if n = 1 then some .ascii
  else if n = 3 then some .latin1 else if n = 8 then some .ucs2 else none

/-- `DecodeSMPPCContent`: data_coding 0 is decoded as unpacked GSM 7-bit first (packed as fallback) -/
def smppDecoder (n : Nat) : Option Codec :=
  if n = 0 then some .gsm7 else if n = 1 then some .ascii else if n = 3 then some .latin1
  else if n = 8 then some .ucs2 else none

/-- the number that goes on the wire for a library coding (`ToUint8`) -/
def smppWire (n : Nat) : Nat := if n = 99 then 0 else n

end SmsVerif.Text
