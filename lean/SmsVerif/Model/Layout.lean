/-
  The layout language: the declarative description of one PDU type's `IEncode` and `IDecode`,
  regenerated from the Go source by `go/extract` (see `Gen/Layouts.lean`), and its interpreter
  over the packet model.  Encode ops and decode ops are separate lists, as they are separate
  functions in Go.
-/
import SmsVerif.Model.Packet
import SmsVerif.Model.OptParams

namespace SmsVerif

/-- a field value -/
inductive Val
  | num (n : Nat)
  | str (b : Bytes)                 -- Go string or []byte
  | strs (l : List Bytes)           -- []string
  | tlvs (l : TlvMap)               -- smpp.TLVs / smgp.Options (for encoding: in emission order)
  deriving DecidableEq, Repr, Inhabited

/-- Go type of a (flattened) struct field -/
inductive FTy
  | u (bytes : Nat)   -- uint8/16/32/64 and named types over them
  | str | bytes | strs | tlvs
  deriving DecidableEq, Repr

/-- a PDU value: flattened field path ↦ value (`Header.SequenceID`, `Header.Sequence.2`, `MsgID`, …) -/
abbrev Rec := List (String × Val)

namespace Rec
def get? : Rec → String → Option Val
  | [], _ => none
  | (k, v) :: rest, f => if k = f then some v else get? rest f
def set : Rec → String → Val → Rec
  | [], f, v => [(f, v)]
  | (k, v') :: rest, f, v => if k = f then (k, v) :: rest else (k, v') :: set rest f v
def num (r : Rec) (f : String) : Nat := match r.get? f with | some (.num n) => n | _ => 0
def str (r : Rec) (f : String) : Bytes := match r.get? f with | some (.str b) => b | _ => []
def strs (r : Rec) (f : String) : List Bytes := match r.get? f with | some (.strs l) => l | _ => []
def tlvs (r : Rec) (f : String) : TlvMap := match r.get? f with | some (.tlvs l) => l | _ => []
end Rec

/-- integer expressions with Go's fixed-width wrap-around made explicit by `conv` nodes (the
    translator wraps every sub-expression whose static Go type is `uintN` in `conv (N/8)`). -/
inductive Expr
  | lit (n : Nat)
  | fld (f : String)        -- value of an integer field
  | lenOf (f : String)      -- len(field) for a string / []byte / []string field
  | add (a b : Expr)
  | mul (a b : Expr)
  | conv (k : Nat) (e : Expr)   -- conversion to / arithmetic in a k-octet unsigned type
  deriving DecidableEq, Repr

inductive Cond
  | eq (a b : Expr)
  | ne (a b : Expr)
  | and (a b : Cond)
  deriving DecidableEq, Repr

def Expr.eval (r : Rec) : Expr → Nat
  | .lit n => n
  | .fld f => r.num f
  | .lenOf f => match r.get? f with
      | some (.str b) => b.length
      | some (.strs l) => l.length
      | some (.tlvs l) => l.length
      | _ => 0
  | .add a b => a.eval r + b.eval r
  | .mul a b => a.eval r * b.eval r
  | .conv k e => e.eval r % 256 ^ k

def Cond.eval (r : Rec) : Cond → Bool
  | .eq a b => a.eval r == b.eval r
  | .ne a b => a.eval r != b.eval r
  | .and a b => a.eval r && b.eval r

/-- statements of `IEncode`, in source order -/
inductive EncOp
  | num (k : Nat) (e : Expr)                 -- b.WriteUintK(e)
  | cstr (f : String)                        -- b.WriteCString(p.f)
  | fixed (f : String) (n : Nat)             -- b.WriteFixedLenString(p.f, n)
  | fixedDyn (f : String) (len : Expr)       -- b.WriteFixedLenString(p.f, int(len))
  | raw (f : String)                         -- b.WriteString(p.f) / b.WriteBytes(p.f)
  | repRange (f : String) (n : Nat)          -- for _, x := range p.f { b.WriteFixedLenString(x, n) }
  | repCount (f : String) (cnt : Expr) (n : Nat)  -- for i := 0; i < int(cnt); i++ { …(p.f[i], n) }
  | hexFixed (f : String) (n : Nat)          -- x, err := hex.DecodeString(p.f); if err != nil { return nil, err }; b.WriteFixedLenString(string(x), n)
  | tlvs (f : String)                        -- b.WriteBytes(p.f.Bytes()) / b.WriteBytes(p.f.Serialize())
  | assign (f : String) (e : Expr)           -- p.f = e   (receiver normalisation)
  | assignIf (c : Cond) (as : List (String × Expr))  -- if c { p.f1, … = e1, … }
  | unsupported (pos : String)
  deriving Repr

inductive Finish | plain | withLength
  deriving DecidableEq, Repr

/-- statements of `IDecode`, in source order -/
inductive DecOp
  | guard (n : Nat)                          -- if len(data) < n { return err }
  | num (k : Nat) (f : String)               -- p.f = T(b.ReadUintK())
  | cstr (f : String)                        -- p.f = b.ReadCString()
  | fixedTrim (f : String) (n : Nat)         -- p.f = b.ReadCStringN(n)
  | fixedRaw (f : String) (n : Nat)          -- p.f = b.ReadCStringNWithoutTrim(n)
  | fixedRawHex (f : String) (n : Nat)       -- p.f = hex.EncodeToString([]byte(b.ReadCStringNWithoutTrim(n)))
  | bytesN (f : String) (len : Expr)         -- p.f = [string](b.ReadNBytes(int(len)))
  | repMake (f : String) (cnt : Expr) (n : Nat)    -- p.f = make([]string, cnt); for i<cnt { p.f[i] = b.ReadCStringN(n) }
  | repAppend (f : String) (cnt : Expr) (n : Nat)  -- for i<cnt { p.f = append(p.f, b.ReadCStringN(n)) }
  | tlvsRead (f : String)                    -- p.f = smpp.ReadTLVs1(b) / smgp.ReadOptions(b)
  | optsParse (f : String)                   -- p.f, parseErr = smgp.ParseOptions(b.Bytes())
  | stopIfAbsent (f : String)                -- if p.f != 0 && b.Error() == nil && b.Remaining() == 0 { return nil }
  | unsupported (pos : String)
  deriving Repr

inductive RetKind
  | readerErr      -- return b.Error()
  | nilAlways      -- return nil
  | readerOrParse  -- return lo.Ternary(b.Error() != nil, b.Error(), parseErr)
  deriving DecidableEq, Repr

structure PduDesc where
  name : String                       -- "cmpp20.PduSubmit"
  fields : List (String × FTy)        -- flattened struct fields in declaration order
  enc : List EncOp
  fin : Finish
  dec : List DecOp
  ret : RetKind
  deriving Repr

/-! ## Encoding -/

inductive EncErr | writer (e : PErr) | panic (why : String) | unsupported (pos : String) | badHex
  deriving Repr, DecidableEq

def hexNibble? (c : Nat) : Option Nat :=
  if 48 ≤ c ∧ c ≤ 57 then some (c - 48)
  else if 97 ≤ c ∧ c ≤ 102 then some (c - 87)
  else if 65 ≤ c ∧ c ≤ 70 then some (c - 55)
  else none

/-- `hex.DecodeString` with the error ignored: the octets decoded before the first bad pair
    (an odd trailing digit is dropped) -/
def hexDecodeLenient : Bytes → Bytes
  | a :: b :: rest =>
    match hexNibble? a, hexNibble? b with
    | some x, some y => (x * 16 + y) :: hexDecodeLenient rest
    | _, _ => []
  | _ => []

/-- `hex.DecodeString` succeeds: an even number of hexadecimal digits -/
def hexValid (s : Bytes) : Bool := s.length % 2 == 0 && s.all fun c => (hexNibble? c).isSome

def hexChar (n : Nat) : Nat := if n < 10 then 48 + n else 87 + n

/-- `hex.EncodeToString` (lower case) -/
def hexEncode (bs : Bytes) : Bytes := bs.flatMap fun b => [hexChar (b / 16 % 16), hexChar (b % 16)]

structure EncState where
  r : Rec
  w : Writer := {}

def writeRep (w : Writer) (n : Nat) : List Bytes → Writer
  | [] => w
  | x :: xs => writeRep (w.writeFixed x n) n xs

def EncOp.run (st : EncState) : EncOp → Except EncErr EncState
  | .num k e => .ok { st with w := st.w.writeNum k (e.eval st.r) }
  | .cstr f => .ok { st with w := st.w.writeCString (st.r.str f) }
  | .fixed f n => .ok { st with w := st.w.writeFixed (st.r.str f) n }
  | .fixedDyn f l => .ok { st with w := st.w.writeFixed (st.r.str f) (l.eval st.r) }
  | .raw f => .ok { st with w := st.w.writeBytes (st.r.str f) }
  | .repRange f n => .ok { st with w := writeRep st.w n (st.r.strs f) }
  | .repCount f c n =>
    let cnt := c.eval st.r
    let l := st.r.strs f
    if cnt > l.length then .error (.panic "index out of range") else
    .ok { st with w := writeRep st.w n (l.take cnt) }
  | .hexFixed f n =>
    if hexValid (st.r.str f) then .ok { st with w := st.w.writeFixed (hexDecodeLenient (st.r.str f)) n }
    else .error .badHex
  | .tlvs f => .ok { st with w := st.w.writeBytes (tlvsBytes (st.r.tlvs f)) }
  | .assign f e => .ok { st with r := st.r.set f (.num (e.eval st.r)) }
  | .assignIf c as =>
    if c.eval st.r then
      -- Go tuple assignment: all right-hand sides are evaluated first
      let vals := as.map fun (f, e) => (f, e.eval st.r)
      .ok { st with r := vals.foldl (fun r (f, v) => r.set f (.num v)) st.r }
    else .ok st
  | .unsupported pos => .error (.unsupported pos)

def runEnc : List EncOp → EncState → Except EncErr EncState
  | [], st => .ok st
  | op :: ops, st => match op.run st with
    | .ok st' => runEnc ops st'
    | .error e => .error e

/-- `IEncode`: the bytes and the receiver as the encoder leaves it -/
def PduDesc.encode (p : PduDesc) (r : Rec) : Except EncErr (Bytes × Rec) :=
  match runEnc p.enc { r := r } with
  | .error e => .error e
  | .ok st =>
    let out := match p.fin with
      | .plain => st.w.bytes
      | .withLength => st.w.bytesWithLength
    match out with
    | .ok bs => .ok (bs, st.r)
    | .error e => .error (.writer e)

/-! ## Decoding -/

inductive DecOutcome
  | ok (r : Rec)
  | err            -- any non-nil error
  | panic (why : String)
  | unsupported (pos : String)
  deriving Repr

structure DecState where
  r : Rec
  rd : Reader
  parseErr : Bool := false
  deriving Repr

def readRep (rd : Reader) (n : Nat) : Nat → List Bytes → List Bytes × Reader
  | 0, acc => (acc.reverse, rd)
  | c+1, acc =>
    let (s, rd') := rd.readCStringN n
    readRep rd' n c (s :: acc)

def DecOp.run (st : DecState) : DecOp → Except DecOutcome DecState
  | .guard _ => .ok st   -- handled before the reader is created
  | .num k f => let (v, rd) := st.rd.readNum k; .ok { st with r := st.r.set f (.num v), rd := rd }
  | .cstr f => let (v, rd) := st.rd.readCString; .ok { st with r := st.r.set f (.str v), rd := rd }
  | .fixedTrim f n => let (v, rd) := st.rd.readCStringN n; .ok { st with r := st.r.set f (.str v), rd := rd }
  | .fixedRaw f n => let (v, rd) := st.rd.readCStringNRaw n; .ok { st with r := st.r.set f (.str v), rd := rd }
  | .fixedRawHex f n =>
    let (v, rd) := st.rd.readCStringNRaw n; .ok { st with r := st.r.set f (.str (hexEncode v)), rd := rd }
  | .bytesN f l =>
    let (v, rd) := st.rd.readNBytes (l.eval st.r); .ok { st with r := st.r.set f (.str v), rd := rd }
  | .repMake f c n =>
    let cnt := c.eval st.r
    let (l, rd) := readRep { st.rd with alloc := st.rd.alloc + cnt } n cnt []
    .ok { st with r := st.r.set f (.strs l), rd := rd }
  | .repAppend f c n =>
    let cnt := c.eval st.r
    let (l, rd) := readRep st.rd n cnt []
    .ok { st with r := st.r.set f (.strs (st.r.strs f ++ l)), rd := rd }
  | .tlvsRead f =>
    let p := readTlvs st.rd
    .ok { st with r := st.r.set f (.tlvs (p.map.getD [])), rd := p.rd }
  | .optsParse f =>
    match parseOptions st.rd.bytes with
    | some m => .ok { st with r := st.r.set f (.tlvs m) }
    | none => .ok { st with r := st.r.set f (.tlvs []), parseErr := true }
  | .stopIfAbsent f =>
    -- an early `return nil`: decoding ends here, successfully, with the fields read so far (SMPP 3.4: the body of a
    -- response is not returned when command_status is non-zero); the outcome travels on the exit channel of `runDec`
    if st.r.num f ≠ 0 ∧ st.rd.err = none ∧ st.rd.remaining = 0 then .error (.ok st.r) else .ok st
  | .unsupported pos => .error (.unsupported pos)

def DecOp.isStop : DecOp → Bool
  | .stopIfAbsent _ => true
  | _ => false

def runDec : List DecOp → DecState → Except DecOutcome DecState
  | [], st => .ok st
  | op :: ops, st => match op.run st with
    | .ok st' => runDec ops st'
    | .error e => .error e

/-- the zero value of a field type (a fresh PDU) -/
def FTy.zero : FTy → Val
  | .u _ => .num 0
  | .str => .str []
  | .bytes => .str []
  | .strs => .strs []
  | .tlvs => .tlvs []

def PduDesc.fresh (p : PduDesc) : Rec := p.fields.map fun (f, t) => (f, t.zero)

def guardOf : List DecOp → Nat
  | .guard n :: _ => n
  | _ => 0

/-- `IDecode(data)` into the PDU value `r0` (a fresh one for `decodeFresh`) -/
def PduDesc.decodeInto (p : PduDesc) (r0 : Rec) (data : Bytes) : DecOutcome × Nat :=
  if data.length < guardOf p.dec then (.err, 0) else
  match runDec p.dec { r := r0, rd := ⟨data, none, 0⟩ } with
  | .error o => (o, 0)
  | .ok st =>
    let failed := match p.ret with
      | .readerErr => st.rd.err.isSome
      | .nilAlways => false
      | .readerOrParse => st.rd.err.isSome || st.parseErr
    (if failed then .err else .ok st.r, st.rd.alloc)

def PduDesc.decode (p : PduDesc) (data : Bytes) : DecOutcome := (p.decodeInto p.fresh data).1

/-- octets the model's decoder asked the allocator for (C03) -/
def PduDesc.decodeAlloc (p : PduDesc) (data : Bytes) : Nat := (p.decodeInto p.fresh data).2

end SmsVerif
