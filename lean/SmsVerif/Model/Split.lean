/-
  Long-message splitting (`longsms.go`): cut points, concatenation headers, header parsing.

  One algorithm serves every coding: walk the encoded units, give each part at most `per` units,
  and move a cut backwards to the nearest character boundary (`boundary`), so that no character's
  encoding straddles two parts.  Units are octets (ASCII, Latin-1, UCS-2, GB18030, unpacked GSM-7)
  or septets (packed GSM-7, where each slice is then packed on its own).
-/
import SmsVerif.Model.Gsm7

namespace SmsVerif.Split

/-- a boundary rule: given the units, the start of the part and the tentative end
    (`begin < end < length`), the end to use (`begin < result ≤ end`) -/
abbrev Boundary := List Nat → Nat → Nat → Nat

def noBoundary : Boundary := fun _ _ e => e

/-- unpacked / packed GSM-7: do not leave an escape septet as the last unit of a part -/
def gsmBoundary : Boundary := fun d b e =>
  if e - b ≥ 2 ∧ d.getD (e - 1) 0 = Gsm7.esc then e - 1 else e

/-- UCS-2 (UTF-16BE): do not separate a high surrogate from its low surrogate -/
def ucs2Boundary : Boundary := fun d b e =>
  if e - b ≥ 4 ∧ (d.getD (e - 2) 0) / 4 = 0xD8 / 4 then e - 2 else e

/-- length of the GB18030 character starting at `i` (1, 2 or 4 octets) -/
def gbCharLen (d : List Nat) (i : Nat) : Nat :=
  let b0 := d.getD i 0
  if b0 < 0x81 ∨ b0 = 0xFF then 1
  else
    let b1 := d.getD (i + 1) 0
    if 0x30 ≤ b1 ∧ b1 ≤ 0x39 then 4 else 2

/-- GB18030: the largest character boundary in `(begin, end]`, scanning from `begin` -/
def gbScan (d : List Nat) (e : Nat) : Nat → Nat → Nat
  | 0, pos => pos
  | fuel+1, pos =>
    let nxt := pos + gbCharLen d pos
    if nxt ≤ e then gbScan d e fuel nxt else pos

def gbBoundary : Boundary := fun d b e =>
  let r := gbScan d e (e - b) b
  if r > b then r else e

/-- end offsets of the parts -/
def cutPoints (bnd : Boundary) (d : List Nat) (per : Nat) : Nat → Nat → List Nat
  | 0, _ => []
  | fuel+1, b =>
    if b ≥ d.length then []
    else if b + per ≥ d.length then [d.length]
    else
      let e := bnd d b (b + per)
      -- a boundary rule must make progress; a rule that does not is ignored
      let e := if e > b ∧ e ≤ b + per then e else b + per
      e :: cutPoints bnd d per fuel e

/-- the slices between consecutive cut points -/
def slices (d : List Nat) : Nat → List Nat → List (List Nat)
  | _, [] => []
  | b, e :: rest => (d.drop b).take (e - b) :: slices d e rest

def header (ref total seq : Nat) : List Nat := [0x05, 0x00, 0x03, ref % 256, total % 256, seq % 256]

def withHeaders (ref total : Nat) : Nat → List (List Nat) → List (List Nat)
  | _, [] => []
  | i, p :: rest => (header ref total (i + 1) ++ p) :: withHeaders ref total (i + 1) rest

inductive SplitErr | tooManyParts | cannotEncode
  deriving DecidableEq, Repr

/-- `splitWithUDHI` : more than 255 parts are refused -/
def splitUnits (bnd : Boundary) (d : List Nat) (per ref : Nat) (enc : List Nat → List Nat := id) :
    Except SplitErr (List (List Nat)) :=
  let cuts := cutPoints bnd d per (d.length + 1) 0
  if cuts.length > 255 then .error .tooManyParts
  else .ok (withHeaders ref cuts.length 0 ((slices d 0 cuts).map enc))

/-- the whole entry point for one coding: a message that fits is one part without a header -/
def splitMessage (bnd : Boundary) (d : List Nat) (maxLen per ref : Nat) (enc : List Nat → List Nat := id) :
    Except SplitErr (List (List Nat)) :=
  if d.length ≤ maxLen then .ok [enc d] else splitUnits bnd d per ref enc

/-! ### `ParseLongSmsContent` -/

structure Parsed where
  frameKey : Nat
  total : Nat
  index : Nat
  content : List Nat
  valid : Bool
  deriving DecidableEq, Repr

def parseLong (c : List Nat) : Parsed :=
  if c.length < 6 then ⟨0, 0, 0, c, false⟩
  else
    match c with
    | 0x05 :: 0x00 :: 0x03 :: r :: t :: s :: rest => ⟨r, t, s, rest, true⟩
    | 0x06 :: 0x08 :: 0x04 :: hi :: lo :: t :: s :: rest => ⟨hi * 256 + lo, t, s, rest, true⟩
    | _ => ⟨0, 0, 0, c, false⟩

end SmsVerif.Split
