import SmsVerif.Model.Gsm7
import SmsVerif.Gen.Tables
import SmsVerif.Driver.Util
namespace SmsVerif.Driver
open SmsVerif SmsVerif.Gsm7

def genTables : Tables := ⟨Gen.gsm_forwardLookup, Gen.gsm_forwardEscape, Gen.gsm_reverseLookup, Gen.gsm_reverseEscape⟩

/-- code points as comma separated decimals, "-" for the empty text -/
def parseCps (s : String) : Option (List Nat) :=
  if s == "-" then some [] else (s.splitOn ",").mapM (·.toNat?)

def renderCps (l : List Nat) : String :=
  if l.isEmpty then "-" else ",".intercalate (l.map toString)

def handleGsm (toks : List String) : Option String := do
  match toks with
  | ["enc", t] => pure (match encode genTables (← parseCps t) with | some s => hexOfBytes s | none => "err")
  | ["dec", h] => pure (match decode genTables (← bytesOfHex h) with | some c => renderCps c | none => "err")
  | ["valid", t] => pure (toString (validText genTables (← parseCps t)))
  | ["badchars", t] => pure (renderCps (invalidChars genTables (← parseCps t)))
  | ["badbytes", h] => pure (hexOfBytes (invalidBytes genTables (← bytesOfHex h)))
  | ["pack", h] => pure (hexOfBytes (packGo (← bytesOfHex h)))
  | ["unpack", h] => pure (hexOfBytes (unpackGo (← bytesOfHex h)))
  | ["packspec", h] => pure (hexOfBytes (packSpec (← bytesOfHex h)))
  | ["unpackn", n, h] => pure (hexOfBytes (unpackSpec (← n.toNat?) (← bytesOfHex h)))
  | _ => none

end SmsVerif.Driver
