import SmsVerif.Model.Text
import SmsVerif.Driver.Gsm7
namespace SmsVerif.Driver
open SmsVerif SmsVerif.Text

def codingOf (s : String) : Option Coding :=
  if s == "ascii" then some ascii else if s == "ucs2" then some utf16 else if s == "latin1" then some win1252 else none

def codecName : Option Codec → String
  | some .ascii => "ascii" | some .latin1 => "latin1" | some .ucs2 => "ucs2" | some .gb18030 => "gb18030"
  | some .gsm7 => "gsm7" | some .gsm7packed => "gsm7packed" | none => "none"

/-- `text enc <coding> <cps>` | `text dec <coding> <hex>` | `text sel <table> <n>` -/
def handleText (toks : List String) : Option String := do
  match toks with
  | ["enc", c, t] =>
    pure (match encodeAll (← codingOf c) (← parseCps t) with | some u => hexOfBytes u | none => "err")
  | ["dec", c, h] =>
    let u ← bytesOfHex h
    pure (match decodeAll (← codingOf c) (u.length + 1) u with | some t => renderCps t | none => "err")
  | ["sel", tbl, n] =>
    let k ← n.toNat?
    if tbl == "cmppenc" then pure (codecName (cmppEncoder k))
    else if tbl == "cmppdec" then pure (codecName (cmppDecoder k))
    else if tbl == "smppenc" then pure (codecName (smppEncoder k))
    else if tbl == "smppdec" then pure (codecName (smppDecoder k))
    else none
  | _ => none

end SmsVerif.Driver
