import SmsVerif.Model.Framing
import SmsVerif.Driver.Util
namespace SmsVerif.Driver
open SmsVerif SmsVerif.Framing

def berr : BErr → String
  | .eof => "eof" | .unexpectedEOF => "ueof" | .readError => "readerr" | .badPrefix => "badprefix"

/-- `frame nb <buf>` | `frame run <chunk,chunk,…>` | `frame blocked <data> <fail>` |
    `frame pair <streamA> <streamB> <readA> <readB> <first>` (the read sizes and who reads first do not enter the model) -/
def handleFrame (toks : List String) : Option String := do
  match toks with
  | ["nb", h] =>
    pure (match decodeNB (← bytesOfHex h) with
      | .frame f rest => s!"frame {hexOfBytes f} rest={rest.length}"
      | .incomplete => "incomplete"
      | .invalid => "invalid")
  | ["run", cs] =>
    let chunks ← (cs.splitOn ",").mapM bytesOfHex
    let c := chunks.foldl Conn.arrive {}
    pure s!"delivered={",".intercalate (c.delivered.map hexOfBytes)} buffered={c.buf.length} closed={c.closed}"
  | ["blocked", h, f] =>
    let (r, n) := decodeBlocked ⟨← bytesOfHex h, f == "1"⟩
    pure (match r with
      | .ok fr => s!"ok {hexOfBytes fr} consumed={n}"
      | .error e => s!"err {berr e}")
  | ["pair", ha, hb, _mrA, _mrB, _start] =>
    let (ra, rb) := blockedPair (← bytesOfHex ha) (← bytesOfHex hb)
    let render := fun (rs : List (Except BErr Bytes)) =>
      ";".intercalate (rs.map fun | .ok fr => s!"ok {hexOfBytes fr}" | .error e => s!"err {berr e}")
    pure s!"A={render ra} B={render rb}"
  | _ => none

end SmsVerif.Driver
