import SmsVerif.Spec.Tables
import SmsVerif.Driver.Layout
namespace SmsVerif.Driver
open SmsVerif SmsVerif.Spec

def kindStr : SKind → String
  | .uint n => s!"uint:{n}"
  | .octets n => s!"octets:{n}"
  | .cOctets => "cstr"
  | .var l => s!"var:{l}"
  | .list c n => s!"list:{c}:{n}"
  | .tlvs => "tlvs"

def fieldStr (f : SField) : String :=
  s!"{f.go}={kindStr f.kind}" ++ (match f.rep with | .asIs => "" | .hexDigits => ":hex")

def specStr (s : Spec) : String :=
  s!"{s.pdu}|{s.lenField.getD "-"}|{s.commandId}|" ++ ";".intercalate (s.fields.map fieldStr)

/-- `specs`: every document table, one `##`-separated entry per message -/
def handleSpecs : String := " ## ".intercalate (Spec.all.map specStr)

/-- `specenc <pdu> <record>`: the reference serialisation of the record -/
def handleSpecEnc (toks : List String) : Option String := do
  match toks with
  | [name, recS] =>
    let s ← Spec.find? name
    let r ← parseRec recS
    let tl := s.fields.foldl (fun acc f => match f.kind with
      | .tlvs => acc + (tlvsBytes (r.tlvs f.go)).length | _ => acc) 0
    pure s!"ok {renderEncoded (s.wire r) tl}"
  | _ => none

end SmsVerif.Driver
