import SmsVerif.Model.Layout
import SmsVerif.Gen.Layouts
import SmsVerif.Driver.Util
namespace SmsVerif.Driver
open SmsVerif

def findPdu (name : String) : Option PduDesc := Gen.allPdus.find? (·.name == name)

/-! record wire format: `f=v;f=v…`; v = `n<dec>` | `s<hex>` | `l<hex>,<hex>…` | `t<tag>:<hex>,…` -/

def parseVal (s : String) : Option Val :=
  match s.toList with
  | 'n' :: rest => (String.ofList rest).toNat?.map .num
  | 's' :: rest => (bytesOfHex (String.ofList rest)).map .str
  | 'l' :: rest =>
    let body := String.ofList rest
    if body.isEmpty then some (.strs []) else
    (body.splitOn ",").mapM bytesOfHex |>.map .strs
  | 't' :: rest =>
    let body := String.ofList rest
    if body.isEmpty then some (.tlvs []) else
    (body.splitOn ",").mapM (fun e => do
      let (k, v) ← splitColon e
      pure (← k.toNat?, ← bytesOfHex v)) |>.map .tlvs
  | _ => none

def parseRec (s : String) : Option Rec :=
  if s == "-" then some [] else
  (s.splitOn ";").mapM fun kv =>
    match kv.splitOn "=" with
    | [k, v] => (parseVal v).map fun x => (k, x)
    | _ => none

def insertSorted (x : Nat × Bytes) : List (Nat × Bytes) → List (Nat × Bytes)
  | [] => [x]
  | y :: ys => if x.1 ≤ y.1 then x :: y :: ys else y :: insertSorted x ys

def sortTlvs (l : TlvMap) : TlvMap := l.foldr insertSorted []

def renderVal : Val → String
  | .num n => s!"n{n}"
  | .str b => "s" ++ hexOfBytes b
  | .strs l => "l" ++ ",".intercalate (l.map hexOfBytes)
  | .tlvs l => "t" ++ ",".intercalate ((sortTlvs l).map fun (t, v) => s!"{t}:{hexOfBytes v}")

/-- canonical rendering in the declaration order of the PDU's fields -/
def renderRec (p : PduDesc) (r : Rec) : String :=
  ";".intercalate (p.fields.map fun (f, t) => f ++ "=" ++ renderVal ((r.get? f).getD t.zero))

/-- split an optional-parameter tail into triplets by their declared lengths; `none` if it does not parse -/
def chunkTail : Nat → Bytes → Option (List Bytes)
  | 0, _ => some []
  | fuel+1, bs =>
    if bs.isEmpty then some [] else
    if bs.length < 4 then none else
    let len := fromBe ((bs.drop 2).take 2)
    if bs.length < 4 + len then none else
    (chunkTail fuel (bs.drop (4 + len))).map (bs.take (4 + len) :: ·)

def bytesLe : Bytes → Bytes → Bool
  | [], _ => true
  | _ :: _, [] => false
  | a :: as, b :: bs => if a < b then true else if a > b then false else bytesLe as bs

def insertChunk (x : Bytes) : List Bytes → List Bytes
  | [] => [x]
  | y :: ys => if bytesLe x y then x :: y :: ys else y :: insertChunk x ys

/-- the encoder output with the optional tail canonicalised (triplets sorted) -/
def renderEncoded (bs : Bytes) (tailLen : Nat) : String :=
  let cut := bs.length - tailLen
  let head := bs.take cut
  let tail := bs.drop cut
  match chunkTail (tail.length + 1) tail with
  | some chunks => hexOfBytes head ++ " tail=" ++ ",".intercalate ((chunks.foldr insertChunk []).map hexOfBytes)
  | none => hexOfBytes head ++ " rawtail=" ++ hexOfBytes tail

def tailLenOf (p : PduDesc) (r : Rec) : Nat :=
  p.enc.foldl (fun acc op => match op with
    | .tlvs f => acc + (tlvsBytes (r.tlvs f)).length
    | _ => acc) 0

def handleEnc (toks : List String) : Option String := do
  match toks with
  | [name, recS] =>
    let p ← findPdu name
    let r0 ← parseRec recS
    -- start from the zero value so that absent fields are explicit
    let r := r0.foldl (fun acc (k, v) => acc.set k v) p.fresh
    match p.encode r with
    | .ok (bs, r') => pure s!"ok {renderEncoded bs (tailLenOf p r')} | {renderRec p r'}"
    | .error (.writer _) => pure "err"
    | .error (.panic _) => pure "panic"
    | .error (.unsupported pos) => pure s!"unsupported {pos}"
    | .error .badHex => pure "err"
  | _ => none

def handleDec (toks : List String) : Option String := do
  match toks with
  | [name, hex] =>
    let p ← findPdu name
    let bs ← bytesOfHex hex
    match p.decode bs with
    | .ok r => pure s!"ok {renderRec p r}"
    | .err => pure "err"
    | .panic _ => pure "panic"
    | .unsupported pos => pure s!"unsupported {pos}"
  | _ => none

/-- model allocation requested while decoding (C03) -/
def handleDecAlloc (toks : List String) : Option String := do
  match toks with
  | [name, hex] =>
    let p ← findPdu name
    let bs ← bytesOfHex hex
    pure (toString (p.decodeAlloc bs))
  | _ => none

def handlePdus : String := " ".intercalate (Gen.allPdus.map (·.name))

end SmsVerif.Driver
