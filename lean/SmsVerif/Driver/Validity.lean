import SmsVerif.Model.Validity
import SmsVerif.Driver.Util
namespace SmsVerif.Driver
open SmsVerif SmsVerif.Validity

/-- `validity <nowNs> <durationNs|x> <rel 0|1> [t<hex of the text>]`; a negative duration is written with a
    leading 'm'; the optional last token (the text the duration was parsed from) is for the replay only -/
def handleValidity (toks : List String) : Option String := do
  match toks with
  | now :: d :: r :: rest =>
    if rest.length > 1 then none else
    let nowNs ← now.toNat?
    let dur : Option Int ←
      if d == "x" then pure none
      else if d.startsWith "m" then (d.drop 1).toNat?.map fun n => some (-(n : Int))
      else d.toNat?.map fun n => some (n : Int)
    pure (match toValidatePeriod nowNs dur (r == "1") with
      | .ok s => "ok " ++ String.ofList (s.map Char.ofNat)
      | .error _ => "err")
  | _ => none

end SmsVerif.Driver
