import SmsVerif.Model.OptParams
import SmsVerif.Driver.Layout
namespace SmsVerif.Driver
open SmsVerif

def parseTlvList (s : String) : Option TlvMap :=
  if s == "-" then some [] else
  (s.splitOn ",").mapM fun e => do
    let (k, v) ← splitColon e
    pure (← k.toNat?, ← bytesOfHex v)

def renderTlvMap (m : TlvMap) : String :=
  if m.isEmpty then "-" else ",".intercalate ((sortTlvs m).map fun (t, v) => s!"{t}:{hexOfBytes v}")

/-- `tlv ser <list>` | `tlv read <hex>` | `tlv parse <hex>` -/
def handleTlv (toks : List String) : Option String := do
  match toks with
  | ["ser", l] =>
    let bs := tlvsBytes (← parseTlvList l)
    pure (renderEncoded bs bs.length)
  | ["read", h] =>
    let p := readTlvs ⟨← bytesOfHex h, none, 0⟩
    let m := match p.map with | some m => renderTlvMap m | none => "nil"
    let e := match p.rd.err with | some e => e.code | none => "ok"
    pure s!"map={m} err={e}"
  | ["parse", h] =>
    pure (match parseOptions (← bytesOfHex h) with | some m => "ok " ++ renderTlvMap m | none => "err")
  | _ => none

end SmsVerif.Driver
