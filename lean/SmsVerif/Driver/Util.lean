import SmsVerif.Model.Bytes
namespace SmsVerif.Driver
open SmsVerif

def words (s : String) : List String := (s.splitOn " ").filter (· ≠ "")

/-- "key:value" → (key, value) -/
def splitColon (s : String) : Option (String × String) :=
  match s.splitOn ":" with
  | [k, v] => some (k, v)
  | _ => none

def joinSp (xs : List String) : String := " ".intercalate xs

end SmsVerif.Driver
