import SmsVerif.Model.Receipt
import SmsVerif.Driver.Util
namespace SmsVerif.Driver
open SmsVerif SmsVerif.Receipt

def bstr (s : String) : Bytes := s.toList.map Char.toNat

def smppKeys : List String := ["id", "sub", "dlvrd", "submit date", "done date", "stat", "err", "text"]
def smgpKeys : List (String × String × Nat) :=
  [("sub", "Sub", 3), ("dlvrd", "Dlvrd", 3), ("submit date", "Submit_Date", 10), ("done date", "Done_Date", 10),
   ("stat", "Stat", 7), ("err", "Err", 3), ("text", "Text", 20)]

/-- `receipt smpp <hex>` | `receipt smgp <hex>`: the eight extracted fields, hex, separated by '|' -/
def handleReceipt (toks : List String) : Option String := do
  match toks with
  | ["smpp", h] =>
    let s ← bytesOfHex h
    pure ("|".intercalate (smppKeys.map fun k => hexOfBytes (findSmpp s (bstr k))))
  | ["smgp", h] =>
    let s ← bytesOfHex h
    pure ("|".intercalate (hexOfBytes (findSmgpId s) :: smgpKeys.map fun (k, b, w) => hexOfBytes (findSmgp s (bstr k) (bstr b) w)))
  | _ => none

end SmsVerif.Driver
