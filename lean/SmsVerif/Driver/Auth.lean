import SmsVerif.Model.Auth
import SmsVerif.Driver.Util
namespace SmsVerif.Driver
open SmsVerif

/-- `authin cmpp|smgp <account> <secret> <ts>` / `authin resp <status> <reqauth> <secret>` → digest input (hex) -/
def handleAuthIn (toks : List String) : Option String := do
  match toks with
  | ["cmpp", a, s, t] => pure (hexOfBytes (cmppAuthInput (← bytesOfHex a) (← bytesOfHex s) (← t.toNat?)))
  | ["smgp", a, s, t] => pure (hexOfBytes (smgpAuthInput (← bytesOfHex a) (← bytesOfHex s) (← t.toNat?)))
  | ["resp", st, ra, s] => pure (hexOfBytes (cmppRespAuthInput (← bytesOfHex st) (← bytesOfHex ra) (← bytesOfHex s)))
  | ["ts10", t] => pure (hexOfBytes (ts10 (← t.toNat?)))
  | _ => none

end SmsVerif.Driver
