import SmsVerif.Model.Own
import SmsVerif.Driver.Util
namespace SmsVerif.Driver
open SmsVerif SmsVerif.Own

/-- `own facts`: the ownership facts the C12/C13 theorems rest on -/
def handleOwn (toks : List String) : Option String :=
  match toks with
  | ["facts"] => some Own.facts.render
  | _ => none

/-- `sched <n> <bytes per thread, comma separated hex> <schedule: thread ids>`: the interleaving model;
    prints each thread's final result -/
def handleSched (toks : List String) : Option String := do
  match toks with
  | [todoS, schedS] =>
    let todos ← (todoS.splitOn ",").mapM bytesOfHex
    let sched ← (schedS.splitOn ",").mapM String.toNat?
    let s : Sys := { ths := todos.map .idle }
    let s' := s.run sched
    pure (" ".intercalate (s'.ths.map fun
      | .done l _ => "done:" ++ hexOfBytes (s'.heap.read l)
      | .writing _ _ _ => "writing"
      | .idle _ => "idle"))
  | _ => none

end SmsVerif.Driver
