import SmsVerif.Model.MsgId
import SmsVerif.Driver.Util
namespace SmsVerif.Driver
open SmsVerif SmsVerif.MsgId

/-- `msgid combine m d h mi s g q` | `msgid split id` | `msgid str id` | `msgid parse <hex of string>` -/
def handleMsgId (toks : List String) : Option String := do
  match toks with
  | ["combine", a, b, c, d, e, f, g] =>
    pure (toString (combine (← a.toNat?) (← b.toNat?) (← c.toNat?) (← d.toNat?) (← e.toNat?) (← f.toNat?) (← g.toNat?)))
  | ["split", i] =>
    let p := split (← i.toNat?)
    pure s!"{p.month} {p.day} {p.hour} {p.minute} {p.second} {p.gate} {p.seq}"
  | ["str", i] => pure (hexOfBytes (format (← i.toNat?)))
  | ["parse", h] => pure (toString (parse (← bytesOfHex h)))
  | _ => none

end SmsVerif.Driver
