import SmsVerif.Model.Batch
import SmsVerif.Driver.Util
namespace SmsVerif.Driver
open SmsVerif SmsVerif.Batch

/-- `batch <empty 0|1> <hasUcs2 0|1> <fallbackOk 0|1> <coding:prio:can:parts,…|->` → `pick <coding>` | `fallback` | `error` -/
def handleBatch (toks : List String) : Option String := do
  match toks with
  | [e, h, f, cs] =>
    let cands : List Cand ← if cs == "-" then pure [] else
      (cs.splitOn ",").mapM fun c => do
        match c.splitOn ":" with
        | [a, b, k, p] => pure ⟨← a.toNat?, ← b.toNat?, k == "1", ← p.toNat?⟩
        | _ => none
    pure (match build (e == "1") (h == "1") (f == "1") cands with
      | .picked c => s!"pick {c.coding}"
      | .fallbackUcs2 => "fallback"
      | .error => "error")
  | _ => none

end SmsVerif.Driver
