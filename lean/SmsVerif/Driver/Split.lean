import SmsVerif.Model.Split
import SmsVerif.Driver.Util
namespace SmsVerif.Driver
open SmsVerif SmsVerif.Split

def bndOf (s : String) : Option (Boundary × (List Nat → List Nat)) :=
  if s == "none" then some (noBoundary, id)
  else if s == "gsm" then some (gsmBoundary, id)
  else if s == "ucs2" then some (ucs2Boundary, id)
  else if s == "gb" then some (gbBoundary, id)
  else if s == "gsmpacked" then some (gsmBoundary, Gsm7.packGo)
  else none

/-- `split <boundary> <max> <per> <ref> <units>` -/
def handleSplit (toks : List String) : Option String := do
  match toks with
  | [b, mx, per, ref, h] =>
    let (bnd, enc) ← bndOf b
    let d ← bytesOfHex h
    match splitMessage bnd d (← mx.toNat?) (← per.toNat?) (← ref.toNat?) enc with
    | .ok parts => pure ("ok " ++ ",".intercalate (parts.map hexOfBytes))
    | .error .tooManyParts => pure "err toomany"
    | .error .cannotEncode => pure "err encode"
  | _ => none

/-- `parselong <content>` -/
def handleParseLong (toks : List String) : Option String := do
  match toks with
  | [h] =>
    let p := parseLong (← bytesOfHex h)
    pure s!"{p.frameKey} {p.total} {p.index} {hexOfBytes p.content} {p.valid}"
  | _ => none

end SmsVerif.Driver
