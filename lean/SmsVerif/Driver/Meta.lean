import SmsVerif.Model.Meta
import SmsVerif.Gen.Tables
import SmsVerif.Driver.Util
namespace SmsVerif.Driver
open SmsVerif

/-- `meta <type> <hdr-id>`: what the extracted tables say GetCommand / GenEmptyResponse answer -/
def handleMeta (toks : List String) : Option String := do
  match toks with
  | [name, hv] =>
    let m ← Gen.metas.find? (·.name == name)
    let h ← hv.toNat?
    let cmd := match m.cmd.eval h with | some n => toString n | none => "?"
    let resp := match m.resp with
      | .none => "none"
      | .some rt rc _ _ seqOK => s!"{rt}:{rc.eval h}:{if seqOK then "seq" else "noseq"}"
      | .unknown _ => "?"
    pure s!"cmd={cmd} resp={resp}"
  | _ => none

/-- `dispatch <pkg> <cmd>` -/
def handleDispatch (toks : List String) : Option String := do
  match toks with
  | [pkg, c] =>
    let d ← Gen.dispatchers.find? (·.pkg == pkg)
    let n ← c.toNat?
    match d.cases.find? (·.1 == n) with
    | some (_, t) => pure t
    | none => pure (if d.unknownIsError then "unsupported" else "nil-nil")
  | _ => none

end SmsVerif.Driver
