import SmsVerif.Model.Packet
import SmsVerif.Driver.Util
namespace SmsVerif.Driver
open SmsVerif

def errCode : Option PErr → String
  | none => "ok"
  | some e => e.code

def parseWOp (t : String) : Option WOp := do
  let (k, v) ← splitColon t
  if k == "n1" then pure (.num 1 (← v.toNat?))
  else if k == "n2" then pure (.num 2 (← v.toNat?))
  else if k == "n4" then pure (.num 4 (← v.toNat?))
  else if k == "n8" then pure (.num 8 (← v.toNat?))
  else if k == "b" || k == "s" then pure (.bytes (← bytesOfHex v))
  else if k == "c" then pure (.cstr (← bytesOfHex v))
  else if k.startsWith "f" then pure (.fixed (← bytesOfHex v) (← (k.drop 1).toNat?))
  else none

def renderExcept : Except PErr Bytes → String
  | .ok b => hexOfBytes b
  | .error e => "!" ++ e.code

def handleW (toks : List String) : Option String := do
  let ops ← toks.mapM parseWOp
  let rec go (w : Writer) : List WOp → List String → List String × Writer
    | [], acc => (acc.reverse, w)
    | op :: rest, acc =>
      let w' := w.step op
      go w' rest (s!"{w'.written},{w'.len},{errCode w'.err}" :: acc)
  let (sts, w) := go {} ops []
  pure (joinSp sts ++ s!" | bytes={renderExcept w.bytes} bwl={renderExcept w.bytesWithLength}")

def parseROp (t : String) : Option ROp :=
  if t == "n1" then some (.num 1) else if t == "n2" then some (.num 2)
  else if t == "n4" then some (.num 4) else if t == "n8" then some (.num 8)
  else if t == "c" then some .cstr
  else if t.startsWith "cn" then (t.drop 2).toNat?.map .cstrN
  else if t.startsWith "rn" then (t.drop 2).toNat?.map .rawN
  else if t.startsWith "nb" then (t.drop 2).toNat?.map .rawN
  else if t.startsWith "rb" then (t.drop 2).toNat?.map .bytes
  else none

def handleR (toks : List String) : Option String := do
  match toks with
  | [] => none
  | h :: rest =>
    let input ← bytesOfHex h
    let ops ← rest.mapM parseROp
    let rec go (r : Reader) : List ROp → List String → List String
      | [], acc => acc.reverse
      | op :: more, acc =>
        let (v, r') := r.step op
        let vs := match v with | .n x => toString x | .b x => hexOfBytes x
        go r' more (s!"{vs},{r'.remaining},{errCode r'.err}" :: acc)
    pure (joinSp (go ⟨input, none, 0⟩ ops []))

end SmsVerif.Driver
