import SmsVerif.Driver.C20
import SmsVerif.Driver.Layout
import SmsVerif.Driver.Meta
import SmsVerif.Driver.Auth
import SmsVerif.Driver.Gsm7
import SmsVerif.Driver.Split
import SmsVerif.Driver.MsgId
import SmsVerif.Driver.Tlv
import SmsVerif.Driver.Framing
import SmsVerif.Driver.Receipt
import SmsVerif.Driver.Validity
import SmsVerif.Driver.Text
import SmsVerif.Driver.Batch
import SmsVerif.Driver.Spec
import SmsVerif.Driver.Own
open SmsVerif SmsVerif.Driver

def dispatch (line : String) : String :=
  match words line with
  | "W" :: toks => (handleW toks).getD "bad-op"
  | "R" :: toks => (handleR toks).getD "bad-op"
  | "enc" :: toks => (handleEnc toks).getD "bad-op"
  | "dec" :: toks => (handleDec toks).getD "bad-op"
  | "decalloc" :: toks => (handleDecAlloc toks).getD "bad-op"
  | ["pdus"] => handlePdus
  | ["specs"] => handleSpecs
  | "own" :: toks => (handleOwn toks).getD "bad-op"
  | "sched" :: toks => (handleSched toks).getD "bad-op"
  | "specenc" :: toks => (handleSpecEnc toks).getD "bad-op"
  | "batch" :: toks => (handleBatch toks).getD "bad-op"
  | "text" :: toks => (handleText toks).getD "bad-op"
  | "validity" :: toks => (handleValidity toks).getD "bad-op"
  | "receipt" :: toks => (handleReceipt toks).getD "bad-op"
  | "frame" :: toks => (handleFrame toks).getD "bad-op"
  | "tlv" :: toks => (handleTlv toks).getD "bad-op"
  | "msgid" :: toks => (handleMsgId toks).getD "bad-op"
  | "split" :: toks => (handleSplit toks).getD "bad-op"
  | "parselong" :: toks => (handleParseLong toks).getD "bad-op"
  | "gsm" :: toks => (handleGsm toks).getD "bad-op"
  | "authin" :: toks => (handleAuthIn toks).getD "bad-op"
  | "meta" :: toks => (handleMeta toks).getD "bad-op"
  | "dispatch" :: toks => (handleDispatch toks).getD "bad-op"
  | _ => "bad-op"

partial def loop (hin hout : IO.FS.Stream) : IO Unit := do
  let line ← hin.getLine
  if line.isEmpty then return ()
  hout.putStrLn (dispatch (String.ofList (line.toList.filter (· ≠ '\n'))))
  loop hin hout

def main : IO Unit := do
  let hin ← IO.getStdin
  let hout ← IO.getStdout
  loop hin hout
  hout.flush
