package main

// Structure-directed generation of PDU records from the layouts the translator extracted
// (lean/SmsVerif/Gen/layouts.json): mostly-valid values at every boundary, plus mutations.

import (
	"encoding/hex"
	"encoding/json"
	"os"
	"regexp"
	"strconv"
	"strings"
	"time"
)

var decodeDeadline = 3 * time.Second

// encodeDeadline bounds one IEncode call
var encodeDeadline = 20 * time.Second

type layoutJSON struct {
	Name   string      `json:"name"`
	Fields [][2]string `json:"fields"`
	Enc    []string    `json:"enc"`
	Fin    string      `json:"fin"`
	Dec    []string    `json:"dec"`
	Ret    string      `json:"ret"`
}

type shape struct {
	name     string
	fields   []fieldDesc
	ftype    map[string]fieldDesc
	slot     map[string]int    // fixed-width text slot
	cstr     map[string]bool   // C-string
	body     map[string]string // body field -> its length field
	list     map[string]string // list field -> its count field
	elemW    map[string]int    // list field -> element width
	hexIn    map[string]int    // encoder takes hex text of n octets (hexFixed)
	hexOut   map[string]int    // decoder returns hex text of the n raw octets (fixedRawHex)
	rawSlot  map[string]int    // slot read back at exact width without trimming
	tlvs     []string
	lenField string // header length field (first decoded u32), "" if none
	plain    bool   // encoder writes the length field itself (hand-computed)
	guard    int
}

var shapes = map[string]*shape{}

var (
	reQ    = regexp.MustCompile(`^\.(\w+) "([^"]+)"(?: (\d+))?`)
	reFld  = regexp.MustCompile(`\(\.fld "([^"]+)"\)`)
	reNumE = regexp.MustCompile(`^\.num (\d+) `)
)

// baselineLayoutsPath: the layouts of the unchanged tree (written by tools/mkbaseline.sh).  When the
// translation of a type regenerated from the current source contains an `.unsupported` node, the
// proof obligations fail in the Lean build; the harness then still has to *search for a failing
// input*, and it generates that type's values from the last translation it understood instead of
// from a shape with holes (a length field no longer tied to its content would be drawn from the
// full 32-bit range, and the real encoder would be asked to pad 4 GiB).
var baselineLayoutsPath = "/verif/go/harness/layouts.baseline.json"

// degradedTypes: types whose regenerated translation has unsupported nodes (shape taken from the baseline)
var degradedTypes = map[string]bool{}

func loadLayouts(path string) error {
	b, err := os.ReadFile(path)
	if err != nil {
		return err
	}
	var ls []layoutJSON
	if err := json.Unmarshal(b, &ls); err != nil {
		return err
	}
	hasUnsupported := func(l layoutJSON) bool {
		for _, op := range append(append([]string{}, l.Enc...), l.Dec...) {
			if strings.Contains(op, ".unsupported") {
				return true
			}
		}
		return false
	}
	var base map[string]layoutJSON
	for i, l := range ls {
		if !hasUnsupported(l) {
			continue
		}
		if base == nil {
			base = map[string]layoutJSON{}
			if bb, err := os.ReadFile(baselineLayoutsPath); err == nil {
				var bl []layoutJSON
				if json.Unmarshal(bb, &bl) == nil {
					for _, x := range bl {
						base[x.Name] = x
					}
				}
			}
		}
		if bl, ok := base[l.Name]; ok && !hasUnsupported(bl) {
			ls[i] = bl
			degradedTypes[l.Name] = true
		}
	}
	for _, l := range ls {
		s := &shape{name: l.Name, ftype: map[string]fieldDesc{}, slot: map[string]int{}, cstr: map[string]bool{}, body: map[string]string{},
			list: map[string]string{}, elemW: map[string]int{}, hexIn: map[string]int{}, hexOut: map[string]int{}, rawSlot: map[string]int{}, plain: l.Fin == ".plain"}
		if _, ok := registry[l.Name]; ok {
			s.fields = fieldsOf(l.Name)
			for _, f := range s.fields {
				s.ftype[f.path] = f
			}
		}
		for _, op := range l.Enc {
			m := reQ.FindStringSubmatch(op)
			if m == nil {
				continue
			}
			n, _ := strconv.Atoi(m[3])
			switch m[1] {
			case "fixed":
				s.slot[m[2]] = n
			case "cstr":
				s.cstr[m[2]] = true
			case "hexFixed":
				s.hexIn[m[2]] = n
			case "tlvs":
				s.tlvs = append(s.tlvs, m[2])
			case "repRange":
				s.elemW[m[2]] = n
			case "repCount":
				if k := strings.LastIndexByte(op, ' '); k > 0 {
					w, _ := strconv.Atoi(op[k+1:])
					s.elemW[m[2]] = w
				}
			}
		}
		first := true
		for _, op := range l.Dec {
			if strings.HasPrefix(op, ".guard ") {
				s.guard, _ = strconv.Atoi(op[7:])
				continue
			}
			m := reQ.FindStringSubmatch(op)
			if m == nil {
				if mm := regexp.MustCompile(`^\.num 4 "([^"]+)"`).FindStringSubmatch(op); mm != nil && first {
					s.lenField = mm[1]
				}
				first = false
				continue
			}
			first = false
			n, _ := strconv.Atoi(m[3])
			switch m[1] {
			case "bytesN":
				if f := reFld.FindStringSubmatch(op); f != nil {
					s.body[m[2]] = f[1]
				}
			case "repMake", "repAppend":
				if f := reFld.FindStringSubmatch(op); f != nil {
					s.list[m[2]] = f[1]
				}
			case "fixedRawHex":
				s.hexOut[m[2]] = n
			case "fixedRaw":
				s.rawSlot[m[2]] = n
			}
		}
		if !strings.HasPrefix(l.Name, "cmpp.Sub") && s.lenField == "" && len(l.Dec) > 0 {
			// header types always start with the length word
		}
		shapes[l.Name] = s
	}
	return nil
}

var bodyLens = []int{0, 1, 2, 7, 139, 140, 141, 159, 160, 161, 254, 255}
var counts = []int{0, 1, 2, 3, 12, 13, 99, 100, 255}

func isLenOrCount(s *shape, path string) bool {
	for _, l := range s.body {
		if l == path {
			return true
		}
	}
	for _, c := range s.list {
		if c == path {
			return true
		}
	}
	return false
}

func maxOf(width int) uint64 {
	if width >= 8 {
		return ^uint64(0)
	}
	return uint64(1)<<(8*uint(width)) - 1
}

// genFit: a record that fits the wire format (the C01 hypothesis).
func genFit(g *Rng, s *shape, thorough bool) record {
	r := record{}
	for _, f := range s.fields {
		switch f.kind {
		case kNum:
			if isLenOrCount(s, f.path) {
				continue
			}
			r[f.path] = value{kind: kNum, num: pickEdge(g, uint(8*f.width))}
		case kTlvs:
			n := g.Pick([]int{0, 0, 1, 2, 3, 4})
			if thorough && g.Intn(4) == 0 {
				n = 5 + g.Intn(4)
			}
			seen := map[uint16]bool{}
			l := []tlv{}
			for len(l) < n {
				t := uint16(g.Pick([]int{0, 1, 2, 3, 5, 0x0204, 0x0424, 0x1400, 0xffff, g.Intn(65536)}))
				if seen[t] {
					continue
				}
				seen[t] = true
				vl := g.Pick([]int{0, 1, 1, 2, 4, 16, 255, 256})
				if g.Intn(40) == 0 {
					vl = g.Pick([]int{65531, 65532, 65535, 40000, 32768, 32767, 4096, 4097}) // up to the end of the 16-bit length field
				}
				l = append(l, tlv{t, g.Bytes(vl)})
			}
			r[f.path] = value{kind: kTlvs, tlvs: l}
		}
	}
	for _, f := range s.fields {
		switch f.kind {
		case kStr, kBytes:
			if lf, ok := s.body[f.path]; ok {
				w := s.ftype[lf].width
				n := g.Pick(bodyLens)
				if w > 1 && g.Intn(6) == 0 {
					n = g.Pick([]int{256, 257, 1000, 4095, 4096, 4097, 8192, 8193})
					if thorough && g.Intn(4) == 0 {
						n = g.Pick([]int{65535, 65536})
					}
				}
				r[lf] = value{kind: kNum, num: uint64(n)}
				r[f.path] = value{kind: kStr, str: nonNil(g.Bytes(n))}
				continue
			}
			if n, ok := s.hexIn[f.path]; ok {
				r[f.path] = value{kind: kStr, str: []byte(hex.EncodeToString(g.Bytes(n)))}
				continue
			}
			if n, ok := s.slot[f.path]; ok {
				if strings.Contains(f.path, "Authenticator") || s.hexOut[f.path] > 0 {
					// fixed binary field: all byte values at exactly its width, a NUL planted in one case out of three
					b := g.BytesNoNul(n)
					switch g.Intn(3) {
					case 0:
						b[g.Intn(n)] = 0
					case 1:
						b = g.Bytes(n)
					}
					r[f.path] = value{kind: kStr, str: b}
					continue
				}
				l := g.Pick([]int{0, 1, n - 1, n, g.Intn(n + 1)})
				if l < 0 {
					l = 0
				}
				r[f.path] = value{kind: kStr, str: nonNil(g.BytesNoNul(l))}
				continue
			}
			// C-string or unconstrained
			l := g.Pick([]int{0, 1, 2, 8, 16, 21, 33, 65})
			if g.Intn(30) == 0 {
				l = 300
			}
			r[f.path] = value{kind: kStr, str: nonNil(g.BytesNoNul(l))}
		case kStrs:
			w := s.elemW[f.path]
			c := g.Pick(counts)
			if cf, ok := s.list[f.path]; ok {
				r[cf] = value{kind: kNum, num: uint64(c)}
			}
			l := make([][]byte, c)
			for i := range l {
				l[i] = nonNil(g.BytesNoNul(g.Pick([]int{0, 1, w - 1, w, g.Intn(w + 1)})))
			}
			r[f.path] = value{kind: kStrs, strs: l}
		}
	}
	return r
}

func nonNil(b []byte) []byte {
	if b == nil {
		return []byte{}
	}
	return b
}

// genOverlong: a fitting record with one fixed-width value made longer than its slot.
func genOverlong(g *Rng, s *shape) (record, string, bool) {
	r := genFit(g, s, false)
	var cands []string
	for p := range s.slot {
		cands = append(cands, p)
	}
	for p := range s.elemW {
		if len(r[p].strs) > 0 {
			cands = append(cands, p)
		}
	}
	if len(cands) == 0 {
		return nil, "", false
	}
	sortStrings(cands)
	p := cands[g.Intn(len(cands))]
	if n, ok := s.slot[p]; ok {
		r[p] = value{kind: kStr, str: g.BytesNoNul(n + 1 + g.Intn(3))}
	} else {
		v := r[p]
		v.strs[g.Intn(len(v.strs))] = g.BytesNoNul(s.elemW[p] + 1)
		r[p] = v
	}
	return r, p, true
}

func sortStrings(a []string) {
	for i := 1; i < len(a); i++ {
		for j := i; j > 0 && a[j] < a[j-1]; j-- {
			a[j], a[j-1] = a[j-1], a[j]
		}
	}
}
