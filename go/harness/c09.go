package main

// C09 — the batch encoder returns the cheapest usable coding, deterministically.

import (
	"context"
	"fmt"
	"runtime"
	"strings"

	sms "github.com/hujm2023/go-sms-protocol"
	"github.com/hujm2023/go-sms-protocol/datacoding"
)

func init() { runners["C09"] = runC09 }

func mkCoding(proto string, n int) datacoding.ProtocolDataCoding {
	if proto == "cmpp" {
		return datacoding.CMPPDataCoding(n)
	}
	return datacoding.SMPPDataCoding(n)
}

type buildOut struct {
	parts  [][]byte
	coding int
	isErr  bool
	panic  string
	// Build called twice on one builder gave two answers
	secondDiffers bool
}

func callBuild(proto string, content string, cands []int, origin int, hasOrigin bool, ref byte) buildOut {
	var out buildOut
	o := Guard(func() {
		b := sms.NewBatchDataCodingEncoder().Content(content, ref)
		switch proto {
		case "cmpp":
			b = b.Protocol(sms.CMPP)
		case "smpp":
			b = b.Protocol(sms.SMPP)
		case "smgp":
			b = b.Protocol(sms.SMGP)
		}
		var dcs []datacoding.ProtocolDataCoding
		for _, c := range cands {
			dcs = append(dcs, mkCoding(proto, c))
		}
		b = b.DataCodings(dcs)
		if hasOrigin {
			b = b.OriginDataCoding(mkCoding(proto, origin))
		}
		parts, actual, err := b.Build(context.Background())
		// the same builder asked again: a builder is a description of the request, building must not use it up
		parts2, actual2, err2 := b.Build(context.Background())
		if (err == nil) != (err2 == nil) || (err == nil && (fmt.Sprint(actual) != fmt.Sprint(actual2) || renderParts(parts) != renderParts(parts2))) {
			out.secondDiffers = true
		}
		out.parts, out.isErr = parts, err != nil
		out.coding = -1
		if err == nil && actual != nil {
			switch a := actual.(type) {
			case datacoding.CMPPDataCoding:
				out.coding = int(a)
			case datacoding.SMPPDataCoding:
				out.coding = int(a)
			}
		}
	})
	out.panic = o.Panic
	return out
}

// refCandidate: can this coding carry the text, and in how many parts (independent reference)
func refCandidate(proto string, n int, text string) (can bool, parts int, prio int) {
	c, ok := codingByNum(proto, n)
	if !ok {
		return false, 0, 0
	}
	u, ok := refEncode(c.name, text)
	if !ok {
		return false, 0, 0
	}
	max, per := limits(c.name)
	parts = 1
	if len(u) > max {
		parts = len(refCuts(c.name, u, per))
	}
	prios := map[string]map[int]int{"cmpp": {9: 2, 8: 4, 15: 8, 0: 16}, "smpp": {8: 2, 0: 4, 3: 8, 1: 16, 99: 32}}
	return parts <= 255, parts, prios[proto][n]
}

func runC09(res *Result, d *Driver, g *Rng, tier string) {
	res.Rule = "contents (ASCII, GSM-only, Latin-1, CJK, emoji, mixed; lengths around the single/multi thresholds, part multiples and the 255-part limit of every coding) x all non-empty subsets and shuffled orderings (with duplicates) of the valid CMPP codings {0,8,9,15} / SMPP codings {0,1,3,8,99} plus invalid numbers x every origin coding (none, valid, invalid) x protocols CMPP, SMPP and one without codecs; every request repeated under shuffled candidate order and GOMAXPROCS 1,2,4,16; non-trivial = distinct (protocol, content class, candidate set, origin)"
	thorough := tier == "thorough"
	var ops, goOut []string
	contents := []string{"hello world", strings.Repeat("a", 160), strings.Repeat("a", 161), strings.Repeat("b", 140) + "[", strings.Repeat("x", 152) + "[" + strings.Repeat("y", 30),
		"héllo wörld", strings.Repeat("é", 150), "中文短信", strings.Repeat("中", 70), strings.Repeat("中", 71), "emoji \U0001F600", strings.Repeat("a", 66) + "\U0001F600" + strings.Repeat("b", 10),
		"Δabc@£", strings.Repeat("€", 81), "a", strings.Repeat("z", 306), strings.Repeat("中a", 60),
		// a surrogate pair that ends exactly at a part boundary of UCS-2 (units 66 and 67), with and without a tie
		// against GBK in the number of parts
		strings.Repeat("c", 65) + "\U0001F600" + strings.Repeat("d", 67), strings.Repeat("中", 10) + strings.Repeat("e", 55) + "\U0001F600" + strings.Repeat("f", 67),
		strings.Repeat("g", 65) + "\U0001F600" + strings.Repeat("h", 65) + "\U0001F600" + strings.Repeat("i", 30),
		// around the 255-part limit of each coding: a candidate that would need 256 parts is not usable
		strings.Repeat("a", 17085), strings.Repeat("a", 17086), strings.Repeat("a", 20000), strings.Repeat("a", 34170), strings.Repeat("a", 34171),
		strings.Repeat("a", 39015), strings.Repeat("a", 39016), strings.Repeat("a", 40000), strings.Repeat("中", 17085), strings.Repeat("中", 17086), strings.Repeat("é", 34171)}
	if thorough {
		for i := 0; i < 40; i++ {
			contents = append(contents, buildText([]string{"ascii", "gsm", "latin1", "ucs2", "gb"}[i%5], g, g.Pick([]int{1, 100, 140, 141, 160, 161, 268, 306, 400}), -1))
		}
	}
	valid := map[string][]int{"cmpp": {0, 8, 9, 15}, "smpp": {0, 1, 3, 8, 99}}
	invalid := []int{4, 7, 200}
	procs := []int{1, 2, 4, 16}
	defer runtime.GOMAXPROCS(runtime.GOMAXPROCS(0))
	for _, proto := range []string{"cmpp", "smpp"} {
		vs := valid[proto]
		for mask := 1; mask < 1<<uint(len(vs)); mask++ {
			var set []int
			for i, v := range vs {
				if mask&(1<<uint(i)) != 0 {
					set = append(set, v)
				}
			}
			for ci, content := range contents {
				if !thorough && (mask+ci)%3 != 0 {
					continue
				}
				// origin: none / valid member / valid non-member / invalid
				origins := []struct {
					n   int
					has bool
				}{{0, false}, {vs[(mask+ci)%len(vs)], true}, {invalid[ci%len(invalid)], true}}
				for _, or := range origins {
					cands := append([]int(nil), set...)
					if ci%4 == 1 {
						cands = append(cands, invalid[ci%len(invalid)]) // an unknown number among the candidates
					}
					// expected result from the independent reference
					all := map[int]bool{}
					for _, c := range cands {
						all[c] = true
					}
					if or.has {
						if _, ok := codingByNum(proto, or.n); ok {
							all[or.n] = true
						}
					}
					best, bestParts, bestPrio := -1, 0, 0
					var descr []string
					hasUcs2 := false
					for c := range all {
						can, parts, prio := refCandidate(proto, c, content)
						if proto == "smpp" && c == 8 {
							hasUcs2 = true
						}
						cb := "0"
						if can {
							cb = "1"
							if best < 0 || parts < bestParts || (parts == bestParts && prio < bestPrio) {
								best, bestParts, bestPrio = c, parts, prio
							}
						}
						descr = append(descr, fmt.Sprintf("%d:%d:%s:%d", c, prio, cb, parts))
					}
					sortStrings(descr)
					fbCan, _, _ := refCandidate(proto, 8, content)
					op := fmt.Sprintf("batch 0 %s %s %s", b01(hasUcs2), b01(fbCan), strings.Join(descr, ","))
					want := "error"
					if best >= 0 {
						want = fmt.Sprintf("pick %d", best)
					} else if !hasUcs2 && fbCan {
						want = "fallback"
					}
					key := fmt.Sprintf("%s/%d/%v/%d/%v/%d", proto, ci, cands, or.n, or.has, len(content))
					res.Eval(key, true)
					var first *buildOut
					for rep := 0; rep < 4; rep++ {
						runtime.GOMAXPROCS(procs[rep%len(procs)])
						sh := append([]int(nil), cands...)
						for i := len(sh) - 1; i > 0; i-- {
							j := g.Intn(i + 1)
							sh[i], sh[j] = sh[j], sh[i]
						}
						if rep%2 == 1 {
							sh = append(sh, sh[0]) // a duplicate
						}
						out := callBuild(proto, content, sh, or.n, or.has, byte(ci))
						got := "error"
						if out.panic != "" {
							got = "panic"
						} else if !out.isErr {
							got = fmt.Sprintf("pick %d", out.coding)
							if best < 0 {
								got = "fallback"
								if out.coding != 8 {
									got = fmt.Sprintf("fallback-to %d", out.coding)
								}
							}
						}
						if rep == 0 {
							ops, goOut = append(ops, op), append(goOut, got)
						}
						rp := []string{op, fmt.Sprintf("build %s cands=%v origin=%d/%v content=%s", proto, sh, or.n, or.has, cpsOf(content))}
						if out.secondDiffers {
							res.Violate("C09.not-deterministic:"+proto, "Build called a second time on the same builder gives another result", rp)
							break
						}
						if got == want && best >= 0 && !out.isErr && len(out.parts) != bestParts {
							res.Violate("C09.not-cheapest:"+proto, fmt.Sprintf("coding %d was picked with %d parts; filling each part as far as whole characters allow it needs %d (the count the choice rests on)", out.coding, len(out.parts), bestParts), rp)
							break
						}
						if got != want {
							res.Violate("C09.not-cheapest:"+proto, fmt.Sprintf("candidates %v origin %d/%v, %d-rune content: got %q, cheapest usable is %q", sh, or.n, or.has, len([]rune(content)), got, want), rp)
							break
						}
						if first == nil {
							o := out
							first = &o
						} else if out.coding != first.coding || renderParts(out.parts) != renderParts(first.parts) {
							res.Violate("C09.not-deterministic:"+proto, "the same request gave different results under another candidate order / GOMAXPROCS", rp)
							break
						}
						// the returned parts decode to the content under the returned coding
						if !out.isErr && out.coding >= 0 {
							ac, _ := codingByNum(proto, out.coding)
							if want == "fallback" {
								ac = coding{proto, 8, "ucs2"}
							}
							if !partsDecodeTo(ac, out.parts, content) {
								res.Violate("C09.result-does-not-decode:"+proto, fmt.Sprintf("coding %d", out.coding), rp)
								break
							}
						}
					}
				}
			}
		}
	}
	// errors: empty content, no candidates, protocol without codecs
	for _, tc := range []struct {
		proto, content string
		cands          []int
	}{{"cmpp", "", []int{0}}, {"smpp", "abc", nil}, {"smgp", "abc", []int{0, 8}}} {
		out := callBuild(tc.proto, tc.content, tc.cands, 0, false, 1)
		res.Eval("err/"+tc.proto+"/"+tc.content, true)
		if out.panic != "" || !out.isErr {
			res.Violate("C09.error-expected:"+tc.proto, fmt.Sprintf("content %q candidates %v: no error (panic=%q)", tc.content, tc.cands, out.panic), nil)
		}
	}
	ops, goOut = append(ops, "batch 1 0 1 -"), append(goOut, "error")
	res.Sample(ops[0] + "  =>  " + goOut[0])
	res.Sample(ops[len(ops)/2] + "  =>  " + goOut[len(ops)/2])
	res.Compare(d, "batch selection model vs BatchDataCodingEncoder.Build", ops, goOut)
}

func b01(b bool) string {
	if b {
		return "1"
	}
	return "0"
}

// partsDecodeTo: headers removed, the parts decode (each on its own) to the content.
func partsDecodeTo(c coding, parts [][]byte, content string) bool {
	units, ok := refEncode(c.name, content)
	if !ok {
		return false
	}
	var joined []byte
	if len(parts) == 1 {
		joined = parts[0]
		if c.name == "gsmpacked" {
			return string(refPack(units)) == string(parts[0])
		}
	} else {
		for _, p := range parts {
			if len(p) < 7 {
				return false
			}
			if c.name == "gsmpacked" {
				continue
			}
			joined = append(joined, p[6:]...)
		}
		if c.name == "gsmpacked" {
			return true // covered by C06 on the same splitter
		}
	}
	return string(joined) == string(units)
}
