package main

// C16 — optional-parameter containers (SMPP TLVs, SMGP options).

import (
	"bytes"
	"encoding/binary"
	"fmt"
	"sort"
	"strconv"
	"strings"

	"github.com/hujm2023/go-sms-protocol/packet"
	"github.com/hujm2023/go-sms-protocol/smgp"
	"github.com/hujm2023/go-sms-protocol/smpp"
)

func init() {
	runners["C16"] = runC16
	replayers["C16"] = replayC16
}

func renderTlvs(l []tlv) string {
	if len(l) == 0 {
		return "-"
	}
	l = append([]tlv(nil), l...)
	sort.SliceStable(l, func(i, j int) bool { return l[i].tag < l[j].tag })
	ps := make([]string, len(l))
	for i, e := range l {
		ps[i] = fmt.Sprintf("%d:%s", e.tag, hx(e.val))
	}
	return strings.Join(ps, ",")
}

func parseTlvArg(s string) []tlv {
	if s == "-" {
		return nil
	}
	var l []tlv
	for _, e := range strings.Split(s, ",") {
		j := strings.IndexByte(e, ':')
		t, _ := strconv.Atoi(e[:j])
		l = append(l, tlv{uint16(t), unhx(e[j+1:])})
	}
	return l
}

func smppMap(m smpp.TLVs) []tlv {
	var l []tlv
	for k, v := range m {
		l = append(l, tlv{k, append([]byte(nil), v.Value()...)})
	}
	return l
}
func smgpMap(m smgp.Options) []tlv {
	var l []tlv
	for k, v := range m {
		l = append(l, tlv{uint16(k), append([]byte(nil), v.Value()...)})
	}
	return l
}

// c16Shared records the first parsed container whose values were not independent of one another
var c16Shared string

// valuesIndependent: the values of a parsed container are the caller's, each one for itself — appending to one
// (within whatever capacity it came with) must leave the others as they were
func valuesIndependent(entry string, input []byte, values [][]byte) {
	if len(values) < 2 || c16Shared != "" {
		return
	}
	snaps := make([][]byte, len(values))
	for i, v := range values {
		snaps[i] = append([]byte(nil), v...)
	}
	for _, v := range values {
		_ = append(v, 0xCC, 0xCC, 0xCC, 0xCC, 0xCC, 0xCC, 0xCC, 0xCC, 0xCC, 0xCC, 0xCC, 0xCC)
	}
	for i, v := range values {
		if !bytes.Equal(v, snaps[i]) {
			c16Shared = fmt.Sprintf("%s on %s: appending twelve octets to each value changed value %d from %s to %s", entry, hx(input), i, hx(snaps[i]), hx(v))
			return
		}
	}
}

func smppValues(m smpp.TLVs) [][]byte {
	var vs [][]byte
	for _, t := range m {
		vs = append(vs, t.Value())
	}
	return vs
}

func smgpValues(m smgp.Options) [][]byte {
	var vs [][]byte
	for _, o := range m {
		vs = append(vs, o.Value())
	}
	return vs
}

// the four parsing entry points, rendered like Driver.handleTlv
func goReadTLVs1(b []byte) (string, []tlv) {
	r := packet.NewPacketReader(append([]byte(nil), b...))
	var m smpp.TLVs
	o := GuardDeadline(decodeDeadline, func() { m = smpp.ReadTLVs1(r) })
	if o.Panic != "" || o.Hang {
		return "panic-or-hang", nil
	}
	ms := "nil"
	if m != nil {
		ms = renderTlvs(smppMap(m))
	}
	out := smppMap(m)
	valuesIndependent("ReadTLVs1", b, smppValues(m))
	return fmt.Sprintf("map=%s err=%s", ms, perrCode(r.Error())), out
}
func goReadTLVs(b []byte) (string, []tlv) {
	r := packet.NewPacketReader(append([]byte(nil), b...))
	var m smpp.TLVs
	var err error
	o := GuardDeadline(decodeDeadline, func() { m, err = smpp.ReadTLVs(r) })
	if o.Panic != "" || o.Hang {
		return "panic-or-hang", nil
	}
	ms := "nil"
	if m != nil {
		ms = renderTlvs(smppMap(m))
	}
	code := perrCode(err)
	if err == nil {
		code = perrCode(r.Error())
	}
	out := smppMap(m)
	valuesIndependent("ReadTLVs", b, smppValues(m))
	return fmt.Sprintf("map=%s err=%s", ms, code), out
}
func goReadOptions(b []byte) (string, []tlv) {
	r := packet.NewPacketReader(append([]byte(nil), b...))
	var m smgp.Options
	o := GuardDeadline(decodeDeadline, func() { m = smgp.ReadOptions(r) })
	if o.Panic != "" || o.Hang {
		return "panic-or-hang", nil
	}
	ms := "nil"
	if m != nil {
		ms = renderTlvs(smgpMap(m))
	}
	out := smgpMap(m)
	valuesIndependent("ReadOptions", b, smgpValues(m))
	return fmt.Sprintf("map=%s err=%s", ms, perrCode(r.Error())), out
}
func goParseOptions(b []byte) (string, []tlv) {
	var m smgp.Options
	var err error
	o := Guard(func() { m, err = smgp.ParseOptions(append([]byte(nil), b...)) })
	if o.Panic != "" {
		return "panic", nil
	}
	if err != nil {
		return "err", nil
	}
	line, out := "ok "+renderTlvs(smgpMap(m)), smgpMap(m)
	valuesIndependent("ParseOptions", b, smgpValues(m))
	return line, out
}

// smgpLenAgrees: Options.Len() is the length of what Serialize() emits, also for values too long for the length field
func smgpLenAgrees(l []tlv) (int, int) {
	m := smgp.Options{}
	for _, e := range l {
		m[smgp.Tag(e.tag)] = smgp.NewOption(smgp.Tag(e.tag), e.val)
	}
	return m.Len(), len(m.Serialize())
}

func serializeBoth(l []tlv) (smppB, smgpB []byte, panicked string) {
	o := Guard(func() {
		m := smpp.TLVs{}
		for _, e := range l {
			m.SetTLV(smpp.NewTLV(e.tag, e.val))
		}
		smppB = m.Bytes()
	})
	if o.Panic != "" {
		return nil, nil, "smpp: " + o.Panic
	}
	o = Guard(func() {
		m := smgp.Options{}
		for _, e := range l {
			m[smgp.Tag(e.tag)] = smgp.NewOption(smgp.Tag(e.tag), e.val)
		}
		smgpB = m.Serialize()
	})
	if o.Panic != "" {
		return nil, nil, "smgp: " + o.Panic
	}
	return
}

// present: (t,v) occurs as a complete triplet somewhere in b
func present(b []byte, e tlv) bool {
	hd := make([]byte, 4)
	binary.BigEndian.PutUint16(hd, e.tag)
	binary.BigEndian.PutUint16(hd[2:], uint16(len(e.val)))
	return len(e.val) <= 65535 && bytes.Contains(b, append(hd, e.val...))
}

func sameSet(a, b []tlv) bool { return renderTlvs(a) == renderTlvs(b) }

func runC16(res *Result, d *Driver, g *Rng, tier string) {
	res.Rule = "parameter sets of 0..32 distinct tags (tags at 0,1,0xffff and random) with value lengths 0,1,2,255,256 and the boundaries 65531,65532,65535,65536,70000; serialise → parse with all four entry points; well-formed triplet sequences in random order with duplicate tags; arbitrary and mutated byte strings (all strings of <=2 octets, truncations, corrupted length octets) for no-fabrication; Add on an empty container; typed accessors on short values; non-trivial = distinct non-empty input"
	thorough := tier == "thorough"
	var ops, goOut []string
	add := func(op, out string) { ops, goOut = append(ops, op), append(goOut, out) }
	nsets := 400
	if thorough {
		nsets = 20000
	}
	lens := []int{0, 0, 1, 1, 2, 3, 16, 255, 256}
	for it := 0; it < nsets; it++ {
		n := g.Pick([]int{0, 1, 1, 2, 3, 5, 8, 32})
		seen := map[uint16]bool{}
		var l []tlv
		for len(l) < n {
			t := uint16(g.Pick([]int{0, 1, 2, 0x0204, 0x0424, 0xffff, g.Intn(65536), g.Intn(32)}))
			if seen[t] {
				continue
			}
			seen[t] = true
			vl := g.Pick(lens)
			if g.Intn(60) == 0 {
				vl = g.Pick([]int{65531, 65532, 65535, 65536, 70000})
			}
			l = append(l, tlv{t, g.Bytes(vl)})
		}
		op := "tlv ser " + renderInputTlvs(l)
		res.Eval(op, n > 0)
		long := false
		for _, e := range l {
			if len(e.val) > 65535 { // 65532..65535 still fit the length field and must come back
				long = true
			}
		}
		sb, gb, pn := serializeBoth(l)
		if pn != "" {
			res.Violate("C16.serialize-panics", "serialising a value of "+maxLenStr(l)+" octets panics: "+pn, []string{op})
			continue
		}
		add(op, canonEncoded(sb, len(sb)))
		if !bytes.Equal(sortedTriplets(sb), sortedTriplets(gb)) {
			res.Violate("C16.containers-disagree", "smpp.TLVs.Bytes and smgp.Options.Serialize differ on the same set", []string{op})
		}
		if ln, emitted := smgpLenAgrees(l); ln != emitted {
			res.Violate("C16.length-field-mismatch:Options.Len", fmt.Sprintf("smgp.Options.Len() = %d but Serialize() emits %d octets (longest value %s octets)", ln, emitted, maxLenStr(l)), []string{op})
		}
		// emitted length field must agree with the emitted value, whatever the length
		if !tripletsConsistent(sb) {
			res.Violate("C16.length-field-mismatch", "a length field disagrees with the emitted value", []string{op})
		}
		if long {
			res.Count("long-value")
			continue // values beyond the 16-bit field are truncated consistently; the set cannot come back
		}
		// parse back with all four entry points
		for name, f := range map[string]func([]byte) (string, []tlv){"ReadTLVs1": goReadTLVs1, "ReadTLVs": goReadTLVs, "ReadOptions": goReadOptions, "ParseOptions": goParseOptions} {
			line, m := f(sb)
			if name == "ReadTLVs1" {
				add("tlv read "+hx(sb), line)
			}
			if name == "ParseOptions" {
				add("tlv parse "+hx(sb), line)
			}
			if strings.Contains(line, "panic") {
				res.Violate("C16.parser-panics:"+name, "", []string{"tlv read " + hx(sb)})
				continue
			}
			if !sameSet(m, l) {
				res.Violate("C16.set-not-preserved:"+name, fmt.Sprintf("%d parameters serialised, %s returned %s", len(l), name, line[:min(len(line), 80)]), []string{op, "tlv read " + hx(sb)})
			}
		}
	}
	// well-formed triplet sequences, duplicates allowed, random order
	nseq := 600
	if thorough {
		nseq = 30000
	}
	for it := 0; it < nseq; it++ {
		n := 1 + g.Intn(8)
		var b []byte
		last := map[uint16][]byte{}
		for i := 0; i < n; i++ {
			t := uint16(g.Intn(4))
			if g.Intn(3) == 0 {
				t = uint16(g.Intn(65536))
			}
			v := g.Bytes(g.Pick([]int{0, 1, 2, 5}))
			hd := make([]byte, 4)
			binary.BigEndian.PutUint16(hd, t)
			binary.BigEndian.PutUint16(hd[2:], uint16(len(v)))
			b = append(append(b, hd...), v...)
			last[t] = v
		}
		var want []tlv
		for t, v := range last {
			want = append(want, tlv{t, v})
		}
		op := "tlv read " + hx(b)
		res.Eval(op, true)
		l1, m1 := goReadTLVs1(b)
		_, m2 := goReadTLVs(b)
		_, m3 := goReadOptions(b)
		l4, m4 := goParseOptions(b)
		add(op, l1)
		add("tlv parse "+hx(b), l4)
		if !sameSet(m1, want) || !sameSet(m2, want) || !sameSet(m3, want) || !sameSet(m4, want) {
			res.Violate("C16.parsers-disagree", fmt.Sprintf("well-formed sequence: ReadTLVs1=%s ReadTLVs=%s ReadOptions=%s ParseOptions=%s expected %s", renderTlvs(m1), renderTlvs(m2), renderTlvs(m3), renderTlvs(m4), renderTlvs(want)), []string{op, "tlv parse " + hx(b)})
		}
	}
	// arbitrary / mutated bytes: no fabrication, no panic
	var arb [][]byte
	arb = append(arb, nil)
	for a := 0; a < 256; a++ {
		arb = append(arb, []byte{byte(a)})
	}
	for a := 0; a < 256; a += 3 {
		for b2 := 0; b2 < 256; b2 += 5 {
			arb = append(arb, []byte{byte(a), byte(b2)})
		}
	}
	base := []byte{0, 5, 0, 2, 1, 2, 0, 3, 0, 0, 2, 4, 0, 1, 9}
	for cut := 0; cut <= len(base); cut++ {
		arb = append(arb, base[:cut])
	}
	for pos := 0; pos < len(base); pos++ {
		for _, v := range []byte{0, 1, 0x7f, 0x80, 0xff} {
			m := append([]byte(nil), base...)
			m[pos] = v
			arb = append(arb, m)
		}
	}
	for i := 0; i < 1500; i++ {
		arb = append(arb, g.Bytes(g.Intn(24)))
	}
	// complete triplet sequences followed by 1..3 stray octets, or with the last value one octet short
	for i := 0; i < 300; i++ {
		var m []byte
		for k := g.Intn(4); k >= 0; k-- {
			v := g.Bytes(g.Intn(6))
			m = append(m, byte(g.Intn(256)), byte(g.Intn(256)), 0, byte(len(v)))
			m = append(m, v...)
		}
		arb = append(arb, append([]byte(nil), m...))
		arb = append(arb, append(append([]byte(nil), m...), g.Bytes(1+g.Intn(3))...))
		arb = append(arb, append([]byte(nil), m[:len(m)-1]...))
	}
	// headers announcing the longest values (where tag+length+value arithmetic leaves 16 bits), alone and with a short tail
	for _, ln := range []int{0xfffa, 0xfffb, 0xfffc, 0xfffd, 0xfffe, 0xffff, 0x8000, 0x7fff} {
		h := []byte{0, 3, byte(ln >> 8), byte(ln)}
		arb = append(arb, h, append(append([]byte(nil), h...), g.Bytes(1+g.Intn(9))...))
		arb = append(arb, append([]byte{0, 5, 0, 1, 7}, h...))
	}
	for i, b := range arb {
		op := "tlv read " + hx(b)
		res.Eval(op, len(b) > 0)
		l1, m1 := goReadTLVs1(b)
		_, m2 := goReadTLVs(b)
		_, m3 := goReadOptions(b)
		l4, m4 := goParseOptions(b)
		_ = i
		add(op, l1) // every string goes to the model as well: ParseOptions accepts exactly the triplet sequences (C16_parse_options_accepts_exactly)
		add("tlv parse "+hx(b), l4)
		for name, m := range map[string][]tlv{"ReadTLVs1": m1, "ReadTLVs": m2, "ReadOptions": m3, "ParseOptions": m4} {
			for _, e := range m {
				if !present(b, e) {
					res.Violate("C16.fabricated-parameter:"+name, fmt.Sprintf("%s reports %d:%s which is not completely present in %s", name, e.tag, hx(e.val), hx(b)), []string{op})
				}
			}
		}
		if strings.Contains(l1+l4, "panic") {
			res.Violate("C16.parser-panics", "", []string{op})
		}
	}
	// Add on an empty (nil) container takes effect
	{
		var o smgp.Options
		pn := Guard(func() { o.Add(smgp.NewOption(smgp.TAG_LinkID, []byte("ABCD"))) })
		res.Eval("add-to-empty", true)
		if pn.Panic != "" || len(o) != 1 {
			res.Violate("C16.add-to-empty-lost", fmt.Sprintf("var o smgp.Options; o.Add(opt) leaves len(o)=%d", len(o)), nil)
		}
		var tl smpp.TLVs
		tl.SetTLV(smpp.NewTLV(5, []byte{1}))
		if len(tl) != 1 {
			res.Violate("C16.add-to-empty-lost", "smpp.TLVs.SetTLV on nil lost the parameter", nil)
		}
	}
	// typed accessors tolerate short values
	for _, v := range [][]byte{nil, {}, {7}, {7, 8}} {
		o := smgp.Options{}
		if v != nil {
			o[smgp.TAG_TP_udhi] = smgp.NewOption(smgp.TAG_TP_udhi, v)
		}
		var got uint8
		pn := Guard(func() { got = o.TP_udhi() })
		res.Eval("tp_udhi/"+hx(v), true)
		if pn.Panic != "" {
			res.Violate("C16.accessor-panics", fmt.Sprintf("Options.TP_udhi() panics on a %d-octet value: %s", len(v), pn.Panic), nil)
		} else if len(v) > 0 && got != v[0] {
			res.Violate("C16.accessor-wrong", "TP_udhi returned a wrong value", nil)
		}
	}
	if len(ops) > 0 {
		res.Sample(ops[0] + "  =>  " + goOut[0])
		res.Sample(ops[len(ops)-1] + "  =>  " + goOut[len(ops)-1])
	}
	if c16Shared != "" {
		res.Violate("C16.values-share-storage", c16Shared, []string{"tlv parse (see the text)"})
	}
	res.Compare(d, "optional-parameter model vs smpp/pdu_tlv.go, smgp/options.go", ops, goOut)
}

func renderInputTlvs(l []tlv) string {
	if len(l) == 0 {
		return "-"
	}
	ps := make([]string, len(l))
	for i, e := range l {
		ps[i] = fmt.Sprintf("%d:%s", e.tag, hx(e.val))
	}
	return strings.Join(ps, ",")
}

func maxLenStr(l []tlv) string {
	m := 0
	for _, e := range l {
		if len(e.val) > m {
			m = len(e.val)
		}
	}
	return strconv.Itoa(m)
}

func sortedTriplets(b []byte) []byte { return []byte(canonEncoded(b, len(b))) }

func tripletsConsistent(b []byte) bool {
	for len(b) > 0 {
		if len(b) < 4 {
			return false
		}
		l := int(binary.BigEndian.Uint16(b[2:4]))
		if len(b) < 4+l {
			return false
		}
		b = b[4+l:]
	}
	return true
}

func replayC16(lines []string) []string {
	var out []string
	for _, l := range lines {
		f := strings.Fields(l)
		switch {
		case len(f) == 3 && f[0] == "tlv" && f[1] == "ser":
			sb, _, pn := serializeBoth(parseTlvArg(f[2]))
			if pn != "" {
				out = append(out, "panic "+pn)
			} else {
				out = append(out, canonEncoded(sb, len(sb)))
			}
		case len(f) == 3 && f[0] == "tlv" && f[1] == "read":
			s, _ := goReadTLVs1(unhx(f[2]))
			out = append(out, s)
		case len(f) == 3 && f[0] == "tlv" && f[1] == "parse":
			s, _ := goParseOptions(unhx(f[2]))
			out = append(out, s)
		default:
			out = append(out, "bad-op")
		}
	}
	return out
}
