package main

// C06 / C07 / C14 — long-message splitting: content preserved, parts fit and carry correct headers,
// no character cut by a part boundary.  One generator and one evaluation serve the three properties;
// each runner reports the clauses of its own property.

import (
	"bytes"
	"context"
	"fmt"
	"strings"
	"unicode/utf16"

	"golang.org/x/text/encoding/charmap"
	"golang.org/x/text/encoding/simplifiedchinese"

	sms "github.com/hujm2023/go-sms-protocol"
	"github.com/hujm2023/go-sms-protocol/datacoding"
)

func init() {
	runners["C06"] = func(r *Result, d *Driver, g *Rng, t string) { runSplit(r, d, g, t, "C06") }
	runners["C07"] = func(r *Result, d *Driver, g *Rng, t string) { runSplit(r, d, g, t, "C07") }
	runners["C14"] = func(r *Result, d *Driver, g *Rng, t string) { runSplit(r, d, g, t, "C14") }
	replayers["C06"] = replaySplit
	replayers["C07"] = replaySplit
	replayers["C14"] = replaySplit
}

type coding struct {
	proto string // cmpp | smpp
	num   int
	name  string // ascii latin1 ucs2 gb gsm gsmpacked
}

var codings = []coding{
	{"cmpp", 0, "ascii"}, {"cmpp", 8, "ucs2"}, {"cmpp", 9, "ucs2"}, {"cmpp", 15, "gb"},
	{"smpp", 0, "gsm"}, {"smpp", 1, "ascii"}, {"smpp", 3, "latin1"}, {"smpp", 8, "ucs2"}, {"smpp", 99, "gsmpacked"},
}

func codingByNum(proto string, n int) (coding, bool) {
	for _, c := range codings {
		if c.proto == proto && c.num == n {
			return c, true
		}
	}
	return coding{}, false
}

func limits(name string) (max, per int) {
	if name == "gsm" || name == "gsmpacked" {
		return 160, 153
	}
	return 140, 134
}

// refEncode: the units (octets, or septets for the two GSM codings) of a text, independent of the library's codecs
// where the standard library allows; nil,false if the coding cannot represent the text.
func refEncode(name, text string) ([]byte, bool) {
	switch name {
	case "ascii":
		for i := 0; i < len(text); i++ {
			if text[i] >= 0x80 {
				return nil, false
			}
		}
		return []byte(text), true
	case "latin1":
		b, err := charmap.Windows1252.NewEncoder().Bytes([]byte(text))
		return b, err == nil
	case "ucs2":
		u := utf16.Encode([]rune(text))
		b := make([]byte, 0, 2*len(u))
		for _, x := range u {
			b = append(b, byte(x>>8), byte(x))
		}
		return b, true
	case "gb":
		b, err := simplifiedchinese.GB18030.NewEncoder().Bytes([]byte(text))
		return b, err == nil
	default:
		var out []byte
		for _, r := range text {
			s := specEncodeRune(r)
			if s == nil {
				return nil, false
			}
			out = append(out, s...)
		}
		return out, true
	}
}

// refDecode: units back to text; for the GSM codings the input is septets.
func refDecode(name string, u []byte) (string, bool) {
	switch name {
	case "ascii":
		for _, b := range u {
			if b >= 0x80 {
				return "", false
			}
		}
		return string(u), true
	case "latin1":
		b, err := charmap.Windows1252.NewDecoder().Bytes(u)
		return string(b), err == nil && !strings.ContainsRune(string(b), '�')
	case "ucs2":
		if len(u)%2 != 0 {
			return "", false
		}
		w := make([]uint16, len(u)/2)
		for i := range w {
			w[i] = uint16(u[2*i])<<8 | uint16(u[2*i+1])
		}
		// a lone surrogate is not a character
		for i := 0; i < len(w); i++ {
			if w[i] >= 0xD800 && w[i] < 0xDC00 {
				if i+1 >= len(w) || w[i+1] < 0xDC00 || w[i+1] >= 0xE000 {
					return "", false
				}
				i++
			} else if w[i] >= 0xDC00 && w[i] < 0xE000 {
				return "", false
			}
		}
		return string(utf16.Decode(w)), true
	case "gb":
		b, err := simplifiedchinese.GB18030.NewDecoder().Bytes(u)
		return string(b), err == nil && !strings.ContainsRune(string(b), '�')
	default:
		var sb strings.Builder
		for i := 0; i < len(u); i++ {
			if u[i] == 0x1B {
				if i+1 >= len(u) {
					return "", false
				}
				r, ok := specExt[u[i+1]]
				if !ok {
					return "", false
				}
				sb.WriteRune(r)
				i++
				continue
			}
			if u[i] >= 128 {
				return "", false
			}
			sb.WriteRune(specDefault[u[i]])
		}
		return sb.String(), true
	}
}

// charLenAt: length in units of the character starting at offset i (for the greedy reference).
func charLenAt(name string, u []byte, i int) int {
	switch name {
	case "ucs2":
		if i+3 < len(u) && u[i]&0xFC == 0xD8 {
			return 4
		}
		return 2
	case "gb":
		if u[i] < 0x81 || u[i] == 0xFF {
			return 1
		}
		if i+1 < len(u) && u[i+1] >= 0x30 && u[i+1] <= 0x39 {
			return 4
		}
		return 2
	case "gsm", "gsmpacked":
		if u[i] == 0x1B {
			return 2
		}
	}
	return 1
}

// refCuts: fill each part as far as whole characters allow.
func refCuts(name string, u []byte, per int) []int {
	var ends []int
	b := 0
	for b < len(u) {
		e := b
		for e < len(u) {
			l := charLenAt(name, u, e)
			if e+l-b > per || e+l > len(u) {
				break
			}
			e += l
		}
		if e == b {
			e = b + 1
		}
		ends = append(ends, e)
		b = e
	}
	return ends
}

// callSplitBatch: the same request through the batch encoder with that single candidate coding
func callSplitBatch(c coding, text string, ref byte) (parts [][]byte, actual int, err error, oc Outcome) {
	oc = Guard(func() {
		b := sms.NewBatchDataCodingEncoder().Content(text, ref)
		var dc datacoding.ProtocolDataCoding
		if c.proto == "cmpp" {
			b = b.Protocol(sms.CMPP)
			dc = datacoding.CMPPDataCoding(c.num)
		} else {
			b = b.Protocol(sms.SMPP)
			dc = datacoding.SMPPDataCoding(c.num)
		}
		var a datacoding.ProtocolDataCoding
		parts, a, err = b.DataCodings([]datacoding.ProtocolDataCoding{dc}).Build(context.Background())
		actual = -1
		switch v := a.(type) {
		case datacoding.CMPPDataCoding:
			actual = int(v)
		case datacoding.SMPPDataCoding:
			actual = int(v)
		}
	})
	return
}

func callSplit(c coding, text string, ref byte) (parts [][]byte, actual int, err error, oc Outcome) {
	oc = Guard(func() {
		if c.proto == "cmpp" {
			var a datacoding.CMPPDataCoding
			parts, a, err = sms.EncodeCMPPContentAndSplit(context.Background(), text, datacoding.CMPPDataCoding(c.num), ref)
			actual = int(a)
		} else {
			var a datacoding.SMPPDataCoding
			parts, a, err = sms.EncodeSMPPContentAndSplit(context.Background(), text, datacoding.SMPPDataCoding(c.num), ref)
			actual = int(a)
		}
	})
	return
}

func bndName(name string) string {
	switch name {
	case "ascii", "latin1":
		return "none"
	}
	return name
}

func renderParts(parts [][]byte) string {
	ps := make([]string, len(parts))
	for i, p := range parts {
		ps[i] = hx(p)
	}
	return "ok " + strings.Join(ps, ",")
}

// septet counts a packed payload of L octets may hold
func septetCandidates(L int) []int {
	n := 8 * L / 7
	if (8*L)%7 == 0 && n > 0 {
		return []int{n, n - 1}
	}
	return []int{n}
}

type splitCtx struct {
	res        *Result
	prop       string
	ops, goOut []string
	held       []heldParts
}

func (sc *splitCtx) viol(p, cls, what string, ops []string) {
	if p == sc.prop {
		sc.res.Violate(cls, what, ops)
	}
}

// evalSplit runs one request and evaluates the clauses of C06, C07 and C14.
func (sc *splitCtx) evalSplit(req coding, text string, ref byte) {
	sc.evalSplitVia(req, text, ref, false)
	// the same request through the batch encoder (one candidate): its parts are held to the same clauses
	if _, valid := codingByNum(req.proto, req.num); valid && len(text) > 0 {
		sc.evalSplitVia(req, text, ref, true)
	}
}

type heldParts struct {
	op    string
	parts [][]byte
	snap  [][]byte
}

func (sc *splitCtx) evalSplitVia(req coding, text string, ref byte, batch bool) {
	res := sc.res
	opText := fmt.Sprintf("splittext %s %d %d %s", req.proto, req.num, ref, cpsOf(text))
	var parts [][]byte
	var actual int
	var err error
	var oc Outcome
	if batch {
		opText = fmt.Sprintf("splitbatch %s %d %d %s", req.proto, req.num, ref, cpsOf(text))
		parts, actual, err, oc = callSplitBatch(req, text, ref)
	} else {
		parts, actual, err, oc = callSplit(req, text, ref)
	}
	res.Eval(opText, len(text) > 0)
	if err == nil && oc.Panic == "" && len(sc.held) < 20000 {
		// what was returned is the caller's: it is looked at again after all later calls (see the end of runSplit)
		h := heldParts{op: opText, parts: parts}
		for _, p := range parts {
			h.snap = append(h.snap, append([]byte(nil), p...))
		}
		sc.held = append(sc.held, h)
	}
	if oc.Panic != "" {
		sc.viol(sc.prop, sc.prop+".split-panics", "splitting panics: "+oc.Panic, []string{opText})
		return
	}
	// which coding must be reported
	wantC, valid := codingByNum(req.proto, req.num)
	ucs2 := coding{req.proto, 8, "ucs2"}
	var units []byte
	ok := false
	if valid {
		units, ok = refEncode(wantC.name, text)
	}
	if !ok {
		wantC = ucs2
		units, _ = refEncode("ucs2", text)
	}
	max, per := limits(wantC.name)
	cuts := refCuts(wantC.name, units, per)
	if len(units) <= max {
		cuts = []int{len(units)}
	}
	if len(units) > max && len(cuts) > 255 {
		res.Count("toomany")
		if err == nil {
			sc.viol("C07", "C07.too-many-parts-not-refused", fmt.Sprintf("%d units need %d parts but no error was returned (total octet %d)", len(units), len(cuts), byteAt(parts, 4)), []string{opText})
			// C06: do the parts that came back instead carry the text under the coding that was reported?
			var joined []byte
			for _, p := range parts {
				if len(p) > 6 {
					joined = append(joined, p[6:]...)
				}
			}
			whole, okd := "", false
			if rc, okc := codingByNum(req.proto, actual); okc && rc.name != "gsmpacked" {
				whole, okd = refDecode(rc.name, joined)
			}
			if !okd || whole != text {
				sc.viol("C06", "C06.content-lost", fmt.Sprintf("a message needing %d parts came back as %d parts under reported coding %d whose payloads do not decode to the text", len(cuts), len(parts), actual), []string{opText})
			}
		}
		return
	}
	if err != nil {
		sc.viol("C06", "C06.split-error", "error on a representable text: "+err.Error(), []string{opText})
		return
	}
	if actual != wantC.num && !(wantC.name == "ucs2" && actual == 8) {
		sc.viol("C06", "C06.reported-coding", fmt.Sprintf("requested %d, reported %d, expected %d", req.num, actual, wantC.num), []string{opText})
		return
	}
	ac, _ := codingByNum(req.proto, actual)
	// model correspondence on the encoded units
	op := fmt.Sprintf("split %s %d %d %d %s", bndName(ac.name), max, per, ref, hx(units))
	if !batch {
		sc.ops, sc.goOut = append(sc.ops, op), append(sc.goOut, renderParts(parts))
	}
	rep := []string{opText, op}
	res.Count(fmt.Sprintf("%s/%s/parts=%s", req.proto, ac.name, bucket(len(parts))))
	// single part
	if len(units) <= max {
		want := units
		if ac.name == "gsmpacked" {
			want = refPack(units)
		}
		if len(parts) != 1 || !bytes.Equal(parts[0], want) {
			sc.viol("C06", "C06.single-part", fmt.Sprintf("a message of %d units must be one part without header; got %d parts", len(units), len(parts)), rep)
			sc.viol("C07", "C07.single-part", fmt.Sprintf("a message of %d units must be one part without header; got %d parts", len(units), len(parts)), rep)
		}
		return
	}
	// headers, sizes
	var payloads [][]byte
	for i, p := range parts {
		if len(p) <= 6 {
			sc.viol("C07", "C07.empty-part", fmt.Sprintf("part %d has no payload", i+1), rep)
			return
		}
		if lim := 140; len(p) > lim && ac.name != "gsm" {
			sc.viol("C07", "C07.part-too-long", fmt.Sprintf("part %d is %d octets long, exceeds 140", i+1, len(p)), rep)
		} else if ac.name == "gsm" && len(p)-6 > 153 {
			// unpacked GSM 7-bit carries one septet per octet: the limit is 153 septets of payload
			sc.viol("C07", "C07.part-too-long", fmt.Sprintf("part %d carries %d septets, exceeds 153", i+1, len(p)-6), rep)
		}
		hd := []byte{5, 0, 3, ref, byte(len(parts)), byte(i + 1)}
		if !bytes.Equal(p[:6], hd) {
			sc.viol("C07", "C07.header", fmt.Sprintf("part %d starts with %s, expected %s", i+1, hx(p[:6]), hx(hd)), rep)
		}
		k, t, ix, rest, okp := sms.ParseLongSmsContent(string(p))
		if !okp || k != int(ref) || t != len(parts)%256 || ix != (i+1)%256 || rest != string(p[6:]) {
			sc.viol("C07", "C07.parse-back", fmt.Sprintf("ParseLongSmsContent(part %d) = (%d,%d,%d,valid=%v)", i+1, k, t, ix, okp), rep)
		}
		payloads = append(payloads, p[6:])
	}
	if len(parts) != len(cuts) {
		sc.viol("C07", "C07.part-count", fmt.Sprintf("%d parts used, filling each part with whole characters needs %d", len(parts), len(cuts)), rep)
	}
	// content: concatenation (C06) and per part (C14)
	var joined []byte
	var perPart []string
	allOK := true
	if ac.name == "gsmpacked" {
		// find septet counts consistent with the total
		total := len(units)
		var pick func(i, left int) []int
		pick = func(i, left int) []int {
			if i == len(payloads) {
				if left == 0 {
					return []int{}
				}
				return nil
			}
			for _, n := range septetCandidates(len(payloads[i])) {
				if n <= left {
					if r := pick(i+1, left-n); r != nil {
						return append([]int{n}, r...)
					}
				}
			}
			return nil
		}
		counts := pick(0, total)
		if counts == nil {
			sc.viol("C06", "C06.content-lost", fmt.Sprintf("the parts cannot hold the %d septets of the message", total), rep)
			return
		}
		for i, p := range payloads {
			s := refUnpack(counts[i], p)
			if counts[i] > 153 {
				sc.viol("C07", "C07.part-too-long", fmt.Sprintf("part %d carries %d septets", i+1, counts[i]), rep)
			}
			joined = append(joined, s...)
			t, ok := refDecode("gsm", s)
			allOK = allOK && ok
			perPart = append(perPart, t)
		}
	} else {
		for _, p := range payloads {
			joined = append(joined, p...)
			t, ok := refDecode(ac.name, p)
			allOK = allOK && ok
			perPart = append(perPart, t)
		}
	}
	dn := ac.name
	if dn == "gsmpacked" {
		dn = "gsm"
	}
	if whole, ok := refDecode(dn, joined); !ok || whole != text {
		sc.viol("C06", "C06.content-lost", fmt.Sprintf("concatenated payloads decode to %d characters, the text has %d (first difference at %d)", len([]rune(whole)), len([]rune(text)), firstDiff(whole, text)), rep)
	}
	if !allOK || strings.Join(perPart, "") != text {
		cls := "C14.character-cut:" + ac.name
		sc.viol("C14", cls, fmt.Sprintf("parts are not decodable on their own under coding %d (%s): a character straddles a part boundary", actual, ac.name), rep)
	}
}

func byteAt(parts [][]byte, i int) int {
	if len(parts) > 0 && len(parts[0]) > i {
		return int(parts[0][i])
	}
	return -1
}

func firstDiff(a, b string) int {
	ra, rb := []rune(a), []rune(b)
	for i := 0; i < len(ra) && i < len(rb); i++ {
		if ra[i] != rb[i] {
			return i
		}
	}
	if len(ra) < len(rb) {
		return len(ra)
	}
	return len(rb)
}

func bucket(n int) string {
	switch {
	case n <= 1:
		return "1"
	case n <= 4:
		return fmt.Sprint(n)
	case n <= 255:
		return "5-255"
	}
	return ">255"
}

// multi-unit characters per coding, and single-unit fillers
func fillers(name string, g *Rng) (single []rune, multi []rune) {
	switch name {
	case "ascii":
		return []rune("abcXYZ 019~"), nil
	case "latin1":
		return []rune("aé€Zñ "), nil
	case "ucs2":
		return []rune("a中é"), []rune{0x1F600, 0x10000, 0x10FFFF}
	case "gb":
		var m []rune
		for _, r := range []rune{'中', '文', 0x20AC, 0x1F600, 0x00E9, 0x4E02, 0x0080, 0x72DC, 0xFA0C, 0x10FFFF} {
			if unitsOf("gb", r) >= 2 { // only what the implementation's own encoder expresses in several octets
				m = append(m, r)
			}
		}
		return []rune("ab1"), m // 2- and 4-octet characters, incl. the lowest and highest lead octets (81 40, 81 30 81 30, A0 40 / FE .., E3 32 9A 35)
	default:
		return []rune("abc@Δ1 "), []rune("[]{}^~|\\€")
	}
}

func unitsOf(name string, r rune) int {
	u, ok := refEncode(name, string(r))
	if !ok {
		return 0
	}
	return len(u)
}

// buildText: a text of exactly `target` units made of fillers, with a multi-unit character starting at unit offset `at` (if at>=0).
func buildText(name string, g *Rng, target, at int) string {
	single, multi := fillers(name, g)
	var sb strings.Builder
	n := 0
	placed := at < 0 || len(multi) == 0
	for n < target {
		if !placed && n >= at {
			r := multi[g.Intn(len(multi))]
			sb.WriteRune(r)
			n += unitsOf(name, r)
			placed = true
			continue
		}
		// choose a filler that does not overshoot the placement offset or the target
		var r rune
		for tries := 0; ; tries++ {
			r = single[g.Intn(len(single))]
			k := unitsOf(name, r)
			if n+k <= target && (placed || n+k <= at || tries > 20) {
				break
			}
			if tries > 40 {
				r = single[0]
				break
			}
		}
		sb.WriteRune(r)
		n += unitsOf(name, r)
	}
	return sb.String()
}

func runSplit(res *Result, d *Driver, g *Rng, tier, prop string) {
	res.Rule = "texts per coding (CMPP 0,8,9,15 / SMPP 0,1,3,8,99 and invalid numbers) with encoded length 0,1, around the single/multi thresholds (140 octets, 160 septets) and around k*134 / k*153 (k=1..4, ±2), multi-unit characters (escape pairs, surrogate pairs, 2- and 4-octet GB18030) starting at every offset -4..+4 relative to every part boundary 1..4, lengths around 255/256 parts, requests that fall back to UCS-2 (surrogate pairs and units with low octet 0x1B around the boundaries), every reference byte class; every request also through the batch encoder with that single candidate; every result looked at again after all later calls; header parser: (ref,total,seq) grid, 16-bit references, near-miss headers; non-trivial = distinct non-empty request"
	thorough := tier == "thorough"
	sc := &splitCtx{res: res, prop: prop}

	reqs := append([]coding{}, codings...)
	reqs = append(reqs, coding{"cmpp", 1, "?"}, coding{"cmpp", 4, "?"}, coding{"cmpp", 255, "?"}, coding{"smpp", 2, "?"}, coding{"smpp", 4, "?"}, coding{"smpp", 100, "?"}, coding{"smpp", -1, "?"})
	refs := []byte{0, 1, 107, 0x7f, 0x80, 0xff}
	for _, rq := range reqs {
		name := rq.name
		if name == "?" {
			name = "ucs2"
		}
		max, per := limits(name)
		var targets []int
		for _, t := range []int{0, 1, 2, max - 2, max - 1, max, max + 1, max + 2} {
			targets = append(targets, t)
		}
		for k := 1; k <= 4; k++ {
			for dlt := -2; dlt <= 2; dlt++ {
				targets = append(targets, k*per+dlt)
			}
		}
		targets = append(targets, 255*per-1, 255*per, 255*per+1, 256*per, 300*per)
		if thorough {
			targets = append(targets, 40000, 17*per+3, 100*per)
			for i := 0; i < 60; i++ {
				targets = append(targets, g.Intn(3000))
			}
		}
		for ti, t := range targets {
			if t < 0 {
				continue
			}
			reps := 1
			if thorough {
				reps = 3
			}
			for r := 0; r < reps; r++ {
				sc.evalSplit(rq, buildText(name, g, t, -1), refs[(ti+r)%len(refs)])
			}
		}
		// multi-unit characters at every offset around every boundary
		_, multi := fillers(name, g)
		if len(multi) > 0 {
			for bnd := 1; bnd <= 4; bnd++ {
				for off := -4; off <= 4; off++ {
					for _, total := range []int{bnd*per + 40, (bnd+1)*per - 1, 4*per + 3} {
						if bnd*per+off < 0 || total < bnd*per+off+4 {
							continue
						}
						sc.evalSplit(rq, buildText(name, g, total, bnd*per+off), refs[(bnd+off+8)%len(refs)])
						if thorough {
							sc.evalSplit(rq, buildText(name, g, total+g.Intn(per), bnd*per+off), byte(g.Intn(256)))
						}
					}
				}
			}
			// at the 255-part limit: a boundary pull-back decides between 255 parts and refusal
			for _, total := range []int{255*per - 3, 255 * per, 255*per - (unitsOf(name, multi[0]) - 1)} {
				for _, at := range []int{per - 1, 100*per - 1, 254*per - 1} {
					sc.evalSplit(rq, buildText(name, g, total, at), 77)
				}
			}
			// several multi-unit characters: all-multi texts and two consecutive boundaries hit
			for _, cnt := range []int{per, per + 1, 2 * per, 200, 3 * per} {
				var sb strings.Builder
				for i := 0; i < cnt; i++ {
					sb.WriteRune(multi[(i+cnt)%len(multi)])
				}
				sc.evalSplit(rq, sb.String(), 9)
			}
			for _, off2 := range []int{-2, -1, 0, 1} {
				t := buildText(name, g, per-1, -1) + string(multi[0]) + buildText(name, g, per-unitsOf(name, multi[0])+off2, -1) + string(multi[len(multi)-1]) + buildText(name, g, 60, -1)
				sc.evalSplit(rq, t, 33)
			}
			// non-ASCII fillers mixed with escapes (byte length vs unit count coincidences)
			if name == "gsm" || name == "gsmpacked" {
				for _, lead := range []string{"é", "ñ£", "Δé€", ""} {
					for off := -2; off <= 1; off++ {
						n := per - 1 + off - len([]rune(lead))
						if n < 0 {
							continue
						}
						t := lead + strings.Repeat("a", n) + "[" + strings.Repeat("b", 20+per)
						sc.evalSplit(rq, t, 5)
					}
				}
			}
		}
	}
	// fallback: a coding that cannot represent the text is replaced by UCS-2, and it is UCS-2's rules that must
	// then govern the cuts (surrogate pairs around every boundary; units whose low octet is the GSM escape 0x1B)
	for _, rq := range reqs {
		if rq.name != "ascii" && rq.name != "latin1" && rq.name != "gsm" && rq.name != "gsmpacked" {
			continue
		}
		_, per := limits("ucs2")
		for bnd := 1; bnd <= 3; bnd++ {
			for off := -4; off <= 2; off += 2 {
				sc.evalSplit(rq, "中"+buildText("ucs2", g, bnd*per+38, bnd*per+off-2), 21)
			}
			for _, r := range []rune{0x041B, 0x4E1B, 0x011B} {
				for d := 0; d <= 2; d++ {
					n := bnd*per/2 - 2 - d // so that r is the last, last but one, … unit of part `bnd`
					if n < 0 {
						continue
					}
					sc.evalSplit(rq, "中"+strings.Repeat("a", n)+string(r)+strings.Repeat("b", 40), 22)
				}
			}
		}
	}
	func() {
		defer sweepPools()() // and not by whoever is handed the pooled buffers next
		// results handed out earlier must not have been touched by any later call
		for _, h := range sc.held {
			for i, p := range h.parts {
				if !bytes.Equal(p, h.snap[i]) {
					sc.viol("C06", "C06.parts-changed-by-later-call", fmt.Sprintf("part %d of an earlier result no longer holds what was returned (it shares storage with something a later call wrote)", i+1), []string{h.op})
					return
				}
			}
		}
	}()
	// header parser (C07)
	if prop == "C07" {
		runParseLong(sc, g, thorough)
	}
	for i := 0; i < len(sc.ops) && len(res.Samples) < 6; i += len(sc.ops)/5 + 1 {
		res.Sample(sc.ops[i] + "  =>  " + sc.goOut[i])
	}
	res.Compare(d, "split model vs EncodeCMPP/SMPPContentAndSplit", sc.ops, sc.goOut)
}

func goParseLong(content []byte) string {
	var out string
	o := Guard(func() {
		k, t, i, rest, ok := sms.ParseLongSmsContent(string(content))
		out = fmt.Sprintf("%d %d %d %s %v", k, t, i, hx([]byte(rest)), ok)
	})
	if o.Panic != "" {
		return "panic"
	}
	return out
}

func runParseLong(sc *splitCtx, g *Rng, thorough bool) {
	res := sc.res
	check := func(content []byte, viaModel bool) {
		op := "parselong " + hx(content)
		out := goParseLong(content)
		if viaModel {
			sc.ops, sc.goOut = append(sc.ops, op), append(sc.goOut, out)
		}
		res.Eval(op, true)
		// closed form
		exp := fmt.Sprintf("0 0 0 %s false", hx(content))
		if len(content) >= 6 && content[0] == 5 && content[1] == 0 && content[2] == 3 {
			exp = fmt.Sprintf("%d %d %d %s true", content[3], content[4], content[5], hx(content[6:]))
		} else if len(content) >= 7 && content[0] == 6 && content[1] == 8 && content[2] == 4 {
			exp = fmt.Sprintf("%d %d %d %s true", int(content[3])<<8|int(content[4]), content[5], content[6], hx(content[7:]))
		}
		if out != exp {
			cls := "C07.parse"
			if len(content) >= 7 && content[0] == 6 {
				cls = "C07.parse-16bit-reference"
			}
			res.Violate(cls, fmt.Sprintf("ParseLongSmsContent(%s) = %s, expected %s", hx(content), out, exp), []string{op})
		}
	}
	step := 17
	if thorough {
		step = 1
	}
	n := 0
	for r := 0; r < 256; r += 1 {
		for t := 0; t < 256; t += step {
			for s := 0; s < 256; s += step {
				n++
				check([]byte{5, 0, 3, byte(r), byte(t), byte(s), 'x', byte(n)}, n%257 == 0)
			}
		}
	}
	for ref := 0; ref < 65536; ref++ {
		check([]byte{6, 8, 4, byte(ref >> 8), byte(ref), 3, 1, 'a', 'b'}, ref%97 == 0)
	}
	// near misses: one octet off in each of the first three positions, lengths 0..7
	base6 := []byte{5, 0, 3, 9, 2, 1, 'p', 'q'}
	base7 := []byte{6, 8, 4, 1, 2, 2, 1, 'p', 'q'}
	for _, b := range [][]byte{base6, base7} {
		for l := 0; l <= len(b); l++ {
			check(append([]byte(nil), b[:l]...), true)
		}
		for pos := 0; pos < 3; pos++ {
			for _, dv := range []int{-1, 1, 0x80} {
				m := append([]byte(nil), b...)
				m[pos] = byte(int(m[pos]) + dv)
				check(m, true)
			}
		}
	}
	for i := 0; i < 3000; i++ {
		check(g.Bytes(g.Intn(12)), i%3 == 0)
	}
}

func replaySplit(lines []string) []string {
	var out []string
	for _, l := range lines {
		f := strings.Fields(l)
		switch {
		case len(f) == 5 && f[0] == "splittext":
			var num, ref int
			fmt.Sscan(f[2], &num)
			fmt.Sscan(f[3], &ref)
			parts, actual, err, oc := callSplit(coding{proto: f[1], num: num}, textOfCps(f[4]), byte(ref))
			switch {
			case oc.Panic != "":
				out = append(out, "panic")
			case err != nil:
				out = append(out, "err "+err.Error())
			default:
				out = append(out, fmt.Sprintf("coding=%d %s", actual, renderParts(parts)))
			}
		case len(f) == 5 && f[0] == "splitbatch":
			var num, ref int
			fmt.Sscan(f[2], &num)
			fmt.Sscan(f[3], &ref)
			parts, actual, err, oc := callSplitBatch(coding{proto: f[1], num: num}, textOfCps(f[4]), byte(ref))
			switch {
			case oc.Panic != "":
				out = append(out, "panic")
			case err != nil:
				out = append(out, "err "+err.Error())
			default:
				out = append(out, fmt.Sprintf("coding=%d %s", actual, renderParts(parts)))
			}
		case len(f) == 2 && f[0] == "parselong":
			out = append(out, goParseLong(unhx(f[1])))
		case len(f) == 6 && f[0] == "split":
			out = append(out, "(model-only op: the implementation is driven by the preceding splittext line)")
		default:
			out = append(out, "bad-op")
		}
	}
	return out
}
