package main

// C10 — responses pair with requests; dispatch is consistent with encoding.

import (
	"bytes"
	"encoding/binary"
	"errors"
	"fmt"
	"reflect"
	"strings"

	sms "github.com/hujm2023/go-sms-protocol"
	"github.com/hujm2023/go-sms-protocol/cmpp/cmpp20"
	"github.com/hujm2023/go-sms-protocol/cmpp/cmpp30"
	"github.com/hujm2023/go-sms-protocol/sgip/sgip12"
	"github.com/hujm2023/go-sms-protocol/smgp/smgp30"
	"github.com/hujm2023/go-sms-protocol/smpp/smpp34"
)

func init() {
	runners["C10"] = runC10
	replayers["C10"] = replayC10
}

var dispatchFn = map[string]func([]byte) (sms.PDU, error){
	"cmpp20": cmpp20.DecodeCMPP20, "cmpp30": cmpp30.DecodeCMPP30, "sgip12": sgip12.DecodeSGIP12,
	"smgp30": smgp30.DecodeSMGP30, "smpp34": smpp34.DecodeSMPP34,
}

// specResp: request -> response type, per the protocol documents (same table as Props/C10.lean).
var specResp = map[string]string{
	"cmpp20.PduConnect": "cmpp20.PduConnectResp", "cmpp20.PduTerminate": "cmpp20.PduTerminateResp", "cmpp20.PduSubmit": "cmpp20.PduSubmitResp",
	"cmpp20.PduDeliver": "cmpp20.PduDeliverResp", "cmpp20.PduQuery": "cmpp20.PduQueryResp", "cmpp20.PduActiveTest": "cmpp20.PduActiveTestResp",
	"cmpp30.Connect": "cmpp30.ConnectResp", "cmpp30.Terminate": "cmpp30.TerminateResp", "cmpp30.Submit": "cmpp30.SubmitResp",
	"cmpp30.Deliver": "cmpp30.DeliverResp", "cmpp30.Query": "cmpp30.QueryResp", "cmpp30.Cancel": "cmpp30.CancelResp", "cmpp30.ActiveTest": "cmpp30.ActiveTestResp",
	"sgip12.Bind": "sgip12.BindResp", "sgip12.Unbind": "sgip12.UnbindResp", "sgip12.Submit": "sgip12.SubmitResp", "sgip12.Deliver": "sgip12.DeliverResp", "sgip12.Report": "sgip12.ReportResp",
	"smgp30.Login": "smgp30.LoginResp", "smgp30.Submit": "smgp30.SubmitResp", "smgp30.Deliver": "smgp30.DeliverResp", "smgp30.ActiveTest": "smgp30.ActiveTestResp", "smgp30.Exit": "smgp30.ExitResp",
	"smpp34.Bind": "smpp34.BindResp", "smpp34.Unbind": "smpp34.UnBindResp", "smpp34.SubmitSm": "smpp34.SubmitSmResp", "smpp34.DeliverSm": "smpp34.DeliverSmResp", "smpp34.EnquireLink": "smpp34.EnquireLinkResp",
}

func typeName(p interface{}) string {
	t := reflect.TypeOf(p).Elem()
	pk := t.PkgPath()
	return pk[strings.LastIndexByte(pk, '/')+1:] + "." + t.Name()
}

func pkgOfName(n string) string { return n[:strings.IndexByte(n, '.')] }

func cmdFieldOf(pkg string) string {
	if pkg == "smpp34" {
		return "Header.ID"
	}
	return "Header.CommandID"
}
func seqOffset(pkg string) int {
	switch pkg {
	case "smpp34":
		return 12
	case "sgip12":
		return 16
	}
	return 8
}

// bindFlavours: the command ids a type may legitimately carry in its header.
func headerIDs(name string, natural uint32) []uint32 {
	switch name {
	case "smpp34.Bind":
		return []uint32{1, 2, 9}
	case "smpp34.BindResp":
		return []uint32{0x80000001, 0x80000002, 0x80000009}
	}
	return []uint32{natural}
}

// goMeta renders what the implementation answers, in the format of Driver.handleMeta.
func goMeta(name string, hdr uint32, seq uint32) (line string, p sms.PDU, resp sms.PDU) {
	c := registry[name]()
	pd, ok := c.(sms.PDU)
	if !ok {
		return "not-a-pdu", nil, nil
	}
	r := record{cmdFieldOf(pkgOfName(name)): value{kind: kNum, num: uint64(hdr)}}
	if pkgOfName(name) == "sgip12" {
		// the other two words of the 12-octet sequence number: a node id and a time that is not "now"
		r["Header.Sequence.0"] = value{kind: kNum, num: uint64(3000000000 + seq%99999)}
		r["Header.Sequence.1"] = value{kind: kNum, num: uint64(101000000 + seq%1130235959)}
	}
	pd = build(name, r).(sms.PDU)
	pd.SetSequenceID(seq)
	cmd := pd.GetCommand().ToUint32()
	resp = pd.GenEmptyResponse()
	rs := "none"
	if resp != nil && !reflect.ValueOf(resp).IsNil() {
		flag := "noseq"
		if resp.GetSequenceID() == seq {
			flag = "seq"
		}
		rs = fmt.Sprintf("%s:%d:%s", typeName(resp), resp.GetCommand().ToUint32(), flag)
	} else {
		resp = nil
	}
	return fmt.Sprintf("cmd=%d resp=%s", cmd, rs), pd, resp
}

func goDispatch(pkg string, cmd uint32, res *Result, op string) string {
	img := make([]byte, 64)
	binary.BigEndian.PutUint32(img[0:], 64)
	binary.BigEndian.PutUint32(img[4:], cmd)
	var p sms.PDU
	var err error
	o := Guard(func() { p, err = dispatchFn[pkg](img) })
	switch {
	case o.Panic != "":
		return "panic"
	case err != nil && errors.Is(err, sms.ErrUnsupportedPacket):
		if p != nil && !reflect.ValueOf(p).IsNil() {
			return "unsupported-with-pdu"
		}
		return "unsupported"
	case err != nil:
		return "err" // a known command whose body does not parse from zeros
	case p == nil || reflect.ValueOf(p).IsNil():
		return "nil-nil"
	}
	return typeName(p)
}

func runC10(res *Result, d *Driver, g *Rng, tier string) {
	res.Rule = "every PDU type x every header id it may carry (three SMPP bind flavours) x sequence numbers at 0,1,2^31-1,2^31,2^32-1, every value that is a command id of some protocol, header sizes, and random: GetCommand vs encoded header, GenEmptyResponse type/command/sequence, for SGIP all three words of the 12-octet sequence number (and that an earlier response keeps its sequence after later ones are generated), SetSequenceID vs getter and header offset, dispatcher on the encoded image; dispatchers on every defined id and random ids; non-trivial = distinct (type, header id, sequence) or (dispatcher, id)"
	nseq := 36
	nrand := 2000
	if tier == "thorough" {
		nseq, nrand = 400, 100000
	}
	// boundary values, and every value that is also a command id somewhere (a header word read at the wrong offset)
	seqs := []uint32{0, 1, 0x7fffffff, 0x80000000, 0xffffffff, 0xdeadbeef, 2, 3, 4, 5, 6, 7, 8, 9, 0x15,
		0x80000001, 0x80000002, 0x80000003, 0x80000004, 0x80000005, 0x80000006, 0x80000007, 0x80000008, 0x80000009, 0x80000015, 12, 16, 20}
	var ops, goOut []string
	for _, name := range pduNames() {
		c := registry[name]()
		pd, ok := c.(sms.PDU)
		if !ok {
			continue
		}
		pkg := pkgOfName(name)
		natural := pd.GetCommand().ToUint32()
		for _, hid := range headerIDs(name, natural) {
			var prevResp sms.PDU
			var prevSeq uint32
			var prevImg []byte
			for i := 0; i < nseq; i++ {
				seq := uint32(g.U64())
				if i < len(seqs) {
					seq = seqs[i]
				}
				op := fmt.Sprintf("meta %s %d", name, hid)
				line, p, resp := goMeta(name, hid, seq)
				res.Eval(fmt.Sprintf("%s/%d", op, seq), true)
				// a response stays paired with its request after later requests have been answered
				if resp != nil {
					if prevResp != nil {
						img, _ := prevResp.IEncode()
						if prevResp.GetSequenceID() != prevSeq || !bytes.Equal(img, prevImg) {
							res.Violate("C10.response-shared:"+name, fmt.Sprintf("the response generated for sequence %d reports %d after the response for sequence %d was generated", prevSeq, prevResp.GetSequenceID(), seq), []string{op})
						}
					}
					prevResp, prevSeq = resp, resp.GetSequenceID()
					prevImg, _ = resp.IEncode()
					prevImg = append([]byte(nil), prevImg...)
				}
				if i == 0 {
					ops, goOut = append(ops, op), append(goOut, line)
				}
				rep := []string{op}
				// (1) set/get and header offset
				if p.GetSequenceID() != seq {
					res.Violate("C10.set-get-seq:"+name, fmt.Sprintf("SetSequenceID(%d) then GetSequenceID()=%d", seq, p.GetSequenceID()), rep)
				}
				var img []byte
				var err error
				o := Guard(func() { img, err = p.IEncode() })
				if o.Panic != "" || err != nil {
					res.Violate("C10.encode-failed:"+name, "a PDU with only header fields set does not encode", rep)
					continue
				}
				if cp, ok := p.(codec); ok {
					retainEncoded(name, snapshot(cp), img) // looked at again when the run is over: the header must still say this
				}
				so := seqOffset(pkg)
				if len(img) < so+4 || binary.BigEndian.Uint32(img[so:]) != seq {
					res.Violate("C10.seq-not-at-offset:"+name, fmt.Sprintf("sequence %d is not at header offset %d of the encoded image %s", seq, so, hx(img[:min(len(img), 24)])), rep)
				}
				// (2) command reported vs command in the encoded header, for a PDU obtained from the library:
				//     decode the image through the dispatcher
				q, derr := dispatchFn[pkg](img)
				if derr != nil || q == nil || reflect.ValueOf(q).IsNil() {
					cls := "C10.dispatch-missing:" + name
					if derr == nil {
						cls = "C10.nil-nil:" + name
					}
					res.Violate(cls, fmt.Sprintf("dispatcher of %s does not map an encoded %s (command id %#x) back: err=%v", pkg, name, hid, derr), append(rep, fmt.Sprintf("dispatch %s %d", pkg, hid)))
				} else {
					if typeName(q) != name {
						res.Violate("C10.dispatch-wrong-type:"+name, "dispatcher returned "+typeName(q), rep)
					}
					if q.GetCommand().ToUint32() != binary.BigEndian.Uint32(img[4:]) {
						res.Violate("C10.command-ne-header:"+name, fmt.Sprintf("decoded PDU reports command %#x but its header carries %#x", q.GetCommand().ToUint32(), binary.BigEndian.Uint32(img[4:])), rep)
					}
					if q.GetSequenceID() != seq {
						res.Violate("C10.seq-lost:"+name, "decoded PDU has another sequence id", rep)
					}
					// response generated by the decoded request
					if want, isReq := specResp[name]; isReq {
						r2 := q.GenEmptyResponse()
						if r2 == nil || reflect.ValueOf(r2).IsNil() {
							res.Violate("C10.no-response:"+name, "request generates no response", rep)
						} else {
							rimg, rerr := r2.IEncode()
							if typeName(r2) != want {
								res.Violate("C10.response-type:"+name, "response is "+typeName(r2)+", specification says "+want, rep)
							}
							if r2.GetSequenceID() != seq {
								res.Violate("C10.response-seq:"+name, fmt.Sprintf("response carries sequence %d, request %d", r2.GetSequenceID(), seq), rep)
							}
							if r2.GetCommand().ToUint32() != hid|0x80000000 {
								res.Violate("C10.response-command:"+name, fmt.Sprintf("request command %#x, response command %#x", hid, r2.GetCommand().ToUint32()), rep)
							}
							// SGIP 1.2 §3.4: the sequence number is 12 octets (node id, time, serial) and the response's must equal the request's
							if pkg == "sgip12" && rerr == nil && len(rimg) >= 20 && len(img) >= 20 && !bytes.Equal(rimg[8:20], img[8:20]) {
								res.Violate("C10.response-seq-words:"+name, fmt.Sprintf("request sequence number %x, response %x: not the same 12 octets", img[8:20], rimg[8:20]), rep)
							}
							if rerr == nil && len(rimg) >= so+4 {
								if binary.BigEndian.Uint32(rimg[4:]) != r2.GetCommand().ToUint32() {
									res.Violate("C10.command-ne-header:"+typeName(r2), fmt.Sprintf("generated response reports command %#x but encodes %#x", r2.GetCommand().ToUint32(), binary.BigEndian.Uint32(rimg[4:])), rep)
								}
								if binary.BigEndian.Uint32(rimg[so:]) != seq {
									res.Violate("C10.response-seq:"+name, "encoded response does not carry the request's sequence at the header offset", rep)
								}
							}
						}
					} else if r2 := q.GenEmptyResponse(); r2 != nil && !reflect.ValueOf(r2).IsNil() {
						res.Violate("C10.response-generates-response:"+name, "a response PDU generated "+typeName(r2), rep)
					}
				}
				_ = resp
			}
		}
	}
	// dispatchers on every defined id and on random ids
	for _, pkg := range []string{"cmpp20", "cmpp30", "sgip12", "smgp30", "smpp34"} {
		ids := []uint32{}
		for i := uint32(0); i < 0x30; i++ {
			ids = append(ids, i, i|0x80000000)
		}
		ids = append(ids, 0x102, 0x103, 0x80000102, 0x80000103, 0x7fffffff, 0xffffffff)
		for i := 0; i < nrand; i++ {
			ids = append(ids, uint32(g.U64()))
		}
		for _, id := range ids {
			op := fmt.Sprintf("dispatch %s %d", pkg, id)
			out := goDispatch(pkg, id, res, op)
			res.Eval(op, true)
			switch out {
			case "nil-nil":
				res.Violate("C10.nil-nil:"+pkg, fmt.Sprintf("dispatcher returned (nil, nil) for command id %#x", id), []string{op})
			case "panic", "unsupported-with-pdu":
				res.Violate("C10.dispatch-"+out+":"+pkg, fmt.Sprintf("command id %#x", id), []string{op})
			case "err":
				// body of zeros rejected by the decoder: the model answers with the type; compare on the type only when decoding succeeded
				continue
			}
			ops, goOut = append(ops, op), append(goOut, out)
		}
	}
	res.Sample(ops[0] + "  =>  " + goOut[0])
	res.Sample(ops[len(ops)-1] + "  =>  " + goOut[len(ops)-1])
	res.Compare(d, "extracted GetCommand/GenEmptyResponse/dispatcher tables vs implementation", ops, goOut)
}

func replayC10(lines []string) []string {
	var out []string
	for _, l := range lines {
		f := strings.Fields(l)
		switch {
		case len(f) == 3 && f[0] == "meta" && registry[f[1]] != nil:
			var h uint32
			fmt.Sscan(f[2], &h)
			line, _, _ := goMeta(f[1], h, 7)
			out = append(out, line)
		case len(f) == 3 && f[0] == "dispatch" && dispatchFn[f[1]] != nil:
			var c uint32
			fmt.Sscan(f[2], &c)
			out = append(out, goDispatch(f[1], c, nil, l))
		default:
			out = append(out, "bad-op")
		}
	}
	return out
}

func min(a, b int) int {
	if a < b {
		return a
	}
	return b
}
