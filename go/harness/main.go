package main

// verif harness: runs the real go-sms-protocol code in-process, drives the Lean model through the
// line protocol, diffs, and evaluates the property predicates directly on the implementation.

import (
	"io"

	"encoding/json"
	"flag"
	"fmt"
	smslogger "github.com/hujm2023/go-sms-protocol/logger"
	"os"
	"sort"
	"strings"
	"time"
)

type runner func(res *Result, d *Driver, g *Rng, tier string)

var runners = map[string]runner{}

var layoutsPath = "/verif/lean/SmsVerif/Gen/layouts.json"

// replayers re-execute protocol lines on the implementation (one output line per input line)
var replayers = map[string]func([]string) []string{}

func init() {
	runners["C20"] = runC20
	replayers["C20"] = replayC20
}

func main() {
	smslogger.SetOutput(io.Discard) // the library logs fallbacks to stderr
	prop := flag.String("prop", "", "property id")
	tier := flag.String("tier", "quick", "quick|thorough")
	seed := flag.Uint64("seed", 1, "PRNG seed")
	driver := flag.String("driver", "/verif/lean/.lake/build/bin/driver", "Lean driver executable")
	out := flag.String("out", "", "result JSON path")
	replay := flag.String("replay", "", "replay file (JSON with ops)")
	list := flag.Bool("list", false, "list properties with a runner")
	flag.Parse()

	if *list {
		ks := make([]string, 0, len(runners))
		for k := range runners {
			ks = append(ks, k)
		}
		sort.Strings(ks)
		for _, k := range ks {
			fmt.Println(k)
		}
		return
	}
	d := &Driver{path: *driver}
	if *replay != "" {
		os.Exit(doReplay(*replay, d))
	}
	run, ok := runners[*prop]
	if !ok {
		fmt.Fprintln(os.Stderr, "no runner for", *prop)
		os.Exit(2)
	}
	res := NewResult(*prop, *tier, *seed)
	t0 := time.Now()
	run(res, d, NewRng(*seed), *tier)
	verifyRetained(res, *prop)
	res.Notes = append(res.Notes, fmt.Sprintf("harness wall %.1fs", time.Since(t0).Seconds()))
	if *out != "" {
		res.Write(*out)
	}
	fmt.Printf("%s: evaluations=%d distinct_nontrivial=%d model_ops=%d disagreements=%d violations=%d\n",
		*prop, res.Evaluations, res.Distinct, res.ModelOps, len(res.Disagreements), len(res.Violations))
}

type replayFile struct {
	Property string   `json:"property"`
	Kind     string   `json:"kind"`
	What     string   `json:"what"`
	Ops      []string `json:"ops"`
	Go       []string `json:"go"`
	Lean     []string `json:"lean"`
}

func doReplay(path string, d *Driver) int {
	b, err := os.ReadFile(path)
	if err != nil {
		fmt.Fprintln(os.Stderr, err)
		return 2
	}
	var rf replayFile
	if err := json.Unmarshal(b, &rf); err != nil {
		fmt.Fprintln(os.Stderr, err)
		return 2
	}
	fmt.Printf("replay %s (%s): %s\n", rf.Property, rf.Kind, rf.What)
	rp, ok := replayers[rf.Property]
	if !ok || len(rf.Ops) == 0 {
		fmt.Println("nothing executable recorded in this replay (it names a proof obligation or has no ops)")
		return 0
	}
	goOut := rp(rf.Ops)
	leanOut, err := d.Ask(rf.Ops)
	if err != nil {
		fmt.Println("driver:", err)
	}
	diff := 0
	for i, op := range rf.Ops {
		fmt.Println("op:   ", op)
		if i < len(goOut) {
			fmt.Println("  go:  ", goOut[i])
		}
		if i < len(leanOut) {
			fmt.Println("  lean:", leanOut[i])
			if i < len(goOut) && goOut[i] != leanOut[i] && leanOut[i] != "bad-op" && !strings.HasPrefix(goOut[i], "(") {
				diff++
			}
		}
	}
	if diff > 0 {
		fmt.Printf("%d line(s) differ between implementation and model\n", diff)
		return 1
	}
	return 0
}
