package main

// C19 — SMPP validity-period strings.

import (
	"fmt"
	"math/bits"
	"strings"
	"time"

	"github.com/hujm2023/go-sms-protocol/smpp"
)

func init() {
	runners["C19"] = runC19
	replayers["C19"] = replayC19
}

func goValidity(now time.Time, v string, rel bool) (string, string) {
	var s string
	var err error
	o := Guard(func() { s, err = smpp.ToValidatePeriod(now, v, rel) })
	if o.Panic != "" {
		return "panic", ""
	}
	if err != nil {
		return "err", err.Error()
	}
	return "ok " + s, s
}

func validityOp(now time.Time, v string, rel bool) string {
	d, err := time.ParseDuration(v)
	ds := "x"
	if err == nil {
		if d < 0 {
			ds = fmt.Sprintf("m%d", -int64(d))
		} else {
			ds = fmt.Sprint(int64(d))
		}
	}
	r := "0"
	if rel {
		r = "1"
	}
	return fmt.Sprintf("validity %d %s %s %s", now.UnixNano(), ds, r, "t"+hx([]byte(v)))
}

// div128 divides the 128-bit number hi:lo by d (hi < d)
func div128(hi, lo, d uint64) (uint64, uint64) {
	return bits.Div64(hi%d, lo, d)
}

// the protocol line carries (now, parsed duration); for the replay the original text is appended as a 5th token
func replayC19(lines []string) []string {
	var out []string
	for _, l := range lines {
		f := strings.Fields(l)
		if len(f) >= 4 && f[0] == "validity" {
			var nowNs int64
			fmt.Sscan(f[1], &nowNs)
			v := "bogus"
			if len(f) >= 5 && strings.HasPrefix(f[4], "t") {
				v = string(unhx(f[4][1:])) // the text as it was given
			} else if f[2] != "x" {
				var n int64
				if strings.HasPrefix(f[2], "m") {
					fmt.Sscan(f[2][1:], &n)
					n = -n
				} else {
					fmt.Sscan(f[2], &n)
				}
				v = time.Duration(n).String()
			}
			o, _ := goValidity(time.Unix(0, nowNs).UTC(), v, f[3] == "1")
			out = append(out, normaliseValidity(o))
		} else {
			out = append(out, "bad-op")
		}
	}
	return out
}

// the model distinguishes error kinds, the implementation only says "error": compare on ok/err
func normaliseValidity(s string) string {
	if strings.HasPrefix(s, "err") {
		return "err"
	}
	return s
}

func runC19(res *Result, d *Driver, g *Rng, tier string) {
	res.Rule = "durations from -1 s to 100 years: every unit boundary ±1 ns/±1 s (59 s/60 s, 59 m 59 s/1 h, 23 h 59 m 59 s/24 h, 30 d 23 h 59 m 59 s/31 d, 32 d, 365 d, 100 y), sub-second fractions, random durations, unparsable texts, texts beyond the range of a Duration in every unit (counts whose product with the unit wraps modulo 2^63, 2^64, 2^65 to 0, 10 s, 1 h, 1 day, 30 days, ±1), near-miss syntax; both forms; relative form on every whole minute below 31 days (thorough: every whole second); 'now' at random instants of 2000..2099 incl. leap days, year ends and sub-second parts, and in zones with daylight-saving time shortly before each transition; non-trivial = distinct (now, duration, form)"
	thorough := tier == "thorough"
	var ops, goOut []string
	day := 24 * time.Hour
	bounds := []time.Duration{0, time.Nanosecond, 500 * time.Millisecond, time.Second, 59 * time.Second, time.Minute, time.Hour - time.Second, time.Hour,
		day - time.Second, day, 2 * day, 30*day + 23*time.Hour + 59*time.Minute + 59*time.Second, 31 * day, 32 * day, 365 * day, 366 * day, 36500 * day, 876000 * time.Hour}
	var durs []string
	for _, b := range bounds {
		for _, dl := range []time.Duration{-time.Second, -time.Nanosecond, 0, time.Nanosecond, time.Second, 1500 * time.Millisecond} {
			durs = append(durs, (b + dl).String())
		}
	}
	durs = append(durs, "-1s", "-1ns", "", "abc", "1d", "5", "1h30", "1.5h", "90m", "744h", "768h", "1e3s", "9223372036s")
	nFixed := len(durs)
	// texts beyond the range of a Duration: in every unit, the counts whose product with the unit wraps modulo
	// 2^63 / 2^64 / 2^65 to a small duration (0, 10 s, 1 h, 1 day, 30 days), and their neighbours; the largest
	// representable text and the first one past it; near-miss syntax
	{
		units := []struct {
			name string
			ns   uint64
		}{{"ns", 1}, {"us", 1e3}, {"µs", 1e3}, {"ms", 1e6}, {"s", 1e9}, {"m", 6e10}, {"h", 36e11}}
		for _, u := range units {
			for _, sh := range []uint{63, 64, 65} {
				for _, small := range []uint64{0, 10e9, 3600e9, 86400e9, 30 * 86400e9} {
					// smallest n with n*u.ns ≥ 2^sh + small, computed in 128 bits by hand: q = (2^sh + small + u.ns - 1) / u.ns
					hi, lo := uint64(0), uint64(0)
					switch sh {
					case 63:
						lo = 1 << 63
					case 64:
						hi = 1
					case 65:
						hi = 2
					}
					lo2 := lo + small + u.ns - 1
					if lo2 < lo {
						hi++
					}
					q, _ := div128(hi, lo2, u.ns)
					for _, dn := range []int64{-1, 0, 1} {
						durs = append(durs, fmt.Sprintf("%d%s", uint64(int64(q)+dn), u.name))
					}
				}
			}
		}
		durs = append(durs, "2562047h47m16.854775807s", "2562047h47m16.854775808s", "2562047h48m", "9223372036.854775807s", "9223372036.854775808s",
			"9223372036854775807ns", "9223372036854775808ns", "18446744073709551616ns", "99999999999999999999999s", "18446744084.0s", "0.000000000000000000001h",
			"+5s", " 5s", "5s ", "5 s", "5S", ".5s", "5.s", "1h-5m", "--5s", "0x10s", "1_0s", "5sec", "1h1h", "1m30", "s", ".s", "-", "+", "0", "+0", "-0", "1.5.5s", "1e3", "٥s", "5s\x00", "5µs", "5μs", "5us")
	}
	nOverflowEnd := len(durs)
	n := 600
	if thorough {
		n = 50000
	}
	for i := 0; i < n; i++ {
		durs = append(durs, time.Duration(g.U64()%uint64(g.Pick([]int{3600, 86400, 31 * 86400, 40 * 86400, 400 * 86400}))*uint64(time.Second)+g.U64()%1e9).String())
	}
	nows := []time.Time{
		time.Date(2024, 1, 1, 0, 0, 0, 0, time.UTC), time.Date(2024, 2, 28, 23, 59, 59, 999999999, time.UTC), time.Date(2000, 1, 1, 0, 0, 0, 0, time.UTC),
		time.Date(2099, 12, 31, 23, 59, 59, 0, time.UTC), time.Date(2023, 12, 31, 12, 0, 0, 5, time.UTC), time.Date(2096, 2, 29, 6, 7, 8, 0, time.UTC),
		time.Date(2024, 6, 30, 10, 0, 0, 0, time.FixedZone("X", 8*3600)),
	}
	// instants given in a zone with daylight-saving transitions, shortly before each transition: a day is then 23 or 25
	// hours long on the wall clock, the requested duration is still that many seconds (skipped where no zone data exists)
	for _, zn := range []string{"America/New_York", "Europe/Berlin", "Australia/Lord_Howe"} {
		if loc, err := time.LoadLocation(zn); err == nil {
			nows = append(nows, time.Date(2024, 3, 9, 12, 0, 0, 0, loc), time.Date(2024, 11, 2, 12, 0, 0, 0, loc), time.Date(2024, 3, 30, 12, 30, 0, 0, loc),
				time.Date(2024, 10, 26, 23, 59, 59, 0, loc), time.Date(2024, 4, 6, 12, 0, 0, 0, loc), time.Date(2024, 10, 5, 12, 0, 0, 0, loc))
		}
	}
	for i := 0; i < 12; i++ {
		nows = append(nows, time.Unix(946684800+int64(g.U64()%(100*365*86400)), int64(g.U64()%1e9)).UTC())
	}
	for di, v := range durs {
		for ni, now := range nows {
			if di >= nOverflowEnd && ni != di%len(nows) {
				continue // random durations: one instant each
			}
			if di >= nFixed && di < nOverflowEnd && ni >= 3 {
				continue // out-of-range and near-miss texts: three instants each
			}
			for _, rel := range []bool{true, false} {
				op := validityOp(now, v, rel)
				out, s := goValidity(now, v, rel)
				res.Eval(op, true)
				if (di+ni)%3 == 0 || di < nOverflowEnd {
					ops, goOut = append(ops, op), append(goOut, normaliseValidity(out))
				}
				dur, perr := time.ParseDuration(v)
				rep := []string{op}
				switch {
				case out == "panic":
					res.Violate("C19.panics", "ToValidatePeriod panics on "+v, rep)
				case perr != nil || dur < 0:
					if out != "err" {
						res.Violate("C19.bad-duration-accepted", fmt.Sprintf("duration %q accepted: %q", v, out), rep)
					}
				case rel:
					secs := int64(dur / time.Second)
					if secs >= 31*86400 {
						if out != "err" {
							res.Violate("C19.relative-silently-shortened", fmt.Sprintf("relative form of %s (%d whole days) gives %q: not representable, must be refused", v, secs/86400, out), rep)
						}
						break
					}
					if secs == 0 {
						if out != "ok " {
							res.Violate("C19.relative-wrong", fmt.Sprintf("duration %s is below one second but the result is %q", v, out), rep)
						}
						break
					}
					want := fmt.Sprintf("0000%02d%02d%02d%02d000R", secs/86400, secs/3600%24, secs/60%60, secs%60)
					if s != want {
						res.Violate("C19.relative-wrong", fmt.Sprintf("relative form of %s is %q, expected %q", v, s, want), rep)
					}
				default:
					target := now.Add(dur).UTC()
					if target.Year() < 2000 || target.Year() > 2099 {
						if out != "err" {
							res.Violate("C19.absolute-year-wrapped", fmt.Sprintf("now+%s falls in %d, not expressible with two year digits, but the result is %q", v, target.Year(), out), rep)
						}
						break
					}
					want := fmt.Sprintf("%02d%02d%02d%02d%02d%02d000+", target.Year()%100, int(target.Month()), target.Day(), target.Hour(), target.Minute(), target.Second())
					if s != want {
						res.Violate("C19.absolute-wrong", fmt.Sprintf("absolute form of %s + %s is %q, expected %q", now.Format(time.RFC3339Nano), v, s, want), rep)
					}
				}
			}
		}
	}
	// the dense grid of the relative form: every whole minute below 31 days (and, thorough, every whole
	// second) — the field arithmetic goes through float64 hours/minutes/seconds, which is exact only as
	// long as each field is computed from its own unit
	step := int64(60)
	if thorough {
		step = 1
	}
	now0 := nows[0]
	for secs := int64(0); secs < 31*86400+120; secs += step {
		v := (time.Duration(secs) * time.Second).String()
		out, sgot := goValidity(now0, v, true)
		res.Eval("grid/"+v, true)
		want, wantOut := fmt.Sprintf("0000%02d%02d%02d%02d000R", secs/86400, secs/3600%24, secs/60%60, secs%60), "ok"
		if secs == 0 {
			want = ""
		}
		if secs >= 31*86400 {
			want, wantOut = "", "err"
		}
		if (secs/step)%97 == 0 {
			ops, goOut = append(ops, validityOp(now0, v, true)), append(goOut, normaliseValidity(out))
		}
		if (wantOut == "err" && out == "err") || (wantOut == "ok" && out == "ok "+want && sgot == want) {
			continue
		}
		cls := "C19.relative-wrong"
		if wantOut == "err" {
			cls = "C19.relative-silently-shortened"
		}
		res.Violate(cls, fmt.Sprintf("relative form of %s is %q (%s), expected %q (%s)", v, sgot, out, want, wantOut), []string{validityOp(now0, v, true)})
	}
	res.Sample(ops[0] + "  =>  " + goOut[0])
	res.Sample(ops[len(ops)/2] + "  =>  " + goOut[len(ops)/2])
	res.Compare(d, "validity model vs smpp.ToValidatePeriod", ops, goOut)
}
