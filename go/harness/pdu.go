package main

// Generic access to every PDU type of the library through reflection: build a PDU from a record,
// render a PDU as a canonical record (same format as Driver/Layout.lean), guarded encode/decode.

import (
	"bytes"
	"encoding/binary"
	"fmt"
	"reflect"

	"github.com/valyala/bytebufferpool"
	"sort"
	"strconv"
	"strings"

	"github.com/hujm2023/go-sms-protocol/cmpp"
	"github.com/hujm2023/go-sms-protocol/cmpp/cmpp20"
	"github.com/hujm2023/go-sms-protocol/cmpp/cmpp30"
	"github.com/hujm2023/go-sms-protocol/sgip/sgip12"
	"github.com/hujm2023/go-sms-protocol/smgp"
	"github.com/hujm2023/go-sms-protocol/smgp/smgp30"
	"github.com/hujm2023/go-sms-protocol/smpp"
	"github.com/hujm2023/go-sms-protocol/smpp/smpp34"
)

type codec interface {
	IEncode() ([]byte, error)
	IDecode([]byte) error
}

var registry = map[string]func() codec{
	"cmpp.SubPduDeliveryContent": func() codec { return new(cmpp.SubPduDeliveryContent) },
	"cmpp20.PduActiveTest":       func() codec { return new(cmpp20.PduActiveTest) },
	"cmpp20.PduActiveTestResp":   func() codec { return new(cmpp20.PduActiveTestResp) },
	"cmpp20.PduConnect":          func() codec { return new(cmpp20.PduConnect) },
	"cmpp20.PduConnectResp":      func() codec { return new(cmpp20.PduConnectResp) },
	"cmpp20.PduDeliver":          func() codec { return new(cmpp20.PduDeliver) },
	"cmpp20.PduDeliverResp":      func() codec { return new(cmpp20.PduDeliverResp) },
	"cmpp20.PduQuery":            func() codec { return new(cmpp20.PduQuery) },
	"cmpp20.PduQueryResp":        func() codec { return new(cmpp20.PduQueryResp) },
	"cmpp20.PduSubmit":           func() codec { return new(cmpp20.PduSubmit) },
	"cmpp20.PduSubmitResp":       func() codec { return new(cmpp20.PduSubmitResp) },
	"cmpp20.PduTerminate":        func() codec { return new(cmpp20.PduTerminate) },
	"cmpp20.PduTerminateResp":    func() codec { return new(cmpp20.PduTerminateResp) },
	"cmpp30.ActiveTest":          func() codec { return new(cmpp30.ActiveTest) },
	"cmpp30.ActiveTestResp":      func() codec { return new(cmpp30.ActiveTestResp) },
	"cmpp30.Cancel":              func() codec { return new(cmpp30.Cancel) },
	"cmpp30.CancelResp":          func() codec { return new(cmpp30.CancelResp) },
	"cmpp30.Connect":             func() codec { return new(cmpp30.Connect) },
	"cmpp30.ConnectResp":         func() codec { return new(cmpp30.ConnectResp) },
	"cmpp30.Deliver":             func() codec { return new(cmpp30.Deliver) },
	"cmpp30.DeliverResp":         func() codec { return new(cmpp30.DeliverResp) },
	"cmpp30.Query":               func() codec { return new(cmpp30.Query) },
	"cmpp30.QueryResp":           func() codec { return new(cmpp30.QueryResp) },
	"cmpp30.Submit":              func() codec { return new(cmpp30.Submit) },
	"cmpp30.SubmitResp":          func() codec { return new(cmpp30.SubmitResp) },
	"cmpp30.Terminate":           func() codec { return new(cmpp30.Terminate) },
	"cmpp30.TerminateResp":       func() codec { return new(cmpp30.TerminateResp) },
	"sgip12.Bind":                func() codec { return new(sgip12.Bind) },
	"sgip12.BindResp":            func() codec { return new(sgip12.BindResp) },
	"sgip12.Deliver":             func() codec { return new(sgip12.Deliver) },
	"sgip12.DeliverResp":         func() codec { return new(sgip12.DeliverResp) },
	"sgip12.Report":              func() codec { return new(sgip12.Report) },
	"sgip12.ReportResp":          func() codec { return new(sgip12.ReportResp) },
	"sgip12.Submit":              func() codec { return new(sgip12.Submit) },
	"sgip12.SubmitResp":          func() codec { return new(sgip12.SubmitResp) },
	"sgip12.Unbind":              func() codec { return new(sgip12.Unbind) },
	"sgip12.UnbindResp":          func() codec { return new(sgip12.UnbindResp) },
	"smgp30.ActiveTest":          func() codec { return new(smgp30.ActiveTest) },
	"smgp30.ActiveTestResp":      func() codec { return new(smgp30.ActiveTestResp) },
	"smgp30.Deliver":             func() codec { return new(smgp30.Deliver) },
	"smgp30.DeliverResp":         func() codec { return new(smgp30.DeliverResp) },
	"smgp30.Exit":                func() codec { return new(smgp30.Exit) },
	"smgp30.ExitResp":            func() codec { return new(smgp30.ExitResp) },
	"smgp30.Login":               func() codec { return new(smgp30.Login) },
	"smgp30.LoginResp":           func() codec { return new(smgp30.LoginResp) },
	"smgp30.Submit":              func() codec { return new(smgp30.Submit) },
	"smgp30.SubmitResp":          func() codec { return new(smgp30.SubmitResp) },
	"smpp34.Bind":                func() codec { return new(smpp34.Bind) },
	"smpp34.BindResp":            func() codec { return new(smpp34.BindResp) },
	"smpp34.DeliverSm":           func() codec { return new(smpp34.DeliverSm) },
	"smpp34.DeliverSmResp":       func() codec { return new(smpp34.DeliverSmResp) },
	"smpp34.EnquireLink":         func() codec { return new(smpp34.EnquireLink) },
	"smpp34.EnquireLinkResp":     func() codec { return new(smpp34.EnquireLinkResp) },
	"smpp34.GenericNack":         func() codec { return new(smpp34.GenericNack) },
	"smpp34.SubmitSm":            func() codec { return new(smpp34.SubmitSm) },
	"smpp34.SubmitSmResp":        func() codec { return new(smpp34.SubmitSmResp) },
	"smpp34.UnBindResp":          func() codec { return new(smpp34.UnBindResp) },
	"smpp34.Unbind":              func() codec { return new(smpp34.Unbind) },
}

func pduNames() []string {
	ns := make([]string, 0, len(registry))
	for n := range registry {
		ns = append(ns, n)
	}
	sort.Strings(ns)
	return ns
}

// ---- field model ----

type fkind int

const (
	kNum fkind = iota
	kStr
	kBytes
	kStrs
	kTlvs
)

type fieldDesc struct {
	path  string
	kind  fkind
	width int // octets for kNum
}

type tlv struct {
	tag uint16
	val []byte
}

type value struct {
	kind fkind
	num  uint64
	str  []byte
	strs [][]byte
	tlvs []tlv // emission order irrelevant for Go maps; kept for the model line
}

type record map[string]value

var tlvsType = reflect.TypeOf(smpp.TLVs{})
var optsType = reflect.TypeOf(smgp.Options{})

func walk(prefix string, v reflect.Value, visit func(path string, v reflect.Value)) {
	t := v.Type()
	switch {
	case t == tlvsType || t == optsType:
		visit(prefix, v)
	case t.Kind() == reflect.Struct:
		for i := 0; i < t.NumField(); i++ {
			p := t.Field(i).Name
			if prefix != "" {
				p = prefix + "." + p
			}
			walk(p, v.Field(i), visit)
		}
	case t.Kind() == reflect.Array:
		for i := 0; i < t.Len(); i++ {
			walk(fmt.Sprintf("%s.%d", prefix, i), v.Index(i), visit)
		}
	default:
		visit(prefix, v)
	}
}

func fieldsOf(name string) []fieldDesc {
	var fs []fieldDesc
	walk("", reflect.ValueOf(registry[name]()).Elem(), func(path string, v reflect.Value) {
		t := v.Type()
		switch {
		case t == tlvsType || t == optsType:
			fs = append(fs, fieldDesc{path, kTlvs, 0})
		case t.Kind() >= reflect.Uint8 && t.Kind() <= reflect.Uint64:
			fs = append(fs, fieldDesc{path, kNum, int(t.Size())})
		case t.Kind() == reflect.String:
			fs = append(fs, fieldDesc{path, kStr, 0})
		case t.Kind() == reflect.Slice && t.Elem().Kind() == reflect.Uint8:
			fs = append(fs, fieldDesc{path, kBytes, 0})
		case t.Kind() == reflect.Slice && t.Elem().Kind() == reflect.String:
			fs = append(fs, fieldDesc{path, kStrs, 0})
		default:
			panic("unsupported field type " + t.String() + " at " + name + "." + path)
		}
	})
	return fs
}

// build sets the fields of a fresh PDU from a record.
func build(name string, r record) codec {
	p := registry[name]()
	walk("", reflect.ValueOf(p).Elem(), func(path string, v reflect.Value) {
		x, ok := r[path]
		if !ok {
			return
		}
		t := v.Type()
		switch {
		case t == tlvsType:
			m := smpp.TLVs{}
			for _, e := range x.tlvs {
				m[e.tag] = smpp.NewTLV(e.tag, e.val)
			}
			if x.tlvs != nil {
				v.Set(reflect.ValueOf(m))
			}
		case t == optsType:
			m := smgp.Options{}
			for _, e := range x.tlvs {
				m[smgp.Tag(e.tag)] = smgp.NewOption(smgp.Tag(e.tag), e.val)
			}
			if x.tlvs != nil {
				v.Set(reflect.ValueOf(m))
			}
		case t.Kind() >= reflect.Uint8 && t.Kind() <= reflect.Uint64:
			v.SetUint(x.num)
		case t.Kind() == reflect.String:
			v.SetString(string(x.str))
		case t.Kind() == reflect.Slice && t.Elem().Kind() == reflect.Uint8:
			if x.str != nil {
				v.SetBytes(append([]byte(nil), x.str...))
			}
		case t.Kind() == reflect.Slice:
			if x.strs != nil {
				l := make([]string, len(x.strs))
				for i, s := range x.strs {
					l[i] = string(s)
				}
				v.Set(reflect.ValueOf(l))
			}
		}
	})
	return p
}

// snapshot reads a PDU back into a record (deep copy).
func snapshot(p codec) record {
	r := record{}
	walk("", reflect.ValueOf(p).Elem(), func(path string, v reflect.Value) {
		t := v.Type()
		switch {
		case t == tlvsType:
			var l []tlv
			for _, k := range v.MapKeys() {
				e := v.MapIndex(k).Interface().(smpp.TLV)
				l = append(l, tlv{uint16(k.Uint()), append([]byte(nil), e.Value()...)})
			}
			sort.Slice(l, func(i, j int) bool { return l[i].tag < l[j].tag })
			r[path] = value{kind: kTlvs, tlvs: l}
		case t == optsType:
			var l []tlv
			for _, k := range v.MapKeys() {
				e := v.MapIndex(k).Interface().(smgp.Option)
				l = append(l, tlv{uint16(k.Uint()), append([]byte(nil), e.Value()...)})
			}
			sort.Slice(l, func(i, j int) bool { return l[i].tag < l[j].tag })
			r[path] = value{kind: kTlvs, tlvs: l}
		case t.Kind() >= reflect.Uint8 && t.Kind() <= reflect.Uint64:
			r[path] = value{kind: kNum, num: v.Uint()}
		case t.Kind() == reflect.String:
			r[path] = value{kind: kStr, str: []byte(v.String())}
		case t.Kind() == reflect.Slice && t.Elem().Kind() == reflect.Uint8:
			r[path] = value{kind: kStr, str: append([]byte(nil), v.Bytes()...)}
		case t.Kind() == reflect.Slice:
			l := [][]byte{}
			for i := 0; i < v.Len(); i++ {
				l = append(l, []byte(v.Index(i).String()))
			}
			r[path] = value{kind: kStrs, strs: l}
		}
	})
	return r
}

func renderValue(x value) string {
	switch x.kind {
	case kNum:
		return "n" + strconv.FormatUint(x.num, 10)
	case kStr, kBytes:
		return "s" + hx(x.str)
	case kStrs:
		parts := make([]string, len(x.strs))
		for i, s := range x.strs {
			parts[i] = hx(s)
		}
		return "l" + strings.Join(parts, ",")
	default:
		l := append([]tlv(nil), x.tlvs...)
		sort.SliceStable(l, func(i, j int) bool { return l[i].tag < l[j].tag })
		parts := make([]string, len(l))
		for i, e := range l {
			parts[i] = fmt.Sprintf("%d:%s", e.tag, hx(e.val))
		}
		return "t" + strings.Join(parts, ",")
	}
}

// renderRecord: canonical, in struct declaration order (all fields).
func renderRecord(name string, r record) string {
	fs := fieldsOf(name)
	parts := make([]string, 0, len(fs))
	for _, f := range fs {
		x, ok := r[f.path]
		if !ok {
			switch f.kind {
			case kNum:
				x = value{kind: kNum}
			case kStr, kBytes:
				x = value{kind: kStr}
			case kStrs:
				x = value{kind: kStrs}
			default:
				x = value{kind: kTlvs}
			}
		}
		parts = append(parts, f.path+"="+renderValue(x))
	}
	return strings.Join(parts, ";")
}

// renderRecordOrdered: like renderRecord but TLVs in the given (emission) order — input to the model.
func renderInput(name string, r record) string {
	fs := fieldsOf(name)
	parts := make([]string, 0, len(fs))
	for _, f := range fs {
		x, ok := r[f.path]
		if !ok {
			continue
		}
		if x.kind == kTlvs {
			ps := make([]string, len(x.tlvs))
			for i, e := range x.tlvs {
				ps[i] = fmt.Sprintf("%d:%s", e.tag, hx(e.val))
			}
			parts = append(parts, f.path+"=t"+strings.Join(ps, ","))
			continue
		}
		parts = append(parts, f.path+"="+renderValue(x))
	}
	if len(parts) == 0 {
		return "-"
	}
	return strings.Join(parts, ";")
}

func parseRecord(s string) record {
	r := record{}
	if s == "-" || s == "" {
		return r
	}
	for _, kv := range strings.Split(s, ";") {
		i := strings.IndexByte(kv, '=')
		k, v := kv[:i], kv[i+1:]
		switch v[0] {
		case 'n':
			n, _ := strconv.ParseUint(v[1:], 10, 64)
			r[k] = value{kind: kNum, num: n}
		case 's':
			b := unhx(v[1:])
			if b == nil {
				b = []byte{}
			}
			r[k] = value{kind: kStr, str: b}
		case 'l':
			l := [][]byte{}
			if len(v) > 1 {
				for _, e := range strings.Split(v[1:], ",") {
					l = append(l, unhx(e))
				}
			}
			r[k] = value{kind: kStrs, strs: l}
		case 't':
			l := []tlv{}
			if len(v) > 1 {
				for _, e := range strings.Split(v[1:], ",") {
					j := strings.IndexByte(e, ':')
					t, _ := strconv.Atoi(e[:j])
					l = append(l, tlv{uint16(t), unhx(e[j+1:])})
				}
			}
			r[k] = value{kind: kTlvs, tlvs: l}
		}
	}
	return r
}

// tailLen: octets of the optional-parameter tail the encoder appended (0 for types without one).
func tailLen(p codec) int {
	n := 0
	walk("", reflect.ValueOf(p).Elem(), func(path string, v reflect.Value) {
		switch v.Type() {
		case tlvsType:
			o := Guard(func() { n += len(v.Interface().(smpp.TLVs).Bytes()) })
			_ = o
		case optsType:
			o := Guard(func() { n += len(v.Interface().(smgp.Options).Serialize()) })
			_ = o
		}
	})
	return n
}

// canonEncoded mirrors Driver.renderEncoded.
func canonEncoded(bs []byte, tl int) string {
	if tl > len(bs) {
		tl = len(bs)
	}
	head, tail := bs[:len(bs)-tl], bs[len(bs)-tl:]
	var chunks [][]byte
	rest := tail
	ok := true
	for len(rest) > 0 {
		if len(rest) < 4 {
			ok = false
			break
		}
		l := int(binary.BigEndian.Uint16(rest[2:4]))
		if len(rest) < 4+l {
			ok = false
			break
		}
		chunks = append(chunks, rest[:4+l])
		rest = rest[4+l:]
	}
	if !ok {
		return hx(head) + " rawtail=" + hx(tail)
	}
	sort.SliceStable(chunks, func(i, j int) bool { return bytes.Compare(chunks[i], chunks[j]) < 0 })
	parts := make([]string, len(chunks))
	for i, c := range chunks {
		parts[i] = hx(c)
	}
	return hx(head) + " tail=" + strings.Join(parts, ",")
}

// goEnc runs the real encoder on a PDU built from r; returns the protocol output line, bytes and the receiver after encoding.
func goEnc(name string, r record) (line string, out []byte, after record, p codec) {
	p = build(name, r)
	var err error
	// a deadline as well: an encoder asked to pad a slot to a width of gigabytes is not a result worth waiting for
	o := GuardDeadline(encodeDeadline, func() { out, err = p.IEncode() })
	switch {
	case o.Hang:
		return "hang", nil, nil, p
	case o.Panic != "":
		return "panic", nil, nil, p
	case err != nil:
		return "err", nil, nil, p
	}
	after = snapshot(p)
	retainEncoded(name, r, out)
	return "ok " + canonEncoded(out, tailLen(p)) + " | " + renderRecord(name, after), out, after, p
}

// Every image an encoder hands out during a run is kept, with a copy of its octets taken at return, and looked at
// again when the run is over (main.go): whatever the property, an image that a later call has changed is not the
// caller's — its header no longer says what was encoded.  The calls of the run go through the deadline guard, each
// in a goroutine of its own, so whether two of them meet in a buffer pool is up to the scheduler; the closing pass
// therefore encodes a sample of the run's own inputs once more, one after the other in one goroutine, and checks
// each image again after the three encodes that follow it.
type retainedImage struct {
	name string
	r    record
	img  []byte
	snap []byte
}

var retainedImages []retainedImage
var retainedCalls int
var retainedPerType map[string]int

func retainEncoded(name string, r record, out []byte) {
	if out == nil {
		return
	}
	retainedCalls++
	if retainedPerType == nil {
		retainedPerType = map[string]int{}
	}
	retainedPerType[name]++
	if k := retainedPerType[name]; k > 120 && k%50 != 0 { // the first 120 images of every type, then one in fifty
		return
	}
	retainedImages = append(retainedImages, retainedImage{name, r, out, append([]byte(nil), out...)})
}

// sweepPools takes every buffer the shared byte-buffer pool is willing to hand out and overwrites it up to its
// capacity; the function returned puts them back
func sweepPools() func() {
	var taken []*bytebufferpool.ByteBuffer
	for i := 0; i < 512; i++ {
		b := bytebufferpool.Get()
		full := b.B[:cap(b.B)]
		for j := range full {
			full[j] = 0xDD
		}
		taken = append(taken, b)
	}
	return func() {
		for _, b := range taken {
			b.Reset()
			bytebufferpool.Put(b)
		}
	}
}

// retainBytes: any byte slice a library function handed out (a sample: the first 400 per label, then one in 25); it is
// looked at again when the run is over
type retainedSlice struct {
	label string
	b     []byte
	snap  []byte
}

var retainedSlices []retainedSlice
var retainedSlicesPer map[string]int

func retainBytes(label string, b []byte) {
	if len(b) == 0 {
		return
	}
	if retainedSlicesPer == nil {
		retainedSlicesPer = map[string]int{}
	}
	retainedSlicesPer[label]++
	if k := retainedSlicesPer[label]; k > 400 && k%25 != 0 {
		return
	}
	retainedSlices = append(retainedSlices, retainedSlice{label, b, append([]byte(nil), b...)})
}

type retainedPDU struct {
	name, op, rendered string
	p                  codec
}

var retainedPDUs []retainedPDU
var retainedPDUsPerType map[string]int

// retainDecoded keeps a PDU a dispatcher handed out, with its rendering at that moment
func retainDecoded(name string, p codec, rendered, op string) {
	if retainedPDUsPerType == nil {
		retainedPDUsPerType = map[string]int{}
	}
	retainedPDUsPerType[name]++
	if retainedPDUsPerType[name] > 60 {
		return
	}
	retainedPDUs = append(retainedPDUs, retainedPDU{name, op, rendered, p})
}

func verifyRetained(res *Result, prop string) {
	seenPDU := map[string]bool{}
	for _, it := range retainedPDUs {
		if now := renderRecord(it.name, snapshot(it.p)); now != it.rendered && !seenPDU[it.name] {
			seenPDU[it.name] = true
			res.Violate(prop+".decoded-pdu-changed-later:"+it.name, "a PDU returned by the dispatcher no longer holds what was decoded: a later decode wrote into it", []string{it.op, "(followed by the later decodes of this run)"})
		}
	}
	reported := map[string]bool{}
	report := func(it retainedImage, how string) {
		if reported[it.name] {
			return
		}
		reported[it.name] = true
		ops := []string{"enc " + it.name + " " + renderInput(it.name, it.r), "(followed by " + how + ")"}
		res.Violate(prop+".encoded-image-changed-later:"+it.name, fmt.Sprintf("an image returned by %s.IEncode no longer holds what was returned (was %s, is %s): it shares storage with something a later call wrote", it.name, hx(it.snap[:min(len(it.snap), 24)]), hx(it.img[:min(len(it.img), 24)])), ops)
	}
	for _, it := range retainedImages {
		if !bytes.Equal(it.img, it.snap) {
			report(it, "the later calls of this run")
		}
	}
	// closing pass, one goroutine: a sample of the run's inputs (at most 40 per type), each image checked after the
	// three encodes that follow it
	perType := map[string]int{}
	var sample []retainedImage
	for _, it := range retainedImages {
		if perType[it.name] < 40 {
			perType[it.name]++
			sample = append(sample, it)
		}
	}
	var window, closing []retainedImage
	n := 0
	for _, it := range sample {
		var out []byte
		var err error
		o := Guard(func() { out, err = build(it.name, it.r).IEncode() })
		if o.Panic != "" || err != nil || out == nil {
			continue
		}
		n++
		// and one body-less PDU of every protocol in between (writers with and without a size hint, every pool)
		for _, fn := range []string{"cmpp20.PduActiveTest", "cmpp30.ActiveTest", "smgp30.ActiveTest", "sgip12.Unbind", "smpp34.EnquireLink"} {
			if mk, ok := registry[fn]; ok && fn != it.name {
				Guard(func() { _, _ = mk().IEncode() })
			}
		}
		for _, w := range window {
			if !bytes.Equal(w.img, w.snap) {
				report(w, "encodes of other PDU types in the same goroutine")
			}
		}
		window = append(window, retainedImage{it.name, it.r, out, append([]byte(nil), out...)})
		closing = append(closing, window[len(window)-1])
		if len(window) > 4 {
			window = window[1:]
		}
		for _, w := range window[:len(window)-1] {
			if !bytes.Equal(w.img, w.snap) {
				report(w, "an encode of "+it.name+" in the same goroutine")
			}
		}
	}
	// finally every buffer the shared pool is willing to hand out is taken and overwritten up to its capacity: an
	// image that lives in a pooled buffer changes now, whichever buffer the encoders happened to be given before
	giveBack := sweepPools()
	for _, it := range append(append([]retainedImage(nil), retainedImages...), closing...) {
		if !bytes.Equal(it.img, it.snap) {
			report(it, "every buffer of the shared pool being taken and overwritten")
		}
	}
	seenSlice := map[string]bool{}
	for _, it := range retainedSlices {
		if !bytes.Equal(it.b, it.snap) && !seenSlice[it.label] {
			seenSlice[it.label] = true
			res.Violate(prop+".result-changed-later:"+it.label, fmt.Sprintf("a byte slice returned by %s no longer holds what was returned (was %s, is %s): a later call wrote into its storage", it.label, hx(it.snap[:min(len(it.snap), 24)]), hx(it.b[:min(len(it.b), 24)])), []string{"(" + it.label + " followed by the later calls of this run)"})
		}
	}
	giveBack()
	if len(retainedSlices) > 0 {
		res.Notes = append(res.Notes, fmt.Sprintf("%d byte slices handed out by library functions looked at again at the end of the run", len(retainedSlices)))
	}
	if len(retainedPDUs) > 0 {
		res.Notes = append(res.Notes, fmt.Sprintf("%d PDUs handed out by the dispatchers looked at again at the end of the run", len(retainedPDUs)))
	}
	if len(retainedImages) > 0 {
		res.Notes = append(res.Notes, fmt.Sprintf("%d encoded images of this run looked at again at its end; %d of its inputs encoded once more in one goroutine, each image checked after the three encodes that follow", len(retainedImages), n))
	}
}

// goDec runs the real decoder into a fresh PDU.
func goDec(name string, data []byte) (line string, rec record, oc Outcome) {
	p := registry[name]()
	in := append([]byte(nil), data...)
	var err error
	oc = GuardDeadline(decodeDeadline, func() { err = p.IDecode(in) })
	switch {
	case oc.Hang:
		return "hang", nil, oc
	case oc.Panic != "":
		return "panic", nil, oc
	case err != nil:
		return "err", nil, oc
	}
	rec = snapshot(p)
	return "ok " + renderRecord(name, rec), rec, oc
}
