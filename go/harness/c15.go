package main

// C15 — login authenticators verify end to end for all credentials.

import (
	"bytes"
	"crypto/md5"
	"fmt"
	"strings"

	"github.com/hujm2023/go-sms-protocol/cmpp"
	"github.com/hujm2023/go-sms-protocol/cmpp/cmpp20"
	"github.com/hujm2023/go-sms-protocol/smgp/smgp30"
)

func init() { runners["C15"] = runC15 }

// set by c15_hook.go when built with -tags verif
var smgpAuthHook func(id, secret string, ts uint32) ([]byte, error)

type cred struct {
	account, secret []byte
	ts              uint32
}

func genCred(g *Rng, maxAcc int) cred {
	c := cred{account: g.BytesNoNul(g.Intn(maxAcc + 1)), secret: g.BytesNoNul(g.Pick([]int{0, 1, 6, 8, 16, 32, g.Intn(33)}))}
	// printable-ish in half of the cases
	if g.Bool() {
		for i := range c.account {
			c.account[i] = byte('a' + g.Intn(26))
		}
	}
	switch g.Intn(5) {
	case 0:
		c.ts = 0
	case 1:
		c.ts = 1231235959
	case 2:
		c.ts = 101000000
	default:
		c.ts = uint32(1+g.Intn(12))*100000000 + uint32(1+g.Intn(28))*1000000 + uint32(g.Intn(24))*10000 + uint32(g.Intn(60))*100 + uint32(g.Intn(60))
	}
	return c
}

func runC15(res *Result, d *Driver, g *Rng, tier string) {
	res.Rule = "random credentials (account 0..6/0..8 octets, secret 0..32 octets, timestamps 0..1231235959 incl. both ends, status codes): the library's authenticator vs MD5 of the model's digest input, and the full exchange encode → decode → peer recomputation for CMPP 2.0/3.0 connect(+resp) and SMGP login; every credential set whose digest contains or ends in 0x00 is kept (sought explicitly); non-trivial = distinct credential set"
	n := 3000
	if tier == "thorough" {
		n = 150000
	}
	if err := loadLayouts(layoutsPath); err != nil {
		res.Disagreements = append(res.Disagreements, Violation{Class: "driver-failure", What: err.Error()})
		return
	}
	var ops, goOut []string
	withNul, endNul := 0, 0
	for it := 0; it < n; it++ {
		proto := []string{"cmpp20", "cmpp30", "smgp30"}[it%3]
		maxAcc := 6
		if proto == "smgp30" {
			maxAcc = 8
		}
		c := genCred(g, maxAcc)
		tsStr := cmpp.TimeStamp2Str(c.ts)
		var lib []byte
		kind := "cmpp"
		switch proto {
		case "smgp30":
			kind = "smgp"
			if smgpAuthHook == nil {
				continue
			}
			var err error
			lib, err = smgpAuthHook(string(c.account), string(c.secret), c.ts)
			if err != nil {
				res.Violate("C15.smgp-auth-error", err.Error(), nil)
				continue
			}
		default:
			lib = cmpp.GenConnectAuth(string(c.account), string(c.secret), tsStr)
		}
		op := fmt.Sprintf("authin %s %s %s %d", kind, hx(c.account), hx(c.secret), c.ts)
		// the implementation's digest input is not observable; what is observable is the digest. The
		// protocol line carries the model's digest input; its MD5 must be the library's authenticator.
		zeros := 9
		if kind == "smgp" {
			zeros = 7
		}
		refIn := append(append(append(append([]byte{}, c.account...), make([]byte, zeros)...), c.secret...), []byte(fmt.Sprintf("%010d", c.ts))...)
		ops, goOut = append(ops, op), append(goOut, hx(refIn))
		want := md5.Sum(refIn)
		key := fmt.Sprintf("%s/%x/%x/%d", proto, c.account, c.secret, c.ts)
		hasNul := bytes.IndexByte(lib, 0) >= 0
		res.Eval(key, true)
		if hasNul {
			withNul++
			res.Count("digest-with-0x00")
		}
		if len(lib) == 16 && lib[15] == 0 {
			endNul++
			res.Count("digest-ending-0x00")
		}
		if !bytes.Equal(lib, want[:]) {
			res.Violate("C15.authenticator-definition:"+proto, fmt.Sprintf("library authenticator %x differs from MD5(account ++ %d zero octets ++ secret ++ 10-digit timestamp) = %x", lib, zeros, want), []string{op})
			continue
		}
		if len(tsStr) != 10 {
			res.Violate("C15.timestamp-width", fmt.Sprintf("TimeStamp2Str(%d)=%q", c.ts, tsStr), []string{op})
		}
		// exchange: build the login PDU, encode, decode, recompute at the peer
		var name, accF, authF string
		switch proto {
		case "cmpp20":
			name, accF, authF = "cmpp20.PduConnect", "SourceAddr", "AuthenticatorSource"
		case "cmpp30":
			name, accF, authF = "cmpp30.Connect", "SourceAddr", "AuthenticatorSource"
		default:
			name, accF, authF = "smgp30.Login", "ClientID", "AuthenticatorClient"
		}
		r := record{accF: value{kind: kStr, str: c.account}, authF: value{kind: kStr, str: lib}, "Timestamp": value{kind: kNum, num: uint64(c.ts)},
			"Header.SequenceID": value{kind: kNum, num: uint64(it)}}
		encOp := "enc " + name + " " + renderInput(name, r)
		_, out, _, _ := goEnc(name, r)
		if out == nil {
			res.Violate("C15.login-does-not-encode:"+name, "login PDU with a 16-octet authenticator was refused", []string{encOp})
			continue
		}
		_, got, _ := goDec(name, out)
		if got == nil {
			res.Violate("C15.login-does-not-decode:"+name, "", []string{encOp, "dec " + name + " " + hx(out)})
			continue
		}
		// the peer recomputes from what it decoded
		var peer []byte
		if proto == "smgp30" {
			peer, _ = smgpAuthHook(string(got[accF].str), string(c.secret), uint32(got["Timestamp"].num))
		} else {
			peer = cmpp.GenConnectAuth(string(got[accF].str), string(c.secret), cmpp.TimeStamp2Str(uint32(got["Timestamp"].num)))
		}
		if !bytes.Equal(peer, got[authF].str) {
			cls := "C15.exchange-fails:" + name
			res.Violate(cls, fmt.Sprintf("peer recomputation %x != received authenticator %x (sent %x)", peer, got[authF].str, lib), []string{op, encOp, "dec " + name + " " + hx(out)})
			continue
		}
		// the response direction (CMPP): AuthenticatorISMG = MD5(status ++ request authenticator ++ secret)
		if proto != "smgp30" {
			status := []byte{byte(g.Intn(6))}
			rname := "cmpp20.PduConnectResp"
			if proto == "cmpp30" {
				rname = "cmpp30.ConnectResp"
				status = []byte{0, 0, 0, byte(g.Intn(6))}
			}
			ismg := cmpp.GenConnectRespAuthISMG(status, string(lib), string(c.secret))
			wantR := md5.Sum(append(append(append([]byte{}, status...), lib...), c.secret...))
			rop := fmt.Sprintf("authin resp %s %s %s", hx(status), hx(lib), hx(c.secret))
			ops, goOut = append(ops, rop), append(goOut, hx(append(append(append([]byte{}, status...), lib...), c.secret...)))
			if !bytes.Equal(ismg, wantR[:]) {
				res.Violate("C15.authenticator-definition:resp", "AuthenticatorISMG differs from MD5(status ++ request authenticator ++ secret)", []string{rop})
			}
			var st uint64
			for _, b := range status {
				st = st<<8 | uint64(b)
			}
			rr := record{"Status": value{kind: kNum, num: st}, "AuthenticatorISMG": value{kind: kStr, str: ismg}}
			rencOp := "enc " + rname + " " + renderInput(rname, rr)
			_, rout, _, _ := goEnc(rname, rr)
			if rout != nil {
				_, rgot, _ := goDec(rname, rout)
				if rgot == nil || !bytes.Equal(rgot["AuthenticatorISMG"].str, ismg) || rgot["Status"].num != st {
					res.Violate("C15.exchange-fails:"+rname, fmt.Sprintf("response authenticator %x does not survive the wire", ismg), []string{rop, rencOp, "dec " + rname + " " + hx(rout)})
				}
				// the peer verifying straight from the received frame: the status octets are the frame's own (a
				// sub-slice with the rest of the frame behind it), the frame is decoded after the recomputation
				frame := append([]byte(nil), rout...)
				peer := cmpp.GenConnectRespAuthISMG(frame[12:12+len(status)], string(lib), string(c.secret))
				_, rgot2, _ := goDec(rname, frame)
				if !bytes.Equal(frame, rout) {
					res.Violate("C15.exchange-fails:"+rname, "recomputing the response authenticator from the status octets of the received frame changed the frame", []string{rop, rencOp})
				} else if rgot2 == nil || !bytes.Equal(rgot2["AuthenticatorISMG"].str, peer) {
					res.Violate("C15.exchange-fails:"+rname, "the peer's recomputation from the received frame differs from the authenticator it received", []string{rop, rencOp})
				}
			} else {
				res.Violate("C15.login-does-not-encode:"+rname, "", []string{rencOp})
			}
		}
	}
	// SMGP login response: AuthenticatorServer = MD5(Status ++ AuthenticatorClient ++ secret) (SMGP 3.0 §6.2.2); the library
	// has no function for it, the reference digest is computed here and must survive the wire like the others
	for it := 0; it < n/3; it++ {
		c := genCred(g, 8)
		st := uint32(g.Intn(6))
		clientAuth := g.Bytes(16)
		in := append(append([]byte{byte(st >> 24), byte(st >> 16), byte(st >> 8), byte(st)}, clientAuth...), c.secret...)
		dg := md5.Sum(in)
		rr := record{"Status": value{kind: kNum, num: uint64(st)}, "AuthenticatorServer": value{kind: kStr, str: dg[:]}}
		rencOp := "enc smgp30.LoginResp " + renderInput("smgp30.LoginResp", rr)
		res.Eval("loginresp/"+rencOp, true)
		_, rout, _, _ := goEnc("smgp30.LoginResp", rr)
		if rout == nil {
			res.Violate("C15.login-does-not-encode:smgp30.LoginResp", "", []string{rencOp})
			continue
		}
		_, rgot, _ := goDec("smgp30.LoginResp", rout)
		if rgot == nil || !bytes.Equal(rgot["AuthenticatorServer"].str, dg[:]) {
			res.Violate("C15.exchange-fails:smgp30.LoginResp", fmt.Sprintf("server authenticator %x comes back as %x", dg, rgot["AuthenticatorServer"].str), []string{rencOp, "dec smgp30.LoginResp " + hx(rout)})
		}
	}
	// constructors that read the clock: the authenticator must match the PDU's own account and timestamp
	for i := 0; i < 20; i++ {
		acc, sec := string(g.BytesNoNul(g.Intn(7))), string(g.BytesNoNul(g.Intn(33)))
		p := cmpp20.NewConnect(acc, sec, uint32(i))
		if want := cmpp.GenConnectAuth(acc, sec, cmpp.TimeStamp2Str(p.Timestamp)); p.AuthenticatorSource != string(want) || p.SourceAddr != acc {
			res.Violate("C15.constructor:cmpp20.NewConnect", "NewConnect's authenticator does not match its own account/timestamp", nil)
		}
		l := smgp30.NewLogin(acc, sec, uint32(i))
		if smgpAuthHook != nil {
			if want, _ := smgpAuthHook(acc, sec, l.Timestamp); l.AuthenticatorClient != string(want) || l.ClientID != acc {
				res.Violate("C15.constructor:smgp30.NewLogin", "NewLogin's authenticator does not match its own account/timestamp", nil)
			}
		}
		res.Eval(fmt.Sprintf("ctor/%d", i), true)
	}
	res.Notes = append(res.Notes, fmt.Sprintf("credential sets whose digest contains 0x00: %d, ends in 0x00: %d", withNul, endNul))
	if smgpAuthHook == nil {
		res.Notes = append(res.Notes, "built without -tags verif: SMGP authenticator only reachable through NewLogin")
	}
	if len(ops) > 0 {
		res.Sample(ops[0] + "  =>  " + goOut[0])
		res.Sample(strings.Join(ops[len(ops)-1:], "") + "  =>  " + goOut[len(goOut)-1])
	}
	res.Compare(d, "digest input model vs reference layout", ops, goOut)
}
