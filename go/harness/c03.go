package main

// C03 — decoding untrusted bytes never panics, hangs or over-allocates; truncated mandatory parts are errors.

import (
	"bytes"
	"context"
	"encoding/binary"
	"fmt"
	"runtime"
	"strings"
	"time"

	sms "github.com/hujm2023/go-sms-protocol"
	"github.com/hujm2023/go-sms-protocol/cmpp"
	"github.com/hujm2023/go-sms-protocol/datacoding"
	gsm "github.com/hujm2023/go-sms-protocol/datacoding/gsm7encoding"
	"github.com/hujm2023/go-sms-protocol/sgip"
	"github.com/hujm2023/go-sms-protocol/smgp"
	"github.com/hujm2023/go-sms-protocol/smgp/smgp30"
	"github.com/hujm2023/go-sms-protocol/smpp"
	"github.com/hujm2023/go-sms-protocol/smpp/smpp34"
	"golang.org/x/text/transform"
)

func init() { runners["C03"] = runC03 }

// allocBudget: what a decoder may allocate for an input of n octets: proportional to the input plus
// a constant (the PDU structure, reader, up to 255 destination slots).  A 64 KiB buffer made for an
// optional-parameter value whose 16-bit length has not been checked against the input is over it.
func allocBudget(n int) uint64 { return uint64(64*n) + 16*1024 }

// measured runs f on this goroutine with a watchdog; it reports panic, duration and allocation.
func measured(f func()) (panicMsg string, dur time.Duration, alloc uint64) {
	var a, b runtime.MemStats
	runtime.ReadMemStats(&a)
	t0 := time.Now()
	o := Guard(f)
	dur = time.Since(t0)
	runtime.ReadMemStats(&b)
	return o.Panic, dur, b.TotalAlloc - a.TotalAlloc
}

type c03ctx struct {
	res *Result
}

// probe runs one decoder-like function on one input and evaluates the no-panic / no-hang / no-over-allocation clauses.
// It first runs with a deadline on another goroutine (a hang must not block the harness); allocation is measured only
// for inputs that declare suspicious lengths, on this goroutine.
func (c *c03ctx) probe(what string, in []byte, rep []string, f func()) (ok bool) {
	oc := GuardDeadline(decodeDeadline, f)
	switch {
	case oc.Hang:
		c.res.Violate("C03.hang:"+what, fmt.Sprintf("%s did not return within %s on a %d-octet input", what, decodeDeadline, len(in)), rep)
		return false
	case oc.Panic != "":
		c.res.Violate("C03.panic:"+what, fmt.Sprintf("%s panics on a %d-octet input: %s", what, len(in), oc.Panic), rep)
		return false
	}
	return true
}

func (c *c03ctx) probeAlloc(what string, in []byte, rep []string, f func()) {
	pn, dur, alloc := measured(f)
	if pn != "" {
		return
	}
	// the counter is the process's: something else allocating at that moment (a timer, the collector, a goroutine of
	// an earlier probe winding down) is charged to this call.  An excess is believed only when it repeats.
	for try := 0; try < 3 && (alloc > allocBudget(len(in)) || dur > 2*time.Second); try++ {
		runtime.GC()
		_, d2, a2 := measured(f)
		if a2 < alloc {
			alloc = a2
		}
		if d2 < dur {
			dur = d2
		}
	}
	if alloc > allocBudget(len(in)) {
		c.res.Violate("C03.over-allocation:"+what, fmt.Sprintf("%s allocated %d octets for a %d-octet input (budget %d)", what, alloc, len(in), allocBudget(len(in))), rep)
	}
	if dur > 2*time.Second {
		c.res.Violate("C03.slow:"+what, fmt.Sprintf("%s took %s on a %d-octet input", what, dur, len(in)), rep)
	}
}

// mandatoryLen: number of octets the mandatory part of this image occupies (the image minus its optional tail)
func mandatoryLen(name string, img []byte, r record) int {
	p := build(name, r)
	return len(img) - tailLen(p)
}

func runC03(res *Result, d *Driver, g *Rng, tier string) {
	res.Rule = "every PDU decoder and the five dispatchers on structured malformed images (every truncation point, length/count octets replaced by 0,1,0x7f,0x80,0xff, inconsistent total length incl. 0xFFFFFFF0-style declared lengths, trailing garbage 1..16, well-formed and malformed optional tails) and random bytes; auxiliary parsers (PeekHeader x4, NewHeaderFromBytes, ParseLongSmsContent, both receipt extractors (incl. invalid UTF-8 and case-folding-sensitive letters in front of every key), Unpack / packed decoder, the four GSM 7-bit stream transformers, ReadTLVs/ReadTLVs1/ReadOptions/ParseOptions, frame extractors, text decoders, Decode*Content) on all strings of <= 2 octets, branch alphabets to length 4 (5 thorough) and random strings; panic, deadline (hang) and runtime.MemStats.TotalAlloc captured per call; non-trivial = distinct input"
	if err := loadLayouts(layoutsPath); err != nil {
		res.Disagreements = append(res.Disagreements, Violation{Class: "driver-failure", What: err.Error()})
		return
	}
	thorough := tier == "thorough"
	c := &c03ctx{res: res}
	per := 3
	if thorough {
		per = 12
	}
	var ops, goOut []string
	for _, name := range pduNames() {
		s := shapes[name]
		if s == nil {
			continue
		}
		pkg := pkgOfName(name)
		for i := 0; i < per; i++ {
			r := genFit(g, s, false)
			_, img, _, _ := goEnc(name, r)
			if img == nil {
				continue
			}
			mand := mandatoryLen(name, img, r)
			images := mutate(g, img, s, i == 0)
			for j := 0; j < 4; j++ {
				images = append(images, g.Bytes(g.Pick([]int{0, 1, 4, 11, 12, 16, 20, 33, 100})))
			}
			for k, im := range images {
				decOp := "dec " + name + " " + hx(im)
				res.Eval(decOp, true)
				var err error
				p := registry[name]()
				in := append([]byte(nil), im...)
				if !c.probe(name, im, []string{decOp}, func() { err = p.IDecode(in) }) {
					continue
				}
				if err == nil {
					res.Count("decode:accepted")
				} else {
					res.Count("decode:error")
				}
				// suspicious declared lengths: measure allocation
				big := false
				for pos := 0; pos+4 <= len(im) && pos < 256; pos++ {
					if binary.BigEndian.Uint32(im[pos:]) >= 0x00100000 {
						big = true
					}
				}
				// … and 16-bit lengths in the optional-parameter tail
				tail0 := len(im) - 24
				if tail0 < 0 {
					tail0 = 0
				}
				for pos := tail0; pos+2 <= len(im); pos++ {
					if binary.BigEndian.Uint16(im[pos:]) >= 0x1000 {
						big = true
					}
				}
				if big || k%50 == 0 {
					p2 := registry[name]()
					in2 := append([]byte(nil), im...)
					c.probeAlloc(name, im, []string{decOp}, func() { _ = p2.IDecode(in2) })
					res.Count("decode:allocation-measured")
				}
				// truncated before the mandatory part is complete: must be an error
				if len(im) < mand && len(im) <= len(img) && string(im) == string(img[:len(im)]) {
					res.Count("decode:cut-inside-mandatory-part")
				}
				// SMPP 3.4: a bind / submit_sm response with a non-zero command_status has no body: the bare header is complete
				bareErrResp := errorResponseNoBody[name] && len(im) == 16 && binary.BigEndian.Uint32(im[8:]) != 0
				if len(im) < mand && len(im) <= len(img) && string(im) == string(img[:len(im)]) && err == nil && !bareErrResp {
					res.Violate("C03.truncated-accepted:"+name, fmt.Sprintf("the image ends after %d of %d mandatory octets but IDecode reports success", len(im), mand), []string{decOp})
				}
				if k%23 == 0 && len(im) < 3000 {
					line := "err"
					if err == nil {
						line = "ok " + renderRecord(name, snapshot(p))
					}
					ops, goOut = append(ops, decOp), append(goOut, line)
				}
				// the dispatcher of the package on the same bytes
				if fn := dispatchFn[pkg]; fn != nil && k%3 == 0 {
					in3 := append([]byte(nil), im...)
					var pd sms.PDU
					var derr error
					if c.probe("dispatch:"+pkg, im, []string{"dispatchbytes " + pkg + " " + hx(im)}, func() { pd, derr = fn(in3) }) {
						if derr == nil {
							res.Count("dispatch:accepted")
						} else {
							res.Count("dispatch:error")
						}
						if derr == nil && (pd == nil) {
							res.Violate("C03.nil-nil:"+pkg, "dispatcher returned (nil, nil)", []string{"dispatchbytes " + pkg + " " + hx(im)})
						}
					}
				}
			}
		}
		if len(ops) > 3000 {
			res.Compare(d, "layout interpreter vs IDecode on malformed images", ops, goOut)
			ops, goOut = nil, nil
		}
	}
	res.Compare(d, "layout interpreter vs IDecode on malformed images", ops, goOut)
	// ---- auxiliary parsers ----
	var inputs [][]byte
	inputs = append(inputs, nil)
	for a := 0; a < 256; a++ {
		inputs = append(inputs, []byte{byte(a)})
	}
	for a := 0; a < 256; a += 1 {
		for b := 0; b < 256; b += 7 {
			inputs = append(inputs, []byte{byte(a), byte(b)})
		}
	}
	alpha := []byte{0x00, 0x01, 0x05, 0x06, 0x0d, 0x1b, 0x20, 0x3a, 0x53, 0x69, 0x7f, 0x80, 0xff}
	maxL := 4
	if thorough {
		maxL = 5
	}
	var rec func(prefix []byte, depth int)
	rec = func(prefix []byte, depth int) {
		if depth == 0 {
			inputs = append(inputs, append([]byte(nil), prefix...))
			return
		}
		for _, v := range alpha {
			rec(append(prefix, v), depth-1)
		}
	}
	for l := 3; l <= maxL; l++ {
		rec(nil, l)
	}
	for _, s := range []string{"Sub", "sub:", "id:", "id:12345", "Text", "Submit_Date", "stat:DELIVRD", "\x05\x00\x03", "\x06\x08\x04\x01\x02\x03", "\x00\x00\x00\x02", "\x00\x00\x00\x00"} {
		inputs = append(inputs, []byte(s))
	}
	// delivery receipts: every truncation point of well-formed texts of both dialects, and every key
	// token followed by 0..24 octets at the end of the text (with and without something before it)
	receipts := []string{
		"id:0123456789 sub:001 dlvrd:001 submit date:2401011200 done date:2401011201 stat:DELIVRD err:000 text:hello world",
		"id:\x01\x02\x03\x04\x05\x06\x07\x08\x09\x10 sub:001 dlvrd:001 Submit_Date:2401011200 Done_Date:2401011201 Stat:DELIVRD Err:000 Text:hello",
		"id:\x01\x02\x03\x04\x05\x06\x07\x08\x09\x10 sub:001 dlvrd:001 Submit date:2401011200 Done date:2401011201 Stat:DELIVRD Err:000 Text:hello",
		"id:abc sub:1 dlvrd:1 submit date:1 done date:1 stat:X err:1 text:",
	}
	for _, r := range receipts {
		for cut := 0; cut <= len(r); cut++ {
			inputs = append(inputs, []byte(r[:cut]))
			if cut%5 == 0 {
				inputs = append(inputs, []byte(r[cut:]))
			}
		}
	}
	for _, key := range []string{"id:", "sub:", "dlvrd:", "submit date:", "done date:", "stat:", "err:", "text:", "Text:", "Submit_Date:", "Done_Date:", "Submit date:", "Done date:", "Stat:", "Err:"} {
		for n := 0; n <= 24; n++ {
			tail := strings.Repeat("7", n)
			inputs = append(inputs, []byte(key+tail), []byte("xx "+key+tail), []byte(key+tail+" "))
		}
	}
	// receipt texts are untrusted octets, not necessarily UTF-8: octets that are invalid UTF-8, and letters whose
	// lower- or upper-cased form has another length, in front of a key that sits at or near the end of the text
	// (an offset found in a case-folded copy then lies beyond the original)
	for _, pre := range []string{"\xff", "\xff\xff\xff", "\xc4\xe3\xba\xc3", "\u023a\u023a\u023a", "\u0130\u0130", "\xe4\xb8", "\xf0\x9f\x98", strings.Repeat("\xfe", 12), "id:1 text:\xc4\xe3\xba\xc3 "} {
		for _, key := range []string{"id:", "sub:", "dlvrd:", "submit date:", "done date:", "stat:", "err:", "text:", "Text:", "Submit_Date:", "Done_Date:", "Stat:", "Err:", "ID:", "STAT:"} {
			for _, tail := range []string{"", "1", "OK", "0123456789", "0123456789 x"} {
				inputs = append(inputs, []byte(pre+key+tail), []byte(pre+" "+key+tail), []byte(key+tail+" "+pre))
			}
		}
	}
	// packed GSM 7-bit streams of 8, 16 and 24 septets ending in every pair over {ESC, CR, @, a, the last defined
	// septet}: the endings the filler rule and the escape rule meet at
	for _, n := range []int{8, 16, 24} {
		for _, x := range []byte{0x1b, 0x0d, 0x00, 0x61, 0x7f} {
			for _, y := range []byte{0x1b, 0x0d, 0x00, 0x61, 0x7f} {
				sept := bytes.Repeat([]byte{0x61}, n)
				sept[n-2], sept[n-1] = x, y
				inputs = append(inputs, refPack(sept), sept)
			}
		}
	}
	for i := 0; i < 3000; i++ {
		inputs = append(inputs, g.Bytes(g.Intn(40)))
	}
	ctx := context.Background()
	aux := map[string]func(in []byte){
		"cmpp.PeekHeader":                 func(in []byte) { cmpp.PeekHeader(in) },
		"cmpp.NewHeaderFromBytes":         func(in []byte) { cmpp.NewHeaderFromBytes(in) },
		"smgp.PeekHeader":                 func(in []byte) { smgp.PeekHeader(in) },
		"smgp.NewHeaderFromBytes":         func(in []byte) { smgp.NewHeaderFromBytes(in) },
		"sgip.PeekHeader":                 func(in []byte) { sgip.PeekHeader(in) },
		"smpp.PeekHeader":                 func(in []byte) { smpp.PeekHeader(in) },
		"ParseLongSmsContent":             func(in []byte) { sms.ParseLongSmsContent(string(in)) },
		"smpp34.ExtractDeliveryReceipt":   func(in []byte) { smpp34.ExtractDeliveryReceipt(string(in)) },
		"smgp30.ExtractDeliveryReceipt":   func(in []byte) { smgp30.ExtractDeliveryReceipt(string(in)) },
		"smgp30.ExtractDeliveryReceipt1":  func(in []byte) { smgp30.ExtractDeliveryReceipt1(string(in)) },
		"gsm7encoding.Unpack":             func(in []byte) { gsm.Unpack(in) },
		"gsm7encoding.Decode":             func(in []byte) { gsm.Decode(in) },
		"gsm7encoding.ValidateGSM7Buffer": func(in []byte) { gsm.ValidateGSM7Buffer(in) },
		"GSM7Packed.Decode":               func(in []byte) { datacoding.GSM7Packed(in).Decode() },
		"GSM7(packed).NewDecoder":         func(in []byte) { transform.Bytes(gsm.GSM7(true).NewDecoder(), in) },
		"GSM7(unpacked).NewDecoder":       func(in []byte) { transform.Bytes(gsm.GSM7(false).NewDecoder(), in) },
		"GSM7(packed).NewEncoder":         func(in []byte) { transform.Bytes(gsm.GSM7(true).NewEncoder(), in) },
		"GSM7(unpacked).NewEncoder":       func(in []byte) { transform.Bytes(gsm.GSM7(false).NewEncoder(), in) },
		"GSM7Unpacked.Decode":             func(in []byte) { datacoding.GSM7Unpacked(in).Decode() },
		"UCS2.Decode":                     func(in []byte) { datacoding.UCS2(in).Decode() },
		"GB18030.Decode":                  func(in []byte) { datacoding.GB18030(in).Decode() },
		"Latin1.Decode":                   func(in []byte) { datacoding.Latin1(in).Decode() },
		"Ascii.Decode":                    func(in []byte) { datacoding.Ascii(in).Decode() },
		"DecodeCMPPCContent": func(in []byte) {
			for _, n := range []uint8{0, 8, 9, 15, 4} {
				sms.DecodeCMPPCContent(ctx, string(in), n)
			}
		},
		"DecodeSMPPCContent": func(in []byte) {
			for _, n := range []int{0, 1, 3, 8, 4} {
				sms.DecodeSMPPCContent(ctx, string(in), n)
			}
		},
		"ReadTLVs1":          func(in []byte) { goReadTLVs1(in) },
		"ReadTLVs":           func(in []byte) { goReadTLVs(in) },
		"ReadOptions":        func(in []byte) { goReadOptions(in) },
		"ParseOptions":       func(in []byte) { smgp.ParseOptions(in) },
		"MsgIDString2Uint64": func(in []byte) { cmpp.MsgIDString2Uint64(string(in)) },
		"RemoveSign":         func(in []byte) { cmpp.RemoveSign(string(in)); cmpp.ParseSignature(string(in)) },
	}
	names := make([]string, 0, len(aux))
	for n := range aux {
		names = append(names, n)
	}
	sortStrings(names)
	for _, n := range names {
		f := aux[n]
		for i, in := range inputs {
			inCopy := append([]byte(nil), in...)
			res.Eval(n+"/"+hx(in), true)
			res.Count("aux:" + n)
			if !c.probe(n, in, []string{"aux " + n + " " + hx(in)}, func() { f(inCopy) }) {
				continue
			}
			if i%400 == 0 {
				c.probeAlloc(n, in, []string{"aux " + n + " " + hx(in)}, func() { f(inCopy) })
			}
		}
	}
	// frame extractors on hostile prefixes (huge declared lengths): no panic, bounded allocation
	for _, cname := range []string{"cmpp", "smpp"} {
		for _, pre := range []uint32{0, 1, 3, 4, 5, 0x7fffffff, 0xfffffff0, 0xffffffff, 0x10000000} {
			buf := make([]byte, 12)
			binary.BigEndian.PutUint32(buf, pre)
			rp := []string{"codec " + cname, "frame blocked " + hx(buf) + " 0"}
			res.Eval(cname+"/blocked/"+hx(buf), true)
			c.probeAlloc("DecodeBlocked:"+cname, buf, rp, func() { goBlocked(codecs[cname], buf, false, 0) })
			c.probeAlloc("Decode:"+cname, buf, rp, func() { goRun(codecs[cname], [][]byte{buf}) })
		}
	}
	if thorough {
		res.Notes = append(res.Notes, "coverage-guided fuzzing is not part of this tier: the enumeration above is structure-directed")
	}
}
