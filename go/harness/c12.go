package main

// C12 — results own their memory: no aliasing of input buffers or pooled buffers.
// A ledger keeps a deep copy of every result the library has returned; after each further call
// (and after the caller overwrites every input buffer and every output it was handed) every
// earlier result is compared with its copy again.

import (
	"bytes"
	"context"
	"fmt"
	"reflect"

	sms "github.com/hujm2023/go-sms-protocol"
	"github.com/hujm2023/go-sms-protocol/cmpp"
	"github.com/hujm2023/go-sms-protocol/datacoding"
	gsm7 "github.com/hujm2023/go-sms-protocol/datacoding/gsm7encoding"
	"github.com/hujm2023/go-sms-protocol/packet"
	"github.com/hujm2023/go-sms-protocol/smgp"
	"github.com/hujm2023/go-sms-protocol/smpp"
)

func init() { runners["C12"] = runC12; replayers["C12"] = replayC12 }

// deepBytes collects every []byte reachable from v (struct fields, maps, slices, unexported fields included)
func deepBytes(v reflect.Value, visit func(b []byte)) {
	switch v.Kind() {
	case reflect.Ptr, reflect.Interface:
		if !v.IsNil() {
			deepBytes(v.Elem(), visit)
		}
	case reflect.Struct:
		for i := 0; i < v.NumField(); i++ {
			deepBytes(v.Field(i), visit)
		}
	case reflect.Map:
		it := v.MapRange()
		for it.Next() {
			deepBytes(it.Value(), visit)
		}
	case reflect.Slice:
		if v.Type().Elem().Kind() == reflect.Uint8 {
			if v.Len() > 0 {
				visit(v.Bytes())
			}
			return
		}
		for i := 0; i < v.Len(); i++ {
			deepBytes(v.Index(i), visit)
		}
	}
}

// overlaps reports whether two slices share backing memory
func overlaps(a, b []byte) bool {
	if cap(a) == 0 || cap(b) == 0 {
		return false
	}
	a, b = a[:cap(a)], b[:cap(b)]
	pa, pb := reflect.ValueOf(a).Pointer(), reflect.ValueOf(b).Pointer()
	return pa < pb+uintptr(len(b)) && pb < pa+uintptr(len(a))
}

type ledgerEntry struct {
	what  string
	op    string
	check func() string // "" when the result still has the value it was returned with
	owned [][]byte      // byte slices reachable from the result: the caller owns them and may overwrite them
}

type c12ctx struct {
	res    *Result
	g      *Rng
	ledger []ledgerEntry
	hist   []string
}

func (c *c12ctx) add(what, op string, check func() string, owned ...[]byte) {
	// a new result may not share storage with any result handed out earlier
	for _, nb := range owned {
		for _, e := range c.ledger {
			for _, ob := range e.owned {
				if len(nb) > 0 && len(ob) > 0 && overlaps(nb[:len(nb):len(nb)], ob[:len(ob):len(ob)]) {
					c.res.Violate("C12.results-share-storage", fmt.Sprintf("a byte slice returned by `%s` shares storage with one returned earlier by `%s`", op[:min(len(op), 60)], e.op[:min(len(e.op), 60)]), []string{e.op, op})
				}
			}
		}
	}
	c.ledger = append(c.ledger, ledgerEntry{what, op, check, owned})
	if len(c.ledger) > 400 { // keep the most recent results under observation
		c.ledger = c.ledger[len(c.ledger)-300:]
	}
}

// verify re-checks earlier results: all of them when full, otherwise the newest 12 and a random 48
func (c *c12ctx) verify(after string, full bool) {
	pick := c.ledger
	if !full && len(c.ledger) > 60 {
		pick = append([]ledgerEntry(nil), c.ledger[len(c.ledger)-12:]...)
		for i := 0; i < 48; i++ {
			pick = append(pick, c.ledger[c.g.Intn(len(c.ledger)-12)])
		}
	}
	for _, e := range pick {
		if d := e.check(); d != "" {
			cls := "C12." + e.what
			h := c.hist
			if len(h) > 40 {
				h = h[len(h)-40:]
			}
			c.res.Violate(cls, fmt.Sprintf("a result returned by `%s` changed after `%s`: %s", e.op[:min(len(e.op), 80)], after[:min(len(after), 80)], d), append([]string(nil), h...))
		}
	}
	if !full {
		return
	}
	// a changed entry would be reported again after every later call: drop what has been reported
	kept := c.ledger[:0]
	for _, e := range c.ledger {
		if e.check() == "" {
			kept = append(kept, e)
		}
	}
	c.ledger = kept
}

func scribble(b []byte, v byte) {
	b = b[:cap(b)]
	for i := range b {
		b[i] = v
	}
}

// one decode: the caller's buffer is overwritten immediately afterwards
func (c *c12ctx) opDecode(name string, img []byte) {
	in := make([]byte, len(img), len(img)+g16(c.g))
	copy(in, img)
	p := registry[name]()
	var err error
	oc := Guard(func() { err = p.IDecode(in) })
	op := "dec " + name + " " + hx(img[:min(len(img), 64)])
	c.hist = append(c.hist, op)
	c.res.Eval(fmt.Sprintf("%s#%d", op, len(c.hist)), true)
	if oc.Panic != "" || err != nil {
		return
	}
	// direct test: no []byte reachable from the PDU may lie inside the caller's buffer
	deepBytes(reflect.ValueOf(p), func(b []byte) {
		if overlaps(b, in) {
			c.res.Violate("C12.decoded-aliases-input:"+name, fmt.Sprintf("a []byte of %d octets inside the decoded %s points into the caller's input buffer", len(b), name), []string{op})
		}
	})
	before := renderRecord(name, snapshot(p))
	scribble(in, 0xEE)
	c.hist = append(c.hist, "scribble input")
	if after := renderRecord(name, snapshot(p)); after != before {
		c.res.Violate("C12.decoded-aliases-input:"+name, "overwriting the input buffer after IDecode changed the decoded PDU", []string{op, "scribble input"})
		return
	}
	var owned [][]byte
	deepBytes(reflect.ValueOf(p), func(b []byte) { owned = append(owned, b) })
	c.add("decoded-changed-later:"+name, op, func() string {
		if now := renderRecord(name, snapshot(p)); now != before {
			return "decoded PDU differs from its value at return"
		}
		return ""
	}, owned...)
	c.res.Count("decode")
	// one time in three the decoded PDU is formatted (a gateway logging what it received): formatting is one of the
	// "later calls" that must leave the result alone — the ledger entry above notices at once
	if st, ok := p.(fmt.Stringer); ok && c.g.Intn(3) == 0 {
		Guard(func() { _ = st.String() })
		c.hist = append(c.hist, "String() on the PDU just decoded")
		if now := renderRecord(name, snapshot(p)); now != before {
			c.res.Violate("C12.formatting-changes-the-value:"+name, "String() changed the decoded PDU it formats", []string{op, "string"})
		}
	}
}

func g16(g *Rng) int { return g.Intn(16) }

// the caller overwrites the byte slices of one result it was handed earlier (it owns them); that result
// leaves the ledger, every other result must keep its value
func (c *c12ctx) opReuse() {
	var cand []int
	for i, e := range c.ledger {
		if len(e.owned) > 0 {
			cand = append(cand, i)
		}
	}
	if len(cand) == 0 {
		return
	}
	i := cand[c.g.Intn(len(cand))]
	e := c.ledger[i]
	for _, b := range e.owned {
		for k := range b {
			b[k] = 0xEE
		}
	}
	c.ledger = append(c.ledger[:i:i], c.ledger[i+1:]...)
	c.hist = append(c.hist, "caller overwrites the byte slices of the result of: "+e.op[:min(len(e.op), 80)])
	c.res.Count("reuse-decoded")
}

// one encode: the output is remembered; sometimes the caller overwrites an older output it owns
func (c *c12ctx) opEncode(name string, r record) {
	p := build(name, r)
	var out []byte
	var err error
	oc := Guard(func() { out, err = p.IEncode() })
	op := "enc " + name
	c.hist = append(c.hist, op+" "+renderInput(name, r)[:min(len(renderInput(name, r)), 200)])
	c.res.Eval(fmt.Sprintf("%s#%d", op, len(c.hist)), true)
	if oc.Panic != "" || err != nil || out == nil {
		return
	}
	// the output may not share memory with the PDU it was encoded from
	deepBytes(reflect.ValueOf(p), func(b []byte) {
		if overlaps(b, out) {
			c.res.Violate("C12.encoded-aliases-pdu:"+name, "the bytes returned by IEncode share memory with a field of the PDU", []string{op})
		}
	})
	want := append([]byte(nil), out...)
	pduBefore := renderRecord(name, snapshot(p))
	c.add("encoded-changed-later:"+name, op, func() string {
		if !bytes.Equal(out, want) {
			i := 0
			for i < len(out) && out[i] == want[i] {
				i++
			}
			return fmt.Sprintf("returned bytes differ from their value at return (first at offset %d of %d)", i, len(out))
		}
		return ""
	})
	c.res.Count("encode")
	if c.g.Intn(3) == 0 {
		// the caller reuses the output buffer it was handed: nothing else may change
		scribble(out, 0xDD)
		copy(want, out)
		want = append(want[:0], out...)
		c.hist = append(c.hist, "scribble output")
		if now := renderRecord(name, snapshot(p)); now != pduBefore {
			c.res.Violate("C12.encoded-aliases-pdu:"+name, "overwriting the bytes returned by IEncode changed the PDU", []string{op, "scribble output"})
		}
	}
}

func (c *c12ctx) opString(name string, r record) {
	p := build(name, r)
	st, ok := p.(fmt.Stringer)
	if !ok {
		return
	}
	var s string
	before := renderRecord(name, snapshot(p))
	oc := Guard(func() { s = st.String() })
	if oc.Panic != "" {
		return
	}
	if after := renderRecord(name, snapshot(p)); after != before {
		c.res.Violate("C12.formatting-changes-the-value:"+name, "String() changed the PDU it formats", []string{"string " + name + " " + renderInput(name, r)})
	}
	op := "string " + name
	c.hist = append(c.hist, op)
	c.res.Eval(fmt.Sprintf("%s#%d", op, len(c.hist)), true)
	want := string(append([]byte(nil), s...))
	c.add("string-changed-later:"+name, op, func() string {
		if s != want {
			return "the string returned by String() differs from its value at return"
		}
		return ""
	})
	c.res.Count("string")
}

func (c *c12ctx) opSplit() {
	g := c.g
	texts := []string{"hello world", "héllo wörld ñ", "你好，世界。短信测试", "price 12€ {ok} [x]", "😀 emoji 😀"}
	t := ""
	for n := g.Pick([]int{1, 3, 10, 30}); n > 0; n-- {
		t += texts[g.Intn(len(texts))]
	}
	ctx := context.Background()
	var parts [][]byte
	op := ""
	if g.Bool() {
		fm := datacoding.CMPPDataCoding(g.Pick([]int{0, 8, 15}))
		oc := Guard(func() { parts, _, _ = sms.EncodeCMPPContentAndSplit(ctx, t, fm, byte(g.Intn(256))) })
		op = fmt.Sprintf("splitcmpp %d %s", fm, hx([]byte(t))[:min(2*len(t), 60)])
		if oc.Panic != "" {
			return
		}
	} else {
		fm := datacoding.SMPPDataCoding(g.Pick([]int{0, 1, 3, 8}))
		oc := Guard(func() { parts, _, _ = sms.EncodeSMPPContentAndSplit(ctx, t, fm, byte(g.Intn(256))) })
		op = fmt.Sprintf("splitsmpp %d %s", fm, hx([]byte(t))[:min(2*len(t), 60)])
		if oc.Panic != "" {
			return
		}
	}
	c.hist = append(c.hist, op)
	c.res.Eval(fmt.Sprintf("%s#%d", op, len(c.hist)), true)
	for i := range parts {
		for j := i + 1; j < len(parts); j++ {
			if overlaps(parts[i], parts[j]) && len(parts[i]) > 0 && len(parts[j]) > 0 {
				// parts of one message may be views of one array as long as they do not overlap in their lengths
				a, b := parts[i], parts[j]
				pa, pb := reflect.ValueOf(a).Pointer(), reflect.ValueOf(b).Pointer()
				if pa < pb+uintptr(len(b)) && pb < pa+uintptr(len(a)) {
					c.res.Violate("C12.parts-overlap", "two parts returned by the splitter overlap in memory", []string{op})
				}
			}
		}
	}
	want := make([][]byte, len(parts))
	for i, p := range parts {
		want[i] = append([]byte(nil), p...)
	}
	c.add("parts-changed-later", op, func() string {
		for i := range parts {
			if !bytes.Equal(parts[i], want[i]) {
				return fmt.Sprintf("part %d differs from its value at return", i)
			}
		}
		return ""
	})
	c.res.Count("split")
	if len(parts) > 1 && g.Intn(3) == 0 {
		// appending to one part (a caller adding a trailer) must not run into the next one
		k := g.Intn(len(parts) - 1)
		grown := append(parts[k], 0xCC, 0xCC, 0xCC, 0xCC)
		_ = grown
		c.hist = append(c.hist, fmt.Sprintf("append to part %d", k))
	}
}

func (c *c12ctx) opMisc() {
	g := c.g
	in := "短信" + string(rune('a'+g.Intn(26))) + "测试"
	s := cmpp.Utf8ToUcs2Pooled(in)
	want := string(append([]byte(nil), s...))
	op := "ucs2pooled " + hx([]byte(in))
	c.hist = append(c.hist, op)
	c.res.Eval(fmt.Sprintf("%s#%d", op, len(c.hist)), true)
	c.add("pooled-ucs2-changed-later", op, func() string {
		if s != want {
			return "the string returned by Utf8ToUcs2Pooled differs from its value at return"
		}
		return ""
	})
	// optional-parameter containers built from caller data and serialised
	val := g.Bytes(1 + g.Intn(8))
	tl := smpp.NewTLV(uint16(5+g.Intn(3)), val)
	b1 := tl.Bytes()
	w1 := append([]byte(nil), b1...)
	opts := smgp.Options{}
	opts.Add(smgp.NewOption(smgp.Tag(1+g.Intn(9)), val))
	b2 := opts.Serialize()
	w2 := append([]byte(nil), b2...)
	scribble(val, 0xAB)
	c.hist = append(c.hist, "tlv/option bytes, scribble value")
	if !bytes.Equal(b1, w1) || !bytes.Equal(b2, w2) {
		c.res.Violate("C12.serialised-aliases-value", "TLV.Bytes()/Options.Serialize() output changed when the caller reused the value buffer", []string{op})
	}
	c.add("serialised-changed-later", op, func() string {
		if !bytes.Equal(b1, w1) || !bytes.Equal(b2, w2) {
			return "serialised optional parameters differ from their value at return"
		}
		return ""
	})
	c.res.Count("misc")
}

// opCodec: everything else that hands the caller a byte slice — the text codecs of every coding (encode and
// decode), the GSM 7-bit primitives, the batch encoder, the authenticator helpers, the values inside parsed
// optional-parameter containers — recorded in the same ledger: a later call must not change them, and the
// caller overwriting what it passed in must not change them either
func (c *c12ctx) opCodec() {
	g := c.g
	texts := []string{"hello world", "héllo wörld ñ", "你好，世界。短信测试", "price 12€ {ok} [x]", "😀 emoji 😀", "abcdefg@", "@"}
	t := texts[g.Intn(len(texts))]
	if g.Bool() {
		t += texts[g.Intn(len(texts))]
	}
	keep := func(kind, op string, b []byte) {
		if b == nil {
			return
		}
		want := append([]byte(nil), b...)
		c.add(kind, op, func() string {
			if !bytes.Equal(b, want) {
				return "a byte slice handed out earlier (" + op + ") differs from its value at return"
			}
			return ""
		}, b)
	}
	op := ""
	switch g.Intn(6) {
	case 0, 1: // one text codec, three messages in a row (encode, decode): what came first must survive what follows
		cmppSide := g.Bool()
		n := g.Pick([]int{0, 1, 3, 8, 99})
		if cmppSide {
			n = g.Pick([]int{0, 8, 9, 15})
		}
		mk := func(text string) datacoding.Codec {
			if cmppSide {
				return datacoding.NewCMPPCodec(datacoding.CMPPDataCoding(n), text)
			}
			return datacoding.NewSMPPCodec(datacoding.SMPPDataCoding(n), text)
		}
		op = fmt.Sprintf("codec cmpp=%v %d x3", cmppSide, n)
		for round := 0; round < 3; round++ {
			text := texts[g.Intn(len(texts))] + string(rune('a'+g.Intn(26)))
			if round == 0 {
				text = t
			}
			cd := mk(text)
			if cd == nil {
				return
			}
			var enc, dec []byte
			var err error
			if o := Guard(func() { enc, err = cd.Encode() }); o.Panic != "" || err != nil {
				continue
			}
			keep("codec-output-changed-later", fmt.Sprintf("%s: encode #%d", op, round+1), enc)
			in := append([]byte(nil), enc...)
			if dcd := mk(string(in)); dcd != nil {
				if o := Guard(func() { dec, err = dcd.Decode() }); o.Panic == "" && err == nil {
					keep("codec-output-changed-later", fmt.Sprintf("%s: decode #%d", op, round+1), dec)
				}
			}
		}
	case 2: // GSM 7-bit primitives
		op = "gsm7 encode/pack/unpack/decode"
		var sept, packed, unp, txt []byte
		var err error
		if o := Guard(func() { sept, err = gsm7.Encode("price 12 {ok} [x] " + string(rune('a'+g.Intn(26)))) }); o.Panic != "" || err != nil {
			return
		}
		keep("codec-output-changed-later", "gsm7.Encode", sept)
		in := append([]byte(nil), sept...)
		Guard(func() { packed = gsm7.Pack(in) })
		keep("codec-output-changed-later", "gsm7.Pack", packed)
		scribble(in, 0x11) // the septets were the caller's
		in2 := append([]byte(nil), packed...)
		Guard(func() { unp = gsm7.Unpack(in2) })
		keep("codec-output-changed-later", "gsm7.Unpack", unp)
		scribble(in2, 0x22)
		in3 := append([]byte(nil), unp...)
		Guard(func() { txt, _ = gsm7.Decode(in3) })
		keep("codec-output-changed-later", "gsm7.Decode", txt)
		scribble(in3, 0x33)
	case 3: // the batch encoder
		op = "batch build"
		var parts [][]byte
		Guard(func() {
			b := sms.NewBatchDataCodingEncoder().Content(t, byte(g.Intn(256)))
			if g.Bool() {
				parts, _, _ = b.Protocol(sms.CMPP).DataCodings([]datacoding.ProtocolDataCoding{datacoding.CMPPDataCoding(0), datacoding.CMPPDataCoding(15), datacoding.CMPPDataCoding(8)}).Build(context.Background())
			} else {
				parts, _, _ = b.Protocol(sms.SMPP).DataCodings([]datacoding.ProtocolDataCoding{datacoding.SMPPDataCoding(0), datacoding.SMPPDataCoding(1), datacoding.SMPPDataCoding(3), datacoding.SMPPDataCoding(8)}).Build(context.Background())
			}
		})
		for i, p := range parts {
			keep("parts-changed-later", fmt.Sprintf("batch build part %d", i+1), p)
		}
	case 4: // authenticators
		op = "authenticators"
		status := []byte{0, 0, 0, byte(g.Intn(4))}
		var a1, a2 []byte
		Guard(func() { a1 = cmpp.GenConnectAuth("900001", "secret"+string(rune('a'+g.Intn(26))), "0930123456") })
		keep("authenticator-changed-later", "cmpp.GenConnectAuth", a1)
		Guard(func() { a2 = cmpp.GenConnectRespAuthISMG(status, string(a1), "secret") })
		keep("authenticator-changed-later", "cmpp.GenConnectRespAuthISMG", a2)
		scribble(status, 0x44)
	default: // values inside parsed optional-parameter containers
		op = "parsed option values"
		val := g.Bytes(1 + g.Intn(9))
		opts := smgp.Options{}
		opts.Add(smgp.NewOption(smgp.Tag(1+g.Intn(9)), append([]byte(nil), val...)))
		raw := opts.Serialize()
		var po smgp.Options
		Guard(func() { po, _ = smgp.ParseOptions(raw) })
		for tag, o := range po {
			keep("option-value-changed-later", fmt.Sprintf("smgp.ParseOptions value of tag %d", tag), o.Value())
		}
		tl := smpp.NewTLV(uint16(0x0204+g.Intn(3)), append([]byte(nil), val...))
		raw2 := tl.Bytes()
		var pt smpp.TLVs
		Guard(func() { pt, _ = smpp.ReadTLVs(packet.NewPacketReader(raw2)) })
		for tag, v := range pt {
			keep("option-value-changed-later", fmt.Sprintf("smpp.ReadTLVs value of tag %d", tag), v.Value())
		}
		scribble(raw, 0x55)
		scribble(raw2, 0x66)
	}
	c.hist = append(c.hist, op)
	c.res.Eval(fmt.Sprintf("%s#%d", op, len(c.hist)), true)
	c.res.Count("codec")
}

// frames handed out by the codec are views of the connection buffer; a PDU decoded from such a view
// must survive the next read (which refills the buffer)
func (c *c12ctx) opFrameThenDecode(name string, img []byte, cname string) {
	backing := make([]byte, 0, 2*len(img)+64)
	backing = append(backing, img...)
	backing = append(backing, img...)
	conn := &fakeConn{buf: backing}
	var frame []byte
	var ferr error
	if o := Guard(func() { frame, ferr = codecs[cname].Decode(conn) }); o.Panic != "" || ferr != nil {
		return
	}
	frames := [][]byte{frame}
	op := "codec " + cname + " then dec " + name
	c.hist = append(c.hist, op)
	c.res.Eval(fmt.Sprintf("%s#%d", op, len(c.hist)), true)
	if len(frames) == 0 {
		return
	}
	p := registry[name]()
	var err error
	oc := Guard(func() { err = p.IDecode(frames[0]) })
	if oc.Panic != "" || err != nil {
		return
	}
	before := renderRecord(name, snapshot(p))
	scribble(backing, 0x77) // the network layer refills its read buffer
	if after := renderRecord(name, snapshot(p)); after != before {
		c.res.Violate("C12.decoded-aliases-input:"+name, "a PDU decoded from a frame view changed when the connection buffer was refilled", []string{op, "refill"})
	}
	c.res.Count("frame+decode")
}

func runC12(res *Result, d *Driver, g *Rng, tier string) {
	res.Rule = "histories of IDecode / IEncode / String / content split / pooled helpers / TLV serialisation / text codec (every coding, both directions) / GSM 7-bit primitive / batch encoder / authenticator / option-parser calls, any mix of the 58 PDU types (records as C01, images as C11 incl. optional parameters), the caller overwriting every input buffer right after each decode, one time in three the output it was handed, and now and then the byte slices inside an earlier decoded PDU (it owns them); a ledger re-checks earlier results (deep copy taken at return): the newest 12 and a random 48 after every call, all of them every 20 calls and at the end; pointer-overlap test of every []byte reachable from a decoded PDU against the input buffer; frames taken from the zero-copy extractor, decoded, then the connection buffer refilled; non-trivial = distinct (call, position in history)"
	if err := loadLayouts(layoutsPath); err != nil {
		res.Disagreements = append(res.Disagreements, Violation{Class: "driver-failure", What: err.Error()})
		return
	}
	thorough := tier == "thorough"
	nh, hl := 30, 400
	if thorough {
		nh, hl = 120, 1000
	}
	names := pduNames()
	// PDU types that carry byte slices (optional parameters): chosen half of the time, with values drawn
	// from a small alphabet so that equal values recur within one history
	var rich []string
	for _, n := range names {
		if s := shapes[n]; s != nil && len(s.tlvs) > 0 {
			rich = append(rich, n)
		}
	}
	small := [][]byte{{0x00}, {0x01}, {0xFF}, {0x01, 0x02}, {}, {0x00, 0x00, 0x00, 0x00}}
	for h := 0; h < nh; h++ {
		c := &c12ctx{res: res, g: g}
		for step := 0; step < hl; step++ {
			name := names[g.Intn(len(names))]
			if g.Bool() && len(rich) > 0 {
				name = rich[g.Intn(len(rich))]
			}
			s := shapes[name]
			if s == nil {
				continue
			}
			r := genFit(g, s, false)
			for _, f := range s.tlvs {
				v := r[f]
				if len(v.tlvs) == 0 && g.Bool() {
					v.tlvs = []tlv{{uint16(1 + g.Intn(16)), nil}}
				}
				for i := range v.tlvs {
					if g.Intn(3) != 0 {
						v.tlvs[i].val = append([]byte{}, small[g.Intn(len(small))]...)
					}
				}
				r[f] = v
			}
			switch k := g.Intn(11); {
			case k == 10:
				c.opReuse()
				if len(c.hist) == 0 {
					continue
				}
			case k < 4:
				_, img, _, _ := goEnc(name, r)
				if img != nil {
					c.opDecode(name, img)
				}
			case k < 7:
				c.opEncode(name, r)
			case k < 8:
				c.opString(name, r)
			case k < 9:
				switch g.Intn(4) {
				case 0:
					c.opSplit()
				case 1:
					c.opMisc()
				default:
					c.opCodec()
				}
			default:
				pkg := pkgOfName(name)
				cn := map[string]string{"cmpp20": "cmpp", "cmpp30": "cmpp", "smgp30": "cmpp", "sgip12": "cmpp", "smpp34": "smpp"}[pkg]
				_, img, _, _ := goEnc(name, r)
				if img != nil && cn != "" && len(img) >= 12 {
					c.opFrameThenDecode(name, img, cn)
				}
			}
			if step == hl-1 {
				// at the end of a history every pooled buffer is taken and overwritten before the last look
				giveBack := sweepPools()
				c.hist = append(c.hist, "every buffer of the shared pool taken and overwritten")
				c.verify(c.hist[len(c.hist)-1], true)
				giveBack()
			} else {
				c.verify(c.hist[len(c.hist)-1], step%20 == 19)
			}
		}
		res.Count("histories")
	}
	// the model's ownership facts against the implementation: which decode statements alias their input
	ops := []string{"own facts"}
	goOut := []string{goOwnFacts()}
	res.Compare(d, "ownership facts (Gen/Ownership.lean) vs pointer-overlap observations", ops, goOut)
}

// goOwnFacts: observed on the implementation — where does the storage of what each primitive returns live?
func goOwnFacts() string {
	code := func(alias bool, yes string) string {
		if alias {
			return yes
		}
		return "fresh"
	}
	anyOverlap := func(v any, in []byte) bool {
		hit := false
		deepBytes(reflect.ValueOf(v), func(b []byte) {
			if overlaps(b, in) {
				hit = true
			}
		})
		return hit
	}
	// packet.Writer.Bytes / BytesWithLength against the pooled buffer: behavioural (the buffer is not reachable)
	pool := false
	for i := 0; i < 200 && !pool; i++ {
		w := packet.NewPacketWriter()
		w.WriteString("result-one")
		b1, _ := w.Bytes()
		b2, _ := w.BytesWithLength()
		w1, w2 := string(b1), string(b2)
		w.Release()
		for k := 0; k < 3; k++ {
			x := packet.NewPacketWriter()
			x.WriteString("OVERWRITE-OVERWRITE")
			x.Release()
		}
		pool = string(b1) != w1 || string(b2) != w2
	}
	in := []byte{0x00, 0x01, 0x00, 0x02, 0xAA, 0xBB, 0x00, 0x02, 0x00, 0x01, 0xCC}
	rd := packet.NewPacketReader(in)
	readerBytes := overlaps(rd.Bytes(), in)
	readN := overlaps(rd.ReadNBytes(3), in)
	rd.Release()
	po, _ := smgp.ParseOptions(in)
	parseOpt := anyOverlap(po, in)
	r2 := packet.NewPacketReader(in)
	ro := smgp.ReadOptions(r2)
	r3 := packet.NewPacketReader(in)
	rt := smpp.ReadTLVs1(r3)
	r4 := packet.NewPacketReader(in)
	rt2, _ := smpp.ReadTLVs(r4)
	readOpt := anyOverlap(ro, in) || anyOverlap(rt, in) || anyOverlap(rt2, in)
	val := []byte{1, 2, 3, 4}
	tl := smpp.NewTLV(5, val)
	tls := smpp.TLVs{}
	tls.SetTLV(tl)
	opts := smgp.Options{}
	opts.Add(smgp.NewOption(smgp.Tag(3), val))
	tlvB := overlaps(tl.Bytes(), val) || overlaps(tls.Bytes(), val) || overlaps(opts.Serialize(), val)
	// frame extractor
	backing := append(append([]byte(nil), mkFrame(NewRng(7), 20)...), mkFrame(NewRng(8), 20)...)
	conn := &fakeConn{buf: backing}
	fr, _ := codecs["cmpp"].Decode(conn)
	frame := overlaps(fr, backing)
	// PDUStringer / pooled UCS-2 helper: behavioural
	strAlias := false
	ucsAlias := false
	for i := 0; i < 200; i++ {
		st := packet.NewPDUStringer()
		st.Write("k", "first-value")
		s1 := st.String()
		c1 := string(append([]byte(nil), s1...))
		st.Release()
		u1 := cmpp.Utf8ToUcs2Pooled("短信测试")
		cu := string(append([]byte(nil), u1...))
		for k := 0; k < 3; k++ {
			x := packet.NewPDUStringer()
			x.Write("zzzzzzzz", "OVERWRITE-OVERWRITE-OVERWRITE")
			_ = x.String()
			x.Release()
			_ = cmpp.Utf8ToUcs2Pooled("覆盖覆盖覆盖覆盖")
		}
		strAlias = strAlias || s1 != c1
		ucsAlias = ucsAlias || u1 != cu
	}
	return fmt.Sprintf("writerBytes=%s readerBytes=%s readNBytes=%s parseOptions=%s readOptions=%s tlvBytes=%s frame=%s stringer=%s ucs2Pooled=%s",
		code(pool, "pool"), code(readerBytes, "alias"), code(readN, "alias"), code(parseOpt, "alias"), code(readOpt, "alias"),
		code(tlvB, "alias"), code(frame, "view"), code(strAlias, "pool"), code(ucsAlias, "pool"))
}

func replayC12(lines []string) []string { return nil }
