package main

// C02 — encoded bytes are exactly the layout the protocol documents prescribe.
// The document tables live in lean/SmsVerif/Spec/Tables.lean; the driver prints them (`specs`).
// specRefEncode below is an independent table-driven serialiser: it shares no code with the library
// and none with the Lean model.  Three-way comparison: IEncode vs specRefEncode vs Spec.wire (Lean).

import (
	"bytes"
	"encoding/binary"
	"encoding/hex"
	"fmt"
	"strconv"
	"strings"

	sms "github.com/hujm2023/go-sms-protocol"
)

func init() { runners["C02"] = runC02; replayers["C02"] = replayPdu }

type specField struct {
	goPath string
	kind   string // uint, octets, cstr, var, list, tlvs
	n      int
	ref    string // length / count field
	hex    bool
}

type specT struct {
	pdu, lenField string
	cmd           uint32
	fields        []specField
}

func loadSpecs(d *Driver) (map[string]*specT, error) {
	out, err := d.Ask([]string{"specs"})
	if err != nil || len(out) != 1 {
		return nil, fmt.Errorf("driver did not answer `specs`: %v", err)
	}
	m := map[string]*specT{}
	for _, ent := range strings.Split(out[0], " ## ") {
		parts := strings.Split(strings.TrimSpace(ent), "|")
		if len(parts) != 4 {
			return nil, fmt.Errorf("bad spec entry %q", ent)
		}
		cmd, _ := strconv.ParseUint(parts[2], 10, 32)
		s := &specT{pdu: parts[0], lenField: parts[1], cmd: uint32(cmd)}
		if parts[3] != "" {
			for _, fs := range strings.Split(parts[3], ";") {
				i := strings.IndexByte(fs, '=')
				f := specField{goPath: fs[:i]}
				ks := strings.Split(fs[i+1:], ":")
				f.kind = ks[0]
				switch f.kind {
				case "uint", "octets":
					f.n, _ = strconv.Atoi(ks[1])
					f.hex = len(ks) > 2 && ks[2] == "hex"
				case "var":
					f.ref = ks[1]
				case "list":
					f.ref = ks[1]
					f.n, _ = strconv.Atoi(ks[2])
				}
				s.fields = append(s.fields, f)
			}
		}
		m[s.pdu] = s
	}
	return m, nil
}

// specRefEncode: the image the document prescribes for the field values in r; nil when a value does not fit its field.
func specRefEncode(s *specT, r record) []byte {
	var body []byte
	for _, f := range s.fields {
		v := r[f.goPath]
		switch f.kind {
		case "uint":
			if f.n < 8 && v.num >= 1<<(8*uint(f.n)) {
				return nil
			}
			for i := f.n - 1; i >= 0; i-- {
				body = append(body, byte(v.num>>(8*uint(i))))
			}
		case "octets":
			b := v.str
			if f.hex {
				var err error
				if b, err = hex.DecodeString(string(v.str)); err != nil {
					return nil
				}
			}
			if len(b) > f.n {
				return nil
			}
			body = append(body, b...)
			body = append(body, make([]byte, f.n-len(b))...)
		case "cstr":
			body = append(body, v.str...)
			body = append(body, 0)
		case "var":
			if uint64(len(v.str)) != r[f.ref].num {
				return nil
			}
			body = append(body, v.str...)
		case "list":
			if uint64(len(v.strs)) != r[f.ref].num {
				return nil
			}
			for _, e := range v.strs {
				if len(e) > f.n {
					return nil
				}
				body = append(body, e...)
				body = append(body, make([]byte, f.n-len(e))...)
			}
		case "tlvs":
			for _, t := range v.tlvs {
				if len(t.val) > 0xffff {
					return nil
				}
				body = append(body, byte(t.tag>>8), byte(t.tag), byte(len(t.val)>>8), byte(len(t.val)))
				body = append(body, t.val...)
			}
		}
	}
	if s.lenField == "-" {
		return body
	}
	out := make([]byte, 4, 4+len(body))
	binary.BigEndian.PutUint32(out, uint32(len(body)+4))
	return append(out, body...)
}

func refTailLen(s *specT, r record) int {
	n := 0
	for _, f := range s.fields {
		if f.kind == "tlvs" {
			for _, t := range r[f.goPath].tlvs {
				n += 4 + len(t.val)
			}
		}
	}
	return n
}

type c02ctx struct {
	res        *Result
	specs      map[string]*specT
	ops, goOut []string
}

// one record, both directions
// errorResponseNoBody: SMPP 3.4 §4.1.2, §4.1.4, §4.1.6, §4.4.2 — "the body is not returned if the command_status
// field contains a non-zero value": for these types a response with a non-zero status is the bare 16-octet header.
var errorResponseNoBody = map[string]bool{"smpp34.BindResp": true, "smpp34.SubmitSmResp": true}

// checkErrorResponse: both directions for an error response (status != 0) of such a type
func (c *c02ctx) checkErrorResponse(name string, s *shape, r record) {
	res := c.res
	want := make([]byte, 16)
	binary.BigEndian.PutUint32(want[0:], 16)
	binary.BigEndian.PutUint32(want[4:], uint32(r["Header.ID"].num))
	binary.BigEndian.PutUint32(want[8:], uint32(r["Header.Status"].num))
	binary.BigEndian.PutUint32(want[12:], uint32(r["Header.Sequence"].num))
	encOp := "enc " + name + " " + renderInput(name, r)
	res.Eval("errresp/"+encOp, true)
	if _, out, _, _ := goEnc(name, r); out != nil && !bytes.Equal(out, want) {
		res.Violate("C02.not-the-specified-layout:"+name+":error-response-body", fmt.Sprintf("command_status %#x: the document prescribes the bare header (16 octets), IEncode produced %d octets", r["Header.Status"].num, len(out)), []string{encOp})
	}
	decOp := "dec " + name + " " + hx(want)
	c.ops, c.goOut = append(c.ops, decOp), append(c.goOut, "")
	line, got, _ := goDec(name, want)
	c.goOut[len(c.goOut)-1] = line
	if got == nil {
		res.Violate("C02.rejects-specified-image:"+name+":error-response", fmt.Sprintf("IDecode refuses the 16-octet error response %s the document prescribes", hx(want)), []string{decOp})
		return
	}
	for _, f := range []string{"Header.ID", "Header.Status", "Header.Sequence"} {
		if got[f].num != r[f].num {
			res.Violate("C02.decoded-differs:"+name+":"+f, fmt.Sprintf("error response %s: %s decoded as %d", hx(want), f, got[f].num), []string{decOp})
			return
		}
	}
	res.Count("decode:error-response-accepted")
}

func (c *c02ctx) check(name string, s *shape, sp *specT, r record, toModel bool) {
	res := c.res
	if errorResponseNoBody[name] && r["Header.Status"].num != 0 {
		c.checkErrorResponse(name, s, r)
		// the body-present layout is checked with status 0
		r = cloneRecord(r)
		r["Header.Status"] = value{kind: kNum, num: 0}
	}
	encOp := "enc " + name + " " + renderInput(name, r)
	c.res.Eval(encOp, true)
	line, out, after, _ := goEnc(name, r)
	if out == nil {
		res.Violate("C02.encode-refused-fitting:"+name, "encoder refused a record that fits the document's field sizes: "+line, []string{encOp})
		return
	}
	// the reference image of the receiver as the encoder left it (documented defaults applied)
	ref := specRefEncode(sp, after)
	specOp := "specenc " + name + " " + renderInput(name, after)
	if ref == nil {
		res.Violate("C02.accepts-unspecifiable:"+name, "the encoder produced an image for field values the document's field sizes cannot carry", []string{encOp})
		return
	}
	if toModel {
		c.ops, c.goOut = append(c.ops, specOp), append(c.goOut, "ok "+canonEncoded(ref, refTailLen(sp, after)))
	}
	tl := refTailLen(sp, after)
	if canonEncoded(out, tl) != canonEncoded(ref, tl) {
		what := fmt.Sprintf("IEncode produced %d octets, the document prescribes %d", len(out), len(ref))
		cls := "C02.not-the-specified-layout:" + name
		if len(out) == len(ref) {
			i := 0
			for i < len(out) && out[i] == ref[i] {
				i++
			}
			what = fmt.Sprintf("first difference at offset %d: IEncode %s, document %s", i, hx(out[i:min(len(out), i+8)]), hx(ref[i:min(len(ref), i+8)]))
			if i < 4 {
				cls = "C02.length-prefix:" + name
				what = fmt.Sprintf("length prefix announces %d, the image has %d octets", binary.BigEndian.Uint32(out), len(out))
			}
		} else if len(out) >= 4 && sp.lenField != "-" && int(binary.BigEndian.Uint32(out)) != len(out) {
			cls = "C02.length-prefix:" + name
			what = fmt.Sprintf("length prefix announces %d, the image has %d octets", binary.BigEndian.Uint32(out), len(out))
		}
		res.Violate(cls, what, []string{encOp, specOp})
	} else {
		res.Count("encode:octet-identical")
	}
	if sp.lenField != "-" && len(out) >= 4 && int(binary.BigEndian.Uint32(out)) != len(out) {
		res.Violate("C02.length-prefix:"+name, fmt.Sprintf("length prefix announces %d, the image has %d octets", binary.BigEndian.Uint32(out), len(out)), []string{encOp})
	}
	// conversely: the decoder on the reference image of r itself (no encoder involved)
	img := specRefEncode(sp, r)
	if img == nil {
		return
	}
	decOp := "dec " + name + " " + hx(img)
	_, got, _ := goDec(name, img)
	if got == nil {
		res.Violate("C02.rejects-specified-image:"+name, fmt.Sprintf("IDecode refuses the %d-octet image the document prescribes", len(img)), []string{decOp})
		return
	}
	for _, f := range s.fields {
		want := r0(r, f)
		if f.path == s.lenField {
			want = value{kind: kNum, num: uint64(len(img))}
		}
		if !sameValue(want, got[f.path]) {
			res.Violate("C02.decoded-differs:"+name+":"+f.path, fmt.Sprintf("the image carries %s=%s, IDecode returns %s", f.path, renderValue(want), renderValue(got[f.path])), []string{decOp})
			return
		}
	}
	res.Count("decode:all-fields-as-carried")
}

func runC02(res *Result, d *Driver, g *Rng, tier string) {
	res.Rule = "every PDU type x well-formed field assignments (as C01: edges of every integer width, empty / full-width / NUL-free text, binary authenticators with NULs, 0..4 optional parameters incl. 64 KiB values), plus for every PDU with a destination list and/or a length-prefixed body the grid count x length (quick: diagonal, edges and 3000 random cells; thorough: all 256x256); IEncode compared octet for octet with an independent table-driven serialiser and with Spec.wire (Lean); IDecode run on the reference image; GetCommand against the document's command id; non-trivial = distinct record"
	if err := loadLayouts(layoutsPath); err != nil {
		res.Disagreements = append(res.Disagreements, Violation{Class: "driver-failure", What: err.Error()})
		return
	}
	specs, err := loadSpecs(d)
	if err != nil {
		res.Disagreements = append(res.Disagreements, Violation{Class: "driver-failure", What: err.Error()})
		return
	}
	thorough := tier == "thorough"
	c := &c02ctx{res: res, specs: specs}
	per := 40
	if thorough {
		per = 600
	}
	for _, name := range pduNames() {
		s := shapes[name]
		sp := specs[name]
		if s == nil || sp == nil {
			res.Violate("C02.no-table:"+name, "no document table is bound to this PDU type", nil)
			continue
		}
		// command id of the document
		if pd, ok := registry[name]().(sms.PDU); ok && name != "smpp34.Bind" && name != "smpp34.BindResp" {
			if got := pd.GetCommand().ToUint32(); got != sp.cmd {
				res.Violate("C02.command-id:"+name, fmt.Sprintf("GetCommand()=%#x, the document assigns %#x", got, sp.cmd), []string{"meta " + name})
			}
			res.Count("command-id-checked")
		}
		for i := 0; i < per; i++ {
			c.check(name, s, sp, genFit(g, s, thorough), i < 12)
		}
		// the count x length grid
		var listF, cntF, bodyF, lenF string
		for f, cf := range s.list {
			listF, cntF = f, cf
		}
		for f, lf := range s.body {
			bodyF, lenF = f, lf
		}
		if listF == "" && bodyF == "" {
			continue
		}
		cell := func(cnt, ln int, toModel bool) {
			r := genFit(g, s, false)
			if listF != "" {
				w := s.elemW[listF]
				l := make([][]byte, cnt)
				for i := range l {
					l[i] = nonNil(g.BytesNoNul(g.Pick([]int{0, 1, w - 1, w})))
				}
				r[listF] = value{kind: kStrs, strs: l}
				r[cntF] = value{kind: kNum, num: uint64(cnt)}
			}
			if bodyF != "" {
				r[bodyF] = value{kind: kStr, str: nonNil(g.Bytes(ln))}
				r[lenF] = value{kind: kNum, num: uint64(ln)}
			}
			for _, f := range s.tlvs { // keep grid images small
				r[f] = value{kind: kTlvs}
			}
			res.Count("grid-cells")
			c.check(name, s, sp, r, toModel)
		}
		maxC, maxL := 255, 255
		if listF == "" {
			maxC = 0
		}
		if bodyF == "" {
			maxL = 0
		}
		if thorough {
			for cnt := 0; cnt <= maxC; cnt++ {
				for ln := 0; ln <= maxL; ln++ {
					cell(cnt, ln, cnt == ln || cnt == 13)
				}
			}
		} else {
			for k := 0; k <= 255; k++ {
				cell(min(k, maxC), min(k, maxL), k%16 == 0 || k == 13)
				cell(min(k, maxC), 0, false)
				cell(0, min(k, maxL), false)
				cell(min(k, maxC), maxL, false)
				cell(maxC, min(k, maxL), k == 255)
			}
			for k := 0; k < 3000; k++ {
				cell(g.Intn(maxC+1), g.Intn(maxL+1), false)
			}
		}
		if len(c.ops) > 2000 {
			res.Compare(d, "Spec.wire (Lean) vs the Go reference serialiser", c.ops, c.goOut)
			c.ops, c.goOut = nil, nil
		}
	}
	if len(c.ops) > 0 {
		res.Sample(c.ops[0][:min(len(c.ops[0]), 300)] + "  =>  " + c.goOut[0][:min(len(c.goOut[0]), 200)])
	}
	res.Compare(d, "Spec.wire (Lean) vs the Go reference serialiser", c.ops, c.goOut)
}

func cloneRecord(r record) record {
	c := record{}
	for k, v := range r {
		c[k] = v
	}
	return c
}
