package main

// C20 — packet reader/writer primitives: correspondence with Model/Packet.lean and the direct
// property predicates on the real packet.Writer / packet.Reader.

import (
	"bytes"
	"encoding/binary"
	"errors"
	"fmt"
	"io"
	"strconv"
	"strings"

	"github.com/hujm2023/go-sms-protocol/packet"
)

func perrCode(err error) string {
	if err == nil {
		return "ok"
	}
	s := err.Error()
	switch {
	case strings.Contains(s, "longer than the defined length"):
		return "toolong"
	case errors.Is(err, io.ErrUnexpectedEOF):
		return "ueof"
	case errors.Is(err, io.EOF):
		return "eof"
	default:
		return "short"
	}
}

type wop struct {
	kind string // n1 n2 n4 n8 b s c f
	num  uint64
	data []byte
	n    int
}

func (o wop) String() string {
	switch o.kind {
	case "n1", "n2", "n4", "n8":
		return fmt.Sprintf("%s:%d", o.kind, o.num)
	case "f":
		return fmt.Sprintf("f%d:%s", o.n, hx(o.data))
	default:
		return o.kind + ":" + hx(o.data)
	}
}

func parseWop(s string) wop {
	i := strings.IndexByte(s, ':')
	k, v := s[:i], s[i+1:]
	switch {
	case k == "n1" || k == "n2" || k == "n4" || k == "n8":
		n, _ := strconv.ParseUint(v, 10, 64)
		return wop{kind: k, num: n}
	case k[0] == 'f':
		n, _ := strconv.Atoi(k[1:])
		return wop{kind: "f", data: unhx(v), n: n}
	default:
		return wop{kind: k, data: unhx(v)}
	}
}

// runW executes a write sequence on the real writer and renders the observable state after every op.
func runW(ops []wop) (line string, perOp []struct {
	written, length int
	err             string
}, out []byte, outErr error, bwl []byte, bwlErr error) {
	w := packet.NewPacketWriter()
	defer w.Release()
	var sb strings.Builder
	for i, o := range ops {
		switch o.kind {
		case "n1":
			w.WriteUint8(uint8(o.num))
		case "n2":
			w.WriteUint16(uint16(o.num))
		case "n4":
			w.WriteUint32(uint32(o.num))
		case "n8":
			w.WriteUint64(o.num)
		case "b":
			w.WriteBytes(o.data)
		case "s":
			w.WriteString(string(o.data))
		case "c":
			w.WriteCString(string(o.data))
		case "f":
			w.WriteFixedLenString(string(o.data), o.n)
		}
		st := struct {
			written, length int
			err             string
		}{w.Written(), w.Len(), perrCode(w.Error())}
		perOp = append(perOp, st)
		if i > 0 {
			sb.WriteByte(' ')
		}
		fmt.Fprintf(&sb, "%d,%d,%s", st.written, st.length, st.err)
	}
	out, outErr = w.Bytes()
	bwl, bwlErr = w.BytesWithLength()
	rend := func(b []byte, e error) string {
		if e != nil {
			return "!" + perrCode(e)
		}
		return hx(b)
	}
	fmt.Fprintf(&sb, " | bytes=%s bwl=%s", rend(out, outErr), rend(bwl, bwlErr))
	return sb.String(), perOp, out, outErr, bwl, bwlErr
}

type rop struct {
	kind string // n1 n2 n4 n8 cn rn nb c rb
	n    int
}

func (o rop) String() string {
	switch o.kind {
	case "cn", "rn", "nb", "rb":
		return fmt.Sprintf("%s%d", o.kind, o.n)
	}
	return o.kind
}

func parseRop(s string) rop {
	for _, p := range []string{"cn", "rn", "nb", "rb"} {
		if strings.HasPrefix(s, p) {
			n, _ := strconv.Atoi(s[len(p):])
			return rop{kind: p, n: n}
		}
	}
	return rop{kind: s}
}

type rstate struct {
	num   uint64
	isNum bool
	val   []byte
	rem   int
	err   string
}

func runR(input []byte, ops []rop) (string, []rstate) {
	// the input is a window of a larger array (as a frame cut out of a connection buffer is); what lies behind it
	// must stay out of reach of everything the reader hands out
	big := make([]byte, len(input)+48)
	copy(big, input)
	for i := len(input); i < len(big); i++ {
		big[i] = 0xEE
	}
	in := big[:len(input)]
	beyond := false
	var held [][]byte
	r := packet.NewPacketReader(in)
	var sb strings.Builder
	var sts []rstate
	for i, o := range ops {
		var st rstate
		switch o.kind {
		case "n1":
			st.num, st.isNum = uint64(r.ReadUint8()), true
		case "n2":
			st.num, st.isNum = uint64(r.ReadUint16()), true
		case "n4":
			st.num, st.isNum = uint64(r.ReadUint32()), true
		case "n8":
			st.num, st.isNum = r.ReadUint64(), true
		case "cn":
			st.val = []byte(r.ReadCStringN(o.n))
		case "rn":
			st.val = []byte(r.ReadCStringNWithoutTrim(o.n))
		case "nb":
			got := r.ReadNBytes(o.n)
			st.val = append([]byte(nil), got...)
			// the result is the caller's: overwrite it, and everything its capacity reaches, before reading on
			full := got[:cap(got)]
			for j := range full {
				full[j] = 0xA5
			}
			for j := len(input); j < len(big); j++ {
				if big[j] != 0xEE {
					beyond = true
					big[j] = 0xEE
				}
			}
			held = append(held, got) // now all 0xA5: no later read may change it
		case "c":
			st.val = []byte(r.ReadCString())
		case "rb":
			rc := make([]byte, o.n)
			r.ReadBytes(rc)
			st.val = rc
		}
		st.rem, st.err = r.Remaining(), perrCode(r.Error())
		sts = append(sts, st)
		if i > 0 {
			sb.WriteByte(' ')
		}
		if st.isNum {
			fmt.Fprintf(&sb, "%d,%d,%s", st.num, st.rem, st.err)
		} else {
			fmt.Fprintf(&sb, "%s,%d,%s", hx(st.val), st.rem, st.err)
		}
	}
	if beyond {
		sb.WriteString(" RESULT-REACHES-BEYOND-THE-INPUT")
	}
	for _, h := range held {
		for _, b := range h {
			if b != 0xA5 {
				sb.WriteString(" EARLIER-RESULT-CHANGED-BY-A-LATER-READ")
				return sb.String(), sts
			}
		}
	}
	return sb.String(), sts
}

func genWop(g *Rng, fit bool) wop {
	lens := []int{0, 0, 1, 2, 3, 5, 8, 16, 21, 32, 140, 255, 256, 257}
	switch g.Intn(8) {
	case 0:
		return wop{kind: "n1", num: g.U64() & 0xff}
	case 1:
		return wop{kind: "n2", num: g.U64() & 0xffff}
	case 2:
		return wop{kind: "n4", num: pickEdge(g, 32)}
	case 3:
		return wop{kind: "n8", num: pickEdge(g, 64)}
	case 4:
		if g.Bool() {
			return wop{kind: "b", data: g.Bytes(g.Pick(lens))}
		}
		return wop{kind: "s", data: g.Bytes(g.Pick(lens))}
	case 5:
		return wop{kind: "c", data: g.BytesNoNul(g.Pick(lens))}
	default:
		n := g.Pick(lens)
		if g.Intn(6) == 0 {
			// wide fields: paddings around 255/256/257 and beyond (where a padding helper's table ends)
			n = g.Pick([]int{254, 255, 256, 257, 258, 300, 511, 512, 513, 1000, 4097})
		}
		l := n
		if n > 0 {
			l = g.Intn(n + 1)
		}
		if n >= 254 && g.Bool() {
			l = g.Intn(4) // almost all of the field is padding
		}
		if g.Intn(4) == 0 {
			l = n // exactly at width
		}
		if !fit && g.Intn(3) == 0 {
			l = n + 1 + g.Intn(3) // too long: the injected failure
		}
		return wop{kind: "f", data: g.BytesNoNul(l), n: n}
	}
}

func pickEdge(g *Rng, bits uint) uint64 {
	max := uint64(1)<<bits - 1
	if bits == 64 {
		max = ^uint64(0)
	}
	switch g.Intn(6) {
	case 0:
		return 0
	case 1:
		return 1
	case 2:
		return max
	case 3:
		return max - 1
	default:
		return g.U64() & max
	}
}

func mirrorOf(o wop, g *Rng) rop {
	switch o.kind {
	case "n1", "n2", "n4", "n8":
		return rop{kind: o.kind}
	case "b", "s":
		if g.Bool() {
			return rop{kind: "rn", n: len(o.data)}
		}
		return rop{kind: "nb", n: len(o.data)}
	case "c":
		return rop{kind: "c"}
	default:
		return rop{kind: "cn", n: o.n}
	}
}

func wline(ops []wop) string {
	parts := make([]string, len(ops))
	for i, o := range ops {
		parts[i] = o.String()
	}
	return "W " + strings.Join(parts, " ")
}
func rline(in []byte, ops []rop) string {
	parts := make([]string, len(ops))
	for i, o := range ops {
		parts[i] = o.String()
	}
	return "R " + hx(in) + " " + strings.Join(parts, " ")
}

// c20CheckW evaluates the writer clauses of the property directly on the implementation.
func c20CheckW(res *Result, ops []wop) {
	line, st, out, outErr, bwl, bwlErr := runW(ops)
	_ = line
	rep := []string{wline(ops)}
	firstErr := -1
	for i, s := range st {
		if s.err != "ok" && firstErr < 0 {
			firstErr = i
		}
		if firstErr < 0 && s.written != s.length {
			res.Violate("C20.count-ne-bytes", fmt.Sprintf("after op %d Written()=%d but %d octets buffered", i, s.written, s.length), rep)
			return
		}
		if firstErr >= 0 && i > firstErr {
			if s.written != st[firstErr].written || s.length != 0 || s.err != st[firstErr].err {
				res.Violate("C20.writer-not-sticky", fmt.Sprintf("op %d after the failure at op %d changed the writer: Written %d→%d Len=%d err=%s", i, firstErr, st[firstErr].written, s.written, s.length, s.err), rep)
				return
			}
		}
	}
	if firstErr >= 0 {
		before := 0
		if firstErr > 0 {
			before = st[firstErr-1].written
		}
		if st[firstErr].written != before {
			res.Violate("C20.count-ne-bytes", fmt.Sprintf("failed op %d changed Written() %d→%d", firstErr, before, st[firstErr].written), rep)
		}
		if outErr == nil || bwlErr == nil {
			res.Violate("C20.failed-writer-yields-bytes", "Bytes()/BytesWithLength() succeeded after a recorded error", rep)
		}
		return
	}
	if outErr != nil || bwlErr != nil {
		res.Violate("C20.spurious-error", "error without a failing op", rep)
		return
	}
	want := make([]byte, 4)
	binary.BigEndian.PutUint32(want, uint32(len(out)+4))
	want = append(want, out...)
	if !bytes.Equal(want, bwl) {
		res.Violate("C20.bwl-ne-bytes", fmt.Sprintf("BytesWithLength()=%s but Bytes()=%s", hx(bwl), hx(out)), rep)
	}
}

func runC20(res *Result, d *Driver, g *Rng, tier string) {
	res.Rule = "random write sequences (0..200 ops, arguments at width edges, an over-long fixed-width value injected at a random position in half of them) with the mirrored read sequence, and read sequences against truncated/arbitrary inputs; a case is non-trivial when it contains at least 2 ops and is distinct by its op line"
	n := 1500
	if tier == "thorough" {
		n = 60000
	}
	var ops, goOut []string
	for it := 0; it < n; it++ {
		fit := it%2 == 0
		k := g.Intn(12)
		if g.Intn(10) == 0 {
			k = g.Intn(201)
		}
		ws := make([]wop, k)
		for i := range ws {
			ws[i] = genWop(g, true)
		}
		if !fit && k > 0 {
			ws[g.Intn(k)] = genWop(g, false)
		}
		line, _, out, outErr, _, _ := runW(ws)
		wl := wline(ws)
		ops, goOut = append(ops, wl), append(goOut, line)
		res.Eval(wl, k >= 2)
		c20CheckW(res, ws)
		if outErr != nil {
			res.Count("write:failed")
			continue
		}
		res.Count("write:ok")
		// mirrored read (+ trailing octets), then direct inverse predicate
		rs := make([]rop, len(ws))
		for i, o := range ws {
			rs[i] = mirrorOf(o, g)
		}
		tail := g.Bytes(g.Intn(4))
		in := append(append([]byte(nil), out...), tail...)
		rl, sts := runR(in, rs)
		ops, goOut = append(ops, rline(in, rs)), append(goOut, rl)
		res.Eval(rline(in, rs), k >= 2)
		for i, o := range ws {
			ok := sts[i].err == "ok"
			switch o.kind {
			case "n1", "n2", "n4", "n8":
				ok = ok && sts[i].num == o.num
			default:
				ok = ok && bytes.Equal(sts[i].val, o.data)
			}
			if !ok {
				res.Violate("C20.read-not-inverse", fmt.Sprintf("op %d (%s) read back differently", i, o.String()), []string{wl, rline(in, rs)})
				break
			}
		}
		if len(sts) > 0 && sts[len(sts)-1].rem != len(tail) {
			res.Violate("C20.read-not-inverse", "mirrored reads did not consume exactly the written octets", []string{wl, rline(in, rs)})
		}
		// truncated input: failures at every position reachable by cutting
		if len(out) > 0 {
			cut := g.Intn(len(out))
			rl2, sts2 := runR(out[:cut], rs)
			ops, goOut = append(ops, rline(out[:cut], rs)), append(goOut, rl2)
			res.Eval(rline(out[:cut], rs), k >= 2)
			c20CheckR(res, out[:cut], rs, sts2)
			res.Count("read:truncated")
		}
	}
	// arbitrary read sequences on arbitrary inputs
	m := n / 2
	for it := 0; it < m; it++ {
		in := g.Bytes(g.Pick([]int{0, 1, 2, 3, 4, 7, 8, 9, 16, 40}))
		if g.Bool() { // sprinkle NULs
			for i := range in {
				if g.Intn(3) == 0 {
					in[i] = 0
				}
			}
		}
		k := g.Intn(10)
		rs := make([]rop, k)
		kinds := []string{"n1", "n2", "n4", "n8", "cn", "rn", "nb", "c", "rb"}
		for i := range rs {
			rs[i] = rop{kind: kinds[g.Intn(len(kinds))], n: g.Pick([]int{0, 1, 2, 3, 4, 8, 21})}
		}
		rl, sts := runR(in, rs)
		ops, goOut = append(ops, rline(in, rs)), append(goOut, rl)
		res.Eval(rline(in, rs), k >= 2)
		c20CheckR(res, in, rs, sts)
		res.Count("read:arbitrary")
	}
	res.Sample(ops[0] + "  =>  " + goOut[0])
	res.Sample(ops[len(ops)/2] + "  =>  " + goOut[len(ops)/2])
	res.Sample(ops[len(ops)-1] + "  =>  " + goOut[len(ops)-1])
	res.Compare(d, "packet primitives", ops, goOut)
}

// c20CheckR: sticky reader and bounds, directly on the implementation.
func c20CheckR(res *Result, in []byte, rs []rop, sts []rstate) {
	rep := []string{rline(in, rs)}
	firstErr := -1
	pos := 0
	for i, s := range sts {
		if firstErr >= 0 {
			zero := (s.isNum && s.num == 0) || (!s.isNum && (len(s.val) == 0 || (rs[i].kind == "rb" && bytes.Equal(s.val, make([]byte, len(s.val))))))
			if !zero || s.rem != sts[firstErr].rem || s.err != sts[firstErr].err {
				res.Violate("C20.reader-not-sticky", fmt.Sprintf("read %d after the failure at %d returned data or changed state", i, firstErr), rep)
				return
			}
			continue
		}
		if s.err != "ok" {
			firstErr = i
			if s.rem > len(in)-pos {
				res.Violate("C20.reader-out-of-bounds", "remaining grew", rep)
			}
			continue
		}
		consumed := (len(in) - pos) - s.rem
		if consumed < 0 || pos+consumed > len(in) {
			res.Violate("C20.reader-out-of-bounds", fmt.Sprintf("read %d consumed %d of %d", i, consumed, len(in)-pos), rep)
			return
		}
		need := 0
		switch rs[i].kind {
		case "n1":
			need = 1
		case "n2":
			need = 2
		case "n4":
			need = 4
		case "n8":
			need = 8
		case "cn", "rn", "nb", "rb":
			need = rs[i].n
		case "c":
			need = len(s.val) + 1 // the value and its NUL terminator
		}
		if consumed != need {
			res.Violate("C20.read-succeeds-without-input", fmt.Sprintf("read %d (%s) reported success but consumed %d octets where %d are required", i, rs[i].String(), consumed, need), rep)
			return
		}
		if !s.isNum && !bytes.HasPrefix(in[pos:], s.val) {
			res.Violate("C20.reader-out-of-bounds", fmt.Sprintf("read %d returned octets that are not the next input octets", i), rep)
			return
		}
		pos += consumed
	}
}

// replayC20 re-executes recorded protocol lines on the implementation.
func replayC20(lines []string) []string {
	var out []string
	for _, l := range lines {
		f := strings.Fields(l)
		if len(f) == 0 {
			continue
		}
		switch f[0] {
		case "W":
			ws := make([]wop, 0, len(f)-1)
			for _, t := range f[1:] {
				ws = append(ws, parseWop(t))
			}
			line, _, _, _, _, _ := runW(ws)
			out = append(out, line)
		case "R":
			rs := make([]rop, 0, len(f)-2)
			for _, t := range f[2:] {
				rs = append(rs, parseRop(t))
			}
			line, _ := runR(unhx(f[1]), rs)
			out = append(out, line)
		}
	}
	return out
}
