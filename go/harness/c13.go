package main

// C13 — concurrent use on distinct values is race-free and equals sequential use.
// Every work item is a closure over its own values returning a canonical string.  The oracle runs
// all items on one goroutine; then 2..64 goroutines run disjoint shares of fresh copies of the same
// items under several GOMAXPROCS settings with random yields, and every result is compared with the
// oracle.  The check runs this file in a binary built with -race (GORACE log collected by ./check).

import (
	"context"
	"fmt"
	"runtime"
	"strconv"
	"strings"
	"sync"

	sms "github.com/hujm2023/go-sms-protocol"
	"github.com/hujm2023/go-sms-protocol/cmpp"
	"github.com/hujm2023/go-sms-protocol/datacoding"
	"github.com/hujm2023/go-sms-protocol/smgp/smgp30"
	"github.com/hujm2023/go-sms-protocol/smpp/smpp34"
)

func init() { runners["C13"] = runC13; replayers["C13"] = replayC12 }

type workItem struct {
	desc string
	mk   func() func() string // a fresh closure over freshly built values
}

func c13Items(g *Rng, n int) []workItem { return c13ItemsOf(g, n, false) }

// c13ItemsOf with cold=true builds only items whose construction runs no library code (encodes and
// String() of freshly built structures): they can be executed concurrently before anything in the
// process has touched the library, so that lazily initialised or lazily grown shared state is first
// reached by several goroutines at once.
func c13ItemsOf(g *Rng, n int, cold bool) []workItem {
	names := pduNames()
	texts := []string{"hello world", "héllo wörld ñ", "你好，世界。短信测试", "price 12€ {ok} [x]", "😀 emoji 😀", "@£$¥ èéùìò Ç Ø ø Å å"}
	var items []workItem
	for len(items) < n {
		name := names[g.Intn(len(names))]
		s := shapes[name]
		if s == nil {
			continue
		}
		k := g.Intn(12)
		if cold {
			k = g.Intn(4)
		}
		switch {
		case k < 4: // encode (one in six with a value that does not fit: the writer's error path)
			r := genFit(g, s, false)
			if g.Intn(2) == 0 { // content shorter than its declared length: the writer pads the slot
				for f := range s.body {
					if v := r[f]; len(v.str) > 0 {
						v.str = nonNil(v.str[:g.Intn(len(v.str))])
						r[f] = v
					}
				}
			}
			if g.Intn(6) == 0 {
				if ro, _, ok := genOverlong(g, s); ok {
					r = ro
				}
			}
			in := renderInput(name, r)
			items = append(items, workItem{"enc " + name + " " + in[:min(len(in), 120)], func() func() string {
				p := build(name, parseRecord(in))
				return func() string {
					out, err := p.IEncode()
					if err != nil {
						return "err"
					}
					return canonEncoded(out, tailLen(p))
				}
			}})
		case k < 7: // decode
			_, img, _, _ := goEnc(name, genFit(g, s, false))
			if img == nil {
				continue
			}
			img = append([]byte(nil), img...)
			items = append(items, workItem{"dec " + name + " " + hx(img[:min(len(img), 48)]), func() func() string {
				in := append([]byte(nil), img...)
				return func() string {
					p := registry[name]()
					if err := p.IDecode(in); err != nil {
						return "err"
					}
					return renderRecord(name, snapshot(p))
				}
			}})
		case k < 8: // String()
			rs := genFit(g, s, false)
			for _, f := range s.tlvs { // String() walks a Go map: with two or more entries its order is not a function of the value
				if v := rs[f]; len(v.tlvs) > 1 {
					v.tlvs = v.tlvs[:1]
					rs[f] = v
				}
			}
			in := renderInput(name, rs)
			items = append(items, workItem{"string " + name, func() func() string {
				p := build(name, parseRecord(in))
				st, ok := p.(fmt.Stringer)
				return func() string {
					if !ok {
						return "-"
					}
					return st.String()
				}
			}})
		case k < 10: // content split / join, both protocols
			t := ""
			for m := g.Pick([]int{1, 3, 10, 30}); m > 0; m-- {
				t += texts[g.Intn(len(texts))]
			}
			fk := byte(g.Intn(256))
			cm := g.Bool()
			dc := g.Pick([]int{0, 8, 15})
			if !cm {
				dc = g.Pick([]int{0, 1, 3, 8})
			}
			items = append(items, workItem{fmt.Sprintf("split cmpp=%v dc=%d %d chars", cm, dc, len(t)), func() func() string {
				return func() string {
					var parts [][]byte
					var fm fmt.Stringer
					var err error
					ctx := context.Background()
					if cm {
						var a datacoding.CMPPDataCoding
						parts, a, err = sms.EncodeCMPPContentAndSplit(ctx, t, datacoding.CMPPDataCoding(dc), fk)
						fm = a
					} else {
						var a datacoding.SMPPDataCoding
						parts, a, err = sms.EncodeSMPPContentAndSplit(ctx, t, datacoding.SMPPDataCoding(dc), fk)
						fm = a
					}
					if err != nil {
						return "err " + err.Error()
					}
					hs := make([]string, len(parts))
					for i, p := range parts {
						hs[i] = hx(p)
					}
					return fmt.Sprint(fm) + " " + strings.Join(hs, ",")
				}
			}})
		case k < 11: // batch encoder (starts goroutines of its own)
			t := texts[g.Intn(len(texts))] + texts[g.Intn(len(texts))]
			proto := []sms.Protocol{sms.CMPP, sms.SMPP}[g.Intn(2)]
			fk := byte(g.Intn(256))
			items = append(items, workItem{fmt.Sprintf("batch %v %d chars", proto, len(t)), func() func() string {
				return func() string {
					b := sms.NewBatchDataCodingEncoder().Protocol(proto).Content(t, fk)
					parts, fm, err := b.Build(context.Background())
					if err != nil {
						return "err " + err.Error()
					}
					hs := make([]string, len(parts))
					for i, p := range parts {
						hs[i] = hx(p)
					}
					return fmt.Sprint(fm) + " " + strings.Join(hs, ",")
				}
			}})
		default: // small helpers over package-level tables and pools
			t := texts[g.Intn(len(texts))]
			id := g.U64()
			items = append(items, workItem{"helpers", func() func() string {
				return func() string {
					u := cmpp.Utf8ToUcs2Pooled(t)
					m1, m2, m3, m4, m5, m6, m7 := cmpp.SplitMsgID(id)
					r1, e1 := smpp34.ExtractDeliveryReceipt("id:" + t + " sub:001 dlvrd:001 submit date:2401010000 done date:2401010001 stat:DELIVRD err:000 text:x")
					r2, e2 := smgp30.ExtractDeliveryReceipt("id:0123456789 sub:001 dlvrd:001 Submit_Date:2401010000 Done_Date:2401010001 Stat:DELIVRD Err:000 Text:" + t)
					cd := datacoding.NewCMPPCodec(datacoding.CMPPDataCoding(8), t)
					e, err := cd.Encode()
					return fmt.Sprintf("%s|%v|%v%v|%v%v|%s%v", hx([]byte(u)), []any{m1, m2, m3, m4, m5, m6, m7}, r1, e1, r2, e2, hx(e), err)
				}
			}})
		}
	}
	return items
}

func runC13(res *Result, d *Driver, g *Rng, tier string) {
	res.Rule = "work items: IEncode (one in six on a value that does not fit: error path), IDecode, String, content split for both protocols, batch encoding (which starts goroutines itself), pooled UCS-2 helper, message-id and receipt helpers, text codecs; each item on its own values; oracle = the same items on one goroutine; then 2,3,8,16,64 goroutines x GOMAXPROCS 1,2,4,16 with random yields, every result compared with the oracle; the binary is built with -race and the race log is a violation; the interleaving model (`sched` line of the driver) is run on sampled schedules against its sequential result; non-trivial = distinct (item, goroutines, GOMAXPROCS)"
	if err := loadLayouts(layoutsPath); err != nil {
		res.Disagreements = append(res.Disagreements, Violation{Class: "driver-failure", What: err.Error()})
		return
	}
	thorough := tier == "thorough"
	nItems, rounds := 3000, 2
	if thorough {
		nItems, rounds = 6000, 12
	}
	defer runtime.GOMAXPROCS(runtime.GOMAXPROCS(0))
	// ---- cold phase: concurrency first, the sequential oracle afterwards ----
	{
		runtime.GOMAXPROCS(16)
		cold := c13ItemsOf(g, 4000, true)
		got := make([]string, len(cold))
		const ng = 16
		var wg sync.WaitGroup
		for k := 0; k < ng; k++ {
			wg.Add(1)
			go func(k int) {
				defer wg.Done()
				for i := k; i < len(cold); i += ng {
					f := cold[i].mk()
					func() {
						defer func() {
							if r := recover(); r != nil {
								got[i] = "panic"
							}
						}()
						got[i] = f()
					}()
				}
			}(k)
		}
		wg.Wait()
		for i, it := range cold {
			f := it.mk()
			var s string
			if o := Guard(func() { s = f() }); o.Panic != "" {
				s = "panic"
			}
			res.Eval(fmt.Sprintf("cold/%d", i), true)
			if s != got[i] {
				res.Violate("C13.differs-from-sequential:cold-"+strings.SplitN(it.desc, " ", 2)[0], fmt.Sprintf("run first thing in the process on 16 goroutines `%s` returned %.80s…, alone afterwards it returns %.80s…", it.desc, got[i], s), []string{it.desc})
			}
		}
		res.Count("cold-phase-items=" + strconv.Itoa(len(cold)))
	}
	for round := 0; round < rounds; round++ {
		items := c13Items(g, nItems)
		oracle := make([]string, len(items))
		for i, it := range items {
			f := it.mk()
			o := Guard(func() { oracle[i] = f() })
			if o.Panic != "" {
				oracle[i] = "panic"
			}
		}
		// a second sequential pass: the oracle itself must be deterministic
		for i, it := range items {
			f := it.mk()
			var s string
			if o := Guard(func() { s = f() }); o.Panic != "" {
				s = "panic"
			}
			if s != oracle[i] {
				res.Violate("C13.sequential-nondeterminism", "the same call on equal values gave two different results on one goroutine: "+it.desc, []string{it.desc})
			}
		}
		for _, procs := range []int{1, 2, 4, 16} {
			for _, ng := range []int{2, 3, 8, 16, 64} {
				runtime.GOMAXPROCS(procs)
				type miss struct {
					i   int
					got string
				}
				misses := make([][]miss, ng)
				seeds := make([]uint64, ng)
				for k := range seeds {
					seeds[k] = g.U64()
				}
				var wg sync.WaitGroup
				for k := 0; k < ng; k++ {
					wg.Add(1)
					go func(k int) {
						defer wg.Done()
						lg := NewRng(seeds[k])
						// this goroutine's share, in an order of its own
						var mine []int
						for i := k; i < len(items); i += ng {
							mine = append(mine, i)
						}
						for j := len(mine) - 1; j > 0; j-- {
							x := lg.Intn(j + 1)
							mine[j], mine[x] = mine[x], mine[j]
						}
						for _, i := range mine {
							f := items[i].mk()
							if lg.Intn(3) == 0 {
								runtime.Gosched()
							}
							var s string
							func() {
								defer func() {
									if r := recover(); r != nil {
										s = "panic"
									}
								}()
								s = f()
							}()
							if s != oracle[i] {
								misses[k] = append(misses[k], miss{i, s})
							}
						}
					}(k)
				}
				wg.Wait()
				for i := range items {
					res.Eval(fmt.Sprintf("%d/%d/%d/%d", round, i, ng, procs), true)
				}
				res.Count(fmt.Sprintf("goroutines=%d", ng))
				res.Count(fmt.Sprintf("GOMAXPROCS=%d", procs))
				for k := range misses {
					for _, m := range misses[k] {
						kind := strings.SplitN(items[m.i].desc, " ", 2)[0]
						res.Violate("C13.differs-from-sequential:"+kind, fmt.Sprintf("with %d goroutines (GOMAXPROCS %d) `%s` returned %.80s…, alone it returns %.80s…", ng, procs, items[m.i].desc, m.got, oracle[m.i]), []string{items[m.i].desc})
					}
				}
			}
		}
	}
	// the interleaving model on sampled schedules: every thread that finishes holds its own payload
	var ops, goOut []string
	for i := 0; i < 400; i++ {
		nt := 2 + g.Intn(5)
		todos := make([]string, nt)
		want := make([]string, nt)
		budget := make([]int, nt)
		for k := range todos {
			b := g.Bytes(1 + g.Intn(5))
			todos[k] = hx(b)
			want[k] = "done:" + hx(b)
			budget[k] = len(b) + 2
		}
		// a complete random schedule: each thread gets exactly the steps it needs, in random order
		var sched []string
		left := nt
		for left > 0 {
			k := g.Intn(nt)
			if budget[k] == 0 {
				continue
			}
			budget[k]--
			if budget[k] == 0 {
				left--
			}
			sched = append(sched, fmt.Sprint(k))
		}
		ops = append(ops, "sched "+strings.Join(todos, ",")+" "+strings.Join(sched, ","))
		goOut = append(goOut, strings.Join(want, " "))
	}
	res.Compare(d, "interleaving model vs its sequential result on sampled schedules", ops, goOut)
}
