package main

// C01 — encode → decode round trip for every PDU type; also validates the regenerated layouts
// (translator output interpreted by the Lean model) against the real IEncode / IDecode.

import (
	"bytes"
	"encoding/binary"
	"encoding/hex"
	"fmt"
	sms "github.com/hujm2023/go-sms-protocol"
	"sort"
	"strings"
)

func init() {
	runners["C01"] = runC01
	replayers["C01"] = replayPdu
	replayers["C02"] = replayPdu
	replayers["C11"] = replayPdu
	replayers["C03"] = replayPdu
	replayers["C15"] = replayPdu
}

// replayPdu executes `enc <type> <record>` / `dec <type> <hex>` lines on the implementation.
func replayPdu(lines []string) []string {
	var out []string
	for _, l := range lines {
		f := strings.Fields(l)
		switch {
		case len(f) == 3 && f[0] == "enc" && registry[f[1]] != nil:
			line, _, _, _ := goEnc(f[1], parseRecord(f[2]))
			out = append(out, line)
		case len(f) == 3 && f[0] == "dec" && registry[f[1]] != nil:
			line, _, _ := goDec(f[1], unhx(f[2]))
			out = append(out, line)
		default:
			out = append(out, "bad-op")
		}
	}
	return out
}

func sameValue(a, b value) bool {
	switch a.kind {
	case kNum:
		return a.num == b.num
	case kStr, kBytes:
		return bytes.Equal(a.str, b.str)
	case kStrs:
		if len(a.strs) != len(b.strs) {
			return false
		}
		for i := range a.strs {
			if !bytes.Equal(a.strs[i], b.strs[i]) {
				return false
			}
		}
		return true
	default:
		x := append([]tlv(nil), a.tlvs...)
		y := append([]tlv(nil), b.tlvs...)
		sort.Slice(x, func(i, j int) bool { return x[i].tag < x[j].tag })
		sort.Slice(y, func(i, j int) bool { return y[i].tag < y[j].tag })
		if len(x) != len(y) {
			return false
		}
		for i := range x {
			if x[i].tag != y[i].tag || !bytes.Equal(x[i].val, y[i].val) {
				return false
			}
		}
		return true
	}
}

// checkLayoutsKnown: every PDU type the translator found must be drivable by the harness and vice versa.
func checkLayoutsKnown(res *Result, d *Driver) bool {
	out, err := d.Ask([]string{"pdus"})
	if err != nil {
		res.Disagreements = append(res.Disagreements, Violation{Class: "driver-failure", What: err.Error()})
		return false
	}
	model := map[string]bool{}
	for _, n := range strings.Fields(out[0]) {
		model[n] = true
		if registry[n] == nil {
			res.Disagree("PDU type in the extracted model that the harness cannot drive", "pdus", "", n)
		}
	}
	for n := range registry {
		if !model[n] {
			res.Disagree("PDU type known to the harness but not extracted (IEncode/IDecode missing?)", "pdus", n, "")
		}
	}
	return true
}

// c01Class names the known defect classes precisely (so that anything else is reported as new).
func c01Class(name, field string, s *shape, r record) string {
	if s.hexOut[field] > 0 {
		return "C01.smgp-msgid-raw-in-hex-out:" + name
	}
	if strings.Contains(field, "Authenticator") && bytes.IndexByte(r[field].str, 0) >= 0 {
		return "C01.authenticator-cut-at-nul:" + name
	}
	return "C01.field-mismatch:" + name + ":" + field
}

// roundTrip runs encode→decode on the implementation and evaluates the C01 predicate.
func c01RoundTrip(res *Result, name string, s *shape, r record, ops, goOut *[]string) {
	encOp := "enc " + name + " " + renderInput(name, r)
	line, out, after, _ := goEnc(name, r)
	*ops, *goOut = append(*ops, encOp), append(*goOut, line)
	if out == nil {
		res.Violate("C01.encode-refused-fitting:"+name, "encoder refused (or panicked on) a record that fits the wire format: "+line, []string{encOp})
		res.Count("enc:" + line)
		return
	}
	res.Count("enc:ok")
	decOp := "dec " + name + " " + hx(out)
	dline, got, _ := goDec(name, out)
	*ops, *goOut = append(*ops, decOp), append(*goOut, dline)
	if got == nil {
		res.Violate("C01.decode-refused-own-output:"+name, "decoder answered "+dline+" on the encoder's own output", []string{encOp, decOp})
		return
	}
	// expected: the receiver as the encoder left it, with the length field holding the real byte count
	want := after
	if s.lenField != "" {
		want[s.lenField] = value{kind: kNum, num: uint64(len(out))}
	}
	// the encoder may normalise its receiver only in the two documented ways
	for _, f := range s.fields {
		if f.path == s.lenField {
			continue
		}
		if !sameValue(r0(r, f), after[f.path]) {
			if !(name == "cmpp20.PduSubmit" && (f.path == "PkTotal" || f.path == "PkNumber") && r0(r, fieldDesc{path: "PkTotal", kind: kNum}).num == 0 && r0(r, fieldDesc{path: "PkNumber", kind: kNum}).num == 0) &&
				!(name == "sgip12.Submit" && f.path == "UserCount") {
				res.Violate("C01.encoder-changed-receiver:"+name+":"+f.path, "IEncode modified field "+f.path+" of its receiver", []string{encOp})
			}
		}
	}
	for _, f := range s.fields {
		if !sameValue(want[f.path], got[f.path]) {
			res.Violate(c01Class(name, f.path, s, r), fmt.Sprintf("%s: field %s decoded as %s, encoded from %s", name, f.path, renderValue(got[f.path]), renderValue(want[f.path])), []string{encOp, decOp})
			return
		}
	}
	// the other way in: the package's dispatcher must give the same PDU, and the value it hands out is kept and
	// looked at again when the run is over (a dispatcher that decodes into a shared value gives it away there)
	if df := dispatchFn[pkgOfName(name)]; df != nil {
		var p2 sms.PDU
		var derr error
		in := append([]byte(nil), out...)
		// the image with the command id this type carries by nature (octets 4..8 of every header), so that the
		// dispatcher selects it; the record's own command id was free
		if pd, ok := registry[name]().(sms.PDU); ok && len(in) >= 8 {
			var nat uint32
			Guard(func() { nat = pd.GetCommand().ToUint32() })
			binary.BigEndian.PutUint32(in[4:], nat)
		}
		_, gotD, _ := goDec(name, in)
		if gotD == nil {
			return
		}
		got = gotD
		if o := Guard(func() { p2, derr = df(in) }); o.Panic != "" || derr != nil || p2 == nil {
			return // the record's command id is free here, it need not be this type's: which type a command id selects is C10's matter
		}
		if cp, ok := p2.(codec); ok && fmt.Sprintf("%T", p2) == fmt.Sprintf("%T", registry[name]()) {
			viaDispatch := renderRecord(name, snapshot(cp))
			if viaDispatch != renderRecord(name, got) {
				res.Violate("C01.dispatcher-decodes-differently:"+name, "the PDU returned by the dispatcher differs from the one IDecode fills", []string{encOp, decOp})
				return
			}
			retainDecoded(name, cp, viaDispatch, decOp)
		}
	}
}

func r0(r record, f fieldDesc) value {
	if v, ok := r[f.path]; ok {
		if v.kind == kBytes {
			v.kind = kStr
		}
		return v
	}
	switch f.kind {
	case kNum:
		return value{kind: kNum}
	case kStr, kBytes:
		return value{kind: kStr}
	case kStrs:
		return value{kind: kStrs}
	}
	return value{kind: kTlvs}
}

func runC01(res *Result, d *Driver, g *Rng, tier string) {
	res.Rule = "per PDU type: structure-directed records that fit the wire format (integers at 0,1,max-1,max,random; text at length 0,1,width-1,width; bodies at 0..255 boundary lengths, SGIP to 64 KiB in thorough; counts 0,1,12,13,99,100,255; fixed binary fields at exact width with NULs planted; TLV sets of 0..8 tags, values up to 65531 octets) plus records with one over-long fixed-width value; non-trivial = encodes successfully or is an over-long probe, distinct by its op line"
	if err := loadLayouts(layoutsPath); err != nil {
		res.Disagreements = append(res.Disagreements, Violation{Class: "driver-failure", What: "layouts.json: " + err.Error()})
		return
	}
	checkLayoutsKnown(res, d)
	per := 120
	if tier == "thorough" {
		per = 4000
	}
	var ops, goOut []string
	for _, name := range pduNames() {
		s := shapes[name]
		if s == nil {
			continue
		}
		for i := 0; i < per; i++ {
			r := genFit(g, s, tier == "thorough")
			before := len(ops)
			c01RoundTrip(res, name, s, r, &ops, &goOut)
			res.Eval(ops[before], strings.HasPrefix(goOut[before], "ok"))
			if i == 0 && len(res.Samples) < 6 {
				res.Sample(ops[before] + "  =>  " + goOut[before])
			}
		}
		// over-long values must be refused with an error and no bytes
		for i := 0; i < per/6+1; i++ {
			r, fld, ok := genOverlong(g, s)
			if !ok {
				break
			}
			encOp := "enc " + name + " " + renderInput(name, r)
			line, out, _, _ := goEnc(name, r)
			ops, goOut = append(ops, encOp), append(goOut, line)
			res.Eval(encOp, true)
			res.Count("overlong:" + strings.Fields(line)[0])
			if line != "err" || out != nil {
				res.Violate("C01.overlong-not-refused:"+name+":"+fld, "a value longer than its fixed-width slot did not make encoding fail with an error: "+strings.Fields(line)[0], []string{encOp})
			}
		}
		// a field given as hexadecimal text for a fixed binary slot: text that is not the hex form of exactly
		// that many octets does not fit the slot — refused, never cut at the first bad digit
		var hexFields []string
		for f := range s.hexIn {
			hexFields = append(hexFields, f)
		}
		sortStrings(hexFields)
		for _, f := range hexFields {
			n := s.hexIn[f]
			good := hex.EncodeToString(g.Bytes(n))
			for _, bad := range []string{good + "a", good[:2*n-1], good[:2*n-1] + "g", "zz" + good[2:], good[:n] + "-" + good[n+1:], good + "0g"} {
				r := genFit(g, s, false)
				r[f] = value{kind: kStr, str: []byte(bad)}
				encOp := "enc " + name + " " + renderInput(name, r)
				line, out, _, _ := goEnc(name, r)
				ops, goOut = append(ops, encOp), append(goOut, line)
				res.Eval(encOp, true)
				res.Count("badhex:" + strings.Fields(line)[0])
				if line != "err" || out != nil {
					res.Violate("C01.overlong-not-refused:"+name+":"+f, fmt.Sprintf("%q is not the hex form of %d octets, but encoding did not fail: %s", bad, n, strings.Fields(line)[0]), []string{encOp})
				}
			}
		}
		if len(ops) > 4000 {
			res.Compare(d, "layout interpreter vs IEncode/IDecode", ops, goOut)
			ops, goOut = nil, nil
		}
	}
	res.Compare(d, "layout interpreter vs IEncode/IDecode", ops, goOut)
}
