package main

// C08 — GSM 7-bit alphabet and septet packing follow 3GPP TS 23.038.

import (
	"bytes"
	"fmt"
	"io"
	"math/big"
	"strconv"
	"strings"
	"unicode/utf8"

	"golang.org/x/text/transform"

	"github.com/hujm2023/go-sms-protocol/datacoding"
	gsm "github.com/hujm2023/go-sms-protocol/datacoding/gsm7encoding"
)

func init() {
	runners["C08"] = runC08
	replayers["C08"] = replayGsm
	replayers["C05"] = replayGsm
}

// TS 23.038 default alphabet and extension table (hand transcription, same source as Spec/Gsm7.lean)
var specDefault = [128]rune{
	0x40, 0xA3, 0x24, 0xA5, 0xE8, 0xE9, 0xF9, 0xEC, 0xF2, 0xC7, 0x0A, 0xD8, 0xF8, 0x0D, 0xC5, 0xE5,
	0x394, 0x5F, 0x3A6, 0x393, 0x39B, 0x3A9, 0x3A0, 0x3A8, 0x3A3, 0x398, 0x39E, -1, 0xC6, 0xE6, 0xDF, 0xC9,
	0x20, 0x21, 0x22, 0x23, 0xA4, 0x25, 0x26, 0x27, 0x28, 0x29, 0x2A, 0x2B, 0x2C, 0x2D, 0x2E, 0x2F,
	0x30, 0x31, 0x32, 0x33, 0x34, 0x35, 0x36, 0x37, 0x38, 0x39, 0x3A, 0x3B, 0x3C, 0x3D, 0x3E, 0x3F,
	0xA1, 0x41, 0x42, 0x43, 0x44, 0x45, 0x46, 0x47, 0x48, 0x49, 0x4A, 0x4B, 0x4C, 0x4D, 0x4E, 0x4F,
	0x50, 0x51, 0x52, 0x53, 0x54, 0x55, 0x56, 0x57, 0x58, 0x59, 0x5A, 0xC4, 0xD6, 0xD1, 0xDC, 0xA7,
	0xBF, 0x61, 0x62, 0x63, 0x64, 0x65, 0x66, 0x67, 0x68, 0x69, 0x6A, 0x6B, 0x6C, 0x6D, 0x6E, 0x6F,
	0x70, 0x71, 0x72, 0x73, 0x74, 0x75, 0x76, 0x77, 0x78, 0x79, 0x7A, 0xE4, 0xF6, 0xF1, 0xFC, 0xE0}
var specExt = map[byte]rune{0x0A: 0x0C, 0x14: 0x5E, 0x28: 0x7B, 0x29: 0x7D, 0x2F: 0x5C, 0x3C: 0x5B, 0x3D: 0x7E, 0x3E: 0x5D, 0x40: 0x7C, 0x65: 0x20AC}

// specEncodeRune: the septets TS 23.038 assigns to a character, nil if it has none.
func specEncodeRune(r rune) []byte {
	for i, c := range specDefault {
		if c == r {
			return []byte{byte(i)}
		}
	}
	for s, c := range specExt {
		if c == r {
			return []byte{0x1B, s}
		}
	}
	return nil
}

// refPack: ceil(7n/8) octets of the little-endian bit stream, CR in seven spare bits.
func refPack(s []byte) []byte {
	n := len(s)
	v := new(big.Int)
	for i := n - 1; i >= 0; i-- {
		v.Lsh(v, 7)
		v.Or(v, big.NewInt(int64(s[i]&0x7F)))
	}
	if (7*n)%8 == 1 {
		cr := new(big.Int).Lsh(big.NewInt(0x0D), uint(7*n))
		v.Or(v, cr)
	}
	out := make([]byte, (7*n+7)/8)
	be := v.Bytes() // big endian
	for i := range be {
		out[len(be)-1-i] = be[i]
	}
	return out
}

// refUnpack: the handset's unpacker, told the septet count.
func refUnpack(count int, b []byte) []byte {
	v := new(big.Int)
	for i := len(b) - 1; i >= 0; i-- {
		v.Lsh(v, 8)
		v.Or(v, big.NewInt(int64(b[i])))
	}
	out := make([]byte, count)
	m := big.NewInt(0x7F)
	for i := 0; i < count; i++ {
		t := new(big.Int).Rsh(v, uint(7*i))
		out[i] = byte(t.And(t, m).Int64())
	}
	return out
}

func cpsOf(s string) string {
	if s == "" {
		return "-"
	}
	parts := []string{}
	for _, r := range s {
		parts = append(parts, strconv.Itoa(int(r)))
	}
	return strings.Join(parts, ",")
}

func textOfCps(s string) string {
	if s == "-" {
		return ""
	}
	var sb strings.Builder
	for _, p := range strings.Split(s, ",") {
		n, _ := strconv.Atoi(p)
		sb.WriteRune(rune(n))
	}
	return sb.String()
}

// goGsm executes one `gsm …` protocol line on the implementation.
func goGsm(f []string) string {
	res := "bad-op"
	o := Guard(func() {
		switch f[0] {
		case "enc":
			b, err := gsm.Encode(textOfCps(f[1]))
			if err != nil {
				res = "err"
			} else {
				res = hx(b)
				retainBytes("gsm7encoding.Encode", b)
			}
		case "dec":
			b, err := gsm.Decode(unhx(f[1]))
			if err != nil {
				res = "err"
			} else {
				res = cpsOf(string(b))
				retainBytes("gsm7encoding.Decode", b)
			}
		case "valid":
			res = strconv.FormatBool(gsm.IsValidGSM7String(textOfCps(f[1])))
		case "badchars":
			res = cpsOf(string(gsm.ValidateGSM7String(textOfCps(f[1]))))
		case "badbytes":
			res = hx(gsm.ValidateGSM7Buffer(unhx(f[1])))
		case "pack":
			pk := gsm.Pack(unhx(f[1]))
			retainBytes("gsm7encoding.Pack", pk)
			res = hx(pk)
		case "unpack":
			up := gsm.Unpack(unhx(f[1]))
			retainBytes("gsm7encoding.Unpack", up)
			res = hx(up)
		}
	})
	if o.Panic != "" {
		return "panic"
	}
	return res
}

func replayGsm(lines []string) []string {
	var out []string
	for _, l := range lines {
		f := strings.Fields(l)
		if len(f) >= 3 && f[0] == "gsm" {
			out = append(out, goGsm(f[1:]))
		} else {
			out = append(out, "bad-op")
		}
	}
	return out
}

func ambiguousTail(s []byte) bool {
	n := len(s)
	if n == 0 || n%8 != 0 {
		return false
	}
	return s[n-1] == 0x0D || (s[n-1] == 0x00 && s[n-2] < 0x40)
}

type c08ctx struct {
	res        *Result
	ops, goOut []string
	reused     map[string]transform.Transformer
	prevSrc    map[string][]byte
}

func (c *c08ctx) line(op string) string {
	out := goGsm(strings.Fields(op)[1:])
	c.ops, c.goOut = append(c.ops, op), append(c.goOut, out)
	return out
}

// checkPack: all packing clauses for one septet sequence (values 0..127).
func (c *c08ctx) checkPack(s []byte, viaModel bool) {
	res := c.res
	op := "gsm pack " + hx(s)
	var packed []byte
	var out string
	if viaModel {
		out = c.line(op)
	} else {
		out = goGsm([]string{"pack", hx(s)})
	}
	res.Eval(op, len(s) > 0)
	if out == "panic" {
		res.Violate("C08.pack-panics", "Pack panics", []string{op})
		return
	}
	packed = unhx(out)
	want := refPack(s)
	if !bytes.Equal(packed, want) {
		res.Violate("C08.pack-ne-spec", fmt.Sprintf("Pack(%s)=%s, TS 23.038 bit stream gives %s", hx(s), hx(packed), hx(want)), []string{op, "gsm packspec " + hx(s)})
		return
	}
	// the other entry points that pack
	if alt, err := packedEncoderBytes(s); err == nil && !bytes.Equal(alt, packed) {
		res.Violate("C08.entry-points-disagree:pack", fmt.Sprintf("packed stream encoder gives %s, Pack gives %s", hx(alt), hx(packed)), []string{op})
	}
	uop := "gsm unpack " + hx(packed)
	var uout string
	if viaModel {
		uout = c.line(uop)
	} else {
		uout = goGsm([]string{"unpack", hx(packed)})
	}
	if uout == "panic" {
		res.Violate("C08.unpack-panics", "Unpack panics on "+hx(packed), []string{uop})
		return
	}
	got := unhx(uout)
	if !ambiguousTail(s) && !bytes.Equal(got, s) {
		cls := "C08.unpack-not-inverse"
		res.Violate(cls, fmt.Sprintf("Unpack(Pack(%s)) = %s", hx(s), hx(got)), []string{op, uop})
	}
	if alt, err := packedDecoderSeptets(packed); err == nil && !bytes.Equal(alt, got) {
		res.Violate("C08.entry-points-disagree:unpack", fmt.Sprintf("packed stream decoder sees %s, Unpack gives %s", hx(alt), hx(got)), []string{uop})
	}
	// the four stream transformers through destination buffers of every awkward size
	if len(s) > 0 && (len(s) <= 24 || viaModel) && len(s) <= 2000 {
		if text, err := gsm.Decode(s); err == nil {
			c.tinyAgrees("packed-stream-encoder", func() transform.Transformer { return gsm.GSM7(true).NewEncoder() }, text, op)
			c.tinyAgrees("unpacked-stream-encoder", func() transform.Transformer { return gsm.GSM7(false).NewEncoder() }, text, op)
		}
		c.tinyAgrees("packed-stream-decoder", func() transform.Transformer { return gsm.GSM7(true).NewDecoder() }, packed, uop)
		c.tinyAgrees("unpacked-stream-decoder", func() transform.Transformer { return gsm.GSM7(false).NewDecoder() }, s, op)
	}
}

// driveTiny runs a transformer by hand, as the transform contract describes, with a destination that
// starts at k octets and grows by one whenever the transformer reports ErrShortDst without progress.
func driveTiny(t transform.Transformer, src []byte, k int) (out []byte, err error, panicked bool) {
	defer func() {
		if r := recover(); r != nil {
			panicked = true
		}
	}()
	t.Reset()
	pos := 0
	for iter := 0; iter < 4*len(src)+64; iter++ {
		dst := make([]byte, k)
		nDst, nSrc, e := t.Transform(dst, src[pos:], true)
		if nDst < 0 || nDst > len(dst) || nSrc < 0 || nSrc > len(src)-pos {
			return out, fmt.Errorf("counts out of range: nDst=%d nSrc=%d", nDst, nSrc), false
		}
		out = append(out, dst[:nDst]...)
		pos += nSrc
		switch e {
		case nil:
			if pos != len(src) {
				return out, fmt.Errorf("success with %d of %d source octets consumed", pos, len(src)), false
			}
			return out, nil, false
		case transform.ErrShortDst:
			if nDst == 0 && nSrc == 0 {
				k++
			}
		default:
			return out, e, false
		}
	}
	return out, fmt.Errorf("no progress"), false
}

// chunkReader delivers its data n octets per Read
type chunkReader struct {
	data []byte
	n    int
}

func (r *chunkReader) Read(p []byte) (int, error) {
	if len(r.data) == 0 {
		return 0, io.EOF
	}
	k := min(min(r.n, len(r.data)), len(p))
	copy(p, r.data[:k])
	r.data = r.data[k:]
	return k, nil
}

// tinyAgrees: the transformer driven through tiny destination buffers gives what transform.Bytes gives
func (c *c08ctx) tinyAgrees(name string, mk func() transform.Transformer, src []byte, op string) {
	want, _, werr := transform.Bytes(mk(), src)
	// one long-lived transformer per entry point, used for message after message: an attempt into a destination
	// that is too small is given up, the transformer is reset, and must then treat this message like a fresh one
	if c.reused == nil {
		c.reused = map[string]transform.Transformer{}
	}
	if c.reused[name] == nil {
		c.reused[name] = mk()
	}
	if t := c.reused[name]; len(src) > 0 {
		other := c.prevSrc[name] // the message given up is a different one (the previous message of this entry point)
		if len(other) == 0 || bytes.Equal(other, src) {
			other = []byte("given up: 0123456789 abcdefghijklmnopqrstuvwxyz")
		}
		func() {
			defer func() { _ = recover() }()
			t.Transform(make([]byte, 1), other, true)
		}()
		if c.prevSrc == nil {
			c.prevSrc = map[string][]byte{}
		}
		c.prevSrc[name] = append([]byte(nil), src...)
		t.Reset()
		var got []byte
		var err error
		pn := Guard(func() { got, _, err = transform.Bytes(t, src) })
		c.res.Eval(fmt.Sprintf("reused/%s/%s", name, hx(src[:min(len(src), 40)])), true)
		if pn.Panic != "" || (err != nil) != (werr != nil) || (err == nil && !bytes.Equal(got, want)) {
			c.res.Violate("C08.entry-points-disagree:"+name+"-reused", fmt.Sprintf("%s reused after an abandoned attempt and a Reset: on %s it gives %s (err=%v), a fresh one %s (err=%v)", name, hx(src[:min(len(src), 40)]), hx(got[:min(len(got), 60)]), err, hx(want[:min(len(want), 60)]), werr), []string{op})
			c.reused[name] = mk()
			return
		}
	}
	// through x/text's stream adapters, which rely on the octet counts the transformer reports
	if len(src) > 0 {
		got, err := io.ReadAll(transform.NewReader(bytes.NewReader(src), mk()))
		c.res.Eval(fmt.Sprintf("reader/%s/%s", name, hx(src)), true)
		if (err != nil) != (werr != nil) || (err == nil && !bytes.Equal(got, want)) {
			c.res.Violate("C08.entry-points-disagree:"+name, fmt.Sprintf("%s behind transform.NewReader on %s gives %s (err=%v), in one piece %s (err=%v)", name, hx(src), hx(got), err, hx(want), werr), []string{op})
			return
		}
		var buf bytes.Buffer
		wr := transform.NewWriter(&buf, mk())
		_, e1 := wr.Write(src)
		e2 := wr.Close()
		if (e1 != nil || e2 != nil) != (werr != nil) || (e1 == nil && e2 == nil && !bytes.Equal(buf.Bytes(), want)) {
			c.res.Violate("C08.entry-points-disagree:"+name, fmt.Sprintf("%s behind transform.NewWriter on %s gives %s (err=%v/%v), in one piece %s (err=%v)", name, hx(src), hx(buf.Bytes()), e1, e2, hx(want), werr), []string{op})
			return
		}
	}
	// fed in pieces, the way x/text feeds any Transformer: transform.String cuts its input every 128 octets,
	// a Reader transforms whatever one Read of the source delivered, a Writer transforms every Write as it comes
	if len(src) > 0 && len(src) <= 3000 {
		got, _, err := transform.String(mk(), string(src))
		c.res.Eval(fmt.Sprintf("string/%s/%s", name, hx(src[:min(len(src), 40)])), true)
		if (err != nil) != (werr != nil) || (err == nil && got != string(want)) {
			c.res.Violate("C08.entry-points-disagree:"+name+"-chunked", fmt.Sprintf("%s through transform.String on %d octets gives %s (err=%v), in one piece %s (err=%v)", name, len(src), hx([]byte(got)[:min(len(got), 60)]), err, hx(want[:min(len(want), 60)]), werr), []string{op})
			return
		}
		for _, chunk := range []int{1, 3, 7} {
			if len(src) > 600 && chunk == 1 {
				continue
			}
			got, err := io.ReadAll(transform.NewReader(&chunkReader{data: src, n: chunk}, mk()))
			if (err != nil) != (werr != nil) || (err == nil && !bytes.Equal(got, want)) {
				c.res.Violate("C08.entry-points-disagree:"+name+"-chunked", fmt.Sprintf("%s behind transform.NewReader, source delivered %d octets at a time, on %s gives %s (err=%v), in one piece %s (err=%v)", name, chunk, hx(src[:min(len(src), 40)]), hx(got[:min(len(got), 60)]), err, hx(want[:min(len(want), 60)]), werr), []string{op})
				return
			}
		}
		for _, cut := range []int{1, len(src) / 2, len(src) - 1} {
			if cut <= 0 || cut >= len(src) {
				continue
			}
			var buf bytes.Buffer
			wr := transform.NewWriter(&buf, mk())
			_, e1 := wr.Write(src[:cut])
			_, e2 := wr.Write(src[cut:])
			e3 := wr.Close()
			bad := e1 != nil || e2 != nil || e3 != nil
			if bad != (werr != nil) || (!bad && !bytes.Equal(buf.Bytes(), want)) {
				c.res.Violate("C08.entry-points-disagree:"+name+"-chunked", fmt.Sprintf("%s behind transform.NewWriter, written as %d + %d octets, on %s gives %s (err=%v/%v/%v), in one piece %s (err=%v)", name, cut, len(src)-cut, hx(src[:min(len(src), 40)]), hx(buf.Bytes()[:min(buf.Len(), 60)]), e1, e2, e3, hx(want[:min(len(want), 60)]), werr), []string{op})
				return
			}
		}
	}
	for _, k := range []int{0, 1, 2, len(src) / 2, len(src) - 1, len(src), len(src) + 1} {
		if k < 0 {
			continue
		}
		got, err, pn := driveTiny(mk(), src, k)
		c.res.Eval(fmt.Sprintf("tiny/%s/%d/%s", name, k, hx(src)), true)
		if pn || (err != nil) != (werr != nil) || (err == nil && !bytes.Equal(got, want)) {
			c.res.Violate("C08.entry-points-disagree:"+name, fmt.Sprintf("%s driven with a %d-octet destination on %s gives %s (err=%v panic=%v), in one piece %s (err=%v)", name, k, hx(src), hx(got), err, pn, hx(want), werr), []string{op})
			return
		}
	}
}

// packedEncoderBytes runs the packed stream transformer on the text that encodes to exactly these septets.
func packedEncoderBytes(s []byte) ([]byte, error) {
	text, err := gsm.Decode(s)
	if err != nil {
		return nil, err
	}
	if len(text) == 0 {
		return nil, fmt.Errorf("empty")
	}
	out, _, err := transform.Bytes(gsm.GSM7(true).NewEncoder(), text)
	return out, err
}

// packedDecoderSeptets: what the packed stream decoder unpacks, re-encoded to septets.
func packedDecoderSeptets(packed []byte) ([]byte, error) {
	if len(packed) == 0 {
		return nil, fmt.Errorf("empty")
	}
	out, _, err := transform.Bytes(gsm.GSM7(true).NewDecoder(), packed)
	if err != nil {
		return nil, err
	}
	return gsm.Encode(string(out))
}

func runC08(res *Result, d *Driver, g *Rng, tier string) {
	res.Rule = "alphabet: every code point (quick: 0..0x2FFF, all of TS 23.038's characters, surrogate/astral samples; thorough: all 1,114,112) and all 256x256 septet pairs; packing: all septet sequences of length 0..2 (thorough 0..3), all sequences up to length 5 (thorough 8) over {00,01,0d,1b,3f,40,7f}, the three septets around every block boundary for lengths 1..40, random sequences to 2000, one-bit wiring for every bit of every length 0..64; the four stream transformers behind transform.NewReader / NewWriter / transform.String, whole and fed in pieces (source delivered 1, 3, 7 octets at a time, two writes), and driven by hand through destination buffers of 0, 1, 2, n/2, n-1, n, n+1 octets; non-trivial = distinct non-empty input"
	thorough := tier == "thorough"
	c := &c08ctx{res: res}
	// --- alphabet, forward ---
	maxCp := 0x3000
	if thorough {
		maxCp = 0x110000
	}
	cps := []int{}
	for r := 0; r < maxCp; r++ {
		cps = append(cps, r)
	}
	if !thorough {
		cps = append(cps, 0xD7FF, 0xE000, 0xFFFD, 0xFFFF, 0x10000, 0x1F600, 0x10FFFF)
	}
	accepted := 0
	for _, r := range cps {
		if r >= 0xD800 && r < 0xE000 {
			continue
		}
		s := string(rune(r))
		if !utf8.ValidString(s) {
			continue
		}
		want := specEncodeRune(rune(r))
		op := "gsm enc " + strconv.Itoa(r)
		var out string
		if thorough && r >= 0x3000 && r != 0x20AC {
			out = goGsm([]string{"enc", strconv.Itoa(r)}) // the driver sees the BMP head and the table characters
		} else {
			out = c.line(op)
		}
		res.Eval(op, want != nil)
		if want == nil {
			if out != "err" {
				res.Violate("C08.alphabet-accepts-foreign", fmt.Sprintf("U+%04X is not in TS 23.038 but encodes to %s", r, out), []string{op})
			}
			if gsm.IsValidGSM7String(s) || len(gsm.ValidateGSM7String(s)) != 1 || datacoding.CanEncodeByGSM7(s) {
				res.Violate("C08.validators-disagree", fmt.Sprintf("validators accept U+%04X which the encoder refuses", r), []string{"gsm valid " + strconv.Itoa(r)})
			}
			continue
		}
		accepted++
		if out != hx(want) {
			res.Violate("C08.alphabet-ne-spec", fmt.Sprintf("U+%04X encodes to %s, TS 23.038 says %s", r, out, hx(want)), []string{op})
			continue
		}
		if !gsm.IsValidGSM7String(s) || len(gsm.ValidateGSM7String(s)) != 0 || !datacoding.CanEncodeByGSM7(s) {
			res.Violate("C08.validators-disagree", fmt.Sprintf("validators refuse U+%04X which the encoder accepts", r), []string{"gsm valid " + strconv.Itoa(r)})
		}
		dop := "gsm dec " + hx(want)
		if back := c.line(dop); back != strconv.Itoa(r) {
			res.Violate("C08.alphabet-not-inverse", fmt.Sprintf("U+%04X → %s → %s", r, hx(want), back), []string{op, dop})
		}
		// stream transformer (unpacked) agrees
		if alt, _, err := transform.Bytes(gsm.GSM7(false).NewEncoder(), []byte(s)); err != nil || !bytes.Equal(alt, want) {
			res.Violate("C08.entry-points-disagree:encode", fmt.Sprintf("unpacked stream encoder on U+%04X: %s err=%v", r, hx(alt), err), []string{op})
		}
	}
	res.Count(fmt.Sprintf("alphabet:accepted=%d", accepted))
	if accepted != 137 {
		res.Violate("C08.alphabet-size", fmt.Sprintf("%d code points accepted, TS 23.038 has 127+10", accepted), nil)
	}
	// --- alphabet, reverse: all (first, second) pairs ---
	for a := 0; a < 256; a++ {
		for b := 0; b < 256; b++ {
			in := []byte{byte(a), byte(b)}
			// expected per specification
			exp := "err"
			if a == 0x1B {
				if r, ok := specExt[byte(b)]; ok {
					exp = strconv.Itoa(int(r))
				}
			} else if a < 128 && b < 128 && b != 0x1B {
				exp = strconv.Itoa(int(specDefault[a])) + "," + strconv.Itoa(int(specDefault[b]))
			}
			op := "gsm dec " + hx(in)
			var out string
			if !thorough && (a >= 0x90 || b >= 0x90) && (a+b)%7 != 0 {
				out = goGsm([]string{"dec", hx(in)})
			} else {
				out = c.line(op)
			}
			res.Eval(op, exp != "err")
			if out != exp {
				res.Violate("C08.decode-ne-spec", fmt.Sprintf("septets %s decode to %s, specification: %s", hx(in), out, exp), []string{op})
			}
			bad := gsm.ValidateGSM7Buffer(in)
			if (exp == "err") == (len(bad) == 0) {
				res.Violate("C08.validators-disagree", fmt.Sprintf("ValidateGSM7Buffer(%s)=%s but decode says %s", hx(in), hx(bad), out), []string{"gsm badbytes " + hx(in)})
			}
			if alt, _, err := transform.Bytes(gsm.GSM7(false).NewDecoder(), in); (err != nil) != (exp == "err") || (err == nil && cpsOf(string(alt)) != exp) {
				res.Violate("C08.entry-points-disagree:decode", fmt.Sprintf("unpacked stream decoder on %s: %q err=%v", hx(in), alt, err), []string{op})
			}
		}
	}
	for _, single := range []byte{0x1B, 0x80, 0xFF, 0x00, 0x7F} {
		op := "gsm dec " + hx([]byte{single})
		out := c.line(op)
		exp := "err"
		if single < 128 && single != 0x1B {
			exp = strconv.Itoa(int(specDefault[single]))
		}
		if out != exp {
			res.Violate("C08.decode-ne-spec", fmt.Sprintf("septet %02x decodes to %s", single, out), []string{op})
		}
	}
	// --- packing ---
	c.checkPack(nil, true)
	maxLen := 2
	if thorough {
		maxLen = 3
	}
	var rec func(prefix []byte, depth int)
	cnt := 0
	rec = func(prefix []byte, depth int) {
		if depth == 0 {
			cnt++
			c.checkPack(append([]byte(nil), prefix...), len(prefix) <= 2 || cnt%97 == 0)
			return
		}
		for v := 0; v < 128; v++ {
			rec(append(prefix, byte(v)), depth-1)
		}
	}
	for l := 1; l <= maxLen; l++ {
		rec(nil, l)
	}
	alpha := []byte{0x00, 0x01, 0x0d, 0x1b, 0x3f, 0x40, 0x7f}
	maxA := 5
	if thorough {
		maxA = 8
	}
	var recA func(prefix []byte, depth int)
	recA = func(prefix []byte, depth int) {
		if depth == 0 {
			cnt++
			c.checkPack(append([]byte(nil), prefix...), cnt%13 == 0)
			return
		}
		for _, v := range alpha {
			recA(append(prefix, v), depth-1)
		}
	}
	for l := 3; l <= maxA; l++ {
		recA(nil, l)
	}
	if !thorough { // lengths 6..9 sampled, always including the boundary positions
		for i := 0; i < 4000; i++ {
			l := 6 + g.Intn(12)
			s := make([]byte, l)
			for j := range s {
				s[j] = alpha[g.Intn(len(alpha))]
			}
			c.checkPack(s, i%5 == 0)
		}
	}
	// three septets around every block boundary, lengths 1..40
	for l := 1; l <= 40; l++ {
		for bnd := 8; bnd-1 < l+1; bnd += 8 {
			for _, x := range alpha {
				for _, y := range alpha {
					for _, z := range alpha {
						s := g.Bytes(l)
						for j := range s {
							s[j] &= 0x7F
						}
						for k, v := range []byte{x, y, z} {
							if p := bnd - 2 + k; p >= 0 && p < l {
								s[p] = v
							}
						}
						c.checkPack(s, (int(x)+int(y)+int(z)+l)%11 == 0)
					}
				}
			}
		}
	}
	// random long sequences
	nr := 300
	if thorough {
		nr = 20000
	}
	for i := 0; i < nr; i++ {
		l := g.Intn(2001)
		if i%3 == 0 {
			l = g.Intn(170)
		}
		s := g.Bytes(l)
		for j := range s {
			s[j] &= 0x7F
			if g.Intn(9) == 0 {
				s[j] = alpha[g.Intn(len(alpha))]
			}
		}
		c.checkPack(s, i%4 == 0)
	}
	// single-bit wiring: exactly one bit set, every bit of every length 0..64
	for l := 1; l <= 64; l++ {
		for i := 0; i < l; i++ {
			for b := 0; b < 7; b++ {
				s := make([]byte, l)
				s[i] = 1 << uint(b)
				packed := gsm.Pack(s)
				res.Eval(fmt.Sprintf("bit/%d/%d/%d", l, i, b), true)
				bit := 7*i + b
				ok := len(packed) == (7*l+7)/8
				for k := range packed {
					w := byte(0)
					if k == bit/8 {
						w = 1 << uint(bit%8)
					}
					if (7*l)%8 == 1 && k == len(packed)-1 {
						w |= 0x0D << 1
					}
					if ok && packed[k] != w {
						ok = false
					}
				}
				if !ok {
					res.Violate("C08.pack-ne-spec", fmt.Sprintf("bit %d of septet %d (length %d) is not at stream bit %d: %s", b, i, l, bit, hx(packed)), []string{"gsm pack " + hx(s)})
				}
			}
		}
	}
	// texts through the datacoding wrappers
	for i := 0; i < 400; i++ {
		var sb strings.Builder
		l := g.Intn(40)
		for j := 0; j < l; j++ {
			v := g.Intn(128)
			if v == 0x1B {
				sb.WriteRune(specExt[[]byte{0x0A, 0x14, 0x28, 0x29, 0x2F, 0x3C, 0x3D, 0x3E, 0x40, 0x65}[g.Intn(10)]])
			} else {
				sb.WriteRune(specDefault[v])
			}
		}
		text := sb.String()
		septets, _ := gsm.Encode(text)
		if u, err := datacoding.GSM7Unpacked(text).Encode(); len(text) > 0 && (err != nil || !bytes.Equal(u, septets)) {
			res.Violate("C08.entry-points-disagree:encode", "GSM7Unpacked.Encode differs from Encode", []string{"gsm enc " + cpsOf(text)})
		}
		if p, err := datacoding.GSM7Packed(text).Encode(); err != nil || !bytes.Equal(p, gsm.Pack(septets)) {
			res.Violate("C08.entry-points-disagree:pack", "GSM7Packed.Encode differs from Pack(Encode)", []string{"gsm enc " + cpsOf(text)})
		}
		res.Eval("wrap/"+text, l > 0)
		c.line("gsm enc " + cpsOf(text))
		c.line("gsm badchars " + cpsOf(text+"中"))
	}
	for i := 0; i < len(c.ops) && len(res.Samples) < 6; i += len(c.ops)/5 + 1 {
		res.Sample(c.ops[i] + "  =>  " + c.goOut[i])
	}
	res.Compare(d, "GSM 7-bit model vs gsm7encoding", c.ops, c.goOut)
	if thorough {
		res.Exhaustive = true
	}
}
