package main

// C18 — delivery-receipt extraction (SMPP and SMGP text receipts; the CMPP binary body is a C01 instance).

import (
	"bytes"
	"encoding/hex"
	"fmt"
	"strings"

	"github.com/hujm2023/go-sms-protocol/smgp/smgp30"
	"github.com/hujm2023/go-sms-protocol/smpp/smpp34"
)

func init() {
	runners["C18"] = runC18
	replayers["C18"] = replayC18
}

var receiptKeys = []string{"id", "sub", "dlvrd", "submit date", "done date", "stat", "err", "text"}
var smgpAlt = map[string]string{"sub": "Sub", "dlvrd": "Dlvrd", "submit date": "Submit_Date", "done date": "Done_Date", "stat": "Stat", "err": "Err", "text": "Text"}
var smgpWidth = map[string]int{"sub": 3, "dlvrd": 3, "submit date": 10, "done date": 10, "stat": 7, "err": 3, "text": 20}

func goReceipt(kind string, s []byte) string {
	var out string
	o := Guard(func() {
		if kind == "smpp" {
			d, _ := smpp34.ExtractDeliveryReceipt(string(s))
			fs := []string{d.ID, d.Sub, d.Dlvrd, d.SubDate, d.DoneDate, d.Stat, d.Err, d.Text}
			ps := make([]string, len(fs))
			for i, f := range fs {
				ps[i] = hx([]byte(f))
			}
			out = strings.Join(ps, "|")
		} else {
			d, _ := smgp30.ExtractDeliveryReceipt(string(s))
			fs := []string{d.ID, d.Sub, d.Dlvrd, d.SubDate, d.DoneDate, d.Stat, d.Err, d.Text}
			ps := make([]string, len(fs))
			for i, f := range fs {
				ps[i] = hx([]byte(f))
			}
			out = strings.Join(ps, "|")
		}
	})
	if o.Panic != "" {
		return "panic"
	}
	return out
}

func replayC18(lines []string) []string {
	var out []string
	for _, l := range lines {
		f := strings.Fields(l)
		if len(f) == 3 && f[0] == "receipt" {
			out = append(out, goReceipt(f[1], unhx(f[2])))
		} else {
			out = append(out, "bad-op")
		}
	}
	return out
}

func tokenFree(v []byte) bool {
	if bytes.IndexByte(v, ' ') >= 0 {
		return false
	}
	for _, k := range receiptKeys {
		if bytes.Contains(v, []byte(k+":")) || (smgpAlt[k] != "" && bytes.Contains(v, []byte(smgpAlt[k]+":"))) {
			return false
		}
	}
	return true
}

func genValue(g *Rng, long bool) []byte {
	for {
		n := g.Pick([]int{0, 1, 3, 7, 10, 12})
		if long {
			n = g.Pick([]int{11, 21, 25, 40})
		}
		alpha := "0123456789ABCDEFabcdefXYZ:_-+.@/"
		v := make([]byte, n)
		for i := range v {
			v[i] = alpha[g.Intn(len(alpha))]
		}
		if g.Intn(8) == 0 && n > 3 { // near-miss key fragments
			frag := g.Pick([]int{0, 1, 2})
			copy(v, []string{"sub", "Sub", "id"}[frag])
		}
		switch g.Intn(8) {
		case 0: // octets that are not UTF-8 (GBK text, binary ids)
			for i := range v {
				if g.Bool() {
					v[i] = byte(0x80 + g.Intn(0x80))
				}
			}
		case 1: // runes whose case mappings change their UTF-8 width, and other multi-octet runes
			v = append(v[:len(v)/2], []byte([]string{"\u212a", "\u0130", "\u1e9e", "\u0416", "\u77ed\u4fe1", "\u00df"}[g.Intn(6)])...)
		case 2: // the key words in another case: keys are matched exactly, so these are ordinary value text
			if n > 4 {
				v = append(v[:1], []byte([]string{"ID:", "STAT:", "ERR:", "TEXT:", "Id:", "SUB:"}[g.Intn(6)])...)
			}
		}
		if tokenFree(v) {
			return v
		}
	}
}

func permute(g *Rng, n int) []int {
	p := make([]int, n)
	for i := range p {
		p[i] = i
	}
	for i := n - 1; i > 0; i-- {
		j := g.Intn(i + 1)
		p[i], p[j] = p[j], p[i]
	}
	return p
}

func allPerms(n int) [][]int {
	var res [][]int
	var rec func(cur []int, used int)
	rec = func(cur []int, used int) {
		if len(cur) == n {
			res = append(res, append([]int(nil), cur...))
			return
		}
		for i := 0; i < n; i++ {
			if used&(1<<uint(i)) == 0 {
				rec(append(cur, i), used|1<<uint(i))
			}
		}
	}
	rec(nil, 0)
	return res
}

func runC18(res *Result, d *Driver, g *Rng, tier string) {
	res.Rule = "receipts built from the eight standard keys in every order (all 8! = 40320 for three value sets; quick: all orders of one value set sampled 1/7 plus 2000 random) and every subset (2^8), values = space-free strings without key tokens incl. values longer than the field width, near-miss fragments, non-UTF-8 octets, runes whose case mapping changes their UTF-8 width, key words in another case; SMPP and SMGP with both SMGP spellings; SMGP id = any ten octets (spaces, NULs, 0xff) not spelling a key token; the CMPP status-report body: 300 (thorough 6000) structure-directed records round-tripped; non-trivial = distinct receipt text"
	thorough := tier == "thorough"
	var ops, goOut []string
	check := func(kind string, order []int, present uint, vals [][]byte, alt bool, viaModel bool) {
		var sb bytes.Buffer
		want := make([][]byte, 8)
		first := true
		for _, ki := range order {
			if present&(1<<uint(ki)) == 0 {
				continue
			}
			if !first {
				sb.WriteByte(' ')
			}
			first = false
			k := receiptKeys[ki]
			if kind == "smgp" && alt && ki != 0 {
				k = smgpAlt[k]
			}
			sb.WriteString(k + ":")
			sb.Write(vals[ki])
			want[ki] = vals[ki]
			if kind == "smgp" {
				if ki == 0 {
					want[ki] = []byte(hex.EncodeToString(vals[ki]))
				} else if w := smgpWidth[receiptKeys[ki]]; len(vals[ki]) > w {
					want[ki] = vals[ki][:w]
				}
			}
		}
		s := sb.Bytes()
		op := "receipt " + kind + " " + hx(s)
		out := goReceipt(kind, s)
		res.Eval(op, present != 0)
		if viaModel {
			ops, goOut = append(ops, op), append(goOut, out)
		}
		if out == "panic" {
			res.Violate("C18.extract-panics:"+kind, "ExtractDeliveryReceipt panics", []string{op})
			return
		}
		got := strings.Split(out, "|")
		for ki := range receiptKeys {
			w := hx(want[ki])
			if got[ki] != w {
				sp := ""
				if alt {
					sp = "-alt"
				}
				res.Violate("C18.wrong-field:"+kind+sp+":"+receiptKeys[ki], fmt.Sprintf("field %q extracted as %q, expected %q from %q", receiptKeys[ki], string(unhx(got[ki])), string(want[ki]), string(s)), []string{op})
				return
			}
		}
	}
	mkVals := func(kind string, long bool) [][]byte {
		vals := make([][]byte, 8)
		for i := range vals {
			vals[i] = genValue(g, long && g.Bool())
		}
		if kind == "smgp" {
			for {
				id := g.Bytes(10)
				switch g.Intn(4) {
				case 0:
					id[g.Intn(10)] = ' '
				case 1:
					id[g.Intn(10)] = 0
				case 2:
					id[9] = 0
				}
				ok := true
				for _, k := range receiptKeys {
					if bytes.Contains(id, []byte(k+":")) || bytes.Contains(id, []byte(smgpAlt[k]+":")) {
						ok = false
					}
				}
				if ok {
					vals[0] = id
					break
				}
			}
		}
		return vals
	}
	perms := allPerms(8)
	for _, kind := range []string{"smpp", "smgp"} {
		for _, alt := range []bool{false, true} {
			if kind == "smpp" && alt {
				continue
			}
			nsets := 1
			if thorough {
				nsets = 3
			}
			for vs := 0; vs < nsets; vs++ {
				vals := mkVals(kind, vs > 0)
				for pi, p := range perms {
					if !thorough && pi%7 != 0 {
						continue
					}
					check(kind, p, 0xff, vals, alt, pi%211 == 0)
				}
			}
			// all subsets, in standard and in random order
			for sub := uint(0); sub < 256; sub++ {
				vals := mkVals(kind, sub%5 == 0)
				check(kind, []int{0, 1, 2, 3, 4, 5, 6, 7}, sub, vals, alt, true)
				check(kind, permute(g, 8), sub, vals, alt, sub%3 == 0)
			}
			n := 2000
			if thorough {
				n = 60000
			}
			for i := 0; i < n; i++ {
				check(kind, permute(g, 8), uint(g.Intn(256)), mkVals(kind, i%3 == 0), alt, i%10 == 0)
			}
		}
	}
	// degenerate texts (C03 overlap): must not panic
	for _, s := range []string{"", "Sub", "sub:", "id:", "id:123", "Sub:", "Text", "err: ", ":", "id:0123456789", "Submit_Date"} {
		for _, kind := range []string{"smpp", "smgp"} {
			op := "receipt " + kind + " " + hx([]byte(s))
			out := goReceipt(kind, []byte(s))
			res.Eval(op, true)
			ops, goOut = append(ops, op), append(goOut, out)
			if out == "panic" {
				res.Violate("C18.extract-panics:"+kind, fmt.Sprintf("ExtractDeliveryReceipt(%q) panics", s), []string{op})
			}
		}
	}
	res.Sample(string(unhx(strings.Fields(ops[0])[2])) + "  =>  " + goOut[0])
	res.Sample(ops[len(ops)-1] + "  =>  " + goOut[len(ops)-1])
	// the CMPP binary status-report body: encoder and decoder are inverse (the records and the predicate of C01, on
	// this one type; the images are looked at again when the run is over)
	if err := loadLayouts(layoutsPath); err == nil {
		if s := shapes["cmpp.SubPduDeliveryContent"]; s != nil {
			n := 300
			if thorough {
				n = 6000
			}
			for i := 0; i < n; i++ {
				before := len(ops)
				c01RoundTrip(res, "cmpp.SubPduDeliveryContent", s, genFit(g, s, thorough), &ops, &goOut)
				res.Eval(ops[before], strings.HasPrefix(goOut[before], "ok"))
			}
			// C01's classes are reported here under C18
			for i := range res.Violations {
				if strings.HasPrefix(res.Violations[i].Class, "C01.") {
					res.Violations[i].Class = "C18.report-body-" + strings.TrimPrefix(res.Violations[i].Class, "C01.")
				}
			}
		}
	}
	res.Compare(d, "receipt extraction model vs ExtractDeliveryReceipt", ops, goOut)
}
