package main

// C04 — stream framing under any arrival pattern, for both codecs (CMPP and SMPP; they share the
// 4-octet big-endian total-length prefix).

import (
	"bytes"
	"encoding/binary"
	"errors"
	"fmt"
	"io"
	"strings"
	"sync"

	smscodec "github.com/hujm2023/go-sms-protocol/codec"
)

func init() {
	runners["C04"] = runC04
	replayers["C04"] = replayC04
}

// fakeConn implements codec.ConnReader exactly as documented: Peek does not advance, Discard
// advances, Size is what is buffered, Read drains the buffer then follows the stream plan.
type fakeConn struct {
	buf      []byte // arrived, unread
	future   []byte // for blocking reads: not yet arrived
	maxRead  int    // a Read returns at most this many octets
	endErr   error  // what a read at the end of the stream returns (io.EOF or a failure)
	consumed int
}

func (c *fakeConn) Peek(n int) ([]byte, error) {
	if n > len(c.buf) {
		return c.buf, errors.New("short peek")
	}
	return c.buf[:n], nil
}
func (c *fakeConn) Discard(n int) (int, error) {
	if n > len(c.buf) {
		n = len(c.buf)
		c.buf = nil
		c.consumed += n
		return n, errors.New("short discard")
	}
	c.buf = c.buf[n:]
	c.consumed += n
	return n, nil
}
func (c *fakeConn) Size() int { return len(c.buf) }
func (c *fakeConn) Read(p []byte) (int, error) {
	if len(c.buf) == 0 && len(c.future) > 0 {
		k := c.maxRead
		if k <= 0 || k > len(c.future) {
			k = len(c.future)
		}
		c.buf, c.future = c.future[:k], c.future[k:]
	}
	if len(c.buf) == 0 {
		return 0, c.endErr
	}
	n := copy(p, c.buf)
	c.buf = c.buf[n:]
	c.consumed += n
	return n, nil
}

var codecs = map[string]smscodec.Codec{"cmpp": smscodec.NewCMPPCodec(), "smpp": smscodec.NewSMPPCodec()}

// goRun feeds chunks and extracts after every arrival until the extractor stops returning frames.
func goRun(cd smscodec.Codec, chunks [][]byte) (delivered [][]byte, buffered int, closed bool, note string) {
	c := &fakeConn{}
	for _, ch := range chunks {
		if closed {
			break
		}
		c.buf = append(append([]byte(nil), c.buf...), ch...)
		for guard := 0; ; guard++ {
			before := len(c.buf)
			var f []byte
			var err error
			o := Guard(func() { f, err = cd.Decode(c) })
			if o.Panic != "" {
				return delivered, len(c.buf), true, "panic: " + o.Panic
			}
			if err != nil {
				if !errors.Is(err, smscodec.ErrPacketNotComplete) {
					closed = true
				} else if len(c.buf) != before {
					note = "incomplete consumed input"
				}
				break
			}
			if len(c.buf) == before || guard > len(ch)+before+4 {
				return delivered, len(c.buf), true, fmt.Sprintf("a frame of %d octets was returned without consuming input", len(f))
			}
			delivered = append(delivered, append([]byte(nil), f...))
		}
	}
	return delivered, len(c.buf), closed, note
}

func renderRun(delivered [][]byte, buffered int, closed bool) string {
	ps := make([]string, len(delivered))
	for i, f := range delivered {
		ps[i] = hx(f)
	}
	return fmt.Sprintf("delivered=%s buffered=%d closed=%v", strings.Join(ps, ","), buffered, closed)
}

func goBlocked(cd smscodec.Codec, data []byte, fail bool, maxRead int) (string, []byte, int) {
	c := &fakeConn{future: append([]byte(nil), data...), maxRead: maxRead, endErr: io.EOF}
	if fail {
		c.endErr = errors.New("connection reset")
	}
	var f []byte
	var err error
	o := GuardDeadline(decodeDeadline, func() { f, err = cd.DecodeBlocked(c) })
	switch {
	case o.Hang:
		return "hang", nil, c.consumed
	case o.Panic != "":
		return "panic", nil, c.consumed
	case err != nil:
		kind := "readerr"
		switch {
		case errors.Is(err, io.ErrUnexpectedEOF):
			kind = "ueof"
		case errors.Is(err, io.EOF):
			kind = "eof"
		case !fail || strings.Contains(err.Error(), "length"):
			kind = "badprefix"
		}
		if fail && !errors.Is(err, io.EOF) && !errors.Is(err, io.ErrUnexpectedEOF) && strings.Contains(err.Error(), "reset") {
			kind = "readerr"
		}
		return "err " + kind, nil, c.consumed
	}
	return fmt.Sprintf("ok %s consumed=%d", hx(f), c.consumed), f, c.consumed
}

func mkFrame(g *Rng, n int) []byte {
	f := g.Bytes(n)
	binary.BigEndian.PutUint32(f, uint32(n))
	// bodies that look like length prefixes
	if n >= 12 && g.Bool() {
		binary.BigEndian.PutUint32(f[4:], uint32(g.Pick([]int{0, 1, 4, 8, n, 1 << 20})))
	}
	return f
}

// turnTaker lets two goroutines take strict turns: every Read of one connection is followed by a Read of the
// other (as long as the other still reads), whatever the Go scheduler does
type turnTaker struct {
	mu   sync.Mutex
	cond *sync.Cond
	turn int
	done [2]bool
}

func (t *turnTaker) enter(i int) {
	t.mu.Lock()
	for t.turn != i && !t.done[1-i] {
		t.cond.Wait()
	}
	t.mu.Unlock()
}

func (t *turnTaker) leave(i int) {
	t.mu.Lock()
	if !t.done[1-i] {
		t.turn = 1 - i
	}
	t.cond.Broadcast()
	t.mu.Unlock()
}

func (t *turnTaker) finish(i int) {
	t.mu.Lock()
	t.done[i] = true
	t.turn = 1 - i
	t.cond.Broadcast()
	t.mu.Unlock()
}

type turnConn struct {
	fakeConn
	t  *turnTaker
	id int
}

func (c *turnConn) Read(p []byte) (int, error) {
	c.t.enter(c.id)
	defer c.t.leave(c.id)
	return c.fakeConn.Read(p)
}

func renderBlockedAll(rs []string) string { return strings.Join(rs, ";") }

// blockedAllAlone drains one stream with repeated DecodeBlocked, no other connection in sight
func blockedAllAlone(cd smscodec.Codec, data []byte) string {
	c := &fakeConn{future: append([]byte(nil), data...), maxRead: 0, endErr: io.EOF}
	var rs []string
	for k := 0; k < 64; k++ {
		var f []byte
		var err error
		o := GuardDeadline(decodeDeadline, func() { f, err = cd.DecodeBlocked(c) })
		if o.Hang || o.Panic != "" {
			rs = append(rs, "panic")
			break
		}
		if err != nil {
			kind := "badprefix"
			switch {
			case errors.Is(err, io.ErrUnexpectedEOF):
				kind = "ueof"
			case errors.Is(err, io.EOF):
				kind = "eof"
			}
			rs = append(rs, "err "+kind)
			break
		}
		rs = append(rs, "ok "+hx(f))
	}
	return renderBlockedAll(rs)
}

// goPair serves two connections with ONE codec value, their reads strictly alternating, each connection drained by
// repeated DecodeBlocked until the first error; the rendering is that of the two streams served alone
func goPair(cd smscodec.Codec, a, b []byte, mrA, mrB, start int) string {
	t := &turnTaker{turn: start}
	t.cond = sync.NewCond(&t.mu)
	conns := [2]*turnConn{
		{fakeConn: fakeConn{future: append([]byte(nil), a...), maxRead: mrA, endErr: io.EOF}, t: t, id: 0},
		{fakeConn: fakeConn{future: append([]byte(nil), b...), maxRead: mrB, endErr: io.EOF}, t: t, id: 1},
	}
	var out [2][]string
	o := GuardDeadline(decodeDeadline, func() {
		var wg sync.WaitGroup
		for i := 0; i < 2; i++ {
			wg.Add(1)
			go func(i int) {
				defer wg.Done()
				defer t.finish(i)
				defer func() {
					if r := recover(); r != nil {
						out[i] = append(out[i], "panic")
					}
				}()
				for k := 0; k < 64; k++ {
					f, err := cd.DecodeBlocked(conns[i])
					if err != nil {
						kind := "badprefix"
						switch {
						case errors.Is(err, io.ErrUnexpectedEOF):
							kind = "ueof"
						case errors.Is(err, io.EOF):
							kind = "eof"
						}
						out[i] = append(out[i], "err "+kind)
						return
					}
					out[i] = append(out[i], "ok "+hx(f))
				}
			}(i)
		}
		wg.Wait()
	})
	if o.Hang {
		return "hang"
	}
	return "A=" + renderBlockedAll(out[0]) + " B=" + renderBlockedAll(out[1])
}

func runC04(res *Result, d *Driver, g *Rng, tier string) {
	res.Rule = "streams of 1..6 frames (lengths 4..64 KiB, bodies containing prefix-like octets) plus an incomplete tail, cut into arrival chunks: every single cut position and (for streams <= 24 octets) every pair of cuts exhaustively, random multi-cut otherwise, one octet at a time; blocking extractor: every truncation point, read error at every offset, reads of 1..n octets; malformed prefixes 0..3 and declared lengths up to 2^32-1 with only a few octets arrived, for both extractors and both codecs; two connections behind one codec value with strictly alternating reads of 1..5 octets (prefixes differing in every octet position); non-trivial = distinct (stream, chunking)"
	thorough := tier == "thorough"
	var ops, goOut []string
	check := func(cname string, stream []byte, frames [][]byte, tailLen int, cuts []int, viaModel bool) {
		var chunks [][]byte
		prev := 0
		for _, c := range cuts {
			chunks = append(chunks, stream[prev:c])
			prev = c
		}
		chunks = append(chunks, stream[prev:])
		parts := make([]string, len(chunks))
		for i, c := range chunks {
			parts[i] = hx(c)
		}
		op := "frame run " + strings.Join(parts, ",")
		res.Eval(cname+"/"+op, true)
		del, buffered, closed, note := goRun(codecs[cname], chunks)
		if viaModel {
			ops, goOut = append(ops, op), append(goOut, renderRun(del, buffered, closed))
		}
		rep := []string{"codec " + cname, op}
		if note != "" {
			res.Violate("C04.extractor-misbehaves:"+cname, note, rep)
			return
		}
		ok := len(del) == len(frames) && buffered == tailLen && !closed
		for i := 0; ok && i < len(frames); i++ {
			ok = bytes.Equal(del[i], frames[i])
		}
		if !ok {
			res.Violate("C04.frames-not-exact:"+cname, fmt.Sprintf("%d frames sent, %d delivered, %d octets left buffered (tail %d), closed=%v", len(frames), len(del), buffered, tailLen, closed), rep)
		}
	}
	// a ladder of frame lengths: every length 4..80 and every length within 5 of a power of two up to 2^16
	// (where an implementation's staging buffers change size), each followed by a short frame, through both extractors
	{
		var ladder []int
		for n := 4; n <= 80; n++ {
			ladder = append(ladder, n)
		}
		for k := 7; k <= 16; k++ {
			for dl := -5; dl <= 5; dl++ {
				ladder = append(ladder, (1<<k)+dl)
			}
		}
		for li, n := range ladder {
			for _, cname := range []string{"cmpp", "smpp"} {
				f1, f2 := mkFrame(g, n), mkFrame(g, 12)
				frames := [][]byte{f1, f2}
				stream := append(append([]byte(nil), f1...), f2...)
				for _, mr := range []int{0, 5} {
					c := &fakeConn{future: append([]byte(nil), stream...), maxRead: mr, endErr: io.EOF}
					for i, f := range frames {
						got, err := codecs[cname].DecodeBlocked(c)
						res.Eval(fmt.Sprintf("ladder/%d/%d/%d", n, mr, i), true)
						if err != nil || !bytes.Equal(got, f) {
							res.Violate("C04.blocked-frames-not-exact:"+cname, fmt.Sprintf("frame %d of 2 (declared lengths %d, 12): err=%v, %d octets returned", i+1, n, err, len(got)), []string{"codec " + cname, "frame blocked " + hx(stream) + " 0"})
							break
						}
					}
				}
				check(cname, stream, frames, 0, []int{n / 2, n + 3}, n <= 80 && li%4 == 0)
			}
		}
	}
	nstreams := 60
	if thorough {
		nstreams = 1500
	}
	for it := 0; it < nstreams; it++ {
		cname := []string{"cmpp", "smpp"}[it%2]
		nf := 1 + g.Intn(6)
		var frames [][]byte
		var stream []byte
		for i := 0; i < nf; i++ {
			n := g.Pick([]int{4, 5, 8, 12, 16, 20, 33})
			if it%10 == 9 {
				n = g.Pick([]int{4, 300, 4096, 65535})
			}
			if it < 8 {
				n = g.Pick([]int{4, 5, 6, 8})
			}
			f := mkFrame(g, n)
			frames = append(frames, f)
			stream = append(stream, f...)
		}
		// an incomplete tail: a proper prefix of another frame
		tail := mkFrame(g, 12)[:g.Intn(12)]
		stream = append(stream, tail...)
		// single cuts
		if len(stream) <= 200 {
			for c := 0; c <= len(stream); c++ {
				check(cname, stream, frames, len(tail), []int{c}, c%3 == 0)
			}
		}
		if len(stream) <= 24 {
			for a := 0; a <= len(stream); a++ {
				for b := a; b <= len(stream); b++ {
					check(cname, stream, frames, len(tail), []int{a, b}, (a+b)%7 == 0)
				}
			}
		}
		// one octet at a time
		if len(stream) <= 300 {
			var cuts []int
			for c := 1; c < len(stream); c++ {
				cuts = append(cuts, c)
			}
			check(cname, stream, frames, len(tail), cuts, len(stream) < 80)
		}
		for r := 0; r < 6; r++ {
			var cuts []int
			for c := 1; c < len(stream); c++ {
				if g.Intn(1+len(stream)/6) == 0 {
					cuts = append(cuts, c)
				}
			}
			check(cname, stream, frames, len(tail), cuts, len(stream) < 200)
		}
		// blocking extractor on the same stream: frames come out one by one, then an error at the tail
		for _, mr := range []int{0, 1, 3, 7} {
			c := &fakeConn{future: append([]byte(nil), stream...), maxRead: mr, endErr: io.EOF}
			for i, f := range frames {
				got, err := codecs[cname].DecodeBlocked(c)
				res.Eval(fmt.Sprintf("blk/%d/%d/%d", it, mr, i), true)
				if err != nil || !bytes.Equal(got, f) {
					res.Violate("C04.blocked-frames-not-exact:"+cname, fmt.Sprintf("frame %d of %d: err=%v", i+1, len(frames), err), []string{"codec " + cname, "frame blocked " + hx(stream) + " 0"})
					break
				}
			}
		}
		// every truncation point / read error at every offset of the first frame (+1 frame)
		first := frames[0]
		if len(first) <= 64 {
			for cut := 0; cut < len(first); cut++ {
				for _, fail := range []bool{false, true} {
					fl := "0"
					if fail {
						fl = "1"
					}
					op := "frame blocked " + hx(first[:cut]) + " " + fl
					out, f, _ := goBlocked(codecs[cname], first[:cut], fail, 1+g.Intn(5))
					res.Eval(cname+"/"+op, true)
					ops, goOut = append(ops, op), append(goOut, out)
					if f != nil || !strings.HasPrefix(out, "err") {
						res.Violate("C04.blocked-partial-frame:"+cname, fmt.Sprintf("stream ends after %d of %d octets but DecodeBlocked answered %q", cut, len(first), out), []string{"codec " + cname, op})
					}
				}
			}
			op := "frame blocked " + hx(append(append([]byte(nil), first...), 9, 9)) + " 0"
			out, _, _ := goBlocked(codecs[cname], append(append([]byte(nil), first...), 9, 9), false, 2)
			ops, goOut = append(ops, op), append(goOut, out)
		}
	}
	// malformed prefixes 0..3
	for _, cname := range []string{"cmpp", "smpp"} {
		for p := 0; p < 4; p++ {
			for _, extra := range []int{0, 1, 8} {
				buf := make([]byte, 4+extra)
				binary.BigEndian.PutUint32(buf, uint32(p))
				for i := 4; i < len(buf); i++ {
					buf[i] = byte(0xA0 + i)
				}
				op := "frame run " + hx(buf)
				res.Eval(cname+"/"+op, true)
				del, buffered, closed, note := goRun(codecs[cname], [][]byte{buf})
				ops, goOut = append(ops, op), append(goOut, renderRun(del, buffered, closed))
				if note != "" || len(del) != 0 || !closed || buffered != len(buf) {
					res.Violate("C04.short-prefix-not-refused:"+cname, fmt.Sprintf("prefix %d: delivered %d frames, closed=%v, %d buffered; %s", p, len(del), closed, buffered, note), []string{"codec " + cname, op})
				}
				bop := "frame blocked " + hx(buf) + " 0"
				out, f, consumed := goBlocked(codecs[cname], buf, false, 0)
				ops, goOut = append(ops, bop), append(goOut, out)
				if f != nil || !strings.HasPrefix(out, "err") || (consumed != 0 && consumed != 4) {
					res.Violate("C04.short-prefix-not-refused:"+cname, fmt.Sprintf("blocking extractor, prefix %d: %q, %d octets consumed", p, out, consumed), []string{"codec " + cname, bop})
				}
			}
		}
	}
	// declared lengths far beyond what has arrived, up to the 32-bit extremes: nothing is delivered, nothing consumed
	// (non-blocking), and the blocking extractor fails cleanly at the end of the stream
	for _, cname := range []string{"cmpp", "smpp"} {
		for _, decl := range []uint32{65536, 70000, 1 << 24, 0x7FFFFFFF, 0x80000000, 0x80000004, 0xFFFFFFFF} {
			for _, avail := range []int{4, 5, 12, 16, 40} {
				buf := make([]byte, avail)
				binary.BigEndian.PutUint32(buf, decl)
				for i := 4; i < len(buf); i++ {
					buf[i] = byte(0x30 + i)
				}
				op := "frame run " + hx(buf)
				res.Eval(cname+"/"+op, true)
				del, buffered, closed, note := goRun(codecs[cname], [][]byte{buf})
				ops, goOut = append(ops, op), append(goOut, renderRun(del, buffered, closed))
				if note != "" || len(del) != 0 || closed || buffered != len(buf) {
					res.Violate("C04.frames-not-exact:"+cname, fmt.Sprintf("declared length %#x with %d octets arrived: delivered %d frames, closed=%v, %d buffered; %s", decl, avail, len(del), closed, buffered, note), []string{"codec " + cname, op})
				}
				bop := "frame blocked " + hx(buf) + " 0"
				out, f, _ := goBlocked(codecs[cname], buf, false, 3)
				res.Eval(cname+"/"+bop, true)
				ops, goOut = append(ops, bop), append(goOut, out)
				if f != nil || !strings.HasPrefix(out, "err") {
					res.Violate("C04.blocked-partial-frame:"+cname, fmt.Sprintf("declared length %#x, stream ends after %d octets, DecodeBlocked answered %q", decl, avail, out), []string{"codec " + cname, bop})
				}
			}
		}
	}
	// two connections behind one codec value (the usual deployment: one codec per server), reads strictly
	// alternating: each stream must come out as if it were served alone.  Frame lengths are chosen so that the
	// prefixes differ in every octet position, reads of 1..3 octets split the prefix at every place.
	mk := func(n int, tag byte) []byte {
		f := make([]byte, n)
		binary.BigEndian.PutUint32(f, uint32(n))
		for i := 4; i < n; i++ {
			f[i] = tag ^ byte(i*7)
		}
		return f
	}
	streamsA := [][]byte{append(mk(16, 0xA0), mk(16, 0xA1)...), append(mk(20, 0xA2), mk(4, 0)...), append(mk(0x0101, 0xA3), mk(17, 0xA4)...)}
	streamsB := [][]byte{append(mk(288, 0xB0), mk(300, 0xB1)...), append(mk(0x010110, 0xB2), mk(16, 0xB3)...), append(mk(0x1010, 0xB4), mk(0x0203, 0xB5)[:100]...)}
	for _, cname := range []string{"cmpp", "smpp"} {
		for ai, a := range streamsA {
			for bi, b := range streamsB {
				for _, mrA := range []int{1, 2, 3, 5} {
					for _, mrB := range []int{1, 2, 3, 0} {
						for start := 0; start < 2; start++ {
							if !thorough && (ai+bi+mrA+mrB+start)%3 != 0 {
								continue
							}
							op := fmt.Sprintf("frame pair %s %s %d %d %d", hx(a), hx(b), mrA, mrB, start)
							got := goPair(codecs[cname], a, b, mrA, mrB, start)
							res.Eval(cname+"/"+op[:40]+fmt.Sprint(ai, bi, mrA, mrB, start), true)
							alone := "A=" + blockedAllAlone(codecs[cname], a) + " B=" + blockedAllAlone(codecs[cname], b)
							if got != alone {
								res.Violate("C04.connections-interfere:"+cname, fmt.Sprintf("two connections served by one codec value, reads alternating (%d and %d octets per read): the streams do not come out as when served alone", mrA, mrB), []string{"codec " + cname, op})
							}
							if (ai+bi+mrA+mrB)%4 == 0 {
								ops, goOut = append(ops, op), append(goOut, got)
							}
						}
					}
				}
			}
		}
	}
	res.Sample(ops[0] + "  =>  " + goOut[0])
	res.Sample(ops[len(ops)-1] + "  =>  " + goOut[len(ops)-1])
	res.Compare(d, "framing model vs codec.CMPPCodec/SMPPCodec", ops, goOut)
}

func replayC04(lines []string) []string {
	cname := "cmpp"
	var out []string
	for _, l := range lines {
		f := strings.Fields(l)
		switch {
		case len(f) == 2 && f[0] == "codec":
			cname = f[1]
			out = append(out, "(codec selected)")
		case len(f) == 3 && f[0] == "frame" && f[1] == "run":
			var chunks [][]byte
			for _, c := range strings.Split(f[2], ",") {
				chunks = append(chunks, unhx(c))
			}
			del, b, cl, note := goRun(codecs[cname], chunks)
			out = append(out, renderRun(del, b, cl)+" "+note)
		case len(f) == 7 && f[0] == "frame" && f[1] == "pair":
			var mrA, mrB, start int
			fmt.Sscan(f[4], &mrA)
			fmt.Sscan(f[5], &mrB)
			fmt.Sscan(f[6], &start)
			out = append(out, goPair(codecs[cname], unhx(f[2]), unhx(f[3]), mrA, mrB, start))
		case len(f) == 4 && f[0] == "frame" && f[1] == "blocked":
			o, _, _ := goBlocked(codecs[cname], unhx(f[2]), f[3] == "1", 3)
			out = append(out, o)
		default:
			out = append(out, "bad-op")
		}
	}
	return out
}
