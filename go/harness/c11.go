package main

// C11 — decode → encode → decode is stable; canonical images re-encode bit for bit.
// Also provides the malformed-image generator used by C03.

import (
	"bytes"
	"encoding/binary"
	"fmt"
	"strings"
)

func init() { runners["C11"] = runC11 }

// mutate produces variants of a canonical image: the malformed stream of the design.
func mutate(g *Rng, img []byte, s *shape, every bool) [][]byte {
	var out [][]byte
	add := func(b []byte) { out = append(out, b) }
	// every truncation point (or a sample)
	// large images (maximum-length optional values): only the head and the tail are varied
	far := func(pos int) bool { return pos >= 600 && pos < len(img)-48 }
	for cut := 0; cut < len(img); cut++ {
		if far(cut) {
			continue
		}
		if every || cut < 24 || g.Intn(6) == 0 || cut > len(img)-6 {
			add(append([]byte(nil), img[:cut]...))
		}
	}
	// single-octet substitutions: every position with the length/count-like values
	for pos := 0; pos < len(img); pos++ {
		if far(pos) || (len(img) > 4000 && pos >= 24 && g.Intn(8) != 0) {
			continue
		}
		if !every && pos >= 24 && g.Intn(3) != 0 {
			continue
		}
		for _, v := range []byte{0, 1, 0x7f, 0x80, 0xff} {
			if img[pos] == v {
				continue
			}
			m := append([]byte(nil), img...)
			m[pos] = v
			add(m)
		}
	}
	// trailing garbage 1..16 (and a well-formed / malformed optional tail)
	for n := 1; n <= 16; n++ {
		if every || n <= 4 || n%4 == 0 {
			add(append(append([]byte(nil), img...), g.Bytes(n)...))
		}
	}
	add(append(append([]byte(nil), img...), 0x00, 0x05, 0x00, 0x02, 0xAA, 0xBB))                                           // one TLV
	add(append(append([]byte(nil), img...), 0x00, 0x05, 0x00, 0x02, 0xAA, 0xBB, 0x00, 0x05, 0x00, 0x01, 0xCC))             // duplicate tag
	add(append(append([]byte(nil), img...), 0x13, 0x0C, 0x00, 0x00))                                                       // zero-length value (alert_on_message_delivery)
	add(append(append([]byte(nil), img...), 0x00, 0x00, 0x00, 0x00))                                                       // tag 0, zero-length value
	add(append(append([]byte(nil), img...), 0x13, 0x0C, 0x00, 0x00, 0x00, 0x05, 0x00, 0x01, 0xCC, 0x02, 0x04, 0x00, 0x00)) // zero-length values among others
	add(append(append([]byte(nil), img...), 0x00, 0x05, 0x00, 0x09, 0xAA))                                                 // value cut short
	add(append(append([]byte(nil), img...), 0x00, 0x05, 0xFF, 0xFF))                                                       // huge length, nothing follows
	add(append(append([]byte(nil), img...), 0x00, 0x05, 0x00))                                                             // header cut short
	// junk after the NULs of fixed-width slots: flip zero octets inside the body to non-zero
	for i := 0; i < 6; i++ {
		m := append([]byte(nil), img...)
		n := 0
		for pos := 12; pos < len(m) && pos < 600; pos++ {
			if m[pos] == 0 && g.Intn(4) == 0 {
				m[pos] = byte(0x41 + g.Intn(26))
				n++
			}
		}
		if n > 0 {
			add(m)
		}
	}
	// declared total length inconsistent with the image
	if len(img) >= 4 {
		for _, v := range []uint32{0, 3, uint32(len(img)) - 1, uint32(len(img)) + 1, 0xFFFFFFF0} {
			m := append([]byte(nil), img...)
			binary.BigEndian.PutUint32(m, v)
			add(m)
		}
	}
	return out
}

func c11Class(name, field string) string {
	s := shapes[name]
	if s != nil && s.hexOut[field] > 0 {
		return "C11.smgp-msgid-not-reencodable:" + name
	}
	return "C11.unstable:" + name + ":" + field
}

func runC11(res *Result, d *Driver, g *Rng, tier string) {
	res.Rule = "per PDU type: canonical images (as C01) and mutated canonical images — junk after NULs inside fixed-width slots, substituted length/count octets, inconsistent total length, trailing optional parameters incl. duplicate tags and truncated triplets, maximum-length optional values; every image a decoder accepts is re-encoded and decoded again, refused encodes (an over-long value) in between; non-trivial = the decoder accepted the image, distinct by image"
	if err := loadLayouts(layoutsPath); err != nil {
		res.Disagreements = append(res.Disagreements, Violation{Class: "driver-failure", What: err.Error()})
		return
	}
	thorough := tier == "thorough"
	per := 6
	if thorough {
		per = 120
	}
	var ops, goOut []string
	for _, name := range pduNames() {
		s := shapes[name]
		if s == nil {
			continue
		}
		for i := 0; i < per; i++ {
			r := genFit(g, s, thorough)
			if i%3 == 2 { // maximum-length optional value
				for _, f := range s.tlvs {
					r[f] = value{kind: kTlvs, tlvs: []tlv{{uint16(5 + i), g.Bytes(g.Pick([]int{65531, 65532, 65535}))}}}
				}
			}
			_, img, _, _ := goEnc(name, r)
			if img == nil {
				continue
			}
			// a relay also meets PDUs it has to refuse: an encode that fails (a value too long for its slot) comes in
			// between, and must leave no trace on the re-encodes that follow
			if i%2 == 0 {
				if ro, _, ok := genOverlong(g, s); ok {
					goEnc(name, ro)
				}
			}
			images := [][]byte{img}
			images = append(images, mutate(g, img, s, thorough && i < 4)...)
			for k, im := range images {
				if len(im) > 70000 && k > 3 {
					continue
				}
				decOp := "dec " + name + " " + hx(im)
				line, rec1, oc := goDec(name, im)
				if oc.Hang || oc.Panic != "" {
					res.Eval(decOp, false)
					continue // reported by C03
				}
				res.Eval(decOp, rec1 != nil)
				if k < 3 || (k%17 == 0 && len(im) < 4000) {
					ops, goOut = append(ops, decOp), append(goOut, line)
				}
				if rec1 == nil {
					res.Count("rejected")
					continue
				}
				res.Count("accepted")
				// re-encode what was decoded
				encOp := "enc " + name + " " + renderInput(name, rec1)
				eline, img2, after, _ := goEnc(name, rec1)
				if k < 3 {
					ops, goOut = append(ops, encOp), append(goOut, eline)
				}
				if img2 == nil {
					cls := "C11.reencode-fails:" + name
					for f := range s.hexOut {
						_ = f
						cls = "C11.smgp-msgid-not-reencodable:" + name
					}
					if eline == "panic" {
						cls = "C11.reencode-panics:" + name
					}
					res.Violate(cls, fmt.Sprintf("the decoder accepted a %d-octet image but the decoded PDU does not re-encode (%s)", len(im), eline), []string{decOp, encOp})
					continue
				}
				// what is relayed is a frame: its length word is its length (a framer at the next hop cuts by it)
				if s.lenField != "" && len(img2) >= 4 && int(binary.BigEndian.Uint32(img2[:4])) != len(img2) {
					res.Violate("C11.reencoded-not-a-frame:"+name, fmt.Sprintf("the re-encoded image has %d octets but announces %d", len(img2), binary.BigEndian.Uint32(img2[:4])), []string{decOp, encOp})
					continue
				}
				_, rec2, _ := goDec(name, img2)
				if rec2 == nil {
					res.Violate("C11.redecode-fails:"+name, "re-encoded bytes are not decodable", []string{decOp, encOp, "dec " + name + " " + hx(img2)})
					continue
				}
				// same PDU again, modulo the header length and the documented CMPP 2.0 default
				for _, f := range s.fields {
					if f.path == s.lenField {
						continue
					}
					if name == "cmpp20.PduSubmit" && (f.path == "PkTotal" || f.path == "PkNumber") && rec1["PkTotal"].num == 0 && rec1["PkNumber"].num == 0 {
						continue
					}
					if !sameValue(rec1[f.path], rec2[f.path]) {
						res.Violate(c11Class(name, f.path), fmt.Sprintf("field %s: first decode %s, after re-encoding %s", f.path, renderValue(rec1[f.path]), renderValue(rec2[f.path])), []string{decOp, encOp, "dec " + name + " " + hx(img2)})
						break
					}
				}
				_ = after
				// canonical images re-encode bit for bit (optional parameters as an unordered set)
				if k == 0 && canonEncoded(img2, tailLen(build(name, rec1))) != canonEncoded(im, tailLen(build(name, rec1))) {
					cls := "C11.canonical-not-reproduced:" + name
					if len(s.hexOut) > 0 {
						cls = "C11.smgp-msgid-not-reencodable:" + name
					}
					res.Violate(cls, fmt.Sprintf("canonical image %s re-encodes to %s", hx(im[:min(len(im), 40)]), hx(img2[:min(len(img2), 40)])), []string{decOp, encOp})
				}
				if k == 0 && !bytes.Equal(img2[:min(4, len(img2))], im[:min(4, len(im))]) && strings.HasPrefix(name, "zz") {
					res.Count("never")
				}
			}
		}
		if len(ops) > 3000 {
			res.Compare(d, "layout interpreter vs IEncode/IDecode (accepted images)", ops, goOut)
			ops, goOut = nil, nil
		}
	}
	if len(res.Samples) == 0 && len(ops) > 0 {
		res.Sample(ops[0][:min(len(ops[0]), 300)] + "  =>  " + goOut[0][:min(len(goOut[0]), 200)])
	}
	res.Compare(d, "layout interpreter vs IEncode/IDecode (accepted images)", ops, goOut)
}
