package main

// C17 — CMPP message id: bit layout, split/compose/string form.

import (
	"fmt"
	"strings"

	"github.com/hujm2023/go-sms-protocol/cmpp"
)

func init() {
	runners["C17"] = runC17
	replayers["C17"] = replayC17
}

func goMsgID(f []string) string {
	var n [7]uint64
	switch f[0] {
	case "combine":
		for i := 0; i < 7; i++ {
			fmt.Sscan(f[1+i], &n[i])
		}
		return fmt.Sprint(cmpp.CombineMsgID(n[0], n[1], n[2], n[3], n[4], n[5], n[6]))
	case "split":
		var id uint64
		fmt.Sscan(f[1], &id)
		a, b, c, d, e, g, h := cmpp.SplitMsgID(id)
		return fmt.Sprintf("%d %d %d %d %d %d %d", a, b, c, d, e, g, h)
	case "str":
		var id uint64
		fmt.Sscan(f[1], &id)
		return hx([]byte(cmpp.MsgID2String(id)))
	case "parse":
		return fmt.Sprint(cmpp.MsgIDString2Uint64(string(unhx(f[1]))))
	}
	return "bad-op"
}

func replayC17(lines []string) []string {
	var out []string
	for _, l := range lines {
		f := strings.Fields(l)
		if len(f) >= 3 && f[0] == "msgid" {
			out = append(out, goMsgID(f[1:]))
		} else {
			out = append(out, "bad-op")
		}
	}
	return out
}

func runC17(res *Result, d *Driver, g *Rng, tier string) {
	res.Rule = "each field over its full range with the others at both extremes (month 0..15, day 0..31, hour 0..31, minute 0..63, second 0..63, sequence 0..65535; gateway: all 2^22 in thorough, every bit pattern boundary and a 1/64 sample in quick), random in-range tuples, out-of-range tuples (wrap-around), ids: 0, 1, all single-bit and boundary patterns, random 64-bit; non-trivial = distinct tuple or id"
	thorough := tier == "thorough"
	var ops, goOut []string
	viaModel := func(op string) string {
		out := goMsgID(strings.Fields(op)[1:])
		ops, goOut = append(ops, op), append(goOut, out)
		return out
	}
	maxes := [7]uint64{15, 31, 31, 63, 63, 1<<22 - 1, 65535}
	shifts := [7]uint{60, 55, 50, 44, 38, 16, 0}
	checkTuple := func(t [7]uint64, model bool) {
		op := fmt.Sprintf("msgid combine %d %d %d %d %d %d %d", t[0], t[1], t[2], t[3], t[4], t[5], t[6])
		var out string
		if model {
			out = viaModel(op)
		} else {
			out = goMsgID(strings.Fields(op)[1:])
		}
		res.Eval(op, true)
		id := cmpp.CombineMsgID(t[0], t[1], t[2], t[3], t[4], t[5], t[6])
		inRange := true
		var want uint64
		for i := range t {
			if t[i] > maxes[i] {
				inRange = false
			}
			want |= t[i] << shifts[i]
		}
		if !inRange {
			return
		}
		if id != want {
			res.Violate("C17.field-positions", fmt.Sprintf("CombineMsgID%v = %#x, specification layout gives %#x", t, id, want), []string{op})
			return
		}
		a, b, c, dd, e, gg, h := cmpp.SplitMsgID(id)
		if [7]uint64{a, b, c, dd, e, gg, h} != t {
			res.Violate("C17.split-combine", fmt.Sprintf("SplitMsgID(CombineMsgID%v) = %v (%s)", t, [7]uint64{a, b, c, dd, e, gg, h}, out), []string{op, fmt.Sprintf("msgid split %d", id)})
		}
	}
	checkID := func(id uint64, model bool) {
		op := fmt.Sprintf("msgid split %d", id)
		if model {
			viaModel(op)
			viaModel(fmt.Sprintf("msgid str %d", id))
		}
		res.Eval(op, true)
		a, b, c, dd, e, gg, h := cmpp.SplitMsgID(id)
		if back := cmpp.CombineMsgID(a, b, c, dd, e, gg, h); back != id {
			res.Violate("C17.combine-split", fmt.Sprintf("CombineMsgID(SplitMsgID(%#x)) = %#x", id, back), []string{op})
		}
		s := cmpp.MsgID2String(id)
		if id != 0 {
			if len(s) != 22 {
				res.Violate("C17.string-form", fmt.Sprintf("MsgID2String(%#x) = %q has %d characters", id, s, len(s)), []string{fmt.Sprintf("msgid str %d", id)})
			}
			pop := "msgid parse " + hx([]byte(s))
			if model {
				viaModel(pop)
			}
			if back := cmpp.MsgIDString2Uint64(s); back != id {
				res.Violate("C17.string-roundtrip", fmt.Sprintf("MsgIDString2Uint64(MsgID2String(%#x)) = %#x", id, back), []string{fmt.Sprintf("msgid str %d", id), pop})
			}
		}
	}
	// each field over its full range, the others at both extremes
	for f := 0; f < 7; f++ {
		step := uint64(1)
		if f == 5 && !thorough {
			step = 61
		}
		for _, ext := range []int{0, 1} {
			for v := uint64(0); v <= maxes[f]; v += step {
				var t [7]uint64
				for i := range t {
					if ext == 1 {
						t[i] = maxes[i]
					}
				}
				t[f] = v
				checkTuple(t, v%509 == 0 || v == maxes[f])
			}
			for b := uint(0); b < 23; b++ { // every single bit and all-ones-below of the field
				for _, v := range []uint64{1 << b, 1<<b - 1} {
					if v <= maxes[f] {
						var t [7]uint64
						if ext == 1 {
							t = maxes
						}
						t[f] = v
						checkTuple(t, true)
					}
				}
			}
		}
	}
	n := 20000
	if thorough {
		n = 1000000
	}
	for i := 0; i < n; i++ {
		var t [7]uint64
		for j := range t {
			t[j] = g.U64() % (maxes[j] + 1)
		}
		checkTuple(t, i%50 == 0)
		checkID(g.U64(), i%50 == 0)
	}
	for i := 0; i < 300; i++ { // out-of-range arguments: wrap-around must match the model
		var t [7]uint64
		for j := range t {
			t[j] = g.U64() >> uint(g.Intn(64))
		}
		checkTuple(t, true)
	}
	for b := uint(0); b < 64; b++ {
		checkID(1<<b, true)
		checkID(1<<b-1, true)
		checkID(^uint64(0)<<b, true)
	}
	checkID(0, true)
	for _, s := range []string{"", "0", "0a01010101000000100000", "1231235959419430365535", "0000000000000000000000"} {
		viaModel("msgid parse " + hx([]byte(s)))
	}
	res.Sample(ops[0] + "  =>  " + goOut[0])
	res.Sample(ops[len(ops)-1] + "  =>  " + goOut[len(ops)-1])
	res.Compare(d, "message id model vs cmpp/msgid.go", ops, goOut)
}
