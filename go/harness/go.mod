module verif/harness

go 1.18

require github.com/hujm2023/go-sms-protocol v0.0.0

require github.com/valyala/bytebufferpool v1.0.0 // indirect

replace github.com/hujm2023/go-sms-protocol => /repo
