module verif/harness

go 1.18

require (
	github.com/hujm2023/go-sms-protocol v0.0.0
	github.com/valyala/bytebufferpool v1.0.0
	golang.org/x/text v0.14.0
)

require (
	github.com/samber/lo v1.38.1 // indirect
	golang.org/x/exp v0.0.0-20231110203233-9a3e6036ecaa // indirect
	golang.org/x/sync v0.5.0 // indirect
)

replace github.com/hujm2023/go-sms-protocol => /repo
