//go:build verif

package main

import "github.com/hujm2023/go-sms-protocol/smgp/smgp30"

func init() {
	smgpAuthHook = func(id, secret string, ts uint32) ([]byte, error) {
		return smgp30.GenAuthenticatorClientForVerif(id, secret, ts)
	}
}
