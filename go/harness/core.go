package main

// Shared harness infrastructure: PRNG, Lean driver process, result recording, guarded calls.

import (
	"bufio"
	"crypto/sha256"
	"encoding/hex"
	"encoding/json"
	"fmt"
	"io"
	"os"
	"os/exec"
	"runtime"
	"sort"
	"strings"
	"time"
)

// ---------- PRNG (splitmix64): every random choice derives from VERIF_SEED ----------

type Rng struct{ s uint64 }

func NewRng(seed uint64) *Rng { return &Rng{s: seed*0x9E3779B97F4A7C15 + 0x1234567} }

func (r *Rng) U64() uint64 {
	r.s += 0x9E3779B97F4A7C15
	z := r.s
	z = (z ^ (z >> 30)) * 0xBF58476D1CE4E5B9
	z = (z ^ (z >> 27)) * 0x94D049BB133111EB
	return z ^ (z >> 31)
}
func (r *Rng) Intn(n int) int {
	if n <= 0 {
		return 0
	}
	return int(r.U64() % uint64(n))
}
func (r *Rng) Bool() bool        { return r.U64()&1 == 1 }
func (r *Rng) Pick(xs []int) int { return xs[r.Intn(len(xs))] }
func (r *Rng) Bytes(n int) []byte {
	b := make([]byte, n)
	for i := range b {
		b[i] = byte(r.U64())
	}
	return b
}

// BytesNoNul: n octets, none of them NUL.
func (r *Rng) BytesNoNul(n int) []byte {
	b := make([]byte, n)
	for i := range b {
		b[i] = byte(1 + r.Intn(255))
	}
	return b
}

// ---------- hex in the line protocol ("-" is the empty string) ----------

func hx(b []byte) string {
	if len(b) == 0 {
		return "-"
	}
	return hex.EncodeToString(b)
}
func unhx(s string) []byte {
	if s == "-" || s == "" {
		return nil
	}
	b, err := hex.DecodeString(s)
	if err != nil {
		panic("bad hex in protocol: " + s)
	}
	return b
}

// ---------- Lean driver ----------

type Driver struct {
	path string
}

// Ask pipes all lines to a fresh driver process and returns one output line per input line.
func (d *Driver) Ask(lines []string) ([]string, error) {
	if len(lines) == 0 {
		return nil, nil
	}
	cmd := exec.Command(d.path)
	stdin, err := cmd.StdinPipe()
	if err != nil {
		return nil, err
	}
	stdout, err := cmd.StdoutPipe()
	if err != nil {
		return nil, err
	}
	cmd.Stderr = os.Stderr
	if err := cmd.Start(); err != nil {
		return nil, err
	}
	go func() {
		w := bufio.NewWriterSize(stdin, 1<<20)
		for _, l := range lines {
			w.WriteString(l)
			w.WriteByte('\n')
		}
		w.Flush()
		stdin.Close()
	}()
	out := make([]string, 0, len(lines))
	rd := bufio.NewReaderSize(stdout, 1<<20)
	for {
		l, err := rd.ReadString('\n')
		if len(l) > 0 {
			out = append(out, strings.TrimRight(l, "\n"))
		}
		if err != nil {
			if err != io.EOF {
				return out, err
			}
			break
		}
	}
	if err := cmd.Wait(); err != nil {
		return out, fmt.Errorf("driver exited: %v", err)
	}
	if len(out) != len(lines) {
		return out, fmt.Errorf("driver returned %d lines for %d inputs", len(out), len(lines))
	}
	return out, nil
}

// ---------- results ----------

type Violation struct {
	Class string   `json:"class"` // machine-checkable class label (matched against known-findings.json)
	What  string   `json:"what"`
	Ops   []string `json:"ops"` // protocol lines that replay it
	Go    []string `json:"go,omitempty"`
	Lean  []string `json:"lean,omitempty"`
}

type Result struct {
	Property      string         `json:"property"`
	Tier          string         `json:"tier"`
	Seed          uint64         `json:"seed"`
	Evaluations   int            `json:"evaluations"`
	Distinct      int            `json:"distinct_nontrivial"`
	Rule          string         `json:"rule"`
	Samples       []string       `json:"samples"`
	Distribution  map[string]int `json:"distribution"`
	Disagreements []Violation    `json:"disagreements"` // model vs implementation
	Violations    []Violation    `json:"violations"`    // property predicate false on the implementation
	ModelOps      int            `json:"model_ops"`     // lines compared against the Lean driver
	Exhaustive    bool           `json:"exhaustive,omitempty"`
	Notes         []string       `json:"notes,omitempty"`

	seen     map[[8]byte]struct{}
	perClass map[string]int
}

func NewResult(prop, tier string, seed uint64) *Result {
	return &Result{Property: prop, Tier: tier, Seed: seed, Distribution: map[string]int{}, seen: map[[8]byte]struct{}{}}
}

// Eval counts one evaluated case; key identifies it for distinctness; nontrivial by the property's stated rule.
func (r *Result) Eval(key string, nontrivial bool) {
	r.Evaluations++
	if !nontrivial {
		return
	}
	h := sha256.Sum256([]byte(key))
	var k [8]byte
	copy(k[:], h[:8])
	if _, ok := r.seen[k]; !ok {
		r.seen[k] = struct{}{}
		r.Distinct++
	}
}
func (r *Result) Count(bucket string) { r.Distribution[bucket]++ }
func (r *Result) Sample(s string) {
	if len(r.Samples) < 12 {
		if len(s) > 400 {
			s = s[:400] + "…"
		}
		r.Samples = append(r.Samples, s)
	}
}

// Violate records a property violation found on the implementation; at most 3 witnesses per class are kept
// (so that a frequent known class cannot crowd out a new one), counts per class go to the distribution.
func (r *Result) Violate(class, what string, ops []string) {
	r.Distribution["violation:"+class]++
	if r.perClass == nil {
		r.perClass = map[string]int{}
	}
	if r.perClass[class] < 3 && len(r.Violations) < 600 {
		r.perClass[class]++
		r.Violations = append(r.Violations, Violation{Class: class, What: what, Ops: ops})
	}
}
func (r *Result) Disagree(what string, op, goOut, leanOut string) {
	if len(r.Disagreements) < 50 {
		r.Disagreements = append(r.Disagreements, Violation{Class: "correspondence", What: what, Ops: []string{op}, Go: []string{goOut}, Lean: []string{leanOut}})
	}
}

// Compare sends ops to the Lean driver and diffs against the implementation's outputs.
func (r *Result) Compare(d *Driver, what string, ops, goOut []string) {
	if len(ops) == 0 {
		return
	}
	out, err := d.Ask(ops)
	if err != nil {
		r.Disagreements = append(r.Disagreements, Violation{Class: "driver-failure", What: what + ": " + err.Error()})
		return
	}
	for i := range ops {
		r.ModelOps++
		if out[i] != goOut[i] {
			r.Disagree(what, ops[i], goOut[i], out[i])
		}
	}
}

func (r *Result) Write(path string) {
	keys := make([]string, 0, len(r.Distribution))
	for k := range r.Distribution {
		keys = append(keys, k)
	}
	sort.Strings(keys)
	b, _ := json.MarshalIndent(r, "", " ")
	if err := os.WriteFile(path, b, 0o644); err != nil {
		panic(err)
	}
}

// ---------- guarded calls ----------

type Outcome struct {
	Panic   string
	Hang    bool
	AllocB  uint64 // TotalAlloc delta (only meaningful when measured single-threaded)
	Elapsed time.Duration
}

// Guard runs f with recover; no deadline (use GuardDeadline for code that may spin).
func Guard(f func()) (o Outcome) {
	defer func() {
		if x := recover(); x != nil {
			o.Panic = fmt.Sprint(x)
		}
	}()
	f()
	return
}

// GuardDeadline runs f on its own goroutine; if it does not return in d the call is reported as a hang
// (the goroutine is abandoned).
func GuardDeadline(d time.Duration, f func()) Outcome {
	ch := make(chan Outcome, 1)
	go func() {
		var o Outcome
		defer func() {
			if x := recover(); x != nil {
				o.Panic = fmt.Sprint(x)
			}
			ch <- o
		}()
		f()
	}()
	select {
	case o := <-ch:
		return o
	case <-time.After(d):
		return Outcome{Hang: true}
	}
}

// MeasureAlloc runs f and returns the bytes allocated (single goroutine use only).
func MeasureAlloc(f func()) uint64 {
	var a, b runtime.MemStats
	runtime.ReadMemStats(&a)
	f()
	runtime.ReadMemStats(&b)
	return b.TotalAlloc - a.TotalAlloc
}
