package main

// C05 — text codings invert on their repertoire and refuse what they cannot represent.

import (
	"context"
	"fmt"
	"strconv"
	"strings"
	"unicode/utf8"

	sms "github.com/hujm2023/go-sms-protocol"
	"github.com/hujm2023/go-sms-protocol/cmpp"
	"github.com/hujm2023/go-sms-protocol/datacoding"
)

func init() { runners["C05"] = runC05 }

type textCodec struct {
	name string
	mk   func(s string) datacoding.Codec
}

var textCodecs = []textCodec{
	{"ascii", func(s string) datacoding.Codec { return datacoding.Ascii(s) }},
	{"latin1", func(s string) datacoding.Codec { return datacoding.Latin1(s) }},
	{"ucs2", func(s string) datacoding.Codec { return datacoding.UCS2(s) }},
	{"gb18030", func(s string) datacoding.Codec { return datacoding.GB18030(s) }},
	{"gsm7", func(s string) datacoding.Codec { return datacoding.GSM7Unpacked(s) }},
	{"gsm7packed", func(s string) datacoding.Codec { return datacoding.GSM7Packed(s) }},
}

var latin1Codec = textCodecs[1]

// roundTrip: ok=false means the encoder refused; otherwise the decoded text.
func roundTrip(c textCodec, text string) (enc []byte, refused bool, back string, decErr bool, panicked bool) {
	o := Guard(func() {
		var err error
		enc, err = c.mk(text).Encode()
		if err != nil {
			refused = true
			return
		}
		var b []byte
		b, err = c.mk(string(enc)).Decode()
		if err != nil {
			decErr = true
			return
		}
		back = string(b)
	})
	panicked = o.Panic != ""
	return
}

func packedAmbiguous(text string) bool {
	s, ok := refEncode("gsm", text)
	return ok && ambiguousTail(s)
}

func gbCarveOut(text string) bool {
	for _, r := range text {
		if r >= 0xE000 && r <= 0xE864 {
			return true
		}
	}
	return false
}

func codecNameOf(c datacoding.Codec) string {
	if c == nil {
		return "none"
	}
	switch c.Name() {
	case datacoding.DataCodingASCII:
		return "ascii"
	case datacoding.DataCodingLatin1:
		return "latin1"
	case datacoding.DataCodingUcs2:
		return "ucs2"
	case datacoding.DataCodingGB18030:
		return "gb18030"
	case datacoding.DataCodingGSM7UnPacked:
		return "gsm7"
	case datacoding.DataCodingGSM7Packed:
		return "gsm7packed"
	}
	return "?" + string(c.Name())
}

func runC05(res *Result, d *Driver, g *Rng, tier string) {
	res.Rule = "every Unicode scalar (quick: all of U+0000..U+33FF, every repertoire edge, the surrogate and plane boundaries, the GB18030 private-use carve-out edges, 3000 random astral/BMP scalars; thorough: all 1,112,064) alone and between two ASCII letters through all six codecs; random strings biased to each repertoire; every data-coding number 0..255 (and negative / large ints for SMPP) through the codec selection and the protocol-level decoders; non-trivial = encoder accepted, distinct input"
	thorough := tier == "thorough"
	var ops, goOut []string
	// ---- per scalar ----
	var scalars []rune
	if thorough {
		for r := rune(0); r < 0x110000; r++ {
			if r < 0xD800 || r >= 0xE000 {
				scalars = append(scalars, r)
			}
		}
	} else {
		for r := rune(0); r < 0x3400; r++ {
			scalars = append(scalars, r)
		}
		for _, r := range []rune{0x4E2D, 0x9FA5, 0xD7FF, 0xE000, 0xE001, 0xE864, 0xE865, 0xF8FF, 0xFFFD, 0xFFFE, 0xFFFF, 0x10000, 0x10001, 0x1F600, 0x2FFFF, 0xEFFFF, 0x10FFFE, 0x10FFFF, 0x20AC, 0x0152, 0x2122} {
			scalars = append(scalars, r)
		}
		for i := 0; i < 3000; i++ {
			r := rune(g.Intn(0x110000))
			if r < 0xD800 || r >= 0xE000 {
				scalars = append(scalars, r)
			}
		}
	}
	accepted := map[string]int{}
	for i, r := range scalars {
		for _, ctx := range []string{"%s", "a%sz"} {
			text := fmt.Sprintf(ctx, string(r))
			for _, c := range textCodecs {
				enc, refused, back, decErr, pn := roundTrip(c, text)
				key := c.name + "/" + text
				res.Eval(key, !refused)
				if pn {
					res.Violate("C05.codec-panics:"+c.name, fmt.Sprintf("U+%04X", r), []string{"text enc " + c.name + " " + cpsOf(text)})
					continue
				}
				if refused {
					continue
				}
				if ctx == "%s" {
					accepted[c.name]++
				}
				carve := (c.name == "gb18030" && gbCarveOut(text)) || (c.name == "gsm7packed" && packedAmbiguous(text))
				if (decErr || back != text) && !carve {
					res.Violate("C05.not-inverse:"+c.name, fmt.Sprintf("U+%04X in %q: encoded %s, decoded %q (err=%v)", r, text, hx(enc), back, decErr), []string{"text enc " + c.name + " " + cpsOf(text)})
				}
				if (c.name == "ascii" || c.name == "ucs2") && (i%7 == 0 || r > 0xFFFF || !thorough) && r < 0x3400 || (c.name == "ucs2" && r >= 0xD000 && i%3 == 0) {
					ops = append(ops, "text enc "+c.name+" "+cpsOf(text))
					goOut = append(goOut, hx(enc))
				}
			}
			// Windows-1252 against the model's code-page table: every scalar up to U+33FF, the table's own
			// entries, and a sample of everything else (refusals included)
			if r < 0x3400 || i%11 == 0 {
				enc, refused, _, _, pn := roundTrip(latin1Codec, text)
				if !pn {
					out := hx(enc)
					if refused {
						out = "err"
					}
					ops, goOut = append(ops, "text enc latin1 "+cpsOf(text)), append(goOut, out)
				}
			}
			// model: refusal too
			if r >= 0x80 && r < 0x100 && ctx == "%s" {
				ops, goOut = append(ops, "text enc ascii "+cpsOf(text)), append(goOut, "err")
			}
		}
	}
	for _, c := range textCodecs {
		res.Count(fmt.Sprintf("accepted-scalars:%s=%d", c.name, accepted[c.name]))
	}
	// Windows-1252 decoding: every octet value, alone and in context
	for b := 0; b < 256; b++ {
		for _, img := range [][]byte{{byte(b)}, {'a', byte(b), 'z'}, {byte(b), byte(255 - b)}} {
			back, err := datacoding.Latin1(img).Decode()
			out := cpsOf(string(back))
			if err != nil {
				out = "err"
			}
			res.Eval("latin1dec/"+hx(img), true)
			ops, goOut = append(ops, "text dec latin1 "+hx(img)), append(goOut, out)
		}
	}
	// the three UTF-8 → UCS-2 helpers agree with the UCS2 codec
	for i, r := range scalars {
		if i%5 != 0 && r < 0x3000 {
			continue
		}
		text := "x" + string(r)
		ref, _ := datacoding.UCS2(text).Encode()
		a, errA := cmpp.Utf8ToUcs2(text)
		b := cmpp.Utf8ToUcs2Back(text)
		c := cmpp.Utf8ToUcs2Pooled(text)
		if errA != nil || a != string(ref) || b != string(ref) || c != string(ref) {
			res.Violate("C05.ucs2-helpers-disagree", fmt.Sprintf("U+%04X: Utf8ToUcs2=%x Back=%x Pooled=%x codec=%x", r, a, b, c, ref), nil)
		}
	}
	// ---- random strings per repertoire ----
	n := 1500
	if thorough {
		n = 60000
	}
	pools := map[string][]rune{
		"ascii": []rune("abcXYZ019 ~!\x00\x7f"), "latin1": []rune("aé€ÿœ™ZñÀ"), "ucs2": []rune{'a', '中', 0x1F600, 0xFFFD, 0xE000, 0x10FFFF, 'é'},
		"gb18030": []rune{'a', '中', '文', 0x20AC, 0x1F600, 0xE9, 0x3000}, "gsm7": []rune("abc@Δ[]{}€\r\n_"), "gsm7packed": []rune("abc@Δ[]{}€\r\n_1234567"),
	}
	for i := 0; i < n; i++ {
		c := textCodecs[i%len(textCodecs)]
		pool := pools[c.name]
		l := g.Intn(40)
		var sb strings.Builder
		for j := 0; j < l; j++ {
			if g.Intn(25) == 0 {
				sb.WriteRune(rune(g.Intn(0xD800))) // occasionally outside the repertoire
			} else {
				sb.WriteRune(pool[g.Intn(len(pool))])
			}
		}
		text := sb.String()
		if !utf8.ValidString(text) {
			continue
		}
		enc, refused, back, decErr, pn := roundTrip(c, text)
		res.Eval(c.name+"/"+text, !refused && l > 0)
		if pn {
			res.Violate("C05.codec-panics:"+c.name, "", []string{"text enc " + c.name + " " + cpsOf(text)})
			continue
		}
		if c.name == "ascii" || c.name == "ucs2" || c.name == "latin1" {
			out := hx(enc)
			if refused {
				out = "err"
			}
			ops, goOut = append(ops, "text enc "+c.name+" "+cpsOf(text)), append(goOut, out)
			if !refused {
				ops, goOut = append(ops, "text dec "+c.name+" "+hx(enc)), append(goOut, cpsOf(back))
			}
		}
		if refused {
			// a refusal is legitimate only if some character is outside the repertoire
			if _, ok := refEncode(map[string]string{"ascii": "ascii", "latin1": "latin1", "ucs2": "ucs2", "gb18030": "gb", "gsm7": "gsm", "gsm7packed": "gsm"}[c.name], text); ok && c.name != "gb18030" {
				res.Violate("C05.refuses-representable:"+c.name, fmt.Sprintf("%q", text), []string{"text enc " + c.name + " " + cpsOf(text)})
			}
			continue
		}
		carve := (c.name == "gb18030" && gbCarveOut(text)) || (c.name == "gsm7packed" && packedAmbiguous(text))
		if (decErr || back != text) && !carve {
			res.Violate("C05.not-inverse:"+c.name, fmt.Sprintf("%q → %s → %q", text, hx(enc), back), []string{"text enc " + c.name + " " + cpsOf(text)})
		}
	}
	// ---- packed GSM 7-bit: every final septet class at every length 1..24 (the carve-out is exactly ambiguousTail) ----
	for l := 1; l <= 24; l++ {
		for _, last := range []rune{'@', '\r', 'A', '1', '£', 'à'} {
			for _, prev := range []rune{'?', '¡', 'a', '@', '1'} {
				body := []rune(strings.Repeat("x", l))
				body[l-1] = last
				if l >= 2 {
					body[l-2] = prev
				}
				text := string(body)
				c := textCodecs[5]
				enc, refused, back, decErr, pn := roundTrip(c, text)
				res.Eval("packed-tail/"+text, true)
				if pn || refused {
					res.Violate("C05.codec-panics:gsm7packed", fmt.Sprintf("%q refused=%v", text, refused), nil)
					continue
				}
				if (decErr || back != text) && !packedAmbiguous(text) {
					res.Violate("C05.not-inverse:gsm7packed", fmt.Sprintf("%q → %s → %q", text, hx(enc), back), []string{"gsm pack " + hx(mustSeptets(text))})
				}
			}
		}
	}
	// ---- selection tables and protocol-level decoders, every number ----
	probe := "abc"
	for num := -3; num < 300; num++ {
		if num >= 0 && num < 256 {
			cc := datacoding.NewCMPPCodec(datacoding.CMPPDataCoding(num), probe)
			ops, goOut = append(ops, "text sel cmppenc "+strconv.Itoa(num)), append(goOut, codecNameOf(cc))
			// decoder side: which decoder is selected is observable through its behaviour on a discriminating input
			_, err := sms.DecodeCMPPCContent(context.Background(), "ab", uint8(num))
			want := cc != nil
			res.Eval("cmppdec/"+strconv.Itoa(num), true)
			if (err == nil) != want {
				res.Violate("C05.selection-mismatch:cmpp", fmt.Sprintf("data coding %d: encoder available=%v, decoder error=%v", num, want, err), []string{"text sel cmppdec " + strconv.Itoa(num)})
			}
			if cc != nil {
				for _, text := range []string{"hello", "中文ab", "é€", "x\U0001F600"} {
					enc, e1 := datacoding.NewCMPPCodec(datacoding.CMPPDataCoding(num), text).Encode()
					if e1 != nil {
						continue
					}
					back, e2 := sms.DecodeCMPPCContent(context.Background(), string(enc), uint8(num))
					if e2 != nil || back != text {
						res.Violate("C05.decoder-not-inverse:cmpp", fmt.Sprintf("coding %d text %q: decoded %q err=%v", num, text, back, e2), nil)
					}
				}
			}
		}
		sc := datacoding.NewSMPPCodec(datacoding.SMPPDataCoding(num), probe)
		if num >= 0 {
			ops, goOut = append(ops, "text sel smppenc "+strconv.Itoa(num)), append(goOut, codecNameOf(sc))
		}
		res.Eval("smppsel/"+strconv.Itoa(num), true)
		wire := num
		if num == 99 {
			wire = 0
		}
		_, err := sms.DecodeSMPPCContent(context.Background(), "ab", wire)
		if (err == nil) != (sc != nil) {
			res.Violate("C05.selection-mismatch:smpp", fmt.Sprintf("data coding %d (wire %d): encoder available=%v, decoder error=%v", num, wire, sc != nil, err), []string{"text sel smppdec " + strconv.Itoa(wire)})
		}
		if sc != nil {
			for _, text := range []string{"hello", "ab[]{}€", "é€", "x\U0001F600", "1234567@abcdefgh", "@@@@@@@@@"} {
				var enc []byte
				var e1 error
				if num == 99 { // data_coding 0 on the wire must be decodable in the unpacked form
					enc, e1 = datacoding.GSM7Unpacked(text).Encode()
				} else {
					enc, e1 = datacoding.NewSMPPCodec(datacoding.SMPPDataCoding(num), text).Encode()
				}
				if e1 != nil {
					continue
				}
				back, e2 := sms.DecodeSMPPCContent(context.Background(), string(enc), wire)
				if e2 != nil || back != text {
					res.Violate("C05.decoder-not-inverse:smpp", fmt.Sprintf("coding %d text %q: decoded %q err=%v", num, text, back, e2), nil)
				}
			}
		}
	}
	if len(ops) > 0 {
		res.Sample(ops[0] + "  =>  " + goOut[0])
		res.Sample(ops[len(ops)-1] + "  =>  " + goOut[len(ops)-1])
	}
	res.Compare(d, "text coding model (ASCII, UTF-16, selection tables) vs datacoding", ops, goOut)
	if thorough {
		res.Exhaustive = true
	}
}

func mustSeptets(text string) []byte {
	s, _ := refEncode("gsm", text)
	return s
}
