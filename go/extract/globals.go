package main

// Shared state (C13): the library's goroutines share nothing but its package-level variables.
// This file regenerates, from the syntax and types of the working tree,
//
//   * packageVars  — every package-level variable of the library's non-test files, with a category
//                    (pool, error, table, config, other);
//   * globalWrites — every place outside `init` and outside the declaring initialiser where such a
//                    variable can be written: assignment to it or through it (element, field, `*p`),
//                    `++/--`, `&v`, a pointer-receiver method call on it (unless its type synchronises
//                    itself: sync.Pool, sync.Mutex, sync.Once, atomic values, bytebufferpool.Pool),
//                    or passing a slice/map/pointer-typed one to a function of another package.
//
// The C13 theorem fixes `globalWrites` to the configuration setters of the logger package; anything
// else (a lazily grown table, a cache, a counter) changes the list and breaks the obligation.

import (
	"fmt"
	"go/ast"
	"go/token"
	"go/types"
	"sort"
	"strings"
)

func selfSynchronised(t types.Type) bool {
	if p, ok := t.(*types.Pointer); ok {
		t = p.Elem()
	}
	n, ok := t.(*types.Named)
	if !ok || n.Obj().Pkg() == nil {
		return false
	}
	full := n.Obj().Pkg().Path() + "." + n.Obj().Name()
	switch full {
	case "sync.Pool", "sync.Mutex", "sync.RWMutex", "sync.Once", "sync.WaitGroup", "sync.Map",
		"github.com/valyala/bytebufferpool.Pool":
		return true
	}
	return n.Obj().Pkg().Path() == "sync/atomic"
}

func (w *world) isRepoGlobal(o types.Object) (*types.Var, bool) {
	v, ok := o.(*types.Var)
	if !ok || v.Pkg() == nil || v.IsField() || !strings.HasPrefix(v.Pkg().Path(), modPath) {
		return nil, false
	}
	return v, v.Parent() == v.Pkg().Scope()
}

// rootGlobal: the package-level variable an addressable expression is rooted in (x, x[i], x.f, *x, (x), x[a:b], pkg.x)
func (w *world) rootGlobal(info *types.Info, e ast.Expr) (*types.Var, bool) {
	for {
		switch t := e.(type) {
		case *ast.ParenExpr:
			e = t.X
		case *ast.IndexExpr:
			e = t.X
		case *ast.SliceExpr:
			e = t.X
		case *ast.StarExpr:
			e = t.X
		case *ast.SelectorExpr:
			if id, ok := t.X.(*ast.Ident); ok {
				if _, isPkg := info.Uses[id].(*types.PkgName); isPkg {
					return w.isRepoGlobal(info.Uses[t.Sel])
				}
			}
			if sel, ok := info.Selections[t]; ok && sel.Kind() != types.FieldVal {
				return nil, false
			}
			e = t.X
		case *ast.Ident:
			return w.isRepoGlobal(info.Uses[t])
		default:
			return nil, false
		}
	}
}

func varName(v *types.Var) string {
	p := v.Pkg().Path()
	return p[strings.LastIndex(p, "/")+1:] + "." + v.Name()
}

func (w *world) genGlobals() string {
	// inventory
	type pv struct{ name, cat, typ string }
	var vars []pv
	for path, p := range w.pkgs {
		if !strings.HasPrefix(path, modPath) {
			continue
		}
		for _, f := range p.Syntax {
			if strings.HasSuffix(w.fset.Position(f.Pos()).Filename, "_test.go") {
				continue
			}
			for _, d := range f.Decls {
				gd, ok := d.(*ast.GenDecl)
				if !ok || gd.Tok != token.VAR {
					continue
				}
				for _, sp := range gd.Specs {
					for _, id := range sp.(*ast.ValueSpec).Names {
						if id.Name == "_" {
							continue
						}
						v, ok := p.TypesInfo.Defs[id].(*types.Var)
						if !ok {
							continue
						}
						cat := "other"
						switch u := v.Type().Underlying().(type) {
						case *types.Map, *types.Slice, *types.Array:
							cat = "table"
						case *types.Interface:
							cat = "config"
							if types.Identical(v.Type(), types.Universe.Lookup("error").Type()) {
								cat = "error"
							}
						case *types.Basic:
							cat = "scalar"
						case *types.Pointer:
							_ = u
							cat = "pointer"
						}
						if selfSynchronised(v.Type()) {
							cat = "pool"
						}
						vars = append(vars, pv{varName(v), cat, types.TypeString(v.Type(), func(p *types.Package) string { return p.Name() })})
					}
				}
			}
		}
	}
	sort.Slice(vars, func(i, j int) bool { return vars[i].name < vars[j].name })

	// writes
	var writes []string
	seen := map[string]bool{}
	add := func(v *types.Var, fn, how string) {
		s := fmt.Sprintf("(%s, %s, %s)", q(varName(v)), q(fn), q(how))
		if !seen[s] {
			seen[s] = true
			writes = append(writes, s)
		}
	}
	var fns []*types.Func
	for fn := range w.funcs {
		if fn.Pkg() != nil && strings.HasPrefix(fn.Pkg().Path(), modPath) {
			fns = append(fns, fn)
		}
	}
	sort.Slice(fns, func(i, j int) bool {
		a, b := fullName(fns[i]), fullName(fns[j])
		if a != b {
			return a < b
		}
		return fns[i].Pos() < fns[j].Pos()
	})
	for _, fn := range fns {
		fd := w.funcs[fn]
		if fd.Body == nil || strings.HasSuffix(w.fset.Position(fd.Pos()).Filename, "_test.go") {
			continue
		}
		if fd.Recv == nil && fd.Name.Name == "init" {
			continue
		}
		info := w.infoOf[fd]
		name := funcDisplayName(fn)
		ast.Inspect(fd.Body, func(n ast.Node) bool {
			switch t := n.(type) {
			case *ast.AssignStmt:
				if t.Tok == token.DEFINE {
					return true
				}
				for _, l := range t.Lhs {
					if v, ok := w.rootGlobal(info, l); ok {
						add(v, name, "assign")
					}
				}
			case *ast.IncDecStmt:
				if v, ok := w.rootGlobal(info, t.X); ok {
					add(v, name, "incdec")
				}
			case *ast.RangeStmt:
				if t.Tok == token.ASSIGN {
					for _, l := range []ast.Expr{t.Key, t.Value} {
						if l != nil {
							if v, ok := w.rootGlobal(info, l); ok {
								add(v, name, "assign")
							}
						}
					}
				}
			case *ast.UnaryExpr:
				if t.Op == token.AND {
					if v, ok := w.rootGlobal(info, t.X); ok && !selfSynchronised(v.Type()) {
						add(v, name, "address-taken")
					}
				}
			case *ast.CallExpr:
				// pointer-receiver method on a global
				if se, ok := t.Fun.(*ast.SelectorExpr); ok {
					if sel, ok := info.Selections[se]; ok && sel.Kind() == types.MethodVal {
						if v, ok := w.rootGlobal(info, se.X); ok && !selfSynchronised(v.Type()) {
							if _, isIface := v.Type().Underlying().(*types.Interface); !isIface {
								if sig, ok := sel.Obj().Type().(*types.Signature); ok && sig.Recv() != nil {
									if _, ptr := sig.Recv().Type().(*types.Pointer); ptr {
										add(v, name, "pointer-method "+sel.Obj().Name())
									}
								}
							}
						}
					}
				}
				// a reference-typed global handed to a function outside the library (builtins len/cap/copy-src excluded)
				callee := calleeFullName(info, t)
				if id, ok := t.Fun.(*ast.Ident); ok {
					if _, isB := info.Uses[id].(*types.Builtin); isB {
						if id.Name == "copy" && len(t.Args) == 2 {
							if v, ok := w.rootGlobal(info, t.Args[0]); ok {
								add(v, name, "copy-into")
							}
						}
						if id.Name == "delete" || id.Name == "clear" {
							if v, ok := w.rootGlobal(info, t.Args[0]); ok {
								add(v, name, id.Name)
							}
						}
						return true
					}
				}
				if callee != "" && !strings.Contains(callee, modPath) {
					for _, a := range t.Args {
						id, ok := unparen(a).(*ast.Ident)
						if !ok {
							continue
						}
						if v, ok := w.isRepoGlobal(info.Uses[id]); ok && !selfSynchronised(v.Type()) {
							switch v.Type().Underlying().(type) {
							case *types.Map, *types.Slice, *types.Pointer:
								add(v, name, "passed-to "+callee)
							}
						}
					}
				}
			}
			return true
		})
	}
	// reference-typed tables must only be indexed, ranged over or measured: any other use could create an
	// alias through which they are written without the patterns above seeing it
	for _, fn := range fns {
		fd := w.funcs[fn]
		if fd.Body == nil || strings.HasSuffix(w.fset.Position(fd.Pos()).Filename, "_test.go") || (fd.Recv == nil && fd.Name.Name == "init") {
			continue
		}
		info := w.infoOf[fd]
		name := funcDisplayName(fn)
		var stack []ast.Node
		ast.Inspect(fd.Body, func(n ast.Node) bool {
			if n == nil {
				stack = stack[:len(stack)-1]
				return true
			}
			defer func() { stack = append(stack, n) }()
			id, ok := n.(*ast.Ident)
			if !ok {
				return true
			}
			v, ok := w.isRepoGlobal(info.Uses[id])
			if !ok || selfSynchronised(v.Type()) {
				return true
			}
			switch v.Type().Underlying().(type) {
			case *types.Map, *types.Slice, *types.Pointer:
			default:
				return true
			}
			// the expression the identifier is the operand of (skip `pkg.` qualification and parentheses)
			var cur ast.Node = id
			i := len(stack) - 1
			for i >= 0 {
				if se, ok := stack[i].(*ast.SelectorExpr); ok && se.Sel == cur {
					cur = se
					i--
					continue
				}
				if pe, ok := stack[i].(*ast.ParenExpr); ok {
					cur = pe
					i--
					continue
				}
				break
			}
			if i < 0 {
				return true
			}
			switch par := stack[i].(type) {
			case *ast.IndexExpr:
				if par.X == cur {
					return true // g[k] (a write through it is reported above)
				}
			case *ast.RangeStmt:
				if par.X == cur {
					return true
				}
			case *ast.CallExpr:
				if f, ok := par.Fun.(*ast.Ident); ok && (f.Name == "len" || f.Name == "cap") {
					if _, isB := info.Uses[f].(*types.Builtin); isB {
						return true
					}
				}
			case *ast.AssignStmt:
				for _, l := range par.Lhs {
					if l == cur {
						return true // assignment to the variable itself: reported above
					}
				}
			}
			add(v, name, "escapes")
			return true
		})
	}
	var sb strings.Builder
	var vs []string
	for _, v := range vars {
		vs = append(vs, fmt.Sprintf("(%s, %s, %s)", q(v.name), q(v.cat), q(v.typ)))
	}
	fmt.Fprintf(&sb, "/-- every package-level variable of the library (non-test files): name, category, type -/\ndef packageVars : List (String × String × String) := %s\n\n", leanList(vs, "  "))
	fmt.Fprintf(&sb, "/-- every place outside `init` where a package-level variable can be written: variable, function, how -/\ndef globalWrites : List (String × String × String) := %s\n\n", leanList(writes, "  "))
	return sb.String()
}
