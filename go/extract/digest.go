package main

// Digest inputs (C15): the octet string each authenticator function feeds to MD5, regenerated from
// the syntax as a list of pieces: a parameter (`[]byte(p)`, `p`), a run of zero octets
// (`make([]byte, n)`, `[]byte{0, …}`), a parameter printed with "%010d".  Two shapes are recognised,
// `md5.Sum(bytes.Join([][]byte{…}, nil))` and a `bytes.Buffer` filled by `WriteString` / `Write` and
// handed to `md5.New().Write`; every other statement of the function must be one of the few listed
// below, otherwise the function's entry is `unrecognised <pos>` and the C15 obligation fails.

import (
	"fmt"
	"go/ast"
	"go/constant"
	"go/types"
	"strings"
)

var digestFuncs = []string{modPath + "/cmpp.GenConnectAuth", modPath + "/cmpp.GenConnectRespAuthISMG", modPath + "/cmpp/cmpp20.NewConnect", modPath + "/smgp/smgp30.genAuthenticatorClient"}

func (w *world) piece(info *types.Info, x ast.Expr) (string, bool) {
	x = unparen(x)
	switch t := x.(type) {
	case *ast.Ident:
		if v, ok := info.Uses[t].(*types.Var); ok && !v.IsField() {
			return ".param " + q(t.Name), true
		}
	case *ast.CallExpr:
		// []byte(p)
		if tv, ok := info.Types[t.Fun]; ok && tv.IsType() && len(t.Args) == 1 {
			if id, ok := unparen(t.Args[0]).(*ast.Ident); ok {
				if _, ok := info.Uses[id].(*types.Var); ok {
					return ".param " + q(id.Name), true
				}
			}
			return "", false
		}
		name := calleeFullName(info, t)
		// make([]byte, n)
		if id, ok := t.Fun.(*ast.Ident); ok && id.Name == "make" && len(t.Args) == 2 {
			if tv := info.Types[t.Args[1]]; tv.Value != nil {
				if n, ok := constant.Int64Val(tv.Value); ok {
					return fmt.Sprintf(".zeros %d", n), true
				}
			}
		}
		// fmt.Sprintf("%010d", p)
		if name == "fmt.Sprintf" && len(t.Args) == 2 {
			if tv := info.Types[t.Args[0]]; tv.Value != nil && constant.StringVal(tv.Value) == "%010d" {
				if id, ok := unparen(t.Args[1]).(*ast.Ident); ok {
					return ".dec10 " + q(id.Name), true
				}
			}
		}
	case *ast.CompositeLit:
		// []byte{0, 0, …}
		n := 0
		for _, e := range t.Elts {
			tv := info.Types[e]
			if tv.Value == nil || constant.Sign(tv.Value) != 0 {
				return "", false
			}
			n++
		}
		return fmt.Sprintf(".zeros %d", n), true
	}
	return "", false
}

func (w *world) digestOf(fn *types.Func) []string {
	fd := w.funcs[fn]
	info := w.infoOf[fd]
	bad := func(n ast.Node) []string { return []string{".unrecognised " + q(w.pos(n))} }
	var pieces []string
	found := false
	var bufObj types.Object
	fromJoin := func(arg ast.Expr) ([]string, bool) {
		c, ok := unparen(arg).(*ast.CallExpr)
		if !ok || calleeFullName(info, c) != "bytes.Join" || len(c.Args) != 2 {
			return nil, false
		}
		if id, ok := unparen(c.Args[1]).(*ast.Ident); !ok || id.Name != "nil" {
			return nil, false
		}
		cl, ok := unparen(c.Args[0]).(*ast.CompositeLit)
		if !ok {
			return nil, false
		}
		var ps []string
		for _, e := range cl.Elts {
			p, ok := w.piece(info, e)
			if !ok {
				return nil, false
			}
			ps = append(ps, p)
		}
		return ps, true
	}
	// md5Concat(a, b, c): a library helper `func h(parts ...[]byte) []byte { s := md5.Sum(bytes.Join(parts, nil)); return s[:] }`
	fromHelper := func(x ast.Expr) ([]string, bool) {
		c, ok := unparen(x).(*ast.CallExpr)
		if !ok || c.Ellipsis.IsValid() {
			return nil, false
		}
		var hfn *types.Func
		switch f := unparen(c.Fun).(type) {
		case *ast.Ident:
			hfn, _ = info.Uses[f].(*types.Func)
		case *ast.SelectorExpr:
			hfn, _ = info.Uses[f.Sel].(*types.Func)
		}
		if hfn == nil || hfn.Pkg() == nil || !strings.HasPrefix(hfn.Pkg().Path(), modPath) {
			return nil, false
		}
		hfd := w.funcs[hfn]
		sig := hfn.Type().(*types.Signature)
		if hfd == nil || hfd.Body == nil || !sig.Variadic() || sig.Params().Len() != 1 || len(hfd.Body.List) != 2 {
			return nil, false
		}
		hinfo := w.infoOf[hfd]
		param := sig.Params().At(0)
		a, ok1 := hfd.Body.List[0].(*ast.AssignStmt)
		r, ok2 := hfd.Body.List[1].(*ast.ReturnStmt)
		if !ok1 || !ok2 || len(a.Lhs) != 1 || len(a.Rhs) != 1 || len(r.Results) != 1 {
			return nil, false
		}
		sc, ok := unparen(a.Rhs[0]).(*ast.CallExpr)
		if !ok || calleeFullName(hinfo, sc) != "crypto/md5.Sum" || len(sc.Args) != 1 {
			return nil, false
		}
		jc, ok := unparen(sc.Args[0]).(*ast.CallExpr)
		if !ok || calleeFullName(hinfo, jc) != "bytes.Join" || len(jc.Args) != 2 || !isObjIdent(hinfo, jc.Args[0], param) {
			return nil, false
		}
		if id, ok := unparen(jc.Args[1]).(*ast.Ident); !ok || id.Name != "nil" {
			return nil, false
		}
		sl, ok := unparen(r.Results[0]).(*ast.SliceExpr)
		if !ok || sl.Low != nil || sl.High != nil || !isObjIdent(hinfo, sl.X, hinfo.Defs[a.Lhs[0].(*ast.Ident)]) {
			return nil, false
		}
		var ps []string
		for _, e := range c.Args {
			p, ok := w.piece(info, e)
			if !ok {
				return nil, false
			}
			ps = append(ps, p)
		}
		return ps, true
	}
	for _, st := range fd.Body.List {
		switch s := st.(type) {
		case *ast.AssignStmt:
			if len(s.Rhs) != 1 {
				return bad(st)
			}
			if ps, ok := fromHelper(s.Rhs[0]); ok && !found {
				pieces, found = ps, true
				continue
			}
			c, isCall := unparen(s.Rhs[0]).(*ast.CallExpr)
			if !isCall {
				// e.g. connectPdu := &PduConnect{…}: allowed only after the digest has been taken, and it must not touch md5
				if found && !mentions(info, s.Rhs[0], "crypto/md5") {
					continue
				}
				return bad(st)
			}
			switch name := calleeFullName(info, c); {
			case name == "crypto/md5.Sum" && len(c.Args) == 1 && !found:
				ps, ok := fromJoin(c.Args[0])
				if !ok {
					return bad(st)
				}
				pieces, found = ps, true
			case name == "new" || (len(c.Args) == 1 && fmt.Sprint(c.Fun) == "new"):
				// buf := new(bytes.Buffer)
				if id, ok := s.Lhs[0].(*ast.Ident); ok && bufObj == nil {
					bufObj = info.Defs[id]
					continue
				}
				return bad(st)
			case name == "crypto/md5.New":
				continue
			case strings.HasSuffix(name, ".Write") && len(c.Args) == 1 && bufObj != nil && !found:
				// _, err := h.Write(buf.Bytes())
				bc, ok := unparen(c.Args[0]).(*ast.CallExpr)
				if !ok {
					return bad(st)
				}
				se, ok := bc.Fun.(*ast.SelectorExpr)
				if !ok || se.Sel.Name != "Bytes" || !isObjIdent(info, se.X, bufObj) {
					return bad(st)
				}
				found = true
			default:
				// a call that does not involve md5 or the buffer (e.g. `t, ts := now()`)
				if !mentions(info, s.Rhs[0], "crypto/md5") && (bufObj == nil || !usesObj(info, s.Rhs[0], bufObj)) {
					continue
				}
				return bad(st)
			}
		case *ast.ExprStmt:
			c, ok := s.X.(*ast.CallExpr)
			if !ok {
				return bad(st)
			}
			// fmt.Fprintf(buf, "%010d", x)
			if calleeFullName(info, c) == "fmt.Fprintf" && len(c.Args) == 3 && bufObj != nil && isObjIdent(info, c.Args[0], bufObj) && !found {
				if tv := info.Types[c.Args[1]]; tv.Value != nil && constant.StringVal(tv.Value) == "%010d" {
					if id, ok := unparen(c.Args[2]).(*ast.Ident); ok {
						pieces = append(pieces, ".dec10 "+q(id.Name))
						continue
					}
				}
				return bad(st)
			}
			se, ok := c.Fun.(*ast.SelectorExpr)
			if !ok || bufObj == nil || !isObjIdent(info, se.X, bufObj) || found || len(c.Args) != 1 || (se.Sel.Name != "WriteString" && se.Sel.Name != "Write") {
				return bad(st)
			}
			p, ok := w.piece(info, c.Args[0])
			if !ok {
				return bad(st)
			}
			pieces = append(pieces, p)
		case *ast.IfStmt:
			// if _, err := h.Write(buf.Bytes()); err != nil { return nil, err }
			if a, ok := s.Init.(*ast.AssignStmt); ok && !found && bufObj != nil && len(a.Rhs) == 1 {
				if c, ok := unparen(a.Rhs[0]).(*ast.CallExpr); ok && len(c.Args) == 1 && strings.HasSuffix(calleeFullName(info, c), ".Write") {
					if bc, ok := unparen(c.Args[0]).(*ast.CallExpr); ok {
						if se, ok := bc.Fun.(*ast.SelectorExpr); ok && se.Sel.Name == "Bytes" && isObjIdent(info, se.X, bufObj) {
							found = true
							continue
						}
					}
				}
				return bad(st)
			}
			if !found || s.Init != nil {
				return bad(st)
			}
		case *ast.ReturnStmt:
			if !found && len(s.Results) == 1 {
				if ps, ok := fromHelper(s.Results[0]); ok {
					pieces, found = ps, true
					continue
				}
			}
			if !found {
				return bad(st)
			}
		default:
			return bad(st)
		}
	}
	if !found {
		return []string{".unrecognised " + q(w.pos(fd))}
	}
	return pieces
}

func isObjIdent(info *types.Info, x ast.Expr, o types.Object) bool {
	id, ok := unparen(x).(*ast.Ident)
	return ok && info.Uses[id] == o
}

func mentions(info *types.Info, n ast.Node, pkgPath string) bool {
	hit := false
	ast.Inspect(n, func(m ast.Node) bool {
		if id, ok := m.(*ast.Ident); ok {
			if pn, ok := info.Uses[id].(*types.PkgName); ok && pn.Imported().Path() == pkgPath {
				hit = true
			}
		}
		return !hit
	})
	return hit
}

func (w *world) genDigests() string {
	var sb strings.Builder
	sb.WriteString("inductive Piece where\n  | param (name : String)\n  | zeros (n : Nat)\n  | dec10 (name : String)\n  | unrecognised (pos : String)\n  deriving Repr, DecidableEq\n\n")
	var rows []string
	for _, full := range digestFuncs {
		var fn *types.Func
		for f := range w.funcs {
			if fullName(f) == full {
				fn = f
			}
		}
		short := full[strings.LastIndex(full, "/")+1:]
		ps := []string{".unrecognised " + q("not found")}
		if fn != nil && w.funcs[fn].Body != nil {
			ps = w.digestOf(fn)
		}
		rows = append(rows, fmt.Sprintf("(%s, [%s])", q(short), strings.Join(ps, ", ")))
	}
	fmt.Fprintf(&sb, "/-- what each authenticator function hands to MD5, piece by piece -/\ndef digestInputs : List (String × List Piece) := %s\n\n", leanList(rows, "  "))
	// cmpp.TimeStamp2Str: `return fmt.Sprintf("%010d", t)`
	tsFmt := "?"
	for f, fd := range w.funcs {
		if fullName(f) == modPath+"/cmpp.TimeStamp2Str" && fd.Body != nil && len(fd.Body.List) == 1 {
			if r, ok := fd.Body.List[0].(*ast.ReturnStmt); ok && len(r.Results) == 1 {
				if c, ok := r.Results[0].(*ast.CallExpr); ok && calleeFullName(w.infoOf[fd], c) == "fmt.Sprintf" && len(c.Args) == 2 {
					if tv := w.infoOf[fd].Types[c.Args[0]]; tv.Value != nil {
						tsFmt = constant.StringVal(tv.Value)
					}
				}
			}
		}
	}
	fmt.Fprintf(&sb, "/-- format of `cmpp.TimeStamp2Str` -/\ndef timestampFormat : String := %s\n\n", q(tsFmt))
	return sb.String()
}
